import LzmaVerif.Proofs.TruncRc
import LzmaVerif.Props.C01
/-!
# Truncation, level 2: raw LZMA streams

`decodeRaw_trunc` is a statement about the DECODER alone: if `decodeRaw` accepts an input and reports `c` consumed
bytes, then on every prefix of the input shorter than `c` it answers `UnexpectedEof` (same parameters, same `cap`).
With the round-trip theorems of C01 (`consumed = bytes.length`) this gives: every proper prefix of the model encoder's
output for a valid parse is rejected with `UnexpectedEof` (`lzma_trunc_size`, `lzma_trunc_marker`).
-/
namespace LzmaVerif.Lzma
open LzmaVerif Prog Rc

/-- the program `decodeRaw` runs -/
def rawProg (pr : Params) (dictBuf : Nat) (preset : Array Nat) (size : Option Nat) (cap : Nat) : Prog LoopRes :=
  loopProg pr dictBuf (match size with | some n => n + 1 | none => cap + 1) size Coder.init
    (presetUsedOf preset dictBuf) [] 0

def rawPs0 (pr : Params) : Probs := Array.replicate (numProbs pr.lc pr.lp) PROB_INIT

theorem init_some (b1 b2 b3 b4 : Nat) (rest : List Nat) :
    Dec.init (0 :: b1 :: b2 :: b3 :: b4 :: rest)
      = some { range := 0xFFFFFFFF, code := ((b1 * 256 + b2) * 256 + b3) * 256 + b4, inp := rest, over := 0 } := by
  simp [Dec.init]

theorem init_inv {inp : List Nat} {d0 : Dec} (h : Dec.init inp = some d0) :
    ∃ b1 b2 b3 b4 rest, inp = 0 :: b1 :: b2 :: b3 :: b4 :: rest ∧
      d0 = { range := 0xFFFFFFFF, code := ((b1 * 256 + b2) * 256 + b3) * 256 + b4, inp := rest, over := 0 } := by
  rcases inp with _ | ⟨b0, _ | ⟨b1, _ | ⟨b2, _ | ⟨b3, _ | ⟨b4, rest⟩⟩⟩⟩⟩
  all_goals (try (simp [Dec.init] at h))
  obtain ⟨h0, h1⟩ := h
  subst h0
  exact ⟨b1, b2, b3, b4, rest, rfl, h1.symm⟩

theorem init_short (inp : List Nat) (k : Nat) (hk : k < 5) : Dec.init (inp.take k) = none := by
  have hl : (inp.take k).length < 5 := by rw [List.length_take]; omega
  generalize inp.take k = l at hl
  rcases l with _ | ⟨b0, _ | ⟨b1, _ | ⟨b2, _ | ⟨b3, _ | ⟨b4, rest⟩⟩⟩⟩⟩
  all_goals (try rfl)
  simp only [List.length_cons] at hl
  omega

/-- **A truncated range-coder stream makes the decoder run out, for every decision program.**  If `input` lets the
    decoder start (`Dec.init`), run `prog` and, after the final `normalize`, have consumed `c` bytes without reading
    past the end, then on every prefix shorter than `c` either the decoder cannot start (fewer than 5 bytes) or the
    same run ends having read past the end (`over > 0`). -/
theorem decRun_trunc {α : Type} (prog : Prog α) (ps : Probs) (input : List Nat) (d0' : Dec) (a' : α) (ps' : Probs)
    (e' : Dec) (hinit' : Dec.init input = some d0') (hrun' : prog.decRun ps d0' = (a', ps', e'))
    (k : Nat) (hk : k < input.length - e'.normalize.inp.length) :
    Dec.init (input.take k) = none ∨
    ∃ d0 a ps₁ e, Dec.init (input.take k) = some d0 ∧ prog.decRun ps d0 = (a, ps₁, e) ∧ e.normalize.over > 0 := by
  by_cases hk5 : k < 5
  · exact Or.inl (init_short input k hk5)
  · right
    obtain ⟨b1, b2, b3, b4, rest, rfl, rfl⟩ := init_inv hinit'
    obtain ⟨j, rfl⟩ : ∃ j, k = j + 5 := ⟨k - 5, by omega⟩
    have htake : (0 :: b1 :: b2 :: b3 :: b4 :: rest).take (j + 5) = 0 :: b1 :: b2 :: b3 :: b4 :: rest.take j := by
      simp [List.take]
    rw [htake]
    have hext : ExtBy (rest.drop j)
        { range := 0xFFFFFFFF, code := ((b1 * 256 + b2) * 256 + b3) * 256 + b4, inp := rest.take j, over := 0 }
        { range := 0xFFFFFFFF, code := ((b1 * 256 + b2) * 256 + b3) * 256 + b4, inp := rest, over := 0 } :=
      ⟨rfl, rfl, rfl, rfl, (List.take_append_drop j rest).symm⟩
    generalize hrun : prog.decRun ps
      { range := 0xFFFFFFFF, code := ((b1 * 256 + b2) * 256 + b3) * 256 + b4, inp := rest.take j, over := 0 } = t
    obtain ⟨a, ps₁, e⟩ := t
    refine ⟨_, a, ps₁, e, init_some b1 b2 b3 b4 _, hrun, ?_⟩
    rcases decRun_extBy _ _ _ _ _ hext a a' ps₁ ps' e e' hrun hrun' with ho | ⟨_, _, he⟩
    · have := normalize_over_le e; omega
    · rcases normalize_ext he with ho | hen
      · exact ho
      · exfalso
        have hl := congrArg List.length hen.2.2.2.2
        rw [List.length_append, List.length_drop] at hl
        simp only [List.length_cons] at hk
        omega

/-- … in particular for the model encoder's output (hypotheses of `rc_roundtrip`): every proper prefix of the
    encoded bytes makes the decoder run out -/
theorem rc_trunc {α : Type} (prog : Prog α) (bits : List Bool) (ps : Probs) (hps : ProbsOk ps)
    (a : α) (ps' : Probs) (e' : Enc)
    (henc : prog.encRun bits ps Enc.init = some (a, [], ps', e')) (k : Nat) (hk : k < e'.bytes.length) :
    Dec.init (e'.bytes.take k) = none ∨
    ∃ d0 a₁ ps₁ e, Dec.init (e'.bytes.take k) = some d0 ∧ prog.decRun ps d0 = (a₁, ps₁, e) ∧
      e.normalize.over > 0 := by
  obtain ⟨d0', d', hinit, hdec, hinp, _⟩ := rc_roundtrip prog bits ps hps a ps' e' henc []
  rw [List.append_nil] at hinit
  exact decRun_trunc prog ps e'.bytes d0' a ps' d' hinit hdec k (by rw [hinp]; simpa using hk)

/-- how `decodeRaw` turns the result of the symbol loop into its answer (`len` = length of the input): the model's
    `rawFinish` (tail of `LZMAReader::read_decode`) -/
def rawResult (preset : Array Nat) (dictBuf : Nat) (size : Option Nat) (len : Nat) (r : LoopRes) (e : Dec) : DecOut :=
  rawFinish (presetUsedOf preset dictBuf).size size len r e

/-- `decodeRaw` after a successful `init`, in terms of a named run of the loop program -/
theorem decodeRaw_run (pr : Params) (dictBuf : Nat) (preset : Array Nat) (size : Option Nat)
    (b0 : Nat) (tl : List Nat) (cap : Nat) (d0 : Dec) (hb : b0 = 0) (hinit : Dec.init (b0 :: tl) = some d0)
    (r : LoopRes) (ps : Probs) (e : Dec)
    (hrun : (rawProg pr dictBuf preset size cap).decRun (rawPs0 pr) d0 = (r, ps, e)) :
    decodeRaw pr dictBuf preset size (b0 :: tl) cap = rawResult preset dictBuf size (b0 :: tl).length r e := by
  rw [Props.C01.decodeRaw_eq pr dictBuf preset size b0 tl cap d0 hb hinit]
  unfold rawProg rawPs0 at hrun
  unfold rawResult
  cases size <;> simp only at hrun ⊢ <;> rw [hrun]

/-- a byte was already missing when the symbol loop stopped: `UnexpectedEof`, whatever the loop stopped for
    (`stream_error()` is looked at before the result of `decode`) -/
theorem rawResult_over0 (preset : Array Nat) (dictBuf : Nat) (size : Option Nat) (len : Nat) (r : LoopRes) (e : Dec)
    (h : e.over > 0) : rawResult preset dictBuf size len r e = .err .eof := by
  have hn : e.normalize.over > 0 := Nat.lt_of_lt_of_le h (normalize_over_le e)
  unfold rawResult rawFinish
  cases hs : r.stop.isRepeatErr
  · simp only [Bool.false_eq_true, if_false, if_pos hn]
  · simp only [if_true, if_pos h]

/-- the loop did not stop for a corrupt symbol and the final normalisation misses a byte: `UnexpectedEof`.
    (For a corrupt symbol - `isRepeatErr`, i.e. "dist overflow" / an end marker - the decoder does not normalise; see
    `rawResult_repeatErr`.) -/
theorem rawResult_over (preset : Array Nat) (dictBuf : Nat) (size : Option Nat) (len : Nat) (r : LoopRes) (e : Dec)
    (hs : r.stop.isRepeatErr = false ∨ (r.stop = .endMarker ∧ size = none))
    (h : e.normalize.over > 0) : rawResult preset dictBuf size len r e = .err .eof := by
  by_cases h0 : e.over > 0
  · exact rawResult_over0 preset dictBuf size len r e h0
  · rcases hs with hs | ⟨hs, hsz⟩
    · unfold rawResult rawFinish
      simp only [hs, Bool.false_eq_true, if_false, if_pos h]
    · subst hsz
      unfold rawResult rawFinish
      simp only [hs, Stop.isRepeatErr, if_true, if_neg h0, if_pos h]

/-- the deviation that used to be tolerated, as a theorem about the model: a corrupt symbol reached without a missing
    byte is `Other`, even if the byte the next normalisation would ask for is not there -/
theorem rawResult_repeatErr (preset : Array Nat) (dictBuf : Nat) (size : Option Nat) (len : Nat) (r : LoopRes) (e : Dec)
    (hs : r.stop = .distOverflow ∨ (r.stop = .endMarker ∧ size.isSome)) (h : e.over = 0) :
    rawResult preset dictBuf size len r e = .err .other := by
  unfold rawResult rawFinish
  rcases hs with hs | ⟨hs, hsz⟩
  · simp only [hs, Stop.isRepeatErr, if_true, h, Nat.lt_irrefl, if_false]
  · obtain ⟨n, rfl⟩ := Option.isSome_iff_exists.mp hsz
    simp only [hs, Stop.isRepeatErr, if_true, h, Nat.lt_irrefl, if_false]

theorem rawResult_ok {preset : Array Nat} {dictBuf : Nat} {size : Option Nat} {len : Nat} {r : LoopRes} {e : Dec}
    {out : Array Nat} {c : Nat} {parse : List Sym}
    (h : rawResult preset dictBuf size len r e = .ok out c parse) :
    e.normalize.over = 0 ∧ c = len - e.normalize.inp.length ∧
      (r.stop = .limit ∨ (r.stop = .endMarker ∧ size = none)) := by
  unfold rawResult rawFinish at h
  rcases r with ⟨stop, coder, hist, parse', em⟩
  cases stop <;> simp only [Stop.isRepeatErr, Bool.false_eq_true, if_false, if_true] at h
  · -- limit
    by_cases hov : e.normalize.over > 0
    · rw [if_pos hov] at h; cases h
    · rw [if_neg hov] at h
      injection h with _ hc _
      exact ⟨by omega, hc.symm, Or.inl rfl⟩
  · -- endMarker
    by_cases hov : e.over > 0
    · rw [if_pos hov] at h; cases h
    · rw [if_neg hov] at h
      cases size with
      | some n => cases h
      | none =>
        simp only at h
        by_cases hov' : e.normalize.over > 0
        · rw [if_pos hov'] at h; cases h
        · rw [if_neg hov'] at h
          injection h with _ hc _
          exact ⟨by omega, hc.symm, Or.inr ⟨rfl, rfl⟩⟩
  · -- distOverflow
    by_cases hov : e.over > 0
    · rw [if_pos hov] at h; cases h
    · rw [if_neg hov] at h; cases h
  · -- overrun
    by_cases hov : e.normalize.over > 0
    · rw [if_pos hov] at h; cases h
    · rw [if_neg hov] at h; cases h
  · -- fuel
    by_cases hov : e.normalize.over > 0
    · rw [if_pos hov] at h; cases h
    · rw [if_neg hov] at h; cases h

/-- inversion: what an accepted input looks like -/
theorem decodeRaw_ok_inv {pr : Params} {dictBuf : Nat} {preset : Array Nat} {size : Option Nat}
    {input : List Nat} {cap : Nat} {out : Array Nat} {c : Nat} {parse : List Sym}
    (h : decodeRaw pr dictBuf preset size input cap = .ok out c parse) :
    ∃ b1 b2 b3 b4 rest d0 r ps e, input = 0 :: b1 :: b2 :: b3 :: b4 :: rest ∧
      Dec.init input = some d0 ∧ d0.inp = rest ∧ d0.over = 0 ∧
      (rawProg pr dictBuf preset size cap).decRun (rawPs0 pr) d0 = (r, ps, e) ∧
      e.normalize.over = 0 ∧ c = input.length - e.normalize.inp.length ∧
      (r.stop = .limit ∨ (r.stop = .endMarker ∧ size = none)) := by
  cases input with
  | nil => simp only [decodeRaw] at h; cases h
  | cons b0 tl =>
    by_cases hb : b0 = 0
    · subst hb
      rcases tl with _ | ⟨b1, _ | ⟨b2, _ | ⟨b3, _ | ⟨b4, rest⟩⟩⟩⟩
      · simp [decodeRaw, Dec.init] at h
      · simp [decodeRaw, Dec.init] at h
      · simp [decodeRaw, Dec.init] at h
      · simp [decodeRaw, Dec.init] at h
      · have hinit := init_some b1 b2 b3 b4 rest
        generalize hrun : (rawProg pr dictBuf preset size cap).decRun (rawPs0 pr)
          { range := 0xFFFFFFFF, code := ((b1 * 256 + b2) * 256 + b3) * 256 + b4, inp := rest, over := 0 } = t
        obtain ⟨r, ps, e⟩ := t
        rw [decodeRaw_run pr dictBuf preset size 0 _ cap _ rfl hinit r ps e hrun] at h
        exact ⟨b1, b2, b3, b4, rest, _, r, ps, e, rfl, hinit, rfl, rfl, hrun, rawResult_ok h⟩
    · simp only [decodeRaw, ne_eq, hb, not_false_eq_true, if_true] at h
      cases h

/-- a stream cut inside the 5 bytes the range decoder needs to start -/
theorem decodeRaw_short (pr : Params) (dictBuf : Nat) (preset : Array Nat) (size : Option Nat) (cap : Nat)
    (b1 b2 b3 b4 : Nat) (rest : List Nat) (k : Nat) (hk : k < 5) :
    decodeRaw pr dictBuf preset size ((0 :: b1 :: b2 :: b3 :: b4 :: rest).take k) cap = .err .eof := by
  match k, hk with
  | 0, _ => rfl
  | 1, _ => simp [decodeRaw, Dec.init]
  | 2, _ => simp [decodeRaw, Dec.init]
  | 3, _ => simp [decodeRaw, Dec.init]
  | 4, _ => simp [decodeRaw, Dec.init]

/-- **A truncated raw LZMA stream is never accepted** (decoder-only form).  If the decoder accepts `input` having
    consumed `c` bytes, then every prefix shorter than `c` is rejected with `UnexpectedEof`: the range decoder reads
    past the end of the prefix, and `decodeRaw` looks at that before anything else. -/
theorem decodeRaw_trunc {pr : Params} {dictBuf : Nat} {preset : Array Nat} {size : Option Nat}
    {input : List Nat} {cap : Nat} {out : Array Nat} {c : Nat} {parse : List Sym}
    (h : decodeRaw pr dictBuf preset size input cap = .ok out c parse) (k : Nat) (hk : k < c) :
    decodeRaw pr dictBuf preset size (input.take k) cap = .err .eof := by
  obtain ⟨b1, b2, b3, b4, rest, d0', r', ps', e', rfl, hinit', hd0i, hd0o, hrun', hov', hc, hstop'⟩ := decodeRaw_ok_inv h
  by_cases hk5 : k < 5
  · exact decodeRaw_short pr dictBuf preset size cap b1 b2 b3 b4 rest k hk5
  · obtain ⟨j, rfl⟩ : ∃ j, k = j + 5 := ⟨k - 5, by omega⟩
    have htake : (0 :: b1 :: b2 :: b3 :: b4 :: rest).take (j + 5) = 0 :: b1 :: b2 :: b3 :: b4 :: rest.take j := by
      simp [List.take]
    rw [htake]
    have hinit := init_some b1 b2 b3 b4 (rest.take j)
    rw [init_some] at hinit'
    injection hinit' with hinit'
    subst hinit'
    -- the two initial states differ by the cut-off bytes only
    have hext : ExtBy (rest.drop j)
        { range := 0xFFFFFFFF, code := ((b1 * 256 + b2) * 256 + b3) * 256 + b4, inp := rest.take j, over := 0 }
        { range := 0xFFFFFFFF, code := ((b1 * 256 + b2) * 256 + b3) * 256 + b4, inp := rest, over := 0 } :=
      ⟨rfl, rfl, rfl, rfl, (List.take_append_drop j rest).symm⟩
    generalize hrun : (rawProg pr dictBuf preset size cap).decRun (rawPs0 pr)
      { range := 0xFFFFFFFF, code := ((b1 * 256 + b2) * 256 + b3) * 256 + b4, inp := rest.take j, over := 0 } = t
    obtain ⟨r, ps, e⟩ := t
    rw [decodeRaw_run pr dictBuf preset size 0 _ cap _ rfl hinit r ps e hrun]
    -- either the short run has read past its end (then `UnexpectedEof` whatever it stopped for), or it misses no
    -- byte: then it ends like the full run (same stop reason: the declared size / the end marker, where the decoder
    -- normalises before it looks at the source's error) and the final normalisation reads past the end
    rcases decRun_extBy _ _ _ _ _ hext r r' ps ps' e e' hrun hrun' with ho | ⟨hr, _, he⟩
    · exact rawResult_over0 _ _ _ _ _ _ ho
    · subst hr
      have hover : e.normalize.over > 0 := by
        rcases normalize_ext he with ho | hen
        · exact ho
        · exfalso
          have hl := congrArg List.length hen.2.2.2.2
          rw [List.length_append, List.length_drop] at hl
          simp only [List.length_cons] at hc
          omega
      refine rawResult_over _ _ _ _ _ _ ?_ hover
      rcases hstop' with hs | ⟨hs, hsz⟩
      · left; rw [hs]; rfl
      · right; exact ⟨hs, hsz⟩

/-- the same, as "not accepted" -/
theorem decodeRaw_trunc_not_ok {pr : Params} {dictBuf : Nat} {preset : Array Nat} {size : Option Nat}
    {input : List Nat} {cap : Nat} {out : Array Nat} {c : Nat} {parse : List Sym}
    (h : decodeRaw pr dictBuf preset size input cap = .ok out c parse) (k : Nat) (hk : k < c)
    (out' : Array Nat) (c' : Nat) (parse' : List Sym) :
    decodeRaw pr dictBuf preset size (input.take k) cap ≠ .ok out' c' parse' := by
  rw [decodeRaw_trunc h k hk]
  intro hc; cases hc

end LzmaVerif.Lzma

namespace LzmaVerif.Props.C05
open LzmaVerif Lzma Prog Rc

/-- **Truncated LZMA stream, declared size.**  For every valid parse (hypotheses of `C01.lzma_roundtrip_size`), the
    model encoder's output `bytes` decodes (alone) to the data with all bytes consumed, and EVERY proper prefix of
    `bytes` is rejected with `UnexpectedEof`. -/
theorem lzma_trunc_size (pr : Params) (dictBuf : Nat) (preset : Array Nat) (parse : List Sym) (n : Nat)
    (c' : Coder) (h' : Hist)
    (hp : parseRun dictBuf parse Coder.init (presetUsedOf preset dictBuf) = some (c', h'))
    (hn : h'.size = (presetUsedOf preset dictBuf).size + n) (cap : Nat) :
    ∃ bytes, encodeParse pr dictBuf (presetUsedOf preset dictBuf) (some n) (n + 1) parse = some bytes ∧
      decodeRaw pr dictBuf preset (some n) bytes cap
        = .ok (h'.extract (presetUsedOf preset dictBuf).size h'.size) bytes.length parse ∧
      ∀ k, k < bytes.length → decodeRaw pr dictBuf preset (some n) (bytes.take k) cap = .err .eof := by
  obtain ⟨bytes, henc, hdec⟩ := C01.lzma_roundtrip_size pr dictBuf preset parse n c' h' hp hn [] cap
  rw [List.append_nil] at hdec
  exact ⟨bytes, henc, hdec, fun k hk => decodeRaw_trunc hdec k hk⟩

/-- **Truncated LZMA stream, end marker.**  Same for streams terminated by the end marker
    (hypotheses of `C01.lzma_roundtrip_marker`). -/
theorem lzma_trunc_marker (pr : Params) (dictBuf : Nat) (hd : dictBuf ≤ END_DIST) (preset : Array Nat)
    (parse : List Sym) (mlen : Nat) (hm : 2 ≤ mlen ∧ mlen ≤ 273) (c' : Coder) (h' : Hist)
    (hp : parseRun dictBuf parse Coder.init (presetUsedOf preset dictBuf) = some (c', h'))
    (cap : Nat) (hcap : parse.length < cap) :
    ∃ bytes, encodeParse pr dictBuf (presetUsedOf preset dictBuf) none (cap + 1) (parse ++ [.mtch END_DIST mlen]) = some bytes ∧
      decodeRaw pr dictBuf preset none bytes cap
        = .ok (h'.extract (presetUsedOf preset dictBuf).size h'.size) bytes.length (parse ++ [.mtch END_DIST mlen]) ∧
      ∀ k, k < bytes.length → decodeRaw pr dictBuf preset none (bytes.take k) cap = .err .eof := by
  obtain ⟨bytes, henc, hdec⟩ := C01.lzma_roundtrip_marker pr dictBuf hd preset parse mlen hm c' h' hp [] cap hcap
  rw [List.append_nil] at hdec
  exact ⟨bytes, henc, hdec, fun k hk => decodeRaw_trunc hdec k hk⟩

/-- the cut may also fall inside a stream that is followed by other bytes (container payloads) -/
theorem lzma_trunc_size_rest (pr : Params) (dictBuf : Nat) (preset : Array Nat) (parse : List Sym) (n : Nat)
    (c' : Coder) (h' : Hist)
    (hp : parseRun dictBuf parse Coder.init (presetUsedOf preset dictBuf) = some (c', h'))
    (hn : h'.size = (presetUsedOf preset dictBuf).size + n) (rest : List Nat) (cap : Nat) :
    ∃ bytes, encodeParse pr dictBuf (presetUsedOf preset dictBuf) (some n) (n + 1) parse = some bytes ∧
      ∀ k, k < bytes.length → decodeRaw pr dictBuf preset (some n) ((bytes ++ rest).take k) cap = .err .eof := by
  obtain ⟨bytes, henc, hdec⟩ := C01.lzma_roundtrip_size pr dictBuf preset parse n c' h' hp hn rest cap
  exact ⟨bytes, henc, fun k hk => decodeRaw_trunc hdec k hk⟩

end LzmaVerif.Props.C05
