/-
  Normal encoder: the invariant over `opts[]`.
  * `Shape` / `CandOk` – a candidate stored at index `i` is well-shaped and denotes a valid chain from `opts[j]`, `j ≤ cur`;
  * `optStateAndReps_eq` – `update_opt_state_and_reps` = `Coder.apply` along the group of the candidate;
  * `Inv cur b a` – the invariant: indices `≤ cur` are final (valid group, `state/reps` = coder after it), indices
    in `(cur, opt_end]` are at `INFINITY_PRICE` or hold a valid candidate from some `j ≤ cur`, prices of the indices
    `≤ b` are at most `1152 · i`;
  * preservation by `extend` (the `while opt_end < i { reset }` loops) and by `offer` (`if price < opts[i].price { set }`);
  * `chainOf` and `chainOf_ok`: under the invariant the back-pointer chain of every final index is a valid chain of
    `data[p .. p+i]` from the coder state at the start, ending in `opts[i].state/reps`.
-/
import LzmaVerif.Proofs.EncNormalCand

namespace LzmaVerif.EncNormal
open LzmaVerif Mf Lzma Rc EncFast EncPrices
open LzmaVerif.Mf.Hc4 (Eqs byteAt_lt extendMatch_spec)

/-! ### `opts[]` reads after writes -/

theorem oat_modify (opts : Opts) (i j : Nat) (f : Opt → Opt) (hi : i < opts.size) :
    oat (opts.modify i f) j = if i = j then f (oat opts j) else oat opts j := by
  by_cases h : i = j
  · subst h
    rw [if_pos rfl]
    exact oat_modify_self opts i f hi
  · rw [if_neg h]
    unfold oat
    rw [Array.getD_eq_getD_getElem?, Array.getD_eq_getD_getElem?, Array.getElem?_modify, if_neg h]

theorem resetFrom_size (P : NormalParams) : ∀ (n e : Nat) (o : Opts), (resetFrom P n e o).size = o.size
  | 0, _, _ => rfl
  | n + 1, e, o => by rw [resetFrom, resetFrom_size P n, Array.size_modify]

theorem oat_resetFrom (P : NormalParams) :
    ∀ (n e : Nat) (o : Opts) (j : Nat), e + n < o.size →
      oat (resetFrom P n e o) j = if e < j ∧ j ≤ e + n then (oat o j).reset P else oat o j
  | 0, e, o, j, _ => by
    rw [resetFrom, if_neg (by omega)]
  | n + 1, e, o, j, h => by
    rw [resetFrom, oat_resetFrom P n (e + 1) _ j (by rw [Array.size_modify]; omega),
      oat_modify o (e + 1) j _ (by omega)]
    by_cases h1 : e + 1 = j
    · subst h1
      rw [if_neg (by omega), if_pos rfl, if_pos (by omega)]
    · rw [if_neg h1]
      by_cases h2 : e + 1 < j ∧ j ≤ e + 1 + n
      · rw [if_pos h2, if_pos (by omega)]
      · rw [if_neg h2, if_neg (by omega)]

/-! ### chains -/

theorem chainLen_append : ∀ (l1 l2 : List (Sym × Nat)), chainLen (l1 ++ l2) = chainLen l1 + chainLen l2
  | [], l2 => by simp only [List.nil_append, chainLen, Nat.zero_add]
  | (s, len) :: l1, l2 => by
    simp only [List.cons_append, chainLen, chainLen_append l1 l2, Nat.add_assoc]

theorem applyAll_append : ∀ (l1 l2 : List (Sym × Nat)) (c : Coder), applyAll c (l1 ++ l2) = applyAll (applyAll c l1) l2
  | [], l2, c => rfl
  | (s, len) :: l1, l2, c => by simp only [List.cons_append, applyAll, applyAll_append l1 l2]

theorem chainOk_append (d : Array UInt8) (dict : Nat) :
    ∀ (l1 l2 : List (Sym × Nat)) (q : Nat) (c : Coder),
      ChainOk d dict l1 q c → ChainOk d dict l2 (q + chainLen l1) (applyAll c l1) → ChainOk d dict (l1 ++ l2) q c
  | [], l2, q, c, _, h2 => by simpa only [List.nil_append, chainLen, Nat.add_zero, applyAll] using h2
  | (s, len) :: l1, l2, q, c, h1, h2 => by
    obtain ⟨a1, a2, a3, a4⟩ := h1
    refine ⟨a1, a2, a3, chainOk_append d dict l1 l2 (q + len) (c.apply s) a4 ?_⟩
    simpa only [chainLen, Nat.add_assoc, applyAll] using h2

/-! ### candidates -/

/-- the shape every candidate written by `set1` / `set2` / `set3` has (what `update_opt_state_and_reps` and
    `convert_opts` rely on) -/
def Shape (o : Opt) (i : Nat) : Prop :=
  if o.prev1IsLiteral then
    o.backPrev = 0 ∧ 1 ≤ o.optPrev ∧ o.optPrev + 2 ≤ i ∧
      (o.hasPrev2 = true → 0 ≤ o.backPrev2 ∧ o.optPrev2 + 3 ≤ o.optPrev)
  else
    o.optPrev < i ∧ ((i - o.optPrev = 1 ∧ (o.backPrev = -1 ∨ o.backPrev = 0)) ∨ (2 ≤ i - o.optPrev ∧ 0 ≤ o.backPrev))

/-- the candidate at index `i` is well-shaped and denotes a valid chain from `opts[j]`, `j ≤ cur` -/
def CandOk (P : NormalParams) (d : Array UInt8) (dict p : Nat) (opts : Opts) (cur i : Nat) : Prop :=
  Shape (oat opts i) i ∧ (groupOf P d p (oat opts i) i).1 ≤ cur ∧ (groupOf P d p (oat opts i) i).1 < i ∧
    ChainOk d dict (groupOf P d p (oat opts i) i).2 (p + (groupOf P d p (oat opts i) i).1)
      (oat opts (groupOf P d p (oat opts i) i).1).c ∧
    chainLen (groupOf P d p (oat opts i) i).2 = i - (groupOf P d p (oat opts i) i).1

theorem CandOk.congr {P : NormalParams} {d : Array UInt8} {dict p : Nat} {o o' : Opts} {cur i : Nat}
    (h : CandOk P d dict p o cur i) (hi : oat o' i = oat o i) (hj : ∀ j, j ≤ cur → oat o' j = oat o j) :
    CandOk P d dict p o' cur i := by
  unfold CandOk at h ⊢
  rw [hi, hj _ h.2.1]
  exact h

theorem CandOk.mono {P : NormalParams} {d : Array UInt8} {dict p : Nat} {o : Opts} {cur cur' i : Nat}
    (h : CandOk P d dict p o cur i) (hc : cur ≤ cur') : CandOk P d dict p o cur' i :=
  ⟨h.1, Nat.le_trans h.2.1 hc, h.2.2⟩

/-! ### `update_opt_state_and_reps` -/

theorem repsAfter_rep (P : NormalParams) (hreps : P.reps = 4) (c : Coder) (rep len : Nat) (hr : rep ≤ 3) :
    repsAfter P c (rep : Int) (stLongRep c.state) = c.apply (.rep rep len) := by
  unfold repsAfter
  rw [hreps, if_pos (by omega)]
  simp only [Int.toNat_natCast]
  rcases rep with _ | _ | _ | _ | rep
  · rfl
  · rfl
  · rfl
  · rfl
  · omega

theorem repsAfter_mtch (P : NormalParams) (hreps : P.reps = 4) (c : Coder) (dist len : Nat) :
    repsAfter P c ((dist : Int) + 4) (stMatch c.state) = c.apply (.mtch dist len) := by
  unfold repsAfter
  rw [hreps, if_neg (by omega)]
  have : ((dist : Int) + 4 - ((4 : Nat) : Int)).toNat = dist := by omega
  rw [this]
  rfl

theorem repsAfter_with_state (P : NormalParams) (c : Coder) (back : Int) (s s' : Nat) :
    repsAfter P c back s' = { repsAfter P c back s with state := s' } := by
  unfold repsAfter
  split <;> rfl

theorem repsAfter_state (P : NormalParams) (c : Coder) (back : Int) (s : Nat) : (repsAfter P c back s).state = s := by
  unfold repsAfter
  split <;> rfl

theorem apply_lit_rep0 (x : Coder) (b len : Nat) :
    (x.apply (.lit b)).apply (.rep 0 len) = { x with state := stLongRep (stLiteral x.state) } := rfl

/-- `update_opt_state_and_reps` computes the coder state after the group of the candidate -/
theorem optStateAndReps_eq (P : NormalParams) (hreps : P.reps = 4) (d : Array UInt8) (dict p : Nat) (opts : Opts)
    (cur i : Nat) (h : CandOk P d dict p opts cur i) :
    optStateAndReps P opts i =
      applyAll (oat opts (groupOf P d p (oat opts i) i).1).c (groupOf P d p (oat opts i) i).2 := by
  obtain ⟨hsh, _, hlt, hch, _⟩ := h
  unfold optStateAndReps
  generalize oat opts i = o at hsh hlt hch ⊢
  unfold Shape at hsh
  unfold groupOf at hlt hch ⊢
  cases hp1 : o.prev1IsLiteral
  · -- `set1`
    simp only [hp1, Bool.false_eq_true, if_false] at hsh hlt hch ⊢
    obtain ⟨hlt', hcase⟩ := hsh
    obtain ⟨_, _, hsym, _⟩ := hch
    simp only [applyAll, false_and, if_false]
    rcases hcase with ⟨h1, hb⟩ | ⟨h2, hb⟩
    · rw [if_pos (by omega)]
      rcases hb with hb | hb
      · rw [hb, symOf_lit, if_neg (by decide)]
        rfl
      · rw [hb, h1, symOf_short P hreps, if_pos rfl]
        rfl
    · rw [if_neg (by omega)]
      by_cases hb4 : o.backPrev < 4
      · have : o.backPrev = ((o.backPrev.toNat : Nat) : Int) := by omega
        rw [this, symOf_rep P hreps d _ _ _ (by omega) h2, hreps, if_pos (by omega)]
        exact repsAfter_rep P hreps _ _ _ (by omega)
      · have : o.backPrev = (((o.backPrev - 4).toNat : Nat) : Int) + 4 := by omega
        rw [hreps, if_neg (by omega)]
        rw [this]
        have h4 : ((((o.backPrev - 4).toNat : Nat) : Int) + 4) = ((((o.backPrev - 4).toNat : Nat) : Int) + ((P.reps : Nat) : Int)) := by
          rw [hreps]; rfl
        rw [h4, symOf_mtch P hreps, ← h4]
        exact repsAfter_mtch P hreps _ _ _
  · -- `set2` / `set3`
    simp only [hp1, if_true] at hsh hlt hch ⊢
    obtain ⟨hb0, ho1, hoi, hh2⟩ := hsh
    have hsym0 : symOf P d (p + o.optPrev) o.backPrev (i - o.optPrev) = .rep 0 (i - o.optPrev) := by
      rw [hb0]
      exact symOf_rep P hreps d _ 0 _ (by omega) (by omega)
    cases hp2 : o.hasPrev2
    · -- literal + rep0
      simp only [hp2, Bool.false_eq_true, if_false, and_false] at hlt hch ⊢
      rw [if_neg (by omega), hsym0, hb0, hreps]
      simp only [applyAll]
      rw [apply_lit_rep0, if_pos (by decide)]
      unfold repsAfter
      rw [hreps, if_pos (by decide)]
      rfl
    · -- X + literal + rep0
      obtain ⟨hb2, hlx⟩ := hh2 hp2
      simp only [hp2, if_true, and_self] at hlt hch ⊢
      rw [if_neg (by omega), hsym0]
      simp only [applyAll]
      rw [apply_lit_rep0]
      by_cases hb4 : o.backPrev2 < ((4 : Nat) : Int)
      · have hx : o.backPrev2 = ((o.backPrev2.toNat : Nat) : Int) := by omega
        rw [hreps, if_pos hb4]
        rw [hx, symOf_rep P hreps d _ _ _ (by omega) (by omega),
          ← repsAfter_rep P hreps _ _ (o.optPrev - 1 - o.optPrev2) (by omega : o.backPrev2.toNat ≤ 3)]
        rw [repsAfter_with_state P _ _ (stLongRep (oat opts o.optPrev2).c.state), repsAfter_state]
      · have hx : o.backPrev2 = (((o.backPrev2 - 4).toNat : Nat) : Int) + 4 := by omega
        rw [hreps, if_neg hb4]
        have h4 : ((((o.backPrev2 - 4).toNat : Nat) : Int) + 4) =
            ((((o.backPrev2 - 4).toNat : Nat) : Int) + ((P.reps : Nat) : Int)) := by rw [hreps]; rfl
        rw [hx, h4, symOf_mtch P hreps, ← h4,
          ← repsAfter_mtch P hreps _ _ (o.optPrev - 1 - o.optPrev2)]
        rw [repsAfter_with_state P _ _ (stMatch (oat opts o.optPrev2).c.state), repsAfter_state]

end LzmaVerif.EncNormal
