import LzmaVerif.Proofs.XzBasic
/-! Parsing lemmas: every writer-side piece of the XZ container is parsed back by the reader,
whatever bytes follow. -/
namespace LzmaVerif.Xz
open LzmaVerif Lzma Checks

/-! ## Stream header / footer -/

theorem flags_bytes (c : Check) : Bytes [0, c.toByte] :=
  Bytes.cons (by decide) (Bytes.cons (toByte_lt c) Bytes.nil)

theorem parseFlags_ok (c : Check) (r : List Nat) :
    parseFlags ([0, c.toByte] ++ le 4 (crc32 [0, c.toByte]) ++ r) = .ok (c, r) := by
  unfold parseFlags
  rw [List.append_assoc, takeN_append 2 _ _ rfl]
  simp only [bind, Except.bind, List.getD_cons_zero, List.getD_cons_succ, ne_eq, not_true_eq_false, if_false,
    ofByte_toByte]
  rw [takeN_append 4 _ _ (le_length _ _)]
  simp only [ofLe_le_crc32 _ (flags_bytes c), not_true_eq_false, if_false]
  rfl

theorem streamHeaderBytes_length (c : Check) : (streamHeaderBytes c).length = 12 := by
  simp [streamHeaderBytes, le_length, Consts.XZ_MAGIC]

theorem parseStreamHeader_ok (c : Check) (r : List Nat) :
    parseStreamHeader (streamHeaderBytes c ++ r) = .ok (c, r) := by
  unfold parseStreamHeader streamHeaderBytes
  rw [List.append_assoc, List.append_assoc, takeN_append 6 _ _ rfl]
  simp only [bind, Except.bind, ne_eq, not_true_eq_false, if_false]
  rw [← List.append_assoc]
  exact parseFlags_ok c r

theorem footerBytes_length (c : Check) (n : Nat) : (footerBytes c n).length = 12 := by
  simp [footerBytes, le_length, Consts.XZ_FOOTER_MAGIC]

theorem parseFooter_ok (c : Check) (n : Nat) (r : List Nat) :
    parseFooter (footerBytes c n ++ r) = .ok (ofLe (le 4 (n / 4 - 1)), [0, c.toByte], r) := by
  unfold parseFooter footerBytes
  simp only [List.append_assoc]
  rw [takeN_append 4 _ _ (le_length _ _)]
  simp only [bind, Except.bind]
  rw [takeN_append 4 _ _ (le_length _ _)]
  simp only []
  rw [takeN_append 2 _ _ rfl]
  have hb : Bytes (le 4 (n / 4 - 1) ++ [0, c.toByte]) := Bytes.append (le_bytes _ _) (flags_bytes c)
  simp only [ofLe_le_crc32 _ hb, ne_eq, not_true_eq_false, if_false]
  rw [takeN_append 2 _ _ rfl]
  simp only [not_true_eq_false, if_false]
  rfl

/-! ## Filters -/

/-- admissible pre-filter: delta distance 1..256, BCJ with an aligned 32-bit start offset -/
def PreOk : Filter → Prop
  | .delta d => 1 ≤ d ∧ d ≤ 256
  | .bcj a s => s < 2 ^ 32 ∧ s % archAlign a = 0
  | .lzma2 _ => False

instance : DecidablePred PreOk := fun f => by
  cases f <;> (unfold PreOk; infer_instance)

/-- dictionary sizes `encode_lzma2_dict_size` can express -/
def DictOk (d : Nat) : Prop := 4096 ≤ d ∧ (d ≤ 3 * 2 ^ 30 ∨ d = 0xFFFFFFFF)

instance : DecidablePred DictOk := fun d => by unfold DictOk; infer_instance

def LastOk : Option Filter → Prop
  | some (.lzma2 d) => DictOk d
  | _ => False

instance : DecidablePred LastOk := fun o => by
  rcases o with _ | f
  · unfold LastOk; infer_instance
  · cases f <;> (unfold LastOk; infer_instance)

def FiltersOk (fs : List Filter) : Prop :=
  fs.length ≤ 4 ∧ (∀ f ∈ fs.dropLast, PreOk f) ∧ LastOk fs.getLast?

instance (fs : List Filter) : Decidable (FiltersOk fs) := by unfold FiltersOk; infer_instance

example : FiltersOk [.lzma2 8388608] := by decide
example : FiltersOk [.delta 4, .lzma2 4096] := by decide
example : FiltersOk [.bcj .x86 0, .bcj .arm 4096, .delta 256, .lzma2 65536] := by decide
example : ¬ FiltersOk [.bcj .arm 3, .lzma2 65536] := by decide
example : ¬ FiltersOk [.lzma2 65536, .lzma2 65536] := by decide
example : ¬ FiltersOk [] := by decide

/-- the dictionary size the block header announces for a written dictionary `d` -/
def readerDict1 (d : Nat) : Nat := (XzInt.dictOfProp ((XzInt.propOfDict d).getD 0)).getD 0

def readerDict (fs : List Filter) : Nat :=
  match fs.getLast? with
  | some (.lzma2 d) => readerDict1 d
  | _ => 0

def readerFilter : Filter → Filter
  | .lzma2 d => .lzma2 (readerDict1 d)
  | f => f

theorem dictOk_spec (d : Nat) (h : DictOk d) :
    ∃ p, XzInt.propOfDict d = some p ∧ p ≤ 40 ∧ XzInt.dictOfProp p = some (readerDict1 d) ∧ d ≤ readerDict1 d := by
  obtain ⟨h1, h2 | h2⟩ := h
  · obtain ⟨p, d', hp, hp40, hd, hle, _⟩ := Props.C02.lzma2DictProp d h1 h2
    refine ⟨p, hp, hp40, ?_, ?_⟩
    · simp only [readerDict1, hp, Option.getD_some, hd]
    · simp only [readerDict1, hp, Option.getD_some, hd]; exact hle
  · subst h2
    exact ⟨40, by decide, by decide, by decide, by decide⟩

theorem idOfArch_spec (a : Filters.Arch) : idOfArch a < 128 ∧ idOfArch a ≠ 3 ∧ idOfArch a ≠ 0x21 ∧
    archOfId (idOfArch a) = some a := by
  cases a <;> decide

theorem parseFilter_pre (f : Filter) (hf : PreOk f) (r : List Nat) :
    parseFilter (encFilter f ++ r) = .ok (f, r) := by
  cases f with
  | delta d =>
    obtain ⟨h1, h2⟩ := hf
    have hm : (d - 1) % 256 + 1 = d := by omega
    simp [parseFilter, encFilter, mbSlice_small, bind, Except.bind, pure, Except.pure, hm]
  | bcj a s =>
    obtain ⟨h1, h2⟩ := hf
    obtain ⟨i1, i2, i3, i4⟩ := idOfArch_spec a
    by_cases hs : s = 0
    · subst hs
      simp [parseFilter, encFilter, mbSlice_small, bind, Except.bind, pure, Except.pure, i1, i2, i3, i4]
    · have hl : ¬ ((le 4 s).length + r.length < 4) := by rw [le_length]; omega
      have ht : List.take 4 (le 4 s ++ r) = le 4 s := by
        have := List.take_left (l₁ := le 4 s) (l₂ := r)
        rwa [le_length] at this
      have hd : List.drop 4 (le 4 s ++ r) = r := by
        have := List.drop_left (l₁ := le 4 s) (l₂ := r)
        rwa [le_length] at this
      simp [parseFilter, encFilter, mbSlice_small, bind, Except.bind, pure, Except.pure, i1, i2, i3, i4, hs, hl, ht, hd,
        ofLe_le 4 s (by omega), h2]
  | lzma2 d => exact absurd hf (by simp [PreOk])

theorem parseFilter_lzma2 (d : Nat) (hd : DictOk d) (r : List Nat) :
    parseFilter (encFilter (.lzma2 d) ++ r) = .ok (.lzma2 (readerDict1 d), r) := by
  obtain ⟨p, hp, hp40, hdp, _⟩ := dictOk_spec d hd
  simp [parseFilter, encFilter, mbSlice_small, bind, Except.bind, pure, Except.pure, hp, hdp]

/-! ## Filter lists -/
def AnyOk : Filter → Prop
  | .lzma2 d => DictOk d
  | f => PreOk f

theorem parseFilter_any (f : Filter) (hf : AnyOk f) (r : List Nat) :
    parseFilter (encFilter f ++ r) = .ok (readerFilter f, r) := by
  cases f with
  | delta d => exact parseFilter_pre (.delta d) hf r
  | bcj a s => exact parseFilter_pre (.bcj a s) hf r
  | lzma2 d => exact parseFilter_lzma2 d hf r

theorem encFilter_spec (f : Filter) (hf : AnyOk f) : (encFilter f).length ≤ 6 ∧ Bytes (encFilter f) := by
  cases f with
  | delta d =>
    refine ⟨by simp [encFilter], ?_⟩
    exact Bytes.cons (by decide) (Bytes.cons (by decide) (Bytes.cons (Nat.mod_lt _ (by decide)) Bytes.nil))
  | bcj a s =>
    obtain ⟨i1, _⟩ := idOfArch_spec a
    simp only [encFilter]
    split
    · exact ⟨by simp, Bytes.cons (by omega) (Bytes.cons (by decide) Bytes.nil)⟩
    · exact ⟨by simp [le_length], Bytes.cons (by omega) (Bytes.cons (by decide) (le_bytes _ _))⟩
  | lzma2 d =>
    obtain ⟨p, hp, hp40, _⟩ := dictOk_spec d hf
    refine ⟨by simp [encFilter], ?_⟩
    simp only [encFilter]
    rw [hp]
    exact Bytes.cons (by decide) (Bytes.cons (by decide) (Bytes.cons (by simp only [Option.getD_some]; omega) Bytes.nil))

theorem parseFilters_ok : ∀ (fs : List Filter), (∀ f ∈ fs, AnyOk f) → ∀ r,
    parseFilters fs.length ((fs.map encFilter).flatten ++ r) = .ok (fs.map readerFilter, r) := by
  intro fs
  induction fs with
  | nil => intro _ r; rfl
  | cons f fs ih =>
    intro h r
    simp only [List.length_cons, List.map_cons, List.flatten_cons, List.append_assoc, parseFilters]
    rw [parseFilter_any f (h f List.mem_cons_self)]
    simp only [bind, Except.bind]
    rw [ih (fun g hg => h g (List.mem_cons_of_mem _ hg))]
    rfl

theorem encFilters_spec : ∀ (fs : List Filter), (∀ f ∈ fs, AnyOk f) →
    ((fs.map encFilter).flatten).length ≤ 6 * fs.length ∧ Bytes ((fs.map encFilter).flatten) := by
  intro fs
  induction fs with
  | nil => intro _; exact ⟨by simp, Bytes.nil⟩
  | cons f fs ih =>
    intro h
    obtain ⟨a, b⟩ := encFilter_spec f (h f List.mem_cons_self)
    obtain ⟨c, d⟩ := ih (fun g hg => h g (List.mem_cons_of_mem _ hg))
    simp only [List.map_cons, List.flatten_cons, List.length_append, List.length_cons]
    exact ⟨by omega, Bytes.append b d⟩

/-- what `FiltersOk` gives in a form convenient for proofs -/
theorem filtersOk_spec (fs : List Filter) (h : FiltersOk fs) :
    ∃ pre d, fs = pre ++ [.lzma2 d] ∧ pre.length ≤ 3 ∧ (∀ f ∈ pre, PreOk f) ∧ DictOk d := by
  obtain ⟨h1, h2, h3⟩ := h
  rcases hl : fs.getLast? with _ | f
  · rw [hl] at h3; exact absurd h3 (by simp [LastOk])
  · rw [hl] at h3
    cases f with
    | delta _ => exact absurd h3 (by simp [LastOk])
    | bcj _ _ => exact absurd h3 (by simp [LastOk])
    | lzma2 d =>
      obtain ⟨ys, rfl⟩ := List.getLast?_eq_some_iff.mp hl
      rw [List.dropLast_concat] at h2
      refine ⟨ys, d, rfl, ?_, h2, h3⟩
      simp only [List.length_append, List.length_cons, List.length_nil] at h1
      omega

theorem preOk_not_lzma2 (f : Filter) (h : PreOk f) : readerFilter f = f ∧
    (match f with | .lzma2 _ => true | _ => false) = false := by
  cases f with
  | delta _ => exact ⟨rfl, rfl⟩
  | bcj _ _ => exact ⟨rfl, rfl⟩
  | lzma2 _ => exact absurd h (by simp [PreOk])

theorem map_readerFilter_pre (pre : List Filter) (h : ∀ f ∈ pre, PreOk f) : pre.map readerFilter = pre := by
  induction pre with
  | nil => rfl
  | cons f pre ih =>
    simp only [List.map_cons]
    rw [(preOk_not_lzma2 f (h f List.mem_cons_self)).1, ih (fun g hg => h g (List.mem_cons_of_mem _ hg))]

theorem filtersOk_any (fs : List Filter) (h : FiltersOk fs) : ∀ f ∈ fs, AnyOk f := by
  obtain ⟨pre, d, rfl, _, hp, hd⟩ := filtersOk_spec fs h
  intro f hf
  rcases List.mem_append.mp hf with h | h
  · have := hp f h
    cases f with
    | delta _ => exact this
    | bcj _ _ => exact this
    | lzma2 _ => exact absurd this (by simp [PreOk])
  · simp only [List.mem_singleton] at h
    subst h; exact hd

theorem readerDict_append (pre : List Filter) (d : Nat) : readerDict (pre ++ [.lzma2 d]) = readerDict1 d := by
  simp [readerDict]

/-! ## Block header -/
theorem getLast?_map_readerFilter (pre : List Filter) (d : Nat) :
    ((pre ++ [Filter.lzma2 d]).map readerFilter).getLast? = some (.lzma2 (readerDict1 d)) := by
  simp [readerFilter]

theorem replicate0_any (n : Nat) : (List.replicate n 0).any (fun x => decide (x ≠ 0)) = false := by
  induction n with
  | zero => rfl
  | succ n ih => simp [List.replicate_succ]

/-- core of the block-header parse, on abstract pieces -/
theorem parseBlockHeader_core (fs : List Filter) (hfs : FiltersOk fs) (sz : Nat) (P L r : List Nat)
    (hsz : sz ≠ 0)
    (hlen : (sz + 1) * 4 - 1 = 1 + ((fs.map encFilter).flatten).length + P.length + 4)
    (hP : P.any (fun x => decide (x ≠ 0)) = false) (hL : L.length = 4)
    (hC : ofLe L = crc32 (sz :: (fs.length - 1) :: ((fs.map encFilter).flatten ++ P))) :
    parseBlockHeader (sz :: (((fs.length - 1) :: ((fs.map encFilter).flatten ++ (P ++ L))) ++ r))
      = .ok (some { filters := fs.map readerFilter, size := (sz + 1) * 4 }, r) := by
  have hany := filtersOk_any fs hfs
  obtain ⟨pre, d, hfsE, hpl, hpre, hd⟩ := filtersOk_spec fs hfs
  have hlen4 : 1 ≤ fs.length ∧ fs.length ≤ 4 := by
    rw [hfsE]; simp only [List.length_append, List.length_cons, List.length_nil]; omega
  have hlast : (fs.map readerFilter).getLast? = some (.lzma2 (readerDict1 d)) := by
    rw [hfsE]; exact getLast?_map_readerFilter pre d
  have hpf := parseFilters_ok fs hany (P ++ L)
  generalize hfilt : (fs.map encFilter).flatten = filt at *
  generalize hrf : fs.map readerFilter = rfs at *
  generalize hn : fs.length = n at *
  have hhd : ((n - 1) :: (filt ++ (P ++ L))).length = (sz + 1) * 4 - 1 := by
    simp only [List.length_cons, List.length_append]; omega
  unfold parseBlockHeader
  simp only [hsz, if_false]
  rw [takeN_append _ _ _ hhd]
  simp only [bind, Except.bind, List.getD_cons_zero, List.drop_succ_cons, List.drop_zero]
  have c1 : ¬ ((n - 1) / 64 % 2 = 1) := by omega
  have c2 : ¬ ((n - 1) / 128 % 2 = 1) := by omega
  have c3 : (n - 1) % 4 + 1 = n := by omega
  simp only [c1, c2, c3, if_false, pure, Except.pure]
  rw [hpf]
  simp only [hlast]
  have d1 : ¬ ((P ++ L).length < 4) := by simp only [List.length_append]; omega
  have d2 : (P ++ L).length - 4 = P.length := by simp only [List.length_append]; omega
  have d3 : ((n - 1) :: (filt ++ (P ++ L))).length - 4 = ((n - 1) :: (filt ++ P)).length := by
    simp only [List.length_cons, List.length_append]; omega
  have d4 : List.take (((n - 1) :: (filt ++ P)).length) ((n - 1) :: (filt ++ (P ++ L))) = (n - 1) :: (filt ++ P) := by
    have : (n - 1) :: (filt ++ (P ++ L)) = ((n - 1) :: (filt ++ P)) ++ L := by simp
    rw [this, List.take_left]
  simp only [d1, d2, d3, d4, if_false, List.take_left, List.drop_left, hP, hC, ne_eq, not_true_eq_false]
  simp

theorem blockHeaderBytes_length (fs : List Filter) :
    (blockHeaderBytes fs).length = (((fs.map encFilter).flatten).length + 9) / 4 * 4 := by
  simp only [blockHeaderBytes, List.length_cons, List.length_append, List.length_replicate, le_length]
  omega

theorem blockHeaderBytes_mod4 (fs : List Filter) : (blockHeaderBytes fs).length % 4 = 0 := by
  rw [blockHeaderBytes_length]; omega

theorem blockHeaderBytes_pos (fs : List Filter) : 8 ≤ (blockHeaderBytes fs).length := by
  rw [blockHeaderBytes_length]; omega

/-- **Block header round trip**: the filters come back with the dictionary size the property byte
announces (`readerDict`), the header size is the written length, and exactly the header is consumed. -/
theorem parseBlockHeader_ok (fs : List Filter) (hfs : FiltersOk fs) (r : List Nat) :
    parseBlockHeader (blockHeaderBytes fs ++ r)
      = .ok (some { filters := fs.map readerFilter, size := (blockHeaderBytes fs).length }, r) := by
  have hany := filtersOk_any fs hfs
  obtain ⟨pre, d, hfsE, hpl, hpre, hd⟩ := filtersOk_spec fs hfs
  have hlen4 : 1 ≤ fs.length ∧ fs.length ≤ 4 := by
    rw [hfsE]; simp only [List.length_append, List.length_cons, List.length_nil]; omega
  obtain ⟨hfl, hfb⟩ := encFilters_spec fs hany
  have hflags : (fs.length - 1) % 256 = fs.length - 1 := by omega
  rw [blockHeaderBytes_length]
  simp only [blockHeaderBytes, hflags, List.length_cons]
  generalize hfilt : (fs.map encFilter).flatten = filt at *
  generalize hsz : (1 + (filt.length + 1) + 4 + 3) / 4 * 4 / 4 - 1 = sz
  generalize hP : List.replicate ((1 + (filt.length + 1) + 4 + 3) / 4 * 4 - 1 - (filt.length + 1) - 4) 0 = P
  have hPl : P.length = (1 + (filt.length + 1) + 4 + 3) / 4 * 4 - 1 - (filt.length + 1) - 4 := by
    rw [← hP, List.length_replicate]
  have hP0 : P.any (fun x => decide (x ≠ 0)) = false := by rw [← hP]; exact replicate0_any _
  have hPb : Bytes P := by rw [← hP]; exact Bytes.replicate0 _
  have e : sz :: (fs.length - 1) :: filt ++ P ++ le 4 (crc32 (sz :: (fs.length - 1) :: filt ++ P)) ++ r
      = sz :: (((fs.length - 1) :: (filt ++ (P ++ le 4 (crc32 (sz :: (fs.length - 1) :: (filt ++ P)))))) ++ r) := by
    simp only [List.cons_append, List.append_assoc]
  rw [e]
  have hs : (filt.length + 9) / 4 * 4 = (sz + 1) * 4 := by omega
  rw [hs, ← hfilt]
  apply parseBlockHeader_core fs hfs sz P _ r (by omega) (by rw [hfilt]; omega) hP0 (le_length _ _)
  rw [hfilt]
  apply ofLe_le_crc32
  exact Bytes.cons (by omega) (Bytes.cons (by omega) (Bytes.append hfb hPb))

/-! ## Index -/
/-- index records the format can represent -/
def RecOk (r : Nat × Nat) : Prop := r.1 ≠ 0 ∧ r.1 < 2 ^ 63 ∧ r.2 < 2 ^ 63

def recBytes (recs : List (Nat × Nat)) : List Nat := (recs.map fun r => mb r.1 ++ mb r.2).flatten

theorem recBytes_spec : ∀ (recs : List (Nat × Nat)), (∀ r ∈ recs, RecOk r) →
    recs.length ≤ (recBytes recs).length ∧ Bytes (recBytes recs) := by
  intro recs
  induction recs with
  | nil => intro _; exact ⟨by simp [recBytes], Bytes.nil⟩
  | cons x recs ih =>
    intro h
    obtain ⟨_, h1, h2⟩ := h x List.mem_cons_self
    obtain ⟨a1, _, a3, _⟩ := mb_spec x.1 h1
    obtain ⟨b1, _, b3, _⟩ := mb_spec x.2 h2
    obtain ⟨c, d⟩ := ih (fun g hg => h g (List.mem_cons_of_mem _ hg))
    simp only [recBytes, List.map_cons, List.flatten_cons, List.length_append, List.length_cons] at c d ⊢
    exact ⟨by omega, Bytes.append (Bytes.append a3 b3) d⟩

theorem parseRecords_ok : ∀ (recs : List (Nat × Nat)) (fuel : Nat) (acc : List (Nat × Nat)) (r : List Nat),
    (∀ x ∈ recs, RecOk x) → recs.length ≤ fuel →
    parseRecords fuel recs.length (recBytes recs ++ r) acc = .ok (acc.reverse ++ recs, r) := by
  intro recs
  induction recs with
  | nil =>
    intro fuel acc r _ _
    cases fuel <;> simp [parseRecords, recBytes, pure, Except.pure]
  | cons x recs ih =>
    intro fuel acc r h hf
    obtain ⟨fuel, rfl⟩ : ∃ k, fuel = k + 1 := ⟨fuel - 1, by simp at hf; omega⟩
    obtain ⟨h0, h1, h2⟩ := h x List.mem_cons_self
    obtain ⟨_, _, _, a4⟩ := mb_spec x.1 h1
    obtain ⟨_, _, _, b4⟩ := mb_spec x.2 h2
    simp only [parseRecords, List.length_cons, Nat.add_one_ne_zero, if_false, recBytes, List.map_cons,
      List.flatten_cons, List.append_assoc]
    rw [a4]
    simp only [bind, Except.bind]
    rw [b4]
    simp only [h0, if_false, Nat.add_sub_cancel]
    have := ih fuel (x :: acc) r (fun g hg => h g (List.mem_cons_of_mem _ hg)) (by simp at hf; omega)
    simp only [recBytes] at this
    rw [this]
    simp

theorem indexBytes_eq (recs : List (Nat × Nat)) :
    indexBytes recs = 0 :: (mb recs.length ++ recBytes recs ++
      List.replicate ((4 - (1 + (mb recs.length ++ recBytes recs).length) % 4) % 4) 0 ++
      le 4 (crc32 (0 :: (mb recs.length ++ recBytes recs) ++
        List.replicate ((4 - (1 + (mb recs.length ++ recBytes recs).length) % 4) % 4) 0))) := by
  simp [indexBytes, recBytes]

theorem indexBytes_mod4 (recs : List (Nat × Nat)) : (indexBytes recs).length % 4 = 0 := by
  rw [indexBytes_eq]
  simp only [List.length_cons, List.length_append, List.length_replicate, le_length]
  omega

/-- **Index round trip** (after the indicator byte) -/
theorem parseIndex_ok (recs : List (Nat × Nat)) (hn : recs.length < 2 ^ 63) (h : ∀ x ∈ recs, RecOk x)
    (r : List Nat) :
    parseIndex ((indexBytes recs).tail ++ r) = .ok (recs, (indexBytes recs).length, r) := by
  have hsize : (indexBytes recs).length = 1 + (mb recs.length ++ recBytes recs).length +
      (4 - (1 + (mb recs.length ++ recBytes recs).length) % 4) % 4 + 4 := by
    rw [indexBytes_eq]
    simp only [List.length_cons, List.length_append, List.length_replicate, le_length]
    omega
  rw [hsize]
  obtain ⟨n1, _, n3, n4⟩ := mb_spec recs.length hn
  obtain ⟨rl, rb⟩ := recBytes_spec recs h
  rw [indexBytes_eq]
  simp only [List.tail_cons, List.append_assoc]
  unfold parseIndex
  rw [n4]
  simp only [bind, Except.bind]
  rw [parseRecords_ok recs _ [] _ h (by simp only [List.length_append]; omega)]
  simp only [List.reverse_nil, List.nil_append]
  have hc : (recs.map fun r => mb r.1 ++ mb r.2).flatten = recBytes recs := rfl
  simp only [hc]
  rw [takeN_append _ _ _ (List.length_replicate ..)]
  simp only [replicate0_any, Bool.false_eq_true, if_false]
  rw [takeN_append _ _ _ (le_length _ _)]
  have hb : Bytes (0 :: (mb recs.length ++ recBytes recs) ++
        List.replicate ((4 - (1 + (mb recs.length ++ recBytes recs).length) % 4) % 4) 0) :=
    Bytes.append (Bytes.cons (by decide) (Bytes.append n3 rb)) (Bytes.replicate0 _)
  simp only [List.append_assoc, List.cons_append] at hb ⊢
  simp only [ofLe_le_crc32 _ hb, ne_eq, not_true_eq_false, if_false]
  rfl

end LzmaVerif.Xz
