/-
  Fast encoder: one `get_next_symbol` / `encode_symbol` step.
  `FinderSound` – what the encoder needs of a match finder; `StepOk` – what a step guarantees:
  the symbol is a literal of the data byte, a real repetition at a rep distance, or a match of the finder's
  list; the finder stays in step with the encoder (`finder.pos = p + len + ra`); the matches kept for the
  next call belong to the next position.
-/
import LzmaVerif.Proofs.EncFastSel

namespace LzmaVerif.EncFast
open LzmaVerif Mf Lzma
open LzmaVerif.Mf.Hc4 (Eqs byteAt_lt extendMatch_spec)

/-- what the fast encoder needs of its match finder on the data `d`: an invariant `R` of the reachable
    states and the logical position `pos` (number of `move_pos` calls), such that `find` consumes one
    position and reports only valid matches for it, and `skip n` consumes `n` positions -/
structure FinderSound {σ : Type} (F : Finder σ) (d : Array UInt8) (dict mlmax : Nat) where
  R : σ → Prop
  pos : σ → Nat
  init_R : R F.init
  init_pos : pos F.init = 0
  find_R : ∀ s, R s → R (F.find d s).2
  find_pos : ∀ s, R s → pos (F.find d s).2 = pos s + 1
  find_valid : ∀ s, R s → ∀ m ∈ (F.find d s).1,
    ValidMatch d dict (pos s) (min mlmax (d.size - pos s)) m
  skip_R : ∀ s n, R s → R (F.skip d n s)
  skip_pos : ∀ s n, R s → pos (F.skip d n s) = pos s + n

/-- what one step of the encoder guarantees (position `p`, coder `c` before the step) -/
structure StepOk {σ : Type} {F : Finder σ} {d : Array UInt8} {dict : Nat}
    (FS : FinderSound F d dict 273) (p : Nat) (c : Coder) (st : Step σ) : Prop where
  len1 : 1 ≤ st.len
  lenLe : p + st.len ≤ d.size
  sym : (st.sym = .lit (byteAt d p) ∧ st.len = 1) ∨
        (∃ i, st.sym = .rep i st.len ∧ RepOk d p (min (d.size - p) 273) c st.len i) ∨
        (∃ dist, st.sym = .mtch dist st.len ∧
          ValidMatch d dict p (min 273 (d.size - p)) (st.len, dist))
  mfR : FS.R st.mf
  mfPos : FS.pos st.mf = p + st.len + st.ra
  ra : st.ra = 0 ∨ (st.ra = 1 ∧ ∀ m ∈ st.ms,
        ValidMatch d dict (p + st.len) (min 273 (d.size - (p + st.len))) m)

theorem nextCore_ok {σ : Type} {F : Finder σ} {d : Array UInt8} {dict : Nat}
    (FS : FinderSound F d dict 273) (P : FastParams) (hP : P.ok) (nice : Nat) (p : Nat) (c : Coder)
    (mf : σ) (ms : List Match) (hp : p < d.size) (hR : FS.R mf) (hpos : FS.pos mf = p + 1)
    (hms : ∀ m ∈ ms, ValidMatch d dict p (min 273 (d.size - p)) m) :
    StepOk FS p c (nextCore F P nice d p c mf ms) := by
  obtain ⟨hmin, hmax⟩ := hP
  have hlit : StepOk FS p c ⟨.lit (byteAt d p), 1, mf, ms, 0⟩ :=
    ⟨Nat.le_refl 1, by show p + 1 ≤ d.size; omega, Or.inl ⟨rfl, rfl⟩, hR, hpos, Or.inl rfl⟩
  -- a repeated match with `skip(len - 1)`
  have hrep : ∀ i len, RepOk d p (min (d.size - p) 273) c len i →
      StepOk FS p c ⟨.rep i len, len, F.skip d (len - 1) mf, ms, 0⟩ := by
    intro i len hok
    have h2 := hok.2.1
    have hl := hok.2.2.1
    refine ⟨by show 1 ≤ len; omega, by show p + len ≤ d.size; omega, Or.inr (Or.inl ⟨i, rfl, hok⟩),
      FS.skip_R _ _ hR, ?_, Or.inl rfl⟩
    show FS.pos (F.skip d (len - 1) mf) = p + len + 0
    rw [FS.skip_pos _ _ hR, hpos]; omega
  -- a match of the list with `skip(len - 1)`
  have hmt : ∀ len dist, (len, dist) ∈ ms →
      StepOk FS p c ⟨.mtch dist len, len, F.skip d (len - 1) mf, ms, 0⟩ := by
    intro len dist hmem
    have hv := hms _ hmem
    have h2 : 2 ≤ len := hv.1
    have hl : p + len ≤ d.size := hv.2.2.1
    refine ⟨by show 1 ≤ len; omega, hl, Or.inr (Or.inr ⟨dist, rfl, hv⟩), FS.skip_R _ _ hR, ?_, Or.inl rfl⟩
    show FS.pos (F.skip d (len - 1) mf) = p + len + 0
    rw [FS.skip_pos _ _ hR, hpos]; omega
  unfold nextCore
  simp only [hmin, hmax]
  split
  · exact hlit
  · split
    · next i len hrl =>
      have := (repLoop_ok P hmin nice d p (min (d.size - p) 273) c [0, 1, 2, 3] 0 0
        (by decide) (Or.inl rfl)).1 i len hrl
      exact hrep i len this
    · next bl bi hrl =>
      have hbest := (repLoop_ok P hmin nice d p (min (d.size - p) 273) c [0, 1, 2, 3] 0 0
        (by decide) (Or.inl rfl)).2 bl bi hrl
      split
      · next len dist hsel =>
        have := (mainSel_ok P nice ms.reverse).1 len dist hsel
        exact hmt len dist (List.mem_reverse.mp this)
      · next mainLen mainDist hsel =>
        have hmain := (mainSel_ok P nice ms.reverse).2 mainLen mainDist hsel
        split
        · next hpref =>
          rcases hbest with h0 | hok
          · -- `best_rep_len = 0` cannot be preferred
            exfalso
            subst h0
            simp only [preferRep, hmin, ge_iff_le, nonpos_iff_eq_zero, OfNat.ofNat_ne_zero, decide_false, zero_add,
              Bool.false_and, Bool.false_eq_true] at hpref
          · exact hrep bi bl hok
        · split
          · exact hlit
          · next hnl =>
            -- look-ahead `find_matches()`
            have hml2 : 2 ≤ mainLen := by omega
            have hmem : (mainLen, mainDist) ∈ ms := by
              rcases hmain with h | h
              · omega
              · exact List.mem_reverse.mp h
            have hR2 := FS.find_R _ hR
            have hpos2 := FS.find_pos _ hR
            have hv2 := FS.find_valid _ hR
            rw [hpos] at hpos2 hv2
            have hlit2 : StepOk FS p c ⟨.lit (byteAt d p), 1, (F.find d mf).2, (F.find d mf).1, 1⟩ :=
              ⟨Nat.le_refl 1, by show p + 1 ≤ d.size; omega, Or.inl ⟨rfl, rfl⟩, hR2, hpos2,
                Or.inr ⟨rfl, hv2⟩⟩
            have hite : ∀ (b : Bool) (A B : Step σ), StepOk FS p c A → StepOk FS p c B →
                StepOk FS p c (if b = true then A else B) := by
              intro b A B hA hB
              cases b
              · exact hB
              · exact hA
            refine hite _ _ _ hlit2 (hite _ _ _ hlit2 ?_)
            have hv := hms _ hmem
            have hl : p + mainLen ≤ d.size := hv.2.2.1
            refine ⟨by show 1 ≤ mainLen; omega, hl, Or.inr (Or.inr ⟨mainDist, rfl, hv⟩),
              FS.skip_R _ _ hR2, ?_, Or.inl rfl⟩
            show FS.pos (F.skip d (mainLen - 2) (F.find d mf).2) = p + mainLen + 0
            rw [FS.skip_pos _ _ hR2, hpos2]; omega

theorem nextSymbol_ok {σ : Type} {F : Finder σ} {d : Array UInt8} {dict : Nat}
    (FS : FinderSound F d dict 273) (P : FastParams) (hP : P.ok) (nice : Nat) (p : Nat) (c : Coder)
    (mf : σ) (ms : List Match) (ra : Nat) (hp : p < d.size) (hR : FS.R mf) (hpos : FS.pos mf = p + ra)
    (hra : ra = 0 ∨ (ra = 1 ∧ ∀ m ∈ ms, ValidMatch d dict p (min 273 (d.size - p)) m)) :
    StepOk FS p c (nextSymbol F P nice d p c mf ms ra) := by
  unfold nextSymbol
  rcases hra with h0 | ⟨h1, hms⟩
  · subst h0
    simp only [if_true]
    have hv := FS.find_valid _ hR
    have hp2 := FS.find_pos _ hR
    rw [hpos] at hv hp2
    exact nextCore_ok FS P hP nice p c _ _ hp (FS.find_R _ hR) hp2 hv
  · subst h1
    simp only [Nat.succ_ne_zero, if_false]
    exact nextCore_ok FS P hP nice p c _ _ hp hR hpos hms

end LzmaVerif.EncFast
