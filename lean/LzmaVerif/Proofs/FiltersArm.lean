import LzmaVerif.Proofs.FiltersBase
/-! ARM BCJ filter: decoding inverts encoding. Core Lean only. -/
namespace LzmaVerif.Filters

/-! ### ARM -/

def armStep (enc : Bool) (st : St) (i : Nat) (b : Buf) : Buf :=
  if gb b (i + 3) = 0xEB then
    let x := gb b i + 256 * gb b (i + 1) + 65536 * gb b (i + 2)
    let src := u32 (x * 4)
    let p := posAt st i
    let dest := (if enc then wadd src p else wsub src p) / 4
    sb (sb (sb b i dest) (i + 1) (dest / 256)) (i + 2) (dest / 65536)
  else b

theorem armLoop_eq_scan (enc : Bool) (st : St) : ∀ fuel i b,
    armLoop enc st fuel i b = scan 4 (fun i b => (armStep enc st i b, 4)) fuel i b := by
  intro fuel
  induction fuel with
  | zero => intro i b; rfl
  | succ n ih =>
    intro i b
    simp only [armLoop, scan]
    split
    · rfl
    · rw [← ih]
      simp only [armStep]
      split <;> rfl


theorem armStep_size (enc : Bool) (st : St) (i : Nat) (b : Buf) : (armStep enc st i b).size = b.size := by
  simp only [armStep]; split <;> simp only [size_sb]

theorem armStep_frame (enc : Bool) (st : St) (i : Nat) (b : Buf) (k : Nat) (hk : k < i ∨ i + 4 ≤ k) :
    gb (armStep enc st i b) k = gb b k := by
  simp only [armStep]; split
  · rw [gb_sb_ne _ _ _ _ (by omega), gb_sb_ne _ _ _ _ (by omega), gb_sb_ne _ _ _ _ (by omega)]
  · rfl

theorem armStep_bytes (enc : Bool) (st : St) (i : Nat) (b : Buf) (h : BBytes b) : BBytes (armStep enc st i b) := by
  simp only [armStep]; split
  · exact BBytes_sb _ _ _ (BBytes_sb _ _ _ (BBytes_sb _ _ _ h))
  · exact h

theorem armStep_loc (enc : Bool) (st : St) (i : Nat) (b b' : Buf) (h : Agree i 4 b b') :
    Agree i 4 (armStep enc st i b) (armStep enc st i b') := by
  have h0 := h.2 i (by omega) (by omega)
  have h1 := h.2 (i + 1) (by omega) (by omega)
  have h2 := h.2 (i + 2) (by omega) (by omega)
  have h3 := h.2 (i + 3) (by omega) (by omega)
  simp only [armStep, h0, h1, h2, h3]
  split
  · exact ((h.sb _ _).sb _ _).sb _ _
  · exact h

def armDest (enc : Bool) (p x : Nat) : Nat := (if enc then wadd (u32 (x * 4)) p else wsub (u32 (x * 4)) p) / 4

theorem armStep_get (enc : Bool) (st : St) (i : Nat) (b : Buf) (hw : i + 4 ≤ b.size) (hr : gb b (i + 3) = 0xEB) :
    gb (armStep enc st i b) i = armDest enc (posAt st i) (gb b i + 256 * gb b (i + 1) + 65536 * gb b (i + 2)) % 256 ∧
    gb (armStep enc st i b) (i + 1) = armDest enc (posAt st i) (gb b i + 256 * gb b (i + 1) + 65536 * gb b (i + 2)) / 256 % 256 ∧
    gb (armStep enc st i b) (i + 2) = armDest enc (posAt st i) (gb b i + 256 * gb b (i + 1) + 65536 * gb b (i + 2)) / 65536 % 256 ∧
    gb (armStep enc st i b) (i + 3) = 0xEB := by
  simp only [armStep, if_pos hr, armDest]
  refine ⟨?_, ?_, ?_, ?_⟩
  · rw [gb_sb_ne _ _ _ _ (by omega), gb_sb_ne _ _ _ _ (by omega), gb_sb_eq _ _ _ (by omega)]
  · rw [gb_sb_ne _ _ _ _ (by omega), gb_sb_eq _ _ _ (by rw [size_sb]; omega)]
  · rw [gb_sb_eq _ _ _ (by rw [size_sb, size_sb]; omega)]
  · rw [gb_sb_ne _ _ _ _ (by omega), gb_sb_ne _ _ _ _ (by omega), gb_sb_ne _ _ _ _ (by omega), hr]

theorem arm_arith (p b0 b1 b2 : Nat) (hp : p % 4 = 0) (hp2 : p < 2 ^ 32) (h0 : b0 < 256) (h1 : b1 < 256) (h2 : b2 < 256) :
    let D := armDest true p (b0 + 256 * b1 + 65536 * b2)
    let D' := armDest false p (D % 256 + 256 * (D / 256 % 256) + 65536 * (D / 65536 % 256))
    D' % 256 = b0 ∧ D' / 256 % 256 = b1 ∧ D' / 65536 % 256 = b2 := by
  simp only [armDest, u32, wadd, wsub, if_true, Bool.false_eq_true, if_false]
  omega

theorem armStep_inv (st : St) (hp : st.pos % 4 = 0) (i : Nat) (b : Buf) (hi : i % 4 = 0) (hB : BBytes b)
    (hw : i + 4 ≤ b.size) : armStep false st i (armStep true st i b) = b := by
  by_cases hr : gb b (i + 3) = 0xEB
  · obtain ⟨g0, g1, g2, g3⟩ := armStep_get true st i b hw hr
    obtain ⟨f0, f1, f2, f3⟩ := armStep_get false st i (armStep true st i b) (by rw [armStep_size]; exact hw) g3
    have hpp : posAt st i % 4 = 0 ∧ posAt st i < 2 ^ 32 := by simp only [posAt, u32]; omega
    obtain ⟨a0, a1, a2⟩ := arm_arith (posAt st i) _ _ _ hpp.1 hpp.2 (hB i) (hB (i + 1)) (hB (i + 2))
    try simp only at a0 a1 a2
    rw [g0, g1, g2] at f0 f1 f2
    rw [a0] at f0; rw [a1] at f1; rw [a2] at f2
    apply buf_ext
    · rw [armStep_size, armStep_size]
    · intro k _
      by_cases hwin : k < i ∨ i + 4 ≤ k
      · rw [armStep_frame _ _ _ _ _ hwin, armStep_frame _ _ _ _ _ hwin]
      · have : k = i ∨ k = i + 1 ∨ k = i + 2 ∨ k = i + 3 := by omega
        rcases this with rfl | rfl | rfl | rfl
        · exact f0
        · exact f1
        · exact f2
        · rw [f3, hr]
  · have e1 : armStep true st i b = b := by simp only [armStep, if_neg hr]
    have e2 : armStep false st i b = b := by simp only [armStep, if_neg hr]
    rw [e1, e2]

theorem arm_stepOK (st : St) (hp : st.pos % 4 = 0) :
    StepOK 4 (fun i => i % 4 = 0) (fun _ _ => 0) (fun i b => (armStep true st i b, 4)) (fun i b => (armStep false st i b, 4)) :=
  StepOK.fixed 4 _ _ _ (armStep_size _ _) (armStep_size _ _) (fun i h => by omega)
    (armStep_frame _ _) (armStep_frame _ _) (armStep_bytes _ _)
    (fun i b b' h _ => armStep_loc _ _ i b b' h)
    (fun i b hi hB hw => armStep_inv st hp i b hi hB hw)

/-- REQUIRED 2 -/
theorem arm_inv (start : Nat) (hs : start % 4 = 0) (xs : List Nat) (h : Bytes xs) :
    oneShot .arm false start (oneShot .arm true start xs) = xs := by
  have hp : (St.init .arm start).pos % 4 = 0 := by simp only [St.init]; omega
  simp only [oneShot, code, armLoop_eq_scan]
  rw [Array.toArray_toList, scan_size _ (armStep_size _ _)]
  rw [scan_inv (arm_stepOK _ hp) _ _ (by rfl) (BBytes_toArray xs h)]

end LzmaVerif.Filters
