import LzmaVerif.Proofs.RcEnc
import LzmaVerif.Proofs.RcIdeal
/-!
The real decoder (reading a `List Nat`) refines the ideal decoder (reading base-256 digits of the
number `F` written by the encoder).
-/
namespace LzmaVerif.Rc
open Ideal

/-- the byte at a split is the corresponding base-256 digit -/
theorem num_split_digit (pre post : List Nat) (b : Nat) (hb : b < 256)
    (hpost : ∀ x ∈ post, x < 256) :
    (num (pre ++ b :: post) / 256 ^ post.length) % 256 = b := by
  rw [num_append]
  simp only [num, List.length_cons]
  have hlt := num_lt post hpost
  rw [pow_succ 256 post.length]
  generalize 256 ^ post.length = A at *
  have e : num pre * (A * 256) + (b * A + num post) = num post + (num pre * 256 + b) * A := by ring
  have hA : 0 < A := by omega
  rw [e, Nat.add_mul_div_right _ _ hA, Nat.div_eq_of_lt hlt, Nat.zero_add]
  omega

theorem split_at (bytes : List Nat) (n : Nat) (h : n < bytes.length) :
    ∃ pre b post, bytes = pre ++ b :: post ∧ pre.length = n ∧ post.length = bytes.length - n - 1 := by
  refine ⟨bytes.take n, bytes[n], bytes.drop (n + 1), ?_, ?_, ?_⟩
  · rw [← List.drop_eq_getElem_cons h, List.take_append_drop]
  · rw [List.length_take]; omega
  · rw [List.length_drop]; omega

theorem drop_digit (bytes rest : List Nat) (K k : Nat) (hlen : bytes.length = K + 5)
    (hb : ∀ x ∈ bytes, x < 256) (hk : k < K) :
    (bytes ++ rest).drop (5 + k) = digit (num bytes) K k :: (bytes ++ rest).drop (5 + (k + 1)) := by
  obtain ⟨pre, b, post, rfl, hpre, hpost⟩ := split_at bytes (5 + k) (by omega)
  have hb' : b < 256 := hb b (by simp)
  have hp' : ∀ x ∈ post, x < 256 := fun x hx => hb x (by simp [hx])
  have hd : digit (num (pre ++ b :: post)) K k = b := by
    unfold digit
    have : K - k - 1 = post.length := by rw [hpost, hlen]; omega
    rw [this]
    exact num_split_digit pre post b hb' hp'
  rw [hd]
  have e1 : (pre ++ b :: post) ++ rest = pre ++ (b :: (post ++ rest)) := by simp
  have e2 : (pre ++ b :: post) ++ rest = (pre ++ [b]) ++ (post ++ rest) := by simp
  have hl2 : (pre ++ [b]).length = 5 + (k + 1) := by simp [hpre]; omega
  conv => lhs; rw [e1, List.drop_left' hpre]
  rw [e2, List.drop_left' hl2]

/-- `Dec.init` on the encoder's bytes -/
theorem init_spec (bytes rest : List Nat) (K : Nat) (hlen : bytes.length = K + 5)
    (hb : ∀ x ∈ bytes, x < 256) (hF : num bytes < 256 ^ (K + 4)) :
    ∃ d0, Dec.init (bytes ++ rest) = some d0 ∧ d0.range = 0xFFFFFFFF ∧
      d0.code = num bytes / 256 ^ K ∧ d0.inp = (bytes ++ rest).drop 5 ∧ d0.over = 0 ∧
      bytes.head? = some 0 := by
  rcases bytes with _ | ⟨b0, _ | ⟨b1, _ | ⟨b2, _ | ⟨b3, _ | ⟨b4, tl⟩⟩⟩⟩⟩
  all_goals (try (simp only [List.length_cons, List.length_nil] at hlen; omega))
  have hl : tl.length = K := by simp only [List.length_cons] at hlen; omega
  have htl : num tl < 256 ^ K := by
    rw [← hl]; exact num_lt tl (fun x hx => hb x (by simp [hx]))
  have hnum : num (b0 :: b1 :: b2 :: b3 :: b4 :: tl)
      = num tl + (b0 * 256^4 + (((b1 * 256 + b2) * 256 + b3) * 256 + b4)) * 256 ^ K := by
    simp only [num, List.length_cons, hl, pow_succ]
    ring
  have hA : 0 < 256 ^ K := Nat.pow_pos (by decide)
  have h0 : b0 = 0 := by
    rcases Nat.eq_zero_or_pos b0 with h | h
    · exact h
    · exfalso
      obtain ⟨M, hM⟩ : ∃ M, M = 256 ^ K * 256 ^ 4 := ⟨_, rfl⟩
      have e : (b0 * 256^4 + (((b1 * 256 + b2) * 256 + b3) * 256 + b4)) * 256 ^ K
          = b0 * M + (((b1 * 256 + b2) * 256 + b3) * 256 + b4) * 256 ^ K := by rw [hM]; ring
      rw [hnum, pow_add, ← hM, e] at hF
      have h1 : M ≤ b0 * M := Nat.le_mul_of_pos_left _ h
      omega
  subst h0
  refine ⟨{ range := 0xFFFFFFFF, code := ((b1 * 256 + b2) * 256 + b3) * 256 + b4,
            inp := tl ++ rest, over := 0 }, ?_, rfl, ?_, ?_, rfl, rfl⟩
  · simp [Dec.init]
  · simp only
    rw [hnum, Nat.add_mul_div_right _ _ hA, Nat.div_eq_of_lt htl]
    omega
  · simp

/-- real decoder `d` is the ideal decoder `i` reading `bytes ++ rest` -/
structure DR (bytes rest : List Nat) (d : Rc.Dec) (i : Ideal.Dec) : Prop where
  range : d.range = i.range
  code : d.code = i.code
  inp : d.inp = (bytes ++ rest).drop (5 + i.k)
  over : d.over = 0

theorem digit_lt (F K k : Nat) : digit F K k < 256 := by
  unfold digit; exact Nat.mod_lt _ (by decide)

theorem normalize_dr (bytes rest : List Nat) (K : Nat) (hlen : bytes.length = K + 5)
    (hb : ∀ x ∈ bytes, x < 256) (d : Rc.Dec) (i : Ideal.Dec) (h : DR bytes rest d i)
    (hcode : i.code < i.range) (hk : i.range < 2^24 → i.k < K) :
    DR bytes rest d.normalize (dnorm (num bytes) K i) := by
  obtain ⟨hr, hc, hi, ho⟩ := h
  obtain ⟨dr, dc, di, dov⟩ := d
  simp only at hr hc hi ho
  subst hr hc ho
  by_cases hlt : i.range < 2^24
  · have hd := drop_digit bytes rest K i.k hlen hb (hk hlt)
    rw [hd] at hi
    subst hi
    have hdl := digit_lt (num bytes) K i.k
    unfold Dec.normalize dnorm
    rw [if_pos hlt, if_pos hlt]
    refine ⟨rfl, ?_, rfl, rfl⟩
    show (i.code * 256 + digit (num bytes) K i.k) % 2^32 = i.code * 256 + digit (num bytes) K i.k
    apply Nat.mod_eq_of_lt
    omega
  · unfold Dec.normalize dnorm
    rw [if_neg hlt, if_neg hlt]
    exact ⟨rfl, rfl, hi, rfl⟩

theorem decodeBitP_dr (bytes rest : List Nat) (K : Nat) (hlen : bytes.length = K + 5)
    (hb : ∀ x ∈ bytes, x < 256) (d : Rc.Dec) (i : Ideal.Dec) (h : DR bytes rest d i)
    (hcode : i.code < i.range) (hk : i.range < 2^24 → i.k < K) (p : Nat) (b : Bool) :
    (d.decodeBitP p).1 = (dstep (num bytes) K i (.bit p b)).1 ∧
    DR bytes rest (d.decodeBitP p).2 (dstep (num bytes) K i (.bit p b)).2 := by
  obtain ⟨hr, hc, hi, ho⟩ := normalize_dr bytes rest K hlen hb d i h hcode hk
  simp only [Dec.decodeBitP, dstep]
  generalize d.normalize = d1 at *
  generalize dnorm (num bytes) K i = i1 at *
  rw [hr, hc]
  by_cases hlt : i1.code < i1.range / 2 ^ 11 * p
  · rw [if_pos hlt, if_pos hlt]
    exact ⟨rfl, rfl, rfl, hi, ho⟩
  · rw [if_neg hlt, if_neg hlt]
    exact ⟨rfl, rfl, rfl, hi, ho⟩

theorem decodeDirect1_dr (bytes rest : List Nat) (K : Nat) (hlen : bytes.length = K + 5)
    (hb : ∀ x ∈ bytes, x < 256) (d : Rc.Dec) (i : Ideal.Dec) (h : DR bytes rest d i)
    (hcode : i.code < i.range) (hk : i.range < 2^24 → i.k < K) (b : Bool)
    (hcode1 : (dnorm (num bytes) K i).code < (dnorm (num bytes) K i).range)
    (hr1 : (dnorm (num bytes) K i).range < 2^32) :
    (d.decodeDirect1).1 = (dstep (num bytes) K i (.direct b)).1 ∧
    DR bytes rest (d.decodeDirect1).2 (dstep (num bytes) K i (.direct b)).2 := by
  obtain ⟨hr, hc, hi, ho⟩ := normalize_dr bytes rest K hlen hb d i h hcode hk
  simp only [Dec.decodeDirect1, dstep]
  generalize d.normalize = d1 at *
  generalize dnorm (num bytes) K i = i1 at *
  rw [hr, hc]
  by_cases hlt : i1.code < i1.range / 2
  · have hge : (i1.code + 2^32 - i1.range / 2) % 2^32 ≥ 2^31 := by
      have : (i1.code + 2^32 - i1.range / 2) % 2^32 = i1.code + 2^32 - i1.range / 2 :=
        Nat.mod_eq_of_lt (by omega)
      omega
    rw [if_pos hlt, if_pos hge]
    exact ⟨rfl, rfl, rfl, hi, ho⟩
  · have hd : (i1.code + 2^32 - i1.range / 2) % 2^32 = i1.code - i1.range / 2 := by
      have e : i1.code + 2^32 - i1.range / 2 = (i1.code - i1.range / 2) + 2^32 := by omega
      rw [e, Nat.add_mod_right]
      exact Nat.mod_eq_of_lt (by omega)
    have hge : ¬ (i1.code + 2^32 - i1.range / 2) % 2^32 ≥ 2^31 := by
      rw [hd]; omega
    rw [if_neg hlt, if_neg hge]
    exact ⟨rfl, rfl, hd, hi, ho⟩

end LzmaVerif.Rc
