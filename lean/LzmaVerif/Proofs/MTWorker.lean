import LzmaVerif.Proofs.MTDefs
/-
Worker steps preserve the invariant: one generic lemma `move_inv` for "worker `i` goes from `old` to
`new`, changing queue / channel / error store / shutdown flag / active counter", instantiated for
each worker program counter.
-/
namespace LzmaVerif.MT

theorem Failing_move (s : Sys) (i : Nat) (old new : WPc) (e' : Bool)
    (hold : s.ws[i]? = some old) (hF : Failing s)
    (hfail : midFail old = true → midFail new = true ∨ e' = true)
    (herr : s.errStored = true → e' = true) :
    FailingOf (s.ws.set i new) e' s.pc := by
  rcases hF with ⟨w, hw, hm⟩ | he | hp | hp
  · by_cases hwo : w = old
    · subst hwo
      rcases hfail hm with h | h
      · exact Or.inl ⟨new, mem_set_self _ _ _ _ hold, h⟩
      · exact Or.inr (Or.inl h)
    · exact Or.inl ⟨w, mem_set_of_ne _ _ _ _ _ hold hw hwo, hm⟩
  · exact Or.inr (Or.inl (herr he))
  · exact Or.inr (Or.inr (Or.inl hp))
  · exact Or.inr (Or.inr (Or.inr hp))

/-- generic preservation for a worker move `old → new` at index `i` -/
theorem move_inv (s : Sys) (i : Nat) (old new : WPc) (q' : List Nat) (c' : List Msg)
    (e' sh' : Bool) (a' : Nat)
    (h : Inv s) (hold : s.ws[i]? = some old)
    -- units are not duplicated …
    (hcnt : ∀ x, q'.count x + hv x new + c'.count (.result x)
              ≤ s.queue.count x + hv x old + s.chan.count (.result x))
    -- … and only a failing unit disappears
    (hcons : ∀ x, q'.count x + hv x new + c'.count (.result x)
                = s.queue.count x + hv x old + s.chan.count (.result x)
              ∨ (s.cfg.units.getD x .ok ≠ .ok ∧ midFail new = true))
    (hfail : midFail old = true → midFail new = true ∨ e' = true)
    (herr : s.errStored = true → e' = true)
    (hsend : ∀ x, new = .send x → s.cfg.units.getD x .ok = .ok)
    (hchanOk : ∀ x, .result x ∈ c' → .result x ∈ s.chan ∨ old = .send x)
    (hchanMono : ∀ m ∈ s.chan, m ∈ c')
    (hshut : s.shutdown = true → sh' = true)
    (hshutNew : sh' = true → s.shutdown = true ∨ e' = true)
    (herrNew : e' = true → s.errStored = true ∨ new = .failWake ∨ .wake ∈ c')
    (hfw : old = .failWake → .wake ∈ c')
    (hexit : new = .exited ∨ new = .failWake → sh' = true)
    (hwait : new = .waiting → s.closed = false ∧ q' = []) :
    Inv { s with queue := q', chan := c', errStored := e', shutdown := sh', active := a',
                 ws := s.ws.set i new } := by
  have hmemOld : old ∈ s.ws := List.mem_of_getElem? hold
  have hmemNew : new ∈ s.ws.set i new := mem_set_self _ _ _ _ hold
  have hsum := fun x => sumW_set (hv x) s.ws i old new hold
  have hcnt' : ∀ x, cntOf q' (s.ws.set i new) c' s.ooo x ≤ cnt s x := by
    intro x
    have := hsum x; have := hcnt x
    simp only [cnt, cntOf]; omega
  constructor <;> (try simp only)
  · exact h.maxPos
  · exact h.order
  · rw [List.length_set]; exact h.wsBound
  · exact h.dispLe
  · exact h.pushSeq
  · exact h.retLe
  · -- cntLe
    intro x
    have := hcnt' x; have := h.cntLe x
    simp only [cnt] at *; omega
  · -- cntRange
    intro x hx
    have := hcnt' x
    exact h.cntRange x (by simp only [cnt] at *; omega)
  · -- cons
    intro x hx1 hx2
    rcases h.cons x hx1 hx2 with h1 | ⟨hno, hF⟩
    · rcases hcons x with he | ⟨hno, hm⟩
      · left
        have := hsum x
        simp only [cnt, cntOf] at h1 ⊢; omega
      · right
        exact ⟨hno, Or.inl ⟨new, hmemNew, hm⟩⟩
    · right
      exact ⟨hno, Failing_move s i old new e' hold hF hfail herr⟩
  · exact h.okDelivered
  · -- okSent
    intro x hx
    rcases hx with hx | hx | hx
    · rcases mem_set _ _ _ _ hx with hx | hx
      · exact hsend x hx.symm
      · exact h.okSent x (Or.inl hx)
    · rcases hchanOk x hx with hx | hx
      · exact h.okSent x (Or.inr (Or.inl hx))
      · subst hx; exact h.okSent x (Or.inl hmemOld)
    · exact h.okSent x (Or.inr (Or.inr hx))
  · exact h.drainInv
  · exact h.finInv
  · exact h.doneSt
  · exact h.readSt
  · exact h.drainSt
  · -- shutErr
    intro hs
    rcases hshutNew hs with h1 | h1
    · rcases h.shutErr h1 with h2 | h2
      · exact Or.inl (herr h2)
      · exact Or.inr h2
    · exact Or.inl h1
  · -- errWake
    intro he
    rcases herrNew he with h1 | h1 | h1
    · rcases h.errWake h1 with h2 | h2 | h2
      · exact Or.inl h2
      · exact Or.inr (Or.inl (hchanMono _ h2))
      · by_cases ho : old = .failWake
        · exact Or.inr (Or.inl (hfw ho))
        · exact Or.inr (Or.inr (mem_set_of_ne _ _ _ _ _ hold h2 (Ne.symm ho)))
    · subst h1; exact Or.inr (Or.inr hmemNew)
    · exact Or.inr (Or.inl h1)
  · -- noExit
    intro hs w hw
    have hs0 : s.shutdown = false := by
      cases hc : s.shutdown with
      | false => rfl
      | true => rw [hshut hc] at hs; cases hs
    rcases mem_set _ _ _ _ hw with hw | hw
    · subst hw
      constructor
      · intro hc; rw [hexit (Or.inl hc)] at hs; cases hs
      · intro hc; rw [hexit (Or.inr hc)] at hs; cases hs
    · exact h.noExit hs0 w hw
  · exact h.closedIff
  · -- dropShut
    intro hp; exact hshut (h.dropShut hp)
  · -- closedNoWait
    intro hc w hw
    rcases mem_set _ _ _ _ hw with hw | hw
    · subst hw
      intro hc2
      rw [(hwait hc2).1] at hc; cases hc
    · exact h.closedNoWait hc w hw
  · -- qAlive
    intro _ hq
    left
    refine ⟨new, hmemNew, ?_⟩
    intro hc
    exact hq (hwait hc).2
  · -- emptyActive
    intro hc
    exact absurd hc (set_ne_nil _ _ _ _ hold)
  · exact h.oooNext
  · exact h.recvLt

/-- discharge the trivial side conditions of `move_inv` -/
macro "wtriv" : tactic =>
  `(tactic| first
    | (intros; simp_all [hv, midFail]; done)
    | (intro x; by_cases hx : x = _ <;> simp_all [hv, midFail]; done))

theorem worker_step_inv (s s' : Sys) (i : Nat) (h : Inv s) (hs : step s (.worker i) = some s') : Inv s' := by
  simp only [step, workerStep] at hs
  split at hs
  · simp at hs
  · rename_i pc hpc
    have hmem : pc ∈ s.ws := List.mem_of_getElem? hpc
    cases pc <;> simp only at hs
    · -- chkShutdown
      split at hs <;> simp at hs <;> subst hs
      · rename_i hsh
        exact move_inv s i .chkShutdown .exited s.queue s.chan s.errStored s.shutdown s.active h hpc
              (by wtriv) (by wtriv) (by wtriv) (by wtriv) (by wtriv) (by wtriv) (by wtriv) (by wtriv)
              (by wtriv) (by wtriv) (by wtriv) (by wtriv) (by wtriv)
      · exact move_inv s i .chkShutdown .steal s.queue s.chan s.errStored s.shutdown s.active h hpc
              (by wtriv) (by wtriv) (by wtriv) (by wtriv) (by wtriv) (by wtriv) (by wtriv) (by wtriv)
              (by wtriv) (by wtriv) (by wtriv) (by wtriv) (by wtriv)
    · -- steal
      split at hs
      · rename_i seq rest hq
        simp at hs; subst hs
        have hc : ∀ x, (seq :: rest).count x = rest.count x + (if seq = x then 1 else 0) := by
          intro x; rw [List.count_cons]; simp
        exact move_inv s i .steal (.got seq) rest s.chan s.errStored s.shutdown s.active h hpc
          (by intro x; rw [hq, hc]; simp [hv]) (by intro x; left; rw [hq, hc]; simp [hv])
              (by wtriv) (by wtriv) (by wtriv) (by wtriv) (by wtriv) (by wtriv)
              (by wtriv) (by wtriv) (by wtriv) (by wtriv) (by wtriv)
      · rename_i hq
        split at hs <;> simp at hs <;> subst hs
        · rename_i hcl
          have hsh : s.shutdown = true := h.dropShut (h.closedIff.mp hcl)
          exact move_inv s i .steal .exited s.queue s.chan s.errStored s.shutdown s.active h hpc
            (by wtriv) (by wtriv) (by wtriv) (by wtriv) (by wtriv) (by wtriv) (by wtriv) (by wtriv)
              (by wtriv) (by wtriv) (by wtriv) (by wtriv) (by wtriv)
        · rename_i hcl
          exact move_inv s i .steal .waiting s.queue s.chan s.errStored s.shutdown s.active h hpc
            (by wtriv) (by wtriv) (by wtriv) (by wtriv) (by wtriv) (by wtriv) (by wtriv) (by wtriv)
              (by wtriv) (by wtriv) (by wtriv) (by wtriv) (by wtriv)
    · -- waiting
      simp at hs
    · -- got
      rename_i seq
      simp at hs; subst hs
      exact move_inv s i (.got seq) (.work seq) s.queue s.chan s.errStored s.shutdown (s.active + 1) h hpc
        (by wtriv) (by wtriv) (by wtriv) (by wtriv) (by wtriv) (by wtriv) (by wtriv) (by wtriv)
              (by wtriv) (by wtriv) (by wtriv) (by wtriv) (by wtriv)
    · -- work
      rename_i seq
      split at hs <;> simp at hs <;> subst hs
      · rename_i hok
        exact move_inv s i (.work seq) (.send seq) s.queue s.chan s.errStored s.shutdown s.active h hpc
              (by wtriv) (by wtriv) (by wtriv) (by wtriv) (by wtriv) (by wtriv) (by wtriv) (by wtriv)
              (by wtriv) (by wtriv) (by wtriv) (by wtriv) (by wtriv)
      · rename_i hok
        exact move_inv s i (.work seq) .failDecr s.queue s.chan s.errStored s.shutdown s.active h hpc
          (by wtriv)
          (by intro x; by_cases hx : seq = x
              · right; subst hx; exact ⟨by rw [hok]; simp, rfl⟩
              · left; simp [hv, hx])
              (by wtriv) (by wtriv) (by wtriv) (by wtriv) (by wtriv) (by wtriv)
              (by wtriv) (by wtriv) (by wtriv) (by wtriv) (by wtriv)
      · rename_i hok
        exact move_inv s i (.work seq) .panicked s.queue s.chan s.errStored s.shutdown s.active h hpc
          (by wtriv)
          (by intro x; by_cases hx : seq = x
              · right; subst hx; exact ⟨by rw [hok]; simp, rfl⟩
              · left; simp [hv, hx])
              (by wtriv) (by wtriv) (by wtriv) (by wtriv) (by wtriv) (by wtriv)
              (by wtriv) (by wtriv) (by wtriv) (by wtriv) (by wtriv)
    · -- send
      rename_i seq
      simp at hs; subst hs
      have hc : ∀ x, (s.chan ++ [Msg.result seq]).count (.result x)
          = s.chan.count (.result x) + (if seq = x then 1 else 0) := by
        intro x; rw [List.count_append]; simp [List.count_singleton]
      exact move_inv s i (.send seq) .decr s.queue (s.chan ++ [.result seq]) s.errStored s.shutdown s.active h hpc
        (by intro x; rw [hc]; simp [hv]; omega) (by intro x; left; rw [hc]; simp [hv]; omega)
        (by wtriv) (by wtriv) (by wtriv)
        (by intro x hx; simp at hx; rcases hx with hx | hx
            · exact Or.inl hx
            · right; rw [hx])
        (by wtriv) (by wtriv)
        (by wtriv) (by wtriv) (by wtriv) (by wtriv) (by wtriv)
    · -- decr
      simp at hs; subst hs
      exact move_inv s i .decr .chkShutdown s.queue s.chan s.errStored s.shutdown (s.active - 1) h hpc
        (by wtriv) (by wtriv) (by wtriv) (by wtriv) (by wtriv) (by wtriv) (by wtriv) (by wtriv)
              (by wtriv) (by wtriv) (by wtriv) (by wtriv) (by wtriv)
    · -- failDecr
      simp at hs; subst hs
      exact move_inv s i .failDecr .failSet s.queue s.chan s.errStored s.shutdown (s.active - 1) h hpc
        (by wtriv) (by wtriv) (by wtriv) (by wtriv) (by wtriv) (by wtriv) (by wtriv) (by wtriv)
              (by wtriv) (by wtriv) (by wtriv) (by wtriv) (by wtriv)
    · -- failSet
      simp at hs; subst hs
      exact move_inv s i .failSet .failWake s.queue s.chan true true s.active h hpc
        (by wtriv) (by wtriv) (by wtriv) (by wtriv) (by wtriv) (by wtriv) (by wtriv) (by wtriv)
              (by wtriv) (by wtriv) (by wtriv) (by wtriv) (by wtriv)
    · -- failWake
      simp at hs; subst hs
      have hsh : s.shutdown = true := by
        cases hc : s.shutdown with
        | true => rfl
        | false => exact absurd rfl (h.noExit hc _ hmem).2
      have hc : ∀ x, (s.chan ++ [Msg.wake]).count (.result x) = s.chan.count (.result x) := by
        intro x; rw [List.count_append]; simp
      exact move_inv s i .failWake .exited s.queue (s.chan ++ [.wake]) s.errStored s.shutdown s.active h hpc
        (by intro x; rw [hc]; simp [hv]) (by intro x; left; rw [hc]; simp [hv])
        (by wtriv) (by wtriv) (by wtriv) (by wtriv) (by wtriv) (by wtriv)
        (by wtriv) (by wtriv) (by wtriv) (by wtriv) (by wtriv)
    · -- panicked
      simp at hs; subst hs
      have hc : ∀ x, (s.chan ++ [Msg.wake]).count (.result x) = s.chan.count (.result x) := by
        intro x; rw [List.count_append]; simp
      exact move_inv s i .panicked .exited s.queue (s.chan ++ [.wake]) true true s.active h hpc
        (by intro x; rw [hc]; simp [hv]) (by intro x; left; rw [hc]; simp [hv])
        (by wtriv) (by wtriv) (by wtriv) (by wtriv) (by wtriv) (by wtriv)
        (by wtriv) (by wtriv) (by wtriv) (by wtriv) (by wtriv)
    · -- exited
      simp at hs

end LzmaVerif.MT
