/-
  The access log is an observer only: switching it off changes neither the tables nor the reported matches.
  (The driver runs the model without the log; (B4) is stated about the run with the log.)
  Proved per stage and for both tree walks; the assembly for `find` / `runScript` is left open (see the end).
-/
import LzmaVerif.Proofs.Bt4Inv
namespace LzmaVerif.Mf.Bt4

/-- the state without its log -/
def St.core (s : St) : St := { s with log := none }

theorem push_none (a : Access) : Log.push none a = none := rfl

theorem terminate_none (tree : Array Nat) (ptr0 ptr1 : Nat) (lg : Log) :
    terminate tree ptr0 ptr1 none = ((terminate tree ptr0 ptr1 lg).1, none) := rfl

theorem relink_none (tree : Array Nat) (ptr0 ptr1 pair : Nat) (lg : Log) :
    relink tree ptr0 ptr1 pair none = ((relink tree ptr0 ptr1 pair lg).1, none) := rfl

theorem findLoop_none (P : Bt4Params) (data : Array UInt8) (k : Ctx)
    (depth : Nat) (tree : Array Nat) (ptr0 ptr1 len0 len1 cur lenBest : Nat) (ms : Array Match) (lg : Log) :
    findLoop P data k depth tree ptr0 ptr1 len0 len1 cur lenBest ms none =
      ((findLoop P data k depth tree ptr0 ptr1 len0 len1 cur lenBest ms lg).1,
       (findLoop P data k depth tree ptr0 ptr1 len0 len1 cur lenBest ms lg).2.1, none) := by
  fun_induction findLoop P data k depth tree ptr0 ptr1 len0 len1 cur lenBest ms lg with
  | case1 tree ptr0 ptr1 len0 len1 cur lenBest ms lg tree' lg' hx =>
    simp only [findLoop, terminate_none tree ptr0 ptr1 lg, hx]
  | case2 depth tree ptr0 ptr1 len0 len1 cur lenBest ms lg delta hstop tree' lg' hx =>
    simp only [findLoop]
    rw [if_pos hstop]
    simp only [terminate_none tree ptr0 ptr1 lg, hx]
  | case3 depth tree ptr0 ptr1 len0 len1 cur lenBest ms lg delta hstop pair len lg1 hit ms1 hnice tree' lg' hx =>
    have h1 : relink tree ptr0 ptr1 pair none = (tree', none) := by
      rw [relink_none tree ptr0 ptr1 pair lg1, hx]
    simp only [findLoop]
    rw [if_neg hstop, if_pos hnice]
    simp only [push_none]
    rw [show relink tree ptr0 ptr1 (pairOf P k (k.lzPos - cur)) none = (tree', none) from h1]
  | case4 depth tree ptr0 ptr1 len0 len1 cur lenBest ms lg delta hstop pair len lg1 hit ms1 hnice lenBest1 lg2 hlt
      tree1 lg3 ih =>
    simp only [findLoop]
    rw [if_neg hstop, if_neg hnice, if_pos hlt]
    simp only [push_none]
    exact ih
  | case5 depth tree ptr0 ptr1 len0 len1 cur lenBest ms lg delta hstop pair len lg1 hit ms1 hnice lenBest1 lg2 hlt
      tree1 lg3 ih =>
    simp only [findLoop]
    rw [if_neg hstop, if_neg hnice, if_neg hlt]
    simp only [push_none]
    exact ih

theorem skipInner_none (data : Array UInt8) (p delta niceLimit fuel len : Nat) (lg : Log) :
    skipInner data p delta niceLimit fuel len none =
      ((skipInner data p delta niceLimit fuel len lg).1, (skipInner data p delta niceLimit fuel len lg).2.1, none) := by
  fun_induction skipInner data p delta niceLimit fuel len lg with
  | case1 len lg => simp only [skipInner]
  | case2 fuel len lg len1 heq =>
    simp only [skipInner]; rw [if_pos heq]
  | case3 fuel len lg len1 hne lg1 hby =>
    simp only [skipInner]; rw [if_neg hne, if_pos hby]; simp only [push_none]; rfl
  | case4 fuel len lg len1 hne lg1 hby ih =>
    simp only [skipInner]; rw [if_neg hne, if_neg hby]; simp only [push_none]; exact ih

/-- the first comparison + inner loop of one private-skip iteration, without the log -/
theorem skipStep_none (data : Array UInt8) (p delta niceLimit len0 : Nat) (lg : Log) {len : Nat} {nice : Bool}
    {lg2 : Log}
    (hx : (if byteAt data (p + len0 - delta) = byteAt data (p + len0) then
        skipInner data p delta niceLimit niceLimit len0 lg else (len0, false, lg)) = (len, nice, lg2)) :
    (if byteAt data (p + len0 - delta) = byteAt data (p + len0) then
        skipInner data p delta niceLimit niceLimit len0 none else (len0, false, none)) = (len, nice, none) := by
  split at hx
  · rename_i h
    rw [if_pos h, skipInner_none data p delta niceLimit niceLimit len0 lg, hx]
  · rename_i h
    rw [if_neg h]
    simp only [Prod.mk.injEq] at hx
    obtain ⟨rfl, rfl, _⟩ := hx
    rfl

theorem skipLoop_none (P : Bt4Params) (data : Array UInt8) (k : Ctx)
    (depth : Nat) (tree : Array Nat) (ptr0 ptr1 len0 len1 cur : Nat) (lg : Log) :
    skipLoop P data k depth tree ptr0 ptr1 len0 len1 cur none =
      ((skipLoop P data k depth tree ptr0 ptr1 len0 len1 cur lg).1, none) := by
  fun_induction skipLoop P data k depth tree ptr0 ptr1 len0 len1 cur lg with
  | case1 tree ptr0 ptr1 len0 len1 cur lg =>
    simp only [skipLoop]; exact terminate_none _ _ _ _
  | case2 depth tree ptr0 ptr1 len0 len1 cur lg delta hstop =>
    simp only [skipLoop]; rw [if_pos hstop]; exact terminate_none _ _ _ _
  | case3 depth tree ptr0 ptr1 len0 len1 cur lg delta hstop pair len0' lg1 len lg2 hx =>
    have h1 : (if byteAt data (k.p + min len0 len1 - (k.lzPos - cur)) = byteAt data (k.p + min len0 len1) then
        skipInner data k.p (k.lzPos - cur) k.niceLimit k.niceLimit (min len0 len1) none
        else (min len0 len1, false, none)) = (len, true, none) :=
      skipStep_none data k.p delta k.niceLimit len0' lg1 hx
    have hstop' : ¬ geOrGt P.treeStopGe (k.lzPos - cur) k.cs = true := hstop
    simp only [skipLoop, if_neg hstop', push_none, h1, if_true]
    exact relink_none _ _ _ _ _
  | case4 depth tree ptr0 ptr1 len0 len1 cur lg delta hstop pair len0' lg1 len nice lg2 hx hnice lg3 hlt tree1 lg4 ih =>
    have h1 : (if byteAt data (k.p + min len0 len1 - (k.lzPos - cur)) = byteAt data (k.p + min len0 len1) then
        skipInner data k.p (k.lzPos - cur) k.niceLimit k.niceLimit (min len0 len1) none
        else (min len0 len1, false, none)) = (len, nice, none) :=
      skipStep_none data k.p delta k.niceLimit len0' lg1 hx
    have hstop' : ¬ geOrGt P.treeStopGe (k.lzPos - cur) k.cs = true := hstop
    have hlt' : byteAt data (k.p + len - (k.lzPos - cur)) < byteAt data (k.p + len) := hlt
    simp only [skipLoop, if_neg hstop', push_none, h1, hnice, Bool.false_eq_true, if_false, if_pos hlt']
    exact ih
  | case5 depth tree ptr0 ptr1 len0 len1 cur lg delta hstop pair len0' lg1 len nice lg2 hx hnice lg3 hlt tree1 lg4 ih =>
    have h1 : (if byteAt data (k.p + min len0 len1 - (k.lzPos - cur)) = byteAt data (k.p + min len0 len1) then
        skipInner data k.p (k.lzPos - cur) k.niceLimit k.niceLimit (min len0 len1) none
        else (min len0 len1, false, none)) = (len, nice, none) :=
      skipStep_none data k.p delta k.niceLimit len0' lg1 hx
    have hstop' : ¬ geOrGt P.treeStopGe (k.lzPos - cur) k.cs = true := hstop
    have hlt' : ¬ byteAt data (k.p + len - (k.lzPos - cur)) < byteAt data (k.p + len) := hlt
    simp only [skipLoop, if_neg hstop', push_none, h1, hnice, Bool.false_eq_true, if_false, if_neg hlt']
    exact ih

/-! ### the stages -/

theorem movePos_core (P : Bt4Params) (c : Cfg) (n : Nat) (s : St) :
    movePos P c n s.core = ((movePos P c n s).1.core, (movePos P c n s).2) := by
  rcases s with ⟨h2, h3, h4, tree, cp, lz, pos, log⟩
  by_cases h1 : (n - pos < c.niceLen ∧ n - pos < P.minAvailFinishing)
  · simp [movePos, St.core, h1]
  · by_cases h2 : n - pos = 0 <;> simp [movePos, St.core, h1, h2] <;> rfl

theorem hashStage_core (P : Bt4Params) (c : Cfg) (data : Array UInt8) (s : St) :
    hashStage P c data s.core =
      { st := (hashStage P c data s).st.core, delta2 := (hashStage P c data s).delta2,
        delta3 := (hashStage P c data s).delta3, cur := (hashStage P c data s).cur } := by
  cases s; rfl

theorem ctxOf_core (P : Bt4Params) (c : Cfg) (s : St) (a b : Nat) : ctxOf P c s.core a b = ctxOf P c s a b := rfl

theorem hashCands_none (P : Bt4Params) (data : Array UInt8) (p cs d2 d3 : Nat) (lg : Log) :
    hashCands P data p cs d2 d3 none = { hashCands P data p cs d2 d3 lg with log := none } := by
  unfold hashCands
  simp only [push_none, ite_self]
  split <;> rfl

theorem extendCands_none (data : Array UInt8) (p lim : Nat) (cd : Cands) :
    extendCands data p lim { cd with log := none } = { extendCands data p lim cd with log := none } := by
  unfold extendCands
  split <;> rfl

/- NOT assembled (time): `find P c data s.core = ((find P c data s).1.core, (find P c data s).2)` and the same for
   `skip` / `runScript`.  The lemmas above are its ingredients: every stage and both tree walks compute the same
   tables and matches with the log switched off. -/

end LzmaVerif.Mf.Bt4
