import LzmaVerif.Proofs.XzStream
/-! Single-stream round trip (core form), stream padding and concatenated streams. -/
namespace LzmaVerif.Xz
open LzmaVerif Lzma Checks

theorem xz_roundtrip_core (c : Check) (fs : List Filter) (hfs : FiltersOk fs)
    (blocks : List (List Nat × List Nat)) (hb : ∀ b ∈ blocks, BlockOk fs b) (hsz : SizesOk c fs blocks)
    (rest : List Nat) (cap : Nat) (hcap : ((blocks.map (·.2)).flatten).length ≤ cap) :
    Xz.decode false (streamBytes c fs blocks ++ rest) cap
      = .ok (blocks.map (·.2)).flatten (streamBytes c fs blocks).length (blocks.map (blkOf fs)).reverse := by
  rw [decode_stream false c fs hfs blocks hb hsz rest cap hcap]
  simp [afterStream, blocksData]

/-! ## nextStream -/

theorem nextStream_header (c : Check) (r : List Nat) : ∀ (k fuel z : Nat), k + 1 ≤ fuel →
    nextStream fuel (List.replicate k 0 ++ (streamHeaderBytes c ++ r)) z
      = if (z + k) % 4 ≠ 0 then .error .invalidData else .ok (some (c, r)) := by
  intro k
  induction k with
  | zero =>
    intro fuel z hf
    obtain ⟨fuel, rfl⟩ : ∃ f, fuel = f + 1 := ⟨fuel - 1, by omega⟩
    have := parseFlags_ok c r
    simp only [streamHeaderBytes, Consts.XZ_MAGIC, List.replicate_zero, List.nil_append, List.cons_append,
      nextStream] at this ⊢
    simp [this, bind, Except.bind, pure, Except.pure]
    rw [if_neg (by omega)]
    split <;> rfl
  | succ k ih =>
    intro fuel z hf
    obtain ⟨fuel, rfl⟩ : ∃ f, fuel = f + 1 := ⟨fuel - 1, by omega⟩
    simp only [List.replicate_succ, List.cons_append, nextStream, if_true]
    rw [ih fuel (z + 1) (by omega)]
    have : z + 1 + k = z + (k + 1) := by omega
    rw [this]


/-- only zero bytes up to the end of the input: accepted iff their number (with those already seen) is a multiple of 4 -/
theorem nextStream_zeros : ∀ (k fuel z : Nat), k + 1 ≤ fuel →
    nextStream fuel (List.replicate k 0) z = if (z + k) % 4 ≠ 0 then .error .invalidData else .ok none := by
  intro k
  induction k with
  | zero =>
    intro fuel z hf
    obtain ⟨fuel, rfl⟩ : ∃ f, fuel = f + 1 := ⟨fuel - 1, by omega⟩
    simp only [List.replicate_zero, nextStream, Nat.add_zero]
    split <;> rfl
  | succ k ih =>
    intro fuel z hf
    obtain ⟨fuel, rfl⟩ : ∃ f, fuel = f + 1 := ⟨fuel - 1, by omega⟩
    simp only [List.replicate_succ, nextStream, if_true]
    rw [ih fuel (z + 1) (by omega)]
    have : z + 1 + k = z + (k + 1) := by omega
    rw [this]

/-- after any amount of padding, a non-zero byte that does not start the magic is rejected -/
theorem nextStream_garbage (b : Nat) (r : List Nat) (hb0 : b ≠ 0) (hb : b ≠ 253) : ∀ (k fuel z : Nat), k + 1 ≤ fuel →
    nextStream fuel (List.replicate k 0 ++ b :: r) z = .error .invalidData := by
  intro k
  induction k with
  | zero =>
    intro fuel z hf
    obtain ⟨fuel, rfl⟩ : ∃ f, fuel = f + 1 := ⟨fuel - 1, by omega⟩
    simp only [List.replicate_zero, List.nil_append, nextStream, hb0, if_false, Consts.XZ_MAGIC,
      List.getD_cons_zero, ne_eq, hb, not_false_eq_true, if_true]
    rfl
  | succ k ih =>
    intro fuel z hf
    obtain ⟨fuel, rfl⟩ : ∃ f, fuel = f + 1 := ⟨fuel - 1, by omega⟩
    simp only [List.replicate_succ, List.cons_append, nextStream, if_true]
    exact ih fuel (z + 1) (by omega)

/-- misaligned padding before a magic is rejected, whatever follows the magic -/
theorem nextStream_misaligned (r : List Nat) : ∀ (k fuel z : Nat), k + 1 ≤ fuel → (z + k) % 4 ≠ 0 →
    nextStream fuel (List.replicate k 0 ++ (Consts.XZ_MAGIC ++ r)) z = .error .invalidData := by
  intro k
  induction k with
  | zero =>
    intro fuel z hf hz
    obtain ⟨fuel, rfl⟩ : ∃ f, fuel = f + 1 := ⟨fuel - 1, by omega⟩
    simp only [Consts.XZ_MAGIC, List.replicate_zero, List.nil_append, List.cons_append, nextStream]
    simp [bind, Except.bind]
    have : ¬ (z % 4 = 0) := by omega
    simp [this]
    rfl
  | succ k ih =>
    intro fuel z hf hz
    obtain ⟨fuel, rfl⟩ : ∃ f, fuel = f + 1 := ⟨fuel - 1, by omega⟩
    simp only [List.replicate_succ, List.cons_append, nextStream, if_true]
    exact ih fuel (z + 1) (by omega) (by omega)

/-! ## Concatenated streams -/
/-- a stream as the writer model produces it -/
structure Strm where
  c : Check
  fs : List Filter
  blocks : List (List Nat × List Nat)

def Strm.bytes (s : Strm) : List Nat := streamBytes s.c s.fs s.blocks
def Strm.data (s : Strm) : List Nat := blocksData s.blocks
def Strm.blks (s : Strm) : List Block := (s.blocks.map (blkOf s.fs)).reverse
def Strm.Ok (s : Strm) : Prop := FiltersOk s.fs ∧ (∀ b ∈ s.blocks, BlockOk s.fs b) ∧ SizesOk s.c s.fs s.blocks

/-- further streams, each preceded by `k` bytes of stream padding -/
def catBytes : List (Nat × Strm) → List Nat
  | [] => []
  | (k, s) :: rest => List.replicate k 0 ++ (s.bytes ++ catBytes rest)

def catData : List (Nat × Strm) → List Nat
  | [] => []
  | (_, s) :: rest => s.data ++ catData rest

/-- the block list the reader reports: that of the last stream -/
def finalBlks : List (Nat × Strm) → List Block → List Block
  | [], blks => blks
  | (_, s) :: rest, _ => finalBlks rest s.blks

def catFuel : List (Nat × Strm) → Nat
  | [] => 0
  | (_, s) :: rest => s.blocks.length + 1 + catFuel rest

theorem strm_bytes_length (s : Strm) : s.bytes.length % 4 = 0 ∧ s.blocks.length + 1 ≤ s.bytes.length := by
  unfold Strm.bytes
  rw [streamBytes_eq, List.length_append, streamHeaderBytes_length]
  have := streamBody_length s.c s.fs s.blocks
  omega

theorem catFuel_le : ∀ (ss : List (Nat × Strm)), catFuel ss ≤ (catBytes ss).length := by
  intro ss
  induction ss with
  | nil => simp [catFuel]
  | cons x ss ih =>
    obtain ⟨k, s⟩ := x
    simp only [catFuel, catBytes, List.length_append, List.length_replicate]
    have := strm_bytes_length s
    omega

theorem afterStream_err (total fuel : Nat) (rest acc : List Nat) (blks : List Block) (cap : Nat) (e : Err)
    (h : nextStream (rest.length + 1) rest 0 = .error e) :
    afterStream true total fuel rest acc blks cap = .err e := by
  simp [afterStream, h]

theorem afterStream_none (total fuel : Nat) (rest acc : List Nat) (blks : List Block) (cap : Nat)
    (h : nextStream (rest.length + 1) rest 0 = .ok none) :
    afterStream true total fuel rest acc blks cap = .ok acc total blks := by
  simp [afterStream, h]

theorem afterStream_some (total fuel : Nat) (rest acc : List Nat) (blks : List Block) (cap : Nat)
    (c : Check) (rest' : List Nat) (h : nextStream (rest.length + 1) rest 0 = .ok (some (c, rest'))) :
    afterStream true total fuel rest acc blks cap = readBlocks true total fuel c rest' acc [] cap := by
  simp [afterStream, h]

theorem afterStream_false (total fuel : Nat) (rest acc : List Nat) (blks : List Block) (cap : Nat) :
    afterStream false total fuel rest acc blks cap = .ok acc (total - rest.length) blks := by
  simp [afterStream]

/-- what follows a stream in multi-stream mode: more streams (aligned padding), then trailing zeros -/
theorem afterStream_cat (total cap : Nat) : ∀ (ss : List (Nat × Strm)),
    (∀ x ∈ ss, x.1 % 4 = 0 ∧ x.2.Ok) → ∀ (t : Nat) (acc : List Nat) (blks : List Block) (pre fuel : Nat),
    total = pre + (catBytes ss ++ List.replicate t 0).length → pre % 4 = 0 →
    catFuel ss ≤ fuel → acc.length + (catData ss).length ≤ cap →
    afterStream true total fuel (catBytes ss ++ List.replicate t 0) acc blks cap
      = if t % 4 ≠ 0 then .err .invalidData else .ok (acc ++ catData ss) total (finalBlks ss blks) := by
  intro ss
  induction ss with
  | nil =>
    intro _ t acc blks pre fuel _ _ _ _
    simp only [catBytes, List.nil_append, catData, List.append_nil, finalBlks]
    have hz := nextStream_zeros t ((List.replicate t 0).length + 1) 0 (by simp)
    rw [Nat.zero_add] at hz
    by_cases ht : t % 4 ≠ 0
    · rw [if_pos ht] at hz ⊢
      exact afterStream_err _ _ _ _ _ _ _ hz
    · rw [if_neg ht] at hz ⊢
      exact afterStream_none _ _ _ _ _ _ hz
  | cons x ss ih =>
    obtain ⟨k, s⟩ := x
    intro hss t acc blks pre fuel htot hpre hfuel hcap
    obtain ⟨hk, hfs, hb, hsz⟩ := hss (k, s) List.mem_cons_self
    simp only at hk
    simp only [catFuel] at hfuel
    simp only [catData, List.length_append] at hcap
    have hl := strm_bytes_length s
    simp only [catBytes, List.append_assoc] at htot ⊢
    unfold Strm.bytes at htot hl ⊢
    rw [streamBytes_eq] at htot hl ⊢
    simp only [List.append_assoc] at htot ⊢
    have hns := nextStream_header s.c (streamBody s.c s.fs s.blocks ++ (catBytes ss ++ List.replicate t 0)) k
      ((List.replicate k 0 ++ (streamHeaderBytes s.c ++ (streamBody s.c s.fs s.blocks ++ (catBytes ss ++ List.replicate t 0)))).length + 1)
      0 (by simp only [List.length_append, List.length_replicate]; omega)
    have hz : ¬ ((0 + k) % 4 ≠ 0) := by omega
    simp only [hz, if_false] at hns
    rw [afterStream_some _ _ _ _ _ _ _ _ hns]
    obtain ⟨f, rfl⟩ : ∃ f, fuel = f + s.blocks.length + 1 := ⟨fuel - s.blocks.length - 1, by omega⟩
    rw [readBlocks_stream true s.c s.fs hfs s.blocks hb hsz _ acc total (pre + k + 12) f cap
      (by rw [htot]; simp only [List.length_append, List.length_replicate, streamHeaderBytes_length]; omega)
      (by omega) (by simpa [Strm.data] using (by omega : acc.length + s.data.length ≤ cap))]
    rw [ih (fun y hy => hss y (List.mem_cons_of_mem _ hy)) t _ _ (pre + k + 12 + (streamBody s.c s.fs s.blocks).length) f
      (by rw [htot]; simp only [List.length_append, List.length_replicate, streamHeaderBytes_length]; omega)
      (by have := (streamBody_length s.c s.fs s.blocks).1; omega) (by omega)
      (by simp only [List.length_append]; simp only [Strm.data] at hcap; omega)]
    simp [catData, finalBlks, Strm.data, Strm.blks]

end LzmaVerif.Xz
