import LzmaVerif.Model.Bcj2
import LzmaVerif.Model.Prog
import LzmaVerif.Proofs.ProgUnfold
import LzmaVerif.Proofs.RcFinish
import LzmaVerif.Proofs.TruncRc
/-!
BCJ2 round trip: the decoder model (`Bcj2.decode`, validated against `BCJ2Reader`) inverts the
encoder model (`Bcj2.encode convert`) for every byte string and every decision function.

Layers:
* (i)   address conversion: `addr_roundtrip`, `takeAddr_be32`, `le_digits`;
* (ii)  the scanner state machine as a decision program `dprog` (the range coder abstracted to a
        bit channel): `enc_prog` – the encoder walks the decoder's program and the program
        returns the original bytes;
* truncation (C05, at the end of the file): `trunc_main`, `trunc_call`, `trunc_jump`, `trunc_rc`;
* (iii) the range coder channel: `scan_eq` – the scanner with the real range decoder (lazy
        normalisation, "RC dry" end state) computes what `Prog.decRun` computes whenever the run
        does not read past the end – plus `rc_roundtrip_fin` from `Proofs/RcFinish.lean`.
-/
namespace LzmaVerif.Bcj2
open LzmaVerif Rc

/-! ## The scanner as a decision program -/

/-- how the scanner stops, as far as it does not depend on the range decoder -/
inductive Out where
  | fin (st : St) (n : Nat) (acc : List Nat) (call jump : List Nat)
  | res (r : Except Err (List Nat))

def conclude : Out → Dec → Except Err (List Nat)
  | .fin st n acc _ _, d => finish st n d.code acc
  | .res r, _ => r

def dprog : List Nat → (n prev ip : Nat) → (call jump : List Nat) → List Nat → Prog Out
  | [], n, _, _, call, jump, acc => .ret (.fin .main n acc call jump)
  | b :: ms, n, prev, ip, call, jump, acc =>
    match n with
    | 0 => .ret (.fin .orig 0 acc call jump)
    | n' + 1 =>
      if isOp prev b = false then dprog ms n' b ((ip + 1) % M32) call jump (b :: acc)
      else .bit (probIdx prev b) fun bit =>
        if bit = false then dprog ms n' b ((ip + 1) % M32) call jump (b :: acc)
        else
          match takeAddr (if b = 0xE8 then call else jump) with
          | .empty => .ret (.fin .cj n' (b :: acc) call jump)
          | .short => .ret (.res (if n' = 0 then .ok (b :: acc).reverse else .error .shortAddr))
          | .addr v rest =>
            let ip2 := ((ip + 1) % M32 + 4) % M32
            let val := (v + M32 - ip2) % M32
            if n' < 4 then .ret (.res (.error .notFinished))
            else
              dprog ms (n' - 4) (val / 16777216) ip2 (if b = 0xE8 then rest else call)
                (if b = 0xE8 then jump else rest)
                ((val / 16777216) :: (val / 65536 % 256) :: (val / 256 % 256) :: (val % 256) :: b :: acc)

/-! ## Range decoder facts -/

theorem decodeBitP_eq_rawBit (d : Dec) (p : Nat) : d.decodeBitP p = rawBit d.normalize p := rfl

theorem norm_of_over (d : Dec) (h : d.normalize.over = 0) : norm d = some d.normalize := by
  rcases normalize_cases d with ⟨hr, hn⟩ | ⟨hr, b, rest, hi, hn⟩ | ⟨hr, hi, hn⟩
  · rw [hn]; unfold norm; rw [if_neg hr]
  · rw [hn]; unfold norm; rw [if_pos hr, hi]
  · rw [hn] at h; simp only at h; omega

theorem norm_eq_normalize (d D : Dec) (h : norm d = some D) : D = d.normalize := by
  rcases normalize_cases d with ⟨hr, hn⟩ | ⟨hr, b, rest, hi, hn⟩ | ⟨hr, hi, hn⟩
  · rw [hn]; unfold norm at h; rw [if_neg hr] at h; injection h with h; exact h.symm
  · rw [hn]; unfold norm at h; rw [if_pos hr, hi] at h
    obtain ⟨r, c, i, o⟩ := d
    injection h with h; exact h.symm
  · unfold norm at h; rw [if_pos hr, hi] at h; exact absurd h (by simp)

theorem rawBit_over (d : Dec) (p : Nat) : (rawBit d p).2.over = d.over := by
  unfold rawBit
  simp only
  split <;> rfl

end LzmaVerif.Bcj2

namespace LzmaVerif.Prog
open LzmaVerif Rc

/-- `over` after the pending normalisation never decreases along a run -/
theorem decRun_norm_over_le {α : Type} (prog : Prog α) : ∀ (ps : Probs) (d : Dec) (a : α) (ps₁ : Probs) (e₁ : Dec),
    prog.decRun ps d = (a, ps₁, e₁) → d.normalize.over ≤ e₁.normalize.over := by
  induction prog with
  | ret a =>
    intro ps d a' ps₁ e₁ hr
    rw [decRun_ret] at hr
    injection hr with _ hr; injection hr with _ hr
    subst hr; exact Nat.le_refl _
  | bit i k ih =>
    intro ps d a ps₁ e₁ hr
    obtain ⟨b, d1, hres, h1, _⟩ := decodeBitP_norm d (ps.get i)
    rw [decRun_bit_eq i k ps d b d1 hres] at hr
    have := ih b _ d1 a ps₁ e₁ hr
    have := normalize_over_le d1
    omega
  | direct k ih =>
    intro ps d a ps₁ e₁ hr
    obtain ⟨b, d1, hres, h1, _⟩ := decodeDirect1_norm d
    rw [decRun_direct_eq k ps d b d1 hres] at hr
    have := ih b _ d1 a ps₁ e₁ hr
    have := normalize_over_le d1
    omega

end LzmaVerif.Prog

namespace LzmaVerif.Bcj2
open LzmaVerif Rc

theorem finish_cj (n c c' : Nat) (acc : List Nat) : finish .cj n c acc = finish .cj n c' acc := by
  unfold finish
  by_cases hn : n = 0
  · rw [if_pos hn, if_pos hn]
    by_cases h1 : c ≠ 0 <;> by_cases h2 : c' ≠ 0 <;> simp [h1, h2]
  · rw [if_neg hn, if_neg hn]

theorem finish_ne (st : St) (n c : Nat) (acc : List Nat) (h : n ≠ 0) :
    finish st n c acc = .error .eof := by
  unfold finish; rw [if_neg h]

theorem finish_main0 (acc : List Nat) : finish .main 0 0 acc = .ok acc.reverse := rfl

theorem finish_rc0 (c : Nat) (acc : List Nat) : finish .rc 0 c acc = .error .notFinished := by
  unfold finish
  rw [if_pos rfl]
  by_cases h : c ≠ 0
  · rw [if_pos h]
  · rw [if_neg h]

/-! ## (iii) the scanner with the real range decoder follows `Prog.decRun` -/

theorem scan_eq (main : List Nat) : ∀ (n prev ip : Nat) (call jump acc : List Nat) (ps : Probs)
    (d D : Dec) (out : Out) (ps' : Probs) (d' : Dec),
    norm d = some D →
    (dprog main n prev ip call jump acc).decRun ps d = (out, ps', d') →
    d'.normalize.over = 0 →
    scan main n prev ip call jump D ps acc = conclude out d'.normalize := by
  induction main with
  | nil =>
    intro n prev ip call jump acc ps d D out ps' d' hD hrun hov
    simp only [dprog] at hrun
    rw [Prog.decRun_ret] at hrun
    injection hrun with h1 hrun; injection hrun with _ h3
    subst h1; subst h3
    rw [norm_eq_normalize d D hD]
    simp only [scan, conclude]
  | cons b ms ih =>
    intro n prev ip call jump acc ps d D out ps' d' hD hrun hov
    have hDn := norm_eq_normalize d D hD
    cases n with
    | zero =>
      simp only [dprog] at hrun
      rw [Prog.decRun_ret] at hrun
      injection hrun with h1 hrun; injection hrun with _ h3
      subst h1; subst h3
      rw [hDn]
      simp only [scan, conclude]
    | succ n' =>
      by_cases hop : isOp prev b = false
      · simp only [dprog, hop, if_true] at hrun
        simp only [scan, hop, if_true]
        exact ih n' b _ call jump _ ps d D out ps' d' hD hrun hov
      · have hop' : isOp prev b = true := by cases h : isOp prev b <;> simp_all
        simp only [dprog, hop', Bool.true_eq_false, if_false] at hrun
        simp only [scan, hop', Bool.true_eq_false, if_false]
        have hbit : d.decodeBitP (ps.get (probIdx prev b))
            = ((rawBit D (ps.get (probIdx prev b))).1, (rawBit D (ps.get (probIdx prev b))).2) := by
          rw [decodeBitP_eq_rawBit, hDn]
        rw [Prog.decRun_bit_eq _ _ ps d _ _ hbit] at hrun
        generalize rawBit D (ps.get (probIdx prev b)) = r at hrun hbit
        -- `r.2` is the decoder state after the bit; its pending normalisation has a byte
        have hmono := Prog.decRun_norm_over_le _ _ _ _ _ _ hrun
        have hn2 : norm r.2 = some r.2.normalize := norm_of_over _ (by omega)
        by_cases hb : r.1 = false
        · simp only [hb, if_true] at hrun ⊢
          rw [hn2]
          exact ih n' b _ call jump _ _ r.2 _ out ps' d' hn2 hrun hov
        · have hb' : r.1 = true := by cases h : r.1 <;> simp_all
          simp only [hb', Bool.true_eq_false, if_false] at hrun ⊢
          cases hta : takeAddr (if b = 0xE8 then call else jump) with
          | empty =>
            rw [hta] at hrun
            simp only at hrun ⊢
            rw [Prog.decRun_ret] at hrun
            injection hrun with h1 hrun
            subst h1
            simp only [conclude]
            exact finish_cj _ _ _ _
          | short =>
            rw [hta] at hrun
            simp only at hrun ⊢
            rw [Prog.decRun_ret] at hrun
            injection hrun with h1 hrun
            subst h1
            simp only [conclude]
          | addr v rest =>
            rw [hta] at hrun
            simp only at hrun ⊢
            by_cases hlt : n' < 4
            · simp only [hlt, if_true] at hrun ⊢
              rw [Prog.decRun_ret] at hrun
              injection hrun with h1 hrun
              subst h1
              simp only [conclude]
            · simp only [hlt, if_false] at hrun ⊢
              rw [hn2]
              exact ih _ _ _ _ _ _ _ r.2 _ out ps' d' hn2 hrun hov

/-! ## (i) address conversion -/

/-- `dest = src - ip` undoes `src = dest + ip` on wrapping `u32` -/
theorem addr_roundtrip (rel ip : Nat) (hr : rel < M32) (hi : ip < M32) :
    ((rel + ip) % M32 + M32 - ip) % M32 = rel := by
  unfold M32 at *; omega

/-- big-endian split / join -/
theorem takeAddr_be32 (v : Nat) (rest : List Nat) (hv : v < M32) :
    takeAddr (be32 v ++ rest) = .addr v rest := by
  simp only [be32, List.cons_append, List.nil_append, takeAddr]
  congr 1
  unfold M32 at hv; omega

/-- little-endian digits of the relative displacement read from the data -/
theorem le_digits (x0 x1 x2 x3 : Nat) (h0 : x0 < 256) (h1 : x1 < 256) (h2 : x2 < 256) (h3 : x3 < 256) :
    (((x3 * 256 + x2) * 256 + x1) * 256 + x0) / 16777216 = x3 ∧
    (((x3 * 256 + x2) * 256 + x1) * 256 + x0) / 65536 % 256 = x2 ∧
    (((x3 * 256 + x2) * 256 + x1) * 256 + x0) / 256 % 256 = x1 ∧
    (((x3 * 256 + x2) * 256 + x1) * 256 + x0) % 256 = x0 ∧
    (((x3 * 256 + x2) * 256 + x1) * 256 + x0) < M32 := by
  unfold M32; omega

/-! ## (ii) the encoder walks the decoder's program -/

theorem dprog_lit (b : Nat) (ms : List Nat) (n prev ip : Nat) (call jump acc : List Nat)
    (h : isOp prev b = false) :
    dprog (b :: ms) (n + 1) prev ip call jump acc
      = dprog ms n b ((ip + 1) % M32) call jump (b :: acc) := by
  simp only [dprog, h, if_true]

theorem encRun_noconv (b : Nat) (ms : List Nat) (n prev ip : Nat) (call jump acc : List Nat)
    (h : isOp prev b = true) (bits : List Bool) (ps : Probs) (e : Enc) :
    (dprog (b :: ms) (n + 1) prev ip call jump acc).encRun (false :: bits) ps e
      = (dprog ms n b ((ip + 1) % M32) call jump (b :: acc)).encRun bits
          (ps.set (probIdx prev b) (updProb (ps.get (probIdx prev b)) false))
          (encodeBitP e (ps.get (probIdx prev b)) false) := by
  simp only [dprog, h, Bool.true_eq_false, if_false, Prog.encRun, if_true]

theorem encRun_conv (b : Nat) (ms : List Nat) (n prev ip : Nat) (call jump acc : List Nat)
    (h : isOp prev b = true) (v : Nat) (rest : List Nat)
    (hta : takeAddr (if b = 0xE8 then call else jump) = .addr v rest) (hn : ¬ n < 4)
    (bits : List Bool) (ps : Probs) (e : Enc) :
    (dprog (b :: ms) (n + 1) prev ip call jump acc).encRun (true :: bits) ps e
      = (dprog ms (n - 4) ((v + M32 - ((ip + 1) % M32 + 4) % M32) % M32 / 16777216)
            (((ip + 1) % M32 + 4) % M32) (if b = 0xE8 then rest else call)
            (if b = 0xE8 then jump else rest)
            (((v + M32 - ((ip + 1) % M32 + 4) % M32) % M32 / 16777216) ::
             ((v + M32 - ((ip + 1) % M32 + 4) % M32) % M32 / 65536 % 256) ::
             ((v + M32 - ((ip + 1) % M32 + 4) % M32) % M32 / 256 % 256) ::
             ((v + M32 - ((ip + 1) % M32 + 4) % M32) % M32 % 256) :: b :: acc)).encRun bits
          (ps.set (probIdx prev b) (updProb (ps.get (probIdx prev b)) true))
          (encodeBitP e (ps.get (probIdx prev b)) true) := by
  simp only [dprog, h, Bool.true_eq_false, if_false, Prog.encRun, hta, hn]

/-- the not-converted step of the encoder, for any continuation `t` -/
theorem step_noconv (b : Nat) (r : List Nat) (prev ip : Nat) (acc : List Nat) (ps : Probs) (e : Enc)
    (h : isOp prev b = true) (t : List Nat × List Nat × List Nat × Enc)
    (ih : ∃ bits ps', (dprog t.1 r.length b ((ip + 1) % M32) t.2.1 t.2.2.1 (b :: acc)).encRun bits
        (ps.set (probIdx prev b) (updProb (ps.get (probIdx prev b)) false))
        (encodeBitP e (ps.get (probIdx prev b)) false)
        = some (.fin .main 0 (r.reverse ++ b :: acc) [] [], [], ps', t.2.2.2)) :
    ∃ bits ps', (dprog (b :: t.1) (b :: r).length prev ip t.2.1 t.2.2.1 acc).encRun bits ps e
        = some (.fin .main 0 ((b :: r).reverse ++ acc) [] [], [], ps', t.2.2.2) := by
  obtain ⟨bits, ps', hh⟩ := ih
  refine ⟨false :: bits, ps', ?_⟩
  rw [List.length_cons, encRun_noconv _ _ _ _ _ _ _ _ h, hh]
  simp only [List.reverse_cons, List.append_assoc, List.singleton_append]

theorem enc_prog (convert : Nat → Bool) : ∀ (fuel : Nat) (data : List Nat) (prev ip k : Nat) (e : Enc)
    (ps : Probs) (acc : List Nat), data.length ≤ fuel → (∀ b ∈ data, b < 256) →
    ∃ bits ps',
      (dprog (encLoop convert fuel data prev ip k e ps).1 data.length prev ip
          (encLoop convert fuel data prev ip k e ps).2.1
          (encLoop convert fuel data prev ip k e ps).2.2.1 acc).encRun bits ps e
        = some (.fin .main 0 (data.reverse ++ acc) [] [], [], ps',
            (encLoop convert fuel data prev ip k e ps).2.2.2) := by
  intro fuel
  induction fuel with
  | zero =>
    intro data prev ip k e ps acc hlen _
    have : data = [] := List.eq_nil_of_length_eq_zero (by omega)
    subst this
    exact ⟨[], ps, by simp only [encLoop, dprog, Prog.encRun, List.reverse_nil, List.nil_append, List.length_nil]⟩
  | succ f ih =>
    intro data prev ip k e ps acc hlen hb
    cases data with
    | nil =>
      exact ⟨[], ps, by simp only [encLoop, dprog, Prog.encRun, List.reverse_nil, List.nil_append, List.length_nil]⟩
    | cons b r =>
      have hlr : r.length ≤ f := by simp only [List.length_cons] at hlen; omega
      have hbr : ∀ x ∈ r, x < 256 := fun x hx => hb x (List.mem_cons_of_mem _ hx)
      by_cases hop : isOp prev b = false
      · simp only [encLoop, hop, if_true]
        obtain ⟨bits, ps', hh⟩ := ih r b ((ip + 1) % M32) k e ps (b :: acc) hlr hbr
        refine ⟨bits, ps', ?_⟩
        rw [List.length_cons, dprog_lit _ _ _ _ _ _ _ _ hop, hh]
        simp only [List.reverse_cons, List.append_assoc, List.singleton_append]
      · have hop' : isOp prev b = true := by cases h : isOp prev b <;> simp_all
        have hno : ∀ (k' : Nat), ∃ bits ps',
            (dprog (b :: (encLoop convert f r b ((ip + 1) % M32) k'
                (encodeBitP e (ps.get (probIdx prev b)) false)
                (ps.set (probIdx prev b) (updProb (ps.get (probIdx prev b)) false))).1) (b :: r).length prev ip
              (encLoop convert f r b ((ip + 1) % M32) k'
                (encodeBitP e (ps.get (probIdx prev b)) false)
                (ps.set (probIdx prev b) (updProb (ps.get (probIdx prev b)) false))).2.1
              (encLoop convert f r b ((ip + 1) % M32) k'
                (encodeBitP e (ps.get (probIdx prev b)) false)
                (ps.set (probIdx prev b) (updProb (ps.get (probIdx prev b)) false))).2.2.1 acc).encRun bits ps e
            = some (.fin .main 0 ((b :: r).reverse ++ acc) [] [], [], ps',
              (encLoop convert f r b ((ip + 1) % M32) k'
                (encodeBitP e (ps.get (probIdx prev b)) false)
                (ps.set (probIdx prev b) (updProb (ps.get (probIdx prev b)) false))).2.2.2) := by
          intro k'
          exact step_noconv b r prev ip acc ps e hop' _ (ih r b _ k' _ _ (b :: acc) hlr hbr)
        rcases r with _ | ⟨x0, _ | ⟨x1, _ | ⟨x2, _ | ⟨x3, r'⟩⟩⟩⟩
        · simp only [encLoop, hop', Bool.true_eq_false, if_false]; exact hno (k + 1)
        · simp only [encLoop, hop', Bool.true_eq_false, if_false]; exact hno (k + 1)
        · simp only [encLoop, hop', Bool.true_eq_false, if_false]; exact hno (k + 1)
        · simp only [encLoop, hop', Bool.true_eq_false, if_false]; exact hno (k + 1)
        · by_cases hc : convert k = true
          · have h0 : x0 < 256 := hb x0 (by simp)
            have h1 : x1 < 256 := hb x1 (by simp)
            have h2 : x2 < 256 := hb x2 (by simp)
            have h3 : x3 < 256 := hb x3 (by simp)
            have hbr' : ∀ x ∈ r', x < 256 := fun x hx => hbr x (by simp [hx])
            have hlr' : r'.length ≤ f := by simp only [List.length_cons] at hlr; omega
            obtain ⟨d3, d2, d1, d0, hrel⟩ := le_digits x0 x1 x2 x3 h0 h1 h2 h3
            have hip2 : ((ip + 1) % M32 + 4) % M32 < M32 := Nat.mod_lt _ (by unfold M32; omega)
            have hval := addr_roundtrip _ _ hrel hip2
            have habs : (((x3 * 256 + x2) * 256 + x1) * 256 + x0 + ((ip + 1) % M32 + 4) % M32) % M32 < M32 :=
              Nat.mod_lt _ (by unfold M32; omega)
            have hlen5 : (b :: x0 :: x1 :: x2 :: x3 :: r').length = (r'.length + 4) + 1 := by
              simp only [List.length_cons]
            have hrev : (b :: x0 :: x1 :: x2 :: x3 :: r').reverse ++ acc
                = r'.reverse ++ x3 :: x2 :: x1 :: x0 :: b :: acc := by
              simp only [List.reverse_cons, List.append_assoc, List.cons_append, List.nil_append]
            obtain ⟨bits, ps', hh⟩ := ih r' x3 (((ip + 1) % M32 + 4) % M32) (k + 1)
              (encodeBitP e (ps.get (probIdx prev b)) true)
              (ps.set (probIdx prev b) (updProb (ps.get (probIdx prev b)) true))
              (x3 :: x2 :: x1 :: x0 :: b :: acc) hlr' hbr'
            simp only [encLoop, hop', Bool.true_eq_false, if_false, hc, if_true]
            by_cases hE : b = 0xE8
            · subst hE
              simp only [if_true] at hh ⊢
              refine ⟨true :: bits, ps', ?_⟩
              rw [hlen5, encRun_conv _ _ _ _ _ _ _ _ hop' _ _
                (by rw [if_pos rfl]; exact takeAddr_be32 _ _ habs) (by omega)]
              rw [hval, d3, d2, d1, d0, Nat.add_sub_cancel, if_pos rfl, if_pos rfl, hrev]
              exact hh
            · simp only [hE, if_false] at hh ⊢
              refine ⟨true :: bits, ps', ?_⟩
              rw [hlen5, encRun_conv _ _ _ _ _ _ _ _ hop' _ _
                (by rw [if_neg hE]; exact takeAddr_be32 _ _ habs) (by omega)]
              rw [hval, d3, d2, d1, d0, Nat.add_sub_cancel, if_neg hE, if_neg hE, hrev]
              exact hh
          · simp only [encLoop, hop', Bool.true_eq_false, if_false, hc]; exact hno (k + 1)

end LzmaVerif.Bcj2

namespace LzmaVerif
open Rc Rc.Ideal
namespace Rc

/-- the initial `code` of the decoder on an encoder's output is below the initial `range`
    (so the BCJ2 check `code == 0xFFFFFFFF` after the 5 init bytes never fires) -/
theorem init_code_lt {α : Type} (prog : Prog α) (bits : List Bool) (ps : Probs) (hps : ProbsOk ps)
    (a : α) (bs' : List Bool) (ps' : Probs) (e' : Enc)
    (henc : prog.encRun bits ps Enc.init = some (a, bs', ps', e')) (rest : List Nat) (d0 : Dec)
    (hinit : Dec.init (e'.bytes ++ rest) = some d0) :
    d0.code < 0xFFFFFFFF ∧ d0.range = 0xFFFFFFFF := by
  have hall := Prog.evs_ok prog bits ps hps
  obtain ⟨habs, hT⟩ := enc_abs prog bits ps Enc.init st0 a bs' ps' e' henc hps abs_init st0_ROk
  obtain ⟨fb, fl, fn⟩ := finish_spec e' _ habs hT
  obtain ⟨nk, nlo, nhi⟩ := run_nested (prog.evs bits ps) st0 st0_ROk hall
  generalize hTdef : run st0 (prog.evs bits ps) = T at *
  have hbytes : ∀ x ∈ e'.bytes, x < 256 := fun x hx => fb x (List.mem_reverse.mp hx)
  have hlen : e'.bytes.length = T.k + 5 := by unfold Enc.bytes; rw [List.length_reverse]; exact fl
  have hnum : num e'.bytes = T.L := fn
  have hF4 : num e'.bytes < 256 ^ (T.k + 4) := by
    rw [hnum]
    simp only [st0, Nat.sub_zero, Nat.zero_add] at nhi
    have h1 : 4294967295 * 256 ^ T.k ≤ 256 ^ 4 * 256 ^ T.k := Nat.mul_le_mul_right _ (by decide)
    have h2 : 256 ^ (T.k + 4) = 256 ^ 4 * 256 ^ T.k := by rw [pow_add]; ring
    rw [h2]
    exact Nat.lt_of_lt_of_le nhi h1
  obtain ⟨d0', hinit', d0r, d0c, _, _, _⟩ := init_spec e'.bytes rest T.k hlen hbytes hF4
  rw [hinit] at hinit'
  injection hinit' with hd
  subst hd
  have hsim0 : Sim (num e'.bytes) T.k st0 { range := 0xFFFFFFFF, code := num e'.bytes / 256 ^ T.k, k := 0 } :=
    ⟨rfl, rfl, Nat.zero_le _, rfl⟩
  have hlt := code_lt_of_nested (num e'.bytes) T.k st0 _ hsim0 (by rw [hnum]; exact nlo) (by rw [hnum]; exact nhi)
  simp only at hlt
  exact ⟨by rw [d0c]; exact hlt, d0r⟩

end Rc
end LzmaVerif

namespace LzmaVerif.Bcj2
open LzmaVerif Rc

theorem rcInit_of_init (inp : List Nat) (d0 : Dec) (h : Dec.init inp = some d0)
    (hc : d0.code < 0xFFFFFFFF) : rcInit inp = .ok d0 := by
  rcases inp with _ | ⟨b0, _ | ⟨b1, _ | ⟨b2, _ | ⟨b3, _ | ⟨b4, tl⟩⟩⟩⟩⟩
  all_goals (try (simp only [Dec.init] at h; contradiction))
  simp only [Dec.init] at h
  by_cases h0 : b0 = 0
  · rw [if_pos h0] at h
    injection h with h
    subst h
    simp only at hc
    simp only [rcInit, h0, ne_eq, not_true_eq_false, if_false]
    rw [if_neg (by omega)]
  · rw [if_neg h0] at h; exact absurd h (by simp)

/-- **BCJ2 round trip**: for every byte string and every decision function (which opcodes to
    convert), the decoder model reconstructs the data from the four streams of the encoder model. -/
theorem bcj2_roundtrip (convert : Nat → Bool) (data : List Nat) (h : ∀ b ∈ data, b < 256) :
    decode (encode convert data).main (encode convert data).call (encode convert data).jump
      (encode convert data).rc data.length = .ok data := by
  by_cases hn : data.length = 0
  · have : data = [] := List.eq_nil_of_length_eq_zero hn
    subst this
    rfl
  · unfold decode
    rw [if_neg hn]
    simp only [encode]
    obtain ⟨bits, ps', henc⟩ :=
      enc_prog convert data.length data 0 0 0 Enc.init probs0 [] (Nat.le_refl _) h
    generalize encLoop convert data.length data 0 0 0 Enc.init probs0 = t at henc ⊢
    obtain ⟨d0, d', hinit, hdec, _, hov, hcode, _⟩ :=
      rc_roundtrip_fin _ bits probs0 (ProbsOk_replicate 258) _ [] ps' t.2.2.2 henc []
    obtain ⟨hclt, hr⟩ := init_code_lt _ bits probs0 (ProbsOk_replicate 258) _ [] ps' t.2.2.2 henc [] d0 hinit
    rw [List.append_nil] at hinit
    rw [rcInit_of_init _ d0 hinit hclt]
    simp only
    have hn0 : norm d0 = some d0 := by
      unfold norm; rw [if_neg (by rw [hr]; omega)]
    rw [scan_eq _ _ _ _ _ _ _ _ d0 d0 _ ps' d' hn0 hdec hov]
    simp only [conclude, hcode, finish_main0, List.append_nil, List.reverse_reverse]

/-! ## Non-vacuity -/

set_option maxRecDepth 100000 in
/-- a converted `call` (rel `0x10000000`) and a converted `jmp` whose target wraps below 0 -/
example :
    decode [0xE8, 0xE9] [0x10, 0, 0, 5] [0xF1, 0, 0, 9] [0, 0xBF, 0xFF, 0xFC, 0] 10
      = .ok [0xE8, 0, 0, 0, 0x10, 0xE9, 0xFF, 0xFF, 0xFF, 0xF0] := by
  have h := bcj2_roundtrip (fun _ => true) [0xE8, 0, 0, 0, 0x10, 0xE9, 0xFF, 0xFF, 0xFF, 0xF0]
    (by decide)
  have he : encode (fun _ => true) [0xE8, 0, 0, 0, 0x10, 0xE9, 0xFF, 0xFF, 0xFF, 0xF0]
      = { main := [0xE8, 0xE9], call := [0x10, 0, 0, 5], jump := [0xF1, 0, 0, 9],
          rc := [0, 0xBF, 0xFF, 0xFC, 0] } := by rfl
  rw [he] at h
  exact h

/-- mixed decisions (every second opcode converted), `0F 84`, `E8` with rel = -1, `0F 80`,
    and three opcodes in the last four bytes (never converted) -/
def exData : List Nat :=
  [1, 0x0F, 0x84, 1, 2, 3, 4, 0xE8, 0xFF, 0xFF, 0xFF, 0xFF, 0x0F, 0x80, 0xE8, 0xE9, 1]

example : decode (encode (fun k => k % 2 == 0) exData).main (encode (fun k => k % 2 == 0) exData).call
    (encode (fun k => k % 2 == 0) exData).jump (encode (fun k => k % 2 == 0) exData).rc 17 = .ok exData :=
  bcj2_roundtrip (fun k => k % 2 == 0) exData (by
    intro b hb
    simp only [exData, List.mem_cons, List.mem_nil_iff, or_false] at hb
    omega)

example : (encode (fun k => k % 2 == 0) exData).main = [1, 0x0F, 0x84, 0xE8, 0xFF, 0xFF, 0xFF, 0xFF, 0x0F, 0x80, 0xE8, 0xE9, 1]
    ∧ (encode (fun k => k % 2 == 0) exData).jump = [4, 3, 2, 8] := by
  constructor <;> rfl


/-! ## Checked examples of the models (kernel evaluation) -/

set_option maxRecDepth 100000 in
example : roundtrip (fun _ => true) [0xE8, 0xFC, 0xFF, 0xFF, 0xFF] = true := by rfl   -- rel = -4: abs = 1 (wraps)
set_option maxRecDepth 100000 in
example : roundtrip (fun _ => true) [0xE8, 0xE8, 0xE8, 0xE8, 0xE8, 0x0F, 0x0F, 0x8F, 0xE9] = true := by rfl
set_option maxRecDepth 100000 in
example : roundtrip (fun _ => false) [0xE8, 0, 0, 0, 0x10, 0xE9, 0xFF, 0xFF, 0xFF, 0xF0] = true := by rfl

set_option maxRecDepth 100000 in
/-- Behaviour of `BCJ2Reader` kept by the model (confirmed on the real code, /repo b212bdf): the
    last byte is an opcode whose bit says "converted": with 1..3 bytes left in CALL the stream is
    accepted (no finish check), with an empty CALL it is rejected; `code ≠ 0` at the end is
    rejected (rc `00 00 00 00 01`). -/
example : decode [0xE8] [0x10, 0, 0] [] [0, 0xBF, 0xFF, 0xFC, 0] 1 = .ok [0xE8]
    ∧ decode [0xE8] [] [] [0, 0xBF, 0xFF, 0xFC, 0] 1 = .error .notFinished
    ∧ decode [1, 2] [] [] [0, 0, 0, 0, 1] 2 = .error .notFinished
    ∧ decode [1, 2, 3] [] [] [0, 0, 0, 0, 1] 2 = .error .notFinished := by
  refine ⟨?_, ?_, ?_, ?_⟩ <;> rfl

set_option maxRecDepth 100000 in
/-- truncated MAIN / RC streams: `UnexpectedEof` -/
example : decode [1, 2] [] [] [0, 0, 0, 0, 0] 5 = .error .eof ∧ decode [1, 2] [] [] [0, 0] 5 = .error .eof := by
  constructor <;> rfl

end LzmaVerif.Bcj2

#print axioms LzmaVerif.Bcj2.bcj2_roundtrip
#print axioms LzmaVerif.Bcj2.scan_eq
#print axioms LzmaVerif.Bcj2.enc_prog
#print axioms LzmaVerif.Bcj2.addr_roundtrip
#print axioms LzmaVerif.Rc.init_code_lt

namespace LzmaVerif.Bcj2
open LzmaVerif Rc

/-! ## Truncation (C05): cutting one of the four streams of an encoder output -/

theorem takeAddr_append (c1 c2 : List Nat) (v : Nat) (r : List Nat) (h : takeAddr c1 = .addr v r) :
    takeAddr (c1 ++ c2) = .addr v (r ++ c2) := by
  rcases c1 with _ | ⟨a0, _ | ⟨a1, _ | ⟨a2, _ | ⟨a3, tl⟩⟩⟩⟩
  all_goals (try (simp only [takeAddr] at h; contradiction))
  simp only [takeAddr, Addr.addr.injEq] at h
  obtain ⟨hv, hr⟩ := h
  simp only [List.cons_append, takeAddr, hv, hr]

theorem takeAddr_empty (c : List Nat) (h : takeAddr c = .empty) : c = [] := by
  rcases c with _ | ⟨a0, _ | ⟨a1, _ | ⟨a2, _ | ⟨a3, tl⟩⟩⟩⟩
  all_goals (first | rfl | (simp only [takeAddr] at h; contradiction))

/-- the `.ret` contradiction pattern: a run of `ret o` that yields `.fin .main …` forces `o` -/
theorem ret_run {o out : Out} {ps ps' : Probs} {d d' : Dec}
    (h : (Prog.ret o).decRun ps d = (out, ps', d')) : o = out ∧ d = d' := by
  rw [Prog.decRun_ret] at h
  injection h with h1 h2; injection h2 with _ h3
  exact ⟨h1, h3⟩

/-- **MAIN / CALL / JUMP cut**: the full run consumes the three streams completely and produces
    all `n` bytes; with a proper prefix of at least one of them the scanner ends in
    `UnexpectedEof`, or – only for a CALL/JUMP cut inside an address – in "error:3". -/
theorem scan_cut (m1 : List Nat) : ∀ (m2 : List Nat) (n prev ip : Nat) (c1 c2 j1 j2 acc : List Nat)
    (ps : Probs) (d D : Dec) (accF : List Nat) (ps' : Probs) (d' : Dec),
    (m2 ≠ [] ∨ c2 ≠ [] ∨ j2 ≠ []) → norm d = some D →
    (dprog (m1 ++ m2) n prev ip (c1 ++ c2) (j1 ++ j2) acc).decRun ps d
      = (.fin .main 0 accF [] [], ps', d') →
    d'.normalize.over = 0 →
    scan m1 n prev ip c1 j1 D ps acc = .error .eof ∨
      ((c2 ≠ [] ∨ j2 ≠ []) ∧ scan m1 n prev ip c1 j1 D ps acc = .error .shortAddr) := by
  induction m1 with
  | nil =>
    intro m2 n prev ip c1 c2 j1 j2 acc ps d D accF ps' d' hcut hD hrun hov
    rw [List.nil_append] at hrun
    cases m2 with
    | nil =>
      simp only [dprog] at hrun
      obtain ⟨h1, _⟩ := ret_run hrun
      simp only [Out.fin.injEq, List.append_eq_nil_iff] at h1
      obtain ⟨_, _, _, ⟨_, hc⟩, ⟨_, hj⟩⟩ := h1
      rcases hcut with h | h | h
      · exact absurd rfl h
      · exact absurd hc h
      · exact absurd hj h
    | cons b m2' =>
      cases n with
      | zero =>
        simp only [dprog] at hrun
        obtain ⟨h1, _⟩ := ret_run hrun
        simp at h1
      | succ n' =>
        left
        simp only [scan]
        exact finish_ne _ _ _ _ (by omega)
  | cons b ms ih =>
    intro m2 n prev ip c1 c2 j1 j2 acc ps d D accF ps' d' hcut hD hrun hov
    have hDn := norm_eq_normalize d D hD
    rw [List.cons_append] at hrun
    cases n with
    | zero =>
      simp only [dprog] at hrun
      obtain ⟨h1, _⟩ := ret_run hrun
      simp at h1
    | succ n' =>
      by_cases hop : isOp prev b = false
      · simp only [dprog, hop, if_true] at hrun
        simp only [scan, hop, if_true]
        exact ih m2 n' b _ c1 c2 j1 j2 _ ps d D accF ps' d' hcut hD hrun hov
      · have hop' : isOp prev b = true := by cases h : isOp prev b <;> simp_all
        simp only [dprog, hop', Bool.true_eq_false, if_false] at hrun
        simp only [scan, hop', Bool.true_eq_false, if_false]
        have hbit : d.decodeBitP (ps.get (probIdx prev b))
            = ((rawBit D (ps.get (probIdx prev b))).1, (rawBit D (ps.get (probIdx prev b))).2) := by
          rw [decodeBitP_eq_rawBit, hDn]
        rw [Prog.decRun_bit_eq _ _ ps d _ _ hbit] at hrun
        generalize rawBit D (ps.get (probIdx prev b)) = r at hrun hbit
        have hmono := Prog.decRun_norm_over_le _ _ _ _ _ _ hrun
        have hn2 : norm r.2 = some r.2.normalize := norm_of_over _ (by omega)
        by_cases hb : r.1 = false
        · simp only [hb, if_true] at hrun ⊢
          rw [hn2]
          exact ih m2 n' b _ c1 c2 j1 j2 _ _ r.2 _ accF ps' d' hcut hn2 hrun hov
        · have hb' : r.1 = true := by cases h : r.1 <;> simp_all
          simp only [hb', Bool.true_eq_false, if_false] at hrun ⊢
          -- the full run takes an address
          cases hta : takeAddr (if b = 0xE8 then c1 ++ c2 else j1 ++ j2) with
          | empty =>
            rw [hta] at hrun; simp only at hrun
            obtain ⟨h1, _⟩ := ret_run hrun
            simp at h1
          | short =>
            rw [hta] at hrun; simp only at hrun
            obtain ⟨h1, _⟩ := ret_run hrun
            simp at h1
          | addr v rest =>
            rw [hta] at hrun; simp only at hrun
            by_cases hlt : n' < 4
            · simp only [hlt, if_true] at hrun
              obtain ⟨h1, _⟩ := ret_run hrun
              simp at h1
            · simp only [hlt, if_false] at hrun
              have hn'0 : n' ≠ 0 := by omega
              by_cases hE : b = 0xE8
              · subst hE
                simp only [if_true] at hrun hta ⊢
                cases htc : takeAddr c1 with
                | empty =>
                  left
                  simp only
                  exact finish_ne _ _ _ _ hn'0
                | short =>
                  right
                  simp only [hn'0, if_false]
                  refine ⟨Or.inl ?_, trivial⟩
                  intro hc2
                  rw [hc2, List.append_nil, htc] at hta
                  contradiction
                | addr v' rest' =>
                  simp only [hlt, if_false]
                  rw [hn2]
                  have := takeAddr_append c1 c2 v' rest' htc
                  rw [hta] at this
                  simp only [Addr.addr.injEq] at this
                  obtain ⟨hv, hr⟩ := this
                  subst hv; subst hr
                  exact ih m2 _ _ _ rest' c2 j1 j2 _ _ r.2 _ accF ps' d' hcut hn2 hrun hov
              · simp only [hE, if_false] at hrun hta ⊢
                cases htc : takeAddr j1 with
                | empty =>
                  left
                  simp only
                  exact finish_ne _ _ _ _ hn'0
                | short =>
                  right
                  simp only [hn'0, if_false]
                  refine ⟨Or.inr ?_, trivial⟩
                  intro hj2
                  rw [hj2, List.append_nil, htc] at hta
                  contradiction
                | addr v' rest' =>
                  simp only [hlt, if_false]
                  rw [hn2]
                  have := takeAddr_append j1 j2 v' rest' htc
                  rw [hta] at this
                  simp only [Addr.addr.injEq] at this
                  obtain ⟨hv, hr⟩ := this
                  subst hv; subst hr
                  exact ih m2 _ _ _ c1 c2 rest' j2 _ _ r.2 _ accF ps' d' hcut hn2 hrun hov

/-! ### RC cut -/

/-- the same decoder state with less input behind it -/
def cutInp (D : Dec) (pre : List Nat) : Dec := { D with inp := pre }

theorem rawBit_cut (D : Dec) (pre : List Nat) (p : Nat) :
    rawBit (cutInp D pre) p = ((rawBit D p).1, cutInp (rawBit D p).2 pre) ∧ (rawBit D p).2.inp = D.inp := by
  unfold rawBit cutInp
  simp only
  split <;> exact ⟨rfl, rfl⟩

theorem norm_lt (d : Dec) (h : d.range < 2 ^ 24) :
    norm d = (match d.inp with
      | [] => none
      | b :: rest => some { d with range := d.range * 256, code := (d.code * 256 + b) % 2 ^ 32, inp := rest }) := by
  unfold norm; rw [if_pos h]
  obtain ⟨r, c, i, o⟩ := d
  cases i <;> rfl

theorem norm_ge (d : Dec) (h : ¬ d.range < 2 ^ 24) : norm d = some d := by
  unfold norm; rw [if_neg h]

theorem norm_cut (r2 : Dec) (pre x : List Nat) (h : r2.inp = pre ++ x) (N : Dec) (hN : norm r2 = some N) :
    (∃ pre', norm (cutInp r2 pre) = some (cutInp N pre') ∧ N.inp = pre' ++ x) ∨
    (norm (cutInp r2 pre) = none ∧ pre = [] ∧ ∃ y, x = y :: N.inp) := by
  by_cases hr : r2.range < 2 ^ 24
  · rw [norm_lt r2 hr, h] at hN
    rw [norm_lt (cutInp r2 pre) hr]
    cases pre with
    | nil =>
      right
      cases x with
      | nil => simp only [List.append_nil] at hN; contradiction
      | cons y xs =>
        simp only [List.nil_append, Option.some.injEq] at hN
        subst hN
        exact ⟨rfl, rfl, y, rfl⟩
    | cons c cs =>
      left
      simp only [List.cons_append, Option.some.injEq] at hN
      subst hN
      exact ⟨cs, rfl, rfl⟩
  · rw [norm_ge r2 hr] at hN
    rw [norm_ge (cutInp r2 pre) hr]
    left
    simp only [Option.some.injEq] at hN
    subst hN
    exact ⟨pre, rfl, h⟩

/-- statement of the RC-cut lemma for a fixed MAIN stream -/
def CutIH (main : List Nat) : Prop :=
  ∀ (n prev ip : Nat) (call jump acc : List Nat) (ps : Probs) (d D : Dec) (pre x accF cF jF : List Nat)
    (ps' : Probs) (d' : Dec),
    norm d = some D → D.inp = pre ++ x → x ≠ [] →
    (dprog main n prev ip call jump acc).decRun ps d = (.fin .main 0 accF cF jF, ps', d') →
    d'.normalize.over = 0 → d'.normalize.inp = [] →
    scan main n prev ip call jump (cutInp D pre) ps acc = .error .eof ∨
      (x.length = 1 ∧ scan main n prev ip call jump (cutInp D pre) ps acc = .error .notFinished)

/-- nothing is left to do when no output is missing -/
theorem dprog_zero_run (ms : List Nat) (prev ip : Nat) (call jump acc : List Nat) (ps ps' : Probs)
    (d d' : Dec) (accF cF jF : List Nat)
    (h : (dprog ms 0 prev ip call jump acc).decRun ps d = (.fin .main 0 accF cF jF, ps', d')) :
    accF = acc ∧ d' = d := by
  cases ms with
  | nil =>
    simp only [dprog] at h
    obtain ⟨h1, h2⟩ := ret_run h
    simp only [Out.fin.injEq] at h1
    exact ⟨h1.2.2.1.symm, h2.symm⟩
  | cons b ms =>
    simp only [dprog] at h
    obtain ⟨h1, _⟩ := ret_run h
    simp at h1

/-- the pending normalisation after a bit, on the cut decoder -/
theorem after_norm (ms : List Nat) (ih : CutIH ms) (m prev ip : Nat) (call jump acc : List Nat)
    (ps : Probs) (r2 : Dec) (c : Nat) (pre x accF cF jF : List Nat) (ps' : Probs) (d' : Dec)
    (hinp : r2.inp = pre ++ x) (hx : x ≠ []) (hn2 : norm r2 = some r2.normalize)
    (hrun : (dprog ms m prev ip call jump acc).decRun ps r2 = (.fin .main 0 accF cF jF, ps', d'))
    (hov : d'.normalize.over = 0) (hfin : d'.normalize.inp = []) :
    (match norm (cutInp r2 pre) with
      | none => finish .rc m c acc
      | some d2 => scan ms m prev ip call jump d2 ps acc) = .error .eof ∨
    (x.length = 1 ∧
      (match norm (cutInp r2 pre) with
        | none => finish .rc m c acc
        | some d2 => scan ms m prev ip call jump d2 ps acc) = .error .notFinished) := by
  rcases norm_cut r2 pre x hinp _ hn2 with ⟨pre', hnc, hi⟩ | ⟨hnc, _, y, hxy⟩
  · rw [hnc]
    exact ih m prev ip call jump acc ps r2 _ pre' x accF cF jF ps' d' hn2 hi hx hrun hov hfin
  · rw [hnc]
    simp only
    by_cases hm : m = 0
    · subst hm
      obtain ⟨ha, hd⟩ := dprog_zero_run ms prev ip call jump acc ps ps' r2 d' accF cF jF hrun
      subst ha; subst hd
      right
      rw [hfin] at hxy
      exact ⟨by rw [hxy]; rfl, finish_rc0 _ _⟩
    · left
      exact finish_ne _ _ _ _ hm

theorem scan_rccut (main : List Nat) : CutIH main := by
  induction main with
  | nil =>
    intro n prev ip call jump acc ps d D pre x accF cF jF ps' d' hD hinp hx hrun hov hfin
    simp only [dprog] at hrun
    obtain ⟨_, hd⟩ := ret_run hrun
    subst hd
    rw [norm_eq_normalize d D hD, hfin] at hinp
    have := List.append_eq_nil_iff.mp hinp.symm
    exact absurd this.2 hx
  | cons b ms ih =>
    intro n prev ip call jump acc ps d D pre x accF cF jF ps' d' hD hinp hx hrun hov hfin
    have hDn := norm_eq_normalize d D hD
    cases n with
    | zero =>
      simp only [dprog] at hrun
      obtain ⟨h1, _⟩ := ret_run hrun
      simp at h1
    | succ n' =>
      by_cases hop : isOp prev b = false
      · simp only [dprog, hop, if_true] at hrun
        simp only [scan, hop, if_true]
        exact ih n' b _ call jump _ ps d D pre x accF cF jF ps' d' hD hinp hx hrun hov hfin
      · have hop' : isOp prev b = true := by cases h : isOp prev b <;> simp_all
        simp only [dprog, hop', Bool.true_eq_false, if_false] at hrun
        simp only [scan, hop', Bool.true_eq_false, if_false]
        have hbit : d.decodeBitP (ps.get (probIdx prev b))
            = ((rawBit D (ps.get (probIdx prev b))).1, (rawBit D (ps.get (probIdx prev b))).2) := by
          rw [decodeBitP_eq_rawBit, hDn]
        rw [Prog.decRun_bit_eq _ _ ps d _ _ hbit] at hrun
        obtain ⟨hrc, hri⟩ := rawBit_cut D pre (ps.get (probIdx prev b))
        rw [hrc]
        simp only
        rw [hinp] at hri
        generalize rawBit D (ps.get (probIdx prev b)) = r at hrun hbit hri
        have hmono := Prog.decRun_norm_over_le _ _ _ _ _ _ hrun
        have hn2 : norm r.2 = some r.2.normalize := norm_of_over _ (by omega)
        by_cases hb : r.1 = false
        · simp only [hb, if_true] at hrun ⊢
          exact after_norm ms ih _ _ _ _ _ _ _ r.2 _ pre x accF cF jF ps' d' hri hx hn2 hrun hov hfin
        · have hb' : r.1 = true := by cases h : r.1 <;> simp_all
          simp only [hb', Bool.true_eq_false, if_false] at hrun ⊢
          cases hta : takeAddr (if b = 0xE8 then call else jump) with
          | empty =>
            rw [hta] at hrun; simp only at hrun
            obtain ⟨h1, _⟩ := ret_run hrun
            simp at h1
          | short =>
            rw [hta] at hrun; simp only at hrun
            obtain ⟨h1, _⟩ := ret_run hrun
            simp at h1
          | addr v rest =>
            rw [hta] at hrun; simp only at hrun ⊢
            by_cases hlt : n' < 4
            · simp only [hlt, if_true] at hrun
              obtain ⟨h1, _⟩ := ret_run hrun
              simp at h1
            · simp only [hlt, if_false] at hrun ⊢
              exact after_norm ms ih _ _ _ _ _ _ _ r.2 _ pre x accF cF jF ps' d' hri hx hn2 hrun hov hfin

/-! ### The encoder's run, packaged -/

theorem init_shape (inp : List Nat) (d0 : Dec) (h : Dec.init inp = some d0) :
    ∃ b1 b2 b3 b4, inp = 0 :: b1 :: b2 :: b3 :: b4 :: d0.inp ∧
      d0 = { range := 0xFFFFFFFF, code := ((b1 * 256 + b2) * 256 + b3) * 256 + b4, inp := d0.inp, over := 0 } := by
  rcases inp with _ | ⟨b0, _ | ⟨b1, _ | ⟨b2, _ | ⟨b3, _ | ⟨b4, tl⟩⟩⟩⟩⟩
  all_goals (try (simp only [Dec.init] at h; contradiction))
  simp only [Dec.init] at h
  by_cases h0 : b0 = 0
  · rw [if_pos h0] at h
    injection h with h
    subst h; subst h0
    exact ⟨b1, b2, b3, b4, rfl, rfl⟩
  · rw [if_neg h0] at h; contradiction

/-- what the round-trip proof knows about the decoder's run on `encode convert data` -/
theorem enc_run (convert : Nat → Bool) (data : List Nat) (h : ∀ b ∈ data, b < 256) :
    ∃ (ps' : Probs) (d0 d' : Dec) (b1 b2 b3 b4 : Nat),
      (encode convert data).rc = 0 :: b1 :: b2 :: b3 :: b4 :: d0.inp ∧
      d0 = { range := 0xFFFFFFFF, code := ((b1 * 256 + b2) * 256 + b3) * 256 + b4, inp := d0.inp, over := 0 } ∧
      d0.code < 0xFFFFFFFF ∧ norm d0 = some d0 ∧
      (dprog (encode convert data).main data.length 0 0 (encode convert data).call
          (encode convert data).jump []).decRun probs0 d0 = (.fin .main 0 data.reverse [] [], ps', d') ∧
      d'.normalize.over = 0 ∧ d'.normalize.inp = [] := by
  simp only [encode]
  obtain ⟨bits, ps', henc⟩ :=
    enc_prog convert data.length data 0 0 0 Enc.init probs0 [] (Nat.le_refl _) h
  generalize encLoop convert data.length data 0 0 0 Enc.init probs0 = t at henc ⊢
  obtain ⟨d0, d', hinit, hdec, hinp, hov, _, _⟩ :=
    rc_roundtrip_fin _ bits probs0 (ProbsOk_replicate 258) _ [] ps' t.2.2.2 henc []
  obtain ⟨hclt, hr⟩ := init_code_lt _ bits probs0 (ProbsOk_replicate 258) _ [] ps' t.2.2.2 henc [] d0 hinit
  rw [List.append_nil] at hinit
  obtain ⟨b1, b2, b3, b4, hshape, hd0⟩ := init_shape _ d0 hinit
  have hn0 : norm d0 = some d0 := by
    unfold norm; rw [if_neg (by rw [hr]; omega)]
  rw [List.append_nil] at hdec
  exact ⟨ps', d0, d', b1, b2, b3, b4, hshape, hd0, hclt, hn0, hdec, hov, hinp⟩

theorem rcInit_ok (b1 b2 b3 b4 : Nat) (tl : List Nat)
    (hc : ((b1 * 256 + b2) * 256 + b3) * 256 + b4 < 0xFFFFFFFF) :
    rcInit (0 :: b1 :: b2 :: b3 :: b4 :: tl)
      = .ok { range := 0xFFFFFFFF, code := ((b1 * 256 + b2) * 256 + b3) * 256 + b4, inp := tl, over := 0 } := by
  simp only [rcInit, ne_eq, not_true_eq_false, if_false]
  rw [if_neg (by omega)]

/-! ### (a) MAIN, (b) CALL / JUMP -/

/-- decoding with prefixes of MAIN, CALL, JUMP (at least one of them proper) -/
theorem trunc_mcj (convert : Nat → Bool) (data : List Nat) (h : ∀ b ∈ data, b < 256) (hne : data ≠ [])
    (km kc kj : Nat)
    (hk : km < (encode convert data).main.length ∨ kc < (encode convert data).call.length ∨
      kj < (encode convert data).jump.length) :
    decode ((encode convert data).main.take km) ((encode convert data).call.take kc)
        ((encode convert data).jump.take kj) (encode convert data).rc data.length = .error .eof ∨
    ((kc < (encode convert data).call.length ∨ kj < (encode convert data).jump.length) ∧
      decode ((encode convert data).main.take km) ((encode convert data).call.take kc)
        ((encode convert data).jump.take kj) (encode convert data).rc data.length = .error .shortAddr) := by
  obtain ⟨ps', d0, d', b1, b2, b3, b4, hrc, hd0, hclt, hn0, hdec, hov, _⟩ := enc_run convert data h
  have hn : data.length ≠ 0 := fun h0 => hne (List.eq_nil_of_length_eq_zero h0)
  generalize encode convert data = e at *
  unfold decode
  rw [if_neg hn, hrc]
  rw [hd0] at hclt
  rw [rcInit_ok b1 b2 b3 b4 _ hclt, ← hd0]
  simp only
  rw [← List.take_append_drop km e.main, ← List.take_append_drop kc e.call,
    ← List.take_append_drop kj e.jump] at hdec
  have hcut : e.main.drop km ≠ [] ∨ e.call.drop kc ≠ [] ∨ e.jump.drop kj ≠ [] := by
    rcases hk with hk | hk | hk
    · left; intro h0; have := congrArg List.length h0; simp only [List.length_drop, List.length_nil] at this; omega
    · right; left; intro h0; have := congrArg List.length h0; simp only [List.length_drop, List.length_nil] at this; omega
    · right; right; intro h0; have := congrArg List.length h0; simp only [List.length_drop, List.length_nil] at this; omega
  rcases scan_cut _ _ _ _ _ _ _ _ _ _ _ d0 d0 _ ps' d' hcut hn0 hdec hov with hres | ⟨hcj, hres⟩
  · left; exact hres
  · right
    refine ⟨?_, hres⟩
    rcases hcj with hc | hj
    · left
      apply Classical.byContradiction
      intro hge
      exact hc (List.drop_eq_nil_of_le (by omega))
    · right
      apply Classical.byContradiction
      intro hge
      exact hj (List.drop_eq_nil_of_le (by omega))

/-- **(a)** every proper prefix of MAIN is rejected with `UnexpectedEof` -/
theorem trunc_main (convert : Nat → Bool) (data : List Nat) (h : ∀ b ∈ data, b < 256) (hne : data ≠ [])
    (k : Nat) (hk : k < (encode convert data).main.length) :
    decode ((encode convert data).main.take k) (encode convert data).call (encode convert data).jump
      (encode convert data).rc data.length = .error .eof := by
  have := trunc_mcj convert data h hne k (encode convert data).call.length
    (encode convert data).jump.length (Or.inl hk)
  rw [List.take_length, List.take_length] at this
  rcases this with h1 | ⟨h2, _⟩
  · exact h1
  · omega

/-- **(b)** every proper prefix of CALL is rejected: `UnexpectedEof`, or "error:3" -/
theorem trunc_call (convert : Nat → Bool) (data : List Nat) (h : ∀ b ∈ data, b < 256) (hne : data ≠ [])
    (k : Nat) (hk : k < (encode convert data).call.length) :
    decode (encode convert data).main ((encode convert data).call.take k) (encode convert data).jump
        (encode convert data).rc data.length = .error .eof ∨
    decode (encode convert data).main ((encode convert data).call.take k) (encode convert data).jump
        (encode convert data).rc data.length = .error .shortAddr := by
  have := trunc_mcj convert data h hne (encode convert data).main.length k
    (encode convert data).jump.length (Or.inr (Or.inl hk))
  rw [List.take_length, List.take_length] at this
  rcases this with h1 | ⟨_, h2⟩
  · exact Or.inl h1
  · exact Or.inr h2

/-- **(b)** every proper prefix of JUMP is rejected: `UnexpectedEof`, or "error:3" -/
theorem trunc_jump (convert : Nat → Bool) (data : List Nat) (h : ∀ b ∈ data, b < 256) (hne : data ≠ [])
    (k : Nat) (hk : k < (encode convert data).jump.length) :
    decode (encode convert data).main (encode convert data).call ((encode convert data).jump.take k)
        (encode convert data).rc data.length = .error .eof ∨
    decode (encode convert data).main (encode convert data).call ((encode convert data).jump.take k)
        (encode convert data).rc data.length = .error .shortAddr := by
  have := trunc_mcj convert data h hne (encode convert data).main.length
    (encode convert data).call.length k (Or.inr (Or.inr hk))
  rw [List.take_length, List.take_length] at this
  rcases this with h1 | ⟨_, h2⟩
  · exact Or.inl h1
  · exact Or.inr h2

/-! ### (c) RC -/

/-- every proper prefix of one stream is an error (corollary form used by C05) -/
def isErr (r : Except Err (List Nat)) : Prop := ∃ e, r = .error e

/-- **(c)** every proper prefix of RC is rejected: `UnexpectedEof`, or – only for the prefix that
    lacks just the *last* byte, and only when the last normalisation of the range decoder is due
    after the last output byte (the data ends with an opcode / a converted address and the last
    bit shrank `range` below 2^24) – the finish check fails ("error:5": the decoder stands at
    the RC stream).  Both cases occur, see the witnesses below. -/
theorem trunc_rc (convert : Nat → Bool) (data : List Nat) (h : ∀ b ∈ data, b < 256) (hne : data ≠ [])
    (k : Nat) (hk : k < (encode convert data).rc.length) :
    decode (encode convert data).main (encode convert data).call (encode convert data).jump
        ((encode convert data).rc.take k) data.length = .error .eof ∨
    (k + 1 = (encode convert data).rc.length ∧
      decode (encode convert data).main (encode convert data).call (encode convert data).jump
        ((encode convert data).rc.take k) data.length = .error .notFinished) := by
  obtain ⟨ps', d0, d', b1, b2, b3, b4, hrc, hd0, hclt, hn0, hdec, hov, hfin⟩ := enc_run convert data h
  have hn : data.length ≠ 0 := fun h0 => hne (List.eq_nil_of_length_eq_zero h0)
  generalize encode convert data = e at *
  obtain ⟨r, c, tl, o⟩ := d0
  simp only [Dec.mk.injEq, true_and] at hd0
  obtain ⟨hr, hc, ho⟩ := hd0
  subst hr; subst hc; subst ho
  simp only at hrc hclt
  unfold decode
  rw [if_neg hn, hrc]
  rw [hrc, List.length_cons, List.length_cons, List.length_cons, List.length_cons, List.length_cons] at hk
  rcases k with _ | _ | _ | _ | _ | k'
  · left; rfl
  · left; rfl
  · left; rfl
  · left; rfl
  · left; rfl
  · simp only [List.take_succ_cons]
    rw [rcInit_ok b1 b2 b3 b4 _ hclt]
    simp only
    have hx : tl.drop k' ≠ [] := by
      intro h0
      have := congrArg List.length h0
      simp only [List.length_drop, List.length_nil] at this
      omega
    have hxl : (tl.drop k').length = tl.length - k' := List.length_drop
    rcases scan_rccut e.main data.length 0 0 e.call e.jump [] probs0 _ _ (tl.take k') (tl.drop k')
      data.reverse [] [] ps' d' hn0 (List.take_append_drop k' tl).symm hx hdec hov hfin with h1 | ⟨hl, h2⟩
    · left; exact h1
    · right
      refine ⟨?_, h2⟩
      simp only [List.length_cons]
      omega

/-- **C05 summary**: for a non-empty `data`, replacing exactly one of the four streams of
    `encode convert data` by a proper prefix makes `decode` fail. -/
theorem trunc_any (convert : Nat → Bool) (data : List Nat) (h : ∀ b ∈ data, b < 256) (hne : data ≠ [])
    (k : Nat) :
    (k < (encode convert data).main.length →
      isErr (decode ((encode convert data).main.take k) (encode convert data).call
        (encode convert data).jump (encode convert data).rc data.length)) ∧
    (k < (encode convert data).call.length →
      isErr (decode (encode convert data).main ((encode convert data).call.take k)
        (encode convert data).jump (encode convert data).rc data.length)) ∧
    (k < (encode convert data).jump.length →
      isErr (decode (encode convert data).main (encode convert data).call
        ((encode convert data).jump.take k) (encode convert data).rc data.length)) ∧
    (k < (encode convert data).rc.length →
      isErr (decode (encode convert data).main (encode convert data).call
        (encode convert data).jump ((encode convert data).rc.take k) data.length)) := by
  refine ⟨fun hk => ⟨_, trunc_main convert data h hne k hk⟩, fun hk => ?_, fun hk => ?_, fun hk => ?_⟩
  · rcases trunc_call convert data h hne k hk with h1 | h1 <;> exact ⟨_, h1⟩
  · rcases trunc_jump convert data h hne k hk with h1 | h1 <;> exact ⟨_, h1⟩
  · rcases trunc_rc convert data h hne k hk with h1 | ⟨_, h1⟩ <;> exact ⟨_, h1⟩

/-! ### Witnesses -/

set_option maxRecDepth 100000 in
/-- both cases of `trunc_rc` occur: ten unconverted `E8`; the tenth bit makes a normalisation due
    after the last output byte; RC is `00 00 00 00 00 00` and its 5-byte prefix fails the finish
    check.  With eleven `E8` the same cut is `UnexpectedEof`. -/
example :
    (encode (fun _ => false) (List.replicate 10 0xE8)).rc = [0, 0, 0, 0, 0, 0] ∧
    decode (List.replicate 10 0xE8) [] [] [0, 0, 0, 0, 0] 10 = .error .notFinished ∧
    (encode (fun _ => false) (List.replicate 11 0xE8)).rc = [0, 0, 0, 0, 0, 0] ∧
    decode (List.replicate 11 0xE8) [] [] [0, 0, 0, 0, 0] 11 = .error .eof := by
  refine ⟨?_, ?_, ?_, ?_⟩ <;> rfl

set_option maxRecDepth 100000 in
/-- both error kinds of `trunc_call` occur: CALL `10 00 00 05` cut at 0 and at 2 -/
example :
    decode [0xE8, 0xE9] [] [0xF1, 0, 0, 9] [0, 0xBF, 0xFF, 0xFC, 0] 10 = .error .eof ∧
    decode [0xE8, 0xE9] [0x10, 0] [0xF1, 0, 0, 9] [0, 0xBF, 0xFF, 0xFC, 0] 10 = .error .shortAddr := by
  constructor <;> rfl

end LzmaVerif.Bcj2

#print axioms LzmaVerif.Bcj2.trunc_main
#print axioms LzmaVerif.Bcj2.trunc_call
#print axioms LzmaVerif.Bcj2.trunc_jump
#print axioms LzmaVerif.Bcj2.trunc_rc
#print axioms LzmaVerif.Bcj2.trunc_any
