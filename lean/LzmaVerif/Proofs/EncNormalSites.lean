/-
  Normal encoder: every insertion site preserves the invariant `Inv`.
-/
import LzmaVerif.Proofs.EncNormalInv2

namespace LzmaVerif.EncNormal
open LzmaVerif Mf Lzma Rc EncFast EncPrices
open LzmaVerif.Mf.Hc4 (Eqs byteAt_lt extendMatch_spec)

section
variable {P : NormalParams} {d : Array UInt8} {dict p : Nat} {c0 : Coder} {avail0 cur b : Nat} {a : OA}

/-- unconditional `opts[t].setN(…)` with a valid candidate, at an index whose price does not rise (or is not bounded yet) -/
theorem Inv.set (h : Inv P d dict p c0 avail0 cur b a) (hav : avail0 < P.opts) (t : Nat) (f : Opt → Opt)
    (ht : cur < t) (hte : t ≤ a.optEnd)
    (hp : (f (oat a.opts t)).price ≤ (oat a.opts t).price ∨ b < t)
    (hc : ∀ o : Opts, (∀ j, j ≤ cur → oat o j = oat a.opts j) → oat o t = f (oat a.opts t) →
      CandOk P d dict p o cur t) :
    Inv P d dict p c0 avail0 cur b { a with opts := a.opts.modify t f } := by
  have hts : t < a.opts.size := by rw [h.size]; have := h.endLe; omega
  have hlow : ∀ j, j ≤ cur → oat (a.opts.modify t f) j = oat a.opts j := by
    intro j hj
    rw [oat_modify _ _ _ _ hts, if_neg (by omega)]
  refine h.change _ (by simp only [Array.size_modify]; exact h.size) h.endLe hlow ?_ ?_
  · intro i hi hie
    by_cases hit : t = i
    · subst hit
      exact Or.inr (Or.inr (hc _ hlow (oat_modify_self _ _ _ hts)))
    · refine Or.inl ⟨hie, ?_⟩
      simp only
      rw [oat_modify _ _ _ _ hts, if_neg hit]
  · intro i h1 hib hie
    refine ⟨hie, ?_⟩
    simp only
    rw [oat_modify _ _ _ _ hts]
    split
    · next hit => subst hit; omega
    · exact Nat.le_refl _

theorem Inv.raise (h : Inv P d dict p c0 avail0 cur b a) (hb : (oat a.opts (b + 1)).price ≤ 1152 * (b + 1)) :
    Inv P d dict p c0 avail0 cur (b + 1) a :=
  ⟨h.size, h.endLe, h.zero, h.fin, h.pend, fun i h1 hib hie => by
    by_cases hi : i = b + 1
    · subst hi; exact hb
    · exact h.bnd i h1 (by omega) hie⟩

theorem Inv.lower (h : Inv P d dict p c0 avail0 cur b a) (b' : Nat) (hb : b' ≤ b) :
    Inv P d dict p c0 avail0 cur b' a :=
  ⟨h.size, h.endLe, h.zero, h.fin, h.pend, fun i h1 hib hie => h.bnd i h1 (by omega) hie⟩

theorem symOf_rep0 (P : NormalParams) (hreps : P.reps = 4) (d : Array UInt8) (q len : Nat) (hl : 2 ≤ len) :
    symOf P d q 0 len = .rep 0 len := by
  have := symOf_rep P hreps d q 0 len (by omega) hl
  simpa using this

/-! ### the three candidate shapes -/

theorem candOk_set1 (o : Opts) (t price : Nat) (back : Int) (old : Opt)
    (ho : oat o t = old.set1 price cur back) (hlt : cur < t)
    (hshape : (t - cur = 1 ∧ (back = -1 ∨ back = 0)) ∨ (2 ≤ t - cur ∧ 0 ≤ back))
    (hch : ChainOk d dict [(symOf P d (p + cur) back (t - cur), t - cur)] (p + cur) (oat o cur).c) :
    CandOk P d dict p o cur t := by
  unfold CandOk
  rw [ho, groupOf_set1]
  refine ⟨?_, Nat.le_refl _, hlt, hch, by simp only [chainLen, Nat.add_zero]⟩
  simp only [Shape, Opt.set1, Bool.false_eq_true, if_false]
  exact ⟨hlt, hshape⟩

theorem candOk_set2 (o : Opts) (t price : Nat) (old : Opt)
    (ho : oat o t = old.set2 price cur 0) (hlt : cur + 3 ≤ t)
    (hch : ChainOk d dict [(.lit (byteAt d (p + cur)), 1), (symOf P d (p + (cur + 1)) 0 (t - (cur + 1)), t - (cur + 1))]
      (p + cur) (oat o cur).c) :
    CandOk P d dict p o cur t := by
  unfold CandOk
  rw [ho, groupOf_set2]
  refine ⟨?_, Nat.le_refl _, by omega, hch, by simp only [chainLen, Nat.add_zero]; omega⟩
  simp only [Shape, Opt.set2, if_true]
  exact ⟨trivial, by omega, by omega, fun hf => by cases hf⟩

theorem candOk_set3 (o : Opts) (t price len2 : Nat) (back2 : Int) (old : Opt)
    (ho : oat o t = old.set3 price cur back2 len2 0) (hb2 : 0 ≤ back2) (hl2 : 2 ≤ len2) (hlt : cur + len2 + 3 ≤ t)
    (hch : ChainOk d dict [(symOf P d (p + cur) back2 len2, len2), (.lit (byteAt d (p + (cur + len2))), 1),
        (symOf P d (p + (cur + len2 + 1)) 0 (t - (cur + len2 + 1)), t - (cur + len2 + 1))] (p + cur) (oat o cur).c) :
    CandOk P d dict p o cur t := by
  unfold CandOk
  rw [ho, groupOf_set3]
  refine ⟨?_, Nat.le_refl _, by omega, hch, by simp only [chainLen, Nat.add_zero]; omega⟩
  simp only [Shape, Opt.set3, if_true]
  exact ⟨trivial, by omega, by omega, fun _ => ⟨hb2, by omega⟩⟩

end

/-! ### `calc1_byte_prices` -/

/-- what the sites know about the position: `q = p + cur` with `avail` bytes left (at most `OPTS - 1 - cur`) -/
structure PosOk (P : NormalParams) (d : Array UInt8) (p avail0 cur : Nat) (nice : Nat) : Prop where
  pok : P.ok
  nice2 : 2 ≤ nice
  nice273 : nice ≤ 273
  av0 : avail0 ≤ d.size - p
  av1 : avail0 < P.opts
  curLt : cur < avail0

theorem calc1BytePrices_inv {P : NormalParams} {d : Array UInt8} {dict p : Nat} {c0 : Coder} {avail0 cur : Nat} {a : OA}
    (E : Env) (hEP : E.P = P) (hEd : E.d = d)
    (hpos : PosOk P d p avail0 cur E.nice) (h : Inv P d dict p c0 avail0 cur cur a) (hce : cur < a.optEnd)
    (hcur : 1 ≤ cur) (anyRep : Nat) :
    Inv P d dict p c0 avail0 cur (cur + 1) (calc1BytePrices E a cur (p + cur) (avail0 - cur) anyRep) ∧
      a.optEnd ≤ (calc1BytePrices E a cur (p + cur) (avail0 - cur) anyRep).optEnd := by
  obtain ⟨⟨hmin, hmax, hreps, hopts2, hinf⟩, hn2, hn273, hav0, hav1, hclt⟩ := hpos
  subst hEP hEd
  have hq : p + cur < E.d.size := by omega
  unfold calc1BytePrices
  simp only [hmin]
  -- literal
  generalize hlp : (oat a.opts cur).price +
      litPrice E.pr E.ps (byteAt E.d (p + cur)) (byteAt E.d (p + cur - ((oat a.opts cur).c.rep0 + 1)))
        (byteAt E.d (p + cur - 1)) (p + cur) (oat a.opts cur).c.state = literalPrice
  have hlpb : literalPrice ≤ 1152 * (cur + 1) := by
    have h1 := h.bnd cur hcur (Nat.le_refl _) (by omega)
    have h2 := litPrice_le E.pr E.ps (byteAt E.d (p + cur)) (byteAt E.d (p + cur - ((oat a.opts cur).c.rep0 + 1)))
      (byteAt E.d (p + cur - 1)) (p + cur) (oat a.opts cur).c.state
    omega
  -- step 1
  have h1 : ∃ a1 : OA, (if decide (literalPrice < (oat a.opts (cur + 1)).price) = true then
        { a with opts := a.opts.modify (cur + 1) fun o => o.set1 literalPrice cur (-1) } else a) = a1 ∧
      Inv E.P E.d dict p c0 avail0 cur cur a1 ∧ a1.optEnd = a.optEnd ∧ (oat a1.opts (cur + 1)).price ≤ literalPrice ∧
      (∀ j, j ≤ cur → oat a1.opts j = oat a.opts j) := by
    refine ⟨_, rfl, ?_⟩
    have hts : cur + 1 < a.opts.size := by rw [h.size]; have := h.endLe; omega
    split
    · refine ⟨h.set hav1 (cur + 1) _ (by omega) (by omega) (Or.inr (by omega)) ?_, rfl, ?_, ?_⟩
      · intro o hlow ho
        refine candOk_set1 o (cur + 1) literalPrice (-1) _ ho (by omega) (Or.inl ⟨by omega, Or.inl rfl⟩) ?_
        have : cur + 1 - cur = 1 := by omega
        rw [this, symOf_lit]
        exact cand_lit E.d dict (p + cur) _ hq
      · simp only; rw [oat_modify_self _ _ _ hts]; exact Nat.le_refl _
      · intro j hj; simp only; rw [oat_modify _ _ _ _ hts, if_neg (by omega)]
    · next hn =>
      refine ⟨h, rfl, ?_, fun j _ => rfl⟩
      simp only [decide_eq_true_eq] at hn
      omega
  obtain ⟨a1, ha1, hi1, he1, hp1, hl1⟩ := h1
  rw [ha1]
  -- step 2
  generalize hsrp : shortRepPrice E.ps anyRep (oat a.opts cur).c.state (E.posState (p + cur)) = srp
  have h2 : ∃ a2 : OA, (if ((decide (byteAt E.d (p + cur - ((oat a.opts cur).c.rep0 + 1)) = byteAt E.d (p + cur)) &&
          (decide ((oat a1.opts (cur + 1)).optPrev = cur) || decide ((oat a1.opts (cur + 1)).backPrev ≠ 0))) &&
          decide (srp ≤ (oat a1.opts (cur + 1)).price)) = true then
        { a1 with opts := a1.opts.modify (cur + 1) fun o => o.set1 srp cur 0 } else a1) = a2 ∧
      Inv E.P E.d dict p c0 avail0 cur cur a2 ∧ a2.optEnd = a.optEnd ∧ (oat a2.opts (cur + 1)).price ≤ literalPrice ∧
      (∀ j, j ≤ cur → oat a2.opts j = oat a.opts j) := by
    refine ⟨_, rfl, ?_⟩
    have hts : cur + 1 < a1.opts.size := by rw [hi1.size]; have := hi1.endLe; omega
    split
    · next hc =>
      simp only [Bool.and_eq_true, decide_eq_true_eq] at hc
      obtain ⟨⟨hbyte, _⟩, hle⟩ := hc
      refine ⟨hi1.set hav1 (cur + 1) _ (by omega) (by omega) (Or.inr (by omega)) ?_, he1, ?_, ?_⟩
      · intro o hlow ho
        refine candOk_set1 o (cur + 1) srp 0 _ ho (by omega) (Or.inl ⟨by omega, Or.inr rfl⟩) ?_
        have : cur + 1 - cur = 1 := by omega
        rw [this, symOf_short E.P hreps]
        refine cand_short E.d dict (p + cur) _ hq ?_
        rw [hlow cur (Nat.le_refl _), hl1 cur (Nat.le_refl _)]
        exact hbyte.symm
      · simp only; rw [oat_modify_self _ _ _ hts]; show srp ≤ literalPrice; omega
      · intro j hj; simp only; rw [oat_modify _ _ _ _ hts, if_neg (by omega)]; exact hl1 j hj
    · exact ⟨hi1, he1, hp1, hl1⟩
  obtain ⟨a2, ha2, hi2, he2, hp2, hl2⟩ := h2
  rw [ha2]
  have hi2' : Inv E.P E.d dict p c0 avail0 cur (cur + 1) a2 := hi2.raise (Nat.le_trans hp2 hlpb)
  -- step 3
  split
  · next hc3 =>
    split
    · next hlen =>
      generalize hL : getMatchLen2 E.d (p + cur) 1 (oat a.opts cur).c.rep0 (min E.nice (avail0 - cur - 1)) = len at hlen ⊢
      have hspec := getMatchLen2_spec E.d (p + cur) 1 (oat a.opts cur).c.rep0 (min E.nice (avail0 - cur - 1))
      rw [hL] at hspec
      obtain ⟨hlim, heq⟩ := hspec
      have hext := hi2'.extend hav1 (by omega) (by omega) (cur + 1 + len) (by omega)
      obtain ⟨hi3, hee, hte⟩ := hext
      have hlow3 : ∀ j, j ≤ cur → oat (a2.extend E.P (cur + 1 + len)).opts j = oat a.opts j := by
        intro j hj
        rw [← hl2 j hj]
        unfold OA.extend
        split
        · simp only
          rw [oat_resetFrom E.P _ _ _ j (by rw [hi2.size]; omega), if_neg (by omega)]
        · rfl
      generalize literalPrice + longRepAndLenPrice _ _ _ _ _ _ = price3
      have hoff := hi3.offer hav1 (cur + 1 + len) price3 (fun o => o.set2 price3 cur 0) (by omega) hte (fun o => rfl) ?_
      · exact ⟨hoff.1, by rw [hoff.2.1]; omega⟩
      · intro o hlow ho
        refine candOk_set2 o (cur + 1 + len) _ _ ho (by omega) ?_
        have e1 : cur + 1 + len - (cur + 1) = len := by omega
        rw [e1, symOf_rep0 E.P hreps E.d _ len hlen]
        refine cand_lit_rep0 E.d dict (p + cur) _ len len hlen (Nat.le_refl _) (by omega) hq ?_
        rw [hlow cur (Nat.le_refl _), hlow3 cur (Nat.le_refl _)]
        exact heq
    · exact ⟨hi2', by omega⟩
  · exact ⟨hi2', by omega⟩

/-! ### threading: the invariant together with the coder state of `opts[cur]` and a lower bound of `opt_end` -/

/-- `Inv` + the coder state of `opts[cur]` is `cc` + `opt_end ≥ lo` -/
def Thr (P : NormalParams) (d : Array UInt8) (dict p : Nat) (c0 : Coder) (avail0 cur b : Nat) (cc : Coder) (lo : Nat)
    (a : OA) : Prop :=
  Inv P d dict p c0 avail0 cur b a ∧ (oat a.opts cur).c = cc ∧ lo ≤ a.optEnd ∧ cur ≤ a.optEnd ∧ b ≤ a.optEnd

theorem oat_modify_ne (opts : Opts) (i j : Nat) (f : Opt → Opt) (h : i ≠ j) : oat (opts.modify i f) j = oat opts j := by
  unfold oat
  rw [Array.getD_eq_getD_getElem?, Array.getD_eq_getD_getElem?, Array.getElem?_modify, if_neg h]

section
variable {P : NormalParams} {d : Array UInt8} {dict p : Nat} {c0 : Coder} {avail0 cur b : Nat} {cc : Coder} {lo : Nat}
  {a : OA}

theorem Thr.extend (h : Thr P d dict p c0 avail0 cur b cc lo a) (hav : avail0 < P.opts) (t : Nat) (ht : t ≤ avail0) :
    Thr P d dict p c0 avail0 cur b cc (max lo t) (a.extend P t) := by
  obtain ⟨hi, hc, hl, hcu, hb⟩ := h
  obtain ⟨h1, h2, h3⟩ := hi.extend hav hcu hb t ht
  refine ⟨h1, ?_, by omega, by omega, by omega⟩
  rw [← hc]
  unfold OA.extend
  split
  · simp only
    rw [oat_resetFrom P _ _ _ cur (by rw [hi.size]; have := hi.endLe; omega), if_neg (by omega)]
  · rfl

theorem Thr.offer (h : Thr P d dict p c0 avail0 cur b cc lo a) (hav : avail0 < P.opts) (t price : Nat) (f : Opt → Opt)
    (ht : cur < t) (hte : t ≤ a.optEnd) (hf : ∀ o, (f o).price = price)
    (hcand : ∀ o : Opts, (oat o cur).c = cc → oat o t = f (oat a.opts t) → CandOk P d dict p o cur t) :
    Thr P d dict p c0 avail0 cur b cc lo (a.offer t price f) := by
  obtain ⟨hi, hc, hl, hcu, hb⟩ := h
  obtain ⟨h1, h2, _⟩ := hi.offer hav t price f ht hte hf
    (fun o hlow ho => hcand o (by rw [hlow cur (Nat.le_refl _)]; exact hc) ho)
  refine ⟨h1, ?_, by omega, by omega, by omega⟩
  rw [← hc]
  unfold OA.offer
  split
  · simp only; rw [oat_modify_ne _ _ _ _ (by omega)]
  · rfl

end

/-! ### `X + literal + rep0` -/

theorem offerComposite_thr {P : NormalParams} {d : Array UInt8} {dict p : Nat} {c0 : Coder} {avail0 cur b : Nat}
    {cc : Coder} {lo : Nat} {a : OA}
    (E : Env) (hEP : E.P = P) (hEd : E.d = d) (hpos : PosOk P d p avail0 cur E.nice)
    (h : Thr P d dict p c0 avail0 cur b cc lo a)
    (len dist price0 stateX : Nat) (back2 : Int) (hb2 : 0 ≤ back2) (hl2 : 2 ≤ len) (hla : len ≤ avail0 - cur)
    (hX : ChainOk d dict [(symOf P d (p + cur) back2 len, len)] (p + cur) cc)
    (hd : (cc.apply (symOf P d (p + cur) back2 len)).rep0 = dist) :
    Thr P d dict p c0 avail0 cur b cc lo (offerComposite E a cur (p + cur) (avail0 - cur) len dist price0 stateX back2) := by
  obtain ⟨⟨hmin, hmax, hreps, hopts2, hinf⟩, hn2, hn273, hav0, hav1, hclt⟩ := hpos
  subst hEP hEd
  unfold offerComposite
  simp only [hmin]
  split
  · next hlen2 =>
    generalize hL : getMatchLen2 E.d (p + cur) (len + 1) dist (min E.nice (avail0 - cur - len - 1)) = len2 at hlen2 ⊢
    have hspec := getMatchLen2_spec E.d (p + cur) (len + 1) dist (min E.nice (avail0 - cur - len - 1))
    rw [hL] at hspec
    obtain ⟨hlim, heq⟩ := hspec
    generalize price0 + litPrice _ _ _ _ _ _ _ + longRepAndLenPrice _ _ _ _ _ _ = price3
    have h1 := h.extend hav1 (cur + len + 1 + len2) (by omega)
    have h2 := h1.offer hav1 (cur + len + 1 + len2) price3 (fun o => o.set3 price3 cur back2 len 0) (by omega)
      (by have := h1.2.2.1; omega) (fun o => rfl) ?_
    · exact ⟨h2.1, h2.2.1, by have := h2.2.2.1; omega, h2.2.2.2⟩
    · intro o hoc ho
      refine candOk_set3 o (cur + len + 1 + len2) price3 len back2 _ ho hb2 hl2 (by omega) ?_
      have e1 : cur + len + 1 + len2 - (cur + len + 1) = len2 := by omega
      rw [e1, symOf_rep0 E.P hreps E.d _ len2 hlen2, hoc]
      have e2 : p + (cur + len) = p + cur + len := by omega
      rw [e2]
      refine cand_composite E.d dict (p + cur) cc _ len dist len2 len2 hX hd hlen2 (Nat.le_refl _) (by omega) (by omega) heq
  · exact h

/-! ### long reps of all lengths -/

theorem offerRepLens_thr {P : NormalParams} {d : Array UInt8} {dict p : Nat} {c0 : Coder} {avail0 cur b : Nat}
    {cc : Coder} {lo : Nat}
    (E : Env) (hEP : E.P = P) (hEd : E.d = d) (hpos : PosOk P d p avail0 cur E.nice)
    (posState longRep rep Lm : Nat) (hr : rep ≤ 3) (hLm : Lm ≤ min (d.size - (p + cur)) 273)
    (he : Eqs d (p + cur) (cc.rep rep + 1) Lm) :
    ∀ (n : Nat) (a : OA), Thr P d dict p c0 avail0 cur b cc lo a → n + 1 ≤ Lm → cur + n + 1 ≤ a.optEnd →
      Thr P d dict p c0 avail0 cur b cc lo (offerRepLens E cur posState longRep (rep : Int) n a)
  | 0, a, h, _, _ => by simpa only [offerRepLens] using h
  | n + 1, a, h, hn, hne => by
    obtain ⟨⟨hmin, hmax, hreps, hopts2, hinf⟩, hn2, hn273, hav0, hav1, hclt⟩ := hpos
    subst hEP hEd
    rw [offerRepLens]
    simp only [hmin]
    generalize longRep + E.pt.repLen.get (n + 2) posState = price
    have h1 := h.offer hav1 (cur + (n + 2)) price (fun o => o.set1 price cur (rep : Int)) (by omega) (by omega)
      (fun o => rfl) ?_
    · refine offerRepLens_thr E rfl rfl ⟨⟨hmin, hmax, hreps, hopts2, hinf⟩, hn2, hn273, hav0, hav1, hclt⟩
        posState longRep rep Lm hr hLm he n _ h1 (by omega) ?_
      unfold OA.offer
      split
      · show cur + n + 1 ≤ a.optEnd; omega
      · omega
    · intro o hoc ho
      refine candOk_set1 o (cur + (n + 2)) price (rep : Int) _ ho (by omega) (Or.inr ⟨by omega, by omega⟩) ?_
      have e1 : cur + (n + 2) - cur = n + 2 := by omega
      rw [e1, symOf_rep E.P hreps E.d _ rep (n + 2) (by omega) (by omega), hoc]
      exact cand_rep E.d dict (p + cur) cc rep (n + 2) Lm hr (by omega) (by omega) hLm he

theorem Thr.mono_lo {P : NormalParams} {d : Array UInt8} {dict p : Nat} {c0 : Coder} {avail0 cur b : Nat} {cc : Coder}
    {lo lo' : Nat} {a : OA} (h : Thr P d dict p c0 avail0 cur b cc lo a) (hl : lo' ≤ lo) :
    Thr P d dict p c0 avail0 cur b cc lo' a :=
  ⟨h.1, h.2.1, by have := h.2.2.1; omega, h.2.2.2⟩

/-- `get_match_len_fast_reject`: 0, or a real repetition of at least 2 and at most `limit` bytes (`2 ≤ limit`) -/
theorem getMatchLenFastReject_spec (d : Array UInt8) (q dist limit : Nat) (hl : 2 ≤ limit) :
    getMatchLenFastReject d q dist limit = 0 ∨
      (2 ≤ getMatchLenFastReject d q dist limit ∧ getMatchLenFastReject d q dist limit ≤ limit ∧
        Eqs d q (dist + 1) (getMatchLenFastReject d q dist limit)) := by
  unfold getMatchLenFastReject
  split
  · next hb =>
    right
    have he2 : Eqs d q (dist + 1) 2 := by
      intro i hi
      rcases i with _ | _ | i
      · simpa only [Nat.add_zero] using hb.1
      · exact hb.2
      · omega
    have := extendMatch_spec d q (dist + 1) limit 2 hl he2
    exact ⟨this.1, this.2.1, this.2.2⟩
  · exact Or.inl rfl

theorem longRepOne_thr {P : NormalParams} {d : Array UInt8} {dict p : Nat} {c0 : Coder} {avail0 cur b : Nat}
    {cc : Coder} {lo : Nat} {a : OA}
    (E : Env) (hEP : E.P = P) (hEd : E.d = d) (hpos : PosOk P d p avail0 cur E.nice) (hav2 : 2 ≤ avail0 - cur)
    (h : Thr P d dict p c0 avail0 cur b cc lo a) (anyRep startLen rep : Nat) (hr : rep ≤ 3) :
    Thr P d dict p c0 avail0 cur b cc lo (longRepOne E cur (p + cur) (avail0 - cur) anyRep a startLen rep).1 := by
  obtain ⟨⟨hmin, hmax, hreps, hopts2, hinf⟩, hn2, hn273, hav0, hav1, hclt⟩ := hpos
  subst hEP hEd
  unfold longRepOne
  simp only [hmin]
  rw [h.2.1]
  have hspec := getMatchLenFastReject_spec E.d (p + cur) (cc.rep rep) (min (avail0 - cur) E.nice) (by omega)
  generalize getMatchLenFastReject E.d (p + cur) (cc.rep rep) (min (avail0 - cur) E.nice) = len at hspec ⊢
  split
  · exact h
  · next hl2 =>
    rcases hspec with h0 | ⟨h2, hlim, heq⟩
    · omega
    · have hposok : PosOk E.P E.d p avail0 cur E.nice := ⟨⟨hmin, hmax, hreps, hopts2, hinf⟩, hn2, hn273, hav0, hav1, hclt⟩
      have h1 := h.extend hav1 (cur + len) (by omega)
      have h2' := offerRepLens_thr E rfl rfl hposok (E.posState (p + cur))
        (longRepPrice E.ps anyRep rep cc.state (E.posState (p + cur))) rep len hr (by omega) heq (len + 1 - 2) _ h1
        (by omega) (by have := h1.2.2.1; omega)
      have hsym : symOf E.P E.d (p + cur) (rep : Int) len = .rep rep len := symOf_rep E.P hreps E.d _ rep len (by omega) h2
      have h3 := offerComposite_thr E rfl rfl hposok h2' len (cc.rep rep)
        (longRepPrice E.ps anyRep rep cc.state (E.posState (p + cur)) + E.pt.repLen.get len (E.posState (p + cur)))
        (stLongRep cc.state) (rep : Int) (by omega) h2 (by omega)
        (by rw [hsym]; exact cand_rep E.d dict (p + cur) cc rep len len hr h2 (Nat.le_refl _) (by omega) heq)
        (by rw [hsym]; exact rep0_after_rep cc rep len)
      exact h3.mono_lo (by omega)

theorem calcLongRepPrices_thr {P : NormalParams} {d : Array UInt8} {dict p : Nat} {c0 : Coder} {avail0 cur b : Nat}
    {cc : Coder} {lo : Nat} {a : OA}
    (E : Env) (hEP : E.P = P) (hEd : E.d = d) (hpos : PosOk P d p avail0 cur E.nice) (hav2 : 2 ≤ avail0 - cur)
    (h : Thr P d dict p c0 avail0 cur b cc lo a) (anyRep : Nat) :
    Thr P d dict p c0 avail0 cur b cc lo (calcLongRepPrices E a cur (p + cur) (avail0 - cur) anyRep).1 := by
  have hreps : E.P.reps = 4 := by rw [hEP]; exact hpos.pok.2.2.1
  unfold calcLongRepPrices
  rw [hreps]
  have hfold : ∀ (l : List Nat) (a : OA) (sl : Nat), (∀ r ∈ l, r ≤ 3) → Thr P d dict p c0 avail0 cur b cc lo a →
      Thr P d dict p c0 avail0 cur b cc lo
        (l.foldl (fun r rep => longRepOne E cur (p + cur) (avail0 - cur) anyRep r.1 r.2 rep) (a, sl)).1 := by
    intro l
    induction l with
    | nil => intro a sl _ h; exact h
    | cons x xs ih =>
      intro a sl hl h
      simp only [List.foldl_cons]
      exact ih _ _ (fun r hr => hl r (List.mem_cons_of_mem _ hr))
        (longRepOne_thr E hEP hEd hpos hav2 h anyRep sl x (hl x (List.mem_cons_self ..)))
  exact hfold _ a _ (fun r hr => by have := List.mem_range.mp hr; omega) h

end LzmaVerif.EncNormal
