import LzmaVerif.Proofs.EncWindow
/-!
# The encoder window with `flush` calls: the pending bytes keep their history across a window move

`LZMA2Writer::flush` -> `set_flushing` lets the encoder code every byte in the window; the match finder (BT4:
`move_pos(nice_len, 4)`, HC4: `move_pos(4, 4)`) leaves the last `required_for_flushing - 1` positions PENDING
(`pending_size`).  The next `fill_window` first moves the window (if `read_pos` is within `keep_size_after` of the
buffer's end) and then `process_pending_bytes` rewinds `read_pos` by `pending_size` and runs the match finder on those
positions again.  The match finder looks up to `dict_size ≤ keep_size_before - 1` bytes back from EVERY position it
is run at - also from the first rewound one.  Before the repair (`fix: move_window keeps the history of the pending
bytes`) `move_window` kept `keep_size_before - 1 + (0..63)` bytes before `read_pos` only
(`moveOffsetPinned`): BT4 indexed the buffer at up to `-(nice_len - 1)` (panic; out-of-bounds read with the
`optimization` feature).

Proved here, for every search `O`, every sequence of `write` / `flush` calls followed by `finish`
(`runEv`, `Model/EncWindow.lean`), positions only (any buffer type):

* `flush_inv_runEv` – the invariant `FInv` holds at the end (and by the same induction after every operation):
  `read_pos - pending_size + 1 ≥ keep_size_before` or nothing was discarded yet, `pending_size ≤ read_pos + 1`,
  `pending_size < required_for_flushing` while not finishing, `read_pos < write_pos ≤ buf_size`;
* `flush_runs_keep_history` – the ghost flag `low` is never set: at every position the match finder is run at
  (`find_matches`, `skip`, the re-run of the pending bytes) at least `min(keep_size_before - 1, bytes seen so far)`
  bytes of history are in the buffer;
* `flush_inv_move_offset` – whenever `fill_window` moves the window in such a state, the repaired
  `move_offset` is at least `MOVE_BLOCK_ALIGN` before alignment: it is not negative (the code's `debug_assert`), and
  at least 64 bytes are free afterwards (`fill_window` makes progress);
* `repair_invisible_without_flush` – in runs WITHOUT `flush` the repaired and the old statement show the search
  the same views (the compressed bytes do not change);
* `pinned_move_loses_pending_history` – the statement before the repair violates it on the state of the
  reproducer (`dict_size = 64 KiB`, BT4, `nice_len = 273`, `write(360769); flush(); write(..)`).
-/
namespace LzmaVerif.EncWindow

section
variable {β : Type} (B : BufOps β) (P : Params)

/-! ## One `move_pos`, `k` of them -/

/-- what an encoder step never touches -/
structure Frame (s s' : St β) : Prop where
  wp : s'.win.writePos = s.win.writePos
  base : s'.win.base = s.win.base
  rl : s'.win.readLimit = s.win.readLimit
  fin : s'.win.finishing = s.win.finishing

theorem Frame.rfl' (s : St β) : Frame s s := ⟨rfl, rfl, rfl, rfl⟩

theorem Frame.trans {a b c : St β} (h1 : Frame a b) (h2 : Frame b c) : Frame a c :=
  ⟨h2.wp.trans h1.wp, h2.base.trans h1.base, h2.rl.trans h1.rl, h2.fin.trans h1.fin⟩

theorem mfStep_facts (e : Nat) (s : St β) :
    let avail := ((s.win.writePos : Int) - (s.win.readPos + 1)).toNat
    let pendCond := avail < P.reqFlush ∧ (avail < P.reqFinish ∨ s.win.finishing = false)
    Frame s (mfStep B P e s) ∧ (mfStep B P e s).readAhead = s.readAhead ∧
    (mfStep B P e s).win.readPos = s.win.readPos + 1 ∧
    (mfStep B P e s).win.pendingSize = s.win.pendingSize + (if pendCond then 1 else 0) ∧
    (mfStep B P e s).low = (s.low || !(histOk P (mfStep B P e s).win)) := by
  intro avail pendCond
  have h := (movePos_spec P s.win).1
  have hw : (mfStep B P e s).win = (movePos P s.win).1 := rfl
  refine ⟨⟨?_, ?_, ?_, ?_⟩, rfl, ?_, ?_, rfl⟩ <;> rw [hw, h]

/-- `k` times `move_pos`: positions, and how `pending_size` evolves -/
theorem advance_facts (e : Nat) : ∀ (k : Nat) (s : St β),
    let s' := advance B P e k s
    Frame s s' ∧ s'.readAhead = s.readAhead ∧ s'.win.readPos = s.win.readPos + k ∧
    s.win.pendingSize ≤ s'.win.pendingSize ∧ s'.win.pendingSize ≤ s.win.pendingSize + k ∧
    -- no byte is left pending while `required_for_flushing` bytes are ahead
    (s.win.pendingSize = 0 → s.win.readPos + k + P.reqFlush ≤ s.win.writePos → s'.win.pendingSize = 0) ∧
    -- flushing: the pending bytes are the last ones before `write_pos`, fewer than `required_for_flushing`
    (s.win.finishing = false → s.win.readPos + k + 1 ≤ s.win.writePos →
      (s.win.pendingSize = 0 ∨ (s.win.pendingSize : Int) + (s.win.writePos - s.win.readPos) ≤ P.reqFlush) →
      (s'.win.pendingSize = 0 ∨ (s'.win.pendingSize : Int) + (s'.win.writePos - s'.win.readPos) ≤ P.reqFlush)) ∧
    -- the history flag
    ((s.win.base = 0 ∨ (P.keepBefore : Int) ≤ s.win.readPos + 2) → s'.low = s.low) := by
  intro k
  induction k with
  | zero =>
    intro s
    refine ⟨Frame.rfl' s, rfl, ?_, Nat.le_refl _, Nat.le_refl _, fun h _ => h, fun _ _ h => h, fun _ => rfl⟩
    show s.win.readPos = s.win.readPos + ((0 : Nat) : Int)
    omega
  | succ k ih =>
    intro s
    obtain ⟨f1, r1, p1, q1, l1⟩ := mfStep_facts B P e s
    obtain ⟨f2, r2, p2, q2a, q2b, n2, fl2, l2⟩ := ih (mfStep B P e s)
    have hs : advance B P e (k + 1) s = advance B P e k (mfStep B P e s) := rfl
    simp only [hs]
    generalize advance B P e k (mfStep B P e s) = s' at *
    generalize mfStep B P e s = m at *
    have hwp := f1.wp; have hfin := f1.fin; have hbase := f1.base
    refine ⟨Frame.trans f1 f2, r2.trans r1, ?_, ?_, ?_, ?_, ?_, ?_⟩
    · rw [p2, p1]; push_cast; omega
    · rw [q1] at q2a; omega
    · rw [q1] at q2b; split at q2b <;> omega
    · intro h0 hroom
      apply n2
      · rw [q1, h0, if_neg]
        · intro hc
          have := hc.1
          omega
      · rw [p1, hwp]; push_cast at hroom ⊢; omega
    · intro hnf hroom hF
      apply fl2
      · rw [hfin]; exact hnf
      · rw [p1, hwp]; push_cast at hroom ⊢; omega
      · rw [q1, p1, hwp]
        by_cases hc : ((s.win.writePos : Int) - (s.win.readPos + 1)).toNat < P.reqFlush ∧
            (((s.win.writePos : Int) - (s.win.readPos + 1)).toNat < P.reqFinish ∨ s.win.finishing = false)
        · rw [if_pos hc]
          right
          have := hc.1
          push_cast at hroom ⊢
          rcases hF with h0 | hF
          · rw [h0]; omega
          · omega
        · rw [if_neg hc]
          rcases hF with h0 | hF
          · left; omega
          · exfalso
            apply hc
            refine ⟨?_, Or.inr hnf⟩
            push_cast at hroom
            omega
    · intro hh
      have hm : m.low = s.low := by
        rw [l1]
        have : histOk P m.win = true := by
          unfold histOk
          rw [hbase, p1]
          rcases hh with h | h
          · simp [h]
          · have : (P.keepBefore : Int) ≤ s.win.readPos + 1 + 1 := by omega
            simp [this]
        rw [this]; simp
      have hh2 : m.win.base = 0 ∨ (P.keepBefore : Int) ≤ m.win.readPos + 2 := by
        rw [hbase, p1]
        rcases hh with h | h
        · exact Or.inl h
        · right; omega
      rw [l2 hh2, hm]

end

/-! ## The invariant -/

section
variable {β : Type} (B : BufOps β) (P : Params) (O : Oracle)

/-- positions, history and the pending bytes: what holds in every reachable state of a run with `flush` calls -/
structure Core (s : St β) : Prop where
  wp_le : s.win.writePos ≤ P.bufSize
  rp_ge : -1 ≤ s.win.readPos
  rp_lt : s.win.readPos + 1 ≤ s.win.writePos
  rl_le : s.win.readLimit + 1 ≤ s.win.writePos
  /-- the rewind of `process_pending_bytes` stays inside the buffer -/
  pend_le : (s.win.pendingSize : Int) ≤ s.win.readPos + 1
  /-- THE invariant that was missing: `keep_size_before - 1` bytes of history before the FIRST PENDING byte (the
      position `process_pending_bytes` re-runs the match finder at), or nothing was discarded yet -/
  lookback : s.win.base = 0 ∨ (P.keepBefore : Int) ≤ s.win.readPos - s.win.pendingSize + 1
  ra_ge : -1 ≤ s.readAhead
  ra_le : s.readAhead ≤ P.maxAhead
  /-- the match finder was never run with less history than it may look back -/
  low_ok : s.low = false

/-- where the run is: `E` finishing; `N` normal (`read_limit = write_pos - keep_size_after`, nothing pending);
    `F` inside `flush` (`read_limit = write_pos - 1`; the pending bytes are the last ones); `I` idle after a `flush`
    (everything coded, up to `required_for_flushing - 1` bytes pending, no symbol can be coded) -/
inductive Tag where | E | N | F | I

def Ph (t : Tag) (s : St β) : Prop :=
  match t with
  | .E => s.win.finishing = true
  | .N => s.win.finishing = false ∧ s.win.pendingSize = 0 ∧ s.win.readLimit + P.keepAfter ≤ s.win.writePos
  | .F => s.win.finishing = false ∧ s.win.readLimit = (s.win.writePos : Int) - 1 ∧
      (s.win.pendingSize = 0 ∨ (s.win.pendingSize : Int) + (s.win.writePos - s.win.readPos) ≤ P.reqFlush)
  | .I => s.win.finishing = false ∧ s.readAhead = -1 ∧ s.win.readLimit ≤ s.win.readPos ∧
      (s.win.pendingSize = 0 ∨ s.win.pendingSize < P.reqFlush)

/-- the invariant of runs with `flush` calls -/
structure FInv (s : St β) : Prop where
  core : Core P s
  phase : ∃ t, Ph P t s

theorem FInv.pend_small {s : St β} (h : FInv P s) (hf : s.win.finishing = false) :
    s.win.pendingSize = 0 ∨ s.win.pendingSize < P.reqFlush := by
  obtain ⟨t, ht⟩ := h.phase
  have := h.core.rp_lt
  cases t with
  | E =>
    have ht' : s.win.finishing = true := ht
    rw [hf] at ht'
    exact absurd ht' (by decide)
  | N => exact Or.inl ht.2.1
  | F =>
    rcases ht.2.2 with h0 | h1
    · exact Or.inl h0
    · right; omega
  | I => exact ht.2.2.2

theorem Core.init : Core P (St.init B P) := by
  constructor <;> simp [St.init, Win.init]

theorem Ph.init : Ph P .I (St.init B P) := by simp [Ph, St.init, Win.init]

theorem FInv.init : FInv P (St.init B P) := ⟨Core.init B P, .I, Ph.init B P⟩

/-! ## `k` times `move_pos` -/

theorem advance_core (e k : Nat) (s : St β) (h : Core P s) (hroom : s.win.readPos + k + 1 ≤ s.win.writePos) :
    Core P (advance B P e k s) := by
  obtain ⟨f, r, p, q1, q2, _, _, l⟩ := advance_facts B P e k s
  have := h.rp_ge; have := h.pend_le
  refine ⟨?_, ?_, ?_, ?_, ?_, ?_, ?_, ?_, ?_⟩
  · rw [f.wp]; exact h.wp_le
  · rw [p]; omega
  · rw [p, f.wp]; omega
  · rw [f.rl, f.wp]; exact h.rl_le
  · rw [p]; omega
  · rw [f.base, p]
    rcases h.lookback with hb | hb
    · exact Or.inl hb
    · right; omega
  · rw [r]; exact h.ra_ge
  · rw [r]; exact h.ra_le
  · rw [l (by rcases h.lookback with hb | hb; exact Or.inl hb; right; omega)]; exact h.low_ok

/-! ## `process_pending_bytes` -/

theorem processPending_facts (s : St β) (h : Core P s) :
    let s' := processPending B P s
    Core P s' ∧ Frame s s' ∧ s'.readAhead = s.readAhead ∧ s'.win.readPos = s.win.readPos ∧
    s'.win.pendingSize ≤ s.win.pendingSize ∧
    ((0 < s.win.pendingSize ∧ s.win.readPos < s.win.readLimit) →
      (s.win.readPos + P.reqFlush ≤ s.win.writePos → s'.win.pendingSize = 0) ∧
      (s.win.finishing = false →
        (s'.win.pendingSize = 0 ∨ (s'.win.pendingSize : Int) + (s.win.writePos - s.win.readPos) ≤ P.reqFlush))) ∧
    (¬ (0 < s.win.pendingSize ∧ s.win.readPos < s.win.readLimit) → s' = s) := by
  intro s'
  by_cases hc : 0 < s.win.pendingSize ∧ s.win.readPos < s.win.readLimit
  · obtain ⟨s0, hs0⟩ : ∃ s0 : St β, s0 = { s with win := { s.win with readPos := s.win.readPos - s.win.pendingSize, pendingSize := 0 } } := ⟨_, rfl⟩
    have hs' : s' = advance B P (s.win.base + s.encPos.toNat) s.win.pendingSize s0 := by
      show processPending B P s = _
      unfold processPending
      simp only [hs0]
      rw [if_pos hc]
    have hrp := h.rp_ge; have hpl := h.pend_le; have hlt := h.rp_lt
    have c0 : Core P s0 := by
      rw [hs0]
      refine ⟨h.wp_le, ?_, ?_, h.rl_le, ?_, ?_, h.ra_ge, h.ra_le, h.low_ok⟩
      · show -1 ≤ s.win.readPos - (s.win.pendingSize : Int); omega
      · show s.win.readPos - (s.win.pendingSize : Int) + 1 ≤ s.win.writePos; omega
      · show ((0 : Nat) : Int) ≤ s.win.readPos - (s.win.pendingSize : Int) + 1; omega
      · show s.win.base = 0 ∨ (P.keepBefore : Int) ≤ s.win.readPos - (s.win.pendingSize : Int) - ((0 : Nat) : Int) + 1
        rcases h.lookback with hb | hb
        · exact Or.inl hb
        · right; omega
    have e1 : s0.win.readPos = s.win.readPos - s.win.pendingSize := by rw [hs0]
    have e2 : s0.win.pendingSize = 0 := by rw [hs0]
    have e3 : s0.win.writePos = s.win.writePos := by rw [hs0]
    have e4 : s0.win.base = s.win.base := by rw [hs0]
    have e5 : s0.win.readLimit = s.win.readLimit := by rw [hs0]
    have e6 : s0.win.finishing = s.win.finishing := by rw [hs0]
    have e7 : s0.readAhead = s.readAhead := by rw [hs0]
    have hroom : s0.win.readPos + s.win.pendingSize + 1 ≤ s0.win.writePos := by rw [e1, e3]; omega
    have hcore := advance_core B P (s.win.base + s.encPos.toNat) s.win.pendingSize s0 c0 hroom
    obtain ⟨f, r, p, q1, q2, n, fl, _⟩ := advance_facts B P (s.win.base + s.encPos.toNat) s.win.pendingSize s0
    rw [← hs'] at hcore f r p q1 q2 n fl
    refine ⟨hcore, ⟨f.wp.trans e3, f.base.trans e4, f.rl.trans e5, f.fin.trans e6⟩, r.trans e7, ?_, ?_, ?_, ?_⟩
    · rw [p, e1]; omega
    · rw [e2] at q2; omega
    · intro _
      refine ⟨fun hr => n e2 (by rw [e1, e3]; omega), fun hnf => ?_⟩
      have := fl (by rw [e6]; exact hnf) hroom (Or.inl e2)
      rw [f.wp, e3, p, e1] at this
      rcases this with h0 | h1
      · exact Or.inl h0
      · right; omega
    · intro hn; exact absurd hc hn
  · have hs' : s' = s := by
      show processPending B P s = s
      unfold processPending
      simp only []
      rw [if_neg hc]
    rw [hs']
    exact ⟨h, Frame.rfl' s, rfl, rfl, Nat.le_refl _, fun hh => absurd hh hc, fun _ => rfl⟩

end

/-! ## `move_window` / `fill_window` -/

section
variable {β : Type} (B : BufOps β) (P : Params) (O : Oracle)

/-- few bytes can be pending compared with the reserve of the buffer (`required_for_flushing ≤ nice_len ≤ 273`,
    `reserve ≥ 256 KiB`) -/
def Params.FlushSmall (P : Params) : Prop := P.reqFlush + Consts.MOVE_BLOCK_ALIGN ≤ 262144

/-- `fill_window` up to `process_pending_bytes`, positions only, WITH pending bytes.  When the window moves
    (`read_pos ≥ buf_size - keep_size_after`) the repaired offset is at least `MOVE_BLOCK_ALIGN` before the alignment -
    in particular not negative - and `keep_size_before - 1` bytes stay before the first pending byte. -/
theorem fillCore_facts (hrep : P.pinnedMove = false) (hkA : 1 ≤ P.keepAfter) (w : Win β) (input : List Nat)
    (hwp : w.writePos ≤ P.bufSize) (hge : -1 ≤ w.readPos) (hlt : w.readPos + 1 ≤ w.writePos)
    (hrl : w.readLimit + 1 ≤ w.writePos) (hpl : (w.pendingSize : Int) ≤ w.readPos + 1)
    (hlb : w.base = 0 ∨ (P.keepBefore : Int) ≤ w.readPos - w.pendingSize + 1)
    (hps : w.pendingSize + Consts.MOVE_BLOCK_ALIGN ≤ 262144) :
    let r := fillCore B P w input
    r.1.writePos ≤ P.bufSize ∧ -1 ≤ r.1.readPos ∧ r.1.readPos + 1 ≤ r.1.writePos ∧ r.1.readLimit + 1 ≤ r.1.writePos ∧
    (r.1.pendingSize : Int) ≤ r.1.readPos + 1 ∧
    (r.1.base = 0 ∨ (P.keepBefore : Int) ≤ r.1.readPos - r.1.pendingSize + 1) ∧
    r.1.pendingSize = w.pendingSize ∧ r.1.finishing = w.finishing ∧
    (w.writePos : Int) - w.readPos ≤ (r.1.writePos : Int) - r.1.readPos ∧
    ((P.keepAfter ≤ r.1.writePos ∧ r.1.readLimit = (r.1.writePos : Int) - P.keepAfter) ∨
     (r.1.readLimit - r.1.readPos = w.readLimit - w.readPos ∧
      r.1.readLimit - (r.1.writePos : Int) ≤ w.readLimit - w.writePos)) ∧
    -- the move
    ((P.bufSize : Int) - P.keepAfter ≤ w.readPos →
      (Consts.MOVE_BLOCK_ALIGN : Int) ≤ moveOffsetRaw P w ∧ Consts.MOVE_BLOCK_ALIGN ≤ moveOffset P w ∧
      r.1.base = w.base + moveOffset P w ∧ (input ≠ [] → 0 < r.2)) := by
  intro r
  have hbs : P.bufSize = P.keepBefore + P.keepAfter + P.reserve := rfl
  have hres : 262144 ≤ P.reserve := by unfold Params.reserve; omega
  have hA : 0 < Consts.MOVE_BLOCK_ALIGN := align_ok.2
  -- the window after the optional move
  obtain ⟨w1, hw1, a1, a2, a3, a4, a5, a6, a7, a8, a9, a10⟩ : ∃ w1, w1 = (if w.readPos ≥ (P.bufSize : Int) - (P.keepAfter : Int) then moveWindow B P w else w) ∧
      w1.writePos ≤ P.bufSize ∧ -1 ≤ w1.readPos ∧ w1.readPos + 1 ≤ w1.writePos ∧ w1.readLimit + 1 ≤ w1.writePos ∧
      (w1.pendingSize : Int) ≤ w1.readPos + 1 ∧ (w1.base = 0 ∨ (P.keepBefore : Int) ≤ w1.readPos - w1.pendingSize + 1) ∧
      w1.pendingSize = w.pendingSize ∧ w1.finishing = w.finishing ∧
      ((w1.writePos : Int) - w1.readPos = (w.writePos : Int) - w.readPos ∧ w1.readLimit - w1.readPos = w.readLimit - w.readPos ∧
        w1.readLimit - (w1.writePos : Int) = w.readLimit - w.writePos) ∧
      ((P.bufSize : Int) - P.keepAfter ≤ w.readPos →
        (Consts.MOVE_BLOCK_ALIGN : Int) ≤ moveOffsetRaw P w ∧ Consts.MOVE_BLOCK_ALIGN ≤ moveOffset P w ∧
        w1.base = w.base + moveOffset P w ∧ w1.writePos + Consts.MOVE_BLOCK_ALIGN ≤ P.bufSize) := by
    refine ⟨_, rfl, ?_⟩
    by_cases hc : w.readPos ≥ (P.bufSize : Int) - (P.keepAfter : Int)
    · rw [if_pos hc]
      have hraw : (Consts.MOVE_BLOCK_ALIGN : Int) ≤ moveOffsetRaw P w := by unfold moveOffsetRaw; omega
      have hoff : moveOffset P w = alignDown (moveOffsetRaw P w).toNat := by
        unfold moveOffset; rw [hrep]; rfl
      have hle : moveOffset P w ≤ (moveOffsetRaw P w).toNat := by rw [hoff]; exact alignDown_le _
      have hge64 : Consts.MOVE_BLOCK_ALIGN ≤ moveOffset P w := by rw [hoff]; exact alignDown_ge _ (by omega)
      have hraw2 : moveOffsetRaw P w = w.readPos + 1 - (P.keepBefore : Int) - (w.pendingSize : Int) := rfl
      have e1 : (moveWindow B P w).readPos = w.readPos - moveOffset P w := rfl
      have e2 : (moveWindow B P w).readLimit = w.readLimit - moveOffset P w := rfl
      have e3 : (moveWindow B P w).writePos = w.writePos - moveOffset P w := rfl
      have e4 : (moveWindow B P w).base = w.base + moveOffset P w := rfl
      have e5 : (moveWindow B P w).pendingSize = w.pendingSize := rfl
      have e6 : (moveWindow B P w).finishing = w.finishing := rfl
      rw [e1, e2, e3, e4, e5, e6]
      clear e1 e2 e3 e4 e5 e6 hoff
      generalize moveOffset P w = off at *
      refine ⟨by omega, by omega, by omega, by omega, by omega, Or.inr (by omega), rfl, rfl,
        ⟨by omega, by omega, by omega⟩, fun _ => ⟨hraw, hge64, rfl, by omega⟩⟩
    · rw [if_neg hc]
      exact ⟨hwp, hge, hlt, hrl, hpl, hlb, rfl, rfl, ⟨rfl, rfl, rfl⟩, fun h => absurd h (by omega)⟩
  have hr : r = ({ w1 with
      buf := B.write w1.buf w1.writePos (input.take (min input.length (P.bufSize - w1.writePos)))
      writePos := w1.writePos + min input.length (P.bufSize - w1.writePos)
      readLimit := if w1.writePos + min input.length (P.bufSize - w1.writePos) ≥ P.keepAfter
        then ((w1.writePos + min input.length (P.bufSize - w1.writePos) : Nat) : Int) - (P.keepAfter : Int)
        else w1.readLimit }, min input.length (P.bufSize - w1.writePos)) := by
    show fillCore B P w input = _
    unfold fillCore
    simp only [← hw1]
  generalize hlen : min input.length (P.bufSize - w1.writePos) = len at hr
  rw [hr]
  obtain ⟨b1, b2, b3⟩ := a9
  refine ⟨?_, a2, ?_, ?_, a5, a6, a7, a8, ?_, ?_, ?_⟩
  · show w1.writePos + len ≤ P.bufSize; omega
  · show w1.readPos + 1 ≤ ((w1.writePos + len : Nat) : Int); omega
  · show (if w1.writePos + len ≥ P.keepAfter then ((w1.writePos + len : Nat) : Int) - (P.keepAfter : Int) else w1.readLimit) + 1
        ≤ ((w1.writePos + len : Nat) : Int)
    split <;> omega
  · show (w.writePos : Int) - w.readPos ≤ ((w1.writePos + len : Nat) : Int) - w1.readPos; omega
  · show (P.keepAfter ≤ w1.writePos + len ∧
        (if w1.writePos + len ≥ P.keepAfter then ((w1.writePos + len : Nat) : Int) - (P.keepAfter : Int) else w1.readLimit)
          = ((w1.writePos + len : Nat) : Int) - P.keepAfter) ∨
      ((if w1.writePos + len ≥ P.keepAfter then ((w1.writePos + len : Nat) : Int) - (P.keepAfter : Int) else w1.readLimit)
          - w1.readPos = w.readLimit - w.readPos ∧
       (if w1.writePos + len ≥ P.keepAfter then ((w1.writePos + len : Nat) : Int) - (P.keepAfter : Int) else w1.readLimit)
          - ((w1.writePos + len : Nat) : Int) ≤ w.readLimit - w.writePos)
    by_cases hk : w1.writePos + len ≥ P.keepAfter
    · left; rw [if_pos hk]; exact ⟨hk, rfl⟩
    · right; rw [if_neg hk]; omega
  · intro hc
    obtain ⟨m1, m2, m3, m4⟩ := a10 hc
    refine ⟨m1, m2, m3, fun hne => ?_⟩
    show 0 < len
    have : 0 < input.length := List.length_pos_iff.mpr hne
    omega

end

/-! ## One symbol, the encode loop -/

section
variable {β : Type} (B : BufOps β) (P : Params) (O : Oracle)

theorem hasEnough_iff (w : Win β) (a : Int) : hasEnoughData w a = true ↔ w.readPos - a < w.readLimit := by
  unfold hasEnoughData
  exact decide_eq_true_iff

/-- one `encode_symbol` in any phase: the invariant and the phase are kept, the coder advances -/
theorem symbolStep_FInv (hP : P.WF) (s : St β) (t : Tag) (h : Core P s) (ht : Ph P t s)
    (he : hasEnoughData s.win (s.readAhead + 1) = true) :
    let s' := (symbolStep B P O s).1
    Core P s' ∧ Ph P t s' ∧ Frame s s' ∧ s.encPos + 1 ≤ s'.encPos := by
  intro s'
  have he' := (hasEnough_iff s.win _).mp he
  have hrp := h.rp_ge; have hlt := h.rp_lt; have hrl := h.rl_le; have hra := h.ra_ge; have hra2 := h.ra_le
  -- the decision
  obtain ⟨d, hd⟩ : ∃ d, d = (if s.win.readPos = -1 then ((1 : Nat), (1 : Nat), false) else O s.trace) := ⟨_, rfl⟩
  obtain ⟨adv, hadv⟩ : ∃ adv, adv = clampAdv (if s.readAhead = -1 then 1 else 0) d.1
      (((P.maxAhead : Int) - s.readAhead).toNat) (((s.win.writePos : Int) - 1 - s.win.readPos).toNat) := ⟨_, rfl⟩
  obtain ⟨len, hlen⟩ : ∃ len, len = clampLen d.2.1 (s.readAhead + adv) := ⟨_, rfl⟩
  have hs' : s' = { advance B P (s.win.base + s.encPos.toNat) adv s with readAhead := s.readAhead + adv - len } := by
    show (symbolStep B P O s).1 = _
    unfold symbolStep
    simp only [← hd, ← hadv, ← hlen]
  have hadv1 : s.win.readPos + adv + 1 ≤ s.win.writePos := by
    rw [hadv]; unfold clampAdv
    by_cases hr : s.readAhead = -1
    · rw [if_pos hr]; rw [hr] at he'; omega
    · rw [if_neg hr]; omega
  have hadv2 : s.readAhead + adv ≤ P.maxAhead := by
    rw [hadv]; unfold clampAdv
    by_cases hr : s.readAhead = -1
    · rw [if_pos hr, hr]; omega
    · rw [if_neg hr]; omega
  have hadv3 : 0 ≤ s.readAhead + adv := by
    rw [hadv]; unfold clampAdv
    by_cases hr : s.readAhead = -1
    · rw [if_pos hr, hr]; omega
    · rw [if_neg hr]; omega
  have hlen1 : 1 ≤ len ∧ (len : Int) ≤ s.readAhead + adv + 1 := by
    rw [hlen]; unfold clampLen; omega
  have hc := advance_core B P (s.win.base + s.encPos.toNat) adv s h hadv1
  obtain ⟨f, r, p, q1, q2, n, fl, _⟩ := advance_facts B P (s.win.base + s.encPos.toNat) adv s
  generalize advance B P (s.win.base + s.encPos.toNat) adv s = a at *
  have e1 : s'.win = a.win := by rw [hs']
  have e2 : s'.readAhead = s.readAhead + adv - len := by rw [hs']
  have e3 : s'.low = a.low := by rw [hs']
  refine ⟨?_, ?_, ?_, ?_⟩
  · refine ⟨?_, ?_, ?_, ?_, ?_, ?_, ?_, ?_, ?_⟩
    · rw [e1]; exact hc.wp_le
    · rw [e1]; exact hc.rp_ge
    · rw [e1]; exact hc.rp_lt
    · rw [e1]; exact hc.rl_le
    · rw [e1]; exact hc.pend_le
    · rw [e1]; exact hc.lookback
    · rw [e2]; omega
    · rw [e2]; omega
    · rw [e3]; exact hc.low_ok
  · cases t with
    | E =>
      show s'.win.finishing = true
      rw [e1, f.fin]; exact ht
    | N =>
      obtain ⟨t1, t2, t3⟩ := ht
      refine ⟨by rw [e1, f.fin]; exact t1, ?_, by rw [e1, f.rl, f.wp]; exact t3⟩
      rw [e1]
      apply n t2
      have := hP.ahead_le; have := hP.flush_le
      have hk : P.keepAfter = P.extraAfter + P.matchLenMax := rfl
      omega
    | F =>
      obtain ⟨t1, t2, t3⟩ := ht
      refine ⟨by rw [e1, f.fin]; exact t1, by rw [e1, f.rl, f.wp]; exact t2, ?_⟩
      rw [e1]
      exact fl t1 hadv1 t3
    | I =>
      obtain ⟨_, t2, t3, _⟩ := ht
      rw [t2] at he'
      omega
  · exact ⟨by rw [e1]; exact f.wp, by rw [e1]; exact f.base, by rw [e1]; exact f.rl, by rw [e1]; exact f.fin⟩
  · unfold St.encPos
    rw [e1, e2, p]
    omega

/-- the encode loop keeps invariant and phase; with enough fuel it ends because no symbol can be coded any more -/
theorem encodeLoop_FInv (hP : P.WF) (hs : Bool) : ∀ (fuel : Nat) (s : St β) (t : Tag), Core P s → Ph P t s →
    let s' := (encodeLoop B P O hs fuel s).1
    Core P s' ∧ Ph P t s' ∧ Frame s s' ∧
    (hs = false → ((s.win.writePos : Int) - s.encPos).toNat < fuel → hasEnoughData s'.win (s'.readAhead + 1) = false) := by
  intro fuel
  induction fuel with
  | zero =>
    intro s t h ht
    exact ⟨h, ht, Frame.rfl' s, fun _ hf => absurd hf (by omega)⟩
  | succ f ih =>
    intro s t h ht
    by_cases he : hasEnoughData s.win (s.readAhead + 1) = true
    · obtain ⟨c1, p1, f1, e1⟩ := symbolStep_FInv B P O hP s t h ht he
      by_cases hstop : (hs && (symbolStep B P O s).2) = true
      · have : encodeLoop B P O hs (f + 1) s = ((symbolStep B P O s).1, true) := by
          show (if hasEnoughData s.win (s.readAhead + 1) then
            (if hs && (symbolStep B P O s).2 then ((symbolStep B P O s).1, true) else encodeLoop B P O hs f (symbolStep B P O s).1)
            else (s, false)) = _
          rw [if_pos he, if_pos hstop]
        rw [this]
        refine ⟨c1, p1, f1, fun hh => ?_⟩
        rw [hh] at hstop
        exact absurd hstop (by simp)
      · have : encodeLoop B P O hs (f + 1) s = encodeLoop B P O hs f (symbolStep B P O s).1 := by
          show (if hasEnoughData s.win (s.readAhead + 1) then
            (if hs && (symbolStep B P O s).2 then ((symbolStep B P O s).1, true) else encodeLoop B P O hs f (symbolStep B P O s).1)
            else (s, false)) = _
          rw [if_pos he, if_neg hstop]
        rw [this]
        obtain ⟨c2, p2, f2, d2⟩ := ih (symbolStep B P O s).1 t c1 p1
        refine ⟨c2, p2, Frame.trans f1 f2, fun hh hf => d2 hh ?_⟩
        rw [f1.wp]
        have he' := (hasEnough_iff s.win _).mp he
        have := h.rl_le
        have henc : s.encPos = s.win.readPos - s.readAhead := rfl
        omega
    · have : encodeLoop B P O hs (f + 1) s = (s, false) := by
        show (if hasEnoughData s.win (s.readAhead + 1) then
          (if hs && (symbolStep B P O s).2 then ((symbolStep B P O s).1, true) else encodeLoop B P O hs f (symbolStep B P O s).1)
          else (s, false)) = _
        rw [if_neg he]
      rw [this]
      exact ⟨h, ht, Frame.rfl' s, fun _ _ => by simpa using he⟩

end

/-! ## `fill_window`, `write`, `flush`, `finish` -/

section
variable {β : Type} (B : BufOps β) (P : Params) (O : Oracle)

theorem core_of_win {s s1 : St β} (h : Core P s) (hra : s1.readAhead = s.readAhead) (hlow : s1.low = s.low)
    (g1 : s1.win.writePos ≤ P.bufSize) (g2 : -1 ≤ s1.win.readPos) (g3 : s1.win.readPos + 1 ≤ s1.win.writePos)
    (g4 : s1.win.readLimit + 1 ≤ s1.win.writePos) (g5 : (s1.win.pendingSize : Int) ≤ s1.win.readPos + 1)
    (g6 : s1.win.base = 0 ∨ (P.keepBefore : Int) ≤ s1.win.readPos - s1.win.pendingSize + 1) : Core P s1 :=
  ⟨g1, g2, g3, g4, g5, g6, by rw [hra]; exact h.ra_ge, by rw [hra]; exact h.ra_le, by rw [hlow]; exact h.low_ok⟩

/-- `fill_window` between symbols (phase `N`) or after a `flush` (phase `I`, bytes pending): also across a window move -/
theorem fillWindow_FInv (hP : P.WF) (hrep : P.pinnedMove = false) (hfs : P.FlushSmall) (s : St β) (input : List Nat)
    (h : Core P s) (ht : Ph P .N s ∨ Ph P .I s) :
    let s' := (fillWindow B P s input).1
    Core P s' ∧ (Ph P .N s' ∨ Ph P .I s') := by
  intro s'
  have hkA : 1 ≤ P.keepAfter := by have := hP.mlm_pos; show 1 ≤ P.extraAfter + P.matchLenMax; omega
  have hkA2 : P.reqFlush ≤ P.keepAfter := by have := hP.flush_le; show P.reqFlush ≤ P.extraAfter + P.matchLenMax; omega
  have hfin : s.win.finishing = false := by rcases ht with t | t <;> exact t.1
  have hps : s.win.pendingSize + Consts.MOVE_BLOCK_ALIGN ≤ 262144 := by
    unfold Params.FlushSmall at hfs
    rcases ht with t | t
    · have := t.2.1; omega
    · rcases t.2.2.2 with t0 | t0 <;> omega
  obtain ⟨g1, g2, g3, g4, g5, g6, g7, g8, _, g10, _⟩ :=
    fillCore_facts B P hrep hkA s.win input h.wp_le h.rp_ge h.rp_lt h.rl_le h.pend_le h.lookback hps
  obtain ⟨s1, hs1⟩ : ∃ s1 : St β, s1 = { s with win := (fillCore B P s.win input).1 } := ⟨_, rfl⟩
  have hs' : s' = processPending B P s1 := by rw [hs1]; rfl
  have w1 : s1.win = (fillCore B P s.win input).1 := by rw [hs1]
  have c1 : Core P s1 := core_of_win P h (by rw [hs1]) (by rw [hs1]) (by rw [w1]; exact g1) (by rw [w1]; exact g2)
    (by rw [w1]; exact g3) (by rw [w1]; exact g4) (by rw [w1]; exact g5) (by rw [w1]; exact g6)
  have r1 : s1.readAhead = s.readAhead := by rw [hs1]
  rw [← w1] at g7 g8 g10
  obtain ⟨c2, f2, r2, p2, q2, fired, notfired⟩ := processPending_facts B P s1 c1
  rw [← hs'] at c2 f2 r2 p2 q2 fired notfired
  refine ⟨c2, ?_⟩
  have hfin1 : s1.win.finishing = false := by rw [g8]; exact hfin
  by_cases hc : 0 < s1.win.pendingSize ∧ s1.win.readPos < s1.win.readLimit
  · -- the pending bytes are run again: far enough from the end of the data, none stays pending
    obtain ⟨fa, _⟩ := fired hc
    rcases ht with t | t
    · have := t.2.1; omega
    · obtain ⟨_, t2, t3, _⟩ := t
      rcases g10 with ⟨ga, gb⟩ | ⟨ga, _⟩
      · left
        refine ⟨by rw [f2.fin]; exact hfin1, fa (by omega), ?_⟩
        rw [f2.rl, f2.wp, gb]; omega
      · omega
  · rw [notfired hc]
    rcases ht with t | t
    · left
      obtain ⟨_, t2, t3⟩ := t
      refine ⟨hfin1, by rw [g7]; exact t2, ?_⟩
      rcases g10 with ⟨_, gb⟩ | ⟨_, gb⟩
      · rw [gb]; omega
      · omega
    · obtain ⟨_, t2, t3, t4⟩ := t
      by_cases hl : s1.win.readLimit ≤ s1.win.readPos
      · right
        exact ⟨hfin1, by rw [r1]; exact t2, hl, by rw [g7]; exact t4⟩
      · left
        have hp0 : s1.win.pendingSize = 0 := by omega
        refine ⟨hfin1, hp0, ?_⟩
        rcases g10 with ⟨_, gb⟩ | ⟨ga, _⟩
        · rw [gb]; omega
        · omega

theorem writeLoop_FInv (hP : P.WF) (hrep : P.pinnedMove = false) (hfs : P.FlushSmall) :
    ∀ (fuel : Nat) (s : St β) (rest : List Nat), Core P s → (Ph P .N s ∨ Ph P .I s) →
    Core P (writeLoop B P O fuel s rest) ∧ (Ph P .N (writeLoop B P O fuel s rest) ∨ Ph P .I (writeLoop B P O fuel s rest)) := by
  intro fuel
  induction fuel with
  | zero =>
    intro s rest h ht
    show Core P (if rest.isEmpty then s else { s with stuck := true }) ∧
      (Ph P .N (if rest.isEmpty then s else { s with stuck := true }) ∨ Ph P .I (if rest.isEmpty then s else { s with stuck := true }))
    split
    · exact ⟨h, ht⟩
    · exact ⟨⟨h.wp_le, h.rp_ge, h.rp_lt, h.rl_le, h.pend_le, h.lookback, h.ra_ge, h.ra_le, h.low_ok⟩, ht⟩
  | succ f ih =>
    intro s rest h ht
    by_cases hr : rest.isEmpty = true
    · have : writeLoop B P O (f + 1) s rest = s := by
        show (if rest.isEmpty then s else _) = s
        rw [if_pos hr]
      rw [this]; exact ⟨h, ht⟩
    · have : writeLoop B P O (f + 1) s rest =
          writeLoop B P O f (encodeLoop B P O P.lzma2 ((fillWindow B P s rest).1.unenc + 1) (fillWindow B P s rest).1).1
            (rest.drop (fillWindow B P s rest).2) := by
        show (if rest.isEmpty then s else _) = _
        rw [if_neg hr]
      rw [this]
      obtain ⟨c1, t1⟩ := fillWindow_FInv B P hP hrep hfs s rest h ht
      rcases t1 with t1 | t1
      · obtain ⟨c2, t2, _, _⟩ := encodeLoop_FInv B P O hP P.lzma2 _ _ .N c1 t1
        exact ih _ _ c2 (Or.inl t2)
      · obtain ⟨c2, t2, _, _⟩ := encodeLoop_FInv B P O hP P.lzma2 _ _ .I c1 t1
        exact ih _ _ c2 (Or.inr t2)

/-- `LZMA2Writer::flush`: everything in the window gets coded; fewer than `required_for_flushing` bytes stay pending -/
theorem flush_FInv (hP : P.WF) (s : St β) (h : Core P s) (ht : Ph P .N s ∨ Ph P .I s) :
    Core P (flush B P O s) ∧ Ph P .I (flush B P O s) := by
  have hfin : s.win.finishing = false := by rcases ht with t | t <;> exact t.1
  obtain ⟨s1, hs1⟩ : ∃ s1 : St β, s1 = { s with win := { s.win with readLimit := (s.win.writePos : Int) - 1 } } := ⟨_, rfl⟩
  have hsf : setFlushing B P s = processPending B P s1 := by rw [hs1]; rfl
  have c1 : Core P s1 := by
    rw [hs1]
    exact ⟨h.wp_le, h.rp_ge, h.rp_lt, by show (s.win.writePos : Int) - 1 + 1 ≤ s.win.writePos; omega, h.pend_le, h.lookback,
      h.ra_ge, h.ra_le, h.low_ok⟩
  have a1 : s1.win.readPos = s.win.readPos := by rw [hs1]
  have a2 : s1.win.writePos = s.win.writePos := by rw [hs1]
  have a3 : s1.win.pendingSize = s.win.pendingSize := by rw [hs1]
  have a4 : s1.win.readLimit = (s.win.writePos : Int) - 1 := by rw [hs1]
  have a5 : s1.win.finishing = false := by rw [hs1]; exact hfin
  obtain ⟨c2, f2, r2, p2, q2, fired, notfired⟩ := processPending_facts B P s1 c1
  rw [← hsf] at c2 f2 r2 p2 q2 fired notfired
  have hlt := h.rp_lt
  have tF : Ph P .F (setFlushing B P s) := by
    refine ⟨by rw [f2.fin]; exact a5, by rw [f2.rl, f2.wp, a4, a2], ?_⟩
    rw [f2.wp, p2, a1, a2]
    by_cases hc : 0 < s1.win.pendingSize ∧ s1.win.readPos < s1.win.readLimit
    · have := (fired hc).2 a5
      rw [a2, a1] at this
      exact this
    · rw [notfired hc, a3]
      rw [a3, a1, a4] at hc
      rcases ht with t | t
      · exact Or.inl t.2.1
      · rcases t.2.2.2 with t0 | t0
        · exact Or.inl t0
        · by_cases hp0 : s.win.pendingSize = 0
          · exact Or.inl hp0
          · right; omega
  obtain ⟨c3, t3, f3, d3⟩ := encodeLoop_FInv B P O hP false ((setFlushing B P s).unenc + 1) (setFlushing B P s) .F c2 tF
  have hfl : flush B P O s = (encodeLoop B P O false ((setFlushing B P s).unenc + 1) (setFlushing B P s)).1 := rfl
  rw [← hfl] at c3 t3 f3 d3
  have hdone := d3 rfl (by unfold St.unenc; omega)
  have hne : ¬ ((flush B P O s).win.readPos - ((flush B P O s).readAhead + 1) < (flush B P O s).win.readLimit) := by
    intro hh
    have := (hasEnough_iff (flush B P O s).win _).mpr hh
    rw [hdone] at this
    exact absurd this (by decide)
  obtain ⟨u1, u2, u3⟩ := t3
  have := c3.ra_ge; have := c3.rp_lt
  refine ⟨c3, u1, by omega, by omega, ?_⟩
  rcases u3 with u0 | u0
  · exact Or.inl u0
  · right; omega

theorem finish_FInv (hP : P.WF) (s : St β) (h : Core P s) : Core P (finish B P O s) ∧ Ph P .E (finish B P O s) := by
  obtain ⟨s1, hs1⟩ : ∃ s1 : St β, s1 = { s with win := { s.win with readLimit := (s.win.writePos : Int) - 1, finishing := true } } := ⟨_, rfl⟩
  have hsf : setFinishing B P s = processPending B P s1 := by rw [hs1]; rfl
  have c1 : Core P s1 := by
    rw [hs1]
    exact ⟨h.wp_le, h.rp_ge, h.rp_lt, by show (s.win.writePos : Int) - 1 + 1 ≤ s.win.writePos; omega, h.pend_le, h.lookback,
      h.ra_ge, h.ra_le, h.low_ok⟩
  have a5 : s1.win.finishing = true := by rw [hs1]
  obtain ⟨c2, f2, _⟩ := processPending_facts B P s1 c1
  rw [← hsf] at c2 f2
  have tE : Ph P .E (setFinishing B P s) := by show (setFinishing B P s).win.finishing = true; rw [f2.fin]; exact a5
  obtain ⟨c3, t3, _, _⟩ := encodeLoop_FInv B P O hP false ((setFinishing B P s).unenc + 1) (setFinishing B P s) .E c2 tE
  exact ⟨c3, t3⟩

theorem runEvs_FInv (hP : P.WF) (hrep : P.pinnedMove = false) (hfs : P.FlushSmall) :
    ∀ (evs : List Ev) (s : St β), Core P s → (Ph P .N s ∨ Ph P .I s) →
    Core P (runEvs B P O s evs) ∧ (Ph P .N (runEvs B P O s evs) ∨ Ph P .I (runEvs B P O s evs)) := by
  intro evs
  induction evs with
  | nil => intro s h ht; exact ⟨h, ht⟩
  | cons e es ih =>
    intro s h ht
    cases e with
    | write p =>
      obtain ⟨c, t⟩ := writeLoop_FInv B P O hP hrep hfs (2 * p.length + s.unenc + 1) s p h ht
      exact ih _ c t
    | flush =>
      obtain ⟨c, t⟩ := flush_FInv B P O hP s h ht
      exact ih _ c (Or.inr t)

/-! ## The theorems -/

/-- **The invariant of runs with `flush` calls.**  For every search, every sequence of `write` and `flush` calls
    and the final `finish`: positions in range, `keep_size_before - 1` bytes of history before the first pending
    byte (or nothing discarded yet), the match finder never run with less history than it may look back. -/
theorem flush_inv_runEv (hP : P.WF) (hrep : P.pinnedMove = false) (hfs : P.FlushSmall) (evs : List Ev) :
    FInv P (runEv B P O evs) := by
  obtain ⟨c, t⟩ := runEvs_FInv B P O hP hrep hfs evs (St.init B P) (Core.init B P) (Or.inr (Ph.init B P))
  obtain ⟨c2, t2⟩ := finish_FInv B P O hP _ c
  exact ⟨c2, .E, t2⟩

end

/-! ## Consequences, the real parameters, the witness -/

section
variable {β : Type} (B : BufOps β) (P : Params) (O : Oracle)

/-- **No position the match finder is run at lacks history.**  In every run with `flush` calls the ghost flag
    `low` stays clear: at every `find_matches` / `skip` step and at every pending byte that
    `process_pending_bytes` hands to the match finder again, at least `min(keep_size_before - 1, bytes seen so far)`
    bytes before `read_pos` are in the buffer, so no candidate at distance `delta ≤ dict_size ≤ keep_size_before - 1`
    is read at a negative index. -/
theorem flush_runs_keep_history (hP : P.WF) (hrep : P.pinnedMove = false) (hfs : P.FlushSmall) (evs : List Ev) :
    (runEv B P O evs).low = false :=
  (flush_inv_runEv B P O hP hrep hfs evs).core.low_ok

/-- **The window move in a state with pending bytes.**  In every state that satisfies the invariant and is not
    finishing, when `fill_window` moves the window the repaired `move_offset` is at least `MOVE_BLOCK_ALIGN` before
    alignment (never negative: the code's `debug_assert!(move_offset >= 0)`; at least 64 bytes become free, so a
    non-empty input makes progress), and afterwards `keep_size_before - 1` bytes of history lie before the first
    pending byte. -/
theorem flush_inv_move_offset (hP : P.WF) (hrep : P.pinnedMove = false) (hfs : P.FlushSmall) (s : St β) (input : List Nat)
    (h : FInv P s) (hf : s.win.finishing = false) (hmove : (P.bufSize : Int) - P.keepAfter ≤ s.win.readPos) :
    let r := fillCore B P s.win input
    (Consts.MOVE_BLOCK_ALIGN : Int) ≤ moveOffsetRaw P s.win ∧ Consts.MOVE_BLOCK_ALIGN ≤ moveOffset P s.win ∧
    (P.keepBefore : Int) ≤ r.1.readPos - r.1.pendingSize + 1 ∧ 0 ≤ r.1.readPos - r.1.pendingSize ∧
    (input ≠ [] → 0 < r.2) := by
  intro r
  have hr : r = fillCore B P s.win input := rfl
  rw [hr]
  clear hr r
  have hkA : 1 ≤ P.keepAfter := by have := hP.mlm_pos; show 1 ≤ P.extraAfter + P.matchLenMax; omega
  have hps : s.win.pendingSize + Consts.MOVE_BLOCK_ALIGN ≤ 262144 := by
    unfold Params.FlushSmall at hfs
    rcases h.pend_small P hf with t0 | t0 <;> omega
  have c := h.core
  obtain ⟨_, _, _, _, g5, g6, _, _, _, _, g11⟩ :=
    fillCore_facts B P hrep hkA s.win input c.wp_le c.rp_ge c.rp_lt c.rl_le c.pend_le c.lookback hps
  obtain ⟨m1, m2, m3, m4⟩ := g11 hmove
  have hA : 0 < Consts.MOVE_BLOCK_ALIGN := align_ok.2
  have hkb := hP.kb_pos
  refine ⟨m1, m2, ?_, ?_, m4⟩
  · rcases g6 with g | g
    · omega
    · exact g
  · rcases g6 with g | g
    · omega
    · omega

end

/-- the parameters of the real encoders satisfy the side conditions of the flush theorems -/
theorem mkParams_flush (dict nice : Nat) (mode : Mode) (mf : MF) (lzma2 : Bool) (hn2 : nice ≤ Consts.MATCH_LEN_MAX) :
    (mkParams dict nice mode mf lzma2).pinnedMove = false ∧ (mkParams dict nice mode mf lzma2).FlushSmall := by
  refine ⟨rfl, ?_⟩
  have hM : Consts.MATCH_LEN_MAX = 273 := rfl
  have hA : Consts.MOVE_BLOCK_ALIGN = 64 := rfl
  show (match mf with | .hc4 => 4 | .bt4 => nice) + Consts.MOVE_BLOCK_ALIGN ≤ 262144
  cases mf <;> simp only <;> omega

/-! ### The witness: the statement before the repair

The state of the reproducer (`LZMA2Writer`, fast mode, BT4, `nice_len = 273`, `dict_size = 64 KiB`: `keep_size_before
= 65537`, `keep_size_after = 545`, `buf_size = 360994`) after `write(360769 bytes); flush()`: everything is coded
(`read_pos = write_pos - 1 = 360768`), the last 272 positions are pending. -/

def reproParams (pinned : Bool) : Params := { mkParams 65536 273 .fast .bt4 true with pinnedMove := pinned }

def reproState : St Unit :=
  { win := { buf := (), readPos := 360768, readLimit := 360768, writePos := 360769, pendingSize := 272 } }

/-- the state satisfies the invariant (phase `I`), for the old and the repaired statement alike -/
theorem reproState_FInv (pinned : Bool) : FInv (reproParams pinned) reproState := by
  cases pinned <;>
    exact ⟨⟨by decide, by decide, by decide, by decide, by decide, by decide, by decide, by decide, by decide⟩, .I,
      ⟨by decide, by decide, by decide, by decide⟩⟩

/-- **Witness.**  With `move_window` as it was before the repair, the next `fill_window` (5000 more bytes) moves the
    window by 295232 bytes, `process_pending_bytes` rewinds to buffer position 65264 and the match finder is run at
    65265 with 294960 + 272 = 295232 bytes discarded: fewer than `keep_size_before - 1 = 65536` bytes of history are
    left (`low` is set; BT4 then reads `buf[read_pos - delta]` with `delta` up to `dict_size = 65536`: index -271).
    The repaired statement moves by 294912 bytes only and the flag stays clear (an instance of
    `flush_inv_move_offset` / `fillWindow_FInv`, re-checked by evaluation). -/
theorem pinned_move_loses_pending_history :
    moveOffset (reproParams true) reproState.win = 295232 ∧
    (fillWindow noBuf (reproParams true) reproState (List.replicate 5000 0)).1.low = true ∧
    moveOffset (reproParams false) reproState.win = 294912 ∧
    (fillWindow noBuf (reproParams false) reproState (List.replicate 5000 0)).1.low = false := by
  decide +kernel

/-! ### Non-vacuity -/

/-- small parameters for runs with contents-free evaluation -/
def tinyF : Params :=
  { dictSize := 8, extraBefore := 1, extraAfter := 3, matchLenMax := 4, niceLen := 4, reqFlush := 4, reqFinish := 2,
    maxAhead := 3, lzma2 := true }

/-- the hypotheses of the flush theorems hold for the parameters of the reproducer … -/
theorem reproParams_eq : reproParams false = mkParams 65536 273 .fast .bt4 true := rfl

example : (reproParams false).WF ∧ (reproParams false).pinnedMove = false ∧ (reproParams false).FlushSmall := by
  rw [reproParams_eq]
  exact ⟨mkParams_WF _ _ _ _ _ (by decide) (by decide) (by decide), (mkParams_flush 65536 273 .fast .bt4 true (by decide)).1,
    (mkParams_flush 65536 273 .fast .bt4 true (by decide)).2⟩

/-- … `flush_inv_move_offset` applies to the reproducer's state (it is not finishing and the window must move) … -/
example : reproState.win.finishing = false ∧
    ((reproParams false).bufSize : Int) - (reproParams false).keepAfter ≤ reproState.win.readPos := by decide

/-- … and a run with flush calls that leaves bytes pending and codes them later: small parameters, a flush after 6
    bytes (`required_for_flushing = 4`: three bytes stay pending), evaluated -/
example : (runEvs noBuf tinyF (policyOracle 0) (St.init noBuf tinyF) [.write (cyclicBytes 0 6), .flush]).win.pendingSize = 3 ∧
    (runEv noBuf tinyF (policyOracle 0) [.write (cyclicBytes 0 6), .flush, .write (cyclicBytes 6 30), .flush]).low = false := by
  decide +kernel

/-! ### The repair is invisible without `flush` -/

theorem refAdvance_pinned (P : Params) (b : Bool) (inp : List Nat) (e : Nat) : ∀ (k : Nat) (c : RSt),
    refAdvance { P with pinnedMove := b } inp e k c = refAdvance P inp e k c := by
  intro k
  induction k with
  | zero => intro c; rfl
  | succ k ih =>
    intro c
    show refAdvance { P with pinnedMove := b } inp e k (refMf { P with pinnedMove := b } inp e c) = refAdvance P inp e k (refMf P inp e c)
    rw [ih]
    rfl

theorem refSymbol_pinned (P : Params) (b : Bool) (O : Oracle) (inp : List Nat) (c : RSt) :
    refSymbol { P with pinnedMove := b } O inp c = refSymbol P O inp c := by
  unfold refSymbol
  simp only [refAdvance_pinned]

theorem refRun_pinned (P : Params) (b : Bool) (O : Oracle) (inp : List Nat) : ∀ (f : Nat) (c : RSt),
    refRun { P with pinnedMove := b } O inp f c = refRun P O inp f c := by
  intro f
  induction f with
  | zero => intro c; rfl
  | succ f ih =>
    intro c
    show (if c.encPos < inp.length then refRun { P with pinnedMove := b } O inp f (refSymbol { P with pinnedMove := b } O inp c).1 else c) =
      (if c.encPos < inp.length then refRun P O inp f (refSymbol P O inp c).1 else c)
    rw [refSymbol_pinned, ih]

/-- **The repair does not change anything in runs without `flush`.**  For every search and every partition of the input
    into `write` calls, the window with the repaired `move_window` shows the search exactly the views the window with
    the statement before the repair shows (positions, look-ahead and look-back BYTES, match length limits): the
    compressed bytes are the same.  (`pending_size = 0` at every window move of such a run.) -/
theorem repair_invisible_without_flush (P : Params) (hP : P.WF) (O : Oracle) (parts : List (List Nat)) :
    traceOf listBuf { P with pinnedMove := true } O parts = traceOf listBuf { P with pinnedMove := false } O parts := by
  have h1 : ({ P with pinnedMove := true } : Params).WF := ⟨hP.mlm_pos, hP.flush_le, hP.fin_le, hP.ahead_le, hP.ahead_before, hP.kb_pos, hP.cap⟩
  have h2 : ({ P with pinnedMove := false } : Params).WF := ⟨hP.mlm_pos, hP.flush_le, hP.fin_le, hP.ahead_le, hP.ahead_before, hP.kb_pos, hP.cap⟩
  rw [trace_eq_ref _ h1, trace_eq_ref _ h2]
  unfold refTrace
  rw [refRun_pinned P true, refRun_pinned P false]

#print axioms flush_inv_runEv
#print axioms repair_invisible_without_flush
#print axioms flush_runs_keep_history
#print axioms flush_inv_move_offset
#print axioms mkParams_flush
#print axioms reproState_FInv
#print axioms pinned_move_loses_pending_history

end LzmaVerif.EncWindow
