import LzmaVerif.Proofs.EncWindowSim
/-!
# The encoder window with `flush` calls: the pending bytes keep their history across a window move

`LZMA2Writer::flush` -> `set_flushing` lets the encoder code every byte in the window; the match finder (BT4:
`move_pos(nice_len, 4)`, HC4: `move_pos(4, 4)`) leaves the last `required_for_flushing - 1` positions PENDING
(`pending_size`).  The next `fill_window` first moves the window (if `read_pos` is within `keep_size_after` of the
buffer's end) and then `process_pending_bytes` rewinds `read_pos` by `pending_size` and runs the match finder on those
positions again.  The match finder looks up to `dict_size ≤ keep_size_before - 1` bytes back from EVERY position it
is run at - also from the first rewound one.  Before the repair (`fix: move_window keeps the history of the pending
bytes`) `move_window` kept `keep_size_before - 1 + (0..63)` bytes before `read_pos` only
(`moveOffsetPinned`): BT4 indexed the buffer at up to `-(nice_len - 1)` (panic; out-of-bounds read with the
`optimization` feature).

Proved here, for every search `O`, every sequence of `write` / `flush` calls followed by `finish`
(`runEv`, `Model/EncWindow.lean`), positions only (any buffer type):

* `flush_inv_runEv` – the invariant `FInv` holds at the end (and by the same induction after every operation):
  `read_pos - pending_size + 1 ≥ keep_size_before` or nothing was discarded yet, `pending_size ≤ read_pos + 1`,
  `pending_size < required_for_flushing` while not finishing, `read_pos < write_pos ≤ buf_size`;
* `flush_runs_keep_history` – the ghost flag `low` is never set: at every position the match finder is run at
  (`find_matches`, `skip`, the re-run of the pending bytes) at least `min(keep_size_before - 1, bytes seen so far)`
  bytes of history are in the buffer;
* `flush_inv_move_offset` – whenever `fill_window` moves the window in such a state, the repaired
  `move_offset` is at least `MOVE_BLOCK_ALIGN` before alignment: it is not negative (the code's `debug_assert`), and
  at least 64 bytes are free afterwards (`fill_window` makes progress);
* `pinned_move_loses_pending_history` – the statement before the repair violates it on the state of the
  reproducer (`dict_size = 64 KiB`, BT4, `nice_len = 273`, `write(360769); flush(); write(..)`).
-/
namespace LzmaVerif.EncWindow

section
variable {β : Type} (B : BufOps β) (P : Params)

/-! ## One `move_pos`, `k` of them -/

/-- what an encoder step never touches -/
structure Frame (s s' : St β) : Prop where
  wp : s'.win.writePos = s.win.writePos
  base : s'.win.base = s.win.base
  rl : s'.win.readLimit = s.win.readLimit
  fin : s'.win.finishing = s.win.finishing

theorem Frame.rfl' (s : St β) : Frame s s := ⟨rfl, rfl, rfl, rfl⟩

theorem Frame.trans {a b c : St β} (h1 : Frame a b) (h2 : Frame b c) : Frame a c :=
  ⟨h2.wp.trans h1.wp, h2.base.trans h1.base, h2.rl.trans h1.rl, h2.fin.trans h1.fin⟩

theorem mfStep_facts (e : Nat) (s : St β) :
    let avail := ((s.win.writePos : Int) - (s.win.readPos + 1)).toNat
    let pendCond := avail < P.reqFlush ∧ (avail < P.reqFinish ∨ s.win.finishing = false)
    Frame s (mfStep B P e s) ∧ (mfStep B P e s).readAhead = s.readAhead ∧
    (mfStep B P e s).win.readPos = s.win.readPos + 1 ∧
    (mfStep B P e s).win.pendingSize = s.win.pendingSize + (if pendCond then 1 else 0) ∧
    (mfStep B P e s).low = (s.low || !(histOk P (mfStep B P e s).win)) := by
  intro avail pendCond
  have h := (movePos_spec P s.win).1
  have hw : (mfStep B P e s).win = (movePos P s.win).1 := rfl
  refine ⟨⟨?_, ?_, ?_, ?_⟩, rfl, ?_, ?_, rfl⟩ <;> rw [hw, h]

/-- `k` times `move_pos`: positions, and how `pending_size` evolves -/
theorem advance_facts (e : Nat) : ∀ (k : Nat) (s : St β),
    let s' := advance B P e k s
    Frame s s' ∧ s'.readAhead = s.readAhead ∧ s'.win.readPos = s.win.readPos + k ∧
    s.win.pendingSize ≤ s'.win.pendingSize ∧ s'.win.pendingSize ≤ s.win.pendingSize + k ∧
    -- no byte is left pending while `required_for_flushing` bytes are ahead
    (s.win.pendingSize = 0 → s.win.readPos + k + P.reqFlush ≤ s.win.writePos → s'.win.pendingSize = 0) ∧
    -- flushing: the pending bytes are the last ones before `write_pos`, fewer than `required_for_flushing`
    (s.win.finishing = false → s.win.readPos + k + 1 ≤ s.win.writePos →
      (s.win.pendingSize = 0 ∨ (s.win.pendingSize : Int) + (s.win.writePos - s.win.readPos) ≤ P.reqFlush) →
      (s'.win.pendingSize = 0 ∨ (s'.win.pendingSize : Int) + (s'.win.writePos - s'.win.readPos) ≤ P.reqFlush)) ∧
    -- the history flag
    ((s.win.base = 0 ∨ (P.keepBefore : Int) ≤ s.win.readPos + 2) → s'.low = s.low) := by
  intro k
  induction k with
  | zero =>
    intro s
    refine ⟨Frame.rfl' s, rfl, ?_, Nat.le_refl _, Nat.le_refl _, fun h _ => h, fun _ _ h => h, fun _ => rfl⟩
    show s.win.readPos = s.win.readPos + ((0 : Nat) : Int)
    omega
  | succ k ih =>
    intro s
    obtain ⟨f1, r1, p1, q1, l1⟩ := mfStep_facts B P e s
    obtain ⟨f2, r2, p2, q2a, q2b, n2, fl2, l2⟩ := ih (mfStep B P e s)
    have hs : advance B P e (k + 1) s = advance B P e k (mfStep B P e s) := rfl
    simp only [hs]
    generalize advance B P e k (mfStep B P e s) = s' at *
    generalize mfStep B P e s = m at *
    have hwp := f1.wp; have hfin := f1.fin; have hbase := f1.base
    refine ⟨Frame.trans f1 f2, r2.trans r1, ?_, ?_, ?_, ?_, ?_, ?_⟩
    · rw [p2, p1]; push_cast; omega
    · rw [q1] at q2a; omega
    · rw [q1] at q2b; split at q2b <;> omega
    · intro h0 hroom
      apply n2
      · rw [q1, h0, if_neg]
        · intro hc
          have := hc.1
          omega
      · rw [p1, hwp]; push_cast at hroom ⊢; omega
    · intro hnf hroom hF
      apply fl2
      · rw [hfin]; exact hnf
      · rw [p1, hwp]; push_cast at hroom ⊢; omega
      · rw [q1, p1, hwp]
        by_cases hc : ((s.win.writePos : Int) - (s.win.readPos + 1)).toNat < P.reqFlush ∧
            (((s.win.writePos : Int) - (s.win.readPos + 1)).toNat < P.reqFinish ∨ s.win.finishing = false)
        · rw [if_pos hc]
          right
          have := hc.1
          push_cast at hroom ⊢
          rcases hF with h0 | hF
          · rw [h0]; omega
          · omega
        · rw [if_neg hc]
          rcases hF with h0 | hF
          · left; omega
          · exfalso
            apply hc
            refine ⟨?_, Or.inr hnf⟩
            push_cast at hroom
            omega
    · intro hh
      have hm : m.low = s.low := by
        rw [l1]
        have : histOk P m.win = true := by
          unfold histOk
          rw [hbase, p1]
          rcases hh with h | h
          · simp [h]
          · have : (P.keepBefore : Int) ≤ s.win.readPos + 1 + 1 := by omega
            simp [this]
        rw [this]; simp
      have hh2 : m.win.base = 0 ∨ (P.keepBefore : Int) ≤ m.win.readPos + 2 := by
        rw [hbase, p1]
        rcases hh with h | h
        · exact Or.inl h
        · right; omega
      rw [l2 hh2, hm]

end

/-! ## The invariant -/

section
variable {β : Type} (B : BufOps β) (P : Params) (O : Oracle)

/-- positions, history and the pending bytes: what holds in every reachable state of a run with `flush` calls -/
structure Core (s : St β) : Prop where
  wp_le : s.win.writePos ≤ P.bufSize
  rp_ge : -1 ≤ s.win.readPos
  rp_lt : s.win.readPos + 1 ≤ s.win.writePos
  rl_le : s.win.readLimit + 1 ≤ s.win.writePos
  /-- the rewind of `process_pending_bytes` stays inside the buffer -/
  pend_le : (s.win.pendingSize : Int) ≤ s.win.readPos + 1
  /-- THE invariant that was missing: `keep_size_before - 1` bytes of history before the FIRST PENDING byte (the
      position `process_pending_bytes` re-runs the match finder at), or nothing was discarded yet -/
  lookback : s.win.base = 0 ∨ (P.keepBefore : Int) ≤ s.win.readPos - s.win.pendingSize + 1
  ra_ge : -1 ≤ s.readAhead
  ra_le : s.readAhead ≤ P.maxAhead
  /-- the match finder was never run with less history than it may look back -/
  low_ok : s.low = false

/-- where the run is: `E` finishing; `N` normal (`read_limit = write_pos - keep_size_after`, nothing pending);
    `F` inside `flush` (`read_limit = write_pos - 1`; the pending bytes are the last ones); `I` idle after a `flush`
    (everything coded, up to `required_for_flushing - 1` bytes pending, no symbol can be coded) -/
inductive Tag where | E | N | F | I

def Ph (t : Tag) (s : St β) : Prop :=
  match t with
  | .E => s.win.finishing = true
  | .N => s.win.finishing = false ∧ s.win.pendingSize = 0 ∧ s.win.readLimit + P.keepAfter ≤ s.win.writePos
  | .F => s.win.finishing = false ∧ s.win.readLimit = (s.win.writePos : Int) - 1 ∧
      (s.win.pendingSize = 0 ∨ (s.win.pendingSize : Int) + (s.win.writePos - s.win.readPos) ≤ P.reqFlush)
  | .I => s.win.finishing = false ∧ s.readAhead = -1 ∧ s.win.readLimit ≤ s.win.readPos ∧
      (s.win.pendingSize = 0 ∨ s.win.pendingSize < P.reqFlush)

/-- the invariant of runs with `flush` calls -/
structure FInv (s : St β) : Prop where
  core : Core P s
  phase : ∃ t, Ph P t s

theorem FInv.pend_small {s : St β} (h : FInv P s) (hf : s.win.finishing = false) :
    s.win.pendingSize = 0 ∨ s.win.pendingSize < P.reqFlush := by
  obtain ⟨t, ht⟩ := h.phase
  have := h.core.rp_lt
  cases t with
  | E =>
    have ht' : s.win.finishing = true := ht
    rw [hf] at ht'
    exact absurd ht' (by decide)
  | N => exact Or.inl ht.2.1
  | F =>
    rcases ht.2.2 with h0 | h1
    · exact Or.inl h0
    · right; omega
  | I => exact ht.2.2.2

theorem Core.init : Core P (St.init B P) := by
  constructor <;> simp [St.init, Win.init]

theorem FInv.init : FInv P (St.init B P) :=
  ⟨Core.init B P, .I, by simp [Ph, St.init, Win.init]⟩

/-! ## `k` times `move_pos` -/

theorem advance_core (e k : Nat) (s : St β) (h : Core P s) (hroom : s.win.readPos + k + 1 ≤ s.win.writePos) :
    Core P (advance B P e k s) := by
  obtain ⟨f, r, p, q1, q2, _, _, l⟩ := advance_facts B P e k s
  have := h.rp_ge; have := h.pend_le
  refine ⟨?_, ?_, ?_, ?_, ?_, ?_, ?_, ?_, ?_⟩
  · rw [f.wp]; exact h.wp_le
  · rw [p]; omega
  · rw [p, f.wp]; omega
  · rw [f.rl, f.wp]; exact h.rl_le
  · rw [p]; omega
  · rw [f.base, p]
    rcases h.lookback with hb | hb
    · exact Or.inl hb
    · right; omega
  · rw [r]; exact h.ra_ge
  · rw [r]; exact h.ra_le
  · rw [l (by rcases h.lookback with hb | hb; exact Or.inl hb; right; omega)]; exact h.low_ok

/-! ## `process_pending_bytes` -/

theorem processPending_facts (s : St β) (h : Core P s) :
    let s' := processPending B P s
    Core P s' ∧ Frame s s' ∧ s'.readAhead = s.readAhead ∧ s'.win.readPos = s.win.readPos ∧
    s'.win.pendingSize ≤ s.win.pendingSize ∧
    ((0 < s.win.pendingSize ∧ s.win.readPos < s.win.readLimit) →
      (s.win.readPos + P.reqFlush ≤ s.win.writePos → s'.win.pendingSize = 0) ∧
      (s.win.finishing = false →
        (s'.win.pendingSize = 0 ∨ (s'.win.pendingSize : Int) + (s.win.writePos - s.win.readPos) ≤ P.reqFlush))) ∧
    (¬ (0 < s.win.pendingSize ∧ s.win.readPos < s.win.readLimit) → s' = s) := by
  intro s'
  by_cases hc : 0 < s.win.pendingSize ∧ s.win.readPos < s.win.readLimit
  · obtain ⟨s0, hs0⟩ : ∃ s0 : St β, s0 = { s with win := { s.win with readPos := s.win.readPos - s.win.pendingSize, pendingSize := 0 } } := ⟨_, rfl⟩
    have hs' : s' = advance B P (s.win.base + s.encPos.toNat) s.win.pendingSize s0 := by
      show processPending B P s = _
      unfold processPending
      simp only [hs0]
      rw [if_pos hc]
    have hrp := h.rp_ge; have hpl := h.pend_le; have hlt := h.rp_lt
    have c0 : Core P s0 := by
      rw [hs0]
      refine ⟨h.wp_le, ?_, ?_, h.rl_le, ?_, ?_, h.ra_ge, h.ra_le, h.low_ok⟩
      · show -1 ≤ s.win.readPos - (s.win.pendingSize : Int); omega
      · show s.win.readPos - (s.win.pendingSize : Int) + 1 ≤ s.win.writePos; omega
      · show ((0 : Nat) : Int) ≤ s.win.readPos - (s.win.pendingSize : Int) + 1; omega
      · show s.win.base = 0 ∨ (P.keepBefore : Int) ≤ s.win.readPos - (s.win.pendingSize : Int) - ((0 : Nat) : Int) + 1
        rcases h.lookback with hb | hb
        · exact Or.inl hb
        · right; omega
    have e1 : s0.win.readPos = s.win.readPos - s.win.pendingSize := by rw [hs0]
    have e2 : s0.win.pendingSize = 0 := by rw [hs0]
    have e3 : s0.win.writePos = s.win.writePos := by rw [hs0]
    have e4 : s0.win.base = s.win.base := by rw [hs0]
    have e5 : s0.win.readLimit = s.win.readLimit := by rw [hs0]
    have e6 : s0.win.finishing = s.win.finishing := by rw [hs0]
    have e7 : s0.readAhead = s.readAhead := by rw [hs0]
    have hroom : s0.win.readPos + s.win.pendingSize + 1 ≤ s0.win.writePos := by rw [e1, e3]; omega
    have hcore := advance_core B P (s.win.base + s.encPos.toNat) s.win.pendingSize s0 c0 hroom
    obtain ⟨f, r, p, q1, q2, n, fl, _⟩ := advance_facts B P (s.win.base + s.encPos.toNat) s.win.pendingSize s0
    rw [← hs'] at hcore f r p q1 q2 n fl
    refine ⟨hcore, ⟨f.wp.trans e3, f.base.trans e4, f.rl.trans e5, f.fin.trans e6⟩, r.trans e7, ?_, ?_, ?_, ?_⟩
    · rw [p, e1]; omega
    · rw [e2] at q2; omega
    · intro _
      refine ⟨fun hr => n e2 (by rw [e1, e3]; omega), fun hnf => ?_⟩
      have := fl (by rw [e6]; exact hnf) hroom (Or.inl e2)
      rw [f.wp, e3, p, e1] at this
      rcases this with h0 | h1
      · exact Or.inl h0
      · right; omega
    · intro hn; exact absurd hc hn
  · have hs' : s' = s := by
      show processPending B P s = s
      unfold processPending
      simp only []
      rw [if_neg hc]
    rw [hs']
    exact ⟨h, Frame.rfl' s, rfl, rfl, Nat.le_refl _, fun hh => absurd hh hc, fun _ => rfl⟩

end

end LzmaVerif.EncWindow
