import LzmaVerif.Model.Stream
import LzmaVerif.Model.BcjStream
/-!
Correctness of the streaming wrappers of `Model/Stream.lean` over an abstract block filter:
for a `Restartable` filter, the streaming writer (for every partition of the input) and the
buffered reader (for every destination-size sequence and every short-read pattern of the inner
reader) produce exactly the one-shot filtering of the whole input.

Contents
* `Restartable`, `wRun_eq_oneShot` (writer), `rRun_eq_oneShot` / `rRun_eq_oneShot_default` (reader),
  `rRun_zero_cons` / `rRun_insert_zeros` (zero-length reads);
* non-vacuity: `strideF_restartable` (generic fixed-stride group filter), `scanF_restartable`
  (generic variable-stride scanner with a loop state compared up to an equivalence);
* all eight real BCJ filters of `Model/Filters.lean` are restartable (`bcj_restartable`), hence
  `writeParts_eq_oneShot`, `readAll_eq_oneShot` for `Model/BcjStream.lean`;
* counterexamples: `lazy_reader_loses_data` (why the tail bound is needed),
  `x86_strong_restart_false` (why `restart` compares outputs only).
Core Lean only (no Mathlib).
-/
namespace LzmaVerif.Stream

variable {σ : Type}

/-- What makes a block filter safe to stream. -/
structure Restartable (F : BlockFilter σ) : Prop where
  /-- the buffer keeps its length -/
  len : ∀ st xs, ((F.code st xs).1).length = xs.length
  /-- never more processed than given -/
  le : ∀ st xs, (F.code st xs).2.1 ≤ xs.length
  /-- the unprocessed tail is untouched -/
  tail : ∀ st xs, ((F.code st xs).1).drop (F.code st xs).2.1 = xs.drop (F.code st xs).2.1
  /-- the unprocessed tail is short (all BCJ filters: < 16 bytes; needed by the 4096-byte reader) -/
  bound : ∀ st xs, xs.length - (F.code st xs).2.1 < 16
  /-- processing a prefix first and then the rest (unprocessed tail + new data, from the state the
      first call has left) produces the same bytes as processing everything at once.  Only the
      OUTPUT is compared: nothing is demanded of the processed count or of the final state (for the
      x86 filter the final states differ in irrelevant high bits of `prevMask`). -/
  restart : ∀ st xs ys,
    (F.code st (xs ++ ys)).1 =
      ((F.code st xs).1).take (F.code st xs).2.1 ++
        (F.code (F.code st xs).2.2 (xs.drop (F.code st xs).2.1 ++ ys)).1

namespace Restartable

variable {F : BlockFilter σ}

theorem oneShot_nil (hF : Restartable F) (st : σ) : oneShot F st [] = [] := by
  have := hF.len st []
  simpa [oneShot] using this

/-- the one-shot result splits at the processed prefix -/
theorem oneShot_append (hF : Restartable F) (st : σ) (xs ys : List Nat) :
    oneShot F st (xs ++ ys) =
      ((F.code st xs).1).take (F.code st xs).2.1 ++
        oneShot F (F.code st xs).2.2 (((F.code st xs).1).drop (F.code st xs).2.1 ++ ys) := by
  unfold oneShot
  rw [hF.restart st xs ys, hF.tail]

/-- the stronger form of `restart` that also relates processed counts and final states (true of
    the fixed-stride filters, FALSE of the x86 model) implies the one that is needed -/
theorem of_strong {F : BlockFilter σ}
    (len : ∀ st xs, ((F.code st xs).1).length = xs.length)
    (le : ∀ st xs, (F.code st xs).2.1 ≤ xs.length)
    (tail : ∀ st xs, ((F.code st xs).1).drop (F.code st xs).2.1 = xs.drop (F.code st xs).2.1)
    (bound : ∀ st xs, xs.length - (F.code st xs).2.1 < 16)
    (restart : ∀ st xs ys,
      let r1 := F.code st xs
      let r2 := F.code r1.2.2 (xs.drop r1.2.1 ++ ys)
      F.code st (xs ++ ys) = (r1.1.take r1.2.1 ++ r2.1, r1.2.1 + r2.2.1, r2.2.2)) :
    Restartable F :=
  ⟨len, le, tail, bound, fun st xs ys => congrArg (fun r => r.1) (restart st xs ys)⟩

/-- re-running the filter on the tail it has left processes nothing -/
theorem code_tail (hF : Restartable F) (st : σ) (xs : List Nat) :
    oneShot F (F.code st xs).2.2 (((F.code st xs).1).drop (F.code st xs).2.1) =
      ((F.code st xs).1).drop (F.code st xs).2.1 := by
  have h := hF.restart st xs []
  rw [List.append_nil, List.append_nil, ← hF.tail] at h
  have h2 : ((F.code st xs).1).take (F.code st xs).2.1 ++ ((F.code st xs).1).drop (F.code st xs).2.1 =
      ((F.code st xs).1).take (F.code st xs).2.1 ++
        (F.code (F.code st xs).2.2 (((F.code st xs).1).drop (F.code st xs).2.1)).1 :=
    (List.take_append_drop _ _).trans h
  exact (List.append_cancel_left h2).symm

end Restartable

/-! ## Writer -/

/-- writer invariant: the carried bytes are a tail the filter has left at the current state -/
def WGood (F : BlockFilter σ) (w : WState σ) : Prop := oneShot F w.st w.carry = w.carry

theorem wWrite_eq (F : BlockFilter σ) (w : WState σ) (buf : List Nat) :
    wWrite F w buf = if buf = [] then w else
      { st := (F.code w.st (w.carry ++ buf)).2.2,
        carry := ((F.code w.st (w.carry ++ buf)).1).drop (F.code w.st (w.carry ++ buf)).2.1,
        out := w.out ++ ((F.code w.st (w.carry ++ buf)).1).take (F.code w.st (w.carry ++ buf)).2.1 } := by
  unfold wWrite
  cases buf <;> rfl

theorem wWrite_good {F : BlockFilter σ} (hF : Restartable F) (w : WState σ) (buf : List Nat)
    (hw : WGood F w) : WGood F (wWrite F w buf) := by
  rw [wWrite_eq]
  split
  · exact hw
  · exact hF.code_tail w.st (w.carry ++ buf)

theorem wFold_eq {F : BlockFilter σ} (hF : Restartable F) (parts : List (List Nat)) :
    ∀ w : WState σ, WGood F w →
      wFinish (parts.foldl (wWrite F) w) = w.out ++ oneShot F w.st (w.carry ++ parts.flatten) := by
  induction parts with
  | nil =>
    intro w hw
    simp only [List.foldl_nil, List.flatten_nil, List.append_nil, wFinish]
    rw [hw]
  | cons buf rest ih =>
    intro w hw
    rw [List.foldl_cons, ih _ (wWrite_good hF w buf hw)]
    rw [wWrite_eq]
    split
    · next h =>
      subst h
      simp
    · simp only [List.flatten_cons, List.append_assoc]
      rw [← List.append_assoc w.carry buf, hF.oneShot_append w.st (w.carry ++ buf)]

/-- **Writer**: for every partition of the input (empty parts included) the streaming writer
produces the one-shot filtering of the concatenation. -/
theorem wRun_eq_oneShot (F : BlockFilter σ) (hF : Restartable F) (st : σ) (parts : List (List Nat)) :
    wRun F st parts = oneShot F st parts.flatten := by
  unfold wRun
  rw [wFold_eq hF parts { st, carry := [], out := [] } (hF.oneShot_nil st)]
  simp

/-! ## Reader -/

/-- copy phase of one loop iteration of `rRead` -/
def cpy (s : RState σ) (len : Nat) : RState σ :=
  { s with pending := s.pending.drop (min s.filtered len), pos := s.pos + min s.filtered len,
           filtered := s.filtered - min s.filtered len }

/-- rotation of the pending data to the buffer front -/
def rot (s : RState σ) : RState σ :=
  if s.pos + s.filtered + s.unfiltered = BUF then { s with pos := 0 } else s

def room (s : RState σ) : Nat := BUF - (s.pos + s.filtered + s.unfiltered)

/-- number of bytes the inner read delivers when it is willing to give `g` -/
def nRead (s : RState σ) (g : Nat) : Nat :=
  if min (room s) s.src.length = 0 then 0 else max 1 (min g (min (room s) s.src.length))

def sEnd (s : RState σ) : RState σ :=
  { s with endReached := true, filtered := s.unfiltered, unfiltered := 0 }

def sFill (F : BlockFilter σ) (s : RState σ) (n : Nat) : RState σ :=
  { s with st := (F.code s.st (s.pending ++ s.src.take n)).2.2,
           pending := (F.code s.st (s.pending ++ s.src.take n)).1,
           src := s.src.drop n,
           filtered := (F.code s.st (s.pending ++ s.src.take n)).2.1,
           unfiltered := s.unfiltered + n - (F.code s.st (s.pending ++ s.src.take n)).2.1 }

def grantHd (s : RState σ) : List Nat → Nat
  | [] => room s
  | g :: _ => g

/-- one loop iteration of `rRead`, phase by phase -/
theorem rRead_succ (F : BlockFilter σ) (fuel : Nat) (s : RState σ) (len : Nat) (grants acc : List Nat) :
    rRead F (fuel + 1) s len grants acc =
      if len - min s.filtered len = 0 ∨ (rot (cpy s len)).endReached = true then
        (acc ++ s.pending.take (min s.filtered len), rot (cpy s len), grants)
      else if nRead (rot (cpy s len)) (grantHd (rot (cpy s len)) grants) = 0 then
        rRead F fuel (sEnd (rot (cpy s len))) (len - min s.filtered len) grants.tail
          (acc ++ s.pending.take (min s.filtered len))
      else
        rRead F fuel (sFill F (rot (cpy s len)) (nRead (rot (cpy s len)) (grantHd (rot (cpy s len)) grants)))
          (len - min s.filtered len) grants.tail (acc ++ s.pending.take (min s.filtered len)) := by
  cases grants <;> rfl

/-- what the reader still has to deliver -/
def sem (F : BlockFilter σ) (s : RState σ) : List Nat :=
  s.pending.take s.filtered ++ oneShot F s.st (s.pending.drop s.filtered ++ s.src)

/-- reader invariant -/
structure RInv (F : BlockFilter σ) (s : RState σ) : Prop where
  hlen : s.pending.length = s.filtered + s.unfiltered
  hbuf : s.pos + s.filtered + s.unfiltered ≤ BUF
  hunf : s.unfiltered < 16
  htail : oneShot F s.st (s.pending.drop s.filtered) = s.pending.drop s.filtered
  hend : s.endReached = true → s.src = [] ∧ s.unfiltered = 0

theorem rInit_inv {F : BlockFilter σ} (hF : Restartable F) (st : σ) (src : List Nat) :
    RInv F (rInit st src) :=
  ⟨rfl, by simp [rInit, BUF], by simp [rInit], by simpa [rInit] using hF.oneShot_nil st,
   by simp [rInit]⟩

theorem sem_rInit (F : BlockFilter σ) (st : σ) (src : List Nat) :
    sem F (rInit st src) = oneShot F st src := by
  simp [sem, rInit]

theorem cpy_inv {F : BlockFilter σ} {s : RState σ} (h : RInv F s) (len : Nat) : RInv F (cpy s len) := by
  obtain ⟨h1, h2, h3, h4, h5⟩ := h
  have hc : min s.filtered len ≤ s.filtered := Nat.min_le_left _ _
  refine ⟨?_, ?_, h3, ?_, h5⟩
  · simp only [cpy, List.length_drop]; omega
  · simp only [cpy]; omega
  · simp only [cpy, List.drop_drop]
    rw [show min s.filtered len + (s.filtered - min s.filtered len) = s.filtered by omega]
    exact h4

theorem cpy_sem (F : BlockFilter σ) (s : RState σ) (len : Nat) :
    s.pending.take (min s.filtered len) ++ sem F (cpy s len) = sem F s := by
  have hc : min s.filtered len ≤ s.filtered := Nat.min_le_left _ _
  simp only [sem, cpy, List.drop_drop]
  rw [show min s.filtered len + (s.filtered - min s.filtered len) = s.filtered by omega,
    ← List.append_assoc]
  congr 1
  generalize min s.filtered len = c at hc
  obtain ⟨d, hd⟩ : ∃ d, s.filtered = c + d := ⟨s.filtered - c, by omega⟩
  rw [hd, List.take_add, Nat.add_sub_cancel_left]

theorem rot_inv {F : BlockFilter σ} {s : RState σ} (h : RInv F s) : RInv F (rot s) := by
  obtain ⟨h1, h2, h3, h4, h5⟩ := h
  unfold rot
  split
  · exact ⟨h1, by simp only; omega, h3, h4, h5⟩
  · exact ⟨h1, h2, h3, h4, h5⟩

theorem rot_sem (F : BlockFilter σ) (s : RState σ) : sem F (rot s) = sem F s := by
  unfold rot; split <;> rfl

theorem rot_filtered (s : RState σ) : (rot s).filtered = s.filtered := by
  unfold rot; split <;> rfl

theorem rot_unfiltered (s : RState σ) : (rot s).unfiltered = s.unfiltered := by
  unfold rot; split <;> rfl

theorem rot_endReached (s : RState σ) : (rot s).endReached = s.endReached := by
  unfold rot; split <;> rfl

/-- after the rotation there is always room for at least one more byte -/
theorem rot_room {F : BlockFilter σ} {s : RState σ} (h : RInv F s) (hf : s.filtered = 0) :
    0 < room (rot s) := by
  obtain ⟨h1, h2, h3, h4, h5⟩ := h
  unfold rot room
  split
  · simp only [BUF] at *; omega
  · simp only [BUF] at *; omega

theorem nRead_le_room (s : RState σ) (g : Nat) : nRead s g ≤ room s := by
  unfold nRead; split <;> omega

theorem nRead_le_src (s : RState σ) (g : Nat) : nRead s g ≤ s.src.length := by
  unfold nRead; split <;> omega

theorem nRead_pos (s : RState σ) (g : Nat) (h : nRead s g ≠ 0) : 1 ≤ nRead s g := by omega

theorem nRead_zero (s : RState σ) (g : Nat) (h : nRead s g = 0) (hr : 0 < room s) : s.src = [] := by
  unfold nRead at h
  split at h
  · apply List.eq_nil_of_length_eq_zero; omega
  · omega

theorem sEnd_inv {F : BlockFilter σ} (hF : Restartable F) {s : RState σ} (h : RInv F s)
    (hf : s.filtered = 0) (hs : s.src = []) : RInv F (sEnd s) := by
  obtain ⟨h1, h2, h3, h4, h5⟩ := h
  refine ⟨by simp only [sEnd]; omega, by simp only [sEnd]; omega, by simp [sEnd], ?_, ?_⟩
  · simp only [sEnd]
    rw [List.drop_of_length_le (by omega)]
    exact hF.oneShot_nil _
  · intro _; exact ⟨hs, rfl⟩

theorem sEnd_sem {F : BlockFilter σ} (hF : Restartable F) {s : RState σ} (h : RInv F s)
    (hf : s.filtered = 0) (hs : s.src = []) : sem F (sEnd s) = sem F s := by
  obtain ⟨h1, h2, h3, h4, h5⟩ := h
  simp only [sem, sEnd, hs, hf, List.take_zero, List.drop_zero, List.nil_append, List.append_nil] at *
  rw [List.drop_of_length_le (by omega), List.take_of_length_le (by omega), hF.oneShot_nil, h4,
    List.append_nil]

theorem sFill_inv {F : BlockFilter σ} (hF : Restartable F) {s : RState σ} (h : RInv F s)
    (hf : s.filtered = 0) (he : s.endReached = false) (n : Nat) (hn : n ≤ room s)
    (hn2 : n ≤ s.src.length) : RInv F (sFill F s n) := by
  obtain ⟨h1, h2, h3, h4, h5⟩ := h
  have hl := hF.len s.st (s.pending ++ s.src.take n)
  have hle := hF.le s.st (s.pending ++ s.src.take n)
  have hb := hF.bound s.st (s.pending ++ s.src.take n)
  have hraw : (s.pending ++ s.src.take n).length = s.unfiltered + n := by
    rw [List.length_append, List.length_take]; omega
  rw [hraw] at hl hle hb
  unfold room at hn
  refine ⟨?_, ?_, ?_, ?_, ?_⟩
  · simp only [sFill]; omega
  · simp only [sFill]; omega
  · simp only [sFill]; omega
  · simp only [sFill]; exact hF.code_tail _ _
  · intro h; simp [sFill, he] at h

theorem sFill_sem {F : BlockFilter σ} (hF : Restartable F) {s : RState σ}
    (hf : s.filtered = 0) (n : Nat) : sem F (sFill F s n) = sem F s := by
  simp only [sem, sFill, hf, List.take_zero, List.drop_zero, List.nil_append]
  rw [← hF.oneShot_append, List.append_assoc, List.take_append_drop]

/-- `rRead` for any fuel (even when it runs out): delivers a prefix of what is left, keeps the invariant -/
theorem rRead_spec {F : BlockFilter σ} (hF : Restartable F) (fuel : Nat) :
    ∀ (s : RState σ) (len : Nat) (grants acc : List Nat), RInv F s →
      ∃ d, (rRead F fuel s len grants acc).1 = acc ++ d ∧
        RInv F (rRead F fuel s len grants acc).2.1 ∧
        d ++ sem F (rRead F fuel s len grants acc).2.1 = sem F s := by
  induction fuel with
  | zero => intro s len grants acc h; exact ⟨[], by simp [rRead], h, by simp [rRead]⟩
  | succ fuel ih =>
    intro s len grants acc h
    have hc := cpy_inv h len
    have hr := rot_inv hc
    have hsem : s.pending.take (min s.filtered len) ++ sem F (rot (cpy s len)) = sem F s := by
      rw [rot_sem, cpy_sem]
    rw [rRead_succ]
    split
    · exact ⟨_, rfl, hr, hsem⟩
    · next hne =>
      have hlen : ¬ (len - min s.filtered len = 0) := fun h => hne (Or.inl h)
      have hend : (rot (cpy s len)).endReached = false := by
        cases hh : (rot (cpy s len)).endReached
        · rfl
        · exact absurd (Or.inr hh) hne
      have hf0 : (cpy s len).filtered = 0 := by simp only [cpy]; omega
      have hf : (rot (cpy s len)).filtered = 0 := by rw [rot_filtered]; exact hf0
      have hroom := rot_room hc hf0
      split
      · next hz =>
        have hs := nRead_zero _ _ hz hroom
        obtain ⟨d, e1, e2, e3⟩ := ih (sEnd (rot (cpy s len))) (len - min s.filtered len) grants.tail
          (acc ++ s.pending.take (min s.filtered len)) (sEnd_inv hF hr hf hs)
        refine ⟨s.pending.take (min s.filtered len) ++ d, ?_, e2, ?_⟩
        · rw [e1, List.append_assoc]
        · rw [List.append_assoc, e3, sEnd_sem hF hr hf hs, hsem]
      · next hz =>
        obtain ⟨d, e1, e2, e3⟩ := ih (sFill F (rot (cpy s len)) (nRead (rot (cpy s len)) (grantHd (rot (cpy s len)) grants)))
          (len - min s.filtered len) grants.tail
          (acc ++ s.pending.take (min s.filtered len))
          (sFill_inv hF hr hf hend _ (nRead_le_room _ _) (nRead_le_src _ _))
        refine ⟨s.pending.take (min s.filtered len) ++ d, ?_, e2, ?_⟩
        · rw [e1, List.append_assoc]
        · rw [List.append_assoc, e3, sFill_sem hF hf, hsem]

/-- loop iterations `rRead` needs at most before it has delivered a byte (or found the end) -/
def need (s : RState σ) : Nat :=
  if s.filtered = 0 ∧ s.endReached = false then 19 - s.unfiltered else 1

/-- progress: with enough fuel a non-empty destination gets at least one byte unless nothing is left -/
theorem rRead_progress {F : BlockFilter σ} (hF : Restartable F) (fuel : Nat) :
    ∀ (s : RState σ) (len : Nat) (grants acc : List Nat), RInv F s → 0 < len → need s ≤ fuel →
      (rRead F fuel s len grants acc).1 = acc → sem F s = [] := by
  induction fuel with
  | zero =>
    intro s len grants acc h hl hn
    have := h.hunf
    unfold need at hn
    split at hn <;> omega
  | succ fuel ih =>
    intro s len grants acc h hl hn hres
    have hc := cpy_inv h len
    have hr := rot_inv hc
    have hsem : s.pending.take (min s.filtered len) ++ sem F (rot (cpy s len)) = sem F s := by
      rw [rot_sem, cpy_sem]
    by_cases hfil : s.filtered = 0
    · -- nothing to copy
      have hsem' : sem F (rot (cpy s len)) = sem F s := by
        rw [← hsem, hfil, Nat.zero_min, List.take_zero, List.nil_append]
      have hf0 : (cpy s len).filtered = 0 := by simp only [cpy]; omega
      have hf : (rot (cpy s len)).filtered = 0 := by rw [rot_filtered]; exact hf0
      have hu : (rot (cpy s len)).unfiltered = s.unfiltered := by rw [rot_unfiltered]; rfl
      have hroom := rot_room hc hf0
      have hacc : acc ++ s.pending.take (min s.filtered len) = acc := by
        rw [hfil, Nat.zero_min, List.take_zero, List.append_nil]
      rw [rRead_succ, hacc] at hres
      split at hres
      · next hcase =>
        have he : (rot (cpy s len)).endReached = true := by
          rcases hcase with h0 | h1
          · rw [hfil, Nat.zero_min] at h0; omega
          · exact h1
        obtain ⟨hs, hu0⟩ := hr.hend he
        rw [← hsem']
        have hp : (rot (cpy s len)).pending = [] := by
          apply List.eq_nil_of_length_eq_zero
          rw [hr.hlen, hf, hu0]
        simp only [sem, hp, hs, List.take_nil, List.drop_nil, List.append_nil, List.nil_append]
        exact hF.oneShot_nil _
      · next hcase =>
        have hend : (rot (cpy s len)).endReached = false := by
          cases hh : (rot (cpy s len)).endReached
          · rfl
          · exact absurd (Or.inr hh) hcase
        have hend' : s.endReached = false := by
          rw [rot_endReached] at hend; exact hend
        have hneed : 19 - s.unfiltered ≤ fuel + 1 := by
          unfold need at hn; rw [if_pos ⟨hfil, hend'⟩] at hn; exact hn
        have hunf := h.hunf
        split at hres
        · next hz =>
          have hs := nRead_zero _ _ hz hroom
          rw [← hsem', ← sEnd_sem hF hr hf hs]
          have hl' : 0 < len - min s.filtered len := by rw [hfil, Nat.zero_min]; omega
          refine ih _ _ _ _ (sEnd_inv hF hr hf hs) hl' ?_ hres
          unfold need
          rw [if_neg (by simp [sEnd])]
          omega
        · next hz =>
          rw [← hsem', ← sFill_sem hF hf (nRead (rot (cpy s len)) (grantHd (rot (cpy s len)) grants))]
          have hl' : 0 < len - min s.filtered len := by rw [hfil, Nat.zero_min]; omega
          refine ih _ _ _ _ (sFill_inv hF hr hf hend _ (nRead_le_room _ _) (nRead_le_src _ _))
            hl' ?_ hres
          unfold need
          split
          · next hh =>
            have hp0 := hh.1
            simp only [sFill] at hp0 ⊢
            rw [hp0, hu]
            omega
          · omega
    · -- at least one filtered byte is copied out
      exfalso
      have hcpos : 0 < (s.pending.take (min s.filtered len)).length := by
        rw [List.length_take, h.hlen]; omega
      -- but the delivered bytes start with the copied ones
      rw [rRead_succ] at hres
      split at hres
      · have := congrArg List.length hres
        simp only [List.length_append] at this
        omega
      · split at hres
        · obtain ⟨d', e1', _, _⟩ := rRead_spec hF fuel (sEnd (rot (cpy s len))) (len - min s.filtered len)
            grants.tail (acc ++ s.pending.take (min s.filtered len))
            (sEnd_inv hF hr (by rw [rot_filtered]; simp only [cpy]; omega) (by
              apply nRead_zero _ _ (by assumption)
              exact rot_room hc (by simp only [cpy]; omega)))
          rw [hres] at e1'
          have := congrArg List.length e1'
          simp only [List.length_append] at this
          omega
        · next hne _ =>
          have hend : (rot (cpy s len)).endReached = false := by
            cases hh : (rot (cpy s len)).endReached
            · rfl
            · exact absurd (Or.inr hh) hne
          obtain ⟨d', e1', _, _⟩ := rRead_spec hF fuel
            (sFill F (rot (cpy s len)) (nRead (rot (cpy s len)) (grantHd (rot (cpy s len)) grants)))
            (len - min s.filtered len) grants.tail (acc ++ s.pending.take (min s.filtered len))
            (sFill_inv hF hr (by rw [rot_filtered]; simp only [cpy]; omega) hend _
              (nRead_le_room _ _) (nRead_le_src _ _))
          rw [hres] at e1'
          have := congrArg List.length e1'
          simp only [List.length_append] at this
          omega

theorem rRun_zero_fuel (F : BlockFilter σ) (s : RState σ) (sizes grants acc : List Nat) :
    rRun F 0 s sizes grants acc = acc := by
  rw [rRun]

theorem rRun_nil (F : BlockFilter σ) (fuel : Nat) (s : RState σ) (grants acc : List Nat) :
    rRun F fuel s [] grants acc = acc := by
  cases fuel <;> rw [rRun]

theorem rRun_cons (F : BlockFilter σ) (fuel : Nat) (s : RState σ) (len : Nat)
    (rest grants acc : List Nat) :
    rRun F (fuel + 1) s (len :: rest) grants acc =
      if len = 0 then rRun F fuel s rest grants acc
      else if (rRead F (2 * BUF + 8) s len grants []).1.isEmpty then acc
      else rRun F fuel (rRead F (2 * BUF + 8) s len grants []).2.1 (rest ++ [len])
        (rRead F (2 * BUF + 8) s len grants []).2.2 (acc ++ (rRead F (2 * BUF + 8) s len grants []).1) := by
  rw [rRun]

/-- **Zero-length reads do not disturb the stream** (any filter): a zero size is skipped, the
reader state, the pending grants and the output so far are untouched. -/
theorem rRun_zero_cons (F : BlockFilter σ) (fuel : Nat) (s : RState σ)
    (rest grants acc : List Nat) :
    rRun F (fuel + 1) s (0 :: rest) grants acc = rRun F fuel s rest grants acc := by
  rw [rRun_cons, if_pos rfl]

theorem need_le (s : RState σ) : need s ≤ 2 * BUF + 8 := by
  unfold need BUF; split <;> omega

/-- the reader, from any state satisfying the invariant -/
theorem rRun_sem {F : BlockFilter σ} (hF : Restartable F) (fuel : Nat) :
    ∀ (s : RState σ) (sizes grants acc : List Nat), RInv F s → (∃ x ∈ sizes, x ≠ 0) →
      sizes.count 0 + (sem F s).length < fuel →
      rRun F fuel s sizes grants acc = acc ++ sem F s := by
  induction fuel with
  | zero => intro s sizes grants acc _ _ h; omega
  | succ fuel ih =>
    intro s sizes grants acc h hnz hfuel
    cases sizes with
    | nil => obtain ⟨x, hx, _⟩ := hnz; cases hx
    | cons len rest =>
      rw [rRun_cons]
      split
      · next h0 =>
        subst h0
        apply ih s rest grants acc h
        · obtain ⟨x, hx, hx0⟩ := hnz
          rcases List.mem_cons.mp hx with rfl | hx
          · exact absurd rfl hx0
          · exact ⟨x, hx, hx0⟩
        · rw [List.count_cons_self] at hfuel; omega
      · next h0 =>
        obtain ⟨d, e1, e2, e3⟩ := rRead_spec hF (2 * BUF + 8) s len grants [] h
        rw [List.nil_append] at e1
        split
        · next hemp =>
          have hd : (rRead F (2 * BUF + 8) s len grants []).1 = [] := by simpa using hemp
          rw [rRead_progress hF _ s len grants [] h (by omega) (need_le s) hd, List.append_nil]
        · next hemp =>
          rw [ih _ _ _ _ e2 ⟨len, by simp, h0⟩, e1, List.append_assoc, e3]
          have hdl : 0 < d.length := by
            rw [e1] at hemp
            cases d with
            | nil => simp at hemp
            | cons _ _ => simp
          have hc : (rest ++ [len]).count 0 = (len :: rest).count 0 := by
            rw [List.count_append, List.count_cons, List.count_cons]; simp
          have hl := congrArg List.length e3
          rw [List.length_append] at hl
          rw [hc]; omega

/-- **Reader**: for every source, every sequence of destination sizes with at least one non-zero
size, every short-read pattern `grants` of the inner reader and enough fuel (one unit per zero
size, one per delivered byte, one for the final empty read), the buffered reader delivers exactly
the one-shot filtering of the source. -/
theorem rRun_eq_oneShot (F : BlockFilter σ) (hF : Restartable F) (st : σ) (src sizes grants : List Nat)
    (fuel : Nat) (hnz : ∃ x ∈ sizes, x ≠ 0) (hfuel : sizes.count 0 + src.length < fuel) :
    rRun F fuel (rInit st src) sizes grants [] = oneShot F st src := by
  rw [rRun_sem hF fuel _ _ _ _ (rInit_inv hF st src) hnz, sem_rInit, List.nil_append]
  rw [sem_rInit]
  unfold oneShot
  rw [hF.len]
  exact hfuel

/-- the fuel the model's caller (`BcjStream.readAll`) passes is enough -/
theorem rRun_eq_oneShot_default (F : BlockFilter σ) (hF : Restartable F) (st : σ)
    (src sizes grants : List Nat) (hnz : ∃ x ∈ sizes, x ≠ 0) :
    rRun F (src.length + sizes.length + 16) (rInit st src) sizes grants [] = oneShot F st src := by
  apply rRun_eq_oneShot F hF st src sizes grants _ hnz
  have := List.count_le_length (a := 0) (l := sizes)
  omega

/-- without a non-zero size nothing is ever read -/
theorem rRun_all_zero (F : BlockFilter σ) (fuel : Nat) :
    ∀ (s : RState σ) (sizes grants acc : List Nat), (∀ x ∈ sizes, x = 0) →
      rRun F fuel s sizes grants acc = acc := by
  induction fuel with
  | zero => intro s sizes grants acc _; exact rRun_zero_fuel F s sizes grants acc
  | succ fuel ih =>
    intro s sizes grants acc h
    cases sizes with
    | nil => exact rRun_nil F _ s grants acc
    | cons len rest =>
      have : len = 0 := h len (by simp)
      subst this
      rw [rRun_zero_cons]
      exact ih s rest grants acc (fun x hx => h x (List.mem_cons_of_mem _ hx))

/-- **Zero-length reads do not disturb the stream** (end to end): inserting zero sizes anywhere
into the destination-size sequence does not change what the reader delivers. -/
theorem rRun_insert_zeros (F : BlockFilter σ) (hF : Restartable F) (st : σ)
    (src sizes sizes' grants grants' : List Nat) (fuel fuel' : Nat)
    (hsame : sizes'.filter (· ≠ 0) = sizes.filter (· ≠ 0))
    (hnz : ∃ x ∈ sizes, x ≠ 0)
    (hfuel : sizes.count 0 + src.length < fuel) (hfuel' : sizes'.count 0 + src.length < fuel') :
    rRun F fuel' (rInit st src) sizes' grants' [] = rRun F fuel (rInit st src) sizes grants [] := by
  have hnz' : ∃ x ∈ sizes', x ≠ 0 := by
    obtain ⟨x, hx, hx0⟩ := hnz
    have : x ∈ sizes.filter (· ≠ 0) := List.mem_filter.mpr ⟨hx, by simpa using hx0⟩
    rw [← hsame] at this
    exact ⟨x, (List.mem_filter.mp this).1, hx0⟩
  rw [rRun_eq_oneShot F hF st src sizes grants fuel hnz hfuel,
    rRun_eq_oneShot F hF st src sizes' grants' fuel' hnz' hfuel']

/-! ## A concrete restartable filter: fixed-stride group filters

`strideF k g` transforms every complete aligned `k`-byte group with a position-dependent,
length-preserving function `g pos group`; the state is the stream position.  (The ARM, PowerPC,
SPARC, ARM64 and IA-64 BCJ filters have this shape.) -/

def strideMap (k : Nat) (g : Nat → List Nat → List Nat) : Nat → Nat → List Nat → List Nat
  | 0, _, xs => xs
  | n+1, pos, xs => g pos (xs.take k) ++ strideMap k g n (pos + k) (xs.drop k)

def strideF (k : Nat) (g : Nat → List Nat → List Nat) : BlockFilter Nat :=
  { code := fun pos xs =>
      (strideMap k g (xs.length / k) pos xs, xs.length / k * k, pos + xs.length / k * k) }

section stride
variable {k : Nat} {g : Nat → List Nat → List Nat}

theorem strideMap_length (hg : ∀ pos grp, grp.length = k → (g pos grp).length = k) (n : Nat) :
    ∀ (pos : Nat) (xs : List Nat), n * k ≤ xs.length → (strideMap k g n pos xs).length = xs.length := by
  induction n with
  | zero => intro pos xs _; rfl
  | succ n ih =>
    intro pos xs h
    have hsm : (n + 1) * k = n * k + k := Nat.succ_mul n k
    have hk : (xs.take k).length = k := by rw [List.length_take]; omega
    rw [strideMap, List.length_append, hg _ _ hk, ih _ _ (by rw [List.length_drop]; omega),
      List.length_drop]
    omega

theorem strideMap_append_right (n : Nat) :
    ∀ (pos : Nat) (xs ys : List Nat), n * k ≤ xs.length →
      strideMap k g n pos (xs ++ ys) = strideMap k g n pos xs ++ ys := by
  induction n with
  | zero => intro pos xs ys _; rfl
  | succ n ih =>
    intro pos xs ys h
    have hsm : (n + 1) * k = n * k + k := Nat.succ_mul n k
    have hk : k ≤ xs.length := by omega
    rw [strideMap, strideMap, List.take_append_of_le_length hk, List.drop_append_of_le_length hk,
      ih _ _ _ (by rw [List.length_drop]; omega), List.append_assoc]

theorem strideMap_add (m n : Nat) :
    ∀ (pos : Nat) (as bs : List Nat), as.length = m * k →
      strideMap k g (m + n) pos (as ++ bs) =
        strideMap k g m pos as ++ strideMap k g n (pos + m * k) bs := by
  induction m with
  | zero =>
    intro pos as bs h
    have : as = [] := List.eq_nil_of_length_eq_zero (by omega)
    subst this
    simp [strideMap]
  | succ m ih =>
    intro pos as bs h
    have hsm : (m + 1) * k = m * k + k := Nat.succ_mul m k
    have hk : k ≤ as.length := by omega
    rw [show m + 1 + n = (m + n) + 1 by omega, strideMap, strideMap,
      List.take_append_of_le_length hk, List.drop_append_of_le_length hk,
      ih _ _ _ (by rw [List.length_drop]; omega), List.append_assoc,
      show pos + k + m * k = pos + (m + 1) * k by omega]

theorem strideMap_drop (hg : ∀ pos grp, grp.length = k → (g pos grp).length = k) (n : Nat)
    (pos : Nat) (xs : List Nat) (h : n * k ≤ xs.length) :
    (strideMap k g n pos xs).drop (n * k) = xs.drop (n * k) := by
  have hl : (xs.take (n * k)).length = n * k := by
    rw [List.length_take]; exact Nat.min_eq_left h
  have hA : (strideMap k g n pos (xs.take (n * k))).length = n * k := by
    rw [strideMap_length hg _ _ _ (by omega), hl]
  have h1 := strideMap_append_right (k := k) (g := g) n pos (xs.take (n * k)) (xs.drop (n * k)) (by omega)
  rw [List.take_append_drop] at h1
  rw [h1, List.drop_append_of_le_length (by omega), List.drop_eq_nil_of_le (by omega), List.nil_append]

/-- **Non-vacuity**: every fixed-stride group filter with stride `1 ≤ k ≤ 16` is restartable
(in the strong sense: processed counts and final states agree as well). -/
theorem strideF_restartable (hk0 : 0 < k) (hk16 : k ≤ 16)
    (hg : ∀ pos grp, grp.length = k → (g pos grp).length = k) : Restartable (strideF k g) := by
  have hdm : ∀ n : Nat, n / k * k ≤ n := fun n => Nat.div_mul_le_self n k
  apply Restartable.of_strong
  · intro st xs
    exact strideMap_length hg _ _ _ (hdm _)
  · intro st xs
    exact hdm _
  · intro st xs
    exact strideMap_drop hg _ _ _ (hdm _)
  · intro st xs
    show xs.length - xs.length / k * k < 16
    have := Nat.mod_lt xs.length hk0
    have := Nat.div_add_mod' xs.length k
    omega
  · intro st xs ys
    show (strideMap k g ((xs ++ ys).length / k) st (xs ++ ys), (xs ++ ys).length / k * k,
        st + (xs ++ ys).length / k * k) = _
    simp only [strideF]
    generalize hm : xs.length / k = m
    have hmk : m * k ≤ xs.length := by rw [← hm]; exact hdm _
    have hr : xs.length - m * k < k := by
      have := Nat.mod_lt xs.length hk0
      have := Nat.div_add_mod' xs.length k
      rw [hm] at this; omega
    generalize hn : (xs.drop (m * k) ++ ys).length / k = n
    have hN : (xs ++ ys).length / k = m + n := by
      rw [← hn, List.length_append, List.length_append, List.length_drop,
        show xs.length + ys.length = (xs.length - m * k + ys.length) + m * k by omega,
        Nat.add_mul_div_right _ _ hk0, Nat.add_comm]
    have hl : (xs.take (m * k)).length = m * k := by
      rw [List.length_take]; exact Nat.min_eq_left hmk
    have hA : (strideMap k g m st (xs.take (m * k))).length = m * k := by
      rw [strideMap_length hg _ _ _ (by omega), hl]
    have h1 : strideMap k g (m + n) st (xs ++ ys) =
        strideMap k g m st (xs.take (m * k)) ++ strideMap k g n (st + m * k) (xs.drop (m * k) ++ ys) := by
      conv => lhs; rw [← List.take_append_drop (m * k) xs, List.append_assoc]
      exact strideMap_add m n st _ _ hl
    have h2 : (strideMap k g m st xs).take (m * k) = strideMap k g m st (xs.take (m * k)) := by
      conv => lhs; rw [← List.take_append_drop (m * k) xs]
      rw [strideMap_append_right _ _ _ _ (by omega), List.take_append_of_le_length (by omega),
        List.take_of_length_le (by omega)]
    rw [hN, h1, h2, Nat.add_mul, Nat.add_assoc]

end stride

/-- transfer along a state projection: a filter that behaves like a restartable one on the
    projected states is restartable -/
theorem Restartable.of_sim {σ' : Type} {F : BlockFilter σ} {F' : BlockFilter σ'} (f : σ' → σ)
    (h1 : ∀ st xs, (F'.code st xs).1 = (F.code (f st) xs).1)
    (h2 : ∀ st xs, (F'.code st xs).2.1 = (F.code (f st) xs).2.1)
    (h3 : ∀ st xs, f (F'.code st xs).2.2 = (F.code (f st) xs).2.2)
    (hF : Restartable F) : Restartable F' := by
  refine ⟨?_, ?_, ?_, ?_, ?_⟩
  · intro st xs; rw [h1]; exact hF.len _ _
  · intro st xs; rw [h2]; exact hF.le _ _
  · intro st xs; rw [h1, h2]; exact hF.tail _ _
  · intro st xs; rw [h2]; exact hF.bound _ _
  · intro st xs ys; rw [h1, h1, h1, h2, h3]; exact hF.restart _ _ _

end LzmaVerif.Stream

/-! ## The real ARM BCJ filter is restartable -/
namespace LzmaVerif.BcjStream
open LzmaVerif.Stream LzmaVerif.Filters

/-- generic fixed-stride loop over the byte array (shape of `armLoop`, `ppcLoop`, …) -/
def strideLoop (k : Nat) (step : Nat → Buf → Buf) : Nat → Nat → Buf → Buf × Nat
  | 0, i, b => (b, i)
  | fuel+1, i, b => if i + k > b.size then (b, i) else strideLoop k step fuel (i + k) (step i b)

/-- if one step rewrites exactly the group at `i` by `g` (frame + position shift), the array loop
    computes `strideMap` -/
theorem strideLoop_spec {k : Nat} (hk : 0 < k) (step : Nat → Buf → Buf)
    (g : Nat → List Nat → List Nat) (pos0 : Nat)
    (hg : ∀ pos grp, grp.length = k → (g pos grp).length = k)
    (hstep : ∀ pre grp post : List Nat, grp.length = k →
      step pre.length (pre ++ grp ++ post).toArray = (pre ++ g (pos0 + pre.length) grp ++ post).toArray)
    (fuel : Nat) :
    ∀ pre rest : List Nat, rest.length / k < fuel →
      strideLoop k step fuel pre.length (pre ++ rest).toArray =
        ((pre ++ strideMap k g (rest.length / k) (pos0 + pre.length) rest).toArray,
          pre.length + rest.length / k * k) := by
  induction fuel with
  | zero => intro pre rest h; exact absurd h (Nat.not_lt_zero _)
  | succ fuel ih =>
    intro pre rest h
    rw [strideLoop]
    by_cases hlt : rest.length < k
    · rw [if_pos (by simp; omega), Nat.div_eq_of_lt hlt]
      simp [strideMap]
    · have hle : k ≤ rest.length := by omega
      have hdiv : rest.length / k = (rest.length - k) / k + 1 := Nat.div_eq_sub_div hk hle
      have htk : (rest.take k).length = k := by rw [List.length_take]; omega
      rw [if_neg (by simp; omega)]
      have hs := hstep pre (rest.take k) (rest.drop k) htk
      rw [List.append_assoc, List.take_append_drop] at hs
      rw [hs]
      have hpl : (pre ++ g (pos0 + pre.length) (rest.take k)).length = pre.length + k := by
        rw [List.length_append, hg _ _ htk]
      rw [← hpl, ih _ _ (by rw [List.length_drop]; omega), hdiv, strideMap, hpl, List.length_drop]
      simp only [List.append_assoc, Nat.add_assoc, Nat.add_mul, Nat.one_mul]
      rw [Nat.add_comm k]

def armStep (enc : Bool) (st : St) (i : Nat) (b : Buf) : Buf :=
  if gb b (i + 3) = 0xEB then
    let x := gb b i + 256 * gb b (i + 1) + 65536 * gb b (i + 2)
    let src := u32 (x * 4)
    let p := posAt st i
    let dest := (if enc then wadd src p else wsub src p) / 4
    sb (sb (sb b i dest) (i + 1) (dest / 256)) (i + 2) (dest / 65536)
  else b

theorem armLoop_eq (enc : Bool) (st : St) (fuel : Nat) :
    ∀ (i : Nat) (b : Buf), armLoop enc st fuel i b = strideLoop 4 (armStep enc st) fuel i b := by
  induction fuel with
  | zero => intro i b; rfl
  | succ fuel ih =>
    intro i b
    rw [armLoop, strideLoop]
    split
    · rfl
    · unfold armStep
      split
      · exact ih _ _
      · exact ih _ _

/-- what the ARM filter does to one 4-byte group at stream position `pos` -/
def armG (enc : Bool) (pos : Nat) : List Nat → List Nat
  | [a, b, c, d] =>
    if d = 0xEB then
      let src := u32 ((a + 256 * b + 65536 * c) * 4)
      let dest := (if enc then wadd src (u32 pos) else wsub src (u32 pos)) / 4
      [dest % 256, dest / 256 % 256, dest / 65536 % 256, d]
    else [a, b, c, d]
  | l => l

theorem armG_four (enc : Bool) (pos a b c d : Nat) :
    armG enc pos [a, b, c, d] =
      if d = 0xEB then
        [(if enc then wadd (u32 ((a + 256 * b + 65536 * c) * 4)) (u32 pos)
            else wsub (u32 ((a + 256 * b + 65536 * c) * 4)) (u32 pos)) / 4 % 256,
         (if enc then wadd (u32 ((a + 256 * b + 65536 * c) * 4)) (u32 pos)
            else wsub (u32 ((a + 256 * b + 65536 * c) * 4)) (u32 pos)) / 4 / 256 % 256,
         (if enc then wadd (u32 ((a + 256 * b + 65536 * c) * 4)) (u32 pos)
            else wsub (u32 ((a + 256 * b + 65536 * c) * 4)) (u32 pos)) / 4 / 65536 % 256, d]
      else [a, b, c, d] := rfl

theorem armG_length (enc : Bool) (pos : Nat) (grp : List Nat) (h : grp.length = 4) :
    (armG enc pos grp).length = 4 := by
  match grp, h with
  | [a, b, c, d], _ =>
    rw [armG_four]
    split <;> rfl

theorem armStep_local (enc : Bool) (st : St) (pre grp post : List Nat) (h : grp.length = 4) :
    armStep enc st pre.length (pre ++ grp ++ post).toArray =
      (pre ++ armG enc (st.pos + pre.length) grp ++ post).toArray := by
  match grp, h with
  | [a, b, c, d], _ =>
    unfold armStep
    have h3 : gb (pre ++ [a, b, c, d] ++ post).toArray (pre.length + 3) = d := by simp [gb]
    have h0 : gb (pre ++ [a, b, c, d] ++ post).toArray pre.length = a := by simp [gb]
    have h1 : gb (pre ++ [a, b, c, d] ++ post).toArray (pre.length + 1) = b := by simp [gb]
    have h2 : gb (pre ++ [a, b, c, d] ++ post).toArray (pre.length + 2) = c := by simp [gb]
    rw [h3, h0, h1, h2, armG_four]
    by_cases hd : d = 0xEB
    · rw [if_pos hd, if_pos hd]
      simp [sb, posAt]
    · rw [if_neg hd, if_neg hd]

/-- the ARM block filter, in closed form -/
theorem arm_code (enc : Bool) (st : St) (xs : List Nat) :
    (blockFilter .arm enc).code st xs =
      (strideMap 4 (armG enc) (xs.length / 4) st.pos xs, xs.length / 4 * 4,
        { st with pos := st.pos + xs.length / 4 * 4 }) := by
  have h := strideLoop_spec (k := 4) (by omega) (armStep enc st) (armG enc) st.pos
    (armG_length enc) (armStep_local enc st) (xs.length + 1) [] xs (by omega)
  simp only [List.nil_append, List.length_nil, Nat.zero_add, Nat.add_zero] at h
  simp only [blockFilter, Filters.code, List.size_toArray, armLoop_eq, h]

/-- **The real ARM BCJ filter (encoder and decoder) is restartable.** -/
theorem arm_restartable (enc : Bool) : Restartable (blockFilter .arm enc) := by
  apply Restartable.of_sim (F := strideF 4 (armG enc)) (fun st : St => st.pos)
  · intro st xs; rw [arm_code]; rfl
  · intro st xs; rw [arm_code]; rfl
  · intro st xs; rw [arm_code]; rfl
  · exact strideF_restartable (by omega) (by omega) (armG_length enc)

/-! ### The other fixed-stride filters (PowerPC, SPARC, ARM64), uniformly -/

/-- group function derived from a step function of the array loop -/
def stepG (step : St → Nat → Buf → Buf) (pos : Nat) (grp : List Nat) : List Nat :=
  (step { pos := pos, prevMask := 0 } 0 grp.toArray).toList

/-- a BCJ filter whose `code` is a fixed-stride loop with a local, size-preserving step is restartable -/
theorem stride_restartable (a : Arch) (enc : Bool) {k : Nat} (hk0 : 0 < k) (hk16 : k ≤ 16)
    (step : St → Nat → Buf → Buf)
    (hcode : ∀ st b, Filters.code a enc st b =
      ((strideLoop k (step st) (b.size + 1) 0 b).1, (strideLoop k (step st) (b.size + 1) 0 b).2,
        { st with pos := st.pos + (strideLoop k (step st) (b.size + 1) 0 b).2 }))
    (hlen : ∀ pos grp, grp.length = k → (stepG step pos grp).length = k)
    (hlocal : ∀ st (pre grp post : List Nat), grp.length = k →
      step st pre.length (pre ++ grp ++ post).toArray =
        (pre ++ stepG step (st.pos + pre.length) grp ++ post).toArray) :
    Restartable (blockFilter a enc) := by
  have hc : ∀ st xs, (blockFilter a enc).code st xs =
      (strideMap k (stepG step) (xs.length / k) st.pos xs, xs.length / k * k,
        { st with pos := st.pos + xs.length / k * k }) := by
    intro st xs
    have h := strideLoop_spec hk0 (step st) (stepG step) st.pos hlen (hlocal st) (xs.length + 1) [] xs
      (Nat.lt_succ_of_le (Nat.div_le_self _ _))
    simp only [List.nil_append, List.length_nil, Nat.zero_add, Nat.add_zero] at h
    simp only [blockFilter, hcode, List.size_toArray, h]
  apply Restartable.of_sim (F := strideF k (stepG step)) (fun st : St => st.pos)
  · intro st xs; rw [hc]; rfl
  · intro st xs; rw [hc]; rfl
  · intro st xs; rw [hc]; rfl
  · exact strideF_restartable hk0 hk16 hlen

def ppcStep (enc : Bool) (st : St) (i : Nat) (b : Buf) : Buf :=
  let b0 := gb b i; let b3 := gb b (i + 3)
  if b0 &&& 0xFC = 0x48 ∧ b3 &&& 3 = 1 then
    let b1 := gb b (i + 1); let b2 := gb b (i + 2)
    let src := ((b0 &&& 3) <<< 24) ||| (b1 <<< 16) ||| (b2 <<< 8) ||| (b3 &&& 0xFC)
    let p := posAt st i
    let dest := if enc then wadd src p else wsub src p
    let b := sb b i (0x48 ||| ((dest >>> 24) &&& 3))
    let b := sb b (i + 1) (dest >>> 16)
    let b := sb b (i + 2) (dest >>> 8)
    let b := sb b (i + 3) ((b3 &&& 3) ||| (dest % 256))
    b
  else b

theorem ppcLoop_eq (enc : Bool) (st : St) (fuel : Nat) :
    ∀ (i : Nat) (b : Buf), ppcLoop enc st fuel i b = strideLoop 4 (ppcStep enc st) fuel i b := by
  induction fuel with
  | zero => intro i b; rfl
  | succ fuel ih =>
    intro i b
    rw [ppcLoop, strideLoop]
    split
    · rfl
    · unfold ppcStep
      simp only []
      split
      · exact ih _ _
      · exact ih _ _

section four
variable (pre post : List Nat) (a b c d : Nat)
theorem gb4_0 : gb (pre ++ [a, b, c, d] ++ post).toArray pre.length = a := by simp [gb]
theorem gb4_1 : gb (pre ++ [a, b, c, d] ++ post).toArray (pre.length + 1) = b := by simp [gb]
theorem gb4_2 : gb (pre ++ [a, b, c, d] ++ post).toArray (pre.length + 2) = c := by simp [gb]
theorem gb4_3 : gb (pre ++ [a, b, c, d] ++ post).toArray (pre.length + 3) = d := by simp [gb]
theorem gb4'_0 : gb [a, b, c, d].toArray 0 = a := by simp [gb]
theorem gb4'_1 : gb [a, b, c, d].toArray (0 + 1) = b := by simp [gb]
theorem gb4'_2 : gb [a, b, c, d].toArray (0 + 2) = c := by simp [gb]
theorem gb4'_3 : gb [a, b, c, d].toArray (0 + 3) = d := by simp [gb]
end four

theorem ppcStep_local (enc : Bool) (st : St) (pre grp post : List Nat) (h : grp.length = 4) :
    ppcStep enc st pre.length (pre ++ grp ++ post).toArray =
      (pre ++ stepG (ppcStep enc) (st.pos + pre.length) grp ++ post).toArray := by
  match grp, h with
  | [a, b, c, d], _ =>
    unfold stepG ppcStep
    simp only [gb4_0, gb4_1, gb4_2, gb4_3, gb4'_0, gb4'_1, gb4'_2, gb4'_3]
    split
    · simp [sb, posAt]
    · simp

theorem ppcStep_len (enc : Bool) (pos : Nat) (grp : List Nat) (h : grp.length = 4) :
    (stepG (ppcStep enc) pos grp).length = 4 := by
  unfold stepG ppcStep
  simp only []
  split <;> simp [sb, h]

/-- **The real PowerPC BCJ filter is restartable.** -/
theorem ppc_restartable (enc : Bool) : Restartable (blockFilter .ppc enc) :=
  stride_restartable .ppc enc (by omega) (by omega) (ppcStep enc)
    (fun st b => by simp only [Filters.code, ppcLoop_eq]) (ppcStep_len enc) (ppcStep_local enc)

def sparcStep (enc : Bool) (st : St) (i : Nat) (b : Buf) : Buf :=
  let b0 := gb b i; let b1 := gb b (i + 1)
  if (b0 = 0x40 ∧ b1 &&& 0xC0 = 0) ∨ (b0 = 0x7F ∧ b1 &&& 0xC0 = 0xC0) then
    let b2 := gb b (i + 2); let b3 := gb b (i + 3)
    let src := (b0 <<< 24) ||| (b1 <<< 16) ||| (b2 <<< 8) ||| b3
    let src := u32 (src * 4)
    let p := posAt st i
    let dest := (if enc then wadd src p else wsub src p) / 4
    let sign := (dest >>> 22) &&& 1
    let dest := ((if sign = 1 then 0x3FC00000 else 0) ||| (dest &&& 0x3FFFFF)) ||| 0x40000000
    let b := sb b i (dest >>> 24)
    let b := sb b (i + 1) (dest >>> 16)
    let b := sb b (i + 2) (dest >>> 8)
    let b := sb b (i + 3) dest
    b
  else b

theorem sparcLoop_eq (enc : Bool) (st : St) (fuel : Nat) :
    ∀ (i : Nat) (b : Buf), sparcLoop enc st fuel i b = strideLoop 4 (sparcStep enc st) fuel i b := by
  induction fuel with
  | zero => intro i b; rfl
  | succ fuel ih =>
    intro i b
    rw [sparcLoop, strideLoop]
    split
    · rfl
    · unfold sparcStep
      simp only []
      split
      · exact ih _ _
      · exact ih _ _

theorem sparcStep_local (enc : Bool) (st : St) (pre grp post : List Nat) (h : grp.length = 4) :
    sparcStep enc st pre.length (pre ++ grp ++ post).toArray =
      (pre ++ stepG (sparcStep enc) (st.pos + pre.length) grp ++ post).toArray := by
  match grp, h with
  | [a, b, c, d], _ =>
    unfold stepG sparcStep
    simp only [gb4_0, gb4_1, gb4_2, gb4_3, gb4'_0, gb4'_1, gb4'_2, gb4'_3]
    split
    · simp [sb, posAt]
    · simp

theorem sparcStep_len (enc : Bool) (pos : Nat) (grp : List Nat) (h : grp.length = 4) :
    (stepG (sparcStep enc) pos grp).length = 4 := by
  unfold stepG sparcStep
  simp only []
  split <;> simp [sb, h]

/-- **The real SPARC BCJ filter is restartable.** -/
theorem sparc_restartable (enc : Bool) : Restartable (blockFilter .sparc enc) :=
  stride_restartable .sparc enc (by omega) (by omega) (sparcStep enc)
    (fun st b => by simp only [Filters.code, sparcLoop_eq]) (sparcStep_len enc) (sparcStep_local enc)

def arm64Step (enc : Bool) (st : St) (i : Nat) (b : Buf) : Buf :=
  let src := gb b i + 256 * gb b (i + 1) + 65536 * gb b (i + 2) + 16777216 * gb b (i + 3)
  let p := posAt st i
  let b :=
    if (src >>> 26) &&& 0x3F = 0x25 then
      let destAdr := if enc then wadd src (p >>> 2) else wsub src (p >>> 2)
      let dest := (destAdr &&& 0x03FFFFFF) ||| 0x94000000
      sb (sb (sb (sb b (i + 3) (dest >>> 24)) (i + 2) (dest >>> 16)) (i + 1) (dest >>> 8)) i dest
    else b
  let b :=
    if (src >>> 24) &&& 0x9F = 0x90 then
      let addr := ((src >>> 29) &&& 3) ||| ((src >>> 3) &&& 0x001FFFFC)
      if (wadd addr 0x00020000) &&& 0x001C0000 = 0 then
        let dest := 0x90000000 ||| (src &&& 0x1F)
        let addr := if enc then wadd addr (p >>> 12) else wsub addr (p >>> 12)
        let dest := dest ||| ((addr &&& 3) <<< 29)
        let dest := dest ||| ((addr &&& 0x0003FFFC) <<< 3)
        let dest := dest ||| (if addr &&& 0x00020000 ≠ 0 then 0x00E00000 else 0)
        sb (sb (sb (sb b (i + 3) (dest >>> 24)) (i + 2) (dest >>> 16)) (i + 1) (dest >>> 8)) i dest
      else b
    else b
  b

theorem arm64Loop_eq (enc : Bool) (st : St) (fuel : Nat) :
    ∀ (i : Nat) (b : Buf), arm64Loop enc st fuel i b = strideLoop 4 (arm64Step enc st) fuel i b := by
  induction fuel with
  | zero => intro i b; rfl
  | succ fuel ih =>
    intro i b
    rw [arm64Loop, strideLoop]
    split
    · rfl
    · unfold arm64Step
      exact ih _ _

theorem arm64Step_local (enc : Bool) (st : St) (pre grp post : List Nat) (h : grp.length = 4) :
    arm64Step enc st pre.length (pre ++ grp ++ post).toArray =
      (pre ++ stepG (arm64Step enc) (st.pos + pre.length) grp ++ post).toArray := by
  match grp, h with
  | [a, b, c, d], _ =>
    unfold stepG arm64Step
    have hp : posAt { pos := st.pos + pre.length, prevMask := 0 } 0 = posAt st pre.length := by
      simp [posAt]
    simp only [gb4_0, gb4_1, gb4_2, gb4_3, gb4'_0, gb4'_1, gb4'_2, gb4'_3, hp]
    generalize a + 256 * b + 65536 * c + 16777216 * d = src
    generalize posAt st pre.length = p
    split <;> split <;> (try split) <;> simp [sb]

theorem arm64Step_len (enc : Bool) (pos : Nat) (grp : List Nat) (h : grp.length = 4) :
    (stepG (arm64Step enc) pos grp).length = 4 := by
  unfold stepG arm64Step
  simp only []
  split <;> split <;> (try split) <;> simp [sb, h]

/-- **The real ARM64 BCJ filter is restartable.** -/
theorem arm64_restartable (enc : Bool) : Restartable (blockFilter .arm64 enc) :=
  stride_restartable .arm64 enc (by omega) (by omega) (arm64Step enc)
    (fun st b => by simp only [Filters.code, arm64Loop_eq]) (arm64Step_len enc) (arm64Step_local enc)

/-! ### IA-64 (stride 16) -/

theorem gb_local (pre grp post : List Nat) (j : Nat) (hj : j < grp.length) :
    gb (pre ++ grp ++ post).toArray (pre.length + j) = gb grp.toArray j := by
  simp only [gb, Array.getD_eq_getD_getElem?, List.getElem?_toArray, List.append_assoc]
  rw [List.getElem?_append_right (by omega), Nat.add_sub_cancel_left, List.getElem?_append_left hj]

theorem sb_local (pre post : List Nat) (G : Buf) (j v : Nat) (hj : j < G.size) :
    sb (pre ++ G.toList ++ post).toArray (pre.length + j) v =
      (pre ++ (sb G j v).toList ++ post).toArray := by
  simp only [sb, List.setIfInBounds_toArray, List.append_assoc, Array.toList_setIfInBounds]
  rw [List.set_append_right _ _ (by omega), Nat.add_sub_cancel_left, List.set_append_left _ _ (by simpa using hj)]

theorem sb_size (G : Buf) (j v : Nat) : (sb G j v).size = G.size := by simp [sb]

theorem get6_local (pre grp post : List Nat) (o : Nat) (ho : o + 5 < grp.length) :
    get6 (pre ++ grp ++ post).toArray (pre.length + o) = get6 grp.toArray o := by
  unfold get6
  simp only [Nat.add_assoc]
  rw [gb_local _ _ _ _ (by omega), gb_local _ _ _ _ (by omega), gb_local _ _ _ _ (by omega),
    gb_local _ _ _ _ (by omega), gb_local _ _ _ _ (by omega), gb_local _ _ _ _ (by omega)]

theorem set6_size (G : Buf) (o v : Nat) : (set6 G o v).size = G.size := by simp [set6, sb]

theorem set6_local (pre post : List Nat) (G : Buf) (o v : Nat) (ho : o + 5 < G.size) :
    set6 (pre ++ G.toList ++ post).toArray (pre.length + o) v =
      (pre ++ (set6 G o v).toList ++ post).toArray := by
  unfold set6
  simp only [Nat.add_assoc]
  rw [sb_local _ _ _ _ _ (by omega), sb_local _ _ _ _ _ (by rw [sb_size]; omega),
    sb_local _ _ _ _ _ (by simp only [sb_size]; omega), sb_local _ _ _ _ _ (by simp only [sb_size]; omega),
    sb_local _ _ _ _ _ (by simp only [sb_size]; omega), sb_local _ _ _ _ _ (by simp only [sb_size]; omega)]

theorem ia64Slot_size (enc : Bool) (st : St) (i slot : Nat) (G : Buf) :
    (ia64Slot enc st i slot G).size = G.size := by
  unfold ia64Slot
  simp only []
  split
  · rfl
  · rw [set6_size]

theorem ia64Slot_local (enc : Bool) (st : St) (slot : Nat) (hs : slot ≤ 2) (pre post : List Nat) (G : Buf)
    (hG : G.size = 16) :
    ia64Slot enc st pre.length slot (pre ++ G.toList ++ post).toArray =
      (pre ++ (ia64Slot enc { pos := st.pos + pre.length, prevMask := 0 } 0 slot G).toList ++ post).toArray := by
  have hp : posAt { pos := st.pos + pre.length, prevMask := 0 } 0 = posAt st pre.length := by
    simp [posAt]
  have hb : (5 + slot * 41) / 8 + 5 < G.size := by omega
  unfold ia64Slot
  simp only [hp, Nat.zero_add]
  rw [get6_local _ _ _ _ (by simpa using hb)]
  simp only [Array.toArray_toList]
  split
  · rfl
  · rw [set6_local _ _ _ _ _ hb]

def ia64Step (enc : Bool) (st : St) (i : Nat) (b : Buf) : Buf :=
  let mask := ia64Table.getD (gb b i &&& 0x1F) 0
  let b := if mask &&& 1 ≠ 0 then ia64Slot enc st i 0 b else b
  let b := if mask &&& 2 ≠ 0 then ia64Slot enc st i 1 b else b
  let b := if mask &&& 4 ≠ 0 then ia64Slot enc st i 2 b else b
  b

theorem ia64Loop_eq (enc : Bool) (st : St) (fuel : Nat) :
    ∀ (i : Nat) (b : Buf), ia64Loop enc st fuel i b = strideLoop 16 (ia64Step enc st) fuel i b := by
  induction fuel with
  | zero => intro i b; rfl
  | succ fuel ih =>
    intro i b
    rw [ia64Loop, strideLoop]
    split
    · rfl
    · unfold ia64Step
      exact ih _ _

/-- conditional slot update, locally -/
theorem ia64Cond_local (enc : Bool) (st : St) (c : Prop) [Decidable c] (slot : Nat) (hs : slot ≤ 2)
    (pre post : List Nat) (G : Buf) (hG : G.size = 16) :
    (if c then ia64Slot enc st pre.length slot (pre ++ G.toList ++ post).toArray
      else (pre ++ G.toList ++ post).toArray) =
      (pre ++ (if c then ia64Slot enc { pos := st.pos + pre.length, prevMask := 0 } 0 slot G else G).toList
        ++ post).toArray := by
  split
  · exact ia64Slot_local enc st slot hs pre post G hG
  · rfl

theorem ia64Cond_size (enc : Bool) (st : St) (c : Prop) [Decidable c] (i slot : Nat) (G : Buf) :
    (if c then ia64Slot enc st i slot G else G).size = G.size := by
  split
  · exact ia64Slot_size _ _ _ _ _
  · rfl

theorem ia64Step_local (enc : Bool) (st : St) (pre grp post : List Nat) (h : grp.length = 16) :
    ia64Step enc st pre.length (pre ++ grp ++ post).toArray =
      (pre ++ stepG (ia64Step enc) (st.pos + pre.length) grp ++ post).toArray := by
  unfold stepG ia64Step
  have h0 : gb (pre ++ grp ++ post).toArray pre.length = gb grp.toArray 0 := by
    have := gb_local pre grp post 0 (by omega)
    rwa [Nat.add_zero] at this
  have hG : grp.toArray.size = 16 := by simpa using h
  simp only [h0]
  have e : grp = grp.toArray.toList := rfl
  generalize grp.toArray = G at *
  subst e
  rw [ia64Cond_local enc st _ 0 (by omega) pre post G hG,
    ia64Cond_local enc st _ 1 (by omega) pre post _ (by rw [ia64Cond_size]; exact hG),
    ia64Cond_local enc st _ 2 (by omega) pre post _ (by rw [ia64Cond_size, ia64Cond_size]; exact hG)]

theorem ia64Step_len (enc : Bool) (pos : Nat) (grp : List Nat) (h : grp.length = 16) :
    (stepG (ia64Step enc) pos grp).length = 16 := by
  unfold stepG ia64Step
  simp only [Array.length_toList, ia64Cond_size]
  simpa using h

/-- **The real IA-64 BCJ filter is restartable.** -/
theorem ia64_restartable (enc : Bool) : Restartable (blockFilter .ia64 enc) :=
  stride_restartable .ia64 enc (by omega) (by omega) (ia64Step enc)
    (fun st b => by simp only [Filters.code, ia64Loop_eq]) (ia64Step_len enc) (ia64Step_local enc)

/-! ### End-to-end corollaries for the real streaming wrappers -/

theorem oneShot_blockFilter (a : Arch) (enc : Bool) (start : Nat) (xs : List Nat) :
    Stream.oneShot (blockFilter a enc) (St.init a start) xs = Filters.oneShot a enc start xs := by
  simp only [Stream.oneShot, blockFilter, Filters.oneShot]

/-- the streaming `BCJWriter` writes the one-shot encoding, however the input is split into writes -/
theorem writeParts_eq (a : Arch) (h : Restartable (blockFilter a true)) (start : Nat)
    (parts : List (List Nat)) :
    writeParts a start parts = Filters.oneShot a true start parts.flatten := by
  rw [← oneShot_blockFilter]
  exact wRun_eq_oneShot _ h _ _

/-- the `BCJReader` delivers the one-shot decoding, whatever the destination sizes (at least one
non-zero) and whatever short reads the inner reader makes -/
theorem readAll_eq (a : Arch) (h : Restartable (blockFilter a false)) (start : Nat)
    (src sizes grants : List Nat) (hnz : ∃ x ∈ sizes, x ≠ 0) :
    readAll a start src sizes grants = Filters.oneShot a false start src := by
  rw [← oneShot_blockFilter]
  exact rRun_eq_oneShot_default _ h _ _ _ _ hnz

/-- the five fixed-stride BCJ filters -/
theorem fixedStride_restartable (a : Arch) (enc : Bool)
    (ha : a = .arm ∨ a = .ppc ∨ a = .sparc ∨ a = .arm64 ∨ a = .ia64) :
    Restartable (blockFilter a enc) := by
  rcases ha with rfl | rfl | rfl | rfl | rfl
  · exact arm_restartable enc
  · exact ppc_restartable enc
  · exact sparc_restartable enc
  · exact arm64_restartable enc
  · exact ia64_restartable enc

end LzmaVerif.BcjStream

namespace LzmaVerif.Stream

/-! ## Variable-stride scanning filters (ARM-Thumb, RISC-V, x86)

A scanner looks at a window of `W` bytes at the current position, rewrites the first `δ` bytes of
it (`1 ≤ δ ≤ W`), advances by `δ`, and carries a loop state `τ`; it stops when fewer than `W`
bytes are left.  Loop states are compared up to an equivalence `E` (x86: the effective mask). -/

structure Scanner (τ : Type) where
  W : Nat
  step : Nat → τ → List Nat → List Nat × Nat × τ
  E : τ → τ → Prop

variable {τ : Type}

def scan (S : Scanner τ) : Nat → Nat → τ → List Nat → List Nat × Nat × τ
  | 0, _, t, xs => (xs, 0, t)
  | f+1, pos, t, xs =>
    if xs.length < S.W then (xs, 0, t) else
      ((S.step pos t (xs.take S.W)).1 ++
          (scan S f (pos + (S.step pos t (xs.take S.W)).2.1) (S.step pos t (xs.take S.W)).2.2
            (xs.drop (S.step pos t (xs.take S.W)).2.1)).1,
        (S.step pos t (xs.take S.W)).2.1 +
          (scan S f (pos + (S.step pos t (xs.take S.W)).2.1) (S.step pos t (xs.take S.W)).2.2
            (xs.drop (S.step pos t (xs.take S.W)).2.1)).2.1,
        (scan S f (pos + (S.step pos t (xs.take S.W)).2.1) (S.step pos t (xs.take S.W)).2.2
            (xs.drop (S.step pos t (xs.take S.W)).2.1)).2.2)

structure Scanner.Ok (S : Scanner τ) : Prop where
  wpos : 0 < S.W
  w16 : S.W ≤ 16
  out_len : ∀ pos t w, w.length = S.W → (S.step pos t w).1.length = (S.step pos t w).2.1
  adv_pos : ∀ pos t w, w.length = S.W → 0 < (S.step pos t w).2.1
  adv_le : ∀ pos t w, w.length = S.W → (S.step pos t w).2.1 ≤ S.W
  E_refl : ∀ t, S.E t t
  E_symm : ∀ t t', S.E t t' → S.E t' t
  congr : ∀ pos t t' w, w.length = S.W → S.E t t' →
    (S.step pos t w).1 = (S.step pos t' w).1 ∧ (S.step pos t w).2.1 = (S.step pos t' w).2.1 ∧
      S.E (S.step pos t w).2.2 (S.step pos t' w).2.2

section scan
variable {S : Scanner τ}

theorem scan_small (f : Nat) (pos : Nat) (t : τ) (xs : List Nat) (h : xs.length < S.W) :
    scan S f pos t xs = (xs, 0, t) := by
  cases f with
  | zero => rfl
  | succ f => rw [scan, if_pos h]

/-- length, processed ≤ length, tail untouched, tail short -/
theorem scan_basic (hS : S.Ok) (f : Nat) :
    ∀ (pos : Nat) (t : τ) (xs : List Nat), xs.length < f →
      (scan S f pos t xs).1.length = xs.length ∧ (scan S f pos t xs).2.1 ≤ xs.length ∧
      (scan S f pos t xs).1.drop (scan S f pos t xs).2.1 = xs.drop (scan S f pos t xs).2.1 ∧
      xs.length - (scan S f pos t xs).2.1 < S.W := by
  induction f with
  | zero => intro pos t xs h; omega
  | succ f ih =>
    intro pos t xs h
    by_cases hlt : xs.length < S.W
    · rw [scan_small _ _ _ _ hlt]
      exact ⟨rfl, Nat.zero_le _, rfl, by simpa using hlt⟩
    · have hw : (xs.take S.W).length = S.W := by rw [List.length_take]; omega
      have h1 := hS.out_len pos t _ hw
      have h2 := hS.adv_pos pos t _ hw
      have h3 := hS.adv_le pos t _ hw
      rw [scan, if_neg hlt]
      generalize S.step pos t (xs.take S.W) = r at *
      obtain ⟨i1, i2, i3, i4⟩ := ih (pos + r.2.1) r.2.2 (xs.drop r.2.1) (by rw [List.length_drop]; omega)
      rw [List.length_drop] at i1 i2 i4
      generalize scan S f (pos + r.2.1) r.2.2 (xs.drop r.2.1) = q at *
      refine ⟨?_, ?_, ?_, ?_⟩
      · simp only [List.length_append]; omega
      · simp only; omega
      · simp only
        rw [← h1, List.drop_length_add_append, i3, List.drop_drop, h1]
      · simp only; omega

/-- equivalent loop states and any two adequate fuels give the same output and processed count,
    and equivalent final loop states -/
theorem scan_congr (hS : S.Ok) (f : Nat) :
    ∀ (f' pos : Nat) (t t' : τ) (xs : List Nat), xs.length < f → xs.length < f' → S.E t t' →
      (scan S f pos t xs).1 = (scan S f' pos t' xs).1 ∧
      (scan S f pos t xs).2.1 = (scan S f' pos t' xs).2.1 ∧
      S.E (scan S f pos t xs).2.2 (scan S f' pos t' xs).2.2 := by
  induction f with
  | zero => intro f' pos t t' xs h; omega
  | succ f ih =>
    intro f' pos t t' xs h h' hE
    by_cases hlt : xs.length < S.W
    · rw [scan_small _ _ _ _ hlt, scan_small _ _ _ _ hlt]
      exact ⟨rfl, rfl, hE⟩
    · obtain ⟨f', rfl⟩ : ∃ g, f' = g + 1 := ⟨f' - 1, by omega⟩
      have hw : (xs.take S.W).length = S.W := by rw [List.length_take]; omega
      have h2 := hS.adv_pos pos t _ hw
      have hwp := hS.wpos
      obtain ⟨c1, c2, c3⟩ := hS.congr pos t t' _ hw hE
      rw [scan, scan, if_neg hlt, if_neg hlt]
      rw [← c1, ← c2]
      generalize S.step pos t (xs.take S.W) = r at *
      generalize S.step pos t' (xs.take S.W) = r' at *
      obtain ⟨i1, i2, i3⟩ := ih f' (pos + r.2.1) r.2.2 r'.2.2 (xs.drop r.2.1)
        (by rw [List.length_drop]; omega) (by rw [List.length_drop]; omega) c3
      exact ⟨by simp only; rw [i1], by simp only; rw [i2], i3⟩

/-- the restart property of scanning -/
theorem scan_restart (hS : S.Ok) (f1 : Nat) :
    ∀ (f f2 pos : Nat) (t t1' : τ) (xs ys : List Nat), xs.length < f1 → (xs ++ ys).length < f →
      (xs.drop (scan S f1 pos t xs).2.1 ++ ys).length < f2 →
      S.E t1' (scan S f1 pos t xs).2.2 →
      (scan S f pos t (xs ++ ys)).1 =
        (scan S f1 pos t xs).1.take (scan S f1 pos t xs).2.1 ++
          (scan S f2 (pos + (scan S f1 pos t xs).2.1) t1'
            (xs.drop (scan S f1 pos t xs).2.1 ++ ys)).1 := by
  induction f1 with
  | zero => intro f f2 pos t t1' xs ys h; omega
  | succ f1 ih =>
    intro f f2 pos t t1' xs ys h hf hf2 hE
    by_cases hlt : xs.length < S.W
    · rw [scan_small _ _ _ _ hlt] at hf2 hE ⊢
      simp only [List.take_zero, List.nil_append, List.drop_zero, Nat.add_zero] at hf2 hE ⊢
      have hE' : S.E t t1' := hS.E_symm _ _ hE
      exact (scan_congr hS f f2 pos t t1' (xs ++ ys) hf hf2 hE').1
    · obtain ⟨f, rfl⟩ : ∃ g, f = g + 1 := ⟨f - 1, by simp only [List.length_append] at hf; omega⟩
      have hwp := hS.wpos
      have hw : (xs.take S.W).length = S.W := by rw [List.length_take]; omega
      have h1 := hS.out_len pos t _ hw
      have h2 := hS.adv_pos pos t _ hw
      have h3 := hS.adv_le pos t _ hw
      have hlt' : ¬ (xs ++ ys).length < S.W := by simp only [List.length_append]; omega
      have htk : (xs ++ ys).take S.W = xs.take S.W := List.take_append_of_le_length (by omega)
      rw [scan, if_neg hlt', htk]
      rw [scan, if_neg hlt] at hf2 hE ⊢
      generalize S.step pos t (xs.take S.W) = r at *
      simp only at hf2 hE ⊢
      have hdr : (xs ++ ys).drop r.2.1 = xs.drop r.2.1 ++ ys := List.drop_append_of_le_length (by omega)
      rw [hdr]
      rw [← List.drop_drop] at hf2 ⊢
      rw [← Nat.add_assoc]
      have := ih f f2 (pos + r.2.1) r.2.2 t1' (xs.drop r.2.1) ys (by rw [List.length_drop]; omega)
        (by rw [← hdr, List.length_drop]; omega) hf2 hE
      rw [this, ← h1, List.take_length_add_append, List.append_assoc]

end scan

/-- the block filter made of a scanner: `ini` sets up the loop state of a call from the persistent
    state, `fin` stores it back -/
def scanF {σ : Type} (S : Scanner τ) (posOf : σ → Nat) (ini : σ → τ) (fin : σ → Nat → τ → σ) :
    BlockFilter σ :=
  { code := fun st xs =>
      ((scan S (xs.length + 1) (posOf st) (ini st) xs).1,
        (scan S (xs.length + 1) (posOf st) (ini st) xs).2.1,
        fin st (scan S (xs.length + 1) (posOf st) (ini st) xs).2.1
          (scan S (xs.length + 1) (posOf st) (ini st) xs).2.2) }

/-- a scanning filter whose stored state resumes to an equivalent loop state is restartable -/
theorem scanF_restartable {σ : Type} {S : Scanner τ} (hS : S.Ok) (posOf : σ → Nat) (ini : σ → τ)
    (fin : σ → Nat → τ → σ)
    (hpos : ∀ st p t, posOf (fin st p t) = posOf st + p)
    (hres : ∀ st p t, S.E (ini (fin st p t)) t) :
    Restartable (scanF S posOf ini fin) := by
  refine ⟨?_, ?_, ?_, ?_, ?_⟩
  · intro st xs; exact (scan_basic hS _ _ _ xs (Nat.lt_succ_self _)).1
  · intro st xs; exact (scan_basic hS _ _ _ xs (Nat.lt_succ_self _)).2.1
  · intro st xs; exact (scan_basic hS _ _ _ xs (Nat.lt_succ_self _)).2.2.1
  · intro st xs
    have h1 : xs.length - (scan S (xs.length + 1) (posOf st) (ini st) xs).2.1 < S.W :=
      (scan_basic hS _ (posOf st) (ini st) xs (Nat.lt_succ_self _)).2.2.2
    have := hS.w16
    show xs.length - (scan S (xs.length + 1) (posOf st) (ini st) xs).2.1 < 16
    omega
  · intro st xs ys
    simp only [scanF, hpos]
    exact scan_restart hS _ _ _ _ _ _ xs ys (Nat.lt_succ_self _) (Nat.lt_succ_self _)
      (Nat.lt_succ_self _) (hres _ _ _)

end LzmaVerif.Stream

namespace LzmaVerif.BcjStream
open LzmaVerif.Stream LzmaVerif.Filters
variable {τ : Type}

/-- generic variable-stride loop over the byte array with a loop state (shape of `thumbLoop`,
    `riscvLoop`, `x86Loop`) -/
def scanLoop (W : Nat) (astep : Nat → τ → Buf → Buf × Nat × τ) : Nat → Nat → τ → Buf → Buf × Nat × τ
  | 0, i, t, b => (b, i, t)
  | f+1, i, t, b =>
    if i + W > b.size then (b, i, t) else
      scanLoop W astep f (i + (astep i t b).2.1) (astep i t b).2.2 (astep i t b).1

theorem scanLoop_spec {S : Scanner τ} (hS : S.Ok) (astep : Nat → τ → Buf → Buf × Nat × τ) (pos0 : Nat)
    (hloc : ∀ (pre win post : List Nat) (t : τ), win.length = S.W →
      astep pre.length t (pre ++ win ++ post).toArray =
        ((pre ++ (S.step (pos0 + pre.length) t win).1 ++
            win.drop (S.step (pos0 + pre.length) t win).2.1 ++ post).toArray,
          (S.step (pos0 + pre.length) t win).2.1, (S.step (pos0 + pre.length) t win).2.2))
    (f : Nat) :
    ∀ (pre rest : List Nat) (t : τ),
      scanLoop S.W astep f pre.length t (pre ++ rest).toArray =
        ((pre ++ (scan S f (pos0 + pre.length) t rest).1).toArray,
          pre.length + (scan S f (pos0 + pre.length) t rest).2.1,
          (scan S f (pos0 + pre.length) t rest).2.2) := by
  induction f with
  | zero => intro pre rest t; rfl
  | succ f ih =>
    intro pre rest t
    rw [scanLoop, scan]
    by_cases hlt : rest.length < S.W
    · rw [if_pos (by simp; omega), if_pos hlt]
      rfl
    · have hw : (rest.take S.W).length = S.W := by rw [List.length_take]; omega
      have h1 := hS.out_len (pos0 + pre.length) t _ hw
      have h3 := hS.adv_le (pos0 + pre.length) t _ hw
      rw [if_neg (by simp; omega), if_neg hlt]
      have hl := hloc pre (rest.take S.W) (rest.drop S.W) t hw
      rw [List.append_assoc pre (rest.take S.W), List.take_append_drop] at hl
      rw [hl]
      generalize S.step (pos0 + pre.length) t (rest.take S.W) = r at *
      simp only
      have hd : (rest.take S.W).drop r.2.1 ++ rest.drop S.W = rest.drop r.2.1 := by
        conv => rhs; rw [← List.take_append_drop S.W rest]
        rw [List.drop_append_of_le_length (by omega)]
      have hpl : (pre ++ r.1).length = pre.length + r.2.1 := by rw [List.length_append, h1]
      rw [List.append_assoc (pre ++ r.1), hd, ← hpl, ih, hpl]
      simp only [List.append_assoc, Nat.add_assoc]

/-- list-level step derived from a step of the array loop (run on the bare window) -/
def stepOf (astep : St → Nat → τ → Buf → Buf × Nat × τ) (pos : Nat) (t : τ) (win : List Nat) :
    List Nat × Nat × τ :=
  (((astep { pos := pos, prevMask := 0 } 0 t win.toArray).1.toList).take
      (astep { pos := pos, prevMask := 0 } 0 t win.toArray).2.1,
    (astep { pos := pos, prevMask := 0 } 0 t win.toArray).2.1,
    (astep { pos := pos, prevMask := 0 } 0 t win.toArray).2.2)

/-- a BCJ filter whose `code` is a scanning loop with a local step is restartable -/
theorem scan_restartable (a : Arch) (enc : Bool) (W : Nat) (hW0 : 0 < W) (hW16 : W ≤ 16)
    (astep : St → Nat → τ → Buf → Buf × Nat × τ) (E : τ → τ → Prop)
    (ini : St → τ) (fin : St → Nat → τ → St)
    (hcode : ∀ st b, Filters.code a enc st b =
      ((scanLoop W (astep st) (b.size + 1) 0 (ini st) b).1,
        (scanLoop W (astep st) (b.size + 1) 0 (ini st) b).2.1,
        fin st (scanLoop W (astep st) (b.size + 1) 0 (ini st) b).2.1
          (scanLoop W (astep st) (b.size + 1) 0 (ini st) b).2.2))
    (hframe : ∀ (st : St) (pre win post : List Nat) (t : τ), win.length = W →
      astep st pre.length t (pre ++ win ++ post).toArray =
        ((pre ++ (astep { pos := st.pos + pre.length, prevMask := 0 } 0 t win.toArray).1.toList
            ++ post).toArray,
          (astep { pos := st.pos + pre.length, prevMask := 0 } 0 t win.toArray).2.1,
          (astep { pos := st.pos + pre.length, prevMask := 0 } 0 t win.toArray).2.2))
    (hwin : ∀ (pos : Nat) (t : τ) (win : List Nat), win.length = W →
      (astep { pos := pos, prevMask := 0 } 0 t win.toArray).1.size = W ∧
      0 < (astep { pos := pos, prevMask := 0 } 0 t win.toArray).2.1 ∧
      (astep { pos := pos, prevMask := 0 } 0 t win.toArray).2.1 ≤ W ∧
      ((astep { pos := pos, prevMask := 0 } 0 t win.toArray).1.toList).drop
          (astep { pos := pos, prevMask := 0 } 0 t win.toArray).2.1 =
        win.drop (astep { pos := pos, prevMask := 0 } 0 t win.toArray).2.1)
    (hrefl : ∀ t, E t t) (hsymm : ∀ t t', E t t' → E t' t)
    (hcongr : ∀ (pos : Nat) (t t' : τ) (win : List Nat), win.length = W → E t t' →
      (astep { pos := pos, prevMask := 0 } 0 t win.toArray).1 =
        (astep { pos := pos, prevMask := 0 } 0 t' win.toArray).1 ∧
      (astep { pos := pos, prevMask := 0 } 0 t win.toArray).2.1 =
        (astep { pos := pos, prevMask := 0 } 0 t' win.toArray).2.1 ∧
      E (astep { pos := pos, prevMask := 0 } 0 t win.toArray).2.2
        (astep { pos := pos, prevMask := 0 } 0 t' win.toArray).2.2)
    (hpos : ∀ st p t, (fin st p t).pos = st.pos + p)
    (hres : ∀ st p t, E (ini (fin st p t)) t) :
    Restartable (blockFilter a enc) := by
  let S : Scanner τ := ⟨W, stepOf astep, E⟩
  have hS : S.Ok := by
    refine ⟨hW0, hW16, ?_, ?_, ?_, hrefl, hsymm, ?_⟩
    · intro pos t w hw
      obtain ⟨w1, w2, w3, w4⟩ := hwin pos t w hw
      show (List.take _ _).length = _
      rw [List.length_take, Array.length_toList, w1]
      exact Nat.min_eq_left w3
    · intro pos t w hw; exact (hwin pos t w hw).2.1
    · intro pos t w hw; exact (hwin pos t w hw).2.2.1
    · intro pos t t' w hw hE
      obtain ⟨c1, c2, c3⟩ := hcongr pos t t' w hw hE
      refine ⟨?_, c2, c3⟩
      show List.take _ _ = List.take _ _
      rw [c1, c2]
  have hc : ∀ st xs, (blockFilter a enc).code st xs =
      (scanF S (fun st : St => st.pos) ini fin).code st xs := by
    intro st xs
    have hloc : ∀ (pre win post : List Nat) (t : τ), win.length = S.W →
        astep st pre.length t (pre ++ win ++ post).toArray =
          ((pre ++ (S.step (st.pos + pre.length) t win).1 ++
              win.drop (S.step (st.pos + pre.length) t win).2.1 ++ post).toArray,
            (S.step (st.pos + pre.length) t win).2.1, (S.step (st.pos + pre.length) t win).2.2) := by
      intro pre win post t hw
      obtain ⟨w1, w2, w3, w4⟩ := hwin (st.pos + pre.length) t win hw
      rw [hframe st pre win post t hw]
      have hstep : S.step (st.pos + pre.length) t win = stepOf astep (st.pos + pre.length) t win := rfl
      rw [hstep]
      simp only [stepOf]
      rw [← w4, List.append_assoc pre (List.take _ _) (List.drop _ _), List.take_append_drop]
    have h := scanLoop_spec hS (astep st) st.pos hloc (xs.length + 1) [] xs (ini st)
    simp only [List.nil_append, List.length_nil, Nat.zero_add, Nat.add_zero] at h
    simp only [blockFilter, hcode, List.size_toArray, scanF]
    rw [show S.W = W from rfl] at h
    rw [h]
  apply Restartable.of_sim (F := scanF S (fun st : St => st.pos) ini fin) id
  · intro st xs; rw [hc]; rfl
  · intro st xs; rw [hc]; rfl
  · intro st xs; rw [hc]; rfl
  · exact scanF_restartable hS _ _ _ hpos hres

/-! ### ARM-Thumb -/

def thumbAStep (enc : Bool) (st : St) (i : Nat) (_ : Unit) (b : Buf) : Buf × Nat × Unit :=
  let b1 := gb b (i + 1); let b3 := gb b (i + 3)
  if b3 &&& 0xF8 = 0xF8 ∧ b1 &&& 0xF8 = 0xF0 then
    let b0 := gb b i; let b2 := gb b (i + 2)
    let src := ((b1 &&& 7) <<< 19) ||| (b0 <<< 11) ||| ((b3 &&& 7) <<< 8) ||| b2
    let src := u32 (src * 2)
    let p := posAt st i
    let dest := (if enc then wadd src p else wsub src p) / 2
    let b := sb b (i + 1) (0xF0 ||| ((dest >>> 19) &&& 7))
    let b := sb b i (dest >>> 11)
    let b := sb b (i + 3) (0xF8 ||| ((dest >>> 8) &&& 7))
    let b := sb b (i + 2) dest
    (b, 4, ())
  else (b, 2, ())

theorem thumbLoop_eq (enc : Bool) (st : St) (fuel : Nat) :
    ∀ (i : Nat) (b : Buf), thumbLoop enc st fuel i b =
      ((scanLoop 4 (thumbAStep enc st) fuel i () b).1, (scanLoop 4 (thumbAStep enc st) fuel i () b).2.1) := by
  induction fuel with
  | zero => intro i b; rfl
  | succ fuel ih =>
    intro i b
    rw [thumbLoop, scanLoop]
    split
    · rfl
    · unfold thumbAStep
      simp only []
      split
      · exact ih _ _
      · exact ih _ _

theorem thumb_frame (enc : Bool) (st : St) (pre win post : List Nat) (t : Unit) (h : win.length = 4) :
    thumbAStep enc st pre.length t (pre ++ win ++ post).toArray =
      ((pre ++ (thumbAStep enc { pos := st.pos + pre.length, prevMask := 0 } 0 t win.toArray).1.toList
          ++ post).toArray,
        (thumbAStep enc { pos := st.pos + pre.length, prevMask := 0 } 0 t win.toArray).2.1,
        (thumbAStep enc { pos := st.pos + pre.length, prevMask := 0 } 0 t win.toArray).2.2) := by
  match win, h with
  | [a, b, c, d], _ =>
    have hp : posAt { pos := st.pos + pre.length, prevMask := 0 } 0 = posAt st pre.length := by
      simp [posAt]
    unfold thumbAStep
    simp only [gb4_0, gb4_1, gb4_2, gb4_3, gb4'_0, gb4'_1, gb4'_2, gb4'_3, hp]
    generalize posAt st pre.length = p
    split
    · simp [sb]
    · simp

theorem thumb_win (enc : Bool) (pos : Nat) (t : Unit) (win : List Nat) (h : win.length = 4) :
    (thumbAStep enc { pos := pos, prevMask := 0 } 0 t win.toArray).1.size = 4 ∧
    0 < (thumbAStep enc { pos := pos, prevMask := 0 } 0 t win.toArray).2.1 ∧
    (thumbAStep enc { pos := pos, prevMask := 0 } 0 t win.toArray).2.1 ≤ 4 ∧
    ((thumbAStep enc { pos := pos, prevMask := 0 } 0 t win.toArray).1.toList).drop
        (thumbAStep enc { pos := pos, prevMask := 0 } 0 t win.toArray).2.1 =
      win.drop (thumbAStep enc { pos := pos, prevMask := 0 } 0 t win.toArray).2.1 := by
  match win, h with
  | [a, b, c, d], _ =>
    unfold thumbAStep
    simp only []
    split
    · simp [sb]
    · simp

/-- **The real ARM-Thumb BCJ filter is restartable.** -/
theorem thumb_restartable (enc : Bool) : Restartable (blockFilter .armThumb enc) :=
  scan_restartable .armThumb enc 4 (by omega) (by omega) (thumbAStep enc) (fun _ _ => True)
    (fun _ => ()) (fun st p _ => { st with pos := st.pos + p })
    (fun st b => by simp only [Filters.code, thumbLoop_eq])
    (thumb_frame enc) (thumb_win enc) (fun _ => trivial) (fun _ _ _ => trivial)
    (fun _ _ _ _ _ _ => ⟨rfl, rfl, trivial⟩) (fun _ _ _ => rfl) (fun _ _ _ => trivial)

/-! ### RISC-V -/

def riscvAStep (enc : Bool) (st : St) (i : Nat) (_ : Unit) (b : Buf) : Buf × Nat × Unit :=
  let inst := gb b i
  if inst = 0xEF then
    let b1 := gb b (i + 1)
    if b1 &&& 0x0D ≠ 0 then (b, 2, ()) else
    let b2 := gb b (i + 2); let b3 := gb b (i + 3)
    let pc := posAt st i
    if enc then
      let addr := ((b1 &&& 0xF0) <<< 8) ||| ((b2 &&& 0x0F) <<< 16) ||| ((b2 &&& 0x10) <<< 7) |||
                  ((b2 &&& 0xE0) >>> 4) ||| ((b3 &&& 0x7F) <<< 4) ||| ((b3 &&& 0x80) <<< 13)
      let addr := wadd addr pc
      let b := sb b (i + 1) ((b1 &&& 0x0F) ||| ((addr >>> 13) &&& 0xF0))
      let b := sb b (i + 2) (addr >>> 9)
      let b := sb b (i + 3) (addr >>> 1)
      (b, 4, ())
    else
      let addr := ((b1 &&& 0xF0) <<< 13) ||| (b2 <<< 9) ||| (b3 <<< 1)
      let addr := wsub addr pc
      let b := sb b (i + 1) ((b1 &&& 0x0F) ||| ((addr >>> 8) &&& 0xF0))
      let b := sb b (i + 2) (((addr >>> 16) &&& 0x0F) ||| ((addr >>> 7) &&& 0x10) ||| ((addr <<< 4) &&& 0xE0))
      let b := sb b (i + 3) (((addr >>> 4) &&& 0x7F) ||| ((addr >>> 13) &&& 0x80))
      (b, 4, ())
  else if inst &&& 0x7F = 0x17 then
    let full := le32 b i
    if full &&& 0xE80 ≠ 0 then
      let inst2 := le32 b (i + 4)
      if ((u32 (full <<< 8)) ^^^ inst2) &&& 0xF8003 ≠ 3 then (b, 6, ()) else
      if enc then
        let addr := wadd (full &&& 0xFFFFF000) (sar20 inst2)
        let addr := wadd addr (posAt st i)
        let full' := u32 (0x17 ||| (2 <<< 7) ||| (inst2 <<< 12))
        let b := setLe32 b i full'
        let b := setBe32 b (i + 4) addr
        (b, 8, ())
      else
        let addr := wadd (full &&& 0xFFFFF000) (inst2 >>> 20)
        let full' := u32 (0x17 ||| (2 <<< 7) ||| (inst2 <<< 12))
        let b := setLe32 b i full'
        let b := setLe32 b (i + 4) addr
        (b, 8, ())
    else
      let fakeRs1 := full >>> 27
      if (wsub full 0x3100) &&& 0x3F80 ≥ fakeRs1 &&& 0x1D then (b, 4, ()) else
      if enc then
        let fakeAddr := le32 b (i + 4)
        let fakeInst2 := u32 ((full >>> 12) ||| (fakeAddr <<< 20))
        let full' := 0x17 ||| (fakeRs1 <<< 7) ||| (fakeAddr &&& 0xFFFFF000)
        let b := setLe32 b i full'
        let b := setLe32 b (i + 4) fakeInst2
        (b, 8, ())
      else
        let addr := be32 b (i + 4)
        let addr := wsub addr (posAt st i)
        let inst2 := u32 ((full >>> 12) ||| (addr <<< 20))
        let full' := 0x17 ||| (fakeRs1 <<< 7) ||| ((wadd addr 0x800) &&& 0xFFFFF000)
        let b := setLe32 b i full'
        let b := setLe32 b (i + 4) inst2
        (b, 8, ())
  else (b, 2, ())

theorem riscvLoop_succ (enc : Bool) (st : St) (fuel i : Nat) (b : Buf) (h : ¬ i + 8 > b.size) :
    riscvLoop enc st (fuel + 1) i b =
      riscvLoop enc st fuel (i + (riscvAStep enc st i () b).2.1) (riscvAStep enc st i () b).1 := by
  rw [riscvLoop, if_neg h]
  unfold riscvAStep
  simp only []
  repeat (first | (with_reducible rfl) | split)

theorem riscvLoop_eq (enc : Bool) (st : St) (fuel : Nat) :
    ∀ (i : Nat) (b : Buf), riscvLoop enc st fuel i b =
      ((scanLoop 8 (riscvAStep enc st) fuel i () b).1, (scanLoop 8 (riscvAStep enc st) fuel i () b).2.1) := by
  induction fuel with
  | zero => intro i b; rfl
  | succ fuel ih =>
    intro i b
    rw [scanLoop]
    split
    · next h => rw [riscvLoop, if_pos h]
    · next h => rw [riscvLoop_succ enc st fuel i b h, ih]

section eight
variable (pre post : List Nat) (a0 a1 a2 a3 a4 a5 a6 a7 : Nat)
theorem gb8_0 : gb (pre ++ [a0, a1, a2, a3, a4, a5, a6, a7] ++ post).toArray pre.length = a0 := by simp [gb]
theorem gb8_1 : gb (pre ++ [a0, a1, a2, a3, a4, a5, a6, a7] ++ post).toArray (pre.length + 1) = a1 := by simp [gb]
theorem gb8_2 : gb (pre ++ [a0, a1, a2, a3, a4, a5, a6, a7] ++ post).toArray (pre.length + 2) = a2 := by simp [gb]
theorem gb8_3 : gb (pre ++ [a0, a1, a2, a3, a4, a5, a6, a7] ++ post).toArray (pre.length + 3) = a3 := by simp [gb]
theorem gb8_4 : gb (pre ++ [a0, a1, a2, a3, a4, a5, a6, a7] ++ post).toArray (pre.length + 4) = a4 := by simp [gb]
theorem gb8_5 : gb (pre ++ [a0, a1, a2, a3, a4, a5, a6, a7] ++ post).toArray (pre.length + 5) = a5 := by simp [gb]
theorem gb8_6 : gb (pre ++ [a0, a1, a2, a3, a4, a5, a6, a7] ++ post).toArray (pre.length + 6) = a6 := by simp [gb]
theorem gb8_7 : gb (pre ++ [a0, a1, a2, a3, a4, a5, a6, a7] ++ post).toArray (pre.length + 7) = a7 := by simp [gb]
theorem gb8'_0 : gb [a0, a1, a2, a3, a4, a5, a6, a7].toArray 0 = a0 := by simp [gb]
theorem gb8'_1 : gb [a0, a1, a2, a3, a4, a5, a6, a7].toArray 1 = a1 := by simp [gb]
theorem gb8'_2 : gb [a0, a1, a2, a3, a4, a5, a6, a7].toArray 2 = a2 := by simp [gb]
theorem gb8'_3 : gb [a0, a1, a2, a3, a4, a5, a6, a7].toArray 3 = a3 := by simp [gb]
theorem gb8'_4 : gb [a0, a1, a2, a3, a4, a5, a6, a7].toArray 4 = a4 := by simp [gb]
theorem gb8'_5 : gb [a0, a1, a2, a3, a4, a5, a6, a7].toArray 5 = a5 := by simp [gb]
theorem gb8'_6 : gb [a0, a1, a2, a3, a4, a5, a6, a7].toArray 6 = a6 := by simp [gb]
theorem gb8'_7 : gb [a0, a1, a2, a3, a4, a5, a6, a7].toArray 7 = a7 := by simp [gb]
end eight

theorem riscv_frame (enc : Bool) (st : St) (pre win post : List Nat) (t : Unit) (h : win.length = 8) :
    riscvAStep enc st pre.length t (pre ++ win ++ post).toArray =
      ((pre ++ (riscvAStep enc { pos := st.pos + pre.length, prevMask := 0 } 0 t win.toArray).1.toList
          ++ post).toArray,
        (riscvAStep enc { pos := st.pos + pre.length, prevMask := 0 } 0 t win.toArray).2.1,
        (riscvAStep enc { pos := st.pos + pre.length, prevMask := 0 } 0 t win.toArray).2.2) := by
  match win, h with
  | [a0, a1, a2, a3, a4, a5, a6, a7], _ =>
    have hp : posAt { pos := st.pos + pre.length, prevMask := 0 } 0 = posAt st pre.length := by
      simp [posAt]
    unfold riscvAStep
    simp only [le32, be32, setLe32, setBe32, Nat.add_assoc, Nat.reduceAdd, Nat.zero_add, hp]
    simp only [gb8_0, gb8_1, gb8_2, gb8_3, gb8_4, gb8_5, gb8_6, gb8_7, gb8'_0, gb8'_1, gb8'_2, gb8'_3, gb8'_4, gb8'_5, gb8'_6, gb8'_7]
    generalize posAt st pre.length = p
    repeat (first | focus (simp [sb]; done) | split)

theorem riscv_win (enc : Bool) (pos : Nat) (t : Unit) (win : List Nat) (h : win.length = 8) :
    (riscvAStep enc { pos := pos, prevMask := 0 } 0 t win.toArray).1.size = 8 ∧
    0 < (riscvAStep enc { pos := pos, prevMask := 0 } 0 t win.toArray).2.1 ∧
    (riscvAStep enc { pos := pos, prevMask := 0 } 0 t win.toArray).2.1 ≤ 8 ∧
    ((riscvAStep enc { pos := pos, prevMask := 0 } 0 t win.toArray).1.toList).drop
        (riscvAStep enc { pos := pos, prevMask := 0 } 0 t win.toArray).2.1 =
      win.drop (riscvAStep enc { pos := pos, prevMask := 0 } 0 t win.toArray).2.1 := by
  match win, h with
  | [a0, a1, a2, a3, a4, a5, a6, a7], _ =>
    unfold riscvAStep
    simp only [setLe32, setBe32, Nat.reduceAdd, Nat.zero_add]
    repeat (first | focus (simp [sb]; done) | split)

/-- **The real RISC-V BCJ filter is restartable.** -/
theorem riscv_restartable (enc : Bool) : Restartable (blockFilter .riscv enc) :=
  scan_restartable .riscv enc 8 (by omega) (by omega) (riscvAStep enc) (fun _ _ => True)
    (fun _ => ()) (fun st p _ => { st with pos := st.pos + p })
    (fun st b => by simp only [Filters.code, riscvLoop_eq])
    (riscv_frame enc) (riscv_win enc) (fun _ => trivial) (fun _ _ _ => trivial)
    (fun _ _ _ _ _ _ => ⟨rfl, rfl, trivial⟩) (fun _ _ _ => rfl) (fun _ _ _ => trivial)


/-! ### x86 -/

/-- loop state of the x86 scanner: `(e, pm)` with `e + 1` = distance to the previous opcode
    (`i - prev_pos`), `pm` = `prev_mask` -/
def x86AStep (enc : Bool) (st : St) (i : Nat) (t : Nat × Nat) (b : Buf) : Buf × Nat × (Nat × Nat) :=
  let x := gb b i
  if x ≠ 0xE8 ∧ x ≠ 0xE9 then (b, 1, (t.1 + 1, t.2)) else
  let d := t.1 + 1
  let stage : Option Nat :=
    if d > 3 then some 0
    else
      let pm := (t.2 <<< (d - 1)) &&& 7
      if pm ≠ 0 ∧ (¬ maskAllowed pm ∨ msByte (gb b (i + 4 - maskBit pm))) then none
      else some pm
  match stage with
  | none =>
    let pm := (t.2 <<< (d - 1)) &&& 7
    (b, 1, (0, (pm <<< 1) ||| 1))
  | some pm =>
    if msByte (gb b (i + 4)) then
      let src := gb b (i + 1) + 256 * gb b (i + 2) + 65536 * gb b (i + 3) + 16777216 * gb b (i + 4)
      let dest := x86Conv enc (posAt st i) pm 64 src
      let b := sb b (i + 1) dest
      let b := sb b (i + 2) (dest >>> 8)
      let b := sb b (i + 3) (dest >>> 16)
      let b := sb b (i + 4) (if (dest >>> 24) &&& 1 = 1 then 0xFF else 0)
      (b, 5, (4, pm))
    else (b, 1, (0, (pm <<< 1) ||| 1))

/-- how the `prev_pos` of `x86Loop` relates to the scanner's `e` -/
def X86Rel (i : Nat) (pp : Option Nat) (e : Nat) : Prop :=
  match pp with
  | none => e = i
  | some q => q < i ∧ e = i - q - 1

def x86PpNext (i : Nat) (pp : Option Nat) (b : Buf) : Option Nat :=
  if gb b i ≠ 0xE8 ∧ gb b i ≠ 0xE9 then pp else some i

theorem x86Loop_succ (enc : Bool) (st : St) (fuel i : Nat) (pp : Option Nat) (e pm : Nat) (b : Buf)
    (h : ¬ i + 5 > b.size) (hr : X86Rel i pp e) :
    x86Loop enc st (fuel + 1) i pp pm b =
      x86Loop enc st fuel (i + (x86AStep enc st i (e, pm) b).2.1) (x86PpNext i pp b)
        (x86AStep enc st i (e, pm) b).2.2.2 (x86AStep enc st i (e, pm) b).1 := by
  cases pp with
  | none =>
    simp only [X86Rel] at hr
    have hr' := hr.symm
    subst hr'
    rw [x86Loop.eq_2, if_neg h]
    unfold x86AStep x86PpNext
    simp only []
    by_cases hx : gb b i ≠ 232 ∧ gb b i ≠ 233
    · simp only [hx, ne_eq, not_false_eq_true, and_self, ↓reduceIte]
    · simp only [hx, ↓reduceIte]
      by_cases hd3 : i + 1 > 3
      · simp only [hd3, ↓reduceIte]
        split <;> rfl
      · simp only [hd3, ↓reduceIte]
        by_cases hm : (pm <<< (i + 1 - 1) &&& 7 ≠ 0 ∧
            (¬maskAllowed (pm <<< (i + 1 - 1) &&& 7) = true ∨
              msByte (gb b (i + 4 - maskBit (pm <<< (i + 1 - 1) &&& 7))) = true))
        · rw [if_pos hm] <;> rfl
        · rw [if_neg hm]
          simp only []
          split <;> rfl
  | some q =>
    simp only [X86Rel] at hr
    have hd : i - q = e + 1 := by omega
    rw [x86Loop.eq_3, if_neg h]
    unfold x86AStep x86PpNext
    simp only [hd]
    by_cases hx : gb b i ≠ 232 ∧ gb b i ≠ 233
    · simp only [hx, ne_eq, not_false_eq_true, and_self, ↓reduceIte]
    · simp only [hx, ↓reduceIte]
      by_cases hd3 : e + 1 > 3
      · simp only [hd3, ↓reduceIte]
        split <;> rfl
      · simp only [hd3, ↓reduceIte]
        by_cases hm : (pm <<< (e + 1 - 1) &&& 7 ≠ 0 ∧
            (¬maskAllowed (pm <<< (e + 1 - 1) &&& 7) = true ∨
              msByte (gb b (i + 4 - maskBit (pm <<< (e + 1 - 1) &&& 7))) = true))
        · rw [if_pos hm] <;> rfl
        · rw [if_neg hm]
          simp only []
          split <;> rfl

theorem x86Loop_stop (enc : Bool) (st : St) (fuel i : Nat) (pp : Option Nat) (e pm : Nat) (b : Buf)
    (h : i + 5 > b.size) (hr : X86Rel i pp e) :
    x86Loop enc st (fuel + 1) i pp pm b = (b, i, if e + 1 > 3 then 0 else pm <<< (e + 1 - 1)) := by
  cases pp with
  | none =>
    simp only [X86Rel] at hr
    have hr' := hr.symm
    subst hr'
    rw [x86Loop.eq_2, if_pos h]
  | some q =>
    simp only [X86Rel] at hr
    have hd : i - q = e + 1 := by omega
    rw [x86Loop.eq_3, if_pos h]
    simp only [hd]

theorem x86Rel_next (enc : Bool) (st : St) (i : Nat) (pp : Option Nat) (e pm : Nat) (b : Buf)
    (hr : X86Rel i pp e) :
    X86Rel (i + (x86AStep enc st i (e, pm) b).2.1) (x86PpNext i pp b)
      (x86AStep enc st i (e, pm) b).2.2.1 := by
  unfold x86AStep x86PpNext
  simp only []
  split
  · cases pp with
    | none => simp only [X86Rel] at hr ⊢; omega
    | some q => simp only [X86Rel] at hr ⊢; omega
  · split
    · simp only [X86Rel]; omega
    · split
      · simp only [X86Rel]; omega
      · simp only [X86Rel]; omega

/-- the effective mask seen by the next opcode: all that matters of the loop state -/
def x86Eff (e pm : Nat) : Nat := if e + 1 > 3 then 0 else (pm <<< (e + 1 - 1)) &&& 7

/-- one step in terms of the effective mask `m`; `tn` is the loop state after a non-opcode byte -/
def x86Core (enc : Bool) (st : St) (i : Nat) (m : Nat) (tn : Nat × Nat) (b : Buf) :
    Buf × Nat × (Nat × Nat) :=
  if gb b i ≠ 0xE8 ∧ gb b i ≠ 0xE9 then (b, 1, tn) else
  if m ≠ 0 ∧ (¬ maskAllowed m ∨ msByte (gb b (i + 4 - maskBit m))) then (b, 1, (0, (m <<< 1) ||| 1)) else
  if msByte (gb b (i + 4)) then
    (sb (sb (sb (sb b (i + 1)
        (x86Conv enc (posAt st i) m 64
          (gb b (i + 1) + 256 * gb b (i + 2) + 65536 * gb b (i + 3) + 16777216 * gb b (i + 4))))
      (i + 2) ((x86Conv enc (posAt st i) m 64
          (gb b (i + 1) + 256 * gb b (i + 2) + 65536 * gb b (i + 3) + 16777216 * gb b (i + 4))) >>> 8))
      (i + 3) ((x86Conv enc (posAt st i) m 64
          (gb b (i + 1) + 256 * gb b (i + 2) + 65536 * gb b (i + 3) + 16777216 * gb b (i + 4))) >>> 16))
      (i + 4) (if ((x86Conv enc (posAt st i) m 64
          (gb b (i + 1) + 256 * gb b (i + 2) + 65536 * gb b (i + 3) + 16777216 * gb b (i + 4))) >>> 24) &&& 1 = 1
        then 0xFF else 0),
      5, (4, m))
  else (b, 1, (0, (m <<< 1) ||| 1))

theorem x86AStep_eff (enc : Bool) (st : St) (i e pm : Nat) (b : Buf) :
    x86AStep enc st i (e, pm) b = x86Core enc st i (x86Eff e pm) (e + 1, pm) b := by
  unfold x86AStep x86Core x86Eff
  simp only []
  by_cases hx : gb b i ≠ 232 ∧ gb b i ≠ 233
  · rw [if_pos hx, if_pos hx]
  · rw [if_neg hx, if_neg hx]
    by_cases hd3 : e + 1 > 3
    · simp only [hd3, ↓reduceIte, ne_eq, not_true_eq_false, false_and]
    · simp only [hd3, ↓reduceIte]
      by_cases hm : (pm <<< (e + 1 - 1) &&& 7 ≠ 0 ∧
          (¬maskAllowed (pm <<< (e + 1 - 1) &&& 7) = true ∨
            msByte (gb b (i + 4 - maskBit (pm <<< (e + 1 - 1) &&& 7))) = true))
      · rw [if_pos hm, if_pos hm]
      · rw [if_neg hm, if_neg hm]

theorem maskBit_le (m : Nat) : maskBit m ≤ 4 := by
  unfold maskBit Consts.MASK_TO_BIT_NUMBER
  match m with
  | 0 | 1 | 2 | 3 | 4 | 5 | 6 | 7 => decide
  | n + 8 => simp [List.getD]

section five
variable (pre post : List Nat) (a0 a1 a2 a3 a4 : Nat)
theorem gb5_0 : gb (pre ++ [a0, a1, a2, a3, a4] ++ post).toArray pre.length = a0 := by simp [gb]
theorem gb5_1 : gb (pre ++ [a0, a1, a2, a3, a4] ++ post).toArray (pre.length + 1) = a1 := by simp [gb]
theorem gb5_2 : gb (pre ++ [a0, a1, a2, a3, a4] ++ post).toArray (pre.length + 2) = a2 := by simp [gb]
theorem gb5_3 : gb (pre ++ [a0, a1, a2, a3, a4] ++ post).toArray (pre.length + 3) = a3 := by simp [gb]
theorem gb5_4 : gb (pre ++ [a0, a1, a2, a3, a4] ++ post).toArray (pre.length + 4) = a4 := by simp [gb]
theorem gb5'_0 : gb [a0, a1, a2, a3, a4].toArray 0 = a0 := by simp [gb]
theorem gb5'_1 : gb [a0, a1, a2, a3, a4].toArray (0 + 1) = a1 := by simp [gb]
theorem gb5'_2 : gb [a0, a1, a2, a3, a4].toArray (0 + 2) = a2 := by simp [gb]
theorem gb5'_3 : gb [a0, a1, a2, a3, a4].toArray (0 + 3) = a3 := by simp [gb]
theorem gb5'_4 : gb [a0, a1, a2, a3, a4].toArray (0 + 4) = a4 := by simp [gb]
theorem gb5_mask (m : Nat) :
    gb (pre ++ [a0, a1, a2, a3, a4] ++ post).toArray (pre.length + 4 - maskBit m) =
      gb [a0, a1, a2, a3, a4].toArray (0 + 4 - maskBit m) := by
  have h := maskBit_le m
  rw [show pre.length + 4 - maskBit m = pre.length + (4 - maskBit m) by omega,
    show 0 + 4 - maskBit m = 4 - maskBit m by omega]
  exact gb_local pre [a0, a1, a2, a3, a4] post (4 - maskBit m) (by simp; omega)
end five

theorem x86Core_frame (enc : Bool) (st : St) (pre win post : List Nat) (m : Nat) (tn : Nat × Nat)
    (h : win.length = 5) :
    x86Core enc st pre.length m tn (pre ++ win ++ post).toArray =
      ((pre ++ (x86Core enc { pos := st.pos + pre.length, prevMask := 0 } 0 m tn win.toArray).1.toList
          ++ post).toArray,
        (x86Core enc { pos := st.pos + pre.length, prevMask := 0 } 0 m tn win.toArray).2.1,
        (x86Core enc { pos := st.pos + pre.length, prevMask := 0 } 0 m tn win.toArray).2.2) := by
  match win, h with
  | [a0, a1, a2, a3, a4], _ =>
    have hp : posAt { pos := st.pos + pre.length, prevMask := 0 } 0 = posAt st pre.length := by
      simp [posAt]
    unfold x86Core
    simp only [gb5_0, gb5_1, gb5_2, gb5_3, gb5_4, gb5'_0, gb5'_1, gb5'_2, gb5'_3, gb5'_4, gb5_mask, hp]
    generalize posAt st pre.length = p
    generalize gb [a0, a1, a2, a3, a4].toArray (0 + 4 - maskBit m) = mb
    generalize x86Conv enc p m 64 (a1 + 256 * a2 + 65536 * a3 + 16777216 * a4) = dest
    repeat (first | focus (simp [sb]; done) | split)

theorem x86Core_win (enc : Bool) (pos : Nat) (m : Nat) (tn : Nat × Nat) (win : List Nat)
    (h : win.length = 5) :
    (x86Core enc { pos := pos, prevMask := 0 } 0 m tn win.toArray).1.size = 5 ∧
    0 < (x86Core enc { pos := pos, prevMask := 0 } 0 m tn win.toArray).2.1 ∧
    (x86Core enc { pos := pos, prevMask := 0 } 0 m tn win.toArray).2.1 ≤ 5 ∧
    ((x86Core enc { pos := pos, prevMask := 0 } 0 m tn win.toArray).1.toList).drop
        (x86Core enc { pos := pos, prevMask := 0 } 0 m tn win.toArray).2.1 =
      win.drop (x86Core enc { pos := pos, prevMask := 0 } 0 m tn win.toArray).2.1 := by
  match win, h with
  | [a0, a1, a2, a3, a4], _ =>
    unfold x86Core
    repeat (first | focus (simp [sb]; done) | split)

/-- size and advance of a step on any buffer -/
theorem x86Core_size (enc : Bool) (st : St) (i m : Nat) (tn : Nat × Nat) (b : Buf) :
    (x86Core enc st i m tn b).1.size = b.size ∧ 0 < (x86Core enc st i m tn b).2.1 ∧
      (x86Core enc st i m tn b).2.1 ≤ 5 := by
  unfold x86Core
  repeat (first | focus (simp [sb]; done) | split)

/-- x86 loop states are equivalent when every future opcode sees the same effective mask -/
def X86E (t t' : Nat × Nat) : Prop := ∀ k, x86Eff (t.1 + k) t.2 = x86Eff (t'.1 + k) t'.2

theorem shl_and7 (x n : Nat) (h : 3 ≤ n) : (x <<< n) &&& 7 = 0 := by
  have h7 : (7 : Nat) = 2 ^ 3 - 1 := rfl
  rw [h7, Nat.and_two_pow_sub_one_eq_mod, Nat.shiftLeft_eq]
  obtain ⟨k, rfl⟩ : ∃ k, n = 3 + k := ⟨n - 3, by omega⟩
  rw [Nat.pow_add, ← Nat.mul_assoc, Nat.mul_comm x, Nat.mul_assoc]
  exact Nat.mul_mod_right _ _

def x86Fin (t : Nat × Nat) : Nat := if t.1 + 1 > 3 then 0 else t.2 <<< (t.1 + 1 - 1)

/-- the stored `prev_mask` resumes to an equivalent loop state -/
theorem x86_resume (t : Nat × Nat) : X86E (0, x86Fin t) t := by
  intro k
  obtain ⟨e, pm⟩ := t
  simp only [x86Fin, x86Eff, Nat.zero_add, Nat.add_sub_cancel]
  by_cases he : e + 1 > 3
  · have : e + k + 1 > 3 := by omega
    simp only [he, this, ↓reduceIte, Nat.zero_shiftLeft, Nat.zero_and]
    split <;> rfl
  · simp only [he, ↓reduceIte]
    by_cases hk : k + 1 > 3
    · have : e + k + 1 > 3 := by omega
      simp only [hk, this, ↓reduceIte]
    · simp only [hk, ↓reduceIte, ← Nat.shiftLeft_add]
      split
      · exact shl_and7 _ _ (by omega)
      · rfl

theorem x86_congr (enc : Bool) (pos : Nat) (t t' : Nat × Nat) (win : List Nat) (hE : X86E t t') :
    (x86AStep enc { pos := pos, prevMask := 0 } 0 t win.toArray).1 =
        (x86AStep enc { pos := pos, prevMask := 0 } 0 t' win.toArray).1 ∧
      (x86AStep enc { pos := pos, prevMask := 0 } 0 t win.toArray).2.1 =
        (x86AStep enc { pos := pos, prevMask := 0 } 0 t' win.toArray).2.1 ∧
      X86E (x86AStep enc { pos := pos, prevMask := 0 } 0 t win.toArray).2.2
        (x86AStep enc { pos := pos, prevMask := 0 } 0 t' win.toArray).2.2 := by
  obtain ⟨e, pm⟩ := t
  obtain ⟨e', pm'⟩ := t'
  have h0 : x86Eff e pm = x86Eff e' pm' := by simpa using hE 0
  have hn : X86E (e + 1, pm) (e' + 1, pm') := by
    intro k
    have := hE (1 + k)
    simpa only [Nat.add_assoc] using this
  rw [x86AStep_eff, x86AStep_eff, h0]
  unfold x86Core
  split
  · exact ⟨rfl, rfl, hn⟩
  · split
    · exact ⟨rfl, rfl, fun _ => rfl⟩
    · split
      · exact ⟨rfl, rfl, fun _ => rfl⟩
      · exact ⟨rfl, rfl, fun _ => rfl⟩

theorem x86Loop_eq (enc : Bool) (st : St) (fuel : Nat) :
    ∀ (i : Nat) (pp : Option Nat) (e pm : Nat) (b : Buf), X86Rel i pp e → i ≤ b.size →
      b.size < i + fuel →
      x86Loop enc st fuel i pp pm b =
        ((scanLoop 5 (x86AStep enc st) fuel i (e, pm) b).1,
          (scanLoop 5 (x86AStep enc st) fuel i (e, pm) b).2.1,
          x86Fin (scanLoop 5 (x86AStep enc st) fuel i (e, pm) b).2.2) := by
  induction fuel with
  | zero => intro i pp e pm b _ h1 h2; omega
  | succ fuel ih =>
    intro i pp e pm b hr h1 h2
    rw [scanLoop]
    split
    · next h => rw [x86Loop_stop enc st fuel i pp e pm b h hr]; rfl
    · next h =>
      have hsz := x86Core_size enc st i (x86Eff e pm) (e + 1, pm) b
      rw [← x86AStep_eff] at hsz
      obtain ⟨s1, s2, s3⟩ := hsz
      rw [x86Loop_succ enc st fuel i pp e pm b h hr]
      have hnext := x86Rel_next enc st i pp e pm b hr
      generalize x86AStep enc st i (e, pm) b = r at *
      obtain ⟨b', δ, e', pm'⟩ := r
      simp only at *
      exact ih _ _ _ _ _ hnext (by omega) (by omega)

theorem x86_code (enc : Bool) (st : St) (b : Buf) :
    Filters.code .x86 enc st b =
      ((scanLoop 5 (x86AStep enc st) (b.size + 1) 0 (0, st.prevMask) b).1,
        (scanLoop 5 (x86AStep enc st) (b.size + 1) 0 (0, st.prevMask) b).2.1,
        { pos := st.pos + (scanLoop 5 (x86AStep enc st) (b.size + 1) 0 (0, st.prevMask) b).2.1,
          prevMask := x86Fin (scanLoop 5 (x86AStep enc st) (b.size + 1) 0 (0, st.prevMask) b).2.2 }) := by
  unfold Filters.code
  simp only []
  split
  · next h =>
    rw [scanLoop, if_pos (by omega)]
    simp [x86Fin]
  · next h =>
    rw [x86Loop_eq enc st (b.size + 1) 0 none 0 st.prevMask b rfl (Nat.zero_le _) (by omega)]

/-- **The real x86 BCJ filter is restartable** (in the output-only sense of `Restartable`; the
stronger state-equality form is false for it). -/
theorem x86_restartable (enc : Bool) : Restartable (blockFilter .x86 enc) :=
  scan_restartable .x86 enc 5 (by omega) (by omega) (x86AStep enc) X86E
    (fun st => (0, st.prevMask))
    (fun st p t => { pos := st.pos + p, prevMask := x86Fin t })
    (x86_code enc)
    (fun st pre win post t h => by
      obtain ⟨e, pm⟩ := t
      rw [x86AStep_eff, x86AStep_eff]
      exact x86Core_frame enc st pre win post _ _ h)
    (fun pos t win h => by
      obtain ⟨e, pm⟩ := t
      rw [x86AStep_eff]
      exact x86Core_win enc pos _ _ win h)
    (fun _ _ => rfl) (fun _ _ h k => (h k).symm)
    (fun pos t t' win _ hE => x86_congr enc pos t t' win hE)
    (fun _ _ _ => rfl) (fun _ _ t => x86_resume t)


/-! ### All eight BCJ filters -/

/-- **Every BCJ filter of the model (encoder and decoder) is restartable.** -/
theorem bcj_restartable (a : Arch) (enc : Bool) : Restartable (blockFilter a enc) := by
  cases a
  · exact x86_restartable enc
  · exact ppc_restartable enc
  · exact ia64_restartable enc
  · exact arm_restartable enc
  · exact thumb_restartable enc
  · exact sparc_restartable enc
  · exact arm64_restartable enc
  · exact riscv_restartable enc

/-- the streaming `BCJWriter` of every architecture writes the one-shot encoding of the
    concatenated input, however the input is split into `write` calls (empty writes included) -/
theorem writeParts_eq_oneShot (a : Arch) (start : Nat) (parts : List (List Nat)) :
    writeParts a start parts = Filters.oneShot a true start parts.flatten :=
  writeParts_eq a (bcj_restartable a true) start parts

/-- the `BCJReader` of every architecture delivers the one-shot decoding of its source, whatever
    the destination sizes (at least one non-zero; zero sizes allowed anywhere) and whatever short
    reads the inner reader makes -/
theorem readAll_eq_oneShot (a : Arch) (start : Nat) (src sizes grants : List Nat)
    (hnz : ∃ x ∈ sizes, x ≠ 0) :
    readAll a start src sizes grants = Filters.oneShot a false start src :=
  readAll_eq a (bcj_restartable a false) start src sizes grants hnz

end LzmaVerif.BcjStream

namespace LzmaVerif.BcjStream
open LzmaVerif LzmaVerif.Stream LzmaVerif.Filters

/-! ## Why `Restartable` is what it is: two counterexamples -/

/-- a filter that never processes anything: it has every property of `Restartable` (even the
    strong form of `restart`) except the bound on the unprocessed tail … -/
def lazyF : BlockFilter Unit := { code := fun _ xs => (xs, 0, ()) }

theorem lazyF_all_but_bound :
    (∀ st xs, ((lazyF.code st xs).1).length = xs.length) ∧
    (∀ st xs, (lazyF.code st xs).2.1 ≤ xs.length) ∧
    (∀ st xs, ((lazyF.code st xs).1).drop (lazyF.code st xs).2.1 = xs.drop (lazyF.code st xs).2.1) ∧
    (∀ st xs ys, lazyF.code st (xs ++ ys) =
      (((lazyF.code st xs).1).take (lazyF.code st xs).2.1 ++
          (lazyF.code (lazyF.code st xs).2.2 (xs.drop (lazyF.code st xs).2.1 ++ ys)).1,
        (lazyF.code st xs).2.1 + (lazyF.code (lazyF.code st xs).2.2 (xs.drop (lazyF.code st xs).2.1 ++ ys)).2.1,
        (lazyF.code (lazyF.code st xs).2.2 (xs.drop (lazyF.code st xs).2.1 ++ ys)).2.2)) :=
  ⟨fun _ _ => rfl, fun _ _ => Nat.zero_le _, fun _ _ => rfl, fun _ _ _ => rfl⟩

set_option maxRecDepth 1000000 in
/-- … and the 4096-byte reader loses data with it: once the buffer is full of unfiltered bytes the
    inner reader is asked for 0 bytes, which is taken for the end of the input.  (4097 source bytes,
    one 4097-byte destination: only 4096 bytes come out.) -/
theorem lazy_reader_loses_data :
    (rRun lazyF (4097 + 1 + 16) (rInit () (List.replicate 4097 7)) [4097] [] []).length = 4096 ∧
    (oneShot lazyF () (List.replicate 4097 7)).length = 4097 := by
  decide +kernel

/-- The strong form of `restart` (equal processed counts AND equal final states) is FALSE for the
    x86 model: the outputs and processed counts agree, but the stored `prevMask` differs (`0` after
    the one-shot call, `8` after the split calls; only `prevMask &&& 7` is ever used). -/
theorem x86_strong_restart_false :
    ¬ (∀ (st : St) (xs ys : List Nat),
        (blockFilter .x86 true).code st (xs ++ ys) =
          ((((blockFilter .x86 true).code st xs).1).take ((blockFilter .x86 true).code st xs).2.1 ++
              ((blockFilter .x86 true).code ((blockFilter .x86 true).code st xs).2.2
                (xs.drop ((blockFilter .x86 true).code st xs).2.1 ++ ys)).1,
            ((blockFilter .x86 true).code st xs).2.1 +
              ((blockFilter .x86 true).code ((blockFilter .x86 true).code st xs).2.2
                (xs.drop ((blockFilter .x86 true).code st xs).2.1 ++ ys)).2.1,
            ((blockFilter .x86 true).code ((blockFilter .x86 true).code st xs).2.2
                (xs.drop ((blockFilter .x86 true).code st xs).2.1 ++ ys)).2.2)) := by
  intro h
  have h1 := congrArg (fun r => r.2.2.prevMask)
    (h (St.init .x86 0) [232, 16, 255, 0, 16, 3, 255] [233])
  revert h1
  decide

end LzmaVerif.BcjStream

section axioms
open LzmaVerif.Stream LzmaVerif.BcjStream
#print axioms wRun_eq_oneShot
#print axioms rRun_eq_oneShot
#print axioms rRun_eq_oneShot_default
#print axioms rRun_zero_cons
#print axioms rRun_insert_zeros
#print axioms strideF_restartable
#print axioms arm_restartable
#print axioms fixedStride_restartable
#print axioms writeParts_eq
#print axioms readAll_eq
#print axioms thumb_restartable
#print axioms riscv_restartable
#print axioms x86_restartable
#print axioms bcj_restartable
#print axioms writeParts_eq_oneShot
#print axioms readAll_eq_oneShot
#print axioms lazy_reader_loses_data
#print axioms x86_strong_restart_false
end axioms
