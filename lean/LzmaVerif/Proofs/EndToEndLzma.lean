import LzmaVerif.Props.C01
/-!
# Raw LZMA with end marker: ONE byte string for every output cap

`Props.C01.lzma_roundtrip_marker` produces, for each cap, the bytes of the loop program with symbol budget
`cap + 1`.  A container hypothesis such as `LzipFile.PayloadOk` needs a single byte string that decodes under
EVERY admissible cap.  Here:

* `Ref p q` – program `q` refines `p`: equal except where `p` gives up with `Stop.fuel`;
  `loopProg F ⊑ loopProg (F + 1)` (`loop_ref`), and a run of `p` that does not end in `Stop.fuel` is a run of
  `q` (`Ref.encRun`) – so the encoder's bytes do not depend on the symbol budget once it suffices;
* `loop_rt_marker_sharp` – `loop_rt_marker` with the exact budget `parse.length + 1` (the marker is the last
  symbol; the original statement asks for one more);
* `lzma_marker_uniform` – the round trip with one byte string for every cap `≥ parse.length`.
-/
namespace LzmaVerif.Lzma
open LzmaVerif Prog Rc

/-- `q` refines `p`: the same decision tree, except that `q` may continue where `p` stops for lack of fuel -/
inductive Ref : Prog LoopRes → Prog LoopRes → Prop
  | fuel (a : LoopRes) (q : Prog LoopRes) : a.stop = .fuel → Ref (.ret a) q
  | refl (p : Prog LoopRes) : Ref p p
  | bit (i : Nat) (k k' : Bool → Prog LoopRes) : (∀ b, Ref (k b) (k' b)) → Ref (.bit i k) (.bit i k')
  | direct (k k' : Bool → Prog LoopRes) : (∀ b, Ref (k b) (k' b)) → Ref (.direct k) (.direct k')

theorem ref_bind {α : Type} (p : Prog α) (f g : α → Prog LoopRes) (h : ∀ a, Ref (f a) (g a)) :
    Ref (Prog.bind p f) (Prog.bind p g) := by
  induction p with
  | ret a => exact h a
  | bit i k ih => exact Ref.bit i _ _ (fun b => ih b)
  | direct k ih => exact Ref.direct _ _ (fun b => ih b)

/-- a run of `p` that does not end in `Stop.fuel` is a run of every refinement of `p` -/
theorem Ref.encRun {p q : Prog LoopRes} (h : Ref p q) :
    ∀ (bits : List Bool) (ps : Probs) (e : Enc) (a : LoopRes) (bs : List Bool) (ps' : Probs) (e' : Enc),
      p.encRun bits ps e = some (a, bs, ps', e') → a.stop ≠ .fuel → q.encRun bits ps e = some (a, bs, ps', e') := by
  induction h with
  | fuel a0 q h0 =>
    intro bits ps e a bs ps' e' hr hne
    simp only [Prog.encRun, Option.some.injEq, Prod.mk.injEq] at hr
    obtain ⟨rfl, _⟩ := hr
    exact absurd h0 hne
  | refl p => intro bits ps e a bs ps' e' hr _; exact hr
  | bit i k k' _ ih =>
    intro bits ps e a bs ps' e' hr hne
    cases bits with
    | nil => simp only [Prog.encRun] at hr; exact absurd hr (by simp)
    | cons b bits =>
      simp only [Prog.encRun] at hr ⊢
      exact ih b _ _ _ _ _ _ _ hr hne
  | direct k k' _ ih =>
    intro bits ps e a bs ps' e' hr hne
    cases bits with
    | nil => simp only [Prog.encRun] at hr; exact absurd hr (by simp)
    | cons b bits =>
      simp only [Prog.encRun] at hr ⊢
      exact ih b _ _ _ _ _ _ _ hr hne

/-- one more unit of fuel refines the loop program -/
theorem loop_ref (pr : Params) (dictBuf : Nat) :
    ∀ (F : Nat) (rem : Option Nat) (c : Coder) (h : Hist) (acc : List Sym) (em : Nat),
      Ref (loopProg pr dictBuf F rem c h acc em) (loopProg pr dictBuf (F + 1) rem c h acc em) := by
  intro F
  induction F with
  | zero => intro rem c h acc em; exact Ref.fuel _ _ rfl
  | succ F ih =>
    intro rem c h acc em
    conv => lhs; rw [loopProg]
    conv => rhs; rw [loopProg]
    split
    · exact Ref.refl _
    · apply ref_bind
      intro s
      cases s with
      | lit b => exact ih _ _ _ _ _
      | mtch d l =>
        dsimp only
        repeat' split
        all_goals first
          | exact Ref.refl _
          | exact ih _ _ _ _ _
      | rep i l =>
        dsimp only
        repeat' split
        all_goals first
          | exact Ref.refl _
          | exact ih _ _ _ _ _
      | shortRep =>
        dsimp only
        repeat' split
        all_goals first
          | exact Ref.refl _
          | exact ih _ _ _ _ _

/-- the encoder's run on the loop program does not depend on the fuel once it suffices -/
theorem loop_encRun_mono (pr : Params) (dictBuf : Nat) (rem : Option Nat) (c : Coder) (h : Hist) (acc : List Sym)
    (em : Nat) (F : Nat) (bits : List Bool) (ps : Probs) (e : Enc) (a : LoopRes) (bs : List Bool) (ps' : Probs)
    (e' : Enc) (hr : (loopProg pr dictBuf F rem c h acc em).encRun bits ps e = some (a, bs, ps', e'))
    (hne : a.stop ≠ .fuel) :
    ∀ k, (loopProg pr dictBuf (F + k) rem c h acc em).encRun bits ps e = some (a, bs, ps', e') := by
  intro k
  induction k with
  | zero => exact hr
  | succ k ih => exact (loop_ref pr dictBuf (F + k) rem c h acc em).encRun _ _ _ _ _ _ _ ih hne

/-- `loop_rt_marker` with the exact symbol budget: `parse.length` symbols and the marker -/
theorem loop_rt_marker_sharp (hsym : SymRt) (pr : Params) (dictBuf : Nat) (hd : dictBuf ≤ END_DIST)
    (parse : List Sym) (mlen : Nat) (hm : 2 ≤ mlen ∧ mlen ≤ 273) :
    ∀ (c : Coder) (h : Hist) (c' : Coder) (h' : Hist) (fuel : Nat) (acc : List Sym) (em : Nat)
      (rest : List Bool),
      parseRun dictBuf parse c h = some (c', h') → parse.length < fuel →
      (loopProg pr dictBuf fuel none c h acc em).runBits
          (parseBits pr (parse ++ [.mtch END_DIST mlen]) c h ++ rest)
        = some ({ stop := .endMarker, coder := c'.apply (.mtch END_DIST mlen), hist := h',
                  parse := (.mtch END_DIST mlen) :: (parse.reverse ++ acc),
                  emitted := em + (h'.size - h.size) }, rest) := by
  induction parse with
  | nil =>
    intro c h c' h' fuel acc em rest hp hf
    simp only [parseRun, Option.some.injEq, Prod.mk.injEq] at hp
    obtain ⟨rfl, rfl⟩ := hp
    cases fuel with
    | zero => simp at hf
    | succ fuel =>
      have hb : parseBits pr ([] ++ [Sym.mtch END_DIST mlen]) c h
          = symBits pr (ctxOf c h) (.mtch END_DIST mlen) ++ [] := rfl
      rw [hb, List.append_nil, loop_marker hsym pr dictBuf fuel c h acc em rest hd mlen hm,
        Nat.sub_self, Nat.add_zero]
      rfl
  | cons s p ih =>
    intro c h c' h' fuel acc em rest hp hf
    cases fuel with
    | zero => simp at hf
    | succ fuel =>
      have hf' : p.length < fuel := by simp only [List.length_cons] at hf; omega
      have e1 : p.reverse ++ (s :: acc) = (s :: p).reverse ++ acc := by
        simp only [List.reverse_cons, List.append_assoc, List.singleton_append]
      obtain ⟨hok, hcase⟩ := parseRun_cons_inv hp
      rcases hcase with ⟨b, rfl, hrest⟩ | ⟨dist, len, hs, hc, hl1, hd1, hd2, hrest⟩
      · have hge := parseRun_size_le _ _ _ _ _ _ hrest
        rw [Array.size_push] at hge
        have hn : (none : Option Nat) ≠ some 0 := by intro e; cases e
        have e2 : em + 1 + (h'.size - (h.push b).size) = em + (h'.size - h.size) := by
          rw [Array.size_push]; omega
        rw [List.cons_append, parseBits_lit, List.append_assoc,
          loop_lit hsym pr dictBuf fuel none c h acc em _ b hok hn]
        simp only [Option.map_none]
        rw [ih _ _ _ _ _ _ _ _ hrest hf', e1, e2]
      · have hge := parseRun_size_le _ _ _ _ _ _ hrest
        rw [hist_copy_size] at hge
        have e2 : em + len + (h'.size - (h.copy dist len).size) = em + (h'.size - h.size) := by
          rw [hist_copy_size]; omega
        rw [List.cons_append, parseBits_copy pr s _ c h dist len hs hc hd1, List.append_assoc,
          loop_copy_none hsym pr dictBuf fuel c h acc em _ s dist len hok hs hc hd1 hd2]
        rw [ih _ _ _ _ _ _ _ _ hrest hf', e1, e2]

open Props.C01 in
/-- **LZMA round trip with end marker, uniform in the cap.**  The model encoder (symbol budget
`parse.length + 1`, or any larger one) produces ONE byte string; the model decoder, run on it followed by ANY
bytes, returns the denoted data, has consumed exactly the encoder's bytes and recovers the parse – for EVERY
output cap `≥ parse.length` (in particular every cap that admits the data). -/
theorem lzma_marker_uniform (pr : Params) (dictBuf : Nat) (hd : dictBuf ≤ END_DIST) (preset : Array Nat)
    (parse : List Sym) (mlen : Nat) (hm : 2 ≤ mlen ∧ mlen ≤ 273) (c' : Coder) (h' : Hist)
    (hp : parseRun dictBuf parse Coder.init (presetUsedOf preset dictBuf) = some (c', h')) :
    ∃ bytes,
      (∀ fuel, parse.length < fuel →
        encodeParse pr dictBuf (presetUsedOf preset dictBuf) none fuel (parse ++ [.mtch END_DIST mlen]) = some bytes) ∧
      (∀ b ∈ bytes, b < 256) ∧
      ∀ (rest : List Nat) (cap : Nat), parse.length ≤ cap →
        decodeRaw pr dictBuf preset none (bytes ++ rest) cap
          = .ok (h'.extract (presetUsedOf preset dictBuf).size h'.size) bytes.length
              (parse ++ [.mtch END_DIST mlen]) := by
  generalize hpu : presetUsedOf preset dictBuf = pu at *
  have hrun := loop_rt_marker_sharp symRt pr dictBuf hd parse mlen hm Coder.init pu c' h' (parse.length + 1)
    [] 0 [] hp (Nat.lt_succ_self _)
  simp only [List.append_nil, Nat.zero_add] at hrun
  obtain ⟨ps', e', henc0⟩ := Prog.runBits_encRun _ _
    (Array.replicate (numProbs pr.lc pr.lp) PROB_INIT) Enc.init _ _ hrun
  have hencF : ∀ fuel, parse.length < fuel →
      (loopProg pr dictBuf fuel none Coder.init pu [] 0).encRun
        (parseBits pr (parse ++ [.mtch END_DIST mlen]) Coder.init pu)
        (Array.replicate (numProbs pr.lc pr.lp) PROB_INIT) Enc.init
        = some (({ stop := .endMarker, coder := c'.apply (.mtch END_DIST mlen), hist := h',
                   parse := .mtch END_DIST mlen :: parse.reverse, emitted := h'.size - pu.size } : LoopRes),
                [], ps', e') := by
    intro fuel hf
    have := loop_encRun_mono pr dictBuf none Coder.init pu [] 0 (parse.length + 1) _ _ _ _ _ _ _ henc0
      (by intro h; cases h) (fuel - (parse.length + 1))
    rwa [show parse.length + 1 + (fuel - (parse.length + 1)) = fuel by omega] at this
  obtain ⟨_, _, _, _, _, _, _, _, hbytes, _, _⟩ :=
    rc_roundtrip _ _ _ (probsOk_fresh pr) _ _ _ henc0 []
  refine ⟨e'.bytes, ?_, hbytes, ?_⟩
  · intro fuel hf
    simp only [encodeParse, hencF fuel hf]
  · intro rest cap hcap
    have henc := hencF (cap + 1) (by omega)
    obtain ⟨d0, d', hinit, hdec, hinp, hover, hover0, hhead, _, _, hlen5⟩ :=
      rc_roundtrip _ _ _ (probsOk_fresh pr) _ _ _ henc rest
    obtain ⟨b0, tl, hbt⟩ : ∃ b0 tl, e'.bytes ++ rest = b0 :: tl := by
      cases hb : e'.bytes with
      | nil => rw [hb] at hlen5; simp at hlen5
      | cons b t => exact ⟨b, t ++ rest, by simp⟩
    have hb0 : b0 = 0 := by
      cases hb : e'.bytes with
      | nil => rw [hb] at hlen5; simp at hlen5
      | cons b t =>
        rw [hb] at hhead hbt
        simp only [List.head?_cons, Option.some.injEq] at hhead
        simp only [List.cons_append, List.cons.injEq] at hbt
        omega
    rw [hbt] at hinit ⊢
    rw [decodeRaw_eq pr dictBuf preset none b0 tl cap d0 hb0 hinit, hpu]
    simp only [hdec]
    rw [rawFinish_marker _ _ _ _ rfl hover0 hover]
    simp only [hinp, List.reverse_cons, List.reverse_reverse]
    have : (b0 :: tl).length - rest.length = e'.bytes.length := by
      rw [← hbt, List.length_append]; omega
    rw [this]

end LzmaVerif.Lzma

#print axioms LzmaVerif.Lzma.loop_ref
#print axioms LzmaVerif.Lzma.loop_rt_marker_sharp
#print axioms LzmaVerif.Lzma.lzma_marker_uniform
