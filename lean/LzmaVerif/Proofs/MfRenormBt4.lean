/-
  Simulation: the renormalising BT4 (`Model/Bt4Renorm.lean`) reports exactly the matches of the logical BT4
  (`Model/Bt4.lean`) - and logs the same accesses -, for every input, script, start value of `lz_pos` and
  normalisation threshold.  The tree walks rewrite the tree while they descend; the relation `TRel` between the
  two trees is carried through every write (`tree[ptr] = current_match`, `tree[ptr] = 0`, the re-link
  `tree[ptr1] = tree[pair]`).
-/
import LzmaVerif.Proofs.MfRenorm
namespace LzmaVerif.Mf.Bt4

/-- two `delta`s (N / L) of related entries: equal, or both rejected -/
def DRel (cs dN dL : Nat) : Prop := dN = dL ∨ (cs ≤ dN ∧ cs ≤ dL)

theorem DRel.of {cs lN lL a b : Nat} (h : ERel cs lN lL a b) : DRel cs (lN - a) (lL - b) := h.2.2

theorem DRel.eq_of_lt {cs dN dL : Nat} (h : DRel cs dN dL) (hl : dL < cs) : dN = dL := by
  unfold DRel at h; omega

theorem DRel.not_lt {cs dN dL : Nat} (h : DRel cs dN dL) (hl : ¬ dL < cs) : ¬ dN < cs := by
  unfold DRel at h; omega

/-- the simulation relation between a state of the renormalising finder (N) and of the logical one (L) -/
structure Sim (cs : Nat) (sN sL : St) : Prop where
  pos : sN.pos = sL.pos
  cp : sN.cyclicPos = sL.cyclicPos
  lzN : cs ≤ sN.lzPos
  lzL : cs ≤ sL.lzPos
  h2 : TRel cs sN.lzPos sL.lzPos sN.h2 sL.h2
  h3 : TRel cs sN.lzPos sL.lzPos sN.h3 sL.h3
  h4 : TRel cs sN.lzPos sL.lzPos sN.h4 sL.h4
  tree : TRel cs sN.lzPos sL.lzPos sN.tree sL.tree
  log : sN.log = sL.log

theorem initN_sim (P : Bt4Params) (c : Cfg) (logging : Bool) (lzStart : Nat)
    (hs : cyclicSize P c ≤ lzStart) :
    Sim (cyclicSize P c) (initN P c logging lzStart) (init P c logging) :=
  have hL : cyclicSize P c ≤ cyclicSize P c := Nat.le_refl _
  ⟨rfl, rfl, hs, hL, TRel.replicate hs hL _, TRel.replicate hs hL _, TRel.replicate hs hL _,
    TRel.replicate hs hL _, rfl⟩

/-! ### `move_pos` -/

theorem movePos_sim (P : Bt4Params) (c : Cfg) (dsize : Nat) {sN sL : St}
    (h : Sim (cyclicSize P c) sN sL) :
    Sim (cyclicSize P c) (movePos P c dsize sN).1 (movePos P c dsize sL).1 ∧
    (movePos P c dsize sN).2 = (movePos P c dsize sL).2 := by
  obtain ⟨a2, a3, a4, at_, acp, alz, apos, alog⟩ := sN
  obtain ⟨b2, b3, b4, bt, bcp, blz, bpos, blog⟩ := sL
  obtain ⟨hpos, hcp, hlN, hlL, h2, h3, h4, ht, hlog⟩ := h
  have e1 : apos = bpos := hpos
  have e2 : acp = bcp := hcp
  have e3 : alog = blog := hlog
  subst e1 e2 e3
  simp only [movePos]
  split <;> split <;>
    first
    | exact ⟨⟨rfl, rfl, Nat.le_succ_of_le hlN, Nat.le_succ_of_le hlL, h2.succ, h3.succ, h4.succ, ht.succ, rfl⟩, rfl⟩
    | exact ⟨⟨rfl, rfl, hlN, hlL, h2, h3, h4, ht, rfl⟩, rfl⟩
    | exact absurd rfl (by assumption)

theorem normalizeSt_sim {cs : Nat} {sN sL : St} (h : Sim cs sN sL) :
    Sim cs (normalizeSt (sN.lzPos - cs) sN) sL := by
  obtain ⟨hpos, hcp, hlN, hlL, h2, h3, h4, ht, hlog⟩ := h
  refine ⟨hpos, hcp, ?_, hlL, h2.norm hlN, h3.norm hlN, h4.norm hlN, ht.norm hlN, hlog⟩
  show cs ≤ sN.lzPos - (sN.lzPos - cs)
  omega

theorem movePosN_sim (N : NormParams) (hN : N.ok) (P : Bt4Params) (c : Cfg) (dsize : Nat) {sN sL : St}
    (h : Sim (cyclicSize P c) sN sL) :
    Sim (cyclicSize P c) (movePosN N P c dsize sN).1 (movePos P c dsize sL).1 ∧
    (movePosN N P c dsize sN).2 = (movePos P c dsize sL).2 := by
  have hm := movePos_sim P c dsize h
  unfold movePosN
  by_cases hc : (movePos P c dsize sN).2 ≠ 0 ∧ (movePos P c dsize sN).1.lzPos = N.maxPos
  · simp only [if_pos hc]
    refine ⟨?_, hm.2⟩
    have hoff : N.offBase - cyclicSize P c = (movePos P c dsize sN).1.lzPos - cyclicSize P c := by
      rw [hN, ← hc.2]
    rw [hoff]
    exact normalizeSt_sim hm.1
  · simp only [if_neg hc]
    exact hm

/-! ### the tree walks -/

theorem terminate_sim {cs lN lL : Nat} (hN : cs ≤ lN) (hL : cs ≤ lL) {tN tL : Array Nat}
    (h : TRel cs lN lL tN tL) (ptr0 ptr1 : Nat) (lg : Log) :
    TRel cs lN lL (terminate tN ptr0 ptr1 lg).1 (terminate tL ptr0 ptr1 lg).1 ∧
    (terminate tN ptr0 ptr1 lg).2 = (terminate tL ptr0 ptr1 lg).2 :=
  ⟨(h.set (ERel.zero hN hL) _).set (ERel.zero hN hL) _, rfl⟩

theorem relink_sim {cs lN lL : Nat} {tN tL : Array Nat}
    (h : TRel cs lN lL tN tL) (ptr0 ptr1 pair : Nat) (lg : Log) :
    TRel cs lN lL (relink tN ptr0 ptr1 pair lg).1 (relink tL ptr0 ptr1 pair lg).1 ∧
    (relink tN ptr0 ptr1 pair lg).2 = (relink tL ptr0 ptr1 pair lg).2 := by
  refine ⟨?_, rfl⟩
  unfold relink
  exact (h.set (h.get _) _).set ((h.set (h.get _) _).get _) _

/-- the tree walk of `find_matches` -/
theorem findLoop_sim (P : Bt4Params) (hP : P.ok) (data : Array UInt8) {cs lN lL : Nat}
    (hN : cs ≤ lN) (hL : cs ≤ lL) (p cp ll nl : Nat) :
    ∀ (depth : Nat) (tN tL : Array Nat) (ptr0 ptr1 len0 len1 curN curL lenBest : Nat) (ms : Array Match)
      (lg : Log), TRel cs lN lL tN tL → ERel cs lN lL curN curL →
      TRel cs lN lL
        (findLoop P data ⟨p, lN, cp, cs, ll, nl⟩ depth tN ptr0 ptr1 len0 len1 curN lenBest ms lg).1
        (findLoop P data ⟨p, lL, cp, cs, ll, nl⟩ depth tL ptr0 ptr1 len0 len1 curL lenBest ms lg).1 ∧
      (findLoop P data ⟨p, lN, cp, cs, ll, nl⟩ depth tN ptr0 ptr1 len0 len1 curN lenBest ms lg).2 =
        (findLoop P data ⟨p, lL, cp, cs, ll, nl⟩ depth tL ptr0 ptr1 len0 len1 curL lenBest ms lg).2 := by
  intro depth
  induction depth with
  | zero =>
    intro tN tL ptr0 ptr1 len0 len1 curN curL lenBest ms lg hT _
    simp only [findLoop]
    have := terminate_sim hN hL hT ptr0 ptr1 lg
    exact ⟨this.1, by rw [this.2]⟩
  | succ depth ih =>
    intro tN tL ptr0 ptr1 len0 len1 curN curL lenBest ms lg hT hcur
    simp only [findLoop, ok_stop hP, geOrGt_true]
    by_cases hlt : lL - curL < cs
    · have hd := hcur.delta_eq hlt
      have hltN : lN - curN < cs := by omega
      rw [hd]
      have g1 : decide (lL - curL ≥ cs) = false := decide_eq_false (by omega)
      simp only [g1, Bool.false_eq_true, if_false, pairOf]
      split
      · have := relink_sim hT ptr0 ptr1 (shl P (cp + (if geOrGt (!P.pairSelGt) (lL - curL) cp = true then cs else 0)
          - (lL - curL))) (lg.push (.extend p (min len0 len1) (lL - curL) ll))
        exact ⟨this.1, by rw [this.2]⟩
      · split
        · exact ih _ _ _ _ _ _ _ _ _ _ _ (hT.set hcur _) ((hT.set hcur _).get _)
        · exact ih _ _ _ _ _ _ _ _ _ _ _ (hT.set hcur _) ((hT.set hcur _).get _)
    · have hltN : ¬ lN - curN < cs := fun h => hlt (hcur.lt_iff.mp h)
      have g1 : decide (lL - curL ≥ cs) = true := decide_eq_true (by omega)
      have g2 : decide (lN - curN ≥ cs) = true := decide_eq_true (by omega)
      simp only [g1, g2, if_true]
      have := terminate_sim hN hL hT ptr0 ptr1 lg
      exact ⟨this.1, by rw [this.2]⟩

/-- the tree walk of the private `skip` -/
theorem skipLoop_sim (P : Bt4Params) (hP : P.ok) (data : Array UInt8) {cs lN lL : Nat}
    (hN : cs ≤ lN) (hL : cs ≤ lL) (p cp ll nl : Nat) :
    ∀ (depth : Nat) (tN tL : Array Nat) (ptr0 ptr1 len0 len1 curN curL : Nat) (lg : Log),
      TRel cs lN lL tN tL → ERel cs lN lL curN curL →
      TRel cs lN lL
        (skipLoop P data ⟨p, lN, cp, cs, ll, nl⟩ depth tN ptr0 ptr1 len0 len1 curN lg).1
        (skipLoop P data ⟨p, lL, cp, cs, ll, nl⟩ depth tL ptr0 ptr1 len0 len1 curL lg).1 ∧
      (skipLoop P data ⟨p, lN, cp, cs, ll, nl⟩ depth tN ptr0 ptr1 len0 len1 curN lg).2 =
        (skipLoop P data ⟨p, lL, cp, cs, ll, nl⟩ depth tL ptr0 ptr1 len0 len1 curL lg).2 := by
  intro depth
  induction depth with
  | zero =>
    intro tN tL ptr0 ptr1 len0 len1 curN curL lg hT _
    simp only [skipLoop]
    exact terminate_sim hN hL hT ptr0 ptr1 lg
  | succ depth ih =>
    intro tN tL ptr0 ptr1 len0 len1 curN curL lg hT hcur
    simp only [skipLoop, ok_stop hP, geOrGt_true]
    by_cases hlt : lL - curL < cs
    · have hd := hcur.delta_eq hlt
      rw [hd]
      have g1 : decide (lL - curL ≥ cs) = false := decide_eq_false (by omega)
      simp only [g1, Bool.false_eq_true, if_false, pairOf]
      split
      · split
        · exact relink_sim hT _ _ _ _
        · split
          · exact ih _ _ _ _ _ _ _ _ _ (hT.set hcur _) ((hT.set hcur _).get _)
          · exact ih _ _ _ _ _ _ _ _ _ (hT.set hcur _) ((hT.set hcur _).get _)
      · simp only [Bool.false_eq_true, if_false]
        split
        · exact ih _ _ _ _ _ _ _ _ _ (hT.set hcur _) ((hT.set hcur _).get _)
        · exact ih _ _ _ _ _ _ _ _ _ (hT.set hcur _) ((hT.set hcur _).get _)
    · have hltN : ¬ lN - curN < cs := fun h => hlt (hcur.lt_iff.mp h)
      have g1 : decide (lL - curL ≥ cs) = true := decide_eq_true (by omega)
      have g2 : decide (lN - curN ≥ cs) = true := decide_eq_true (by omega)
      simp only [g1, g2, if_true]
      exact terminate_sim hN hL hT ptr0 ptr1 lg

/-! ### the steps in projection form (the model destructures its state; definitional unfolding) -/

theorem skipTree_eq (P : Bt4Params) (c : Cfg) (data : Array UInt8) (s : St) (nl cur : Nat) :
    skipTree P c data s nl cur =
      { s with
        tree := (skipLoop P data (ctxOf P c s 0 nl) (depthLimit P c) s.tree (shl P s.cyclicPos + 1)
          (shl P s.cyclicPos) 0 0 cur s.log).1
        log := (skipLoop P data (ctxOf P c s 0 nl) (depthLimit P c) s.tree (shl P s.cyclicPos + 1)
          (shl P s.cyclicPos) 0 0 cur s.log).2 } := rfl

/-- `find_matches` after the hash candidates: bt4.rs:207-277 -/
def findTail (P : Bt4Params) (c : Cfg) (data : Array UInt8) (st : St) (cur ll nl lb : Nat)
    (ms : Array Match) (lg : Log) : St × Array Match :=
  if ms.size > 0 ∧ geOrGt P.niceStopGe lb nl = true then
    (skipTree P c data { st with log := lg } nl cur, ms)
  else
    let r := findLoop P data (ctxOf P c st ll nl) (depthLimit P c) st.tree (shl P st.cyclicPos + 1)
      (shl P st.cyclicPos) 0 0 cur (if lb < P.lenBestFloor then P.lenBestFloor else lb) ms lg
    ({ st with tree := r.1, log := r.2.2 }, r.2.1)

theorem findAfter_eq (P : Bt4Params) (c : Cfg) (data : Array UInt8) (s : St) (avail : Nat) :
    findAfter P c data (s, avail) =
      if avail < c.mlmax ∧ avail = 0 then (s, #[]) else
      let lenLimit := if avail < c.mlmax then avail else c.mlmax
      let niceLimit := if avail < c.mlmax ∧ c.niceLen > avail then avail else c.niceLen
      let hs := hashStage P c data s
      let cd := extendCands data (hs.st.pos - 1) lenLimit
        (hashCands P data (hs.st.pos - 1) (cyclicSize P c) hs.delta2 hs.delta3 hs.st.log)
      findTail P c data hs.st hs.cur lenLimit niceLimit cd.lenBest cd.ms cd.log := rfl

theorem skipOneAfter_eq (P : Bt4Params) (c : Cfg) (data : Array UInt8) (s : St) (avail : Nat) :
    skipOneAfter P c data (s, avail) =
      if avail < c.niceLen ∧ avail = 0 then s else
      skipTree P c data (hashStage P c data s).st (if avail < c.niceLen then avail else c.niceLen)
        (hashStage P c data s).cur := rfl

/-! ### hash stage and hash candidates -/

theorem hashStage_sim (P : Bt4Params) (c : Cfg) (data : Array UInt8) {cs : Nat} {sN sL : St}
    (h : Sim cs sN sL) :
    Sim cs (hashStage P c data sN).st (hashStage P c data sL).st ∧
    DRel cs (hashStage P c data sN).delta2 (hashStage P c data sL).delta2 ∧
    DRel cs (hashStage P c data sN).delta3 (hashStage P c data sL).delta3 ∧
    ERel cs (hashStage P c data sN).st.lzPos (hashStage P c data sL).st.lzPos
      (hashStage P c data sN).cur (hashStage P c data sL).cur := by
  obtain ⟨a2, a3, a4, at_, acp, alz, apos, alog⟩ := sN
  obtain ⟨b2, b3, b4, bt, bcp, blz, bpos, blog⟩ := sL
  obtain ⟨hpos, hcp, hlN, hlL, h2, h3, h4, ht, hlog⟩ := h
  have e1 : apos = bpos := hpos
  have e2 : acp = bcp := hcp
  have e3 : alog = blog := hlog
  subst e1 e2 e3
  exact ⟨⟨rfl, rfl, hlN, hlL, h2.set (ERel.self _ _ _) _, h3.set (ERel.self _ _ _) _,
    h4.set (ERel.self _ _ _) _, ht, rfl⟩, DRel.of (h2.get _), DRel.of (h3.get _), h4.get _⟩

/-- the two hash candidates and their extension: same `len_best`, matches and log (the `delta2` that is
    carried along may differ when no candidate was accepted; it is not used then) -/
theorem cands_sim (P : Bt4Params) (hP : P.ok) (data : Array UInt8) (p cs ll : Nat) {d2N d2L d3N d3L : Nat}
    (h2 : DRel cs d2N d2L) (h3 : DRel cs d3N d3L) (lg : Log) :
    (extendCands data p ll (hashCands P data p cs d2N d3N lg)).lenBest =
      (extendCands data p ll (hashCands P data p cs d2L d3L lg)).lenBest ∧
    (extendCands data p ll (hashCands P data p cs d2N d3N lg)).ms =
      (extendCands data p ll (hashCands P data p cs d2L d3L lg)).ms ∧
    (extendCands data p ll (hashCands P data p cs d2N d3N lg)).log =
      (extendCands data p ll (hashCands P data p cs d2L d3L lg)).log := by
  by_cases n2 : d2L < cs
  · have e2 := h2.eq_of_lt n2
    subst e2
    by_cases n3 : d3L < cs
    · have e3 := h3.eq_of_lt n3
      subst e3
      exact ⟨rfl, rfl, rfl⟩
    · have n3N := h3.not_lt n3
      simp only [hashCands, ok_d2 hP, ok_d3 hP, ltOrLe_true, decide_eq_false n3, decide_eq_false n3N,
        Bool.and_false, Bool.false_and, Bool.false_eq_true, if_false, and_self]
  · have n2N := h2.not_lt n2
    by_cases n3 : d3L < cs
    · have e3 := h3.eq_of_lt n3
      subst e3
      have neN : (d2N != d3N) = true := by simp only [bne_iff_ne, ne_eq]; omega
      have neL : (d2L != d3N) = true := by simp only [bne_iff_ne, ne_eq]; omega
      simp only [hashCands, ok_d2 hP, ok_d3 hP, ltOrLe_true, decide_eq_false n2, decide_eq_false n2N, neN, neL,
        Bool.false_and, Bool.true_and, Bool.false_eq_true, if_false]
      split
      · exact ⟨rfl, rfl, rfl⟩
      · simp only [extendCands, List.size_toArray, List.length_nil, Nat.lt_irrefl, gt_iff_lt, if_false, and_self]
    · have n3N := h3.not_lt n3
      simp only [hashCands, ok_d2 hP, ok_d3 hP, ltOrLe_true, decide_eq_false n2, decide_eq_false n2N,
        decide_eq_false n3, decide_eq_false n3N, Bool.and_false, Bool.false_and, Bool.false_eq_true, if_false,
        extendCands, List.size_toArray, List.length_nil, Nat.lt_irrefl, gt_iff_lt, and_self]

/-! ### `find_matches` and `skip` -/

theorem skipTree_sim (P : Bt4Params) (hP : P.ok) (c : Cfg) (data : Array UInt8) {sN sL : St}
    (h : Sim (cyclicSize P c) sN sL) (nl : Nat) {curN curL : Nat}
    (hcur : ERel (cyclicSize P c) sN.lzPos sL.lzPos curN curL) :
    Sim (cyclicSize P c) (skipTree P c data sN nl curN) (skipTree P c data sL nl curL) := by
  rw [skipTree_eq, skipTree_eq]
  unfold ctxOf
  rw [h.pos, h.cp, h.log]
  have key := skipLoop_sim P hP data h.lzN h.lzL (sL.pos - 1) sL.cyclicPos 0 nl (depthLimit P c) sN.tree sL.tree
    (shl P sL.cyclicPos + 1) (shl P sL.cyclicPos) 0 0 curN curL sL.log h.tree hcur
  exact ⟨rfl, rfl, h.lzN, h.lzL, h.h2, h.h3, h.h4, key.1, key.2⟩

theorem findTail_sim (P : Bt4Params) (hP : P.ok) (c : Cfg) (data : Array UInt8) {sN sL : St}
    (h : Sim (cyclicSize P c) sN sL) {curN curL : Nat}
    (hcur : ERel (cyclicSize P c) sN.lzPos sL.lzPos curN curL) (ll nl lb : Nat) (ms : Array Match) (lg : Log) :
    Sim (cyclicSize P c) (findTail P c data sN curN ll nl lb ms lg).1 (findTail P c data sL curL ll nl lb ms lg).1 ∧
    (findTail P c data sN curN ll nl lb ms lg).2 = (findTail P c data sL curL ll nl lb ms lg).2 := by
  unfold findTail
  by_cases hcond : ms.size > 0 ∧ geOrGt P.niceStopGe lb nl = true
  · rw [if_pos hcond, if_pos hcond]
    refine ⟨?_, rfl⟩
    exact skipTree_sim P hP c data (sN := { sN with log := lg }) (sL := { sL with log := lg })
      ⟨h.pos, h.cp, h.lzN, h.lzL, h.h2, h.h3, h.h4, h.tree, rfl⟩ _ hcur
  · rw [if_neg hcond, if_neg hcond]
    unfold ctxOf
    rw [h.pos, h.cp]
    have key := findLoop_sim P hP data h.lzN h.lzL (sL.pos - 1) sL.cyclicPos ll nl (depthLimit P c)
      sN.tree sL.tree (shl P sL.cyclicPos + 1) (shl P sL.cyclicPos) 0 0 curN curL
      (if lb < P.lenBestFloor then P.lenBestFloor else lb) ms lg h.tree hcur
    exact ⟨⟨rfl, rfl, h.lzN, h.lzL, h.h2, h.h3, h.h4, key.1, congrArg (·.2) key.2⟩, congrArg (·.1) key.2⟩

theorem findAfter_sim (P : Bt4Params) (hP : P.ok) (c : Cfg) (data : Array UInt8) {sN sL : St}
    (h : Sim (cyclicSize P c) sN sL) (avail : Nat) :
    Sim (cyclicSize P c) (findAfter P c data (sN, avail)).1 (findAfter P c data (sL, avail)).1 ∧
    (findAfter P c data (sN, avail)).2 = (findAfter P c data (sL, avail)).2 := by
  rw [findAfter_eq, findAfter_eq]
  by_cases hc : avail < c.mlmax ∧ avail = 0
  · rw [if_pos hc, if_pos hc]; exact ⟨h, rfl⟩
  · rw [if_neg hc, if_neg hc]
    obtain ⟨hS, hd2, hd3, hcur⟩ := hashStage_sim P c data h
    obtain ⟨c1, c2, c3⟩ := cands_sim P hP data ((hashStage P c data sL).st.pos - 1) (cyclicSize P c)
      (if avail < c.mlmax then avail else c.mlmax) hd2 hd3 (hashStage P c data sL).st.log
    simp only [hS.pos, hS.log, c1, c2, c3]
    exact findTail_sim P hP c data hS hcur _ _ _ _ _

theorem findN_sim (N : NormParams) (hN : N.ok) (P : Bt4Params) (hP : P.ok) (c : Cfg) (data : Array UInt8)
    {sN sL : St} (h : Sim (cyclicSize P c) sN sL) :
    Sim (cyclicSize P c) (findN N P c data sN).1 (find P c data sL).1 ∧
    (findN N P c data sN).2 = (find P c data sL).2 := by
  rw [find_eq_findAfter]
  unfold findN
  obtain ⟨hm1, hm2⟩ := movePosN_sim N hN P c data.size h
  rw [show movePosN N P c data.size sN = ((movePosN N P c data.size sN).1, (movePosN N P c data.size sN).2) from rfl,
    show movePos P c data.size sL = ((movePos P c data.size sL).1, (movePos P c data.size sL).2) from rfl, hm2]
  exact findAfter_sim P hP c data hm1 _

theorem skipOneN_sim (N : NormParams) (hN : N.ok) (P : Bt4Params) (hP : P.ok) (c : Cfg) (data : Array UInt8)
    {sN sL : St} (h : Sim (cyclicSize P c) sN sL) :
    Sim (cyclicSize P c) (skipOneN N P c data sN) (skipOne P c data sL) := by
  rw [skipOne_eq_skipOneAfter]
  unfold skipOneN
  obtain ⟨hm1, hm2⟩ := movePosN_sim N hN P c data.size h
  rw [show movePosN N P c data.size sN = ((movePosN N P c data.size sN).1, (movePosN N P c data.size sN).2) from rfl,
    show movePos P c data.size sL = ((movePos P c data.size sL).1, (movePos P c data.size sL).2) from rfl, hm2,
    skipOneAfter_eq, skipOneAfter_eq]
  split
  · exact hm1
  · obtain ⟨hS, _, _, hcur⟩ := hashStage_sim P c data hm1
    exact skipTree_sim P hP c data hS _ hcur

theorem skipN_sim (N : NormParams) (hN : N.ok) (P : Bt4Params) (hP : P.ok) (c : Cfg) (data : Array UInt8)
    (n : Nat) : ∀ {sN sL : St}, Sim (cyclicSize P c) sN sL →
      Sim (cyclicSize P c) (skipN N P c data n sN) (skip P c data n sL) := by
  induction n with
  | zero => intro sN sL h; exact h
  | succ n ih => intro sN sL h; exact ih (skipOneN_sim N hN P hP c data h)

theorem runOpN_sim (N : NormParams) (hN : N.ok) (P : Bt4Params) (hP : P.ok) (c : Cfg) (data : Array UInt8)
    (op : Nat) {sN sL : St} (h : Sim (cyclicSize P c) sN sL) (tr : Array (Nat × List Match)) :
    Sim (cyclicSize P c) (runOpN N P c data op sN tr).1 (runOp P c data op sL tr).1 ∧
    (runOpN N P c data op sN tr).2 = (runOp P c data op sL tr).2 := by
  unfold runOpN runOp
  by_cases h0 : op = 0
  · simp only [h0, if_true]
    obtain ⟨f1, f2⟩ := findN_sim N hN P hP c data h
    exact ⟨f1, by rw [f2, h.pos]⟩
  · simp only [h0, if_false]
    exact ⟨skipN_sim N hN P hP c data op h, trivial⟩

theorem runOpsN_sim (N : NormParams) (hN : N.ok) (P : Bt4Params) (hP : P.ok) (c : Cfg) (data : Array UInt8)
    (script : List Nat) : ∀ {sN sL : St} (tr : Array (Nat × List Match)), Sim (cyclicSize P c) sN sL →
      Sim (cyclicSize P c) (runOpsN N P c data script sN tr).1 (runOps P c data script sL tr).1 ∧
      (runOpsN N P c data script sN tr).2 = (runOps P c data script sL tr).2 := by
  induction script with
  | nil => intro sN sL tr h; exact ⟨h, rfl⟩
  | cons op rest ih =>
    intro sN sL tr h
    simp only [runOpsN, runOps, h.pos]
    split
    · exact ⟨h, rfl⟩
    · obtain ⟨r1, r2⟩ := runOpN_sim N hN P hP c data op h tr
      rw [show runOpN N P c data op sN tr = ((runOpN N P c data op sN tr).1, (runOpN N P c data op sN tr).2) from rfl,
        show runOp P c data op sL tr = ((runOp P c data op sL tr).1, (runOp P c data op sL tr).2) from rfl, r2]
      exact ih _ r1

/-- `lz_pos` of the renormalising finder stays in `[cyclic_size, maxPos)` -/
theorem movePosN_lz_bounds (N : NormParams) (hN : N.ok) (P : Bt4Params) (c : Cfg) (dsize : Nat) (s : St)
    (hlo : cyclicSize P c ≤ s.lzPos) (hhi : s.lzPos < N.maxPos) :
    cyclicSize P c ≤ (movePosN N P c dsize s).1.lzPos ∧ (movePosN N P c dsize s).1.lzPos < N.maxPos := by
  have hstep : (movePos P c dsize s).1.lzPos = s.lzPos ∨
      ((movePos P c dsize s).2 ≠ 0 ∧ (movePos P c dsize s).1.lzPos = s.lzPos + 1) := by
    obtain ⟨a2, a3, a4, at_, acp, alz, apos, alog⟩ := s
    simp only [movePos]
    split <;> split <;> first | (left; rfl) | (right; exact ⟨by assumption, rfl⟩) | exact absurd rfl (by assumption)
  unfold movePosN
  by_cases hc : (movePos P c dsize s).2 ≠ 0 ∧ (movePos P c dsize s).1.lzPos = N.maxPos
  · simp only [if_pos hc, normalizeSt, show N.offBase = N.maxPos from hN]
    rw [hc.2]
    rcases hstep with h1 | h1 <;> constructor <;> omega
  · simp only [if_neg hc]
    rcases hstep with h1 | h1
    · rw [h1]; exact ⟨hlo, hhi⟩
    · have : (movePos P c dsize s).1.lzPos ≠ N.maxPos := fun e => hc ⟨h1.1, e⟩
      constructor <;> omega

/-- `cyclic_size ≤ lz_pos < maxPos` -/
def LzB (N : NormParams) (P : Bt4Params) (c : Cfg) (s : St) : Prop :=
  cyclicSize P c ≤ s.lzPos ∧ s.lzPos < N.maxPos

theorem hashStage_lzPos (P : Bt4Params) (c : Cfg) (data : Array UInt8) (s : St) :
    (hashStage P c data s).st.lzPos = s.lzPos := by
  obtain ⟨a2, a3, a4, at_, acp, alz, apos, alog⟩ := s; rfl

theorem skipTree_lzPos (P : Bt4Params) (c : Cfg) (data : Array UInt8) (s : St) (nl cur : Nat) :
    (skipTree P c data s nl cur).lzPos = s.lzPos := by rw [skipTree_eq]

theorem findTail_lzPos (P : Bt4Params) (c : Cfg) (data : Array UInt8) (st : St) (cur ll nl lb : Nat)
    (ms : Array Match) (lg : Log) : (findTail P c data st cur ll nl lb ms lg).1.lzPos = st.lzPos := by
  unfold findTail
  by_cases hcond : ms.size > 0 ∧ geOrGt P.niceStopGe lb nl = true
  · rw [if_pos hcond, skipTree_lzPos]
  · rw [if_neg hcond]

theorem findAfter_lzPos (P : Bt4Params) (c : Cfg) (data : Array UInt8) (s : St) (avail : Nat) :
    (findAfter P c data (s, avail)).1.lzPos = s.lzPos := by
  rw [findAfter_eq]
  by_cases hc : avail < c.mlmax ∧ avail = 0
  · rw [if_pos hc]
  · rw [if_neg hc]
    simp only [findTail_lzPos]
    exact hashStage_lzPos P c data s

theorem skipOneAfter_lzPos (P : Bt4Params) (c : Cfg) (data : Array UInt8) (s : St) (avail : Nat) :
    (skipOneAfter P c data (s, avail)).lzPos = s.lzPos := by
  rw [skipOneAfter_eq]
  by_cases hc : avail < c.niceLen ∧ avail = 0
  · rw [if_pos hc]
  · rw [if_neg hc, skipTree_lzPos]; exact hashStage_lzPos P c data s

theorem findN_lzB (N : NormParams) (hN : N.ok) (P : Bt4Params) (c : Cfg) (data : Array UInt8) (s : St)
    (h : LzB N P c s) : LzB N P c (findN N P c data s).1 := by
  unfold LzB findN
  rw [show movePosN N P c data.size s = ((movePosN N P c data.size s).1, (movePosN N P c data.size s).2) from rfl,
    findAfter_lzPos]
  exact movePosN_lz_bounds N hN P c data.size s h.1 h.2

theorem skipN_lzB (N : NormParams) (hN : N.ok) (P : Bt4Params) (c : Cfg) (data : Array UInt8) (n : Nat) :
    ∀ s, LzB N P c s → LzB N P c (skipN N P c data n s) := by
  induction n with
  | zero => intro s h; exact h
  | succ n ih =>
    intro s h
    refine ih _ ?_
    unfold LzB skipOneN
    rw [show movePosN N P c data.size s = ((movePosN N P c data.size s).1, (movePosN N P c data.size s).2) from rfl,
      skipOneAfter_lzPos]
    exact movePosN_lz_bounds N hN P c data.size s h.1 h.2

theorem runOpsN_lzB (N : NormParams) (hN : N.ok) (P : Bt4Params) (c : Cfg) (data : Array UInt8)
    (script : List Nat) : ∀ (s : St) (tr : Array (Nat × List Match)), LzB N P c s →
      LzB N P c (runOpsN N P c data script s tr).1 := by
  induction script with
  | nil => intro s tr h; exact h
  | cons op rest ih =>
    intro s tr h
    simp only [runOpsN]
    split
    · exact h
    · rw [show runOpN N P c data op s tr = ((runOpN N P c data op s tr).1, (runOpN N P c data op s tr).2) from rfl]
      refine ih _ _ ?_
      unfold runOpN
      split
      · exact findN_lzB N hN P c data s h
      · exact skipN_lzB N hN P c data op s h

theorem runScriptN_lz_lt (N : NormParams) (hN : N.ok) (P : Bt4Params) (c : Cfg) (data : Array UInt8)
    (lzStart : Nat) (script : List Nat) (logging : Bool)
    (hs : cyclicSize P c ≤ lzStart) (hlt : lzStart < N.maxPos) :
    (runScriptN N P c data lzStart script logging).1.lzPos < N.maxPos := by
  unfold runScriptN
  exact (runOpsN_lzB N hN P c data script _ #[] ⟨hs, hlt⟩).2

end LzmaVerif.Mf.Bt4
