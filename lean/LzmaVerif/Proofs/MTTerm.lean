import LzmaVerif.Proofs.MTCoord
/-
Termination of the multi-threaded reader protocol under every scheduler (C09): a measure `mu` that
strictly decreases along every enabled step of every thread.
-/
namespace LzmaVerif.MT

/-- remaining work of a worker, prepaying for the message it will send (8) -/
def rank : WPc → Nat
  | .exited => 0 | .waiting => 0 | .steal => 1 | .chkShutdown => 2 | .decr => 3
  | .send _ => 12 | .work _ => 13 | .got _ => 14
  | .failDecr => 11 | .failSet => 10 | .failWake => 9 | .panicked => 9

/-- position of the coordinator inside one iteration of its loop; `push` prepays for the queue
    entry (14), the wake-up (1) and the possible spawn (3) -/
def pcRank : CPc → Nat
  | .idle (some .done) => 0 | .idle (some .err) => 0 | .idle _ => 7 | .dropped => 0
  | .top => 6 | .chkErr => 5 | .byState => 4 | .tryRecv => 3 | .chkQueue => 2 | .source => 1
  | .recvReading => 1 | .recvDraining => 3 | .spawnChk => 10 | .push _ => 26

def stRank : CState → Nat
  | .reading => 12 | .draining => 6 | .finished => 0 | .error => 0

/-- 1 while the unit being pushed has not been counted in `nextDispatch` yet -/
def inPush : CPc → Nat
  | .push _ => 1 | .spawnChk => 1 | _ => 0

/-- source units not yet handed to `push` -/
def remOf (u nd : Nat) (pc : CPc) : Nat := u - nd - inPush pc

/-- what the final `drop` may cost: it wakes every waiting worker -/
def dropPot (pc : CPc) (n : Nat) : Nat := if pc = .dropped then 0 else n + 1

def mu (s : Sys) : Nat :=
  pcRank s.pc + stRank s.st + 26 * remOf s.cfg.units.length s.nextDispatch s.pc
    + 14 * s.queue.length + 8 * s.chan.length + 2 * s.ooo.length
    + sumW rank s.ws + dropPot s.pc s.ws.length

theorem sumW_wakeOne_rank (ws : List WPc) : sumW rank (wakeOne ws) ≤ sumW rank ws + 1 := by
  induction ws with
  | nil => simp [wakeOne, sumW]
  | cons a r ih => cases a <;> simp only [wakeOne, sumW, rank] <;> omega

theorem sumW_wakeAll_rank (ws : List WPc) : sumW rank (wakeAll ws) ≤ sumW rank ws + ws.length := by
  induction ws with
  | nil => simp [wakeAll, sumW]
  | cons a r ih =>
    have : wakeAll (a :: r) = (if a = .waiting then .steal else a) :: wakeAll r := rfl
    rw [this]
    cases a <;> simp [sumW, rank] <;> omega

/-! ### workers -/

theorem mu_move (s : Sys) (i : Nat) (old new : WPc) (q' : List Nat) (c' : List Msg)
    (e' sh' : Bool) (a' : Nat) (hold : s.ws[i]? = some old)
    (hle : 14 * q'.length + 8 * c'.length + rank new < 14 * s.queue.length + 8 * s.chan.length + rank old) :
    mu { s with queue := q', chan := c', errStored := e', shutdown := sh', active := a',
                ws := s.ws.set i new } < mu s := by
  have := sumW_set rank s.ws i old new hold
  simp only [mu, List.length_set]
  omega

theorem worker_step_mu (s s' : Sys) (i : Nat) (hs : step s (.worker i) = some s') : mu s' < mu s := by
  simp only [step, workerStep] at hs
  split at hs
  · simp at hs
  · rename_i pc hpc
    cases pc <;> simp only at hs
    · split at hs <;> simp at hs <;> subst hs
      · have hm := mu_move s i .chkShutdown .exited s.queue s.chan s.errStored s.shutdown s.active hpc
          (by simp only [rank]; omega)
        exact hm
      · have hm := mu_move s i .chkShutdown .steal s.queue s.chan s.errStored s.shutdown s.active hpc
          (by simp only [rank]; omega)
        exact hm
    · split at hs
      · rename_i seq rest hq
        simp at hs; subst hs
        have hm := mu_move s i .steal (.got seq) rest s.chan s.errStored s.shutdown s.active hpc
          (by rw [hq]; simp only [rank, List.length_cons]; omega)
        exact hm
      · split at hs <;> simp at hs <;> subst hs
        · have hm := mu_move s i .steal .exited s.queue s.chan s.errStored s.shutdown s.active hpc
            (by simp only [rank]; omega)
          exact hm
        · have hm := mu_move s i .steal .waiting s.queue s.chan s.errStored s.shutdown s.active hpc
            (by simp only [rank]; omega)
          exact hm
    · simp at hs
    · rename_i seq
      simp at hs; subst hs
      have hm := mu_move s i (.got seq) (.work seq) s.queue s.chan s.errStored s.shutdown (s.active + 1) hpc
        (by simp only [rank]; omega)
      exact hm
    · rename_i seq
      split at hs <;> simp at hs <;> subst hs
      · have hm := mu_move s i (.work seq) (.send seq) s.queue s.chan s.errStored s.shutdown s.active hpc
          (by simp only [rank]; omega)
        exact hm
      · have hm := mu_move s i (.work seq) .failDecr s.queue s.chan s.errStored s.shutdown s.active hpc
          (by simp only [rank]; omega)
        exact hm
      · have hm := mu_move s i (.work seq) .panicked s.queue s.chan s.errStored s.shutdown s.active hpc
          (by simp only [rank]; omega)
        exact hm
    · rename_i seq
      simp at hs; subst hs
      have hm := mu_move s i (.send seq) .decr s.queue (s.chan ++ [.result seq]) s.errStored s.shutdown s.active hpc
        (by simp only [rank, List.length_append, List.length_singleton]; omega)
      exact hm
    · simp at hs; subst hs
      have hm := mu_move s i .decr .chkShutdown s.queue s.chan s.errStored s.shutdown (s.active - 1) hpc
        (by simp only [rank]; omega)
      exact hm
    · simp at hs; subst hs
      have hm := mu_move s i .failDecr .failSet s.queue s.chan s.errStored s.shutdown (s.active - 1) hpc
        (by simp only [rank]; omega)
      exact hm
    · simp at hs; subst hs
      have hm := mu_move s i .failSet .failWake s.queue s.chan true true s.active hpc
        (by simp only [rank]; omega)
      exact hm
    · simp at hs; subst hs
      have hm := mu_move s i .failWake .exited s.queue (s.chan ++ [.wake]) s.errStored s.shutdown s.active hpc
        (by simp only [rank, List.length_append, List.length_singleton]; omega)
      exact hm
    · simp at hs; subst hs
      have hm := mu_move s i .panicked .exited s.queue (s.chan ++ [.wake]) true true s.active hpc
        (by simp only [rank, List.length_append, List.length_singleton]; omega)
      exact hm
    · simp at hs

/-! ### caller -/

theorem caller_step_mu (s s' : Sys) (b : Bool) (hs : callerStep s b = some s') : mu s' < mu s := by
  simp only [callerStep] at hs
  split at hs
  · rename_i last hp
    split at hs
    · simp at hs; subst hs
      have h1 := sumW_wakeAll_rank s.ws
      simp only [mu, hp, dropPot, remOf, inPush, pcRank, reduceCtorEq, ↓reduceIte]
      omega
    · split at hs
      · simp at hs
      · simp at hs
      · rename_i hl1 hl2
        simp at hs; subst hs
        have hr : pcRank (.idle last) = 7 := by
          cases last with
          | none => rfl
          | some r => cases r <;> simp_all [pcRank]
        have hr1 : pcRank .top = 6 := rfl
        simp only [mu, hp, hr, hr1, dropPot, remOf, inPush, reduceCtorEq, ↓reduceIte]
        omega
  · simp at hs

/-! ### coordinator -/

theorem onMsg_mu (s : Sys) (m : Msg) (rest : List Msg) (hc : s.chan = m :: rest)
    (hpc : 1 ≤ pcRank s.pc) (hip : inPush s.pc = 0) (hnd : s.pc ≠ .dropped) :
    mu (onMsg s m rest) < mu s := by
  have hd : dropPot s.pc s.ws.length = s.ws.length + 1 := by simp [dropPot, hnd]
  have hd1 : dropPot .top s.ws.length = s.ws.length + 1 := by simp [dropPot]
  have hd2 : ∀ q, dropPot (.idle (some (.data q))) s.ws.length = s.ws.length + 1 := by simp [dropPot]
  have hr1 : pcRank .top = 6 := rfl
  have hr2 : ∀ q, pcRank (.idle (some (.data q))) = 7 := fun _ => rfl
  have hi1 : inPush .top = 0 := rfl
  have hi2 : ∀ q, inPush (.idle (some (.data q))) = 0 := fun _ => rfl
  cases m with
  | wake =>
    simp only [onMsg, mu, hc, hd, hd1, hr1, hi1, remOf, hip, List.length_cons]
    omega
  | result seq =>
    simp only [onMsg]
    split
    · simp only [mu, hc, hd, hd2, hr2, hi2, remOf, hip, List.length_cons]
      omega
    · simp only [mu, hc, hd, hd1, hr1, hi1, remOf, hip, List.length_cons]
      omega

theorem coord_step_mu (s s' : Sys) (h : Inv s) (hs : coordStep s = some s') : mu s' < mu s := by
  cases hp : s.pc with
  | idle l => simp [coordStep, hp] at hs
  | dropped => simp [coordStep, hp] at hs
  | top =>
    simp only [coordStep, hp] at hs
    split at hs <;> simp at hs <;> subst hs
    · rename_i hmem
      have h1 := List.length_erase_of_mem hmem
      have h2 := List.length_pos_of_mem hmem
      simp only [mu, hp, h1, dropPot, remOf, inPush, pcRank, reduceCtorEq, ↓reduceIte]
      omega
    · simp only [mu, hp, dropPot, remOf, inPush, pcRank, reduceCtorEq, ↓reduceIte]
      omega
  | chkErr =>
    simp only [coordStep, hp] at hs
    split at hs <;> simp at hs <;> subst hs
    · simp only [mu, hp, dropPot, remOf, inPush, pcRank, stRank, reduceCtorEq, ↓reduceIte]
      omega
    · simp only [mu, hp, dropPot, remOf, inPush, pcRank, reduceCtorEq, ↓reduceIte]
      omega
  | byState =>
    simp only [coordStep, hp] at hs
    split at hs
    · simp at hs; subst hs
      simp only [mu, hp, dropPot, remOf, inPush, pcRank, reduceCtorEq, ↓reduceIte]
      omega
    · rename_i hst
      split at hs
      · split at hs <;> simp at hs <;> subst hs
        · simp only [mu, hp, hst, dropPot, remOf, inPush, pcRank, stRank, reduceCtorEq, ↓reduceIte]
          omega
        · simp only [mu, hp, dropPot, remOf, inPush, pcRank, reduceCtorEq, ↓reduceIte]
          omega
      · simp at hs; subst hs
        simp only [mu, hp, dropPot, remOf, inPush, pcRank, reduceCtorEq, ↓reduceIte]
        omega
    · simp at hs; subst hs
      simp only [mu, hp, dropPot, remOf, inPush, pcRank, reduceCtorEq, ↓reduceIte]
      omega
    · simp at hs; subst hs
      simp only [mu, hp, dropPot, remOf, inPush, pcRank, reduceCtorEq, ↓reduceIte]
      omega
  | tryRecv =>
    cases hc : s.chan with
    | nil =>
      simp only [coordStep, hp, hc] at hs
      simp at hs; subst hs
      simp only [mu, hp, hc, dropPot, remOf, inPush, pcRank, reduceCtorEq, ↓reduceIte]
      omega
    | cons m rest =>
      simp only [coordStep, hp, hc] at hs
      simp at hs; subst hs
      exact onMsg_mu s m rest hc (by simp [hp, pcRank]) (by simp [hp, inPush]) (by simp [hp])
  | chkQueue =>
    simp only [coordStep, hp] at hs
    split at hs <;> simp at hs <;> subst hs
    · simp only [mu, hp, dropPot, remOf, inPush, pcRank, reduceCtorEq, ↓reduceIte]
      omega
    · simp only [mu, hp, dropPot, remOf, inPush, pcRank, reduceCtorEq, ↓reduceIte]
      omega
  | source =>
    have hst : s.st = .reading := h.readSt (by simp [hp, readPc])
    simp only [coordStep, hp] at hs
    split at hs
    · rename_i hlt
      simp at hs; subst hs
      simp only [mu, hp, dropPot, remOf, inPush, pcRank, reduceCtorEq, ↓reduceIte]
      omega
    · split at hs <;> simp at hs <;> subst hs
      · simp only [mu, hp, hst, dropPot, remOf, inPush, pcRank, stRank, reduceCtorEq, ↓reduceIte]
        omega
      · simp only [mu, hp, hst, dropPot, remOf, inPush, pcRank, stRank, reduceCtorEq, ↓reduceIte]
        omega
  | push q =>
    simp only [coordStep, hp] at hs
    simp at hs; subst hs
    have h1 := sumW_wakeOne_rank s.ws
    simp only [mu, hp, wakeOne_length, dropPot, remOf, inPush, pcRank, reduceCtorEq, ↓reduceIte,
      List.length_append, List.length_singleton]
    omega
  | spawnChk =>
    simp only [coordStep, hp] at hs
    -- the continuation is `top` or (fused end of the source) `source`: both rank below `spawnChk`
    split at hs <;> simp at hs <;> subst hs
    · by_cases hf : s.cfg.endFused = true ∧ s.nextDispatch + 1 = s.cfg.units.length
      · simp only [mu, hp, hf, and_self, dropPot, remOf, inPush, pcRank, reduceCtorEq, ↓reduceIte,
          List.length_append, List.length_singleton, sumW_append, sumW, rank]
        omega
      · simp only [mu, hp, hf, dropPot, remOf, inPush, pcRank, reduceCtorEq, ↓reduceIte,
          List.length_append, List.length_singleton, sumW_append, sumW, rank]
        omega
    · by_cases hf : s.cfg.endFused = true ∧ s.nextDispatch + 1 = s.cfg.units.length
      · simp only [mu, hp, hf, and_self, dropPot, remOf, inPush, pcRank, reduceCtorEq, ↓reduceIte]
        omega
      · simp only [mu, hp, hf, dropPot, remOf, inPush, pcRank, reduceCtorEq, ↓reduceIte]
        omega
  | recvReading =>
    cases hc : s.chan with
    | nil => simp [coordStep, hp, hc] at hs
    | cons m rest =>
      simp only [coordStep, hp, hc] at hs
      simp at hs; subst hs
      exact onMsg_mu s m rest hc (by simp [hp, pcRank]) (by simp [hp, inPush]) (by simp [hp])
  | recvDraining =>
    cases hc : s.chan with
    | nil => simp [coordStep, hp, hc] at hs
    | cons m rest =>
      simp only [coordStep, hp, hc] at hs
      simp at hs; subst hs
      exact onMsg_mu s m rest hc (by simp [hp, pcRank]) (by simp [hp, inPush]) (by simp [hp])

/-- every enabled step of every thread strictly decreases `mu` (the invariant is used once: the
    source is only consulted in state `Reading`) -/
theorem step_mu (s s' : Sys) (l : Label) (h : Inv s) (hs : step s l = some s') : mu s' < mu s := by
  cases l with
  | coord => exact coord_step_mu s s' h hs
  | call => exact caller_step_mu s s' false hs
  | drop => exact caller_step_mu s s' true hs
  | worker i => exact worker_step_mu s s' i hs

theorem run_mu (sched : List Label) :
    ∀ s s', Inv s → runSched s sched = some s' → sched.length + mu s' ≤ mu s := by
  induction sched with
  | nil => intro s s' _ hr; simp [runSched] at hr; subst hr; simp
  | cons t ts ih =>
    intro s s' h hr
    simp only [runSched] at hr
    cases hst : step s t with
    | none => rw [hst] at hr; simp at hr
    | some s1 =>
      rw [hst] at hr
      have h1 := ih s1 s' (step_inv s s1 t h hst) hr
      have h2 := step_mu s s1 t h hst
      simp only [List.length_cons]; omega

theorem mu_init (cfg : Cfg) : mu (init cfg) = 26 * cfg.units.length + 3 * cfg.initialWorkers + 20 := by
  simp only [mu, init, sumW_replicate, List.length_replicate, dropPot, remOf, inPush, pcRank, stRank,
    rank, reduceCtorEq, ↓reduceIte, List.length_nil]
  omega

end LzmaVerif.MT
