import LzmaVerif.Proofs.EncWindowInv
/-!
# The windowed encoder run simulates the window-free reference run (`refSymbol`), step by step
-/
namespace LzmaVerif.EncWindow

/-- side conditions on the parameters -/
structure Params.WF (P : Params) : Prop where
  mlm_pos : 1 ≤ P.matchLenMax
  /-- `required_for_flushing ≤ match_len_max` (4, or `nice_len ≤ 273`) -/
  flush_le : P.reqFlush ≤ P.matchLenMax
  /-- `debug_assert!(required_for_flushing >= required_for_finishing)` -/
  fin_le : P.reqFinish ≤ P.reqFlush
  /-- THE condition on `EXTRA_SIZE_AFTER`: it covers the read-ahead of the search -/
  ahead_le : P.maxAhead ≤ P.extraAfter
  /-- the symbol being coded is not moved out of the buffer -/
  ahead_before : P.maxAhead ≤ P.keepBefore
  kb_pos : 1 ≤ P.keepBefore
  /-- views are capped (see `Params.capViews`) -/
  cap : P.capViews = true

/-- a view is what the reference shows, and lies within the read-ahead bound -/
def GoodView (P : Params) (inp : List Nat) (v : View) : Prop :=
  v = refView P inp v.symStart v.pos ∧ v.symStart ≤ v.pos ∧ v.pos - v.symStart ≤ P.maxAhead ∧ v.pos < inp.length

structure SInv (P : Params) (s : St (List Nat)) (fed : List Nat) : Prop where
  win : WInv P s.win fed
  ra_ge : -1 ≤ s.readAhead
  /-- the symbol being coded is in the buffer -/
  ra_le : s.readAhead ≤ s.win.readPos
  ra_lt : s.readAhead + 1 ≤ P.maxAhead
  not_stuck : s.stuck = false

structure Sim (P : Params) (inp : List Nat) (s : St (List Nat)) (c : RSt) : Prop where
  rp : c.readPos = (s.win.base : Int) + s.win.readPos
  ra : c.readAhead = s.readAhead
  tr : c.trace = s.trace
  good : ∀ v ∈ s.trace, GoodView P inp v

/-- a step of the encoder does not touch these -/
def SameWin (w w' : Win (List Nat)) : Prop :=
  w'.writePos = w.writePos ∧ w'.base = w.base ∧ w'.readLimit = w.readLimit ∧ w'.finishing = w.finishing ∧ w'.buf = w.buf

theorem SameWin.refl (w : Win (List Nat)) : SameWin w w := ⟨rfl, rfl, rfl, rfl, rfl⟩

theorem SameWin.trans {a b c : Win (List Nat)} (h1 : SameWin a b) (h2 : SameWin b c) : SameWin a c := by
  obtain ⟨a1, a2, a3, a4, a5⟩ := h1
  obtain ⟨b1, b2, b3, b4, b5⟩ := h2
  exact ⟨b1.trans a1, b2.trans a2, b3.trans a3, b4.trans a4, b5.trans a5⟩

/-! ## One view -/

theorem mkView_eq_refView (P : Params) (hcap : P.capViews = true) (w : Win (List Nat)) (fed t inp : List Nat) (e ret : Nat)
    (hcontent : w.buf.take w.writePos = fed.drop w.base) (hfl : fed.length = w.base + w.writePos)
    (hlb : w.base = 0 ∨ (P.keepBefore : Int) ≤ w.readPos)
    (h0 : 0 ≤ w.readPos) (hlt : w.readPos + 1 ≤ w.writePos) (hinp : fed ++ t = inp)
    (havail : min (w.writePos - w.readPos.toNat) (P.keepAfter - (w.base + w.readPos.toNat - e)) =
      min (inp.length - (w.base + w.readPos.toNat)) (P.keepAfter - (w.base + w.readPos.toNat - e)))
    (hok : (ret != 0) = decide (P.reqFinish ≤ inp.length - (w.base + w.readPos.toNat)))
    (hlim : min ret P.matchLenMax = if P.reqFinish ≤ inp.length - (w.base + w.readPos.toNat)
      then min (inp.length - (w.base + w.readPos.toNat)) P.matchLenMax else 0) :
    mkView listBuf P w e ret = refView P inp e (w.base + w.readPos.toNat) := by
  have hil : inp.length = fed.length + t.length := by rw [← hinp, List.length_append]
  generalize hr : w.readPos.toNat = r at *
  have hr' : w.readPos = (r : Int) := by omega
  have hkb : P.keepBefore = P.extraBefore + P.dictSize := rfl
  unfold mkView refView
  simp only [hr, listBuf, hcap, if_true, havail, hok, hlim]
  congr 1
  · -- ahead
    generalize hn : min (inp.length - (w.base + r)) (P.keepAfter - (w.base + r - e)) = n at *
    have hn' : r + n ≤ w.writePos := by omega
    rw [slice_of_take hcontent r n hn', slice_of_prefix hinp (w.base + r) n (by omega)]
  · -- back
    generalize hb : min (w.base + r) P.dictSize = b
    have hbr : b ≤ r := by
      rcases hlb with h | h
      · omega
      · omega
    rw [slice_of_take hcontent (r - b) b (by omega), slice_of_prefix hinp (w.base + (r - b)) b (by omega)]
    congr 2
    omega

/-! ## One `move_pos` -/

theorem mfStep_sim (P : Params) (hP : P.WF) (s : St (List Nat)) (c : RSt) (fed t inp : List Nat) (e : Nat)
    (hw : WInv P s.win fed) (hinp : fed ++ t = inp) (hsim : Sim P inp s c)
    (he : (e : Int) ≤ s.win.base + s.win.readPos + 1)
    (hroom : s.win.readPos + 2 ≤ s.win.writePos)
    (hahead : (s.win.base : Int) + s.win.readPos + 1 - e ≤ P.maxAhead)
    (hcond : (s.win.finishing = true ∧ t = []) ∨
      (s.win.finishing = false ∧ (e : Int) + P.keepAfter ≤ s.win.base + s.win.writePos)) :
    let s' := mfStep listBuf P e s
    WInv P s'.win fed ∧ Sim P inp s' (refMf P inp e c) ∧ SameWin s.win s'.win ∧
    s'.win.readPos = s.win.readPos + 1 ∧ s'.readAhead = s.readAhead ∧ s'.stuck = s.stuck := by
  intro s'
  obtain ⟨m1, m2⟩ := movePos_spec P s.win
  have hil : inp.length = fed.length + t.length := by rw [← hinp, List.length_append]
  have g1 := hw.rp_ge; have g2 := hw.fed_len; have g3 := hw.wp_le
  have hka : P.keepAfter = P.extraAfter + P.matchLenMax := rfl
  have w1 := hP.mlm_pos; have w2 := hP.flush_le; have w3 := hP.fin_le; have w4 := hP.ahead_le
  -- the pending condition is false while not finishing
  have hpend : s.win.finishing = false →
      ¬ (((s.win.writePos : Int) - (s.win.readPos + 1)).toNat < P.reqFlush ∧
        (((s.win.writePos : Int) - (s.win.readPos + 1)).toNat < P.reqFinish ∨ s.win.finishing = false)) := by
    intro hf
    rcases hcond with ⟨hc, _⟩ | ⟨_, hc⟩
    · rw [hf] at hc; exact absurd hc (by simp)
    · omega
  have hwin : WInv P (movePos P s.win).1 fed := by
    rw [m1]
    refine ⟨⟨hw.buf_len, hw.wp_le, ?_, ?_, hw.content, hw.fed_len, ?_, hw.base_al⟩, hw.lim_fin, hw.lim_run, ?_⟩
    · show -1 ≤ s.win.readPos + 1
      omega
    · show s.win.readPos + 1 + 1 ≤ (s.win.writePos : Int)
      omega
    · show s.win.base = 0 ∨ (P.keepBefore : Int) ≤ s.win.readPos + 1 + 1
      rcases hw.lookback with h | h
      · exact Or.inl h
      · right; omega
    · show s.win.pendingSize + _ = 0 ∨ s.win.finishing = true
      by_cases hf : s.win.finishing = false
      · left
        rw [if_neg (hpend hf)]
        rcases hw.pend with h | h
        · omega
        · rw [hf] at h; exact absurd h (by simp)
      · right; exact (Bool.not_eq_false _).mp hf
  have hview : mkView listBuf P (movePos P s.win).1 e (movePos P s.win).2 =
      refView P inp e (c.readPos + 1).toNat := by
    have hp : (c.readPos + 1).toNat = s.win.base + (s.win.readPos + 1).toNat := by
      rw [hsim.rp]; omega
    rw [hp, m1, m2]
    refine mkView_eq_refView P hP.cap _ fed t inp e _ hw.content hw.fed_len ?_ ?_ ?_ hinp ?_ ?_ ?_
    · show s.win.base = 0 ∨ (P.keepBefore : Int) ≤ s.win.readPos + 1
      exact hw.lookback
    · show 0 ≤ s.win.readPos + 1
      omega
    · show s.win.readPos + 1 + 1 ≤ (s.win.writePos : Int)
      omega
    · show min (s.win.writePos - (s.win.readPos + 1).toNat) (P.keepAfter - (s.win.base + (s.win.readPos + 1).toNat - e)) =
        min (inp.length - (s.win.base + (s.win.readPos + 1).toNat)) (P.keepAfter - (s.win.base + (s.win.readPos + 1).toNat - e))
      rcases hcond with ⟨_, ht⟩ | ⟨_, hc⟩
      · subst ht
        simp only [List.length_nil] at hil
        omega
      · omega
    · show ((if _ then 0 else ((s.win.writePos : Int) - (s.win.readPos + 1)).toNat) != 0) =
        decide (P.reqFinish ≤ inp.length - (s.win.base + (s.win.readPos + 1).toNat))
      by_cases hf : s.win.finishing = false
      · rw [if_neg (hpend hf)]
        have hc : (e : Int) + P.keepAfter ≤ s.win.base + s.win.writePos := by
          rcases hcond with ⟨hc, _⟩ | ⟨_, hc⟩
          · rw [hf] at hc; exact absurd hc (by simp)
          · exact hc
        have h1 : ((s.win.writePos : Int) - (s.win.readPos + 1)).toNat ≠ 0 := by omega
        have h2 : P.reqFinish ≤ inp.length - (s.win.base + (s.win.readPos + 1).toNat) := by omega
        simp [h1, h2]
      · have ht : t = [] := by
          rcases hcond with ⟨_, ht⟩ | ⟨hc, _⟩
          · exact ht
          · exact absurd hc hf
        subst ht
        simp only [List.length_nil] at hil
        by_cases hlt : ((s.win.writePos : Int) - (s.win.readPos + 1)).toNat < P.reqFinish
        · have hlt2 : ((s.win.writePos : Int) - (s.win.readPos + 1)).toNat < P.reqFlush := by omega
          have h2 : ¬ P.reqFinish ≤ inp.length - (s.win.base + (s.win.readPos + 1).toNat) := by omega
          simp [hlt, hlt2, h2]
        · have h1 : ((s.win.writePos : Int) - (s.win.readPos + 1)).toNat ≠ 0 := by omega
          have h2 : P.reqFinish ≤ inp.length - (s.win.base + (s.win.readPos + 1).toNat) := by omega
          have hft : s.win.finishing = true := (Bool.not_eq_false _).mp hf
          simp [hlt, h1, h2, hft]
    · show min (if _ then 0 else ((s.win.writePos : Int) - (s.win.readPos + 1)).toNat) P.matchLenMax =
        if P.reqFinish ≤ inp.length - (s.win.base + (s.win.readPos + 1).toNat)
          then min (inp.length - (s.win.base + (s.win.readPos + 1).toNat)) P.matchLenMax else 0
      by_cases hf : s.win.finishing = false
      · rw [if_neg (hpend hf)]
        have hc : (e : Int) + P.keepAfter ≤ s.win.base + s.win.writePos := by
          rcases hcond with ⟨hc, _⟩ | ⟨_, hc⟩
          · rw [hf] at hc; exact absurd hc (by simp)
          · exact hc
        have h2 : P.reqFinish ≤ inp.length - (s.win.base + (s.win.readPos + 1).toNat) := by omega
        rw [if_pos h2]
        omega
      · have ht : t = [] := by
          rcases hcond with ⟨_, ht⟩ | ⟨hc, _⟩
          · exact ht
          · exact absurd hc hf
        have hft : s.win.finishing = true := (Bool.not_eq_false _).mp hf
        subst ht
        simp only [List.length_nil] at hil
        by_cases hlt : ((s.win.writePos : Int) - (s.win.readPos + 1)).toNat < P.reqFinish
        · have hlt2 : ((s.win.writePos : Int) - (s.win.readPos + 1)).toNat < P.reqFlush := by omega
          have h2 : ¬ P.reqFinish ≤ inp.length - (s.win.base + (s.win.readPos + 1).toNat) := by omega
          rw [if_neg h2, if_pos ⟨hlt2, Or.inl hlt⟩]
          omega
        · have h2 : P.reqFinish ≤ inp.length - (s.win.base + (s.win.readPos + 1).toNat) := by omega
          rw [if_pos h2, if_neg (by rw [hft]; simp [hlt])]
          omega
  refine ⟨hwin, ?_, ?_, ?_, rfl, rfl⟩
  · refine ⟨?_, hsim.ra, ?_, ?_⟩
    · show c.readPos + 1 = ((movePos P s.win).1.base : Int) + (movePos P s.win).1.readPos
      rw [m1, hsim.rp]
      show (s.win.base : Int) + s.win.readPos + 1 = (s.win.base : Int) + (s.win.readPos + 1)
      omega
    · show refView P inp e (c.readPos + 1).toNat :: c.trace = _ :: s.trace
      rw [hview, hsim.tr]
    · intro v hv
      have hv' : v = mkView listBuf P (movePos P s.win).1 e (movePos P s.win).2 ∨ v ∈ s.trace :=
        List.mem_cons.mp hv
      rcases hv' with hv' | hv'
      · rw [hv', hview]
        have hp : (c.readPos + 1).toNat = s.win.base + (s.win.readPos + 1).toNat := by
          rw [hsim.rp]; omega
        refine ⟨rfl, ?_, ?_, ?_⟩
        · show e ≤ (c.readPos + 1).toNat
          omega
        · show (c.readPos + 1).toNat - e ≤ P.maxAhead
          omega
        · show (c.readPos + 1).toNat < inp.length
          omega
      · exact hsim.good v hv'
  · show SameWin s.win (movePos P s.win).1
    rw [m1]; exact ⟨rfl, rfl, rfl, rfl, rfl⟩
  · show (movePos P s.win).1.readPos = s.win.readPos + 1
    rw [m1]

/-! ## `skip` / repeated `find_matches` -/

theorem advance_sim (P : Params) (hP : P.WF) (fed t inp : List Nat) (e : Nat) (hinp : fed ++ t = inp) :
    ∀ (k : Nat) (s : St (List Nat)) (c : RSt), WInv P s.win fed → Sim P inp s c →
    (e : Int) ≤ s.win.base + s.win.readPos + 1 →
    s.win.readPos + 1 + k ≤ s.win.writePos →
    (s.win.base : Int) + s.win.readPos + k - e ≤ P.maxAhead →
    ((s.win.finishing = true ∧ t = []) ∨
      (s.win.finishing = false ∧ (e : Int) + P.keepAfter ≤ s.win.base + s.win.writePos)) →
    let s' := advance listBuf P e k s
    WInv P s'.win fed ∧ Sim P inp s' (refAdvance P inp e k c) ∧ SameWin s.win s'.win ∧
    s'.win.readPos = s.win.readPos + k ∧ s'.readAhead = s.readAhead ∧ s'.stuck = s.stuck := by
  intro k
  induction k with
  | zero =>
    intro s c hw hsim _ _ _ _
    refine ⟨hw, hsim, SameWin.refl _, ?_, rfl, rfl⟩
    show s.win.readPos = s.win.readPos + ((0 : Nat) : Int)
    omega
  | succ k ih =>
    intro s c hw hsim he hroom hahead hcond
    obtain ⟨a1, a2, a3, a4, a5, a6⟩ := mfStep_sim P hP s c fed t inp e hw hinp hsim he (by omega) (by omega) hcond
    obtain ⟨w1, w2, w3, w4, w5⟩ := a3
    have := ih (mfStep listBuf P e s) (refMf P inp e c) a1 a2 (by rw [w2, a4]; omega) (by rw [w1, a4]; omega)
      (by rw [w2, a4]; omega) (by rw [w4, w2, w1]; exact hcond)
    obtain ⟨b1, b2, b3, b4, b5, b6⟩ := this
    refine ⟨b1, b2, SameWin.trans ⟨w1, w2, w3, w4, w5⟩ b3, ?_, b5.trans a5, b6.trans a6⟩
    show (advance listBuf P e k (mfStep listBuf P e s)).win.readPos = s.win.readPos + ((k + 1 : Nat) : Int)
    rw [b4, a4]; omega

end LzmaVerif.EncWindow
