/-
  (H4) every table index, data index, `extend_match` argument and position subtraction that `find` /
  `skip` compute in a state satisfying the invariant is in bounds (the access logs `findAcc` /
  `skip1Acc` of the model).
-/
import LzmaVerif.Proofs.Hc4Sound

namespace LzmaVerif.Mf.Hc4

/-- all logged accesses are in bounds (`n` = size of the logical input) -/
def AllOk (n : Nat) (l : List Access) : Prop := ∀ a ∈ l, a.okB n = true

theorem AllOk.nil (n : Nat) : AllOk n [] := fun _ h => by cases h

theorem AllOk.cons {n : Nat} {a : Access} {l : List Access} (ha : a.okB n = true) (hl : AllOk n l) :
    AllOk n (a :: l) := by
  intro b hb
  rcases List.mem_cons.mp hb with h | h
  · subst h; exact ha
  · exact hl b h

theorem AllOk.append {n : Nat} {l1 l2 : List Access} (h1 : AllOk n l1) (h2 : AllOk n l2) :
    AllOk n (l1 ++ l2) := by
  intro b hb
  rcases List.mem_append.mp hb with h | h
  · exact h1 b h
  · exact h2 b h

theorem ok_sub {n a b : Nat} (h : b ≤ a) : (Access.sub a b).okB n = true := by
  simp only [Access.okB, decide_eq_true_eq]; exact h

theorem ok_data {n p fwd back : Nat} (h1 : back ≤ p + fwd) (h2 : p + fwd - back < n) :
    (Access.data p fwd back).okB n = true := by
  simp only [Access.okB, decide_eq_true_eq]; exact ⟨h1, h2⟩

theorem ok_ext {n p cur delta limit : Nat} (h1 : delta ≤ p + cur) (h2 : cur ≤ limit) (h3 : p + limit ≤ n) :
    (Access.ext p cur delta limit).okB n = true := by
  simp only [Access.okB, decide_eq_true_eq]; exact ⟨h1, h2, h3⟩

theorem ok_tbl {n : Nat} {i : Int} {size : Nat} (h1 : 0 ≤ i) (h2 : i < (size : Int)) :
    (Access.tbl i size).okB n = true := by
  simp only [Access.okB, decide_eq_true_eq]; exact ⟨h1, h2⟩

theorem chainIdx_bounds (cs : Nat) (cp : Int) (delta : Nat) (h0 : 0 ≤ cp) (h1 : cp < (cs : Int))
    (hd : delta < cs) : 0 ≤ chainIdx cs cp delta ∧ chainIdx cs cp delta < (cs : Int) := by
  unfold chainIdx
  split <;> omega

theorem chainLoopAcc_ok (P : Hc4Params) (hP : P.ok) (d : Array UInt8) (chain : Array Nat)
    (dict p mll nll : Nat) (cp : Int) (hcp0 : 0 ≤ cp) (hcp1 : cp < ((dict + 1 : Nat) : Int))
    (hcsz : dict + 1 ≤ chain.size) (hm1 : 1 ≤ mll) (hsz : p + mll ≤ d.size) (hnl : p + nll ≤ d.size)
    (hch : ∀ i, EntryOk dict p (chain.getD i 0)) :
    ∀ (depth cur lb : Nat), EntryOk dict p cur → p + lb < d.size →
      AllOk d.size (chainLoopAcc P d chain (dict + 1) cp (dict + 1 + p + 1) p mll nll depth cur lb) := by
  have hge : P.chainStopGe = true := hP.2.2.1
  intro depth
  induction depth with
  | zero => intro cur lb _ _; simp only [chainLoopAcc]; exact AllOk.nil _
  | succ depth ih =>
    intro cur lb hcur hlb
    simp only [chainLoopAcc, hge, if_true, decide_eq_true_eq]
    have hcl : cur ≤ dict + 1 + p + 1 := by
      rcases hcur with h | h <;> omega
    refine AllOk.cons (ok_sub hcl) ?_
    by_cases hstop : dict + 1 + p + 1 - cur ≥ dict + 1
    · rw [if_pos hstop]; exact AllOk.nil _
    · rw [if_neg hstop]
      have hcur' := hch (chainIdx (dict + 1) cp (dict + 1 + p + 1 - cur)).toNat
      generalize chain.getD (chainIdx (dict + 1) cp (dict + 1 + p + 1 - cur)).toNat 0 = cur' at *
      have hc : dict + 2 ≤ cur ∧ cur ≤ dict + 1 + p := by
        rcases hcur with h0 | h1
        · subst h0; omega
        · exact h1
      generalize hdl : dict + 1 + p + 1 - cur = delta at *
      have hd1 : 1 ≤ delta := by omega
      have hdp : delta ≤ p := by omega
      have hdd : delta < dict + 1 := by omega
      obtain ⟨i0, i1⟩ := chainIdx_bounds (dict + 1) cp delta hcp0 hcp1 hdd
      refine AllOk.cons (ok_tbl i0 (by omega)) ?_
      refine AllOk.cons (ok_data (by omega) (by omega)) ?_
      refine AllOk.cons (ok_data (by omega) (by omega)) ?_
      split
      · refine AllOk.cons (ok_data (by omega) (by omega)) ?_
        refine AllOk.cons (ok_data (by omega) (by omega)) ?_
        split
        · refine AllOk.cons (ok_ext (by omega) hm1 hsz) ?_
          split
          · split
            · exact AllOk.nil _
            · exact ih _ _ hcur' (by omega)
          · exact ih _ _ hcur' hlb
        · exact ih _ _ hcur' hlb
      · exact ih _ _ hcur' hlb

theorem niceLenLimit_le_avail (c : Cfg) (a : Nat) (h : c.niceLen ≤ c.mlmax) : niceLenLimit c a ≤ a := by
  unfold niceLenLimit
  split
  · split <;> omega
  · omega

theorem findMatchesAcc_ok (P : Hc4Params) (hP : P.ok) (c : Cfg) (d : Array UInt8) (chain : Array Nat)
    (cp : Int) (p avail delta2 delta3 cur : Nat)
    (hav : avail = d.size - p) (h4 : P.minAvail ≤ avail) (hml : 3 ≤ c.mlmax) (hnm : c.niceLen ≤ c.mlmax)
    (hcp0 : 0 ≤ cp) (hcp1 : cp < ((c.dict + 1 : Nat) : Int)) (hcsz : c.dict + 1 ≤ chain.size)
    (hd2 : delta2 < c.dict + 1 → 1 ≤ delta2 ∧ delta2 ≤ p)
    (hd3 : delta3 < c.dict + 1 → 1 ≤ delta3 ∧ delta3 ≤ p)
    (hcur : EntryOk c.dict p cur) (hch : ∀ i, EntryOk c.dict p (chain.getD i 0)) :
    AllOk d.size (findMatchesAcc P c d chain cp (c.dict + 1 + p + 1) p avail delta2 delta3 cur) := by
  have hP' := hP
  obtain ⟨hs2, hs3, _, hce, _, _, hds, hfl, hfl2, hm4, _⟩ := hP
  have hcs : cyclicSize P c = c.dict + 1 := by unfold cyclicSize; rw [hce]
  have hmll : matchLenLimit c avail = min c.mlmax (d.size - p) := by rw [matchLenLimit_eq, hav]
  have hm3 : 3 ≤ min c.mlmax (d.size - p) := by omega
  have hsz : p + min c.mlmax (d.size - p) ≤ d.size := by omega
  have hnl : p + niceLenLimit c avail ≤ d.size := by
    have := niceLenLimit_le_avail c avail hnm; omega
  simp only [findMatchesAcc, hcs, hs2, hs3, hmll]
  generalize min c.mlmax (d.size - p) = mll at *
  generalize niceLenLimit c avail = nll at *
  have k2 : cmpLt true delta2 (c.dict + 1) = true → 1 ≤ delta2 ∧ delta2 ≤ p := by
    intro h; apply hd2
    simpa only [cmpLt, if_true, decide_eq_true_eq] using h
  have k3 : ((delta2 != delta3) && cmpLt true delta3 (c.dict + 1)) = true → 1 ≤ delta3 ∧ delta3 ≤ p := by
    intro h; apply hd3
    simp only [cmpLt, if_true, Bool.and_eq_true, decide_eq_true_eq] at h
    exact h.2
  generalize cmpLt true delta2 (c.dict + 1) = T2 at *
  generalize ((delta2 != delta3) && cmpLt true delta3 (c.dict + 1)) = T3 at *
  have j2 : (T2 && (byteAt d (p - delta2) == byteAt d p)) = true → 1 ≤ delta2 ∧ delta2 ≤ p := by
    intro h; rw [Bool.and_eq_true] at h; exact k2 h.1
  have j3 : (T3 && (byteAt d (p - delta3) == byteAt d p)) = true → 1 ≤ delta3 ∧ delta3 ≤ p := by
    intro h; rw [Bool.and_eq_true] at h; exact k3 h.1
  generalize (T2 && (byteAt d (p - delta2) == byteAt d p)) = C2 at *
  generalize (T3 && (byteAt d (p - delta3) == byteAt d p)) = C3 at *
  have loop : ∀ lb, p + lb < d.size →
      AllOk d.size (chainLoopAcc P d chain (c.dict + 1) cp (c.dict + 1 + p + 1) p mll nll (depthOf P c) cur lb) :=
    fun lb hlb => chainLoopAcc_ok P hP' d chain c.dict p mll nll cp hcp0 hcp1 hcsz (by omega) hsz hnl hch
      (depthOf P c) cur lb hcur hlb
  refine AllOk.append (AllOk.append (AllOk.append ?_ ?_) ?_) ?_
  · split
    · rename_i h
      obtain ⟨g1, g2⟩ := k2 h
      exact AllOk.cons (ok_data (by omega) (by omega)) (AllOk.cons (ok_data (by omega) (by omega)) (AllOk.nil _))
    · exact AllOk.nil _
  · split
    · rename_i h
      obtain ⟨g1, g2⟩ := k3 h
      exact AllOk.cons (ok_data (by omega) (by omega)) (AllOk.cons (ok_data (by omega) (by omega)) (AllOk.nil _))
    · exact AllOk.nil _
  · cases C2 <;> cases C3 <;>
      simp only [Bool.or_self, Bool.or_true, Bool.or_false, Bool.false_eq_true, if_true, if_false]
    · exact AllOk.nil _
    · obtain ⟨g1, g2⟩ := j3 rfl
      exact AllOk.cons (ok_ext (by omega) (by omega) hsz) (AllOk.nil _)
    · obtain ⟨g1, g2⟩ := j2 rfl
      exact AllOk.cons (ok_ext (by omega) (by omega) hsz) (AllOk.nil _)
    · obtain ⟨g1, g2⟩ := j3 rfl
      exact AllOk.cons (ok_ext (by omega) (by omega) hsz) (AllOk.nil _)
  · cases C2 <;> cases C3 <;>
      simp only [Bool.or_self, Bool.or_true, Bool.or_false, Bool.false_eq_true, if_true, if_false,
        true_and, false_and]
    · apply loop; split <;> omega
    all_goals
      split
      · exact AllOk.nil _
      · apply loop; split <;> omega

theorem and_mask_lt (x n : Nat) (h : 0 < n) : x &&& (n - 1) < n := by
  have := @Nat.and_le_right x (n - 1)
  omega

theorem hashesAt_bounds (P : Hc4Params) (hP : P.ok) (c : Cfg) (d : Array UInt8) (p : Nat) :
    (hashesAt P c d p).h2 < P.hash.hash2Size ∧ (hashesAt P c d p).h3 < P.hash.hash3Size ∧
    (hashesAt P c d p).h4 < hash4Size P.hash c.dict := by
  obtain ⟨_, h2, _, h3, _⟩ := hP.2.2.2.2.2.2.2.2.2.2
  refine ⟨and_mask_lt _ _ h2, and_mask_lt _ _ h3, ?_⟩
  exact and_mask_lt _ _ (Nat.succ_pos _)

/-- the accesses of one insertion, in terms of the fields of the state before `move_pos` -/
theorem insertAcc_ok (P : Hc4Params) (hP : P.ok) (c : Cfg) (d : Array UInt8) (s : State)
    (hinv : Inv P c d s) (hd : 1 ≤ c.dict) (hge : P.minAvail ≤ d.size - s.pos) :
    AllOk d.size (insertAcc P c d (movePos P c s (d.size - s.pos)) s.pos) := by
  have hm4 : 4 ≤ P.minAvail := hP.2.2.2.2.2.2.2.2.2.1
  have hce : P.cyclicExtra = 1 := hP.2.2.2.1
  have hch1 : 1 ≤ P.chainExtra := hP.2.2.2.2.2.1
  have hcs : cyclicSize P c = c.dict + 1 := by unfold cyclicSize; rw [hce]
  obtain ⟨b2, b3, b4⟩ := hashesAt_bounds P hP c d s.pos
  have hne : d.size - s.pos ≠ 0 := by omega
  have hmp : movePos P c s (d.size - s.pos) =
      ⟨s.h2, s.h3, s.h4, s.chain,
        if s.cyclicPos + 1 = (cyclicSize P c : Int) then 0 else s.cyclicPos + 1, s.lzPos + 1, s.pos + 1⟩ := by
    unfold movePos; simp only [if_pos hne]
  rw [hmp]
  simp only [insertAcc]
  obtain ⟨c0, c1⟩ := cp_next s.cyclicPos (cyclicSize P c) hinv.cpLo hinv.cpHi (by omega)
  refine AllOk.cons (ok_data (by omega) (by omega)) (AllOk.cons (ok_data (by omega) (by omega))
    (AllOk.cons (ok_data (by omega) (by omega)) (AllOk.cons (ok_data (by omega) (by omega))
    (AllOk.cons (ok_tbl (by omega) ?_) (AllOk.cons (ok_tbl (by omega) ?_)
    (AllOk.cons (ok_tbl (by omega) ?_) (AllOk.cons (ok_tbl c0 ?_) (AllOk.nil _))))))))
  · rw [hinv.sz2]; omega
  · rw [hinv.sz3]; omega
  · rw [hinv.sz4]; omega
  · rw [hinv.szc]; omega

theorem findAcc_pending (P : Hc4Params) (c : Cfg) (d : Array UInt8) (s : State)
    (h0 : encMovePos P d s.pos = 0) (hm : 1 ≤ c.mlmax) : findAcc P c d s = [] := by
  unfold findAcc
  have : encMovePos P d s.pos < c.mlmax ∧ encMovePos P d s.pos = 0 := ⟨by omega, h0⟩
  simp only [if_pos this]

theorem findAcc_insert (P : Hc4Params) (c : Cfg) (d : Array UInt8) (s : State)
    (he : encMovePos P d s.pos = d.size - s.pos) (hne : d.size - s.pos ≠ 0) :
    let hs := hashesAt P c d s.pos
    let cp' : Int := if s.cyclicPos + 1 = (cyclicSize P c : Int) then 0 else s.cyclicPos + 1
    findAcc P c d s =
      insertAcc P c d (movePos P c s (d.size - s.pos)) s.pos ++
        [.sub (s.lzPos + 1) (s.h2.getD hs.h2 0), .sub (s.lzPos + 1) (s.h3.getD hs.h3 0)] ++
      findMatchesAcc P c d (s.chain.setIfInBounds cp'.toNat (s.h4.getD hs.h4 0)) cp' (s.lzPos + 1) s.pos
        (d.size - s.pos) (s.lzPos + 1 - s.h2.getD hs.h2 0) (s.lzPos + 1 - s.h3.getD hs.h3 0)
        (s.h4.getD hs.h4 0) := by
  intro hs cp'
  simp only [findAcc]
  rw [he]
  have : ¬ (d.size - s.pos < c.mlmax ∧ d.size - s.pos = 0) := fun h => hne h.2
  simp only [if_neg this]
  unfold movePos
  simp only [if_pos hne]
  cases s
  rfl

/-- (H4) all accesses of `find_matches` are in bounds -/
theorem findAcc_ok (P : Hc4Params) (hP : P.ok) (c : Cfg) (d : Array UInt8) (s : State)
    (hinv : Inv P c d s) (hd : 1 ≤ c.dict) (hml : 3 ≤ c.mlmax) (hnm : c.niceLen ≤ c.mlmax) :
    AllOk d.size (findAcc P c d s) := by
  have hP' := hP
  obtain ⟨_, _, _, hce, _, hch1, _, _, _, hm4, hho⟩ := hP
  rcases encMovePos_cases P d s.pos hm4 with ⟨h0, _⟩ | ⟨he, hge, hne⟩
  · rw [findAcc_pending P c d s h0 (by omega)]; exact AllOk.nil _
  · have hF := findAcc_insert P c d s he (by omega)
    simp only at hF
    rw [hF]
    have hcs : cyclicSize P c = c.dict + 1 := by unfold cyclicSize; rw [hce]
    have hins : insCount P d s.pos = s.pos := by unfold insCount; omega
    have hlz : s.lzPos = c.dict + 1 + s.pos := by rw [hinv.lz, hins, hcs]
    have hlz1 : s.lzPos + 1 = c.dict + 1 + s.pos + 1 := by rw [hlz]
    have e2 := entryOk_of_tbl hinv.t2 hcs hlz (hashesAt P c d s.pos).h2
    have e3 := entryOk_of_tbl hinv.t3 hcs hlz (hashesAt P c d s.pos).h3
    obtain ⟨c0, c1⟩ := cp_next s.cyclicPos (cyclicSize P c) hinv.cpLo hinv.cpHi (by omega)
    refine AllOk.append (AllOk.append (insertAcc_ok P hP' c d s hinv hd hge) ?_) ?_
    · refine AllOk.cons (ok_sub ?_) (AllOk.cons (ok_sub ?_) (AllOk.nil _))
      · rcases e2 with h | h <;> omega
      · rcases e3 with h | h <;> omega
    · rw [hlz1]
      apply findMatchesAcc_ok P hP' c d _ _ s.pos (d.size - s.pos) _ _ _ rfl hge hml hnm c0
      · rw [← hcs]; exact c1
      · rw [Array.size_setIfInBounds, hinv.szc]; omega
      · intro hlt; rcases e2 with h | h <;> omega
      · intro hlt; rcases e3 with h | h <;> omega
      · exact entryOk_of_tbl hinv.t4 hcs hlz _
      · intro i
        refine entryOk_of_tbl (hinv.ch.set _ _ ?_) hcs hlz i
        rcases hinv.t4 (hashesAt P c d s.pos).h4 with h0 | ⟨h1, h2, _⟩
        · exact Or.inl h0
        · exact Or.inr ⟨h1, h2, trivial⟩

/-- (H4) all accesses of one `skip` iteration are in bounds -/
theorem skip1Acc_ok (P : Hc4Params) (hP : P.ok) (c : Cfg) (d : Array UInt8) (s : State)
    (hinv : Inv P c d s) (hd : 1 ≤ c.dict) : AllOk d.size (skip1Acc P c d s) := by
  have hm4 : 4 ≤ P.minAvail := hP.2.2.2.2.2.2.2.2.2.1
  unfold skip1Acc
  rcases encMovePos_cases P d s.pos hm4 with ⟨h0, _⟩ | ⟨he, hge, hne⟩
  · simp only [h0, ne_eq, not_true_eq_false, if_false]; exact AllOk.nil _
  · simp only [if_pos hne]; rw [he]; exact insertAcc_ok P hP c d s hinv hd hge

end LzmaVerif.Mf.Hc4
