import LzmaVerif.Proofs.EncWindowWrite
import LzmaVerif.Props.C01
/-!
# The encoder's search is shown the same data for every partition of the input into `write` calls

Model: `Model/EncWindow.lean` (`LZEncoderData` of src/lz/lz_encoder.rs, the write/finish loops of
src/enc/lzma_writer.rs and lzma2_writer.rs, `encode_init`/`encode_symbol` of src/enc/encoder.rs).
The search (HC4/BT4, fast/normal parser) is an ARBITRARY function `O : Oracle` of everything it has been
shown so far; all theorems hold for every `O`.

## What the search can observe of the window, and what the theorems say about it

At every `move_pos` (one per `find_matches` / per iteration of `skip`) a `View` is recorded:

* `pos`, `symStart` – the absolute position `p` of the new `read_pos` and of the symbol being coded `e`;
* `avail = min(get_avail(), keep_size_after - (p - e))`;
* `mfOk`, `matchLimit` – whether `move_pos` returned non-zero, and `match_len_limit = min(ret, match_len_max)`
  (`nice_len_limit = min(matchLimit, nice_len)`);
* `ahead` – the `avail` buffer bytes from `read_pos` on; `back` – the `min(p, dict_size)` buffer bytes before it.

That is everything the search reads, because
* the match finders read `buf[read_pos - delta ..]` with `delta ≤ dict_size` (`delta < cyclic_size = dict_size+1`)
  and `buf[read_pos .. read_pos + match_len_limit)`; `match_len_limit ≤ match_len_max ≤ keep_size_after - (p - e)`
  as long as `p - e ≤ maxAhead ≤ EXTRA_SIZE_AFTER` (`cap_covers_match_len`);
* of `avail` the match finders use `avail == 0`, `avail < match_len_max` / `avail < nice_len` and then `avail`
  itself: i.e. `min(avail, match_len_max)` = `matchLimit`;
* the parsers use `min(lz.get_avail(), MATCH_LEN_MAX)` and (normal) `min(lz.get_avail(), OPTS - 1)`, both at
  `p = e`, where the cap is `keep_size_after ≥ max(MATCH_LEN_MAX, OPTS - 1)` (`getAvail_observable`,
  `extra_after_covers_search`), and read `get_byte(forward, …)` / `get_match_len2(forward, …)` only below
  `e + min(get_avail at e, OPTS - 1)`.
The uncapped `get_avail()` DOES depend on the partition (`raw_avail_depends_on_partition`); it is never used
uncapped.  `has_enough_data` and `finishing` depend on the partition as well, but only decide WHEN a symbol
is coded, not what the search is shown.

Main results: `trace_eq_ref` (the views of any run are the views of the window-free reference run on the
concatenated input), `view_independence`, `lookahead_guarantee`, `symbol_lookahead`, `run_invariants`,
`moveWindow_spec`/`fillCore_spec` (in `EncWindowInv.lean`), `mkParams_WF`/`extra_after_covers_search` (the
constants), and the witnesses `small_extra_after_breaks_independence`, `raw_avail_depends_on_partition`.
-/
namespace LzmaVerif.EncWindow

/-! ## The reference run as a function -/

theorem refAdvance_pos (P : Params) (inp : List Nat) (e : Nat) : ∀ (k : Nat) (c : RSt),
    (refAdvance P inp e k c).readPos = c.readPos + k ∧ (refAdvance P inp e k c).readAhead = c.readAhead := by
  intro k
  induction k with
  | zero => intro c; exact ⟨by show c.readPos = c.readPos + ((0 : Nat) : Int); omega, rfl⟩
  | succ k ih =>
    intro c
    obtain ⟨h1, h2⟩ := ih (refMf P inp e c)
    refine ⟨?_, h2⟩
    show (refAdvance P inp e k (refMf P inp e c)).readPos = c.readPos + ((k + 1 : Nat) : Int)
    rw [h1]
    show c.readPos + 1 + (k : Int) = c.readPos + ((k + 1 : Nat) : Int)
    omega

theorem refSymbol_progress (P : Params) (O : Oracle) (inp : List Nat) (c : RSt) :
    c.encPos + 1 ≤ (refSymbol P O inp c).1.encPos := by
  unfold refSymbol RSt.encPos
  simp only []
  generalize clampAdv _ _ _ _ = adv
  rw [(refAdvance_pos P inp _ adv c).1]
  generalize hl : clampLen _ _ = len
  have : 1 ≤ len := by rw [← hl]; unfold clampLen; omega
  omega

theorem refRun_steps (P : Params) (O : Oracle) (inp : List Nat) : ∀ (fuel : Nat) (c : RSt),
    RSteps P O inp c (refRun P O inp fuel c) := by
  intro fuel
  induction fuel with
  | zero => intro c; exact RSteps.refl _
  | succ f ih =>
    intro c
    by_cases h : c.encPos < inp.length
    · have : refRun P O inp (f + 1) c = refRun P O inp f (refSymbol P O inp c).1 := by
        show (if c.encPos < inp.length then refRun P O inp f (refSymbol P O inp c).1 else c) = _
        rw [if_pos h]
      rw [this]
      exact RSteps.step h (ih _)
    · have : refRun P O inp (f + 1) c = c := by
        show (if c.encPos < inp.length then refRun P O inp f (refSymbol P O inp c).1 else c) = _
        rw [if_neg h]
      rw [this]
      exact RSteps.refl _

theorem refRun_done (P : Params) (O : Oracle) (inp : List Nat) : ∀ (fuel : Nat) (c : RSt),
    ((inp.length : Int) - c.encPos).toNat < fuel → ¬ (refRun P O inp fuel c).encPos < inp.length := by
  intro fuel
  induction fuel with
  | zero => intro c h; omega
  | succ f ih =>
    intro c hf
    by_cases h : c.encPos < inp.length
    · have : refRun P O inp (f + 1) c = refRun P O inp f (refSymbol P O inp c).1 := by
        show (if c.encPos < inp.length then refRun P O inp f (refSymbol P O inp c).1 else c) = _
        rw [if_pos h]
      rw [this]
      have := refSymbol_progress P O inp c
      exact ih _ (by omega)
    · have : refRun P O inp (f + 1) c = c := by
        show (if c.encPos < inp.length then refRun P O inp f (refSymbol P O inp c).1 else c) = _
        rw [if_neg h]
      rw [this]
      exact h

/-! ## 3. View independence -/

/-- For every search `O`, every partition of the input into `write` calls (empty ones included), the
    sequence of views shown to the search is the one of the window-free reference run on the concatenation. -/
theorem trace_eq_ref (P : Params) (hP : P.WF) (O : Oracle) (parts : List (List Nat)) :
    traceOf listBuf P O parts = refTrace P O parts.flatten := by
  obtain ⟨c', h1, h2, _, h4⟩ := run_sim P hP O parts
  have h5 := refRun_steps P O parts.flatten (parts.flatten.length + 1) {}
  have h6 := refRun_done P O parts.flatten (parts.flatten.length + 1) {} (by
    show ((parts.flatten.length : Int) - ((-1 : Int) - (-1 : Int))).toNat < parts.flatten.length + 1
    omega)
  have := RSteps.deterministic h1 h2 h5 h6
  unfold traceOf refTrace
  rw [← this, h4.tr]

/-- **View independence.**  Two partitions of the same input show the search exactly the same sequence of
    views: same positions, same symbol starts, same capped `avail`, same `match_len_limit`, the same
    look-ahead bytes and the same `min(pos, dict_size)` look-back bytes, in the same order. -/
theorem view_independence (P : Params) (hP : P.WF) (O : Oracle) (parts₁ parts₂ : List (List Nat))
    (h : parts₁.flatten = parts₂.flatten) :
    traceOf listBuf P O parts₁ = traceOf listBuf P O parts₂ := by
  rw [trace_eq_ref P hP O parts₁, trace_eq_ref P hP O parts₂, h]

/-! ## 1. Invariants -/

/-- The window invariants hold at the end of every run (and, by the same induction, after every
    `fill_window`, `move_window`, `move_pos`, symbol and `set_finishing` of the run: `fillWindow_sim`,
    `mfStep_sim`, `symbolStep_sim`, `encodeLoop_sim`, `writeLoop_sim`, `finish_sim` all carry `SInv`):
    `write_pos ≤ buf_size`, `read_pos < write_pos`, the buffer holds stream bytes `base .. base + write_pos`,
    `keep_size_before` bytes of look-back, `16 ∣ base`, `read_limit = write_pos - 1` when finishing. -/
theorem run_invariants (P : Params) (hP : P.WF) (O : Oracle) (parts : List (List Nat)) :
    SInv P (run listBuf P O parts) parts.flatten := by
  obtain ⟨_, _, _, h3, _⟩ := run_sim P hP O parts
  exact h3

/-- the write loop always makes progress: every byte is taken, the fuel of the model is never exhausted -/
theorem run_never_stuck (P : Params) (hP : P.WF) (O : Oracle) (parts : List (List Nat)) :
    (run listBuf P O parts).stuck = false := (run_invariants P hP O parts).not_stuck

/-- at the end everything has been coded: `finishing`, `read_limit = write_pos - 1`, all bytes in the window
    are the tail of the input -/
theorem run_final (P : Params) (hP : P.WF) (O : Oracle) (parts : List (List Nat)) :
    let s := run listBuf P O parts
    s.win.base + s.win.writePos = parts.flatten.length ∧ s.win.buf.take s.win.writePos = parts.flatten.drop s.win.base ∧
    s.win.base % 16 = 0 := by
  intro s
  have h := run_invariants P hP O parts
  exact ⟨h.win.fed_len.symm, h.win.content, h.win.base_al⟩

/-- the model's `move_offset` is the one `Props.C01.moveOffset_mod16` talks about -/
theorem alignDown_eq_C01 (x : Nat) : alignDown x = Props.C01.moveOffset x := rfl

theorem moveOffset_mod16 {β : Type} (P : Params) (w : Win β) : moveOffset P w % 16 = 0 := by
  unfold moveOffset moveOffsetPinned
  split <;> (rw [alignDown_eq_C01]; exact Props.C01.moveOffset_mod16 _)

/-! ## 2. The look-ahead guarantee -/

/-- State level: when `encode_symbol` passes its `has_enough_data(read_ahead + 1)` check at buffer position
    `e = read_pos - read_ahead`, then `e` is inside the written data, and while NOT finishing/flushing at least
    `keep_size_after = EXTRA_SIZE_AFTER + MATCH_LEN_MAX` bytes from `e` on are in the buffer. -/
theorem symbol_lookahead (P : Params) (hP : P.WF) (s : St (List Nat)) (fed : List Nat) (h : SInv P s fed)
    (he : hasEnoughData s.win (s.readAhead + 1) = true) :
    0 ≤ s.encPos ∧ s.encPos + 1 ≤ s.win.writePos ∧
    (s.win.finishing = false → s.encPos + P.keepAfter ≤ s.win.writePos) :=
  hasEnough_facts P hP s fed h he

/-- every view of every run is the reference view and lies within the read-ahead bound -/
theorem trace_views_good (P : Params) (hP : P.WF) (O : Oracle) (parts : List (List Nat)) :
    ∀ v ∈ traceOf listBuf P O parts, GoodView P parts.flatten v := by
  obtain ⟨_, _, _, _, h4⟩ := run_sim P hP O parts
  intro v hv
  exact h4.good v (by simpa [traceOf] using hv)

/-- `match_len_max ≤ keep_size_after - (p - e)` for every position the search may reach -/
theorem cap_covers_match_len (P : Params) (hP : P.WF) (d : Nat) (hd : d ≤ P.maxAhead) :
    P.matchLenMax ≤ P.keepAfter - d := by
  have := hP.ahead_le
  show P.matchLenMax ≤ P.extraAfter + P.matchLenMax - d
  omega

/-- **Look-ahead guarantee**, for every partition and every search.  At every `move_pos` of the run, at
    absolute position `p` inside a symbol starting at `e`:
    the bytes shown are the stream bytes `p .. p + avail`; `avail` is the smaller of ALL remaining stream
    bytes and `keep_size_after - (p - e) ≥ match_len_max`.  So either at least `match_len_max` bytes
    (`keep_size_after` at the start of a symbol) are there, or exactly all the remaining bytes are (which
    can only be while finishing); and the look-back is the `min(p, dict_size)` stream bytes before `p`. -/
theorem lookahead_guarantee (P : Params) (hP : P.WF) (O : Oracle) (parts : List (List Nat)) (v : View)
    (hv : v ∈ traceOf listBuf P O parts) :
    v.symStart ≤ v.pos ∧ v.pos - v.symStart ≤ P.maxAhead ∧ v.pos < parts.flatten.length ∧
    v.avail = min (parts.flatten.length - v.pos) (P.keepAfter - (v.pos - v.symStart)) ∧
    P.matchLenMax ≤ P.keepAfter - (v.pos - v.symStart) ∧
    (P.matchLenMax ≤ v.avail ∨ v.avail = parts.flatten.length - v.pos) ∧
    (v.pos = v.symStart → P.keepAfter ≤ v.avail ∨ v.avail = parts.flatten.length - v.pos) ∧
    v.ahead = (parts.flatten.drop v.pos).take v.avail ∧
    v.back = (parts.flatten.drop (v.pos - min v.pos P.dictSize)).take (min v.pos P.dictSize) ∧
    v.matchLimit = (if P.reqFinish ≤ parts.flatten.length - v.pos then min (parts.flatten.length - v.pos) P.matchLenMax else 0) := by
  obtain ⟨h1, h2, h3, h4⟩ := trace_views_good P hP O parts v hv
  have hc := cap_covers_match_len P hP _ h3
  have ha : v.avail = min (parts.flatten.length - v.pos) (P.keepAfter - (v.pos - v.symStart)) := by
    rw [h1]; rfl
  refine ⟨h2, h3, h4, ha, hc, by omega, by intro _; omega, ?_, ?_, ?_⟩
  · rw [ha, h1]; rfl
  · rw [h1]; rfl
  · rw [h1]; rfl

/-! ## What the search can compute from `get_avail()` and from the return value of `move_pos` -/

/-- every `min(get_avail(), x)` with `x` up to the cap is determined by the view -/
theorem getAvail_observable {β : Type} (B : BufOps β) (P : Params) (hcap : P.capViews = true) (w : Win β) (e ret x : Nat)
    (h0 : 0 ≤ w.readPos) (hx : x ≤ P.keepAfter - (w.base + w.readPos.toNat - e)) :
    min (getAvail w) x = min (mkView B P w e ret).avail x := by
  unfold getAvail mkView
  simp only [hcap, if_true]
  omega

/-- `move_pos` returns 0 (pending) or `get_avail()`; the view holds `min` of it with `match_len_max` -/
theorem movePos_ret {β : Type} (P : Params) (w : Win β) :
    (movePos P w).2 = 0 ∨ (movePos P w).2 = getAvail (movePos P w).1 := by
  obtain ⟨h1, h2⟩ := movePos_spec P w
  rw [h1, h2]
  unfold getAvail
  split
  · exact Or.inl rfl
  · right; rfl

/-! ## 4. The constants -/

/-- `EXTRA_SIZE_AFTER` covers the read-ahead of the search, and `keep_size_after` covers every cap the
    parsers put on `get_avail()`: fast `MATCH_LEN_MAX - 1 ≤ EXTRA_SIZE_AFTER`, normal `OPTS - 2 ≤
    EXTRA_SIZE_AFTER`, `max(MATCH_LEN_MAX, OPTS - 1) ≤ EXTRA_SIZE_AFTER + MATCH_LEN_MAX`.
    Reducing either `EXTRA_SIZE_AFTER` by `MATCH_LEN_MAX` makes this false. -/
theorem extra_after_covers_search (m : Mode) :
    m.maxAhead ≤ m.extraAfter ∧ m.availCap ≤ m.extraAfter + Consts.MATCH_LEN_MAX := by
  cases m <;> decide

/-- for the fast mode the constant is exactly what is needed -/
theorem fast_extra_after_tight : Mode.extraAfter .fast = Mode.maxAhead .fast := by decide

theorem normal_extra_after_slack : Mode.extraAfter .normal = Mode.maxAhead .normal + 2 := by decide

/-- `EXTRA_SIZE_BEFORE` covers how far the match finder is ahead of the coder BETWEEN two symbols (fast: at
    most 0 – one look-ahead `find_matches` followed by a literal; normal: at most `OPTS - 2` pending optimum
    entries), so `get_byte_backward(dist + 1 + read_ahead)` with `dist + 1 ≤ dict_size` stays inside
    `keep_size_before` -/
theorem extra_before_covers_read_ahead :
    0 + 1 ≤ Mode.extraBefore .fast ∧ (Consts.NORMAL_OPTS - 2) + 1 ≤ Mode.extraBefore .normal := by decide

/-- the parameters `LZMAEncoder::new` builds from valid options satisfy every side condition of the
    theorems, for both modes, both match finders, LZMA and LZMA2 -/
theorem mkParams_WF (dict nice : Nat) (mode : Mode) (mf : MF) (lzma2 : Bool)
    (hd : Consts.DICT_SIZE_MIN ≤ dict) (hn1 : 4 ≤ nice) (hn2 : nice ≤ Consts.MATCH_LEN_MAX) :
    (mkParams dict nice mode mf lzma2).WF := by
  have h1 := (extra_after_covers_search mode).1
  have hD : Consts.DICT_SIZE_MIN = 4096 := rfl
  have hM : Consts.MATCH_LEN_MAX = 273 := rfl
  have hmax : mode.maxAhead ≤ 4096 := by cases mode <;> decide
  constructor
  · show 1 ≤ Consts.MATCH_LEN_MAX
    omega
  · show (match mf with | .hc4 => 4 | .bt4 => nice) ≤ Consts.MATCH_LEN_MAX
    cases mf <;> simp only <;> omega
  · show 4 ≤ (match mf with | .hc4 => 4 | .bt4 => nice)
    cases mf <;> simp only <;> omega
  · exact h1
  · show mode.maxAhead ≤ max (if lzma2 then lzma2ExtraBefore dict else 0) mode.extraBefore + dict
    omega
  · show 1 ≤ max (if lzma2 then lzma2ExtraBefore dict else 0) mode.extraBefore + dict
    omega
  · rfl

/-- with the largest dictionary the encoder accepts (768 MiB, `LZMAOptions::DICT_SIZE_MAX_ENCODER`) the
    buffer size and hence every window position fits `i32` -/
theorem bufSize_fits_i32 (dict nice : Nat) (mode : Mode) (mf : MF) (lzma2 : Bool) (hd : dict ≤ 768 * 1024 * 1024) :
    (mkParams dict nice mode mf lzma2).bufSize < 2 ^ 31 := by
  have h1 : mode.extraBefore ≤ 4096 := by cases mode <;> decide
  have h2 : mode.extraAfter ≤ 4096 := by cases mode <;> decide
  have hM : Consts.MATCH_LEN_MAX = 273 := rfl
  show max (if lzma2 then lzma2ExtraBefore dict else 0) mode.extraBefore + dict +
      (mode.extraAfter + Consts.MATCH_LEN_MAX) + min (dict / 2 + 256 * 1024) (512 * 1024 * 1024) < 2 ^ 31
  have h3 : (if lzma2 then lzma2ExtraBefore dict else 0) ≤ 65536 := by
    unfold lzma2ExtraBefore; split <;> omega
  omega

/-- view independence for the real encoder parameters -/
theorem view_independence_real (dict nice : Nat) (mode : Mode) (mf : MF) (lzma2 : Bool)
    (hd : Consts.DICT_SIZE_MIN ≤ dict) (hn1 : 4 ≤ nice) (hn2 : nice ≤ Consts.MATCH_LEN_MAX)
    (O : Oracle) (parts₁ parts₂ : List (List Nat)) (h : parts₁.flatten = parts₂.flatten) :
    traceOf listBuf (mkParams dict nice mode mf lzma2) O parts₁ = traceOf listBuf (mkParams dict nice mode mf lzma2) O parts₂ :=
  view_independence _ (mkParams_WF dict nice mode mf lzma2 hd hn1 hn2) O parts₁ parts₂ h

/-! ## `set_flushing` / `process_pending_bytes` in general (also with pending bytes) -/

theorem advance_frame (P : Params) (e : Nat) : ∀ (k : Nat) (s : St (List Nat)),
    SameWin s.win (advance listBuf P e k s).win ∧ (advance listBuf P e k s).win.readPos = s.win.readPos + k ∧
    (advance listBuf P e k s).readAhead = s.readAhead := by
  intro k
  induction k with
  | zero =>
    intro s
    exact ⟨SameWin.refl _, by show s.win.readPos = s.win.readPos + ((0 : Nat) : Int); omega, rfl⟩
  | succ k ih =>
    intro s
    obtain ⟨h1, h2, h3⟩ := ih (mfStep listBuf P e s)
    obtain ⟨m1, _⟩ := movePos_spec P s.win
    have hw : (mfStep listBuf P e s).win = (movePos P s.win).1 := rfl
    have hs : SameWin s.win (mfStep listBuf P e s).win := by
      rw [hw, m1]; exact ⟨rfl, rfl, rfl, rfl, rfl⟩
    have hr : (mfStep listBuf P e s).win.readPos = s.win.readPos + 1 := by
      rw [hw, m1]
    refine ⟨SameWin.trans hs h1, ?_, h3⟩
    show (advance listBuf P e k (mfStep listBuf P e s)).win.readPos = s.win.readPos + ((k + 1 : Nat) : Int)
    rw [h2, hr]; omega

/-- `process_pending_bytes` rewinds `read_pos` by the pending bytes and `skip`s them again: every position
    and the contents are as before (only `pending_size` and what the search has seen change) -/
theorem processPending_WPos (P : Params) (s : St (List Nat)) (fed : List Nat) (h : WPos P s.win fed) :
    WPos P (processPending listBuf P s).win fed ∧ SameWin s.win (processPending listBuf P s).win ∧
    (processPending listBuf P s).win.readPos = s.win.readPos := by
  unfold processPending
  simp only []
  split
  · obtain ⟨⟨a1, a2, a3, a4, a5⟩, b, _⟩ := advance_frame P (s.win.base + s.encPos.toNat) s.win.pendingSize
      { s with win := { s.win with readPos := s.win.readPos - s.win.pendingSize, pendingSize := 0 } }
    generalize advance listBuf P (s.win.base + s.encPos.toNat) s.win.pendingSize
      { s with win := { s.win with readPos := s.win.readPos - s.win.pendingSize, pendingSize := 0 } } = S at *
    have hr : S.win.readPos = s.win.readPos := by
      rw [b]
      show s.win.readPos - (s.win.pendingSize : Int) + (s.win.pendingSize : Int) = s.win.readPos
      omega
    refine ⟨⟨?_, ?_, ?_, ?_, ?_, ?_, ?_, ?_⟩, ⟨a1, a2, a3, a4, a5⟩, hr⟩
    · rw [a5]; exact h.buf_len
    · rw [a1]; exact h.wp_le
    · rw [hr]; exact h.rp_ge
    · rw [hr, a1]; exact h.rp_lt
    · rw [a5, a1, a2]; exact h.content
    · rw [a1, a2]; exact h.fed_len
    · rw [hr, a2]; exact h.lookback
    · rw [a2]; exact h.base_al
  · exact ⟨h, SameWin.refl _, rfl⟩

/-- `set_flushing` (LZMA2 `flush`, not used by `writeAll`) keeps all positional and content invariants -/
theorem setFlushing_WPos (P : Params) (s : St (List Nat)) (fed : List Nat) (h : WPos P s.win fed) :
    WPos P (setFlushing listBuf P s).win fed :=
  (processPending_WPos P { s with win := { s.win with readLimit := (s.win.writePos : Int) - 1 } } fed
    ⟨h.buf_len, h.wp_le, h.rp_ge, h.rp_lt, h.content, h.fed_len, h.lookback, h.base_al⟩).1

theorem setFinishing_WPos (P : Params) (s : St (List Nat)) (fed : List Nat) (h : WPos P s.win fed) :
    WPos P (setFinishing listBuf P s).win fed :=
  (processPending_WPos P { s with win := { s.win with readLimit := (s.win.writePos : Int) - 1, finishing := true } } fed
    ⟨h.buf_len, h.wp_le, h.rp_ge, h.rp_lt, h.content, h.fed_len, h.lookback, h.base_al⟩).1

/-! ## Witnesses: what goes wrong without the constants, and what does depend on the partition -/

/-- the seeded change: `FastEncoderMode::EXTRA_SIZE_AFTER` reduced by `MATCH_LEN_MAX` (all other parameters as
    built by `LZMAEncoder::new` for dict 4096, nice_len 273, fast, HC4, LZMA) -/
def seededFast : Params :=
  { mkParams 4096 273 .fast .hc4 false with extraAfter := Consts.FAST_EXTRA_SIZE_AFTER - Consts.MATCH_LEN_MAX }

/-- a search that always takes the longest possible match -/
def greedyMax : Oracle := fun _ => (273, 273, false)

/-- the side condition of the theorems is exactly what the seeded change violates -/
example : ¬ seededFast.maxAhead ≤ seededFast.extraAfter := by decide

/-- With the seeded `EXTRA_SIZE_AFTER` the search IS shown different things for different partitions of the
    same 546 bytes: at the 274th `move_pos` (position 273 of the match starting at 1) `match_len_limit` is 273
    when everything is written at once, but the byte is left pending (`move_pos` returns 0) when the first
    `write` delivered 274 bytes.  `match_len_limit` bounds every match length the match finder reports, so
    this changes the emitted bytes: the output depends on the write partition (C07/C13 violated). -/
theorem small_extra_after_breaks_independence :
    ((traceOf noBuf seededFast greedyMax (cyclicParts 0 [546])).map (·.matchLimit))[273]? = some 273 ∧
    ((traceOf noBuf seededFast greedyMax (cyclicParts 0 [274, 272])).map (·.matchLimit))[273]? = some 0 := by
  decide +kernel

/-- the same run with the real constant: identical views (an instance of `view_independence`, re-checked by
    evaluation) -/
example : traceOf noBuf (mkParams 4096 273 .fast .hc4 false) greedyMax (cyclicParts 0 [546]) =
    traceOf noBuf (mkParams 4096 273 .fast .hc4 false) greedyMax (cyclicParts 0 [274, 272]) := by
  decide +kernel

/-- The RAW `get_avail()` (views not capped) depends on the partition even with the real constants: at the
    very first `move_pos` it is 1000 resp. 600.  It is harmless because the code only ever uses
    `min(get_avail(), x)` with `x ≤ keep_size_after - (pos - symStart)` (`getAvail_observable`). -/
theorem raw_avail_depends_on_partition :
    ((traceOf noBuf { mkParams 4096 273 .fast .hc4 false with capViews := false } greedyMax (cyclicParts 0 [1000])).map (·.avail))[0]? = some 1000 ∧
    ((traceOf noBuf { mkParams 4096 273 .fast .hc4 false with capViews := false } greedyMax (cyclicParts 0 [600, 400])).map (·.avail))[0]? = some 600 := by
  decide +kernel

/-! ## Non-vacuity -/

/-- the side conditions hold for the default options (preset 6: 8 MiB, nice_len 64, normal, BT4; LZMA2) … -/
example : (mkParams (8 * 1024 * 1024) 64 .normal .bt4 true).WF :=
  mkParams_WF _ _ _ _ _ (by decide) (by decide) (by decide)

/-- … and for preset 0 (256 KiB, nice_len 128, fast, HC4; LZMA) -/
example : (mkParams (256 * 1024) 128 .fast .hc4 false).WF :=
  mkParams_WF _ _ _ _ _ (by decide) (by decide) (by decide)

/-- small parameters for examples with contents -/
def tiny : Params :=
  { dictSize := 8, extraBefore := 1, extraAfter := 3, matchLenMax := 4, niceLen := 4, reqFlush := 4, reqFinish := 2,
    maxAhead := 3, lzma2 := true }

theorem tiny_WF : tiny.WF := by
  constructor <;> decide

/-- `view_independence` / `trace_eq_ref` are not vacuous: a run with multi-byte symbols and read-ahead; the
    views carry contents; re-checked by evaluation for one pair of partitions -/
example : traceOf listBuf tiny (policyOracle 3) [[5, 6, 7], [], [8, 9, 10, 11, 12]] =
    traceOf listBuf tiny (policyOracle 3) [[5, 6, 7, 8, 9, 10, 11, 12]] :=
  view_independence tiny tiny_WF _ _ _ (by decide)

example : (traceOf listBuf tiny (policyOracle 3) [[5, 6, 7], [], [8, 9, 10, 11, 12]]).take 3 =
    [{ pos := 0, symStart := 0, avail := 7, mfOk := true, matchLimit := 4, ahead := [5, 6, 7, 8, 9, 10, 11], back := [] },
     { pos := 1, symStart := 1, avail := 7, mfOk := true, matchLimit := 4, ahead := [6, 7, 8, 9, 10, 11, 12], back := [5] },
     { pos := 2, symStart := 1, avail := 6, mfOk := true, matchLimit := 4, ahead := [7, 8, 9, 10, 11, 12], back := [5, 6] }] := by
  decide +kernel

example : refTrace tiny (policyOracle 3) [5, 6, 7, 8, 9, 10, 11, 12] =
    traceOf listBuf tiny (policyOracle 3) [[5], [6, 7, 8, 9], [10, 11, 12]] := by
  decide +kernel

/-- `lookahead_guarantee` on a concrete view: the last byte is shown with exactly the one remaining byte and
    is left pending by `move_pos` (`reqFinish = 2`) -/
example : (traceOf listBuf tiny (policyOracle 3) [[5, 6, 7], [8, 9, 10, 11, 12]]).getLast? =
    some { pos := 7, symStart := 4, avail := 1, mfOk := false, matchLimit := 0, ahead := [12], back := [5, 6, 7, 8, 9, 10, 11] } := by
  decide +kernel

/-- `moveWindow_spec` is not vacuous: a full window that satisfies the invariants and the move condition of
    `fill_window`; it moves by 262144 bytes -/
example : ∃ (w : Win (List Nat)) (fed : List Nat), WPos tiny w fed ∧
    (tiny.bufSize : Int) - (tiny.keepAfter : Int) ≤ w.readPos ∧ moveOffset tiny w = 262144 := by
  have hb : tiny.bufSize = 262164 := by decide
  have hk : tiny.keepBefore = 9 := by decide
  refine ⟨{ buf := List.replicate 262164 0, readPos := 262157, readLimit := 262157, writePos := 262164 },
    List.replicate 262164 0, ⟨?_, ?_, ?_, ?_, ?_, ?_, ?_, ?_⟩, ?_, ?_⟩
  · rw [hb]; exact List.length_replicate
  · rw [hb]
  · show (-1 : Int) ≤ 262157
    omega
  · show (262157 : Int) + 1 ≤ ((262164 : Nat) : Int)
    omega
  · show (List.replicate 262164 0).take 262164 = (List.replicate 262164 0).drop 0
    rw [List.drop_zero, List.take_replicate, Nat.min_self]
  · show (List.replicate 262164 0).length = 0 + 262164
    rw [List.length_replicate, Nat.zero_add]
  · left; rfl
  · rfl
  · rw [hb]
    show ((262164 : Nat) : Int) - ((7 : Nat) : Int) ≤ 262157
    omega
  · decide

/-- `symbol_lookahead` is not vacuous: the initial state after one `fill_window` of 8 bytes satisfies its
    hypotheses (`has_enough_data(0)`), and 7 = `keep_size_after` bytes are there -/
example : hasEnoughData (fillWindow listBuf tiny (St.init listBuf tiny) [1, 2, 3, 4, 5, 6, 7, 8]).1.win 0 = true := by
  decide +kernel

#print axioms trace_eq_ref
#print axioms view_independence
#print axioms view_independence_real
#print axioms lookahead_guarantee
#print axioms symbol_lookahead
#print axioms run_invariants
#print axioms run_never_stuck
#print axioms moveWindow_spec
#print axioms fillCore_spec
#print axioms setFlushing_WPos
#print axioms moveOffset_mod16
#print axioms getAvail_observable
#print axioms extra_after_covers_search
#print axioms mkParams_WF
#print axioms bufSize_fits_i32
#print axioms small_extra_after_breaks_independence
#print axioms raw_avail_depends_on_partition

end LzmaVerif.EncWindow
