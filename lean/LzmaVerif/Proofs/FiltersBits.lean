/-!
Bit-operation lemmas on `Nat` used to turn the `&&&`, `|||`, `<<<`, `>>>` of the BCJ filter models
into `/`, `%`, `*`, `+` with numeral moduli (which `omega` understands). Core Lean only.
-/
namespace LzmaVerif.Bits

theorem shl_eq (x n : Nat) : x <<< n = x * 2 ^ n := Nat.shiftLeft_eq x n
theorem shr_eq (x n : Nat) : x >>> n = x / 2 ^ n := Nat.shiftRight_eq_div_pow x n
theorem and_mask (x n : Nat) : x &&& (2 ^ n - 1) = x % 2 ^ n := Nat.and_two_pow_sub_one_eq_mod x n

/-- masking with `n` ones shifted left by `k` -/
theorem and_mask_shl (x n k : Nat) : x &&& ((2 ^ n - 1) * 2 ^ k) = x / 2 ^ k % 2 ^ n * 2 ^ k := by
  apply Nat.eq_of_testBit_eq
  intro i
  rw [← Nat.shiftLeft_eq, ← Nat.shiftLeft_eq, ← Nat.shiftRight_eq_div_pow]
  simp only [Nat.testBit_and, Nat.testBit_shiftLeft, Nat.testBit_two_pow_sub_one,
    Nat.testBit_mod_two_pow, Nat.testBit_shiftRight]
  by_cases h : i ≥ k
  · have : k + (i - k) = i := by omega
    simp [h, this, Bool.and_comm]
  · simp [h]

/-- `|||` of numbers with disjoint bit ranges is `+` -/
theorem or_disj (a b n : Nat) (ha : a % 2 ^ n = 0) (hb : b < 2 ^ n) : a ||| b = a + b := by
  have : a = (a / 2 ^ n) <<< n := by
    rw [Nat.shiftLeft_eq]
    have := Nat.div_add_mod a (2 ^ n)
    rw [ha, Nat.add_zero, Nat.mul_comm] at this
    exact this.symm
  rw [this, Nat.shiftLeft_add_eq_or_of_lt hb]

theorem or_disj' (a b n : Nat) (ha : a < 2 ^ n) (hb : b % 2 ^ n = 0) : a ||| b = a + b := by
  rw [Nat.or_comm, or_disj b a n hb ha, Nat.add_comm]

/-- inserting a bit field `b` into a hole of `a = H + L` (`H` above the hole, `L` below it) -/
theorem or_mid (a b H L n m : Nat) (ea : a = H + L) (hH : H % 2 ^ m = 0) (hL : L < 2 ^ n)
    (hb : b % 2 ^ n = 0) (hbL : b + L < 2 ^ m) : a ||| b = a + b := by
  subst ea
  have e1 : H + L = H ||| L := (or_disj H L m hH (by omega)).symm
  calc (H + L) ||| b = (H ||| L) ||| b := by rw [e1]
    _ = H ||| (b ||| L) := by rw [Nat.or_assoc, Nat.or_comm L b]
    _ = H ||| (b + L) := by rw [or_disj b L n hb hL]
    _ = H + (b + L) := or_disj H (b + L) m hH hbL
    _ = H + L + b := by omega

theorem and_3 (x : Nat) : x &&& 3 = x % 4 := and_mask x 2
theorem and_FC (x : Nat) : x &&& 0xFC = x / 4 % 64 * 4 := and_mask_shl x 6 2

theorem and_3F (x : Nat) : x &&& 0x3F = x % 64 := and_mask x 6
theorem and_1F (x : Nat) : x &&& 0x1F = x % 32 := and_mask x 5
theorem and_3FFFFFF (x : Nat) : x &&& 0x03FFFFFF = x % 2 ^ 26 := and_mask x 26
theorem and_1FFFFC (x : Nat) : x &&& 0x001FFFFC = x / 2 ^ 2 % 2 ^ 19 * 2 ^ 2 := and_mask_shl x 19 2
theorem and_3FFFC (x : Nat) : x &&& 0x0003FFFC = x / 2 ^ 2 % 2 ^ 16 * 2 ^ 2 := and_mask_shl x 16 2
theorem and_1C0000 (x : Nat) : x &&& 0x001C0000 = x / 2 ^ 18 % 2 ^ 3 * 2 ^ 18 := and_mask_shl x 3 18
theorem and_20000 (x : Nat) : x &&& 0x00020000 = x / 2 ^ 17 % 2 ^ 1 * 2 ^ 17 := and_mask_shl x 1 17
theorem and_80 (x : Nat) : x &&& 0x80 = x / 2 ^ 7 % 2 ^ 1 * 2 ^ 7 := and_mask_shl x 1 7
theorem and_9F (x : Nat) : x &&& 0x9F = x / 2 ^ 7 % 2 * 2 ^ 7 + x % 32 := by
  have : (0x9F : Nat) = 0x80 ||| 0x1F := by decide
  rw [this, Nat.and_or_distrib_left, and_80, and_1F, or_disj _ _ 5 (by omega) (by omega)]

theorem and_7 (x : Nat) : x &&& 7 = x % 8 := and_mask x 3
theorem and_F8 (x : Nat) : x &&& 0xF8 = x / 8 % 32 * 8 := and_mask_shl x 5 3
theorem and_C0 (x : Nat) : x &&& 0xC0 = x / 64 % 4 * 64 := and_mask_shl x 2 6
theorem and_1 (x : Nat) : x &&& 1 = x % 2 := and_mask x 1
theorem and_3FFFFF (x : Nat) : x &&& 0x3FFFFF = x % 2 ^ 22 := and_mask x 22

theorem word_of_bytes (N c0 c1 c2 c3 : Nat) (hN : N < 2 ^ 32)
    (hc0 : c0 = N / 2 ^ 24 % 256) (hc1 : c1 = N / 2 ^ 16 % 256) (hc2 : c2 = N / 2 ^ 8 % 256)
    (hc3 : c3 = N % 256) : c0 * 2 ^ 24 + c1 * 2 ^ 16 + c2 * 2 ^ 8 + c3 = N := by
  omega

theorem bytes_of_word (b0 b1 b2 b3 : Nat) (h0 : b0 < 256) (h1 : b1 < 256) (h2 : b2 < 256) (h3 : b3 < 256) :
    (b0 * 2 ^ 24 + b1 * 2 ^ 16 + b2 * 2 ^ 8 + b3) / 2 ^ 24 % 256 = b0 ∧
    (b0 * 2 ^ 24 + b1 * 2 ^ 16 + b2 * 2 ^ 8 + b3) / 2 ^ 16 % 256 = b1 ∧
    (b0 * 2 ^ 24 + b1 * 2 ^ 16 + b2 * 2 ^ 8 + b3) / 2 ^ 8 % 256 = b2 ∧
    (b0 * 2 ^ 24 + b1 * 2 ^ 16 + b2 * 2 ^ 8 + b3) % 256 = b3 := by
  omega

end LzmaVerif.Bits
