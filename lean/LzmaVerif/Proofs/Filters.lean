import LzmaVerif.Proofs.FiltersDelta
import LzmaVerif.Proofs.FiltersArm
import LzmaVerif.Proofs.FiltersPpc
import LzmaVerif.Proofs.FiltersSparc
import LzmaVerif.Proofs.FiltersThumb
import LzmaVerif.Proofs.FiltersArm64
import LzmaVerif.Proofs.FiltersIa64
import LzmaVerif.Proofs.FiltersRiscv
import LzmaVerif.Proofs.FiltersX86
/-!
Block filters: decoding inverts encoding, for EVERY byte string and every admissible start offset
(positions wrap modulo 2^32).  The theorems are proved in the per-filter files
(`FiltersDelta`, `FiltersArm`, `FiltersPpc`, `FiltersSparc`, `FiltersThumb`, `FiltersArm64`,
`FiltersIa64`, `FiltersRiscv`, `FiltersX86`) on top of `FiltersBase` (generic scan loop + `StepOK` + `scan_inv`)
and `FiltersBits` (bit operations as arithmetic).  Here the exact statements are re-checked and the
axioms are printed.  Core Lean only (no Mathlib).
-/
namespace LzmaVerif.Filters

/-- Delta, for every distance parameter and every byte string -/
example (d : Nat) (xs : List Nat) (h : Bytes xs) : deltaDecode d (deltaEncode d xs) = xs :=
  delta_inv d xs h

/-- ARM, PowerPC, SPARC: 4-byte aligned start offsets, any length -/
example (start : Nat) (hs : start % 4 = 0) (xs : List Nat) (h : Bytes xs) :
    oneShot .arm false start (oneShot .arm true start xs) = xs := arm_inv start hs xs h
example (start : Nat) (hs : start % 4 = 0) (xs : List Nat) (h : Bytes xs) :
    oneShot .ppc false start (oneShot .ppc true start xs) = xs := ppc_inv start hs xs h
example (start : Nat) (hs : start % 4 = 0) (xs : List Nat) (h : Bytes xs) :
    oneShot .sparc false start (oneShot .sparc true start xs) = xs := sparc_inv start hs xs h

/-- ARM Thumb (2-byte aligned), ARM64 (4), IA-64 (16), RISC-V (2) -/
example (start : Nat) (hs : start % 2 = 0) (xs : List Nat) (h : Bytes xs) :
    oneShot .armThumb false start (oneShot .armThumb true start xs) = xs := thumb_inv start hs xs h
example (start : Nat) (hs : start % 4 = 0) (xs : List Nat) (h : Bytes xs) :
    oneShot .arm64 false start (oneShot .arm64 true start xs) = xs := arm64_inv start hs xs h
example (start : Nat) (hs : start % 16 = 0) (xs : List Nat) (h : Bytes xs) :
    oneShot .ia64 false start (oneShot .ia64 true start xs) = xs := ia64_inv start hs xs h
example (start : Nat) (hs : start % 2 = 0) (xs : List Nat) (h : Bytes xs) :
    oneShot .riscv false start (oneShot .riscv true start xs) = xs := riscv_inv start hs xs h

/-- x86: any start offset -/
example (start : Nat) (xs : List Nat) (h : Bytes xs) :
    oneShot .x86 false start (oneShot .x86 true start xs) = xs := x86_inv start xs h

#print axioms delta_inv
#print axioms arm_inv
#print axioms ppc_inv
#print axioms sparc_inv
#print axioms thumb_inv
#print axioms arm64_inv
#print axioms ia64_inv
#print axioms riscv_inv
#print axioms x86_inv

end LzmaVerif.Filters
