/-
  Basic lemmas for the BT4 proofs: `extendMatch`, table reads/writes, comparison shapes, `pairOf`.
-/
import LzmaVerif.Model.Bt4
namespace LzmaVerif.Mf

/-! ### `extendMatch` -/

theorem extendMatch_ge (d : Array UInt8) (p delta limit cur : Nat) :
    cur ≤ extendMatch d p delta limit cur := by
  fun_induction extendMatch d p delta limit cur with
  | case1 cur h ih => omega
  | case2 cur h => exact Nat.le_refl _

theorem extendMatch_le (d : Array UInt8) (p delta limit cur : Nat) (h : cur ≤ limit) :
    extendMatch d p delta limit cur ≤ limit := by
  fun_induction extendMatch d p delta limit cur with
  | case1 cur hc ih => exact ih (by omega)
  | case2 cur hc => exact h

theorem extendMatch_eq (d : Array UInt8) (p delta limit cur : Nat) :
    ∀ i, cur ≤ i → i < extendMatch d p delta limit cur → byteAt d (p + i) = byteAt d (p + i - delta) := by
  fun_induction extendMatch d p delta limit cur with
  | case1 cur hc ih =>
    intro i hi hlt
    by_cases h : i = cur
    · subst h; exact hc.2
    · exact ih i (by omega) hlt
  | case2 cur hc =>
    intro i hi hlt; omega

/-- maximality: the extension stops at `limit` or at a mismatch -/
theorem extendMatch_stop (d : Array UInt8) (p delta limit cur : Nat) (h : cur ≤ limit) :
    extendMatch d p delta limit cur = limit ∨
    byteAt d (p + extendMatch d p delta limit cur) ≠ byteAt d (p + extendMatch d p delta limit cur - delta) := by
  fun_induction extendMatch d p delta limit cur with
  | case1 cur hc ih => exact ih (by omega)
  | case2 cur hc =>
    by_cases h1 : cur < limit
    · right; intro he; exact hc ⟨h1, he⟩
    · left; omega

/-! ### tables -/

theorem getD_set (a : Array Nat) (i v j : Nat) :
    (a.setIfInBounds i v).getD j 0 = if i = j ∧ i < a.size then v else a.getD j 0 := by
  simp only [Array.getD_eq_getD_getElem?, Array.getElem?_setIfInBounds]
  by_cases h : i = j
  · subst h
    by_cases h2 : i < a.size
    · simp [h2]
    · simp [h2]
  · simp [h]

theorem getD_replicate (n i : Nat) : (Array.replicate n 0).getD i 0 = 0 := by
  simp only [Array.getD_eq_getD_getElem?, Array.getElem?_replicate]
  split <;> rfl

theorem getD_of_size_le (a : Array Nat) (i : Nat) (h : a.size ≤ i) : a.getD i 0 = 0 := by
  simp only [Array.getD_eq_getD_getElem?]
  rw [Array.getElem?_eq_none h]; rfl

namespace Bt4

/-! ### comparison shapes -/

theorem ltOrLe_true (a b : Nat) : ltOrLe true a b = decide (a < b) := rfl
theorem geOrGt_true (a b : Nat) : geOrGt true a b = decide (a ≥ b) := rfl
theorem geOrGt_false (a b : Nat) : geOrGt false a b = decide (a > b) := rfl

section ok
variable {P : Bt4Params} (h : P.ok)
include h
theorem ok_d2 : P.d2Strict = true := h.1
theorem ok_d3 : P.d3Strict = true := h.2.1
theorem ok_stop : P.treeStopGe = true := h.2.2.1
theorem ok_pairSel : P.pairSelGt = true := h.2.2.2.1
theorem ok_nice : P.niceStopGe = true := h.2.2.2.2.1
theorem ok_best : P.bestStrict = true := h.2.2.2.2.2.1
theorem ok_extra : P.cyclicExtra = 1 := h.2.2.2.2.2.2.1
theorem ok_factor : 2 ≤ P.treeFactor := h.2.2.2.2.2.2.2.1
theorem ok_shl : P.shLeft = 1 := h.2.2.2.2.2.2.2.2.1
theorem ok_dist : P.distSub = 1 := h.2.2.2.2.2.2.2.2.2.1
theorem ok_h2Len : P.h2Len = 2 := h.2.2.2.2.2.2.2.2.2.2.1
theorem ok_h3Len : P.h3Len = 3 := h.2.2.2.2.2.2.2.2.2.2.2.1
theorem ok_floor : 2 ≤ P.lenBestFloor := h.2.2.2.2.2.2.2.2.2.2.2.2.1
theorem ok_floor_lt : P.lenBestFloor < P.minAvailFinishing := h.2.2.2.2.2.2.2.2.2.2.2.2.2.1
theorem ok_hash2 : 0 < P.hash.hash2Size ∧ P.hash.hash2Size % 256 = 0 :=
  ⟨h.2.2.2.2.2.2.2.2.2.2.2.2.2.2.1, h.2.2.2.2.2.2.2.2.2.2.2.2.2.2.2.1⟩
theorem ok_hash3 : 0 < P.hash.hash3Size ∧ P.hash.hash3Size % 65536 = 0 ∧ P.hash.shift3 = 8 :=
  ⟨h.2.2.2.2.2.2.2.2.2.2.2.2.2.2.2.2.1, h.2.2.2.2.2.2.2.2.2.2.2.2.2.2.2.2.2.1, h.2.2.2.2.2.2.2.2.2.2.2.2.2.2.2.2.2.2.1⟩
theorem ok_avail4 : 4 ≤ P.minAvailFinishing := h.2.2.2.2.2.2.2.2.2.2.2.2.2.2.2.2.2.2.2
end ok

/-- an entry of a table / of the tree: nothing, or the `lz_pos` of an inserted position, at most `hi` -/
def EntryOk (cs hi e : Nat) : Prop := e = 0 ∨ (cs < e ∧ e ≤ hi)

def TblOk (cs hi : Nat) (a : Array Nat) : Prop := ∀ i, EntryOk cs hi (a.getD i 0)

theorem EntryOk.mono {cs hi hi' e : Nat} (h : EntryOk cs hi e) (hh : hi ≤ hi') : EntryOk cs hi' e := by
  rcases h with h | h
  · exact Or.inl h
  · exact Or.inr ⟨h.1, by omega⟩

theorem TblOk.mono {cs hi hi' : Nat} {a : Array Nat} (h : TblOk cs hi a) (hh : hi ≤ hi') : TblOk cs hi' a :=
  fun i => (h i).mono hh

theorem EntryOk.zero (cs hi : Nat) : EntryOk cs hi 0 := Or.inl rfl

theorem TblOk.set {cs hi : Nat} {a : Array Nat} (h : TblOk cs hi a) (i v : Nat) (hv : EntryOk cs hi v) :
    TblOk cs hi (a.setIfInBounds i v) := by
  intro j
  rw [getD_set]
  split
  · exact hv
  · exact h j

theorem TblOk.replicate (cs hi n : Nat) : TblOk cs hi (Array.replicate n 0) := by
  intro i; rw [getD_replicate]; exact EntryOk.zero _ _

end Bt4
end LzmaVerif.Mf
