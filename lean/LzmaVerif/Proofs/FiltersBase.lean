import LzmaVerif.Model.Filters
/-!
Common infrastructure for the filter inverse proofs: `gb`/`sb` lemmas, buffers of bytes, and a
generic "scan" loop with a generic theorem: if the decoder step undoes the encoder step on the
window it advances over, and both steps are local, the decoder scan undoes the encoder scan.
Core Lean only.
-/
namespace LzmaVerif.Filters

/-- all elements are bytes -/
def Bytes (xs : List Nat) : Prop := ∀ x ∈ xs, x < 256

/-- all elements of a buffer are bytes -/
def BBytes (b : Buf) : Prop := ∀ k, gb b k < 256

theorem size_sb (b : Buf) (i v : Nat) : (sb b i v).size = b.size := by
  simp [sb]

theorem gb_sb (b : Buf) (i v j : Nat) :
    gb (sb b i v) j = if i = j ∧ i < b.size then v % 256 else gb b j := by
  simp only [gb, sb, Array.getD_eq_getD_getElem?, Array.getElem?_setIfInBounds]
  by_cases h : i = j
  · subst h
    by_cases h2 : i < b.size
    · simp [h2]
    · simp [h2]
  · simp [h]

theorem gb_sb_ne (b : Buf) (i v j : Nat) (h : i ≠ j) : gb (sb b i v) j = gb b j := by
  rw [gb_sb]; simp [h]

theorem gb_sb_eq (b : Buf) (i v : Nat) (h : i < b.size) : gb (sb b i v) i = v % 256 := by
  rw [gb_sb]; simp [h]

theorem gb_of_ge (b : Buf) (k : Nat) (h : b.size ≤ k) : gb b k = 0 := by
  simp [gb, Array.getD_eq_getD_getElem?, h]

theorem buf_ext (a b : Buf) (hs : a.size = b.size) (h : ∀ k, k < a.size → gb a k = gb b k) : a = b := by
  apply Array.ext hs
  intro i h1 h2
  have := h i h1
  simpa [gb, Array.getD_eq_getD_getElem?, h1, h2] using this

theorem BBytes_sb (b : Buf) (i v : Nat) (h : BBytes b) : BBytes (sb b i v) := by
  intro k
  rw [gb_sb]
  split
  · omega
  · exact h k

theorem BBytes_toArray (xs : List Nat) (h : Bytes xs) : BBytes xs.toArray := by
  intro k
  by_cases hk : k < xs.length
  · have : gb xs.toArray k = xs[k] := by
      simp [gb, Array.getD_eq_getD_getElem?, hk]
    rw [this]
    exact h _ (List.getElem_mem hk)
  · rw [gb_of_ge _ _ (by simpa using hk)]
    decide

/-! ## Generic scan -/

/-- generic loop: at index `i`, stop if fewer than `w` bytes remain; otherwise apply `step`, which
    returns the new buffer and how far to advance -/
def scan (w : Nat) (step : Nat → Buf → Buf × Nat) : Nat → Nat → Buf → Buf × Nat
  | 0, i, b => (b, i)
  | fuel+1, i, b =>
    if i + w > b.size then (b, i) else scan w step fuel (i + (step i b).2) (step i b).1

/-- Hypotheses on an encoder step `es` and decoder step `ds`.
    `V` is the invariant on scan indices (alignment); `sigf r x` is the "signature" of a byte at
    relative offset `r` behind the current index that a decoder may look at beyond its advance,
    and that encoder steps preserve. -/
structure StepOK (w : Nat) (V : Nat → Prop) (sigf : Nat → Nat → Nat)
    (es ds : Nat → Buf → Buf × Nat) : Prop where
  size_e : ∀ i b, (es i b).1.size = b.size
  size_d : ∀ i b, (ds i b).1.size = b.size
  adv_V : ∀ i b, V i → V (i + (es i b).2)
  frame_e : ∀ i b k, (k < i ∨ i + (es i b).2 ≤ k) → gb (es i b).1 k = gb b k
  frame_d : ∀ i b k, (k < i ∨ i + (ds i b).2 ≤ k) → gb (ds i b).1 k = gb b k
  bytes_e : ∀ i b, BBytes b → BBytes (es i b).1
  sig_e : ∀ j b E, V j → j + w ≤ b.size →
    (∀ k, k < j + (es j b).2 → gb E k = gb (es j b).1 k) →
    ∀ r, sigf r (gb b (j + r)) = sigf r (gb E (j + r))
  loc_d : ∀ i b b', V i → b.size = b'.size → i + w ≤ b.size →
    (∀ k, i ≤ k → k < i + (ds i b).2 → gb b' k = gb b k) →
    (∀ r, sigf r (gb b (i + (ds i b).2 + r)) = sigf r (gb b' (i + (ds i b).2 + r))) →
    (ds i b').2 = (ds i b).2 ∧ ∀ k, i ≤ k → k < i + (ds i b).2 → gb (ds i b').1 k = gb (ds i b).1 k
  inv : ∀ i b, V i → BBytes b → i + w ≤ b.size → ds i (es i b).1 = (b, (es i b).2)

section
variable {w : Nat} {V : Nat → Prop} {sigf : Nat → Nat → Nat} {es ds : Nat → Buf → Buf × Nat}

theorem scan_size (step : Nat → Buf → Buf × Nat) (hs : ∀ i b, (step i b).1.size = b.size) :
    ∀ fuel i b, (scan w step fuel i b).1.size = b.size := by
  intro fuel
  induction fuel with
  | zero => intro i b; rfl
  | succ n ih =>
    intro i b
    simp only [scan]
    split
    · rfl
    · rw [ih, hs]

theorem scan_frame (step : Nat → Buf → Buf × Nat)
    (hf : ∀ i b k, k < i → gb (step i b).1 k = gb b k) :
    ∀ fuel i b k, k < i → gb (scan w step fuel i b).1 k = gb b k := by
  intro fuel
  induction fuel with
  | zero => intro i b k _; rfl
  | succ n ih =>
    intro i b k hk
    simp only [scan]
    split
    · rfl
    · rw [ih _ _ _ (by omega), hf _ _ _ hk]

theorem scan_bytes (step : Nat → Buf → Buf × Nat)
    (hb : ∀ i b, BBytes b → BBytes (step i b).1) :
    ∀ fuel i b, BBytes b → BBytes (scan w step fuel i b).1 := by
  intro fuel
  induction fuel with
  | zero => intro i b h; exact h
  | succ n ih =>
    intro i b h
    simp only [scan]
    split
    · exact h
    · exact ih _ _ (hb _ _ h)

theorem scan_sig (h : StepOK w V sigf es ds) :
    ∀ fuel j b, V j → ∀ r, sigf r (gb b (j + r)) = sigf r (gb (scan w es fuel j b).1 (j + r)) := by
  intro fuel
  cases fuel with
  | zero => intro j b _ r; rfl
  | succ n =>
    intro j b hV r
    simp only [scan]
    split
    · rfl
    · apply h.sig_e j b _ hV (by omega)
      intro k hk
      exact scan_frame es (fun i b k hk => h.frame_e i b k (Or.inl hk)) _ _ _ _ hk

theorem scan_inv_aux (h : StepOK w V sigf es ds) :
    ∀ fuel i e d, V i → BBytes e → e.size = d.size →
      (∀ k, i ≤ k → gb d k = gb (scan w es fuel i e).1 k) →
      (scan w ds fuel i d).1.size = d.size ∧
      (∀ k, i ≤ k → gb (scan w ds fuel i d).1 k = gb e k) ∧
      (∀ k, k < i → gb (scan w ds fuel i d).1 k = gb d k) := by
  intro fuel
  induction fuel with
  | zero =>
    intro i e d _ _ _ hd
    exact ⟨rfl, fun k hk => hd k hk, fun k _ => rfl⟩
  | succ n ih =>
    intro i e d hV hB hsz hd
    simp only [scan] at hd ⊢
    by_cases hstop : i + w > e.size
    · have hstop' : i + w > d.size := by omega
      rw [if_pos hstop] at hd
      rw [if_pos hstop']
      exact ⟨rfl, fun k hk => hd k hk, fun k _ => rfl⟩
    · have hstop' : ¬ i + w > d.size := by omega
      rw [if_neg hstop] at hd
      rw [if_neg hstop']
      -- the encoder's step
      have hfr : ∀ k, k < i + (es i e).2 →
          gb (scan w es n (i + (es i e).2) (es i e).1).1 k = gb (es i e).1 k :=
        fun k hk => scan_frame es (fun i b k hk => h.frame_e i b k (Or.inl hk)) _ _ _ _ hk
      have hsig := scan_sig h n (i + (es i e).2) (es i e).1 (h.adv_V i e hV)
      have hinv := h.inv i e hV hB (by omega)
      have hloc := h.loc_d i (es i e).1 d hV (by rw [h.size_e]; exact hsz) (by rw [h.size_e]; omega)
      rw [hinv] at hloc
      simp only at hloc
      obtain ⟨hadv, hwin⟩ := hloc
        (fun k h1 h2 => by rw [hd k h1, hfr k h2])
        (fun r => by rw [hsig r, hd _ (by omega)])
      rw [hadv]
      obtain ⟨r1, r2, r3⟩ := ih (i + (es i e).2) (es i e).1 (ds i d).1 (h.adv_V i e hV)
        (h.bytes_e i e hB) (by rw [h.size_e, h.size_d]; exact hsz)
        (fun k hk => by
          rw [h.frame_d i d k (Or.inr (by rw [hadv]; exact hk))]
          exact hd k (by omega))
      refine ⟨by rw [r1, h.size_d], ?_, ?_⟩
      · intro k hk
        by_cases hk2 : i + (es i e).2 ≤ k
        · rw [r2 k hk2, h.frame_e i e k (Or.inr hk2)]
        · rw [r3 k (by omega), hwin k hk (by omega)]
      · intro k hk
        rw [r3 k (by omega), h.frame_d i d k (Or.inl hk)]

/-- the decoder scan undoes the encoder scan -/
theorem scan_inv (h : StepOK w V sigf es ds) (fuel : Nat) (e : Buf) (hV : V 0) (hB : BBytes e) :
    (scan w ds fuel 0 (scan w es fuel 0 e).1).1 = e := by
  have hsz : e.size = (scan w es fuel 0 e).1.size := (scan_size es h.size_e fuel 0 e).symm
  obtain ⟨r1, r2, _⟩ := scan_inv_aux h fuel 0 e (scan w es fuel 0 e).1 hV hB hsz (fun _ _ => rfl)
  apply buf_ext
  · rw [r1, ← hsz]
  · intro k _
    exact r2 k (Nat.zero_le _)

end

/-- agreement of two buffers on a window -/
def Agree (i w : Nat) (b b' : Buf) : Prop :=
  b.size = b'.size ∧ ∀ k, i ≤ k → k < i + w → gb b' k = gb b k

theorem Agree.sb {i w : Nat} {b b' : Buf} (h : Agree i w b b') (j v : Nat) :
    Agree i w (sb b j v) (sb b' j v) := by
  refine ⟨by rw [size_sb, size_sb]; exact h.1, ?_⟩
  intro k h1 h2
  rw [gb_sb, gb_sb, h.2 k h1 h2, h.1]

/-- `StepOK` for steps that always advance by the window width -/
theorem StepOK.fixed (w : Nat) (V : Nat → Prop) (fe fd : Nat → Buf → Buf)
    (size_e : ∀ i b, (fe i b).size = b.size)
    (size_d : ∀ i b, (fd i b).size = b.size)
    (adv_V : ∀ i, V i → V (i + w))
    (frame_e : ∀ i b k, (k < i ∨ i + w ≤ k) → gb (fe i b) k = gb b k)
    (frame_d : ∀ i b k, (k < i ∨ i + w ≤ k) → gb (fd i b) k = gb b k)
    (bytes_e : ∀ i b, BBytes b → BBytes (fe i b))
    (loc_d : ∀ i b b', Agree i w b b' → i + w ≤ b.size → Agree i w (fd i b) (fd i b'))
    (inv : ∀ i b, V i → BBytes b → i + w ≤ b.size → fd i (fe i b) = b) :
    StepOK w V (fun _ _ => 0) (fun i b => (fe i b, w)) (fun i b => (fd i b, w)) where
  size_e := size_e
  size_d := size_d
  adv_V := fun i _ h => adv_V i h
  frame_e := frame_e
  frame_d := frame_d
  bytes_e := bytes_e
  sig_e := fun _ _ _ _ _ _ _ => rfl
  loc_d := fun i b b' _ hs hw hag _ => ⟨rfl, (loc_d i b b' ⟨hs, hag⟩ hw).2⟩
  inv := fun i b hV hB hw => by simp only [inv i b hV hB hw]

end LzmaVerif.Filters
