/-
  Fast encoder: what the selection loops of `get_next_symbol` return.
  * `repLoop`   – every repeated match it returns is a real repetition of length `2 ..= avail`;
  * `pairLoop` / `mainSel` – the `main_len` / `main_dist` pair is an element of the finder's list
    (or `main_len < 2`).
-/
import LzmaVerif.Proofs.EncFastBase

namespace LzmaVerif.EncFast
open LzmaVerif Mf Lzma
open LzmaVerif.Mf.Hc4 (Eqs byteAt_lt extendMatch_spec)

/-- `get_match_len` never exceeds its limit and returns a real repetition -/
theorem getMatchLen_spec (d : Array UInt8) (p dist limit : Nat) :
    getMatchLen d p dist limit ≤ limit ∧ Eqs d p (dist + 1) (getMatchLen d p dist limit) := by
  have := extendMatch_spec d p (dist + 1) limit 0 (Nat.zero_le _)
    (fun i hi => absurd hi (Nat.not_lt_zero i))
  exact ⟨this.2.1, this.2.2⟩

/-- a repeated match of length `len` with `reps[i]` at position `p` -/
def RepOk (d : Array UInt8) (p avail : Nat) (c : Coder) (len i : Nat) : Prop :=
  i ≤ 3 ∧ 2 ≤ len ∧ len ≤ avail ∧ Eqs d p (c.rep i + 1) len

theorem repLoop_ok (P : FastParams) (hmin : P.matchLenMin = 2) (nice : Nat) (d : Array UInt8)
    (p avail : Nat) (c : Coder) :
    ∀ (l : List Nat) (bl bi : Nat), (∀ i ∈ l, i ≤ 3) → (bl = 0 ∨ RepOk d p avail c bl bi) →
      (∀ i len, repLoop P nice d p avail c l bl bi = .nice i len → RepOk d p avail c len i) ∧
      (∀ bl' bi', repLoop P nice d p avail c l bl bi = .best bl' bi' →
        bl' = 0 ∨ RepOk d p avail c bl' bi')
  | [], bl, bi, _, hb => by
    simp only [repLoop]
    refine ⟨fun i len h => (by cases h), fun bl' bi' h => ?_⟩
    injection h with h1 h2
    subst h1; subst h2; exact hb
  | i :: rest, bl, bi, hl, hb => by
    have hi : i ≤ 3 := hl i (List.mem_cons_self ..)
    have hrest : ∀ j ∈ rest, j ≤ 3 := fun j hj => hl j (List.mem_cons_of_mem _ hj)
    have hs := getMatchLen_spec d p (c.rep i) avail
    simp only [repLoop]
    split
    · exact repLoop_ok P hmin nice d p avail c rest bl bi hrest hb
    · next h2 =>
      have hok : RepOk d p avail c (getMatchLen d p (c.rep i) avail) i :=
        ⟨hi, by omega, hs.1, hs.2⟩
      split
      · refine ⟨fun j len h => ?_, fun bl' bi' h => (by cases h)⟩
        injection h with h1 h2
        subst h1; subst h2; exact hok
      · split
        · exact repLoop_ok P hmin nice d p avail c rest _ i hrest (Or.inr hok)
        · exact repLoop_ok P hmin nice d p avail c rest bl bi hrest hb

/-- the `change_pair` loop ends on an element of the list -/
theorem pairLoop_mem (P : FastParams) :
    ∀ (rest : List Match) (ml md : Nat), pairLoop P ml md rest ∈ (ml, md) :: rest
  | [], ml, md => by simp only [pairLoop]; exact List.mem_cons_self ..
  | m :: rest, ml, md => by
    simp only [pairLoop]
    split
    · exact List.mem_cons_of_mem _ (pairLoop_mem P rest m.1 m.2)
    · exact List.mem_cons_self ..

theorem mainSel_ok (P : FastParams) (nice : Nat) (l : List Match) :
    (∀ len dist, mainSel P nice l = .nice len dist → (len, dist) ∈ l) ∧
    (∀ len dist, mainSel P nice l = .sel len dist → len < 2 ∨ (len, dist) ∈ l) := by
  cases l with
  | nil =>
    simp only [mainSel]
    refine ⟨fun len dist h => (by cases h), fun len dist h => ?_⟩
    injection h with h1 h2
    left; omega
  | cons m rest =>
    have hm := pairLoop_mem P rest m.1 m.2
    simp only [mainSel]
    split
    · refine ⟨fun len dist h => ?_, fun len dist h => (by cases h)⟩
      injection h with h1 h2
      subst h1; subst h2; exact List.mem_cons_self ..
    · split
      · refine ⟨fun len dist h => (by cases h), fun len dist h => ?_⟩
        injection h with h1 h2
        left; omega
      · refine ⟨fun len dist h => (by cases h), fun len dist h => ?_⟩
        injection h with h1 h2
        right
        subst h1; subst h2
        exact hm

end LzmaVerif.EncFast
