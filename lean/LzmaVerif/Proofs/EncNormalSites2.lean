/-
  Normal encoder: the match insertion sites (`calc_normal_match_prices`, the match loop of the first part) and the
  rep loop of the first part preserve the invariant.
-/
import LzmaVerif.Proofs.EncNormalSites

namespace LzmaVerif.EncNormal
open LzmaVerif Mf Lzma Rc EncFast EncPrices
open LzmaVerif.Mf.Hc4 (Eqs byteAt_lt extendMatch_spec)

/-- all matches of a list are valid at `q` -/
def AllValid (d : Array UInt8) (dict q : Nat) (ms : List Match) : Prop :=
  ∀ m ∈ ms, ValidMatch d dict q (min 273 (d.size - q)) m

theorem lensIncreasing_tail (m : Match) (rest : List Match) (h : lensIncreasing (m :: rest) = true) :
    lensIncreasing rest = true := by
  cases rest with
  | nil => rfl
  | cons m' r => simp only [lensIncreasing, Bool.and_eq_true] at h; exact h.2

theorem lensIncreasing_head (m m' : Match) (rest : List Match) (h : lensIncreasing (m :: m' :: rest) = true) :
    m.1 < m'.1 := by
  simp only [lensIncreasing, Bool.and_eq_true, decide_eq_true_eq] at h; exact h.1

/-! ### `shortenList` / `dropShort` -/

theorem shortenList_valid (d : Array UInt8) (dict q avail : Nat) (h2 : 2 ≤ avail) :
    ∀ ms : List Match, AllValid d dict q ms → AllValid d dict q (shortenList avail ms)
  | [], _ => fun m hm => absurd hm (List.not_mem_nil)
  | m :: rest, h => by
    rw [shortenList]
    split
    · intro x hx
      rcases List.mem_cons.mp hx with rfl | hx
      · exact h _ (List.mem_cons_self ..)
      · exact shortenList_valid d dict q avail h2 rest (fun y hy => h y (List.mem_cons_of_mem _ hy)) x hx
    · next hge =>
      intro x hx
      have : x = (avail, m.2) := by simpa using hx
      subst this
      have hv := h m (List.mem_cons_self ..)
      exact validMatch_shorter (len := m.1) (dist := m.2) hv avail h2 (by omega)

theorem shortenList_head_le (avail : Nat) : ∀ (ms : List Match) (x : Match), x ∈ shortenList avail ms → x.1 ≤ avail
  | [], x, hx => absurd hx (List.not_mem_nil)
  | m :: rest, x, hx => by
    rw [shortenList] at hx
    split at hx
    · rcases List.mem_cons.mp hx with rfl | hx
      · omega
      · exact shortenList_head_le avail rest x hx
    · have : x = (avail, m.2) := by simpa using hx
      subst this; exact Nat.le_refl _

theorem shortenList_inc (avail : Nat) :
    ∀ ms : List Match, lensIncreasing ms = true → lensIncreasing (shortenList avail ms) = true
  | [], _ => rfl
  | [m], _ => by
    rw [shortenList]
    split
    · rfl
    · rfl
  | m :: m' :: rest, h => by
    have ih := shortenList_inc avail (m' :: rest) (lensIncreasing_tail m _ h)
    have hlt := lensIncreasing_head m m' rest h
    rw [shortenList]
    split
    · next h1 =>
      rw [shortenList] at ih ⊢
      split
      · next h2 =>
        rw [if_pos h2] at ih
        simp only [lensIncreasing, Bool.and_eq_true, decide_eq_true_eq]
        exact ⟨hlt, ih⟩
      · simp only [lensIncreasing, Bool.and_eq_true, decide_eq_true_eq, and_true]
        exact h1
    · rfl

theorem dropShort_sub (len : Nat) : ∀ (ms : List Match) (x : Match), x ∈ dropShort len ms → x ∈ ms
  | [], x, hx => hx
  | m :: rest, x, hx => by
    rw [dropShort] at hx
    split at hx
    · exact List.mem_cons_of_mem _ (dropShort_sub len rest x hx)
    · exact hx

theorem dropShort_inc (len : Nat) : ∀ ms : List Match, lensIncreasing ms = true → lensIncreasing (dropShort len ms) = true
  | [], _ => rfl
  | m :: rest, h => by
    rw [dropShort]
    split
    · exact dropShort_inc len rest (lensIncreasing_tail m rest h)
    · exact h

theorem dropShort_head (len : Nat) : ∀ (ms : List Match) (m : Match) (rest : List Match),
    dropShort len ms = m :: rest → len ≤ m.1
  | [], m, rest, h => by simp only [dropShort] at h; exact absurd h (by simp)
  | x :: xs, m, rest, h => by
    rw [dropShort] at h
    split at h
    · exact dropShort_head len xs m rest h
    · next hn =>
      injection h with h1 h2
      subst h1; omega

theorem offer_optEnd (a : OA) (t price : Nat) (f : Opt → Opt) : (a.offer t price f).optEnd = a.optEnd := by
  unfold OA.offer; split <;> rfl

theorem extend_optEnd_ge (P : NormalParams) (a : OA) (t : Nat) : a.optEnd ≤ (a.extend P t).optEnd := by
  unfold OA.extend
  split
  · show a.optEnd ≤ t; omega
  · exact Nat.le_refl _

theorem offerComposite_optEnd_ge (E : Env) (a : OA) (cur q avail len dist price0 stateX : Nat) (back2 : Int) :
    a.optEnd ≤ (offerComposite E a cur q avail len dist price0 stateX back2).optEnd := by
  unfold offerComposite
  simp only
  split
  · rw [offer_optEnd]; exact extend_optEnd_ge _ _ _
  · exact Nat.le_refl _

/-! ### the match loop of `calc_normal_match_prices` -/

theorem normalMatchLoop_thr {P : NormalParams} {d : Array UInt8} {dict p : Nat} {c0 : Coder} {avail0 cur b : Nat}
    {cc : Coder} {lo : Nat}
    (E : Env) (hEP : E.P = P) (hEd : E.d = d) (hpos : PosOk P d p avail0 cur E.nice) (posState nmp : Nat) :
    ∀ (fuel len : Nat) (ms : List Match) (a : OA), Thr P d dict p c0 avail0 cur b cc lo a →
      AllValid d dict (p + cur) ms → lensIncreasing ms = true → (∀ m ∈ ms, cur + m.1 ≤ a.optEnd) →
      (∀ m ∈ ms, m.1 ≤ avail0 - cur) → 2 ≤ len →
      (∀ m rest, ms = m :: rest → len ≤ m.1) →
      Thr P d dict p c0 avail0 cur b cc lo (normalMatchLoop E cur (p + cur) (avail0 - cur) posState nmp fuel len ms a)
  | 0, len, ms, a, h, _, _, _, _, _, _ => by rw [normalMatchLoop]; exact h
  | fuel + 1, len, [], a, h, _, _, _, _, _, _ => by
    rw [normalMatchLoop]
    · exact h
    · omega
  | fuel + 1, len, m :: rest, a, h, hv, hinc, hend, hav, h2, hle => by
    have hreps : E.P.reps = 4 := by rw [hEP]; exact hpos.pok.2.2.1
    have hav1 : avail0 < P.opts := hpos.av1
    have hlen := hle m rest rfl
    have hvm := hv m (List.mem_cons_self ..)
    have hendm := hend m (List.mem_cons_self ..)
    rw [normalMatchLoop]
    simp only
    generalize matchAndLenPrice E.pt nmp m.2 len posState = malp
    -- the plain match of length `len`
    have hsym : ∀ l, symOf P d (p + cur) ((m.2 : Int) + (E.P.reps : Int)) l = .mtch m.2 l := by
      intro l; rw [hEP]; exact symOf_mtch P (by rw [← hEP]; exact hreps) d _ _ _
    have h1 := h.offer hav1 (cur + len) malp (fun o => o.set1 malp cur ((m.2 : Int) + (E.P.reps : Int))) (by omega)
      (by omega) (fun o => rfl) (by
        intro o hoc ho
        refine candOk_set1 o (cur + len) malp _ _ ho (by omega) (Or.inr ⟨by omega, by omega⟩) ?_
        have e1 : cur + len - cur = len := by omega
        rw [e1, hsym, hoc]
        exact cand_mtch d dict (p + cur) cc m.2 len m.1 hvm h2 hlen)
    have hoe : (a.offer (cur + len) malp fun o => o.set1 malp cur ((m.2 : Int) + (E.P.reps : Int))).optEnd = a.optEnd :=
      offer_optEnd _ _ _ _
    generalize (a.offer (cur + len) malp fun o => o.set1 malp cur ((m.2 : Int) + (E.P.reps : Int))) = a1 at h1 hoe ⊢
    split
    · next hne =>
      exact normalMatchLoop_thr E hEP hEd hpos posState nmp fuel (len + 1) (m :: rest) a1 h1 hv hinc
        (fun x hx => by rw [hoe]; exact hend x hx) hav (by omega)
        (fun m' r' he => by injection he with e1 e2; subst e1; omega)
    · next heq =>
      have heq' : len = m.1 := by omega
      have h2' := offerComposite_thr E hEP hEd hpos h1 len m.2 malp (stMatch (oat a1.opts cur).c.state)
        ((m.2 : Int) + (E.P.reps : Int)) (by omega) h2 (by rw [heq']; exact hav m (List.mem_cons_self ..))
        (by rw [hsym]; exact cand_mtch d dict (p + cur) cc m.2 len m.1 hvm h2 hlen)
        (by rw [hsym]; rfl)
      split
      · exact h2'
      · next hrest =>
        have hoe2 := offerComposite_optEnd_ge E a1 cur (p + cur) (avail0 - cur) len m.2 malp
          (stMatch (oat a1.opts cur).c.state) ((m.2 : Int) + (E.P.reps : Int))
        refine normalMatchLoop_thr E hEP hEd hpos posState nmp fuel (len + 1) rest _ h2'
          (fun x hx => hv x (List.mem_cons_of_mem _ hx)) (lensIncreasing_tail m rest hinc)
          (fun x hx => by have := hend x (List.mem_cons_of_mem _ hx); omega)
          (fun x hx => hav x (List.mem_cons_of_mem _ hx)) (by omega) ?_
        intro m' r' he
        subst he
        have := lensIncreasing_head m m' r' hinc
        omega

theorem le_last : ∀ ms : List Match, lensIncreasing ms = true → ∀ m ∈ ms, m.1 ≤ (ms.getLast?.getD (0, 0)).1
  | [], _, m, hm => absurd hm (List.not_mem_nil)
  | [x], _, m, hm => by
    have : m = x := by simpa using hm
    subst this
    simp only [List.getLast?_singleton, Option.getD_some, Nat.le_refl]
  | x :: y :: rest, h, m, hm => by
    have ih := le_last (y :: rest) (lensIncreasing_tail x _ h)
    have hxy := lensIncreasing_head x y rest h
    have hl : (x :: y :: rest).getLast? = (y :: rest).getLast? := by
      simp only [List.getLast?_cons_cons]
    rw [hl]
    rcases List.mem_cons.mp hm with rfl | hm
    · have := ih y (List.mem_cons_self ..)
      omega
    · exact ih m hm

theorem shortenMatches_ok (d : Array UInt8) (dict q avail : Nat) (h2 : 2 ≤ avail) (ms : List Match)
    (hv : AllValid d dict q ms) (hinc : lensIncreasing ms = true) :
    AllValid d dict q (shortenMatches ms avail) ∧ lensIncreasing (shortenMatches ms avail) = true ∧
      ∀ m ∈ shortenMatches ms avail, m.1 ≤ avail := by
  unfold shortenMatches
  split
  · exact ⟨shortenList_valid d dict q avail h2 ms hv, shortenList_inc avail ms hinc, shortenList_head_le avail ms⟩
  · next hn =>
    refine ⟨hv, hinc, fun m hm => ?_⟩
    have := le_last ms hinc m hm
    omega

theorem calcNormalMatchPrices_thr {P : NormalParams} {d : Array UInt8} {dict p : Nat} {c0 : Coder} {avail0 cur b : Nat}
    {cc : Coder} {lo : Nat} {a : OA}
    (E : Env) (hEP : E.P = P) (hEd : E.d = d) (hpos : PosOk P d p avail0 cur E.nice) (hav2 : 2 ≤ avail0 - cur)
    (h : Thr P d dict p c0 avail0 cur b cc lo a) (ms0 : List Match) (hv : AllValid d dict (p + cur) ms0)
    (hinc : lensIncreasing ms0 = true) (anyMatch startLen : Nat) (hs2 : 2 ≤ startLen) :
    Thr P d dict p c0 avail0 cur b cc lo (calcNormalMatchPrices E a ms0 cur (p + cur) (avail0 - cur) anyMatch startLen) := by
  have hav1 : avail0 < P.opts := hpos.av1
  obtain ⟨hv', hinc', hle'⟩ := shortenMatches_ok d dict (p + cur) (avail0 - cur) hav2 ms0 hv hinc
  unfold calcNormalMatchPrices
  simp only
  generalize shortenMatches ms0 (avail0 - cur) = ms at hv' hinc' hle' ⊢
  split
  · exact h
  · next hge =>
    have hlast : (ms.getLast?.getD (0, 0)).1 ≤ avail0 - cur := by
      cases hl : ms.getLast? with
      | none => simp only [Option.getD_none]; omega
      | some x => simp only [Option.getD_some]; exact hle' x (List.mem_of_getLast? hl)
    have h1 := h.extend hav1 (cur + (ms.getLast?.getD (0, 0)).1) (by rw [← hEP] at hav1; have := hpos.curLt; omega)
    rw [hEP]
    refine (normalMatchLoop_thr E hEP hEd hpos _ _ _ startLen (dropShort startLen ms) _ h1
      (fun m hm => hv' m (dropShort_sub _ _ _ hm)) (dropShort_inc _ _ hinc') ?_
      (fun m hm => hle' m (dropShort_sub _ _ _ hm)) hs2 (fun m rest he => dropShort_head _ _ _ _ he)).mono_lo (by omega)
    intro m hm
    have := le_last ms hinc' m (dropShort_sub _ _ _ hm)
    have := h1.2.2.1
    omega

/-! ### the first part of `get_next_symbol` (position 0) -/

theorem firstMatchLoop_thr {P : NormalParams} {d : Array UInt8} {dict p : Nat} {c0 : Coder} {avail0 b : Nat}
    {cc : Coder} {lo : Nat}
    (E : Env) (hEP : E.P = P) (hav1 : avail0 < P.opts) (hreps : P.reps = 4) (posState nmp : Nat) :
    ∀ (fuel len : Nat) (ms : List Match) (a : OA), Thr P d dict p c0 avail0 0 b cc lo a →
      AllValid d dict p ms → lensIncreasing ms = true → (∀ m ∈ ms, m.1 ≤ a.optEnd) → 2 ≤ len →
      (∀ m rest, ms = m :: rest → len ≤ m.1) →
      Thr P d dict p c0 avail0 0 b cc lo (firstMatchLoop E posState nmp fuel len ms a)
  | 0, len, ms, a, h, _, _, _, _, _ => by rw [firstMatchLoop]; exact h
  | fuel + 1, len, [], a, h, _, _, _, _, _ => by
    rw [firstMatchLoop]
    · exact h
    · omega
  | fuel + 1, len, m :: rest, a, h, hv, hinc, hend, h2, hle => by
    have hlen := hle m rest rfl
    have hvm := hv m (List.mem_cons_self ..)
    have hendm := hend m (List.mem_cons_self ..)
    rw [firstMatchLoop]
    generalize matchAndLenPrice E.pt nmp m.2 len posState = price
    have h1 := h.offer hav1 len price (fun o => o.set1 price 0 ((m.2 : Int) + (E.P.reps : Int))) (by omega)
      (by omega) (fun o => rfl) (by
        intro o hoc ho
        refine candOk_set1 (cur := 0) o len price _ _ ho (by omega) (Or.inr ⟨by omega, by omega⟩) ?_
        rw [hEP, symOf_mtch P hreps, hoc]
        simp only [Nat.sub_zero, Nat.add_zero]
        exact cand_mtch d dict p cc m.2 len m.1 hvm h2 hlen)
    have hoe := offer_optEnd a len price (fun o => o.set1 price 0 ((m.2 : Int) + (E.P.reps : Int)))
    generalize (a.offer len price fun o => o.set1 price 0 ((m.2 : Int) + (E.P.reps : Int))) = a1 at h1 hoe ⊢
    split
    · next heq =>
      split
      · exact h1
      · next hrest =>
        refine firstMatchLoop_thr E hEP hav1 hreps posState nmp fuel (len + 1) rest a1 h1
          (fun x hx => hv x (List.mem_cons_of_mem _ hx)) (lensIncreasing_tail m rest hinc)
          (fun x hx => by rw [hoe]; exact hend x (List.mem_cons_of_mem _ hx)) (by omega) ?_
        intro m' r' he
        subst he
        have := lensIncreasing_head m m' r' hinc
        omega
    · next hne =>
      exact firstMatchLoop_thr E hEP hav1 hreps posState nmp fuel (len + 1) (m :: rest) a1 h1 hv hinc
        (fun x hx => by rw [hoe]; exact hend x hx) (by omega)
        (fun m' r' he => by injection he with e1 e2; subst e1; omega)

end LzmaVerif.EncNormal
