/-
  (H2) the invariant of reachable HC4 states and its preservation by `find` / `skip`.
-/
import LzmaVerif.Model.Hc4

namespace LzmaVerif.Mf.Hc4

/-! ### arrays -/

theorem getD_setIfInBounds (t : Array Nat) (j i v : Nat) :
    (t.setIfInBounds j v).getD i 0 = if j = i ∧ j < t.size then v else t.getD i 0 := by
  rw [Array.getD_eq_getD_getElem?, Array.getD_eq_getD_getElem?, Array.getElem?_setIfInBounds]
  by_cases h1 : j = i
  · by_cases h2 : j < t.size
    · rw [if_pos h1, if_pos h2, if_pos ⟨h1, h2⟩]; rfl
    · rw [if_pos h1, if_neg h2, if_neg (fun h => h2 h.2)]
      have : t[i]? = none := by
        apply Array.getElem?_eq_none; omega
      rw [this]
  · rw [if_neg h1, if_neg (fun h => h1 h.1)]

theorem getD_replicate_zero (n i : Nat) : (Array.replicate n 0).getD i 0 = 0 := by
  rw [Array.getD_eq_getD_getElem?, Array.getElem?_replicate]
  split <;> rfl

/-! ### table entries -/

/-- every entry of `t` is 0 ("nothing") or the `lz_pos` value `cs + 1 + q` of an inserted position `q`
    (`q < lz - cs`), and `R q slot` holds for the slot it is stored in -/
def TblOk (cs lz : Nat) (R : Nat → Nat → Prop) (t : Array Nat) : Prop :=
  ∀ i, t.getD i 0 = 0 ∨ (cs + 1 ≤ t.getD i 0 ∧ t.getD i 0 ≤ lz ∧ R (t.getD i 0 - cs - 1) i)

theorem TblOk.mono {cs lz lz' : Nat} {R : Nat → Nat → Prop} {t : Array Nat}
    (h : TblOk cs lz R t) (hle : lz ≤ lz') : TblOk cs lz' R t := by
  intro i
  rcases h i with h0 | ⟨h1, h2, h3⟩
  · exact Or.inl h0
  · exact Or.inr ⟨h1, by omega, h3⟩

theorem TblOk.set {cs lz : Nat} {R : Nat → Nat → Prop} {t : Array Nat} (h : TblOk cs lz R t)
    (j v : Nat) (hv : v = 0 ∨ (cs + 1 ≤ v ∧ v ≤ lz ∧ R (v - cs - 1) j)) :
    TblOk cs lz R (t.setIfInBounds j v) := by
  intro i
  rw [getD_setIfInBounds]
  by_cases hc : j = i ∧ j < t.size
  · rw [if_pos hc]
    obtain ⟨hji, _⟩ := hc
    subst hji
    exact hv
  · rw [if_neg hc]; exact h i

theorem TblOk.replicate (cs lz n : Nat) (R : Nat → Nat → Prop) :
    TblOk cs lz R (Array.replicate n 0) := by
  intro i; left; exact getD_replicate_zero n i

/-! ### the invariant -/

/-- number of positions inserted into the tables after `n` calls of `move_pos`: the positions with at
    least `minAvail` bytes left -/
def insCount (P : Hc4Params) (d : Array UInt8) (n : Nat) : Nat := min n (d.size + 1 - P.minAvail)

/-- invariant of reachable states (`s.pos` calls of `move_pos` so far) -/
structure Inv (P : Hc4Params) (c : Cfg) (d : Array UInt8) (s : State) : Prop where
  sz2 : s.h2.size = P.hash.hash2Size
  sz3 : s.h3.size = P.hash.hash3Size
  sz4 : s.h4.size = hash4Size P.hash c.dict
  szc : s.chain.size = c.dict + P.chainExtra
  cpLo : -1 ≤ s.cyclicPos
  cpHi : s.cyclicPos < (cyclicSize P c : Int)
  /-- once a position has been inserted `cyclic_pos` is a valid index -/
  cpIns : cyclicSize P c < s.lzPos → 0 ≤ s.cyclicPos
  /-- `lz_pos = cyclic_size + number of inserted positions` (so `lz_pos = p + cyclic_size + 1` while
      position `p` is being searched) -/
  lz : s.lzPos = cyclicSize P c + insCount P d s.pos
  t2 : TblOk (cyclicSize P c) s.lzPos (fun q i => (hashesAt P c d q).h2 = i) s.h2
  t3 : TblOk (cyclicSize P c) s.lzPos (fun q i => (hashesAt P c d q).h3 = i) s.h3
  t4 : TblOk (cyclicSize P c) s.lzPos (fun q i => (hashesAt P c d q).h4 = i) s.h4
  ch : TblOk (cyclicSize P c) s.lzPos (fun _ _ => True) s.chain

theorem init_inv (P : Hc4Params) (hP : P.ok) (c : Cfg) (d : Array UInt8) : Inv P c d (init P c) := by
  obtain ⟨_, _, _, hce, hle, _, _, _, _, _, _⟩ := hP
  constructor
  · exact Array.size_replicate
  · exact Array.size_replicate
  · exact Array.size_replicate
  · exact Array.size_replicate
  · show (-1 : Int) ≤ -1; omega
  · show (-1 : Int) < _; omega
  · intro h; simp only [init, cyclicSize] at h; omega
  · simp only [init, cyclicSize, insCount]; omega
  · exact TblOk.replicate _ _ _ _
  · exact TblOk.replicate _ _ _ _
  · exact TblOk.replicate _ _ _ _
  · exact TblOk.replicate _ _ _ _

/-! ### one step -/

theorem encMovePos_cases (P : Hc4Params) (d : Array UInt8) (p : Nat) (h4 : 4 ≤ P.minAvail) :
    (encMovePos P d p = 0 ∧ d.size - p < P.minAvail) ∨
    (encMovePos P d p = d.size - p ∧ P.minAvail ≤ d.size - p ∧ encMovePos P d p ≠ 0) := by
  by_cases h : d.size - p < P.minAvail
  · left; exact ⟨if_pos h, h⟩
  · right
    have e : encMovePos P d p = d.size - p := if_neg h
    rw [e]; omega

/-- the state after a step that inserts position `s.pos` -/
def insertStep (P : Hc4Params) (c : Cfg) (d : Array UInt8) (s : State) : State :=
  let s1 := movePos P c s (d.size - s.pos)
  let hs := hashesAt P c d s.pos
  setChain (updateTables s1 hs) (s1.h4.getD hs.h4 0)

/-- the state after a step on a pending position -/
def pendingStep (s : State) : State := { s with pos := s.pos + 1 }

theorem updateTables_setChain (s : State) (hs : Hashes) (v : Nat) :
    updateTables (setChain s v) hs = setChain (updateTables s hs) v := by
  cases s; rfl

theorem movePos_zero (P : Hc4Params) (c : Cfg) (s : State) : movePos P c s 0 = pendingStep s := by
  unfold movePos pendingStep
  rw [if_neg (by simp)]

theorem skip1_cases (P : Hc4Params) (c : Cfg) (d : Array UInt8) (s : State) (h4 : 4 ≤ P.minAvail) :
    (d.size - s.pos < P.minAvail ∧ skip1 P c d s = pendingStep s) ∨
    (P.minAvail ≤ d.size - s.pos ∧ skip1 P c d s = insertStep P c d s) := by
  rcases encMovePos_cases P d s.pos h4 with ⟨h0, hlt⟩ | ⟨he, hge, hne⟩
  · left
    refine ⟨hlt, ?_⟩
    unfold skip1
    simp only [h0, ne_eq, not_true_eq_false, if_false]
    exact movePos_zero P c s
  · right
    refine ⟨hge, ?_⟩
    unfold skip1 insertStep
    simp only [if_pos hne]
    rw [updateTables_setChain, he]

theorem find_snd (P : Hc4Params) (c : Cfg) (d : Array UInt8) (s : State) (hm : 1 ≤ c.mlmax) :
    (find P c d s).2 = skip1 P c d s := by
  unfold find skip1
  by_cases h0 : encMovePos P d s.pos = 0
  · have : encMovePos P d s.pos < c.mlmax ∧ encMovePos P d s.pos = 0 := ⟨by omega, h0⟩
    simp only [if_pos this]
    have h2 : ¬ (encMovePos P d s.pos ≠ 0) := fun h => h h0
    simp only [if_neg h2]
  · have : ¬ (encMovePos P d s.pos < c.mlmax ∧ encMovePos P d s.pos = 0) := fun h => h0 h.2
    simp only [if_neg this, if_pos h0]
    rw [updateTables_setChain]

theorem pendingStep_inv (P : Hc4Params) (c : Cfg) (d : Array UInt8) (s : State) (h : Inv P c d s)
    (hlt : d.size - s.pos < P.minAvail) : Inv P c d (pendingStep s) := by
  obtain ⟨a1, a2, a3, a4, a5, a6, a7, a8, a9, a10, a11, a12⟩ := h
  refine ⟨a1, a2, a3, a4, a5, a6, a7, ?_, a9, a10, a11, a12⟩
  show s.lzPos = _
  rw [a8]
  simp only [pendingStep, insCount]
  omega

/-- the fields of `insertStep`, spelled out -/
theorem insertStep_fields (P : Hc4Params) (c : Cfg) (d : Array UInt8) (s : State)
    (hne : d.size - s.pos ≠ 0) :
    let hs := hashesAt P c d s.pos
    let cp' : Int := if s.cyclicPos + 1 = (cyclicSize P c : Int) then 0 else s.cyclicPos + 1
    insertStep P c d s =
      ⟨s.h2.setIfInBounds hs.h2 (s.lzPos + 1), s.h3.setIfInBounds hs.h3 (s.lzPos + 1),
       s.h4.setIfInBounds hs.h4 (s.lzPos + 1), s.chain.setIfInBounds cp'.toNat (s.h4.getD hs.h4 0),
       cp', s.lzPos + 1, s.pos + 1⟩ := by
  intro hs cp'
  unfold insertStep movePos
  simp only [if_pos hne]
  cases s
  rfl

theorem cp_next (cp : Int) (cs : Nat) (h1 : -1 ≤ cp) (h2 : cp < (cs : Int)) (h3 : 1 ≤ cs) :
    0 ≤ (if cp + 1 = (cs : Int) then 0 else cp + 1) ∧
    (if cp + 1 = (cs : Int) then 0 else cp + 1) < (cs : Int) := by
  split <;> omega

theorem insertStep_inv (P : Hc4Params) (hP : P.ok) (c : Cfg) (d : Array UInt8) (s : State)
    (h : Inv P c d s) (hd : 1 ≤ c.dict) (hge : P.minAvail ≤ d.size - s.pos) :
    Inv P c d (insertStep P c d s) := by
  obtain ⟨_, _, _, hce, hle, _, _, _, _, hm4, _⟩ := hP
  obtain ⟨a1, a2, a3, a4, a5, a6, a7, a8, a9, a10, a11, a12⟩ := h
  have hcs : cyclicSize P c = c.dict + 1 := by unfold cyclicSize; rw [hce]
  have hins : insCount P d s.pos = s.pos := by unfold insCount; omega
  have hins' : insCount P d (s.pos + 1) = s.pos + 1 := by unfold insCount; omega
  have hlz : s.lzPos = cyclicSize P c + s.pos := by rw [a8, hins]
  have hF := insertStep_fields P c d s (by omega)
  simp only at hF
  rw [hF]
  have hq : s.lzPos + 1 - cyclicSize P c - 1 = s.pos := by omega
  have hnew : ∀ (R : Nat → Nat → Prop) (j : Nat), R s.pos j →
      (s.lzPos + 1 = 0 ∨ (cyclicSize P c + 1 ≤ s.lzPos + 1 ∧ s.lzPos + 1 ≤ s.lzPos + 1 ∧
        R (s.lzPos + 1 - cyclicSize P c - 1) j)) := by
    intro R j hR
    right
    rw [hq]
    exact ⟨by omega, Nat.le_refl _, hR⟩
  constructor
  · show (s.h2.setIfInBounds _ _).size = _; rw [Array.size_setIfInBounds]; exact a1
  · show (s.h3.setIfInBounds _ _).size = _; rw [Array.size_setIfInBounds]; exact a2
  · show (s.h4.setIfInBounds _ _).size = _; rw [Array.size_setIfInBounds]; exact a3
  · show (s.chain.setIfInBounds _ _).size = _; rw [Array.size_setIfInBounds]; exact a4
  · have := (cp_next s.cyclicPos (cyclicSize P c) a5 a6 (by omega)).1
    exact Int.le_trans (by decide) this
  · exact (cp_next s.cyclicPos (cyclicSize P c) a5 a6 (by omega)).2
  · intro _; exact (cp_next s.cyclicPos (cyclicSize P c) a5 a6 (by omega)).1
  · show s.lzPos + 1 = cyclicSize P c + insCount P d (s.pos + 1); rw [hins']; omega
  · exact (a9.mono (Nat.le_add_right _ 1)).set _ _ (hnew (fun q i => (hashesAt P c d q).h2 = i) _ rfl)
  · exact (a10.mono (Nat.le_add_right _ 1)).set _ _ (hnew (fun q i => (hashesAt P c d q).h3 = i) _ rfl)
  · exact (a11.mono (Nat.le_add_right _ 1)).set _ _ (hnew (fun q i => (hashesAt P c d q).h4 = i) _ rfl)
  · refine (a12.mono (Nat.le_add_right _ 1)).set _ _ ?_
    rcases a11 (hashesAt P c d s.pos).h4 with h0 | ⟨h1, h2, _⟩
    · exact Or.inl h0
    · exact Or.inr ⟨h1, by omega, trivial⟩

theorem skip1_inv (P : Hc4Params) (hP : P.ok) (c : Cfg) (d : Array UInt8) (s : State)
    (h : Inv P c d s) (hd : 1 ≤ c.dict) : Inv P c d (skip1 P c d s) := by
  have hm4 : 4 ≤ P.minAvail := hP.2.2.2.2.2.2.2.2.2.1
  rcases skip1_cases P c d s hm4 with ⟨hlt, he⟩ | ⟨hge, he⟩
  · rw [he]; exact pendingStep_inv P c d s h hlt
  · rw [he]; exact insertStep_inv P hP c d s h hd hge

theorem skip_inv (P : Hc4Params) (hP : P.ok) (c : Cfg) (d : Array UInt8) (hd : 1 ≤ c.dict) (n : Nat) :
    ∀ s, Inv P c d s → Inv P c d (skip P c d n s) := by
  induction n with
  | zero => intro s h; exact h
  | succ n ih => intro s h; exact ih _ (skip1_inv P hP c d s h hd)

theorem find_inv (P : Hc4Params) (hP : P.ok) (c : Cfg) (d : Array UInt8) (s : State)
    (h : Inv P c d s) (hd : 1 ≤ c.dict) (hm : 1 ≤ c.mlmax) : Inv P c d (find P c d s).2 := by
  rw [find_snd P c d s hm]; exact skip1_inv P hP c d s h hd

/-- `lz_pos` stays below the normalisation threshold `0x7FFFFFFF` -/
theorem Inv.lzPos_lt (P : Hc4Params) (hP : P.ok) (c : Cfg) (d : Array UInt8) (s : State)
    (h : Inv P c d s) (hsz : d.size + c.dict + 2 < 2 ^ 31) : s.lzPos < 0x7FFFFFFF := by
  obtain ⟨_, _, _, hce, _, _, _, _, _, hm4, _⟩ := hP
  have := h.lz
  unfold cyclicSize insCount at this
  omega

end LzmaVerif.Mf.Hc4
