import LzmaVerif.Model.MT
/-
Definitions and list lemmas for the proofs about the multi-threaded reader protocol model
(`Model/MT.lean`): the inductive invariant `Inv`, the per-unit occupancy count `cnt`, and helper
lemmas about `List.set`, `wakeOne`, `wakeAll`.
-/
namespace LzmaVerif.MT

/-! ## weights summed over the worker list -/

def sumW (f : WPc → Nat) : List WPc → Nat
  | [] => 0
  | w :: r => f w + sumW f r

theorem sumW_append (f : WPc → Nat) (a b : List WPc) : sumW f (a ++ b) = sumW f a + sumW f b := by
  induction a with
  | nil => simp [sumW]
  | cons x r ih => simp only [List.cons_append, sumW, ih]; omega

theorem sumW_set (f : WPc → Nat) (ws : List WPc) (i : Nat) (old new : WPc) (h : ws[i]? = some old) :
    sumW f (ws.set i new) + f old = sumW f ws + f new := by
  induction ws generalizing i with
  | nil => simp at h
  | cons a r ih =>
    cases i with
    | zero => simp at h; subst h; simp [sumW]; omega
    | succ j =>
      simp at h
      have := ih j h
      simp [sumW]; omega

theorem sumW_replicate (f : WPc → Nat) (n : Nat) (w : WPc) : sumW f (List.replicate n w) = n * f w := by
  induction n with
  | zero => simp [sumW]
  | succ m ih => simp only [List.replicate_succ, sumW, ih, Nat.succ_mul]; omega

theorem sumW_wakeOne_eq (f : WPc → Nat) (hf : f .waiting = f .steal) (ws : List WPc) :
    sumW f (wakeOne ws) = sumW f ws := by
  induction ws with
  | nil => rfl
  | cons a r ih => cases a <;> simp only [wakeOne, sumW, ih, hf]

theorem sumW_wakeAll_eq (f : WPc → Nat) (hf : f .waiting = f .steal) (ws : List WPc) :
    sumW f (wakeAll ws) = sumW f ws := by
  induction ws with
  | nil => rfl
  | cons a r ih =>
    have : wakeAll (a :: r) = (if a = .waiting then .steal else a) :: wakeAll r := rfl
    rw [this]
    cases a <;> simp [sumW, ih, hf]

theorem sumW_le_of_mem (f : WPc → Nat) (ws : List WPc) (w : WPc) (h : w ∈ ws) : f w ≤ sumW f ws := by
  induction ws with
  | nil => cases h
  | cons a r ih =>
    rcases List.mem_cons.mp h with h | h
    · subst h; simp [sumW]
    · have := ih h; simp only [sumW]; omega

theorem sumW_pos (f : WPc → Nat) (ws : List WPc) (h : 0 < sumW f ws) : ∃ w ∈ ws, 0 < f w := by
  induction ws with
  | nil => simp [sumW] at h
  | cons a r ih =>
    simp only [sumW] at h
    by_cases ha : 0 < f a
    · exact ⟨a, List.mem_cons_self, ha⟩
    · obtain ⟨w, hw, hp⟩ := ih (by omega)
      exact ⟨w, List.mem_cons_of_mem _ hw, hp⟩

/-! ## `List.set`, `wakeOne`, `wakeAll` -/

theorem mem_set (ws : List WPc) (i : Nat) (v w : WPc) (h : w ∈ ws.set i v) : w = v ∨ w ∈ ws := by
  rcases List.mem_or_eq_of_mem_set h with h | h
  · right; exact h
  · left; exact h

theorem mem_set_self (ws : List WPc) (i : Nat) (old v : WPc) (h : ws[i]? = some old) : v ∈ ws.set i v := by
  have hil := (List.getElem?_eq_some_iff.mp h).1
  exact List.mem_iff_getElem?.mpr ⟨i, by simp [hil]⟩

theorem mem_set_of_ne (ws : List WPc) (i : Nat) (old v w : WPc) (h : ws[i]? = some old)
    (hw : w ∈ ws) (hne : w ≠ old) : w ∈ ws.set i v := by
  obtain ⟨j, hj⟩ := List.getElem?_of_mem hw
  have hij : i ≠ j := by
    intro hc; subst hc; rw [h] at hj; cases hj; exact hne rfl
  exact List.mem_iff_getElem?.mpr ⟨j, by rw [List.getElem?_set_ne hij]; exact hj⟩

theorem set_ne_nil (ws : List WPc) (i : Nat) (old v : WPc) (h : ws[i]? = some old) : ws.set i v ≠ [] := by
  intro hc
  have := mem_set_self ws i old v h
  rw [hc] at this; cases this

theorem wakeOne_length (ws : List WPc) : (wakeOne ws).length = ws.length := by
  induction ws with
  | nil => rfl
  | cons a r ih => cases a <;> simp [wakeOne, ih]

theorem wakeAll_length (ws : List WPc) : (wakeAll ws).length = ws.length := by
  simp [wakeAll]

theorem mem_wakeOne (ws : List WPc) (w : WPc) (h : w ∈ wakeOne ws) : w ∈ ws ∨ w = .steal := by
  induction ws with
  | nil => simp [wakeOne] at h
  | cons a r ih =>
    cases a <;> simp only [wakeOne, List.mem_cons] at h ⊢ <;> grind

theorem mem_wakeAll (ws : List WPc) (w : WPc) (h : w ∈ wakeAll ws) : w ∈ ws ∨ w = .steal := by
  simp only [wakeAll, List.mem_map] at h
  obtain ⟨a, ha, rfl⟩ := h
  split
  · right; rfl
  · left; exact ha

/-- a worker that is not waiting is untouched by a wake-up -/
theorem mem_wakeOne_of_mem (ws : List WPc) (w : WPc) (h : w ∈ ws) (hw : w ≠ .waiting) : w ∈ wakeOne ws := by
  induction ws with
  | nil => cases h
  | cons a r ih =>
    rcases List.mem_cons.mp h with h1 | h1
    · subst h1
      cases w <;> simp [wakeOne] at hw ⊢
    · have := ih h1
      clear h
      cases a <;> simp only [wakeOne, List.mem_cons] <;> first | exact Or.inr this | exact Or.inr h1

theorem mem_wakeAll_of_mem (ws : List WPc) (w : WPc) (h : w ∈ ws) (hw : w ≠ .waiting) : w ∈ wakeAll ws := by
  simp only [wakeAll, List.mem_map]
  exact ⟨w, h, by simp [hw]⟩

theorem wakeAll_noWait (ws : List WPc) : ∀ w ∈ wakeAll ws, w ≠ .waiting := by
  intro w hw
  simp only [wakeAll, List.mem_map] at hw
  obtain ⟨a, _, rfl⟩ := hw
  split <;> simp_all

/-- after `notify_one` on a non-empty worker list somebody is not waiting -/
theorem wakeOne_alive (ws : List WPc) (h : ws ≠ []) : ∃ w ∈ wakeOne ws, w ≠ .waiting := by
  induction ws with
  | nil => exact absurd rfl h
  | cons a r ih =>
    by_cases ha : a = .waiting
    · subst ha; exact ⟨.steal, by simp [wakeOne], by simp⟩
    · refine ⟨a, ?_, ha⟩
      cases a <;> simp [wakeOne] at ha ⊢

theorem wakeOne_eq_nil (ws : List WPc) : wakeOne ws = [] ↔ ws = [] := by
  constructor
  · intro h
    have := wakeOne_length ws
    rw [h] at this
    exact List.length_eq_zero_iff.mp this.symm
  · intro h; subst h; rfl

/-! ## vocabulary of the invariant -/

/-- worker `w` has unit `q` in its hands: weight 1, else 0 -/
def hv (q : Nat) : WPc → Nat
  | .got x => if x = q then 1 else 0
  | .work x => if x = q then 1 else 0
  | .send x => if x = q then 1 else 0
  | _ => 0

/-- the worker has a failed unit behind it and has not yet published the error -/
def midFail : WPc → Bool
  | .failDecr | .failSet | .panicked => true
  | _ => false

/-- number of places (queue, worker hands, channel, reorder buffer) that hold unit `q` -/
def cntOf (queue : List Nat) (ws : List WPc) (chan : List Msg) (ooo : List Nat) (q : Nat) : Nat :=
  queue.count q + sumW (hv q) ws + chan.count (.result q) + ooo.count q

def cnt (s : Sys) (q : Nat) : Nat := cntOf s.queue s.ws s.chan s.ooo q

/-- sequence numbers below `disp s` have been pushed (the increment of `nextDispatch` trails the
    push by one coordinator step) -/
def dispOf (pc : CPc) (nd : Nat) : Nat := if pc = .spawnChk then nd + 1 else nd

def disp (s : Sys) : Nat := dispOf s.pc s.nextDispatch

/-- an error is on its way to the caller, or has been delivered, or the reader was dropped -/
def FailingOf (ws : List WPc) (errStored : Bool) (pc : CPc) : Prop :=
  (∃ w ∈ ws, midFail w = true) ∨ errStored = true ∨ pc = .idle (some .err) ∨ pc = .dropped

def Failing (s : Sys) : Prop := FailingOf s.ws s.errStored s.pc

/-- coordinator is between the reorder-buffer lookup and the next return / loop restart -/
def pastTop : CPc → Bool
  | .idle _ | .top | .dropped => false
  | _ => true

/-- coordinator will look at the error store before it can block -/
def errSeen : CPc → Bool
  | .idle _ | .top | .chkErr | .dropped => true
  | _ => false

/-- program counters that are only reached in state `Reading` -/
def readPc : CPc → Bool
  | .tryRecv | .chkQueue | .source | .push _ | .spawnChk | .recvReading => true
  | _ => false

structure Inv (s : Sys) : Prop where
  maxPos : 1 ≤ s.cfg.maxWorkers
  order : s.delivered = List.range s.nextReturn
  wsBound : s.ws.length ≤ max s.cfg.initialWorkers s.cfg.maxWorkers
  dispLe : disp s ≤ s.cfg.units.length
  pushSeq : ∀ q, s.pc = .push q → q = s.nextDispatch ∧ s.nextDispatch < s.cfg.units.length
  retLe : s.nextReturn ≤ disp s
  /-- no duplicates: a unit is in at most one place -/
  cntLe : ∀ q, cnt s q ≤ 1
  /-- only dispatched, not yet returned units are anywhere -/
  cntRange : ∀ q, 0 < cnt s q → s.nextReturn ≤ q ∧ q < disp s
  /-- conservation: a dispatched, not yet returned unit is in exactly one place, unless it is a
      failing unit and the failure is being / has been reported -/
  cons : ∀ q, s.nextReturn ≤ q → q < disp s →
    cnt s q = 1 ∨ (s.cfg.units.getD q .ok ≠ .ok ∧ Failing s)
  okDelivered : ∀ q, q < s.nextReturn → s.cfg.units.getD q .ok = .ok
  okSent : ∀ q, (.send q ∈ s.ws ∨ .result q ∈ s.chan ∨ q ∈ s.ooo) → s.cfg.units.getD q .ok = .ok
  drainInv : (s.st = .draining ∨ s.st = .finished) →
    s.cfg.srcOk = true ∧ s.lastSeq = some (s.nextDispatch - 1) ∧ s.cfg.units.length ≤ s.nextDispatch
  finInv : s.st = .finished → s.nextDispatch ≤ s.nextReturn
  doneSt : s.pc = .idle (some .done) → s.st = .finished
  readSt : readPc s.pc = true → s.st = .reading
  drainSt : s.pc = .recvDraining → s.st = .draining
  shutErr : s.shutdown = true → s.errStored = true ∨ s.pc = .idle (some .err) ∨ s.pc = .dropped
  errWake : s.errStored = true → errSeen s.pc = true ∨ .wake ∈ s.chan ∨ .failWake ∈ s.ws
  noExit : s.shutdown = false → ∀ w ∈ s.ws, w ≠ .exited ∧ w ≠ .failWake
  closedIff : s.closed = true ↔ s.pc = .dropped
  dropShut : s.pc = .dropped → s.shutdown = true
  closedNoWait : s.closed = true → ∀ w ∈ s.ws, w ≠ .waiting
  qAlive : s.shutdown = false → s.queue ≠ [] →
    (∃ w ∈ s.ws, w ≠ .waiting) ∨ (s.pc = .spawnChk ∧ s.ws = [])
  emptyActive : s.ws = [] → s.active = 0
  oooNext : pastTop s.pc = true → s.nextReturn ∉ s.ooo
  recvLt : (s.pc = .recvReading → s.nextReturn < s.nextDispatch) ∧
    (s.pc = .recvDraining → s.nextReturn ≤ s.nextDispatch - 1)

/-! ## facts about `cnt` -/

theorem cnt_pos_of_queue (s : Sys) (q : Nat) (h : q ∈ s.queue) : 0 < cnt s q := by
  have := List.count_pos_iff.mpr h
  simp only [cnt, cntOf]; omega

theorem cnt_pos_of_ooo (s : Sys) (q : Nat) (h : q ∈ s.ooo) : 0 < cnt s q := by
  have := List.count_pos_iff.mpr h
  simp only [cnt, cntOf]; omega

theorem cnt_pos_of_chan (s : Sys) (q : Nat) (h : .result q ∈ s.chan) : 0 < cnt s q := by
  have := List.count_pos_iff.mpr h
  simp only [cnt, cntOf]; omega

/-- a unit counted once is in the queue, in a worker's hands, in the channel or in the reorder buffer -/
theorem cnt_pos_cases (s : Sys) (q : Nat) (h : 0 < cnt s q) :
    q ∈ s.queue ∨ (∃ w ∈ s.ws, w = .got q ∨ w = .work q ∨ w = .send q) ∨ .result q ∈ s.chan ∨ q ∈ s.ooo := by
  simp only [cnt, cntOf] at h
  by_cases h1 : 0 < s.queue.count q
  · exact Or.inl (List.count_pos_iff.mp h1)
  by_cases h2 : 0 < sumW (hv q) s.ws
  · obtain ⟨w, hw, hp⟩ := sumW_pos _ _ h2
    refine Or.inr (Or.inl ⟨w, hw, ?_⟩)
    cases w <;> simp only [hv] at hp <;> (try omega) <;> (split at hp <;> simp_all)
  by_cases h3 : 0 < s.chan.count (.result q)
  · exact Or.inr (Or.inr (Or.inl (List.count_pos_iff.mp h3)))
  · exact Or.inr (Or.inr (Or.inr (List.count_pos_iff.mp (by omega))))

/-! ## how the coordinator's operations change `cntOf` -/

theorem cntOf_erase_self (queue : List Nat) (ws : List WPc) (chan : List Msg) (ooo : List Nat) (a : Nat)
    (h : a ∈ ooo) : cntOf queue ws chan (ooo.erase a) a + 1 = cntOf queue ws chan ooo a := by
  have := List.count_pos_iff.mpr h
  simp only [cntOf, List.count_erase_self]; omega

theorem cntOf_erase_ne (queue : List Nat) (ws : List WPc) (chan : List Msg) (ooo : List Nat) (a q : Nat)
    (h : q ≠ a) : cntOf queue ws chan (ooo.erase a) q = cntOf queue ws chan ooo q := by
  simp only [cntOf, List.count_erase_of_ne h]

theorem cntOf_chan_result (queue : List Nat) (ws : List WPc) (rest : List Msg) (ooo : List Nat) (a q : Nat) :
    cntOf queue ws (.result a :: rest) ooo q = cntOf queue ws rest ooo q + (if a = q then 1 else 0) := by
  simp only [cntOf, List.count_cons]
  by_cases h : a = q <;> simp [h] <;> omega

theorem cntOf_chan_wake (queue : List Nat) (ws : List WPc) (rest : List Msg) (ooo : List Nat) (q : Nat) :
    cntOf queue ws (.wake :: rest) ooo q = cntOf queue ws rest ooo q := by
  simp [cntOf]

theorem cntOf_ooo_cons (queue : List Nat) (ws : List WPc) (chan : List Msg) (ooo : List Nat) (a q : Nat) :
    cntOf queue ws chan (a :: ooo) q = cntOf queue ws chan ooo q + (if a = q then 1 else 0) := by
  simp only [cntOf, List.count_cons]
  by_cases h : a = q <;> simp [h] <;> omega

theorem cntOf_queue_snoc (queue : List Nat) (ws : List WPc) (chan : List Msg) (ooo : List Nat) (a q : Nat) :
    cntOf (queue ++ [a]) ws chan ooo q = cntOf queue ws chan ooo q + (if a = q then 1 else 0) := by
  simp only [cntOf, List.count_append, List.count_singleton]
  by_cases h : a = q <;> simp [h] <;> omega

theorem cntOf_wakeOne (queue : List Nat) (ws : List WPc) (chan : List Msg) (ooo : List Nat) (q : Nat) :
    cntOf queue (wakeOne ws) chan ooo q = cntOf queue ws chan ooo q := by
  simp only [cntOf, sumW_wakeOne_eq (hv q) rfl]

theorem cntOf_wakeAll (queue : List Nat) (ws : List WPc) (chan : List Msg) (ooo : List Nat) (q : Nat) :
    cntOf queue (wakeAll ws) chan ooo q = cntOf queue ws chan ooo q := by
  simp only [cntOf, sumW_wakeAll_eq (hv q) rfl]

theorem cntOf_spawn (queue : List Nat) (ws : List WPc) (chan : List Msg) (ooo : List Nat) (q : Nat) :
    cntOf queue (ws ++ [.chkShutdown]) chan ooo q = cntOf queue ws chan ooo q := by
  simp [cntOf, sumW_append, sumW, hv]

theorem midFail_wakeOne (ws : List WPc) :
    (∃ w ∈ wakeOne ws, midFail w = true) ↔ (∃ w ∈ ws, midFail w = true) := by
  constructor
  · rintro ⟨w, hw, hm⟩
    rcases mem_wakeOne _ _ hw with h | h
    · exact ⟨w, h, hm⟩
    · subst h; cases hm
  · rintro ⟨w, hw, hm⟩
    exact ⟨w, mem_wakeOne_of_mem _ _ hw (by intro hc; subst hc; cases hm), hm⟩

theorem midFail_wakeAll (ws : List WPc) :
    (∃ w ∈ wakeAll ws, midFail w = true) ↔ (∃ w ∈ ws, midFail w = true) := by
  constructor
  · rintro ⟨w, hw, hm⟩
    rcases mem_wakeAll _ _ hw with h | h
    · exact ⟨w, h, hm⟩
    · subst h; cases hm
  · rintro ⟨w, hw, hm⟩
    exact ⟨w, mem_wakeAll_of_mem _ _ hw (by intro hc; subst hc; cases hm), hm⟩

theorem cntOf_pos_of_queue (queue : List Nat) (ws : List WPc) (chan : List Msg) (ooo : List Nat) (q : Nat)
    (h : q ∈ queue) : 0 < cntOf queue ws chan ooo q := by
  have := List.count_pos_iff.mpr h
  simp only [cntOf]; omega

theorem cntOf_pos_of_ooo (queue : List Nat) (ws : List WPc) (chan : List Msg) (ooo : List Nat) (q : Nat)
    (h : q ∈ ooo) : 0 < cntOf queue ws chan ooo q := by
  have := List.count_pos_iff.mpr h
  simp only [cntOf]; omega

theorem cntOf_pos_of_chan (queue : List Nat) (ws : List WPc) (chan : List Msg) (ooo : List Nat) (q : Nat)
    (h : .result q ∈ chan) : 0 < cntOf queue ws chan ooo q := by
  have := List.count_pos_iff.mpr h
  simp only [cntOf]; omega

end LzmaVerif.MT
