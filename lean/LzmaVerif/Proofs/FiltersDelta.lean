import LzmaVerif.Proofs.FiltersBase
/-! Delta filter: decoding inverts encoding. Core Lean only. -/
namespace LzmaVerif.Filters

def Delta.HistOk (d : Delta) : Prop := ∀ i, d.history.getD i 0 < 256

theorem Delta.histOk_set (d : Delta) (h : d.HistOk) (j x : Nat) (hx : x < 256) :
    ∀ i, (d.history.setIfInBounds j x).getD i 0 < 256 := by
  intro i
  have := h i
  simp only [Array.getD_eq_getD_getElem?, Array.getElem?_setIfInBounds] at this ⊢
  by_cases e : j = i
  · subst e
    by_cases e2 : j < d.history.size
    · simp [e2, hx]
    · simp [e2]
  · simp [e, this]

theorem Delta.run_inv (xs : List Nat) : ∀ (d : Delta), d.HistOk → Bytes xs →
    Delta.run Delta.decode1 d (Delta.run Delta.encode1 d xs).1 = (xs, (Delta.run Delta.encode1 d xs).2) := by
  induction xs with
  | nil => intro d _ _; rfl
  | cons x xs ih =>
    intro d hd hb
    have hx : x < 256 := hb x (by simp)
    have hb' : Bytes xs := fun y hy => hb y (by simp [hy])
    have hh := hd ((d.distance + d.pos) % 256)
    have key : ((x + 256 - d.history.getD ((d.distance + d.pos) % 256) 0) % 256
        + d.history.getD ((d.distance + d.pos) % 256) 0) % 256 = x := by omega
    have hd' : Delta.HistOk { d with history := d.history.setIfInBounds (d.pos % 256) x, pos := (d.pos + 255) % 256 } :=
      Delta.histOk_set d hd _ _ hx
    have := ih _ hd' hb'
    simp only [Delta.run, Delta.encode1, Delta.decode1, key]
    rw [this]

theorem Delta.new_histOk (n : Nat) : (Delta.new n).HistOk := by
  intro i
  simp only [Delta.new, Array.getD_eq_getD_getElem?]
  by_cases h : i < 256
  · simp [h]
  · simp [h]

/-- REQUIRED 1 -/
theorem delta_inv (d : Nat) (xs : List Nat) (h : Bytes xs) : deltaDecode d (deltaEncode d xs) = xs := by
  unfold deltaDecode deltaEncode
  rw [Delta.run_inv xs _ (Delta.new_histOk d) h]

end LzmaVerif.Filters
