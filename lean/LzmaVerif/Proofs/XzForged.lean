import LzmaVerif.Proofs.Xz
import LzmaVerif.Model.XzStrict
/-!
# The reader compares the Index and the footer with the blocks it decoded (C04)

Since the fix of `XZReader` (`finish_block_record`, `parse_index_and_footer`) the reader records the sizes of every
block it decodes and requires the Index to list exactly these records and the footer's Backward Size to be the size
of the Index.  Consequences proved here, for every written stream:

* `decode_forged` – the exact outcome for a stream whose Index holds ANY record list and whose footer announces
  ANY Index length; `reader_rejects_forged_index`, `reader_rejects_wrong_backward_size`;
* `block_swap_detected` – exchanging two adjacent blocks whose sizes differ is an error;
* `block_swap_same_sizes_accepted` – the residual: two adjacent blocks of equal compressed and uncompressed size can
  be exchanged; the result is the writer's stream for the exchanged data and is accepted as such (the XZ format has
  no whole-stream check).
-/
namespace LzmaVerif.Xz
open LzmaVerif Lzma Checks

/-- a written stream whose Index holds the records `rs` (serialised by `indexBytes`, CRC recomputed) and whose
footer announces an Index of `n` bytes (CRC recomputed) -/
def forgedStream (c : Check) (fs : List Filter) (blocks : List (List Nat × List Nat)) (rs : List (Nat × Nat))
    (n : Nat) : List Nat :=
  streamHeaderBytes c ++ (blocksBytes c fs blocks ++ (indexBytes rs ++ (footerBytes c n ++ [])))

theorem forgedStream_self (c : Check) (fs : List Filter) (blocks : List (List Nat × List Nat)) :
    forgedStream c fs blocks (recsOf c fs blocks) (indexBytes (recsOf c fs blocks)).length = streamBytes c fs blocks := by
  simp [forgedStream, streamBytes_eq, streamBody]

/-- **what the reader does with a forged stream, exactly** -/
theorem decode_forged (multi : Bool) (c : Check) (fs : List Filter) (hfs : FiltersOk fs)
    (blocks : List (List Nat × List Nat))
    (hb : ∀ b ∈ blocks, PayloadOk (readerDict fs) b.1 (applyFilters fs b.2) ∧ unfilter fs (applyFilters fs b.2) = b.2)
    (rs : List (Nat × Nat)) (hn : rs.length < 2 ^ 63) (hrs : ∀ x ∈ rs, RecOk x)
    (n : Nat) (cap : Nat) (hcap : ((blocks.map (·.2)).flatten).length ≤ cap) :
    Xz.decode multi (forgedStream c fs blocks rs n) cap
      = if rs ≠ recsOf c fs blocks then .err .invalidData
        else if (ofLe (le 4 (n / 4 - 1)) + 1) * 4 ≠ (indexBytes rs).length then .err .invalidData
        else .ok (blocks.map (·.2)).flatten (forgedStream c fs blocks rs n).length (blocks.map (blkOf fs)).reverse := by
  have hb' : ∀ b ∈ blocks, BlockOk fs b := fun b hbm => blockOk_of fs b (hb b hbm)
  have hbb := blocksBytes_mod4 c fs blocks
  unfold Xz.decode
  unfold forgedStream
  rw [parseStreamHeader_ok]
  simp only []
  generalize hT : (streamHeaderBytes c ++ (blocksBytes c fs blocks ++ (indexBytes rs ++ (footerBytes c n ++ [])))).length
    = total
  have htot : total = 12 + (blocksBytes c fs blocks ++ (indexBytes rs ++ (footerBytes c n ++ []))).length := by
    rw [← hT, List.length_append, streamHeaderBytes_length]
  have hbl : blocks.length ≤ total := by
    rw [htot, List.length_append]; omega
  have e : total + 2 = ((total + 1 - blocks.length) + 1) + blocks.length := by omega
  rw [e, readBlocks_blocks multi c fs hfs total cap blocks hb' _ [] [] 12 _ htot (by decide)
    (by rw [List.length_nil, Nat.zero_add]; exact hcap)]
  rw [readBlocks_end multi c rs hn hrs n [] _ _ total _ cap, List.append_nil, blockRecords_blkOf]
  split
  · rfl
  · split
    · rfl
    · cases multi with
      | false => simp [afterStream, blocksData]
      | true => simp [afterStream, blocksData, nextStream, pure, Except.pure]

/-- **Forged Index.**  Take any written stream and put ANY other list of (representable) records into its Index,
with the Index CRC recomputed, and any Backward Size: the reader rejects the file. -/
theorem reader_rejects_forged_index (multi : Bool) (c : Check) (fs : List Filter) (hfs : FiltersOk fs)
    (blocks : List (List Nat × List Nat))
    (hb : ∀ b ∈ blocks, PayloadOk (readerDict fs) b.1 (applyFilters fs b.2) ∧ unfilter fs (applyFilters fs b.2) = b.2)
    (rs : List (Nat × Nat)) (hn : rs.length < 2 ^ 63) (hrs : ∀ x ∈ rs, RecOk x) (hne : rs ≠ recsOf c fs blocks)
    (n : Nat) (cap : Nat) (hcap : ((blocks.map (·.2)).flatten).length ≤ cap) :
    Xz.decode multi (forgedStream c fs blocks rs n) cap = .err .invalidData := by
  rw [decode_forged multi c fs hfs blocks hb rs hn hrs n cap hcap, if_pos hne]

/-- **Forged Backward Size.**  The right Index, but a footer (CRC recomputed) that announces any other valid
Index size `n` (a multiple of four between 4 and 2^34): rejected. -/
theorem reader_rejects_wrong_backward_size (multi : Bool) (c : Check) (fs : List Filter) (hfs : FiltersOk fs)
    (blocks : List (List Nat × List Nat))
    (hb : ∀ b ∈ blocks, PayloadOk (readerDict fs) b.1 (applyFilters fs b.2) ∧ unfilter fs (applyFilters fs b.2) = b.2)
    (hsz : SizesOk63 c fs blocks)
    (n : Nat) (hn4 : n % 4 = 0) (hge : 4 ≤ n) (hle : n ≤ 2 ^ 34) (hne : n ≠ (indexBytes (recsOf c fs blocks)).length)
    (cap : Nat) (hcap : ((blocks.map (·.2)).flatten).length ≤ cap) :
    Xz.decode multi (forgedStream c fs blocks (recsOf c fs blocks) n) cap = .err .invalidData := by
  obtain ⟨r1, r2⟩ := recsOf_ok c fs blocks hsz
  rw [decode_forged multi c fs hfs blocks hb _ (by rw [r1]; exact hsz.1) r2 n cap hcap,
    if_neg (not_not_intro rfl), (backward_size_iff n hn4 hge).mpr hle, if_pos hne]

/-! ## Swapping two adjacent blocks -/

theorem blocksBytes_append (c : Check) (fs : List Filter) (xs ys : List (List Nat × List Nat)) :
    blocksBytes c fs (xs ++ ys) = blocksBytes c fs xs ++ blocksBytes c fs ys := by
  simp [blocksBytes]

theorem recsOf_append (c : Check) (fs : List Filter) (xs ys : List (List Nat × List Nat)) :
    recsOf c fs (xs ++ ys) = recsOf c fs xs ++ recsOf c fs ys := by
  simp [recsOf]

theorem recsOf_cons' (c : Check) (fs : List Filter) (b : List Nat × List Nat) (blocks : List (List Nat × List Nat)) :
    recsOf c fs (b :: blocks) = ((blockHeaderBytes fs).length + b.1.length + c.size, b.2.length) :: recsOf c fs blocks := by
  simp [recsOf, blockBytes_snd]

/-- the stream written for the blocks `pre ++ b₁ :: b₂ :: post`, cut into its pieces -/
theorem streamBytes_split (c : Check) (fs : List Filter) (pre post : List (List Nat × List Nat))
    (b₁ b₂ : List Nat × List Nat) :
    streamBytes c fs (pre ++ b₁ :: b₂ :: post)
      = streamHeaderBytes c ++ (blocksBytes c fs pre ++ ((blockBytes c fs b₁.1 b₁.2).1 ++ ((blockBytes c fs b₂.1 b₂.2).1 ++
          (blocksBytes c fs post ++ (indexBytes (recsOf c fs (pre ++ b₁ :: b₂ :: post)) ++
            footerBytes c (indexBytes (recsOf c fs (pre ++ b₁ :: b₂ :: post))).length))))) := by
  rw [streamBytes_eq]
  simp only [streamBody, blocksBytes_append, blocksBytes_cons, List.append_assoc]

/-- the same file with the byte ranges of the two adjacent blocks `b₁`, `b₂` exchanged (everything else, in
particular the Index and the footer, untouched) -/
def swappedStream (c : Check) (fs : List Filter) (pre post : List (List Nat × List Nat))
    (b₁ b₂ : List Nat × List Nat) : List Nat :=
  streamHeaderBytes c ++ (blocksBytes c fs pre ++ ((blockBytes c fs b₂.1 b₂.2).1 ++ ((blockBytes c fs b₁.1 b₁.2).1 ++
    (blocksBytes c fs post ++ (indexBytes (recsOf c fs (pre ++ b₁ :: b₂ :: post)) ++
      footerBytes c (indexBytes (recsOf c fs (pre ++ b₁ :: b₂ :: post))).length)))))

theorem swappedStream_eq (c : Check) (fs : List Filter) (pre post : List (List Nat × List Nat))
    (b₁ b₂ : List Nat × List Nat) :
    swappedStream c fs pre post b₁ b₂
      = forgedStream c fs (pre ++ b₂ :: b₁ :: post) (recsOf c fs (pre ++ b₁ :: b₂ :: post))
          (indexBytes (recsOf c fs (pre ++ b₁ :: b₂ :: post))).length := by
  simp only [swappedStream, forgedStream, blocksBytes_append, blocksBytes_cons, List.append_assoc, List.append_nil]

theorem mem_swap {α : Type} (pre post : List α) (a b x : α) :
    x ∈ pre ++ b :: a :: post ↔ x ∈ pre ++ a :: b :: post := by
  simp only [List.mem_append, List.mem_cons]
  constructor <;> (rintro (h | h | h | h) <;> simp [h])

theorem swap_data_length (pre post : List (List Nat × List Nat)) (b₁ b₂ : List Nat × List Nat) :
    (((pre ++ b₂ :: b₁ :: post).map (·.2)).flatten).length = (((pre ++ b₁ :: b₂ :: post).map (·.2)).flatten).length := by
  simp only [List.map_append, List.map_cons, List.flatten_append, List.flatten_cons, List.length_append]
  omega

/-- **C04: swapped blocks are detected.**  Exchanging two adjacent blocks of a written stream whose compressed
sizes or uncompressed sizes differ makes the reader fail (in both modes, whatever the rest of the stream is). -/
theorem block_swap_detected (multi : Bool) (c : Check) (fs : List Filter) (hfs : FiltersOk fs)
    (pre post : List (List Nat × List Nat)) (b₁ b₂ : List Nat × List Nat)
    (hb : ∀ b ∈ pre ++ b₁ :: b₂ :: post,
      PayloadOk (readerDict fs) b.1 (applyFilters fs b.2) ∧ unfilter fs (applyFilters fs b.2) = b.2)
    (hsz : SizesOk63 c fs (pre ++ b₁ :: b₂ :: post))
    (hne : b₁.1.length ≠ b₂.1.length ∨ b₁.2.length ≠ b₂.2.length)
    (cap : Nat) (hcap : (((pre ++ b₁ :: b₂ :: post).map (·.2)).flatten).length ≤ cap) :
    Xz.decode multi (swappedStream c fs pre post b₁ b₂) cap = .err .invalidData := by
  obtain ⟨r1, r2⟩ := recsOf_ok c fs _ hsz
  rw [swappedStream_eq]
  apply reader_rejects_forged_index multi c fs hfs _ (fun b hbm => hb b ((mem_swap pre post b₁ b₂ b).mp hbm))
    _ (by rw [r1]; exact hsz.1) r2 _ _ cap (by rw [swap_data_length]; exact hcap)
  intro h
  rw [recsOf_append, recsOf_append, recsOf_cons', recsOf_cons', recsOf_cons', recsOf_cons'] at h
  have h := List.append_cancel_left h
  injection h with h1 h2
  injection h1 with h3 h4
  rcases hne with hne | hne
  · omega
  · exact hne h4

/-- **The residual (a limitation of the format, not of the reader).**  Two adjacent blocks with the same
compressed size and the same uncompressed size have the same Index record, so the file with the two blocks
exchanged IS the stream the writer emits for the exchanged data, and it is accepted as such: XZ has a check per
block and none over the whole stream. -/
theorem block_swap_same_sizes_accepted (c : Check) (fs : List Filter) (hfs : FiltersOk fs)
    (pre post : List (List Nat × List Nat)) (b₁ b₂ : List Nat × List Nat)
    (hb : ∀ b ∈ pre ++ b₁ :: b₂ :: post,
      PayloadOk (readerDict fs) b.1 (applyFilters fs b.2) ∧ unfilter fs (applyFilters fs b.2) = b.2)
    (hsz : SizesOk c fs (pre ++ b₁ :: b₂ :: post))
    (heq : b₁.1.length = b₂.1.length ∧ b₁.2.length = b₂.2.length)
    (rest : List Nat) (cap : Nat) (hcap : (((pre ++ b₁ :: b₂ :: post).map (·.2)).flatten).length ≤ cap) :
    swappedStream c fs pre post b₁ b₂ = streamBytes c fs (pre ++ b₂ :: b₁ :: post) ∧
    Xz.decode false (swappedStream c fs pre post b₁ b₂ ++ rest) cap
      = .ok ((pre ++ b₂ :: b₁ :: post).map (·.2)).flatten (swappedStream c fs pre post b₁ b₂).length
          ((pre ++ b₂ :: b₁ :: post).map (blkOf fs)).reverse := by
  have hrec : recsOf c fs (pre ++ b₂ :: b₁ :: post) = recsOf c fs (pre ++ b₁ :: b₂ :: post) := by
    rw [recsOf_append, recsOf_append, recsOf_cons', recsOf_cons', recsOf_cons', recsOf_cons', heq.1, heq.2]
  have hs : swappedStream c fs pre post b₁ b₂ = streamBytes c fs (pre ++ b₂ :: b₁ :: post) := by
    rw [streamBytes_split, hrec]; rfl
  have hsz' : SizesOk c fs (pre ++ b₂ :: b₁ :: post) := by
    obtain ⟨⟨h1, h2⟩, h3⟩ := hsz
    refine ⟨⟨?_, fun b hbm => h2 b ((mem_swap pre post b₁ b₂ b).mp hbm)⟩, ?_⟩
    · simp only [List.length_append, List.length_cons] at h1 ⊢; exact h1
    · unfold IndexFits at h3 ⊢; rw [hrec]; exact h3
  refine ⟨hs, ?_⟩
  rw [hs]
  exact xz_roundtrip_blocks c fs hfs _ (fun b hbm => hb b ((mem_swap pre post b₁ b₂ b).mp hbm)) hsz' rest cap
    (by rw [swap_data_length]; exact hcap)

/-! ## Non-vacuity -/

/-- a stored LZMA2 chunk as block payload (chain `[.lzma2 4096]`) -/
theorem stored_block_ok (raw : List Nat) (h1 : 1 ≤ raw.length) (h2 : raw.length ≤ 65536) :
    PayloadOk (readerDict [.lzma2 4096]) (1 :: (raw.length - 1) / 256 :: (raw.length - 1) % 256 :: (raw ++ [0]))
        (applyFilters [.lzma2 4096] raw) ∧
      unfilter [.lzma2 4096] (applyFilters [.lzma2 4096] raw) = raw :=
  ⟨payloadOk_stored _ raw h1 h2, rfl⟩

theorem hdr_lzma2_len12 (d : Nat) : (blockHeaderBytes [.lzma2 d]).length = 12 := by
  rw [blockHeaderBytes_length]
  simp [encFilter]

theorem small_blocks_hyps (c : Check) (blocks : List (List Nat × List Nat))
    (h : ∀ b ∈ blocks, ∃ raw, 1 ≤ raw.length ∧ raw.length ≤ 65536 ∧
      b = (1 :: (raw.length - 1) / 256 :: (raw.length - 1) % 256 :: (raw ++ [0]), raw))
    (hn : blocks.length ≤ 2 ^ 29) :
    (∀ b ∈ blocks, PayloadOk (readerDict [.lzma2 4096]) b.1 (applyFilters [.lzma2 4096] b.2) ∧
      unfilter [.lzma2 4096] (applyFilters [.lzma2 4096] b.2) = b.2) ∧ SizesOk c [.lzma2 4096] blocks := by
  have hc : c.size ≤ 32 := by cases c <;> decide
  refine ⟨?_, sizesOk_of_blocks _ _ _ ⟨by omega, ?_⟩ hn⟩
  · intro b hb
    obtain ⟨raw, h1, h2, rfl⟩ := h b hb
    exact stored_block_ok raw h1 h2
  · intro b hb
    obtain ⟨raw, h1, h2, rfl⟩ := h b hb
    rw [hdr_lzma2_len12]
    simp only [List.length_cons, List.length_append, List.length_nil]
    omega

/-- `block_swap_detected` instantiated: a 1-byte block and a 2-byte block (any bytes), swapped — an error -/
example (multi : Bool) (x y z : Nat) :
    Xz.decode multi (swappedStream .crc32 [.lzma2 4096] [] [] ([1, 0, 0, x, 0], [x]) ([1, 0, 1, y, z, 0], [y, z])) 3
      = .err .invalidData := by
  obtain ⟨hb, hsz⟩ := small_blocks_hyps .crc32 [([1, 0, 0, x, 0], [x]), ([1, 0, 1, y, z, 0], [y, z])]
    (by
      intro b hb
      simp only [List.mem_cons, List.not_mem_nil, or_false] at hb
      rcases hb with rfl | rfl
      · exact ⟨[x], by simp, by simp, by simp⟩
      · exact ⟨[y, z], by simp, by simp, by simp⟩) (by simp)
  exact block_swap_detected multi .crc32 [.lzma2 4096] (by decide) [] [] _ _ hb hsz.1 (Or.inl (by simp)) 3 (by simp)

/-- `block_swap_same_sizes_accepted` instantiated: two 1-byte blocks swapped — accepted, with the swapped data -/
example (x y : Nat) (rest : List Nat) :
    Xz.decode false (swappedStream .crc32 [.lzma2 4096] [] [] ([1, 0, 0, x, 0], [x]) ([1, 0, 0, y, 0], [y]) ++ rest) 2
      = .ok [y, x] (swappedStream .crc32 [.lzma2 4096] [] [] ([1, 0, 0, x, 0], [x]) ([1, 0, 0, y, 0], [y])).length
          [blkOf [.lzma2 4096] ([1, 0, 0, x, 0], [x]), blkOf [.lzma2 4096] ([1, 0, 0, y, 0], [y])] := by
  obtain ⟨hb, hsz⟩ := small_blocks_hyps .crc32 [([1, 0, 0, x, 0], [x]), ([1, 0, 0, y, 0], [y])]
    (by
      intro b hb
      simp only [List.mem_cons, List.not_mem_nil, or_false] at hb
      rcases hb with rfl | rfl
      · exact ⟨[x], by simp, by simp, by simp⟩
      · exact ⟨[y], by simp, by simp, by simp⟩) (by simp)
  have := (block_swap_same_sizes_accepted .crc32 [.lzma2 4096] (by decide) [] [] _ _ hb hsz ⟨rfl, rfl⟩ rest 2 (by simp)).2
  simpa using this

/-- the same two facts on concrete bytes, by evaluation of the reader model -/
example :
    (Xz.decode true (swappedStream .crc32 [.lzma2 4096] [] [] ([1, 0, 0, 65, 0], [65]) ([1, 0, 1, 66, 67, 0], [66, 67])) 16).err?
      = some .invalidData ∧
    (Xz.decode true (streamBytes .crc32 [.lzma2 4096] [([1, 0, 0, 65, 0], [65]), ([1, 0, 1, 66, 67, 0], [66, 67])]) 16).result?
      = some ([65, 66, 67], 84) ∧
    (Xz.decode true (swappedStream .crc32 [.lzma2 4096] [] [] ([1, 0, 0, 65, 0], [65]) ([1, 0, 0, 66, 0], [66])) 16).result?
      = some ([66, 65], 84) := by
  decide +kernel

/-- `reader_rejects_wrong_backward_size` instantiated: the footer announces 12 instead of 8 bytes -/
example (multi : Bool) (x : Nat) :
    Xz.decode multi (forgedStream .crc32 [.lzma2 4096] [([1, 0, 0, x, 0], [x])]
      (recsOf .crc32 [.lzma2 4096] [([1, 0, 0, x, 0], [x])]) 12) 1 = .err .invalidData := by
  obtain ⟨hb, hsz⟩ := small_blocks_hyps .crc32 [([1, 0, 0, x, 0], [x])]
    (by
      intro b hb
      rw [List.mem_singleton] at hb
      exact ⟨[x], by simp, by simp, by simp [hb]⟩) (by simp)
  apply reader_rejects_wrong_backward_size multi .crc32 [.lzma2 4096] (by decide) _ hb hsz.1 12 (by decide) (by decide)
    (by decide) _ 1 (by simp)
  have : (indexBytes (recsOf .crc32 [.lzma2 4096] [([1, 0, 0, x, 0], [x])])).length = 8 := by
    rw [indexBytes_eq]
    simp [recsOf, blockBytes_snd, hdr_lzma2_len12, Check.size, recBytes, mb, XzInt.encode, XzInt.encodeFuel, le_length]
  omega

#print axioms decode_forged
#print axioms reader_rejects_forged_index
#print axioms reader_rejects_wrong_backward_size
#print axioms block_swap_detected
#print axioms block_swap_same_sizes_accepted

end LzmaVerif.Xz
