/-
  (H3) soundness of `findMatches` / `find`: every reported match is valid, lengths increase, the
  number of matches fits `Matches::new(nice_len - 1)`.
-/
import LzmaVerif.Proofs.Hc4Hash
import LzmaVerif.Proofs.Hc4Inv

namespace LzmaVerif.Mf.Hc4

theorem byteAt_lt (d : Array UInt8) (i : Nat) : byteAt d i < 256 := UInt8.toNat_lt_size _

/-- the first `n` bytes at `p` repeat the bytes `delta` earlier -/
def Eqs (d : Array UInt8) (p delta n : Nat) : Prop :=
  ∀ i, i < n → byteAt d (p + i) = byteAt d (p + i - delta)

theorem extendMatch_spec (d : Array UInt8) (p delta limit cur : Nat) (hle : cur ≤ limit)
    (he : Eqs d p delta cur) :
    cur ≤ extendMatch d p delta limit cur ∧ extendMatch d p delta limit cur ≤ limit ∧
      Eqs d p delta (extendMatch d p delta limit cur) := by
  fun_induction extendMatch d p delta limit cur with
  | case1 x h ih =>
    have hx : Eqs d p delta (x + 1) := by
      intro i hi
      by_cases hix : i < x
      · exact he i hix
      · have : i = x := by omega
        subst this; exact h.2
    have := ih (by omega) hx
    exact ⟨by omega, this.2.1, this.2.2⟩
  | case2 x h => exact ⟨Nat.le_refl _, hle, he⟩

theorem extendMatch_ge (d : Array UInt8) (p delta limit cur : Nat) :
    cur ≤ extendMatch d p delta limit cur := by
  fun_induction extendMatch d p delta limit cur with
  | case1 x h ih => omega
  | case2 x h => exact Nat.le_refl _

theorem valid_of (d : Array UInt8) (dict p limit len delta : Nat) (h2 : 2 ≤ len) (hl : len ≤ limit)
    (hsz : p + limit ≤ d.size) (hd1 : 1 ≤ delta) (hdp : delta ≤ p) (hdd : delta ≤ dict)
    (hb : Eqs d p delta len) : ValidMatch d dict p limit (len, delta - 1) := by
  have e : delta - 1 + 1 = delta := by omega
  refine ⟨h2, hl, ?_, ?_, ?_, ?_⟩
  · show p + len ≤ d.size; omega
  · show delta - 1 + 1 ≤ p; omega
  · show delta - 1 + 1 ≤ dict; omega
  · intro i hi; show byteAt d (p + i) = byteAt d (p + i - (delta - 1 + 1)); rw [e]; exact hb i hi

theorem matchLenLimit_eq (c : Cfg) (a : Nat) : matchLenLimit c a = min c.mlmax a := by
  unfold matchLenLimit; split <;> omega

theorem niceLenLimit_le (c : Cfg) (a : Nat) : niceLenLimit c a ≤ c.niceLen := by
  unfold niceLenLimit; split
  · split <;> omega
  · exact Nat.le_refl _

theorem lensIncreasing_of_pairwise : ∀ l : List Match, l.Pairwise (fun a b => a.1 < b.1) →
    lensIncreasing l = true
  | [], _ => rfl
  | [_], _ => rfl
  | a :: b :: r, h => by
    rw [List.pairwise_cons] at h
    have h1 : a.1 < b.1 := h.1 b (List.mem_cons_self ..)
    have h2 := lensIncreasing_of_pairwise (b :: r) h.2
    simp only [lensIncreasing, h2, Bool.and_true, decide_eq_true_eq]
    exact h1

/-- an entry is 0 or the `lz_pos` of a position before `p` (`cs = dict + 1`) -/
def EntryOk (dict p e : Nat) : Prop := e = 0 ∨ (dict + 2 ≤ e ∧ e ≤ dict + 1 + p)

/-! ### the chain loop -/

theorem chainLoop_valid (P : Hc4Params) (hP : P.ok) (d : Array UInt8) (chain : Array Nat)
    (dict p mll nll : Nat) (cp : Int) (hsz : p + mll ≤ d.size)
    (hch : ∀ i, EntryOk dict p (chain.getD i 0)) :
    ∀ (depth cur lb : Nat) (acc : List Match), EntryOk dict p cur → 1 ≤ lb →
      (∀ m ∈ acc, ValidMatch d dict p mll m ∧ m.1 ≤ lb) →
      acc.Pairwise (fun a b => b.1 < a.1) →
      (∀ m ∈ chainLoop P d chain (dict + 1) cp (dict + 1 + p + 1) p mll nll depth cur lb acc,
          ValidMatch d dict p mll m) ∧
      (chainLoop P d chain (dict + 1) cp (dict + 1 + p + 1) p mll nll depth cur lb acc).Pairwise
          (fun a b => b.1 < a.1) := by
  obtain ⟨_, _, hge, _, _, _, hds, _, _, _, _⟩ := hP
  intro depth
  induction depth with
  | zero =>
    intro cur lb acc _ _ hacc hpw
    simp only [chainLoop]
    exact ⟨fun m hm => (hacc m hm).1, hpw⟩
  | succ depth ih =>
    intro cur lb acc hcur hlb hacc hpw
    simp only [chainLoop, hge, hds, if_true, decide_eq_true_eq]
    by_cases hstop : dict + 1 + p + 1 - cur ≥ dict + 1
    · rw [if_pos hstop]
      exact ⟨fun m hm => (hacc m hm).1, hpw⟩
    · rw [if_neg hstop]
      have hcur' := hch (chainIdx (dict + 1) cp (dict + 1 + p + 1 - cur)).toNat
      generalize chain.getD (chainIdx (dict + 1) cp (dict + 1 + p + 1 - cur)).toNat 0 = cur' at *
      have hc : dict + 2 ≤ cur ∧ cur ≤ dict + 1 + p := by
        rcases hcur with h0 | h1
        · subst h0; omega
        · exact h1
      generalize hdl : dict + 1 + p + 1 - cur = delta at *
      have hd1 : 1 ≤ delta := by omega
      have hdp : delta ≤ p := by omega
      have hdd : delta ≤ dict := by omega
      split
      · rename_i hb
        have he1 : Eqs d p delta 1 := by
          intro i hi
          have : i = 0 := by omega
          subst this
          exact hb.2.symm
        by_cases hm1 : 1 ≤ mll
        · obtain ⟨s1, s2, s3⟩ := extendMatch_spec d p delta mll 1 hm1 he1
          generalize extendMatch d p delta mll 1 = len at *
          split
          · rename_i hgt
            have hv : ValidMatch d dict p mll (len, delta - 1) :=
              valid_of d dict p mll len delta (by omega) s2 hsz hd1 hdp hdd s3
            have hacc' : ∀ m ∈ (len, delta - 1) :: acc, ValidMatch d dict p mll m ∧ m.1 ≤ len := by
              intro m hm
              rcases List.mem_cons.mp hm with h | h
              · subst h; exact ⟨hv, Nat.le_refl _⟩
              · have := hacc m h; exact ⟨this.1, by omega⟩
            have hpw' : ((len, delta - 1) :: acc).Pairwise (fun a b => b.1 < a.1) := by
              rw [List.pairwise_cons]
              refine ⟨?_, hpw⟩
              intro m hm
              have := (hacc m hm).2
              show m.1 < len
              omega
            split
            · exact ⟨fun m hm => (hacc' m hm).1, hpw'⟩
            · exact ih cur' len _ hcur' (by omega) hacc' hpw'
          · exact ih cur' lb acc hcur' hlb hacc hpw
        · -- `mll = 0`: `extendMatch` returns its start value 1 and `1 > lb` is false
          have hm0 : mll = 0 := by omega
          have hx : extendMatch d p delta mll 1 = 1 := by
            rw [extendMatch, hm0]; simp
          rw [hx]
          have : ¬ (1 > lb) := by omega
          rw [if_neg this]
          exact ih cur' lb acc hcur' hlb hacc hpw
      · exact ih cur' lb acc hcur' hlb hacc hpw

theorem chainLoop_length (P : Hc4Params) (d : Array UInt8) (chain : Array Nat)
    (cs lz p mll nll N : Nat) (cp : Int) (hn : nll ≤ N) :
    ∀ (depth cur lb : Nat) (acc : List Match), acc.length + 1 ≤ lb → acc.length + 2 ≤ N →
      (chainLoop P d chain cs cp lz p mll nll depth cur lb acc).length + 1 ≤ N := by
  intro depth
  induction depth with
  | zero => intro cur lb acc _ h2; simp only [chainLoop]; omega
  | succ depth ih =>
    intro cur lb acc h1 h2
    simp only [chainLoop]
    generalize (if P.chainStopGe = true then decide (lz - cur ≥ cs) else decide (lz - cur > cs)) = stop
    cases stop
    · simp only [Bool.false_eq_true, if_false]
      split
      · split
        · rename_i hgt
          split
          · simp only [List.length_cons]; omega
          · rename_i hlt
            apply ih
            · simp only [List.length_cons]; omega
            · simp only [List.length_cons]; omega
        · exact ih _ _ _ h1 h2
      · exact ih _ _ _ h1 h2
    · simp only [if_true]; omega

/-! ### `findMatches` -/

theorem c2_true {a b x y : Nat} (h : (cmpLt true a b && (x == y)) = true) : a < b ∧ x = y := by
  simp only [cmpLt, if_true, Bool.and_eq_true, decide_eq_true_eq, beq_iff_eq] at h
  exact h

theorem c3_true {a a' b x y : Nat} (h : ((a' != a) && cmpLt true a b && (x == y)) = true) :
    a' ≠ a ∧ a < b ∧ x = y := by
  simp only [cmpLt, if_true, Bool.and_eq_true, decide_eq_true_eq, beq_iff_eq, bne_iff_ne] at h
  exact ⟨h.1.1, h.1.2, h.2⟩

/-- what `findMatches` does after the hash2 / hash3 part: `acc` = matches so far (newest first, lengths
    set), `lb` = `len_best`, `hit` = `matches.count > 0` -/
def tailPart (P : Hc4Params) (c : Cfg) (d : Array UInt8) (chain : Array Nat) (cp : Int)
    (lz p avail cur : Nat) (acc : List Match) (lb : Nat) (hit : Bool) : List Match :=
  if hit = true ∧ lb ≥ niceLenLimit c avail then acc.reverse
  else (chainLoop P d chain (cyclicSize P c) cp lz p (matchLenLimit c avail) (niceLenLimit c avail)
      (depthOf P c) cur (if lb < P.lenBestFloor then P.lenBestFloor else lb) acc).reverse

/-- the two hit tests of `findMatches` -/
def hit2 (P : Hc4Params) (c : Cfg) (d : Array UInt8) (p delta2 : Nat) : Bool :=
  cmpLt P.d2Strict delta2 (cyclicSize P c) && (byteAt d (p - delta2) == byteAt d p)
def hit3 (P : Hc4Params) (c : Cfg) (d : Array UInt8) (p delta2 delta3 : Nat) : Bool :=
  (delta2 != delta3) && cmpLt P.d3Strict delta3 (cyclicSize P c) && (byteAt d (p - delta3) == byteAt d p)

theorem findMatches_cases (P : Hc4Params) (c : Cfg) (d : Array UInt8) (chain : Array Nat) (cp : Int)
    (lz p avail delta2 delta3 cur : Nat) :
    findMatches P c d chain cp lz p avail delta2 delta3 cur =
      match hit2 P c d p delta2, hit3 P c d p delta2 delta3 with
      | true, true =>
        tailPart P c d chain cp lz p avail cur
          [(extendMatch d p delta3 (matchLenLimit c avail) 3, delta3 - P.distSub), (2, delta2 - P.distSub)]
          (extendMatch d p delta3 (matchLenLimit c avail) 3) true
      | true, false =>
        tailPart P c d chain cp lz p avail cur
          [(extendMatch d p delta2 (matchLenLimit c avail) 2, delta2 - P.distSub)]
          (extendMatch d p delta2 (matchLenLimit c avail) 2) true
      | false, true =>
        tailPart P c d chain cp lz p avail cur
          [(extendMatch d p delta3 (matchLenLimit c avail) 3, delta3 - P.distSub)]
          (extendMatch d p delta3 (matchLenLimit c avail) 3) true
      | false, false => tailPart P c d chain cp lz p avail cur [] 0 false := by
  simp only [findMatches, hit2, hit3, tailPart]
  cases (cmpLt P.d2Strict delta2 (cyclicSize P c) && (byteAt d (p - delta2) == byteAt d p)) <;>
  cases ((delta2 != delta3) && cmpLt P.d3Strict delta3 (cyclicSize P c) &&
      (byteAt d (p - delta3) == byteAt d p)) <;>
  simp only [if_true, if_false, Bool.false_eq_true, List.length_cons, List.length_nil, setLastLen,
    gt_iff_lt, Nat.lt_irrefl, Nat.zero_lt_succ, true_and, false_and]

theorem eqs2 {d : Array UInt8} {p delta : Nat} (h0 : byteAt d (p - delta) = byteAt d p)
    (h1 : byteAt d (p + 1) = byteAt d (p + 1 - delta)) : Eqs d p delta 2 := by
  intro i hi
  rcases (by omega : i = 0 ∨ i = 1) with h | h <;> subst h
  · exact h0.symm
  · exact h1

theorem eqs3 {d : Array UInt8} {p delta : Nat} (h0 : byteAt d (p - delta) = byteAt d p)
    (h1 : byteAt d (p + 1) = byteAt d (p + 1 - delta))
    (h2 : byteAt d (p + 2) = byteAt d (p + 2 - delta)) : Eqs d p delta 3 := by
  intro i hi
  rcases (by omega : i = 0 ∨ i = 1 ∨ i = 2) with h | h | h <;> subst h
  · exact h0.symm
  · exact h1
  · exact h2

theorem tailPart_valid (P : Hc4Params) (hP : P.ok) (c : Cfg) (d : Array UInt8) (chain : Array Nat)
    (cp : Int) (p avail cur : Nat) (acc : List Match) (lb : Nat) (hit : Bool)
    (hav : avail = d.size - p) (h1 : 1 ≤ avail)
    (hcur : EntryOk c.dict p cur) (hch : ∀ i, EntryOk c.dict p (chain.getD i 0))
    (hacc : ∀ m ∈ acc, ValidMatch d c.dict p (min c.mlmax (d.size - p)) m ∧ m.1 ≤ lb)
    (hpw : acc.Pairwise (fun a b => b.1 < a.1)) :
    (∀ m ∈ tailPart P c d chain cp (c.dict + 1 + p + 1) p avail cur acc lb hit,
        ValidMatch d c.dict p (min c.mlmax (d.size - p)) m) ∧
    (tailPart P c d chain cp (c.dict + 1 + p + 1) p avail cur acc lb hit).Pairwise
        (fun a b => a.1 < b.1) := by
  have hfl : 1 ≤ P.lenBestFloor := hP.2.2.2.2.2.2.2.1
  have hcs : cyclicSize P c = c.dict + 1 := by unfold cyclicSize; rw [hP.2.2.2.1]
  have hmll : matchLenLimit c avail = min c.mlmax (d.size - p) := by rw [matchLenLimit_eq, hav]
  have hsz : p + min c.mlmax (d.size - p) ≤ d.size := by omega
  unfold tailPart
  rw [hcs, hmll]
  split
  · refine ⟨fun m hm => (hacc m (List.mem_reverse.mp hm)).1, ?_⟩
    rw [List.pairwise_reverse]; exact hpw
  · have hlb : 1 ≤ (if lb < P.lenBestFloor then P.lenBestFloor else lb) := by split <;> omega
    have hacc' : ∀ m ∈ acc, ValidMatch d c.dict p (min c.mlmax (d.size - p)) m ∧
        m.1 ≤ (if lb < P.lenBestFloor then P.lenBestFloor else lb) := by
      intro m hm
      have := hacc m hm
      refine ⟨this.1, ?_⟩
      split <;> omega
    have := chainLoop_valid P hP d chain c.dict p (min c.mlmax (d.size - p)) (niceLenLimit c avail) cp
      hsz hch (depthOf P c) cur _ acc hcur hlb hacc' hpw
    refine ⟨fun m hm => this.1 m (List.mem_reverse.mp hm), ?_⟩
    rw [List.pairwise_reverse]; exact this.2

theorem tailPart_length (P : Hc4Params) (hP : P.ok) (c : Cfg) (d : Array UInt8) (chain : Array Nat)
    (cp : Int) (lz p avail cur : Nat) (acc : List Match) (lb : Nat) (hit : Bool)
    (hn : 3 ≤ c.niceLen) (h2 : acc.length ≤ 2)
    (h : acc.length = 0 ∨ (hit = true ∧ acc.length + 1 ≤ lb)) :
    (tailPart P c d chain cp lz p avail cur acc lb hit).length ≤ c.niceLen - 1 := by
  have hfl : 1 ≤ P.lenBestFloor := hP.2.2.2.2.2.2.2.1
  have hnl := niceLenLimit_le c avail
  unfold tailPart
  split
  · rw [List.length_reverse]; omega
  · rename_i hne
    rw [List.length_reverse]
    have := chainLoop_length P d chain (cyclicSize P c) lz p (matchLenLimit c avail) (niceLenLimit c avail)
      c.niceLen cp hnl (depthOf P c) cur (if lb < P.lenBestFloor then P.lenBestFloor else lb) acc
      (by rcases h with h | h
          · rw [h]; split <;> omega
          · split <;> omega)
      (by rcases h with h | h
          · omega
          · have : ¬ lb ≥ niceLenLimit c avail := fun hge => hne ⟨h.1, hge⟩
            omega)
    omega

theorem findMatches_valid (P : Hc4Params) (hP : P.ok) (c : Cfg) (d : Array UInt8) (chain : Array Nat)
    (cp : Int) (p avail delta2 delta3 cur : Nat)
    (hav : avail = d.size - p) (h4 : P.minAvail ≤ avail) (hml : 3 ≤ c.mlmax)
    (hd2 : delta2 < c.dict + 1 → 1 ≤ delta2 ∧ delta2 ≤ p ∧
        (byteAt d (p - delta2) = byteAt d p → byteAt d (p + 1) = byteAt d (p + 1 - delta2)))
    (hd3 : delta3 < c.dict + 1 → 1 ≤ delta3 ∧ delta3 ≤ p ∧
        (byteAt d (p - delta3) = byteAt d p → byteAt d (p + 1) = byteAt d (p + 1 - delta3) ∧
          byteAt d (p + 2) = byteAt d (p + 2 - delta3)))
    (hcur : EntryOk c.dict p cur) (hch : ∀ i, EntryOk c.dict p (chain.getD i 0)) :
    (∀ m ∈ findMatches P c d chain cp (c.dict + 1 + p + 1) p avail delta2 delta3 cur,
        ValidMatch d c.dict p (min c.mlmax (d.size - p)) m) ∧
    (findMatches P c d chain cp (c.dict + 1 + p + 1) p avail delta2 delta3 cur).Pairwise
        (fun a b => a.1 < b.1) := by
  have hP' := hP
  obtain ⟨hs2, hs3, _, hce, _, _, hds, hfl, hfl2, hm4, _⟩ := hP
  have hcs : cyclicSize P c = c.dict + 1 := by unfold cyclicSize; rw [hce]
  have hmll : matchLenLimit c avail = min c.mlmax (d.size - p) := by rw [matchLenLimit_eq, hav]
  have hm3 : 3 ≤ min c.mlmax (d.size - p) := by omega
  have hsz : p + min c.mlmax (d.size - p) ≤ d.size := by omega
  -- facts about a hash2 / hash3 hit
  have f2 : hit2 P c d p delta2 = true → 1 ≤ delta2 ∧ delta2 ≤ p ∧ delta2 ≤ c.dict ∧ Eqs d p delta2 2 := by
    intro h
    unfold hit2 at h; rw [hs2, hcs] at h
    obtain ⟨hlt, hb⟩ := c2_true h
    obtain ⟨g1, g2, g3⟩ := hd2 hlt
    exact ⟨g1, g2, by omega, eqs2 hb (g3 hb)⟩
  have f3 : hit3 P c d p delta2 delta3 = true →
      1 ≤ delta3 ∧ delta3 ≤ p ∧ delta3 ≤ c.dict ∧ Eqs d p delta3 3 := by
    intro h
    unfold hit3 at h; rw [hs3, hcs] at h
    obtain ⟨_, hlt, hb⟩ := c3_true h
    obtain ⟨g1, g2, g3⟩ := hd3 hlt
    exact ⟨g1, g2, by omega, eqs3 hb (g3 hb).1 (g3 hb).2⟩
  rw [findMatches_cases, hds, hmll]
  cases h2 : hit2 P c d p delta2 <;> cases h3 : hit3 P c d p delta2 delta3 <;> simp only []
  · -- no hit
    apply tailPart_valid P hP' c d chain cp p avail cur [] 0 false hav (by omega) hcur hch
    · intro m hm; cases hm
    · exact List.Pairwise.nil
  · -- hash3 only
    obtain ⟨g1, g2, g3, g4⟩ := f3 h3
    obtain ⟨s1, s2, s3⟩ := extendMatch_spec d p delta3 (min c.mlmax (d.size - p)) 3 hm3 g4
    apply tailPart_valid P hP' c d chain cp p avail cur _ _ true hav (by omega) hcur hch
    · intro m hm
      rcases List.mem_cons.mp hm with h | h
      · subst h
        exact ⟨valid_of d c.dict p _ _ delta3 (by omega) s2 hsz g1 g2 g3 s3, Nat.le_refl _⟩
      · cases h
    · exact List.pairwise_singleton _ _
  · -- hash2 only
    obtain ⟨g1, g2, g3, g4⟩ := f2 h2
    obtain ⟨s1, s2, s3⟩ := extendMatch_spec d p delta2 (min c.mlmax (d.size - p)) 2 (by omega) g4
    apply tailPart_valid P hP' c d chain cp p avail cur _ _ true hav (by omega) hcur hch
    · intro m hm
      rcases List.mem_cons.mp hm with h | h
      · subst h
        exact ⟨valid_of d c.dict p _ _ delta2 (by omega) s2 hsz g1 g2 g3 s3, Nat.le_refl _⟩
      · cases h
    · exact List.pairwise_singleton _ _
  · -- both
    obtain ⟨g1, g2, g3, g4⟩ := f2 h2
    obtain ⟨k1, k2, k3, k4⟩ := f3 h3
    obtain ⟨s1, s2, s3⟩ := extendMatch_spec d p delta3 (min c.mlmax (d.size - p)) 3 hm3 k4
    apply tailPart_valid P hP' c d chain cp p avail cur _ _ true hav (by omega) hcur hch
    · intro m hm
      rcases List.mem_cons.mp hm with h | h
      · subst h
        exact ⟨valid_of d c.dict p _ _ delta3 (by omega) s2 hsz k1 k2 k3 s3, Nat.le_refl _⟩
      · rcases List.mem_cons.mp h with h | h
        · subst h
          exact ⟨valid_of d c.dict p (min c.mlmax (d.size - p)) 2 delta2 (by omega) (by omega) hsz g1 g2 g3 g4,
            by show 2 ≤ _; omega⟩
        · cases h
    · rw [List.pairwise_cons]
      refine ⟨?_, List.pairwise_singleton _ _⟩
      intro m hm
      rcases List.mem_cons.mp hm with h | h
      · subst h; show 2 < _; omega
      · cases h

theorem findMatches_length (P : Hc4Params) (hP : P.ok) (c : Cfg) (d : Array UInt8) (chain : Array Nat)
    (cp : Int) (lz p avail delta2 delta3 cur : Nat) (hn : 3 ≤ c.niceLen) :
    (findMatches P c d chain cp lz p avail delta2 delta3 cur).length ≤ c.niceLen - 1 := by
  rw [findMatches_cases]
  have e : ∀ cur, cur ≤ extendMatch d p delta2 (matchLenLimit c avail) cur ∧
      cur ≤ extendMatch d p delta3 (matchLenLimit c avail) cur :=
    fun cur => ⟨extendMatch_ge .., extendMatch_ge ..⟩
  cases hit2 P c d p delta2 <;> cases hit3 P c d p delta2 delta3 <;> simp only []
  · exact tailPart_length P hP c d chain cp lz p avail cur _ _ _ hn (by simp) (Or.inl rfl)
  · exact tailPart_length P hP c d chain cp lz p avail cur _ _ _ hn (by simp)
      (Or.inr ⟨rfl, by have := (e 3).2; simp only [List.length_cons, List.length_nil]; omega⟩)
  · exact tailPart_length P hP c d chain cp lz p avail cur _ _ _ hn (by simp)
      (Or.inr ⟨rfl, by have := (e 2).1; simp only [List.length_cons, List.length_nil]; omega⟩)
  · exact tailPart_length P hP c d chain cp lz p avail cur _ _ _ hn (by simp)
      (Or.inr ⟨rfl, by have := (e 3).2; simp only [List.length_cons, List.length_nil]; omega⟩)

end LzmaVerif.Mf.Hc4
