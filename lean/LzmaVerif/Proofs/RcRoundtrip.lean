import LzmaVerif.Model.Prog
import LzmaVerif.Proofs.ProgUnfold
import LzmaVerif.Proofs.RcRefine
import LzmaVerif.Proofs.RcDecode
/-!
Range coder round trip for every decision program (`Prog`).
-/
namespace LzmaVerif.Rc
open Ideal

/-- all probabilities are in the range that adaptation preserves -/
def ProbsOk (ps : Probs) : Prop := ∀ i, 31 ≤ ps.get i ∧ ps.get i ≤ 2017

theorem updProb_ok (p : Nat) (b : Bool) (h : 31 ≤ p ∧ p ≤ 2017) :
    31 ≤ updProb p b ∧ updProb p b ≤ 2017 := by
  obtain ⟨h1, h2⟩ := h
  unfold updProb
  cases b
  · simp only [Bool.false_eq_true, if_false]; omega
  · simp only [if_true]; omega

theorem ProbsOk_set_val (ps : Probs) (i v : Nat) (h : ProbsOk ps) (hv : 31 ≤ v ∧ v ≤ 2017) :
    ProbsOk (ps.set i v) := by
  intro j
  have hj := h j
  simp only [Probs.get, Probs.set, Array.getD_eq_getD_getElem?, Array.getElem?_setIfInBounds] at hj ⊢
  by_cases hij : i = j
  · by_cases hlt : i < ps.size
    · simp only [hij, if_true] at hlt ⊢
      simp only [hlt, if_true, Option.getD_some]
      exact hv
    · simp only [hij, if_true] at hlt ⊢
      simp only [hlt, if_false, Option.getD_none]
      unfold PROB_INIT; omega
  · simp only [hij, if_false]
    exact hj

theorem ProbsOk_set (ps : Probs) (i : Nat) (b : Bool) (h : ProbsOk ps) :
    ProbsOk (ps.set i (updProb (ps.get i) b)) :=
  ProbsOk_set_val ps i _ h (updProb_ok _ b (h i))

theorem ProbsOk_replicate (n : Nat) : ProbsOk (Array.replicate n 1024) := by
  intro i
  simp only [Probs.get, Array.getD_eq_getD_getElem?, Array.getElem?_replicate]
  by_cases h : i < n
  · simp only [h, if_true, Option.getD_some]; omega
  · simp only [h, if_false, Option.getD_none]; unfold PROB_INIT; omega

end LzmaVerif.Rc

namespace LzmaVerif
open Rc Rc.Ideal

namespace Prog

theorem encRun_iff_runBits {α : Type} (prog : Prog α) : ∀ (bits : List Bool) (ps : Probs) (e : Enc)
    (a : α) (bs' : List Bool) (ps' : Probs) (e' : Enc),
    prog.encRun bits ps e = some (a, bs', ps', e') → prog.runBits bits = some (a, bs') := by
  induction prog with
  | ret a0 =>
    intro bits ps e a bs' ps' e' h
    simp only [encRun, Option.some.injEq, Prod.mk.injEq] at h
    obtain ⟨rfl, rfl, _, _⟩ := h
    rfl
  | bit i k ih =>
    intro bits ps e a bs' ps' e' h
    cases bits with
    | nil => simp only [encRun] at h; exact absurd h (by simp)
    | cons b bs =>
      simp only [encRun] at h
      simp only [runBits]
      exact ih b _ _ _ _ _ _ _ h
  | direct k ih =>
    intro bits ps e a bs' ps' e' h
    cases bits with
    | nil => simp only [encRun] at h; exact absurd h (by simp)
    | cons b bs =>
      simp only [encRun] at h
      simp only [runBits]
      exact ih b _ _ _ _ _ _ _ h

theorem runBits_encRun {α : Type} (prog : Prog α) : ∀ (bits : List Bool) (ps : Probs) (e : Enc)
    (a : α) (bs' : List Bool),
    prog.runBits bits = some (a, bs') → ∃ ps' e', prog.encRun bits ps e = some (a, bs', ps', e') := by
  induction prog with
  | ret a0 =>
    intro bits ps e a bs' h
    simp only [runBits, Option.some.injEq, Prod.mk.injEq] at h
    obtain ⟨rfl, rfl⟩ := h
    exact ⟨ps, e, rfl⟩
  | bit i k ih =>
    intro bits ps e a bs' h
    cases bits with
    | nil => simp only [runBits] at h; exact absurd h (by simp)
    | cons b bs =>
      simp only [runBits] at h
      simp only [encRun]
      exact ih b _ _ _ _ _ h
  | direct k ih =>
    intro bits ps e a bs' h
    cases bits with
    | nil => simp only [runBits] at h; exact absurd h (by simp)
    | cons b bs =>
      simp only [runBits] at h
      simp only [encRun]
      exact ih b _ _ _ _ _ h

/-- the coding events the encoder performs on `prog` along `bits` -/
def evs {α : Type} : Prog α → List Bool → Probs → List Ev
  | ret _, _, _ => []
  | bit i k, b :: bs, ps =>
    .bit (ps.get i) b :: evs (k b) bs (ps.set i (updProb (ps.get i) b))
  | direct k, b :: bs, ps => .direct b :: evs (k b) bs ps
  | bit _ _, [], _ => []
  | direct _, [], _ => []

theorem evs_ok {α : Type} (prog : Prog α) : ∀ (bits : List Bool) (ps : Probs),
    ProbsOk ps → ∀ e ∈ prog.evs bits ps, EvOk e := by
  induction prog with
  | ret a0 => intro bits ps _ e he; simp only [evs] at he; exact absurd he (by simp)
  | bit i k ih =>
    intro bits ps hps e he
    cases bits with
    | nil => simp only [evs] at he; exact absurd he (by simp)
    | cons b bs =>
      simp only [evs, List.mem_cons] at he
      rcases he with rfl | he
      · exact hps i
      · exact ih b bs _ (ProbsOk_set ps i b hps) e he
  | direct k ih =>
    intro bits ps hps e he
    cases bits with
    | nil => simp only [evs] at he; exact absurd he (by simp)
    | cons b bs =>
      simp only [evs, List.mem_cons] at he
      rcases he with rfl | he
      · trivial
      · exact ih b bs _ hps e he

end Prog

namespace Rc

/-- the real encoder follows the ideal encoder along a program -/
theorem enc_abs {α : Type} (prog : Prog α) : ∀ (bits : List Bool) (ps : Probs) (e : Enc) (c : St)
    (a : α) (bs' : List Bool) (ps' : Probs) (e' : Enc),
    prog.encRun bits ps e = some (a, bs', ps', e') → ProbsOk ps → Abs e c → ROk c →
    Abs e' (run c (prog.evs bits ps)) ∧ ROk (run c (prog.evs bits ps)) := by
  induction prog with
  | ret a0 =>
    intro bits ps e c a bs' ps' e' h _ habs hc
    simp only [Prog.encRun, Option.some.injEq, Prod.mk.injEq] at h
    obtain ⟨_, _, _, rfl⟩ := h
    exact ⟨habs, hc⟩
  | bit i k ih =>
    intro bits ps e c a bs' ps' e' h hps habs hc
    cases bits with
    | nil => simp only [Prog.encRun] at h; exact absurd h (by simp)
    | cons b bs =>
      simp only [Prog.encRun] at h
      simp only [Prog.evs, run]
      have he : EvOk (.bit (ps.get i) b) := hps i
      refine ih b bs _ _ _ _ _ _ _ h (ProbsOk_set ps i b hps) ?_ (step_ROk c _ hc he)
      rw [encodeBitP_eq]
      exact abs_step e c _ habs hc he
  | direct k ih =>
    intro bits ps e c a bs' ps' e' h hps habs hc
    cases bits with
    | nil => simp only [Prog.encRun] at h; exact absurd h (by simp)
    | cons b bs =>
      simp only [Prog.encRun] at h
      simp only [Prog.evs, run]
      have he : EvOk (.direct b) := trivial
      refine ih b bs _ _ _ _ _ _ _ h hps ?_ (step_ROk c _ hc he)
      rw [encodeDirect1_eq]
      exact abs_step e c _ habs hc he

theorem code_lt_of_nested (F K : Nat) (c : St) (d : Ideal.Dec) (hsim : Sim F K c d)
    (hlo : c.L * 256 ^ (K - c.k) ≤ F) (hhi : F < (c.L + c.R) * 256 ^ (K - c.k)) :
    d.code < d.range := by
  obtain ⟨sr, _, _, sc⟩ := hsim
  have hM : 0 < 256 ^ (K - c.k) := Nat.pow_pos (by decide)
  obtain ⟨fl, fh⟩ := floor_between F _ _ _ hM hlo hhi
  omega

/-- facts about an in-step decoder before an event: code < range, and a byte is available
    whenever a normalisation is due -/
theorem sim_pre (F K : Nat) (c : St) (d : Ideal.Dec) (es : List Ev) (hc : PreOk c)
    (hall : ∀ e ∈ es, EvOk e) (hF : F = (run (norm c) es).L) (hK : K = (run (norm c) es).k)
    (hsim : Sim F K c d) :
    d.code < d.range ∧ (d.range < 2^24 → d.k < K) ∧ (norm c).k ≤ K := by
  obtain ⟨nk, nlo, nhi⟩ := pre_nested c es hc hall
  rw [← hK] at nk nlo nhi
  rw [← hF] at nlo nhi
  obtain ⟨rk, _, _⟩ := run_nested es (norm c) (norm_ROk c hc) hall
  rw [← hK] at rk
  refine ⟨code_lt_of_nested F K c d hsim nlo nhi, ?_, rk⟩
  intro hlt
  obtain ⟨sr, sk, _, _⟩ := hsim
  rcases norm_cases c with ⟨_, hn⟩ | ⟨hge, _⟩
  · rw [hn] at rk; simp only at rk; omega
  · omega

/-- the same after the decoder's normalisation -/
theorem sim_post (F K : Nat) (s : St) (d : Ideal.Dec) (es : List Ev) (hs : ROk s)
    (hall : ∀ e ∈ es, EvOk e) (hF : F = (run s es).L) (hK : K = (run s es).k)
    (hsim : Sim F K s d) :
    d.code < d.range ∧ d.range < 2^32 := by
  obtain ⟨nk, nlo, nhi⟩ := run_nested es s hs hall
  rw [← hK] at nk nlo nhi
  rw [← hF] at nlo nhi
  refine ⟨code_lt_of_nested F K s d hsim nlo nhi, ?_⟩
  obtain ⟨sr, _, _, _⟩ := hsim
  obtain ⟨_, h2⟩ := hs
  omega

/-- **Simulation along a program**: the real decoder, in step with the ideal encoder, retraces the
    encoder's walk. -/
theorem sim_run (bytes rest : List Nat) (K : Nat) (hlen : bytes.length = K + 5)
    (hb : ∀ x ∈ bytes, x < 256) {α : Type} (prog : Prog α) :
    ∀ (bits : List Bool) (ps : Probs) (e : Enc) (c : St) (di : Ideal.Dec) (dr : Rc.Dec)
      (a : α) (bs' : List Bool) (ps' : Probs) (e' : Enc),
    prog.encRun bits ps e = some (a, bs', ps', e') → ProbsOk ps → PreOk c →
    num bytes = (run (norm c) (prog.evs bits ps)).L → K = (run (norm c) (prog.evs bits ps)).k →
    Sim (num bytes) K c di → DR bytes rest dr di →
    ∃ d' di' c', prog.decRun ps dr = (a, ps', d') ∧ Sim (num bytes) K c' di' ∧
      DR bytes rest d' di' ∧ PreOk c' ∧ (norm c').k = K ∧ (norm c').L = num bytes := by
  induction prog with
  | ret a0 =>
    intro bits ps e c di dr a bs' ps' e' h _ hc hF hK hsim hdr
    simp only [Prog.encRun, Option.some.injEq, Prod.mk.injEq] at h
    obtain ⟨rfl, _, rfl, _⟩ := h
    simp only [Prog.evs, run] at hF hK
    exact ⟨dr, di, c, rfl, hsim, hdr, hc, hK.symm, hF.symm⟩
  | bit i k ih =>
    intro bits ps e c di dr a bs' ps' e' h hps hc hF hK hsim hdr
    cases bits with
    | nil => simp only [Prog.encRun] at h; exact absurd h (by simp)
    | cons b bs =>
      simp only [Prog.encRun] at h
      simp only [Prog.evs] at hF hK
      have hps2 := ProbsOk_set ps i b hps
      have he : EvOk (.bit (ps.get i) b) := hps i
      have hall := Prog.evs_ok (k b) bs _ hps2
      have hall' : ∀ e ∈ Ev.bit (ps.get i) b :: (k b).evs bs (ps.set i (updProb (ps.get i) b)),
          EvOk e := by
        intro e' he'
        rcases List.mem_cons.mp he' with rfl | h'
        · exact he
        · exact hall _ h'
      obtain ⟨hcl, hkl, _⟩ := sim_pre _ K c di _ hc hall' hF hK hsim
      obtain ⟨hbit, hsim2⟩ := dstep_sim c di _ _ hc he hall _ K hF hK hsim
      obtain ⟨hb1, hdr2⟩ := decodeBitP_dr bytes rest K hlen hb dr di hdr hcl hkl (ps.get i) b
      simp only [evBit] at hbit
      rw [hbit] at hb1
      have hpre2 : PreOk (core (norm c) (.bit (ps.get i) b)) :=
        core_R_pos (norm c) _ (norm_ROk c hc) he
      rcases hdb : dr.decodeBitP (ps.get i) with ⟨b', d2⟩
      rw [hdb] at hb1 hdr2
      simp only at hb1 hdr2
      subst hb1
      rw [Prog.decRun_bit_eq i k ps dr b' d2 hdb]
      exact ih b' bs _ _ _ _ _ _ _ _ _ h hps2 hpre2 hF hK hsim2 hdr2
  | direct k ih =>
    intro bits ps e c di dr a bs' ps' e' h hps hc hF hK hsim hdr
    cases bits with
    | nil => simp only [Prog.encRun] at h; exact absurd h (by simp)
    | cons b bs =>
      simp only [Prog.encRun] at h
      simp only [Prog.evs] at hF hK
      have he : EvOk (.direct b) := trivial
      have hall := Prog.evs_ok (k b) bs _ hps
      have hall' : ∀ e ∈ Ev.direct b :: (k b).evs bs ps, EvOk e := by
        intro e' he'
        rcases List.mem_cons.mp he' with rfl | h'
        · exact he
        · exact hall _ h'
      obtain ⟨hcl, hkl, hnk⟩ := sim_pre _ K c di _ hc hall' hF hK hsim
      obtain ⟨hbit, hsim2⟩ := dstep_sim c di _ _ hc he hall _ K hF hK hsim
      have hsimn := dnorm_sim (num bytes) K c di hsim hnk
      obtain ⟨hc1, hr1⟩ := sim_post _ K (norm c) _ _ (norm_ROk c hc) hall' hF hK hsimn
      obtain ⟨hb1, hdr2⟩ := decodeDirect1_dr bytes rest K hlen hb dr di hdr hcl hkl b hc1 hr1
      simp only [evBit] at hbit
      rw [hbit] at hb1
      have hpre2 : PreOk (core (norm c) (.direct b)) :=
        core_R_pos (norm c) _ (norm_ROk c hc) he
      rcases hdb : dr.decodeDirect1 with ⟨b', d2⟩
      rw [hdb] at hb1 hdr2
      simp only at hb1 hdr2
      subst hb1
      rw [Prog.decRun_direct_eq k ps dr b' d2 hdb]
      exact ih b' bs _ _ _ _ _ _ _ _ _ h hps hpre2 hF hK hsim2 hdr2

theorem norm_st0 : norm st0 = st0 := by
  rcases norm_cases st0 with ⟨h, _⟩ | ⟨_, h⟩
  · exfalso; simp only [st0] at h; omega
  · exact h

/-- **Range coder round trip, for every decision program** (general form: unused bits `bs'`
    may remain). -/
theorem rc_roundtrip' {α : Type} (prog : Prog α) (bits : List Bool) (ps : Probs) (hps : ProbsOk ps)
    (a : α) (bs' : List Bool) (ps' : Probs) (e' : Enc)
    (henc : prog.encRun bits ps Enc.init = some (a, bs', ps', e')) (rest : List Nat) :
    ∃ d0 d', Dec.init (e'.bytes ++ rest) = some d0 ∧
      prog.decRun ps d0 = (a, ps', d') ∧
      d'.normalize.inp = rest ∧ d'.normalize.over = 0 ∧ d'.over = 0 ∧
      e'.bytes.head? = some 0 ∧ (∀ b ∈ e'.bytes, b < 256) ∧
      e'.bytes.length = e'.pendingSize ∧ 5 ≤ e'.bytes.length := by
  have hall := Prog.evs_ok prog bits ps hps
  obtain ⟨habs, hT⟩ := enc_abs prog bits ps Enc.init st0 a bs' ps' e' henc hps abs_init st0_ROk
  obtain ⟨fb, fl, fn⟩ := finish_spec e' _ habs hT
  obtain ⟨nk, nlo, nhi⟩ := run_nested (prog.evs bits ps) st0 st0_ROk hall
  generalize hTdef : run st0 (prog.evs bits ps) = T at *
  have hbytes : ∀ x ∈ e'.bytes, x < 256 := fun x hx => fb x (List.mem_reverse.mp hx)
  have hlen : e'.bytes.length = T.k + 5 := by unfold Enc.bytes; rw [List.length_reverse]; exact fl
  have hnum : num e'.bytes = T.L := fn
  have hpend : e'.bytes.length = e'.pendingSize := by
    rw [hlen]; unfold Enc.pendingSize; have := habs.k; omega
  -- first byte is zero: F < 256^(K+4)
  have hF4 : num e'.bytes < 256 ^ (T.k + 4) := by
    rw [hnum]
    simp only [st0, Nat.sub_zero, Nat.zero_add] at nhi
    have h1 : 4294967295 * 256 ^ T.k ≤ 256 ^ 4 * 256 ^ T.k := Nat.mul_le_mul_right _ (by decide)
    have h2 : 256 ^ (T.k + 4) = 256 ^ 4 * 256 ^ T.k := by rw [pow_add]; ring
    rw [h2]
    exact Nat.lt_of_lt_of_le nhi h1
  obtain ⟨d0, hinit, d0r, d0c, d0i, d0o, hhead⟩ := init_spec e'.bytes rest T.k hlen hbytes hF4
  -- initial simulation
  have hsim0 : Sim (num e'.bytes) T.k st0 { range := 0xFFFFFFFF, code := num e'.bytes / 256 ^ T.k, k := 0 } :=
    ⟨rfl, rfl, Nat.zero_le _, rfl⟩
  have hdr0 : DR e'.bytes rest d0 { range := 0xFFFFFFFF, code := num e'.bytes / 256 ^ T.k, k := 0 } :=
    ⟨d0r, d0c, d0i, d0o⟩
  have hF : num e'.bytes = (run (norm st0) (prog.evs bits ps)).L := by rw [norm_st0, hTdef, hnum]
  have hK : T.k = (run (norm st0) (prog.evs bits ps)).k := by rw [norm_st0, hTdef]
  obtain ⟨d', di', c', hdec, hsim', hdr', hpre', hk', hL'⟩ :=
    sim_run e'.bytes rest T.k hlen hbytes prog bits ps Enc.init st0 _ d0 a bs' ps' e' henc hps
      ⟨by simp only [st0]; omega, by simp only [st0]; omega⟩ hF hK hsim0 hdr0
  -- final normalisation
  have hF' : num e'.bytes = (run (norm c') []).L := by simp only [run]; exact hL'.symm
  have hK' : T.k = (run (norm c') []).k := by simp only [run]; exact hk'.symm
  obtain ⟨hcl, hkl, hnk⟩ := sim_pre _ T.k c' di' [] hpre' (by intro e he; exact absurd he (by simp)) hF' hK' hsim'
  have hdrn := normalize_dr e'.bytes rest T.k hlen hbytes d' di' hdr' hcl hkl
  have hsimn := dnorm_sim _ T.k c' di' hsim' hnk
  obtain ⟨_, skn, _, _⟩ := hsimn
  refine ⟨d0, d', hinit, hdec, ?_, hdrn.over, hdr'.over, hhead, hbytes, hpend, by omega⟩
  rw [hdrn.inp, skn, hk']
  exact List.drop_left' (by omega)

/-- **Range coder round trip, for every decision program.** -/
theorem rc_roundtrip {α : Type} (prog : Prog α) (bits : List Bool) (ps : Probs) (hps : ProbsOk ps)
    (a : α) (ps' : Probs) (e' : Enc)
    (henc : prog.encRun bits ps Enc.init = some (a, [], ps', e')) (rest : List Nat) :
    ∃ d0 d', Dec.init (e'.bytes ++ rest) = some d0 ∧
      prog.decRun ps d0 = (a, ps', d') ∧
      d'.normalize.inp = rest ∧ d'.normalize.over = 0 ∧ d'.over = 0 ∧
      e'.bytes.head? = some 0 ∧ (∀ b ∈ e'.bytes, b < 256) ∧
      e'.bytes.length = e'.pendingSize ∧ 5 ≤ e'.bytes.length :=
  rc_roundtrip' prog bits ps hps a [] ps' e' henc rest

end Rc
end LzmaVerif

/-! ## Non-vacuity: a concrete program with adaptive and direct bits, two encoder
normalisations and a carry in `finish` (final `low ≥ 2^32`: pending cache byte 205 is written as 206) -/
namespace LzmaVerif.Rc.Example
open LzmaVerif LzmaVerif.Rc

/-- `n` rounds of (adaptive bit in slot `n % 2`, then a direct bit) -/
def exProg : Nat → Prog (List Bool)
  | 0 => .ret []
  | n+1 => .bit (n % 2) fun a => .direct fun b => (exProg n).bind fun l => .ret (a :: b :: l)

def exPs : Probs := Array.replicate 2 1024

def exBits : List Bool :=
  [true, true, false, true, true, false, true, true, true, true, true, false, true, true, true,
   true, false, true, true, false]

def exEnc : Enc := { low := 5154008356, range := 299718766, cacheSize := 1, cache := 205, out := [219, 0] }

/-- the hypothesis of `rc_roundtrip` holds for this instance -/
theorem ex_enc : (exProg 10).encRun exBits exPs Enc.init = some (exBits, [], #[931, 937], exEnc) := by
  rfl

theorem ex_bytes : exEnc.bytes = [0, 219, 206, 51, 51, 237, 36] := by rfl

/-- `rc_roundtrip` instantiated: decoding the 7 bytes followed by anything returns the bits and
    the adapted tables, and leaves exactly the trailing bytes. -/
example (rest : List Nat) :
    ∃ d0 d', Dec.init ([0, 219, 206, 51, 51, 237, 36] ++ rest) = some d0 ∧
      (exProg 10).decRun exPs d0 = (exBits, #[931, 937], d') ∧
      d'.normalize.inp = rest ∧ d'.normalize.over = 0 := by
  obtain ⟨d0, d', h1, h2, h3, h4, _⟩ :=
    rc_roundtrip (exProg 10) exBits exPs (ProbsOk_replicate 2) exBits #[931, 937] exEnc ex_enc rest
  rw [ex_bytes] at h1
  exact ⟨d0, d', h1, h2, h3, h4⟩

end LzmaVerif.Rc.Example

#print axioms LzmaVerif.Rc.rc_roundtrip
#print axioms LzmaVerif.Rc.rc_roundtrip'
#print axioms LzmaVerif.Prog.encRun_iff_runBits
#print axioms LzmaVerif.Prog.runBits_encRun
