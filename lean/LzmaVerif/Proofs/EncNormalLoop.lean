/-
  Normal encoder (`Model/EncNormal.lean`): the outer symbol loop.
  * `SymAt` / `ChainOk` – what it means for the symbols handed out by one run of the optimiser to be valid at the
    position and coder state where they are encoded (literal of the data byte, short rep with the byte check,
    long rep that really repeats the data at `reps[i]`, match that is a valid match);
  * `chain_run` – `parseRun` accepts a valid chain and the history stays the prefix of the data;
  * `StepOk` – what one run of the optimiser must guarantee (valid non-empty chain, finder in step, matches kept
    for the next call valid, `opts[]` keeps its size);
  * `loopSpec_valid` – if every step is `StepOk`, the whole parse satisfies `parseRun` and denotes the data.
  The probabilities, price tables and the contents of `opts[]` are universally quantified: they influence WHICH
  parse is chosen, never whether it is valid.
-/
import LzmaVerif.Model.EncNormal
import LzmaVerif.Proofs.EncFastLoop

namespace LzmaVerif.EncNormal
open LzmaVerif Mf Lzma Rc EncFast EncPrices
open LzmaVerif.Mf.Hc4 (Eqs byteAt_lt extendMatch_spec)

/-! ### valid symbols and chains -/

/-- the symbol `s` covering `len` bytes is valid at position `q` with coder state `c` -/
def SymAt (d : Array UInt8) (dict q : Nat) (c : Coder) (s : Sym) (len : Nat) : Prop :=
  (s = .lit (byteAt d q) ∧ len = 1) ∨
  (s = .shortRep ∧ len = 1 ∧ byteAt d q = byteAt d (q - (c.rep0 + 1))) ∨
  (∃ i, s = .rep i len ∧ RepOk d q (min (d.size - q) 273) c len i) ∨
  (∃ dist, s = .mtch dist len ∧ ValidMatch d dict q (min 273 (d.size - q)) (len, dist))

/-- the symbols of one step, encoded one after the other from position `q` and coder state `c` -/
def ChainOk (d : Array UInt8) (dict : Nat) : List (Sym × Nat) → Nat → Coder → Prop
  | [], _, _ => True
  | (s, len) :: rest, q, c =>
    1 ≤ len ∧ q + len ≤ d.size ∧ SymAt d dict q c s len ∧ ChainOk d dict rest (q + len) (c.apply s)

/-- bytes covered by a chain -/
def chainLen : List (Sym × Nat) → Nat
  | [] => 0
  | (_, len) :: rest => len + chainLen rest

/-- coder state after a chain -/
def applyAll (c : Coder) : List (Sym × Nat) → Coder
  | [] => c
  | (s, _) :: rest => applyAll (c.apply s) rest

theorem repsLt_shortRep {c : Coder} {m : Nat} (h : RepsLt c m) : RepsLt (c.apply .shortRep) m := h

theorem parseRun_shortRep (dictBuf : Nat) (rest : List Sym) (c : Coder) (h : Hist)
    (hd : c.rep0 < h.size) (hdb : c.rep0 < dictBuf) :
    parseRun dictBuf (.shortRep :: rest) c h =
      parseRun dictBuf rest (c.apply .shortRep) (h.copy c.rep0 1) := by
  have : SymOk .shortRep ∧ c.rep0 < h.size ∧ c.rep0 < dictBuf := ⟨trivial, hd, hdb⟩
  simp only [parseRun, Sym.copyOf, if_pos this]

/-- `parseRun` accepts a valid chain; afterwards the history is the longer prefix and the reps are still inside -/
theorem chain_run {d : Array UInt8} {dict : Nat} (dictBuf : Nat) (hdb : min dict d.size ≤ dictBuf)
    (h32 : dict ≤ 2 ^ 32) :
    ∀ (syms : List (Sym × Nat)) (q : Nat) (c : Coder) (h : Hist),
      ChainOk d dict syms q c → HistIs d q h → RepsLt c q → RepsLt c dict → q ≤ d.size →
      ∃ h', (∀ rest, parseRun dictBuf (syms.map (·.1) ++ rest) c h = parseRun dictBuf rest (applyAll c syms) h') ∧
        HistIs d (q + chainLen syms) h' ∧ RepsLt (applyAll c syms) (q + chainLen syms) ∧
        RepsLt (applyAll c syms) dict ∧ q + chainLen syms ≤ d.size
  | [], q, c, h, _, hh, hrp, hrd, hq => by
    refine ⟨h, fun rest => ?_, ?_, ?_, ?_, ?_⟩
    · simp only [List.map_nil, List.nil_append, applyAll]
    · simpa only [chainLen, Nat.add_zero] using hh
    · simpa only [chainLen, Nat.add_zero, applyAll] using hrp
    · simpa only [applyAll] using hrd
    · simpa only [chainLen, Nat.add_zero] using hq
  | (s, len) :: syms, q, c, h, hc, hh, hrp, hrd, hq => by
    obtain ⟨hl1, hlle, hsym, hrest⟩ := hc
    -- the common continuation
    have cont : ∀ (h1 : Hist), HistIs d (q + len) h1 → RepsLt (c.apply s) (q + len) → RepsLt (c.apply s) dict →
        (∀ rest, parseRun dictBuf (s :: (syms.map (·.1) ++ rest)) c h =
          parseRun dictBuf (syms.map (·.1) ++ rest) (c.apply s) h1) →
        ∃ h', (∀ rest, parseRun dictBuf (((s, len) :: syms).map (·.1) ++ rest) c h =
            parseRun dictBuf rest (applyAll c ((s, len) :: syms)) h') ∧
          HistIs d (q + chainLen ((s, len) :: syms)) h' ∧
          RepsLt (applyAll c ((s, len) :: syms)) (q + chainLen ((s, len) :: syms)) ∧
          RepsLt (applyAll c ((s, len) :: syms)) dict ∧ q + chainLen ((s, len) :: syms) ≤ d.size := by
      intro h1 hh1 hrp1 hrd1 hstep
      obtain ⟨h', hrun, hh', hrp', hrd', hq'⟩ :=
        chain_run dictBuf hdb h32 syms (q + len) (c.apply s) h1 hrest hh1 hrp1 hrd1 hlle
      refine ⟨h', fun rest => ?_, ?_, ?_, ?_, ?_⟩
      · simp only [List.map_cons, List.cons_append, applyAll]
        rw [hstep rest, hrun rest]
      · simpa only [chainLen, Nat.add_assoc] using hh'
      · simpa only [chainLen, Nat.add_assoc, applyAll] using hrp'
      · simpa only [applyAll] using hrd'
      · simpa only [chainLen, Nat.add_assoc] using hq'
    rcases hsym with ⟨hlit, hlen⟩ | ⟨hsr, hlen, hbyte⟩ | ⟨i, hrep, hok⟩ | ⟨dist, hm, hv⟩
    · -- literal
      subst hlen
      rw [hlit] at cont ⊢
      exact cont _ hh.push ((hrp.lit _).mono (by omega)) (hrd.lit _)
        (fun rest => parseRun_lit dictBuf _ _ _ _ (byteAt_lt d q))
    · -- short rep
      subst hlen
      rw [hsr] at cont ⊢
      have hdp : c.rep0 < q := hrp.1
      have hdd : c.rep0 < dict := hrd.1
      have he : Eqs d q (c.rep0 + 1) 1 := by
        intro i hi
        have : i = 0 := by omega
        subst this
        simpa only [Nat.add_zero] using hbyte
      exact cont _ (HistIs.copy c.rep0 1 q h hh (by omega) he) ((repsLt_shortRep hrp).mono (by omega)) (repsLt_shortRep hrd)
        (fun rest => parseRun_shortRep dictBuf _ c h (by rw [hh.1]; exact hdp) (by omega))
    · -- long rep
      obtain ⟨hi, h2, hl, he⟩ := hok
      rw [hrep] at cont ⊢
      have hdp : c.rep i < q := hrp.rep i
      have hdd : c.rep i < dict := hrd.rep i
      exact cont _ (HistIs.copy (c.rep i) len q h hh (by omega) he) ((hrp.repSym i len).mono (by omega))
        (hrd.repSym i len)
        (fun rest => parseRun_rep dictBuf i len _ c h hi h2 (by omega) (by rw [hh.1]; exact hdp) (by omega))
    · -- match
      obtain ⟨h2, hl, _, hdp, hdd, he⟩ := hv
      simp only at h2 hl hdp hdd he
      rw [hm] at cont ⊢
      exact cont _ (HistIs.copy dist len q h hh hdp he) ((hrp.mtch dist len (by omega)).mono (by omega))
        (hrd.mtch dist len (by omega))
        (fun rest => parseRun_mtch dictBuf dist len _ c h h2 (by omega) (by omega) (by rw [hh.1]; omega) (by omega))

/-! ### `encodeSyms` -/

theorem encodeSyms_spec (pr : Params) (d : Array UInt8) :
    ∀ (syms : List (Sym × Nat)) (q : Nat) (c : Coder) (ps : Probs) (pt : PriceSt) (acc : List Sym),
      (encodeSyms pr d syms q c ps pt acc).1 = q + chainLen syms ∧
      (encodeSyms pr d syms q c ps pt acc).2.1 = applyAll c syms ∧
      (encodeSyms pr d syms q c ps pt acc).2.2.2.2 = (syms.map (·.1)).reverse ++ acc ∧
      (encodeSyms pr d syms q c ps pt acc).2.2.1 = (encodeSyms pr d syms q c ps pt []).2.2.1 ∧
      (encodeSyms pr d syms q c ps pt acc).2.2.2.1 = (encodeSyms pr d syms q c ps pt []).2.2.2.1
  | [], q, c, ps, pt, acc => by
    simp only [encodeSyms, chainLen, applyAll, Nat.add_zero, List.map_nil, List.reverse_nil, List.nil_append,
      and_self]
  | (s, len) :: syms, q, c, ps, pt, acc => by
    have ih := encodeSyms_spec pr d syms (q + len) (encodeSym pr d q c ps pt s).1 (encodeSym pr d q c ps pt s).2.1
      (encodeSym pr d q c ps pt s).2.2
    have hc : (encodeSym pr d q c ps pt s).1 = c.apply s := rfl
    simp only [encodeSyms, chainLen, applyAll, List.map_cons, List.reverse_cons, List.append_assoc,
      List.singleton_append]
    obtain ⟨a1, a2, a3, a4, a5⟩ := ih (s :: acc)
    obtain ⟨_, _, _, b4, b5⟩ := ih [s]
    refine ⟨by rw [a1]; omega, by rw [a2, hc], a3, by rw [a4, b4], by rw [a5, b5]⟩

/-! ### the loop without accumulator -/

/-- `loop` as a plain recursion -/
def loopSpec {σ : Type} (F : Finder σ) (P : NormalParams) (pr : Params) (nice : Nat) (d : Array UInt8) :
    (fuel : Nat) → (p : Nat) → Coder → Probs → PriceSt → Opts → σ → List Match → (ra : Nat) → List Sym
  | 0, _, _, _, _, _, _, _, _ => []
  | fuel + 1, p, c, ps, pt, opts, mf, ms, ra =>
    if p < d.size then
      let fm := if ra = 0 then F.find d mf else (ms, mf)
      let st := nextCore F { P := P, pr := pr, nice := nice, d := d, ps := ps, pt := pt } p c opts fm.2 fm.1
      let r := encodeSyms pr d st.syms p c ps st.pt []
      st.syms.map (·.1) ++ loopSpec F P pr nice d fuel r.1 r.2.1 r.2.2.1 r.2.2.2.1 st.opts st.mf st.ms st.ra
    else []

theorem loop_eq {σ : Type} (F : Finder σ) (P : NormalParams) (pr : Params) (nice : Nat) (d : Array UInt8) :
    ∀ (fuel p : Nat) (c : Coder) (ps : Probs) (pt : PriceSt) (opts : Opts) (mf : σ) (ms : List Match) (ra : Nat)
      (acc : List Sym),
      loop F P pr nice d fuel p c ps pt opts mf ms ra acc =
        acc.reverse ++ loopSpec F P pr nice d fuel p c ps pt opts mf ms ra
  | 0, p, c, ps, pt, opts, mf, ms, ra, acc => by simp only [loop, loopSpec, List.append_nil]
  | fuel + 1, p, c, ps, pt, opts, mf, ms, ra, acc => by
    simp only [loop, loopSpec]
    split
    · generalize hst : nextCore F { P := P, pr := pr, nice := nice, d := d, ps := ps, pt := pt } p c opts
        (if ra = 0 then F.find d mf else (ms, mf)).2 (if ra = 0 then F.find d mf else (ms, mf)).1 = st
      obtain ⟨a1, a2, a3, a4, a5⟩ := encodeSyms_spec pr d st.syms p c ps st.pt acc
      obtain ⟨b1, b2, _, _, _⟩ := encodeSyms_spec pr d st.syms p c ps st.pt []
      rw [loop_eq F P pr nice d fuel, a1, a2, a3, a4, a5, b1, b2]
      simp only [List.reverse_append, List.reverse_reverse, List.append_assoc]
    · simp only [List.append_nil]

theorem normalParse_eq {σ : Type} (F : Finder σ) (P : NormalParams) (pr : Params) (dict nice : Nat)
    (d : Array UInt8) :
    normalParse F P pr dict nice d =
      if d.size = 0 then []
      else
        let s0 : Sym := .lit (byteAt d 0)
        let ps0 : Probs := Array.replicate (numProbs pr.lc pr.lp) PROB_INIT
        let r := encodeSym pr d 0 Coder.init ps0 (PriceSt.init pr.pb dict nice) s0
        s0 :: loopSpec F P pr nice d d.size 1 r.1 r.2.1 r.2.2 (Array.replicate P.opts {}) (F.skip d 1 F.init) [] 0 := by
  unfold normalParse
  split
  · rfl
  · simp only [loop_eq, List.reverse_cons, List.reverse_nil, List.nil_append, List.singleton_append]

/-! ### what a step must guarantee -/

/-- what one run of the optimiser guarantees (position `p`, coder `c` before; `n` = size of `opts[]`) -/
structure StepOk {σ : Type} {F : Finder σ} {d : Array UInt8} {dict : Nat}
    (FS : FinderSound F d dict 273) (n p : Nat) (c : Coder) (st : Step σ) : Prop where
  progress : 1 ≤ chainLen st.syms
  chain : ChainOk d dict st.syms p c
  optsSize : st.opts.size = n
  mfR : FS.R st.mf
  mfPos : FS.pos st.mf = p + chainLen st.syms + st.ra
  ra : st.ra = 0 ∨ (st.ra = 1 ∧ (∀ m ∈ st.ms,
        ValidMatch d dict (p + chainLen st.syms) (min 273 (d.size - (p + chainLen st.syms))) m) ∧
        lensIncreasing st.ms = true)

/-- the hypothesis of the loop theorem: every call of `nextCore` in a consistent situation is `StepOk` -/
def StepsOk {σ : Type} {F : Finder σ} {d : Array UInt8} {dict : Nat} (FS : FinderSound F d dict 273)
    (P : NormalParams) (pr : Params) (nice : Nat) : Prop :=
  ∀ (ps : Probs) (pt : PriceSt) (p : Nat) (c : Coder) (opts : Opts) (mf : σ) (ms : List Match),
    p < d.size → opts.size = P.opts → RepsLt c p → RepsLt c dict → FS.R mf → FS.pos mf = p + 1 →
    (∀ m ∈ ms, ValidMatch d dict p (min 273 (d.size - p)) m) → lensIncreasing ms = true →
    StepOk FS P.opts p c (nextCore F { P := P, pr := pr, nice := nice, d := d, ps := ps, pt := pt } p c opts mf ms)

theorem loopSpec_valid {σ : Type} {F : Finder σ} {d : Array UInt8} {dict : Nat}
    (FS : FinderSound F d dict 273) (hFinc : ∀ s, FS.R s → lensIncreasing (F.find d s).1 = true) (P : NormalParams) (pr : Params) (nice dictBuf : Nat)
    (hdb : min dict d.size ≤ dictBuf) (h32 : dict ≤ 2 ^ 32) (hS : StepsOk FS P pr nice) :
    ∀ (fuel p : Nat) (c : Coder) (ps : Probs) (pt : PriceSt) (opts : Opts) (mf : σ) (ms : List Match) (ra : Nat)
      (h : Hist),
      d.size - p ≤ fuel → p ≤ d.size → HistIs d p h → RepsLt c p → RepsLt c dict → opts.size = P.opts →
      FS.R mf → FS.pos mf = p + ra →
      (ra = 0 ∨ (ra = 1 ∧ (∀ m ∈ ms, ValidMatch d dict p (min 273 (d.size - p)) m) ∧ lensIncreasing ms = true)) →
      ∃ c' h', parseRun dictBuf (loopSpec F P pr nice d fuel p c ps pt opts mf ms ra) c h = some (c', h') ∧
        HistIs d d.size h'
  | 0, p, c, ps, pt, opts, mf, ms, ra, h, hf, hple, hh, _, _, _, _, _, _ => by
    have : p = d.size := by omega
    subst this
    exact ⟨c, h, by simp only [loopSpec, parseRun], hh⟩
  | fuel + 1, p, c, ps, pt, opts, mf, ms, ra, h, hf, hple, hh, hrp, hrd, hos, hR, hpos, hra => by
    simp only [loopSpec]
    split
    · next hp =>
      -- the finder has consumed position `p` and its matches are valid
      have hfm : FS.R (if ra = 0 then F.find d mf else (ms, mf)).2 ∧
          FS.pos (if ra = 0 then F.find d mf else (ms, mf)).2 = p + 1 ∧
          (∀ m ∈ (if ra = 0 then F.find d mf else (ms, mf)).1, ValidMatch d dict p (min 273 (d.size - p)) m) ∧
          lensIncreasing (if ra = 0 then F.find d mf else (ms, mf)).1 = true := by
        rcases hra with h0 | ⟨h1, hms, hinc⟩
        · subst h0
          simp only [if_true]
          have hv := FS.find_valid _ hR
          have hp2 := FS.find_pos _ hR
          rw [hpos] at hv hp2
          exact ⟨FS.find_R _ hR, hp2, hv, hFinc _ hR⟩
        · subst h1
          simp only [Nat.succ_ne_zero, if_false]
          exact ⟨hR, hpos, hms, hinc⟩
      obtain ⟨hR1, hpos1, hms1, hinc1⟩ := hfm
      have hs := hS ps pt p c opts _ _ hp hos hrp hrd hR1 hpos1 hms1 hinc1
      generalize nextCore F { P := P, pr := pr, nice := nice, d := d, ps := ps, pt := pt } p c opts
        (if ra = 0 then F.find d mf else (ms, mf)).2 (if ra = 0 then F.find d mf else (ms, mf)).1 = st at hs
      obtain ⟨hprog, hchain, hsz, hmR, hmPos, hmRa⟩ := hs
      obtain ⟨e1, e2, _, _, _⟩ := encodeSyms_spec pr d st.syms p c ps st.pt []
      obtain ⟨h1, hrun, hh1, hrp1, hrd1, hq1⟩ := chain_run dictBuf hdb h32 st.syms p c h hchain hh hrp hrd hple
      rw [hrun, e1, e2]
      exact loopSpec_valid FS hFinc P pr nice dictBuf hdb h32 hS fuel (p + chainLen st.syms) _ _ _ st.opts st.mf st.ms
        st.ra h1 (by omega) hq1 hh1 hrp1 hrd1 hsz hmR hmPos hmRa
    · next hp =>
      have : p = d.size := by omega
      subst this
      exact ⟨c, h, by simp only [parseRun], hh⟩

/-- **generic, conditional on the steps**: with a sound match finder and valid steps the normal encoder's parse is
    valid and denotes the data -/
theorem normalParse_valid_of_steps {σ : Type} {F : Finder σ} {d : Array UInt8} {dict : Nat}
    (FS : FinderSound F d dict 273) (hFinc : ∀ s, FS.R s → lensIncreasing (F.find d s).1 = true) (P : NormalParams) (pr : Params) (dictOpt nice dictBuf : Nat)
    (hd1 : 1 ≤ dict) (hdb : min dict d.size ≤ dictBuf) (h32 : dict ≤ 2 ^ 32) (hS : StepsOk FS P pr nice) :
    ∃ c' h', parseRun dictBuf (normalParse F P pr dictOpt nice d) Coder.init (#[] : Hist) = some (c', h') ∧
      h' = d.map (fun b => b.toNat) := by
  rw [normalParse_eq]
  split
  · next h0 =>
    refine ⟨Coder.init, #[], by simp only [parseRun], ?_⟩
    have : HistIs d d.size (#[] : Hist) := by rw [h0]; exact HistIs.empty d
    exact this.eq_map
  · next h0 =>
    simp only
    rw [parseRun_lit dictBuf _ _ _ _ (byteAt_lt d 0)]
    have hh : HistIs d (0 + 1) ((#[] : Hist).push (byteAt d 0)) := (HistIs.empty d).push
    obtain ⟨c', h', hp, hh'⟩ := loopSpec_valid FS hFinc P pr nice dictBuf hdb h32 hS d.size 1
      (Coder.init.apply (.lit (byteAt d 0))) _ _ (Array.replicate P.opts {}) (F.skip d 1 F.init) [] 0 _
      (by omega) (by omega) hh
      (RepsLt.init_lit _ 1 (Nat.le_refl 1)) (RepsLt.init_lit _ dict hd1) Array.size_replicate
      (FS.skip_R _ _ FS.init_R) (by rw [FS.skip_pos _ _ FS.init_R, FS.init_pos]) (Or.inl rfl)
    exact ⟨c', h', hp, hh'.eq_map⟩

end LzmaVerif.EncNormal
