import LzmaVerif.Proofs.TruncRc
import LzmaVerif.Proofs.TruncLzma
import LzmaVerif.Proofs.TruncLzip
import LzmaVerif.Proofs.TruncXz
import LzmaVerif.Proofs.TruncLzma2
import LzmaVerif.Proofs.Xz
/-!
# C05 — a truncated stream is never accepted (theorems about the models)

Level 1 (`Proofs/TruncRc.lean`)   range decoder monotonicity: `Rc.normalize_ext`, `Rc.decodeBitP_ext`,
                                  `Rc.decodeDirect1_ext`, `Prog.decRun_extBy`, `Prog.decRun_ext`,
                                  `Prog.decRun_over_le`, `Prog.decRun_inp_suffix`
Level 2 (`Proofs/TruncLzma.lean`) raw LZMA: `Lzma.decRun_trunc`, `Lzma.rc_trunc` (every decision program),
                                  `Lzma.decodeRaw_trunc` (decoder only: accepted with `c` bytes consumed ⇒ every prefix
                                  shorter than `c` is `UnexpectedEof`), `C05.lzma_trunc_size`, `C05.lzma_trunc_marker`
Level 3 (`Proofs/TruncLzip.lean`) LZIP: `LzipFile.lzip_trunc` (error unless cut exactly on a member boundary),
                                  `lzip_trunc_not_full`, `lzip_trunc_inside`,
                                  `lzip_trunc_single`; `payloadTrunc_of_payloadOk` (no extra codec hypothesis needed)
Level 4 (`Proofs/TruncXz.lean`)   XZ single stream: `Xz.xz_trunc`, `xz_trunc_not_ok`, `xz_trunc_blocks` (below) with the
                                  codec hypothesis `Xz.PayloadTrunc` (satisfiable: `payloadTrunc_stored`)
LZMA2 (`Proofs/TruncLzma2.lean`)  `Lzma2.chunkLoop_ext`, `Lzma2.decode_trunc` (decoder only), `Lzma2.lzma2_trunc`,
                                  `payloadTrunc_of_chunksOk`, `payloadTrunc_of_payloadOk`: `PayloadTrunc` is DERIVED
                                  from `PayloadOk`, hence `Xz.xz_trunc_ok`, `xz_trunc_blocks_ok`, `xz_trunc_chunks`
                                  (below) need no truncation hypothesis at all
-/
namespace LzmaVerif.Xz
open LzmaVerif Lzma Checks

/-- **Truncated XZ stream**, in the user-level form of `xz_roundtrip_blocks`. -/
theorem xz_trunc_blocks (c : Check) (fs : List Filter) (hfs : FiltersOk fs)
    (blocks : List (List Nat × List Nat))
    (hb : ∀ b ∈ blocks, PayloadOk (readerDict fs) b.1 (applyFilters fs b.2) ∧ unfilter fs (applyFilters fs b.2) = b.2)
    (ht : ∀ b ∈ blocks, PayloadTrunc (readerDict fs) b.1)
    (hsz : SizesOk c fs blocks) (cap : Nat) (hcap : ((blocks.map (·.2)).flatten).length ≤ cap)
    (k : Nat) (hk : k < (streamBytes c fs blocks).length) :
    (∃ e, Xz.decode false ((streamBytes c fs blocks).take k) cap = .err e) ∨
    Xz.decode false ((streamBytes c fs blocks).take k) cap = .capped :=
  xz_trunc ⟨c, fs, blocks⟩ ⟨Strm.ok_of c fs blocks hfs hb hsz, ht⟩ cap hcap k hk

/-- **A truncated XZ stream is never accepted — no codec truncation hypothesis.**  For a single well-formed stream
    (`Strm.Ok`, exactly the hypothesis of the round-trip theorems) every proper prefix is rejected. -/
theorem xz_trunc_ok (s : Strm) (hs : s.Ok) (cap : Nat) (hcap : s.data.length ≤ cap) (k : Nat)
    (hk : k < s.bytes.length) :
    (∃ e, Xz.decode false (s.bytes.take k) cap = .err e) ∨ Xz.decode false (s.bytes.take k) cap = .capped :=
  xz_trunc s ⟨hs, fun b hb => Lzma2.payloadTrunc_of_payloadOk (hs.2.1 b hb).1⟩ cap hcap k hk

/-- the same in the user-level form of `xz_roundtrip_blocks` (identical hypotheses) -/
theorem xz_trunc_blocks_ok (c : Check) (fs : List Filter) (hfs : FiltersOk fs)
    (blocks : List (List Nat × List Nat))
    (hb : ∀ b ∈ blocks, PayloadOk (readerDict fs) b.1 (applyFilters fs b.2) ∧ unfilter fs (applyFilters fs b.2) = b.2)
    (hsz : SizesOk c fs blocks) (cap : Nat) (hcap : ((blocks.map (·.2)).flatten).length ≤ cap)
    (k : Nat) (hk : k < (streamBytes c fs blocks).length) :
    (∃ e, Xz.decode false ((streamBytes c fs blocks).take k) cap = .err e) ∨
    Xz.decode false ((streamBytes c fs blocks).take k) cap = .capped :=
  xz_trunc_blocks c fs hfs blocks hb (fun b hbm => Lzma2.payloadTrunc_of_payloadOk (hb b hbm).1) hsz cap hcap k hk

/-- … and with the payloads given as writer-model LZMA2 streams of valid event sequences (`ChunksOk`, the hypothesis
    of `lzma2_roundtrip`): nothing about the codec is assumed -/
theorem xz_trunc_chunks (c : Check) (fs : List Filter) (hfs : FiltersOk fs)
    (blocks : List (List Nat × List Nat))
    (hb : ∀ b ∈ blocks, unfilter fs (applyFilters fs b.2) = b.2 ∧
      ∃ pb chunks, pb ≤ 224 ∧ (paramsOfProps pb).lc + (paramsOfProps pb).lp ≤ 4 ∧
        Lzma2.ChunksOk pb chunks (Lzma2.initW (readerDict fs) #[] pb) (applyFilters fs b.2) ∧
        Lzma2.encodeChunks pb chunks (Lzma2.initW (readerDict fs) #[] pb) [] = some b.1)
    (hsz : SizesOk c fs blocks) (cap : Nat) (hcap : ((blocks.map (·.2)).flatten).length ≤ cap)
    (k : Nat) (hk : k < (streamBytes c fs blocks).length) :
    (∃ e, Xz.decode false ((streamBytes c fs blocks).take k) cap = .err e) ∨
    Xz.decode false ((streamBytes c fs blocks).take k) cap = .capped := by
  refine xz_trunc_blocks_ok c fs hfs blocks ?_ hsz cap hcap k hk
  intro b hbm
  obtain ⟨hu, pb, chunks, hpb, hlclp, hok, henc⟩ := hb b hbm
  exact ⟨Lzma2.payloadOk_of_chunksOk _ pb hpb hlclp chunks _ _ hok henc, hu⟩

end LzmaVerif.Xz

/-! ## Non-vacuity -/
namespace LzmaVerif.Props.C05.Examples
open LzmaVerif Lzma Rc

/-! ### Level 1 -/

/-- related states exist … -/
example : Ext ⟨0xFFFF, 5, [], 0⟩ ⟨0xFFFF, 5, [7, 9], 0⟩ := ⟨rfl, rfl, rfl, rfl, [7, 9], rfl⟩

/-- … one `normalize` makes the short side run out (first alternative of `normalize_ext`) … -/
example : (Dec.normalize ⟨0xFFFF, 5, [], 0⟩).over = 1 := by decide

/-- … or keeps the states related with the same surplus (second alternative) -/
example : ExtBy [9] (Dec.normalize ⟨0xFFFF, 5, [7], 0⟩) (Dec.normalize ⟨0xFFFF, 5, [7, 9], 0⟩) := by
  unfold ExtBy; decide

/-- `rc_trunc` instantiated on the concrete program / stream of `Rc.Example` (7 bytes: adaptive and direct bits, a
    carry): every hypothesis is discharged; cutting the last byte makes the decoder run out -/
example : ∃ d0 a ps e, Dec.init [0, 219, 206, 51, 51, 237] = some d0 ∧
    (Rc.Example.exProg 10).decRun Rc.Example.exPs d0 = (a, ps, e) ∧ e.normalize.over > 0 := by
  have h := rc_trunc (Rc.Example.exProg 10) Rc.Example.exBits Rc.Example.exPs (ProbsOk_replicate 2)
    Rc.Example.exBits #[931, 937] Rc.Example.exEnc Rc.Example.ex_enc 6 (by rw [Rc.Example.ex_bytes]; decide)
  rw [Rc.Example.ex_bytes] at h
  rcases h with h | h
  · exact absurd h (by decide)
  · exact h

/-! ### Level 2 -/

def okWith : DecOut → Array Nat → Nat → Bool
  | .ok o c _, o', c' => o == o' && c == c'
  | _, _, _ => false

theorem okWith_spec {o : DecOut} {d : Array Nat} {c : Nat} (h : okWith o d c = true) : ∃ p, o = .ok d c p := by
  cases o with
  | ok d' c' p => simp [okWith] at h; exact ⟨p, by rw [h.1, h.2]⟩
  | err e => cases h
  | capped => cases h

/-- the decoder accepts the 12-byte stream of "Hi" (produced by liblzma; kernel evaluation of the model) … -/
theorem exLzma_decodes : ∃ p, decodeRaw LzipFile.lzipParams 4096 #[] none LzipFile.exLzma 4 = .ok #[72, 105] 12 p :=
  okWith_spec (by decide +kernel)

/-- … hence (`decodeRaw_trunc`) every proper prefix is `UnexpectedEof` … -/
theorem exLzma_trunc (k : Nat) (hk : k < 12) :
    decodeRaw LzipFile.lzipParams 4096 #[] none (LzipFile.exLzma.take k) 4 = .err .eof := by
  obtain ⟨p, h⟩ := exLzma_decodes
  exact decodeRaw_trunc h k hk

/-- `lzma_trunc_size` instantiated with every hypothesis discharged: a five-literal parse, declared size 5 -/
example : ∃ bytes, encodeParse LzipFile.lzipParams 4096 (presetUsedOf #[] 4096) (some 5) 6
      [.lit 72, .lit 105, .lit 72, .lit 105, .lit 33] = some bytes ∧
    ∀ k, k < bytes.length →
      decodeRaw LzipFile.lzipParams 4096 #[] (some 5) (bytes.take k) 100 = .err .eof := by
  have h : (parseRun 4096 [.lit 72, .lit 105, .lit 72, .lit 105, .lit 33] Coder.init (presetUsedOf #[] 4096)).map
      (fun x => x.2.size) = some 5 := by decide +kernel
  cases hp : parseRun 4096 [.lit 72, .lit 105, .lit 72, .lit 105, .lit 33] Coder.init (presetUsedOf #[] 4096) with
  | none => rw [hp] at h; cases h
  | some x =>
    obtain ⟨c', h'⟩ := x
    rw [hp] at h
    simp only [Option.map_some, Option.some.injEq] at h
    have h0 : (presetUsedOf #[] 4096).size = 0 := by decide
    obtain ⟨bytes, h1, _, h3⟩ := lzma_trunc_size LzipFile.lzipParams 4096 #[] _ 5 c' h' hp (by rw [h0]; simpa using h) 100
    exact ⟨bytes, h1, h3⟩

/-! ### Level 3 -/
section Lzip
open LzipFile

def twoMembers : List (Nat × List Nat × List Nat) := [(12, exLzma, [72, 105]), (12, exLzma, [72, 105])]

theorem twoMembers_ok (h : PayloadOk 4096 exLzma [72, 105]) : ∀ m ∈ twoMembers, MemberOk m := by
  intro m hmem
  simp only [twoMembers, List.mem_cons, List.not_mem_nil, or_false, or_self] at hmem
  subst hmem
  exact ⟨4096, by decide, by rw [show lzmaReaderDictBuf 4096 none 0 = 4096 by decide]; exact h,
    by unfold LzipFile.Bytes; decide, by simp, by simp [exLzma]⟩

/-- `lzip_trunc` on a concrete two-member file (76 bytes): every hypothesis other than the codec's `PayloadOk` is met -/
example (h : PayloadOk 4096 exLzma [72, 105]) (k : Nat) (hk0 : 0 < k) (hk : k < 76) :
    (∃ e, decode ((fileBytes twoMembers).take k) 4 = .err e) ∨
    (∃ j, 0 < j ∧ j < 2 ∧ (fileBytes (twoMembers.take j)).length = k ∧
      decode ((fileBytes twoMembers).take k) 4
        = .ok (fileData (twoMembers.take j)) k (fileRecs (twoMembers.take j))) :=
  lzip_trunc twoMembers (twoMembers_ok h) 4 (by simp [fileData, twoMembers]) k hk0
    (by simpa [fileBytes, twoMembers, memberBytes_length, exLzma] using hk)

def lzIsErr : Out → Bool
  | .err _ => true
  | _ => false

/-- both alternatives of `lzip_trunc` are attained (kernel evaluation of the model): a cut 1 byte behind the first
    member (one byte of the next member's magic left) is an ERROR (before the fix of `start_next_member` it was
    accepted as a one-member file with trailing garbage) … -/
example : lzIsErr (decode ((fileBytes twoMembers).take 39) 4) = true := by decide +kernel

/-- … while a cut exactly on the member boundary is the valid one-member file -/
example : ∃ recs, decode ((fileBytes twoMembers).take 38) 4 = .ok [72, 105] 38 recs :=
  Out.okWith_spec (by decide +kernel)

end Lzip

/-! ### Level 4 -/
section Xz
open Xz

/-- `xz_trunc_blocks` with EVERY hypothesis discharged (payload = one stored LZMA2 chunk holding the byte `x`,
    CRC64 check): every proper prefix of the stream is rejected, for every byte value `x` -/
example (x : Nat) (k : Nat) (hk : k < (streamBytes .crc64 [.lzma2 4096] [([1, 0, 0, x, 0], [x])]).length) :
    (∃ e, Xz.decode false ((streamBytes .crc64 [.lzma2 4096] [([1, 0, 0, x, 0], [x])]).take k) 1 = .err e) ∨
    Xz.decode false ((streamBytes .crc64 [.lzma2 4096] [([1, 0, 0, x, 0], [x])]).take k) 1 = .capped := by
  have hb : ∀ b ∈ [(([1, 0, 0, x, 0] : List Nat), ([x] : List Nat))],
      Xz.PayloadOk (readerDict [.lzma2 4096]) b.1 (applyFilters [.lzma2 4096] b.2) ∧
        unfilter [.lzma2 4096] (applyFilters [.lzma2 4096] b.2) = b.2 := by
    intro b hb
    rw [List.mem_singleton] at hb
    subst hb
    have hp := payloadOk_stored (readerDict [.lzma2 4096]) [x] (by simp) (by simp)
    simp only [List.length_cons, List.length_nil, Nat.zero_add, Nat.sub_self, Nat.zero_div, Nat.zero_mod,
      List.cons_append, List.nil_append] at hp
    exact ⟨hp, rfl⟩
  have ht : ∀ b ∈ [(([1, 0, 0, x, 0] : List Nat), ([x] : List Nat))],
      Xz.PayloadTrunc (readerDict [.lzma2 4096]) b.1 := by
    intro b hb
    rw [List.mem_singleton] at hb
    subst hb
    have hp := payloadTrunc_stored (readerDict [.lzma2 4096]) [x] (by simp) (by simp)
    simpa using hp
  have hsz : SizesOk .crc64 [.lzma2 4096] [([1, 0, 0, x, 0], [x])] := by
    refine sizesOk_of_blocks _ _ _ ⟨by simp, ?_⟩ (by simp)
    intro b hb
    rw [List.mem_singleton] at hb
    subst hb
    rw [blockHeaderBytes_length]
    simp only [List.map_cons, List.map_nil, encFilter, List.flatten_cons, List.flatten_nil, List.length_cons,
      List.length_nil, List.length_append, Check.size]
    omega
  exact xz_trunc_blocks .crc64 [.lzma2 4096] (by decide) _ hb ht hsz 1 (by simp) k hk

/-- the 60-byte LZMA2 stream of `Lzma2.Example.exChunks` (six events: LZMA chunks with every header form, stored
    chunks, independent restarts), computed by the model writer (kernel evaluation) -/
def exPayload : List Nat :=
  [224, 0, 5, 0, 7, 93, 0, 32, 144, 158, 4, 0, 0, 0, 128, 0, 1, 0, 5, 0, 194, 23, 252, 0, 0, 2, 0, 2, 1, 2, 3, 160, 0, 3,
   0, 6, 0, 34, 66, 12, 0, 0, 0, 224, 0, 0, 0, 5, 93, 0, 34, 127, 252, 0, 0, 1, 0, 0, 7, 0]

theorem exPayload_enc : Lzma2.encodeChunks 93 Lzma2.Example.exChunks (Lzma2.initW 4096 #[] 93) [] = some exPayload := by
  decide +kernel

/-- `lzma2_trunc` with every hypothesis discharged: no proper prefix of the 60 bytes is accepted, whatever the cap -/
example (k : Nat) (hk : k < 60) (cap : Nat) (r : Lzma2.DecOk) :
    Lzma2.decode 4096 #[] (exPayload.take k) cap ≠ .ok r :=
  Lzma2.lzma2_trunc 4096 #[] 93 (by decide) (by decide) _ _ Lzma2.Example.exChunks_ok exPayload exPayload_enc k
    (by simpa [exPayload] using hk) cap r

/-- `xz_trunc_chunks` with EVERY hypothesis discharged and NO codec assumption: an XZ stream (SHA-256 check) whose
    block payload is that LZMA2 stream; every proper prefix is rejected -/
example (k : Nat) (hk : k < (streamBytes .sha256 [.lzma2 4096] [(exPayload, Lzma2.Example.exData)]).length) :
    (∃ e, Xz.decode false ((streamBytes .sha256 [.lzma2 4096] [(exPayload, Lzma2.Example.exData)]).take k) 17 = .err e) ∨
    Xz.decode false ((streamBytes .sha256 [.lzma2 4096] [(exPayload, Lzma2.Example.exData)]).take k) 17 = .capped := by
  have hrd : readerDict [.lzma2 4096] = 4096 := by decide
  refine xz_trunc_chunks .sha256 [.lzma2 4096] (by decide) _ ?_ ?_ 17 (by simp [Lzma2.Example.exData]) k hk
  · intro b hb
    rw [List.mem_singleton] at hb
    subst hb
    refine ⟨rfl, 93, Lzma2.Example.exChunks, by decide, by decide, ?_, ?_⟩
    · rw [hrd]; exact Lzma2.Example.exChunks_ok
    · rw [hrd]; exact exPayload_enc
  · refine sizesOk_of_blocks _ _ _ ⟨by simp, ?_⟩ (by simp)
    intro b hb
    rw [List.mem_singleton] at hb
    subst hb
    rw [blockHeaderBytes_length]
    simp only [List.map_cons, List.map_nil, encFilter, List.flatten_cons, List.flatten_nil, List.length_cons,
      List.length_nil, List.length_append, Check.size, exPayload, Lzma2.Example.exData]
    omega

/-- the stream of the stored-chunk example above is 60 bytes long for `x < 256`… here: `x = 65` -/
example : (streamBytes .crc64 [.lzma2 4096] [([1, 0, 0, 65, 0], [65])]).length = 60 := by decide +kernel

def xzIsErr : Xz.Out → Bool
  | .err _ => true
  | _ => false

/-- direct evaluation of the model on cuts in the block header, the payload, the check, the index and the footer -/
example : ([3, 12, 20, 26, 30, 40, 50, 59].all fun k =>
    xzIsErr (Xz.decode false ((streamBytes .crc64 [.lzma2 4096] [([1, 0, 0, 65, 0], [65])]).take k) 1)) = true := by
  decide +kernel

end Xz

end LzmaVerif.Props.C05.Examples

#print axioms LzmaVerif.Rc.normalize_ext
#print axioms LzmaVerif.Rc.decodeBitP_ext
#print axioms LzmaVerif.Rc.decodeDirect1_ext
#print axioms LzmaVerif.Prog.decRun_over_le
#print axioms LzmaVerif.Prog.decRun_inp_suffix
#print axioms LzmaVerif.Prog.decRun_extBy
#print axioms LzmaVerif.Prog.decRun_ext
#print axioms LzmaVerif.Lzma.decRun_trunc
#print axioms LzmaVerif.Lzma.rc_trunc
#print axioms LzmaVerif.Lzma.decodeRaw_trunc
#print axioms LzmaVerif.Lzma.decodeRaw_trunc_not_ok
#print axioms LzmaVerif.Props.C05.lzma_trunc_size
#print axioms LzmaVerif.Props.C05.lzma_trunc_marker
#print axioms LzmaVerif.Props.C05.lzma_trunc_size_rest
#print axioms LzmaVerif.LzipFile.payloadTrunc_of_payloadOk
#print axioms LzmaVerif.LzipFile.lzip_trunc
#print axioms LzmaVerif.LzipFile.lzip_trunc_not_full
#print axioms LzmaVerif.LzipFile.lzip_trunc_inside
#print axioms LzmaVerif.LzipFile.lzip_trunc_single
#print axioms LzmaVerif.Xz.xz_trunc
#print axioms LzmaVerif.Xz.xz_trunc_not_ok
#print axioms LzmaVerif.Xz.xz_trunc_blocks
#print axioms LzmaVerif.Xz.payloadTrunc_stored
#print axioms LzmaVerif.Lzma2.chunkLoop_ext
#print axioms LzmaVerif.Lzma2.decode_trunc
#print axioms LzmaVerif.Lzma2.lzma2_trunc
#print axioms LzmaVerif.Lzma2.payloadTrunc_of_chunksOk
#print axioms LzmaVerif.Lzma2.payloadTrunc_of_payloadOk
#print axioms LzmaVerif.Xz.xz_trunc_ok
#print axioms LzmaVerif.Xz.xz_trunc_blocks_ok
#print axioms LzmaVerif.Xz.xz_trunc_chunks
#print axioms LzmaVerif.Props.C05.Examples.exLzma_decodes
#print axioms LzmaVerif.Props.C05.Examples.exLzma_trunc
