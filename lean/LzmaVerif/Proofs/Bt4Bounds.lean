/-
  (B2) bounds on the matches reported by `find`: lengths, distances, strictly increasing lengths, count.
-/
import LzmaVerif.Proofs.Bt4Inv
namespace LzmaVerif.Mf.Bt4

/-! ### strictly increasing lengths -/

theorem lensIncreasing_push (l : List Match) (m : Match) :
    lensIncreasing l = true → (∀ x ∈ l, x.1 < m.1) → lensIncreasing (l ++ [m]) = true := by
  induction l with
  | nil => intro _ _; rfl
  | cons a r ih =>
    intro h hall
    cases r with
    | nil =>
      simp only [List.cons_append, List.nil_append, lensIncreasing, Bool.and_true, decide_eq_true_eq]
      exact hall a (by simp)
    | cons b r' =>
      simp only [lensIncreasing, Bool.and_eq_true, decide_eq_true_eq] at h
      simp only [List.cons_append, lensIncreasing, Bool.and_eq_true, decide_eq_true_eq]
      refine ⟨h.1, ?_⟩
      exact ih h.2 (fun x hx => hall x (List.mem_cons_of_mem _ hx))

/-! ### facts about the context of a non-pending step -/

/-- the part that does not depend on the length limits (shared by `find` and the private `skip`) -/
structure KCore (P : Bt4Params) (c : Cfg) (data : Array UInt8) (k : Ctx) (hi : Nat) : Prop where
  lz : k.lzPos = hi + 1
  hi : hi = k.p + k.cs
  cs : k.cs = c.dict + 1
  cyc : k.cyclicPos < k.cs
  inData : k.p + 3 ≤ data.size

structure KFacts (P : Bt4Params) (c : Cfg) (data : Array UInt8) (k : Ctx) (hi : Nat) : Prop
    extends KCore P c data k hi where
  lenLim : k.lenLimit = min c.mlmax (data.size - k.p)
  len3 : 3 ≤ k.lenLimit
  nice3 : 3 ≤ k.niceLimit
  niceLe : k.niceLimit ≤ c.niceLen
  niceAvail : k.niceLimit = (if data.size - k.p < c.mlmax ∧ c.niceLen > data.size - k.p then data.size - k.p
    else c.niceLen)

theorem stepK_facts {P : Bt4Params} {c : Cfg} {data : Array UInt8} (hH : Hyp P c data) {s : St}
    (hI : Inv P c data s) (hp : ¬ pending P c data s.pos) :
    KFacts P c data (stepK P c data s) s.lzPos ∧ (stepK P c data s).p = s.pos := by
  obtain ⟨h1, h2, h3, h4, _⟩ := step_facts hH hI hp
  have hn := hH.nice
  have hm := hH.mlmax
  have hcs := cs_eq hH.ok c
  have h3' : 3 ≤ data.size - s.pos := by
    rcases movePos_cases hH s with ⟨hp', _⟩ | ⟨_, h, _⟩
    · exact absurd hp' hp
    · exact h
  have hp0 : (stepK P c data s).p = s.pos := by
    show (stepHs P c data s).st.pos - 1 = s.pos
    unfold stepHs; rw [h3]; rfl
  refine ⟨⟨⟨?_, ?_, hcs, ?_, ?_⟩, ?_, ?_, ?_, ?_, ?_⟩, hp0⟩
  · exact h2
  · rw [hp0]; exact h4
  · exact h1.cyc
  · rw [hp0]; omega
  · rw [hp0]; show lenLimitOf c (data.size - s.pos) = _
    unfold lenLimitOf; split <;> omega
  · show 3 ≤ lenLimitOf c (data.size - s.pos)
    unfold lenLimitOf; split <;> omega
  · show 3 ≤ niceLimitOf c (data.size - s.pos)
    unfold niceLimitOf; split <;> omega
  · show niceLimitOf c (data.size - s.pos) ≤ _
    unfold niceLimitOf; split <;> omega
  · rw [hp0]; rfl

/-- a table entry gives, unless rejected, a distance inside the data and the dictionary -/
theorem delta_of_entry {P : Bt4Params} {c : Cfg} {data : Array UInt8} {k : Ctx} {hi e : Nat}
    (hk : KCore P c data k hi) (he : EntryOk k.cs hi e) (hlt : k.lzPos - e < k.cs) :
    1 ≤ k.lzPos - e ∧ k.lzPos - e ≤ k.p ∧ k.lzPos - e ≤ c.dict := by
  have h1 := hk.lz
  have h2 := hk.hi
  have h3 := hk.cs
  rcases he with he | he
  · subst he; omega
  · omega

/-! ### the hash candidates -/

theorem hashCands_cases {P : Bt4Params} (hok : P.ok) (data : Array UInt8) (p cs d2 d3 : Nat) (lg : Log) :
    ((hashCands P data p cs d2 d3 lg).ms = #[] ∧ (hashCands P data p cs d2 d3 lg).lenBest = 0 ∧
      (hashCands P data p cs d2 d3 lg).delta2 = d2) ∨
    (d2 < cs ∧ byteAt data (p - d2) = byteAt data p ∧
      (hashCands P data p cs d2 d3 lg).ms = #[(2, d2 - 1)] ∧ (hashCands P data p cs d2 d3 lg).lenBest = 2 ∧
      (hashCands P data p cs d2 d3 lg).delta2 = d2) ∨
    (d3 < cs ∧ byteAt data (p - d3) = byteAt data p ∧
      (hashCands P data p cs d2 d3 lg).ms = #[(3, d3 - 1)] ∧ (hashCands P data p cs d2 d3 lg).lenBest = 3 ∧
      (hashCands P data p cs d2 d3 lg).delta2 = d3) ∨
    (d2 < cs ∧ byteAt data (p - d2) = byteAt data p ∧ d3 < cs ∧ byteAt data (p - d3) = byteAt data p ∧ d2 ≠ d3 ∧
      (hashCands P data p cs d2 d3 lg).ms = #[(2, d2 - 1), (3, d3 - 1)] ∧
      (hashCands P data p cs d2 d3 lg).lenBest = 3 ∧ (hashCands P data p cs d2 d3 lg).delta2 = d3) := by
  unfold hashCands
  rw [ok_d2 hok, ok_d3 hok, ok_h2Len hok, ok_h3Len hok, ok_dist hok]
  simp only [ltOrLe_true]
  by_cases h2 : d2 < cs <;> by_cases b2 : byteAt data (p - d2) = byteAt data p <;>
    by_cases hne : d2 = d3 <;> by_cases h3 : d3 < cs <;> by_cases b3 : byteAt data (p - d3) = byteAt data p <;>
    simp [h2, b2, hne, h3, b3]
  all_goals (first | (subst hne; simp_all) | skip)

/-- the candidates after the extension (bt4.rs:193-204), in the four possible shapes -/
theorem extendCands_cases {P : Bt4Params} (hok : P.ok) (data : Array UInt8) (p cs d2 d3 lim : Nat) (lg : Log) :
    let cd := extendCands data p lim (hashCands P data p cs d2 d3 lg)
    (cd.ms = #[] ∧ cd.lenBest = 0) ∨
    (d2 < cs ∧ byteAt data (p - d2) = byteAt data p ∧
      cd.ms = #[(extendMatch data p d2 lim 2, d2 - 1)] ∧ cd.lenBest = extendMatch data p d2 lim 2) ∨
    (d3 < cs ∧ byteAt data (p - d3) = byteAt data p ∧
      cd.ms = #[(extendMatch data p d3 lim 3, d3 - 1)] ∧ cd.lenBest = extendMatch data p d3 lim 3) ∨
    (d2 < cs ∧ byteAt data (p - d2) = byteAt data p ∧ d3 < cs ∧ byteAt data (p - d3) = byteAt data p ∧ d2 ≠ d3 ∧
      cd.ms = #[(2, d2 - 1), (extendMatch data p d3 lim 3, d3 - 1)] ∧ cd.lenBest = extendMatch data p d3 lim 3) := by
  intro cd
  rcases hashCands_cases hok data p cs d2 d3 lg with ⟨h1, h2, h3⟩ | ⟨a, b, h1, h2, h3⟩ | ⟨a, b, h1, h2, h3⟩ |
    ⟨a, b, a', b', ne, h1, h2, h3⟩
  · left
    show (extendCands data p lim _).ms = _ ∧ (extendCands data p lim _).lenBest = _
    unfold extendCands
    rw [if_neg (by rw [h1]; exact Nat.lt_irrefl 0)]
    exact ⟨h1, h2⟩
  · right; left
    refine ⟨a, b, ?_⟩
    show (extendCands data p lim _).ms = _ ∧ (extendCands data p lim _).lenBest = _
    unfold extendCands
    rw [h1, h2, h3]
    exact ⟨rfl, rfl⟩
  · right; right; left
    refine ⟨a, b, ?_⟩
    show (extendCands data p lim _).ms = _ ∧ (extendCands data p lim _).lenBest = _
    unfold extendCands
    rw [h1, h2, h3]
    exact ⟨rfl, rfl⟩
  · right; right; right
    refine ⟨a, b, a', b', ne, ?_⟩
    show (extendCands data p lim _).ms = _ ∧ (extendCands data p lim _).lenBest = _
    unfold extendCands
    rw [h1, h2, h3]
    exact ⟨rfl, rfl⟩

/-! ### the tree walk -/

def MatchOk (c : Cfg) (k : Ctx) (m : Match) : Prop :=
  2 ≤ m.1 ∧ m.1 ≤ k.lenLimit ∧ m.2 + 1 ≤ k.p ∧ m.2 + 1 ≤ c.dict

/-- loop invariant of the matches: valid, bounded by `lenBest`, increasing; counting -/
def MsInv (c : Cfg) (k : Ctx) (lb : Nat) (ms : Array Match) : Prop :=
  (∀ m ∈ ms.toList, MatchOk c k m ∧ m.1 ≤ lb) ∧ lensIncreasing ms.toList = true ∧
  ms.size + 1 ≤ lb ∧ ms.size + 2 ≤ k.niceLimit

def MsFinal (c : Cfg) (k : Ctx) (ms : Array Match) : Prop :=
  (∀ m ∈ ms.toList, MatchOk c k m) ∧ lensIncreasing ms.toList = true ∧ ms.size + 1 ≤ k.niceLimit

theorem MsInv.final {c : Cfg} {k : Ctx} {lb : Nat} {ms : Array Match} (h : MsInv c k lb ms) : MsFinal c k ms :=
  ⟨fun m hm => (h.1 m hm).1, h.2.1, by have := h.2.2.2; omega⟩

theorem MsInv.push {c : Cfg} {k : Ctx} {lb : Nat} {ms : Array Match} (h : MsInv c k lb ms) (m : Match)
    (hm : MatchOk c k m) (hlt : lb < m.1) :
    (∀ x ∈ (ms.push m).toList, MatchOk c k x ∧ x.1 ≤ m.1) ∧ lensIncreasing (ms.push m).toList = true ∧
    (ms.push m).size + 1 ≤ m.1 ∧ (ms.push m).size + 1 ≤ k.niceLimit := by
  obtain ⟨h1, h2, h3, h4⟩ := h
  rw [Array.toList_push, Array.size_push]
  refine ⟨?_, ?_, by omega, by omega⟩
  · intro x hx
    rcases List.mem_append.1 hx with hx | hx
    · exact ⟨(h1 x hx).1, by have := (h1 x hx).2; omega⟩
    · rw [List.mem_singleton] at hx; subst hx; exact ⟨hm, Nat.le_refl _⟩
  · exact lensIncreasing_push _ _ h2 (fun x hx => by have := (h1 x hx).2; omega)

theorem findLoop_ms {P : Bt4Params} {c : Cfg} {data : Array UInt8} (hok : P.ok) (k : Ctx) {hi : Nat}
    (hk : KFacts P c data k hi)
    (depth : Nat) (tree : Array Nat) (ptr0 ptr1 len0 len1 cur lenBest : Nat) (ms : Array Match) (lg : Log) :
    TblOk k.cs hi tree → EntryOk k.cs hi cur → len0 ≤ k.lenLimit → len1 ≤ k.lenLimit →
    MsInv c k lenBest ms →
    MsFinal c k (findLoop P data k depth tree ptr0 ptr1 len0 len1 cur lenBest ms lg).2.1 := by
  fun_induction findLoop P data k depth tree ptr0 ptr1 len0 len1 cur lenBest ms lg with
  | case1 tree ptr0 ptr1 len0 len1 cur lenBest ms lg tree' lg' hx =>
    intro _ _ _ _ h; exact h.final
  | case2 depth tree ptr0 ptr1 len0 len1 cur lenBest ms lg delta hstop tree' lg' hx =>
    intro _ _ _ _ h; exact h.final
  | case3 depth tree ptr0 ptr1 len0 len1 cur lenBest ms lg delta hstop pair len lg1 hit ms1 hnice tree' lg' hx =>
    intro ht hc h0 h1 h
    rw [ok_stop hok, geOrGt_true, decide_eq_true_eq] at hstop
    obtain ⟨d1, d2, d3⟩ := delta_of_entry hk.toKCore hc (by omega)
    have hlen : len ≤ k.lenLimit := extendMatch_le _ _ _ _ _ (by omega)
    simp only [Bool.and_eq_true] at hnice
    have hhit : hit = true := hnice.1
    have hhit' : lenBest < len := by
      have := hhit; simp only [hit, ok_best hok, ltOrLe_true, decide_eq_true_eq] at this; exact this
    have hm : MatchOk c k (len, delta - P.distSub) := by
      rw [ok_dist hok]; have := h.2.2.1
      exact ⟨by omega, hlen, by show delta - 1 + 1 ≤ _; omega, by show delta - 1 + 1 ≤ _; omega⟩
    have hp := h.push _ hm hhit'
    show MsFinal c k ms1
    simp only [ms1, hhit, if_true]
    exact ⟨fun m hm' => (hp.1 m hm').1, hp.2.1, hp.2.2.2⟩
  | case4 depth tree ptr0 ptr1 len0 len1 cur lenBest ms lg delta hstop pair len lg1 hit ms1 hnice lenBest1 lg2 hlt
      tree1 lg3 ih =>
    intro ht hc h0 h1 h
    rw [ok_stop hok, geOrGt_true, decide_eq_true_eq] at hstop
    obtain ⟨d1, d2, d3⟩ := delta_of_entry hk.toKCore hc (by omega)
    have hlen : len ≤ k.lenLimit := extendMatch_le _ _ _ _ _ (by omega)
    have ht1 : TblOk k.cs hi tree1 := ht.set ptr1 cur hc
    refine ih ht1 (ht1 _) h0 hlen ?_
    by_cases hhit : hit = true
    · have hhit' : lenBest < len := by
        have := hhit; simp only [hit, ok_best hok, ltOrLe_true, decide_eq_true_eq] at this; exact this
      have hn : ¬ len ≥ k.niceLimit := by
        intro hge; apply hnice
        simp only [hhit, ok_nice hok, geOrGt_true, Bool.true_and, decide_eq_true_eq]; exact hge
      have hm : MatchOk c k (len, delta - P.distSub) := by
        rw [ok_dist hok]; have := h.2.2.1
        exact ⟨by omega, hlen, by show delta - 1 + 1 ≤ _; omega, by show delta - 1 + 1 ≤ _; omega⟩
      have hp := h.push _ hm hhit'
      simp only [ms1, lenBest1, hhit, if_true]
      exact ⟨hp.1, hp.2.1, hp.2.2.1, by have := hp.2.2.1; omega⟩
    · simp only [ms1, lenBest1, hhit, Bool.false_eq_true, if_false]
      exact h
  | case5 depth tree ptr0 ptr1 len0 len1 cur lenBest ms lg delta hstop pair len lg1 hit ms1 hnice lenBest1 lg2 hlt
      tree1 lg3 ih =>
    intro ht hc h0 h1 h
    rw [ok_stop hok, geOrGt_true, decide_eq_true_eq] at hstop
    obtain ⟨d1, d2, d3⟩ := delta_of_entry hk.toKCore hc (by omega)
    have hlen : len ≤ k.lenLimit := extendMatch_le _ _ _ _ _ (by omega)
    have ht1 : TblOk k.cs hi tree1 := ht.set ptr0 cur hc
    refine ih ht1 (ht1 _) hlen h1 ?_
    by_cases hhit : hit = true
    · have hhit' : lenBest < len := by
        have := hhit; simp only [hit, ok_best hok, ltOrLe_true, decide_eq_true_eq] at this; exact this
      have hn : ¬ len ≥ k.niceLimit := by
        intro hge; apply hnice
        simp only [hhit, ok_nice hok, geOrGt_true, Bool.true_and, decide_eq_true_eq]; exact hge
      have hm : MatchOk c k (len, delta - P.distSub) := by
        rw [ok_dist hok]; have := h.2.2.1
        exact ⟨by omega, hlen, by show delta - 1 + 1 ≤ _; omega, by show delta - 1 + 1 ≤ _; omega⟩
      have hp := h.push _ hm hhit'
      simp only [ms1, lenBest1, hhit, if_true]
      exact ⟨hp.1, hp.2.1, hp.2.2.1, by have := hp.2.2.1; omega⟩
    · simp only [ms1, lenBest1, hhit, Bool.false_eq_true, if_false]
      exact h

/-! ### assembling `find` -/

theorem stepHs_deltas {P : Bt4Params} {c : Cfg} {data : Array UInt8} (hH : Hyp P c data) {s : St}
    (hI : Inv P c data s) (hp : ¬ pending P c data s.pos) :
    ∃ e2 e3, EntryOk (stepK P c data s).cs s.lzPos e2 ∧ EntryOk (stepK P c data s).cs s.lzPos e3 ∧
      (stepHs P c data s).delta2 = (stepK P c data s).lzPos - e2 ∧
      (stepHs P c data s).delta3 = (stepK P c data s).lzPos - e3 := by
  obtain ⟨hm, _⟩ := inv_moved hH hI hp
  refine ⟨(moved P c s).h2.getD (hashesAt P c data ((moved P c s).pos - 1)).h2 0,
    (moved P c s).h3.getD (hashesAt P c data ((moved P c s).pos - 1)).h3 0, hm.h2ok _, hm.h3ok _, ?_, ?_⟩
  · show (hashStage P c data (moved P c s)).delta2 = (hashStage P c data (moved P c s)).st.lzPos - _
    rw [hashStage_delta2, hashStage_st]
  · show (hashStage P c data (moved P c s)).delta3 = (hashStage P c data (moved P c s)).st.lzPos - _
    rw [hashStage_delta3, hashStage_st]

theorem singleton_final {c : Cfg} {k : Ctx} (m : Match) (hm : MatchOk c k m) (hn : 2 ≤ k.niceLimit) :
    MsFinal c k #[m] :=
  ⟨fun x hx => by simp only [List.mem_singleton] at hx; subst hx; exact hm, rfl, hn⟩

theorem find_ms_final {P : Bt4Params} {c : Cfg} {data : Array UInt8} (hH : Hyp P c data) {s : St}
    (hI : Inv P c data s) (hp : ¬ pending P c data s.pos) :
    MsFinal c (stepK P c data s) (find P c data s).2 := by
  have hok := hH.ok
  obtain ⟨hk, hp0⟩ := stepK_facts hH hI hp
  obtain ⟨h1, h2, _, _, h5⟩ := step_facts hH hI hp
  obtain ⟨e2, e3, he2, he3, hd2, hd3⟩ := stepHs_deltas hH hI hp
  have hcs : cyclicSize P c = (stepK P c data s).cs := rfl
  have hll : lenLimitOf c (data.size - s.pos) = (stepK P c data s).lenLimit := rfl
  have hnl : niceLimitOf c (data.size - s.pos) = (stepK P c data s).niceLimit := rfl
  have hl3 := hk.len3
  have hn3 := hk.nice3
  have hfl := ok_floor hok
  rw [find_nonpending hH hp]
  have hcases := extendCands_cases hok data (stepK P c data s).p (stepK P c data s).cs (stepHs P c data s).delta2
    (stepHs P c data s).delta3 (lenLimitOf c (data.size - s.pos)) (stepHs P c data s).st.log
  -- the tree-walk continuation, given the loop invariant of the candidates
  have hloop : MsInv c (stepK P c data s) (stepLenBest P c data s) (stepCd P c data s).ms →
      MsFinal c (stepK P c data s) (stepLoop P c data s).2.1 := fun hms =>
    findLoop_ms hok (stepK P c data s) hk (depthLimit P c) _ _ _ 0 0 _ _ _ _
      (by rw [← hcs]; exact h1.treeok) (by rw [← hcs]; exact h5) (Nat.zero_le _) (Nat.zero_le _) hms
  have hearly : stepEarly P c data s →
      (stepCd P c data s).lenBest ≥ (stepK P c data s).niceLimit := by
    intro h
    have := h.2
    rw [ok_nice hok, geOrGt_true, decide_eq_true_eq] at this
    exact this
  have hnotearly : ¬ stepEarly P c data s → (stepCd P c data s).ms.size > 0 →
      (stepCd P c data s).lenBest < (stepK P c data s).niceLimit := by
    intro h hsz
    have : ¬ geOrGt P.niceStopGe (stepCd P c data s).lenBest (niceLimitOf c (data.size - s.pos)) = true :=
      fun h' => h ⟨hsz, h'⟩
    rw [ok_nice hok, geOrGt_true, decide_eq_true_eq] at this
    rw [← hnl]; omega
  have hcd : stepCd P c data s = extendCands data (stepK P c data s).p (lenLimitOf c (data.size - s.pos))
      (hashCands P data (stepK P c data s).p (stepK P c data s).cs (stepHs P c data s).delta2
        (stepHs P c data s).delta3 (stepHs P c data s).st.log) := rfl
  rw [← hcd] at hcases
  have hlb : stepLenBest P c data s =
      (if (stepCd P c data s).lenBest < P.lenBestFloor then P.lenBestFloor else (stepCd P c data s).lenBest) := rfl
  rcases hcases with ⟨m0, l0⟩ | ⟨a, b, m0, l0⟩ | ⟨a, b, m0, l0⟩ | ⟨a, b, a', b', ne, m0, l0⟩
  · -- no candidate
    have hne : ¬ stepEarly P c data s := fun h => by
      have := h.1; rw [m0] at this; exact Nat.lt_irrefl 0 this
    rw [if_neg hne]
    apply hloop
    rw [m0, hlb, l0]
    refine ⟨fun m hm => by simp at hm, rfl, ?_, ?_⟩
    · show 0 + 1 ≤ _; split <;> omega
    · show 0 + 2 ≤ _; omega
  · -- hash2 only
    rw [hd2] at a m0 l0
    obtain ⟨d1, d2, d3⟩ := delta_of_entry hk.toKCore he2 a
    have hL1 := extendMatch_ge data (stepK P c data s).p ((stepK P c data s).lzPos - e2) (stepK P c data s).lenLimit 2
    have hL2 := extendMatch_le data (stepK P c data s).p ((stepK P c data s).lzPos - e2) (stepK P c data s).lenLimit 2
      (by omega)
    rw [hll] at m0 l0
    have hm : MatchOk c (stepK P c data s)
        (extendMatch data (stepK P c data s).p ((stepK P c data s).lzPos - e2) (stepK P c data s).lenLimit 2,
          (stepK P c data s).lzPos - e2 - 1) :=
      ⟨hL1, hL2, by show _ - 1 + 1 ≤ _; omega, by show _ - 1 + 1 ≤ _; omega⟩
    split
    · show MsFinal c _ (stepCd P c data s).ms
      rw [m0]; exact singleton_final _ hm (by omega)
    · rename_i hne
      have hlt := hnotearly hne (by rw [m0]; exact Nat.zero_lt_one)
      apply hloop
      rw [m0, hlb, l0]
      rw [l0] at hlt
      refine ⟨fun m hm' => ?_, rfl, ?_, ?_⟩
      · simp only [List.mem_singleton] at hm'; subst hm'
        exact ⟨hm, by show extendMatch _ _ _ _ _ ≤ _; split <;> omega⟩
      · show 1 + 1 ≤ _; split <;> omega
      · show 1 + 2 ≤ _; omega
  · -- hash3 only
    rw [hd3] at a m0 l0
    obtain ⟨d1, d2, d3⟩ := delta_of_entry hk.toKCore he3 a
    have hL1 := extendMatch_ge data (stepK P c data s).p ((stepK P c data s).lzPos - e3) (stepK P c data s).lenLimit 3
    have hL2 := extendMatch_le data (stepK P c data s).p ((stepK P c data s).lzPos - e3) (stepK P c data s).lenLimit 3
      (by omega)
    rw [hll] at m0 l0
    have hm : MatchOk c (stepK P c data s)
        (extendMatch data (stepK P c data s).p ((stepK P c data s).lzPos - e3) (stepK P c data s).lenLimit 3,
          (stepK P c data s).lzPos - e3 - 1) :=
      ⟨by omega, hL2, by show _ - 1 + 1 ≤ _; omega, by show _ - 1 + 1 ≤ _; omega⟩
    split
    · show MsFinal c _ (stepCd P c data s).ms
      rw [m0]; exact singleton_final _ hm (by omega)
    · rename_i hne
      have hlt := hnotearly hne (by rw [m0]; exact Nat.zero_lt_one)
      apply hloop
      rw [m0, hlb, l0]
      rw [l0] at hlt
      refine ⟨fun m hm' => ?_, rfl, ?_, ?_⟩
      · simp only [List.mem_singleton] at hm'; subst hm'
        exact ⟨hm, by show extendMatch _ _ _ _ _ ≤ _; split <;> omega⟩
      · show 1 + 1 ≤ _; split <;> omega
      · show 1 + 2 ≤ _; omega
  · -- hash2 and hash3
    rw [hd2] at a
    rw [hd3] at a'
    rw [hd2, hd3] at m0
    rw [hd3] at l0
    obtain ⟨d1, d2, d3⟩ := delta_of_entry hk.toKCore he2 a
    obtain ⟨d1', d2', d3'⟩ := delta_of_entry hk.toKCore he3 a'
    have hL1 := extendMatch_ge data (stepK P c data s).p ((stepK P c data s).lzPos - e3) (stepK P c data s).lenLimit 3
    have hL2 := extendMatch_le data (stepK P c data s).p ((stepK P c data s).lzPos - e3) (stepK P c data s).lenLimit 3
      (by omega)
    rw [hll] at m0 l0
    have hm2 : MatchOk c (stepK P c data s) (2, (stepK P c data s).lzPos - e2 - 1) :=
      ⟨Nat.le_refl 2, by show 2 ≤ _; omega, by show _ - 1 + 1 ≤ _; omega, by show _ - 1 + 1 ≤ _; omega⟩
    have hm : MatchOk c (stepK P c data s)
        (extendMatch data (stepK P c data s).p ((stepK P c data s).lzPos - e3) (stepK P c data s).lenLimit 3,
          (stepK P c data s).lzPos - e3 - 1) :=
      ⟨by omega, hL2, by show _ - 1 + 1 ≤ _; omega, by show _ - 1 + 1 ≤ _; omega⟩
    have hinc : lensIncreasing [((2 : Nat), (stepK P c data s).lzPos - e2 - 1),
        (extendMatch data (stepK P c data s).p ((stepK P c data s).lzPos - e3) (stepK P c data s).lenLimit 3,
          (stepK P c data s).lzPos - e3 - 1)] = true := by
      simp only [lensIncreasing, Bool.and_true, decide_eq_true_eq]; omega
    split
    · show MsFinal c _ (stepCd P c data s).ms
      rw [m0]
      refine ⟨fun x hx => ?_, hinc, by show 2 + 1 ≤ _; omega⟩
      simp only [List.mem_cons, List.not_mem_nil, or_false] at hx
      rcases hx with hx | hx
      · subst hx; exact hm2
      · subst hx; exact hm
    · rename_i hne
      have hlt := hnotearly hne (by rw [m0]; exact Nat.zero_lt_succ 1)
      apply hloop
      rw [m0, hlb, l0]
      rw [l0] at hlt
      refine ⟨fun x hx => ?_, hinc, ?_, ?_⟩
      · simp only [List.mem_cons, List.not_mem_nil, or_false] at hx
        rcases hx with hx | hx
        · subst hx; exact ⟨hm2, by show 2 ≤ _; split <;> omega⟩
        · subst hx; exact ⟨hm, by show extendMatch _ _ _ _ _ ≤ _; split <;> omega⟩
      · show 2 + 1 ≤ _; split <;> omega
      · show 2 + 2 ≤ _; omega

/-- (B2) in a state satisfying the invariant (hence in every reachable state, `runScript_inv`), every
    match `(len, dist)` reported by `find` at logical position `p = s.pos` has
    `2 ≤ len ≤ min mlmax (data.size - p)`, `dist + 1 ≤ p`, `dist + 1 ≤ dict`; the lengths strictly
    increase; there are at most `niceLen - 1` matches (the capacity of `Matches::new(nice_len - 1)`). -/
theorem find_bounds {P : Bt4Params} {c : Cfg} {data : Array UInt8} (hH : Hyp P c data) {s : St}
    (hI : Inv P c data s) :
    (∀ m ∈ (find P c data s).2.toList,
      2 ≤ m.1 ∧ m.1 ≤ min c.mlmax (data.size - s.pos) ∧ m.2 + 1 ≤ s.pos ∧ m.2 + 1 ≤ c.dict) ∧
    lensIncreasing (find P c data s).2.toList = true ∧
    (find P c data s).2.size ≤ c.niceLen - 1 := by
  by_cases hp : pending P c data s.pos
  · rw [find_pending hH hp]
    exact ⟨fun m hm => by simp at hm, rfl, Nat.zero_le _⟩
  · obtain ⟨hk, hp0⟩ := stepK_facts hH hI hp
    obtain ⟨f1, f2, f3⟩ := find_ms_final hH hI hp
    refine ⟨fun m hm => ?_, f2, ?_⟩
    · obtain ⟨g1, g2, g3, g4⟩ := f1 m hm
      rw [hk.lenLim, hp0] at g2
      rw [hp0] at g3
      exact ⟨g1, g2, g3, g4⟩
    · have := hk.niceLe; omega

end LzmaVerif.Mf.Bt4
