/-
  (B5) the binary-search-tree invariant `BInv` holds in every reachable BT4 state, and in a state satisfying
  `Inv` and `BInv` every match `find` reports - hash candidates AND tree walk, any depth - is a `ValidMatch`.
-/
import LzmaVerif.Proofs.Bt4BstLoop
namespace LzmaVerif.Mf.Bt4

/-- the tree part of the state invariant: `cyclic_pos` is the slot of the last inserted node, and the tree
    array is sorted (`TInv`) over the window of the next descent -/
def BInv (P : Bt4Params) (c : Cfg) (data : Array UInt8) (s : St) : Prop :=
  s.cyclicPos = (s.lzPos - 1) % cyclicSize P c ∧
  TInv data (cyclicSize P c) c.niceLen s.tree (s.lzPos + 1 - cyclicSize P c) s.lzPos

theorem init_binv {P : Bt4Params} {c : Cfg} {data : Array UInt8} (hH : Hyp P c data) (lg : Bool) :
    BInv P c data (init P c lg) := by
  have hcs := cs_eq hH.ok c
  constructor
  · show cyclicSize P c - 1 = (cyclicSize P c - 1) % cyclicSize P c
    rw [Nat.mod_eq_of_lt (by omega)]
  · intro q _ _
    have hz : ∀ i, (init P c lg).tree.getD i 0 = 0 := fun i => getD_replicate _ _
    constructor
    · intro x hx; unfold RS at hx; rw [hz] at hx; exact absurd hx (Reach.not_low (Nat.zero_le _))
    · intro x hx; unfold RS at hx; rw [hz] at hx; exact absurd hx (Reach.not_low (Nat.zero_le _))

/-- what every walk of a non-pending step starts from -/
structure Descent (P : Bt4Params) (c : Cfg) (data : Array UInt8) (s : St) (k : Ctx) : Prop where
  core : KCore P c data k s.lzPos
  p : k.p = s.pos
  cyc : k.cyclicPos = (stepHs P c data s).st.cyclicPos
  cp : k.cyclicPos = (k.lzPos - 1) % k.cs
  tbl : TblOk k.cs s.lzPos (stepHs P c data s).st.tree
  cur : EntryOk k.cs s.lzPos (stepHs P c data s).cur
  inv : LoopInv data k.cs c.niceLen (k.p + 1) s.lzPos k.p (stepHs P c data s).st.tree
    (shl P (stepHs P c data s).st.cyclicPos + 1) (shl P (stepHs P c data s).st.cyclicPos) 0 0
    (stepHs P c data s).cur
  ti : TInv data k.cs c.niceLen (stepHs P c data s).st.tree (k.p + 1) s.lzPos

theorem descent {P : Bt4Params} {c : Cfg} {data : Array UInt8} (hH : Hyp P c data) {s : St}
    (hI : Inv P c data s) (hB : BInv P c data s) (hp : ¬ pending P c data s.pos) (a b : Nat) :
    Descent P c data s (ctxOf P c (stepHs P c data s).st a b) := by
  have hok := hH.ok
  obtain ⟨h1, h2, h3, h4, h5⟩ := step_facts hH hI hp
  have h1 : InvG P c data (s.lzPos + 1) s.lzPos (stepHs P c data s).st := h1
  have h2 : (stepHs P c data s).st.lzPos = s.lzPos + 1 := h2
  have h3 : (stepHs P c data s).st.pos = s.pos + 1 := h3
  have h5 : EntryOk (cyclicSize P c) s.lzPos (stepHs P c data s).cur := h5
  have hk := step_core hH hI hp a b
  have hcs : (ctxOf P c (stepHs P c data s).st a b).cs = cyclicSize P c := rfl
  have hcsv := cs_eq hok c
  have hkp : (ctxOf P c (stepHs P c data s).st a b).p = s.pos := by
    show (stepHs P c data s).st.pos - 1 = s.pos
    rw [h3]; rfl
  have hklz : (ctxOf P c (stepHs P c data s).st a b).lzPos = s.lzPos + 1 := h2
  have hcyc : (stepHs P c data s).st.cyclicPos =
      (if s.cyclicPos + 1 = cyclicSize P c then 0 else s.cyclicPos + 1) := by
    unfold stepHs; rw [hashStage_st]; rfl
  have hcp : (stepHs P c data s).st.cyclicPos = s.lzPos % cyclicSize P c := by
    rw [hcyc, hB.1, succ_mod_cases _ _ (by omega)]
    congr 1
    have := hI.lz
    omega
  have htree : (stepHs P c data s).st.tree = s.tree := by
    unfold stepHs; rw [hashStage_st]; rfl
  have hlo : (ctxOf P c (stepHs P c data s).st a b).p + 1 = s.lzPos + 1 - cyclicSize P c := by
    rw [hkp]; omega
  have hti : TInv data (cyclicSize P c) c.niceLen (stepHs P c data s).st.tree
      ((ctxOf P c (stepHs P c data s).st a b).p + 1) s.lzPos := by
    rw [htree, hlo]; exact hB.2
  have htbl : ∀ i, (stepHs P c data s).st.tree.getD i 0 ≤ s.lzPos := by
    intro i
    rcases h1.treeok i with h | h
    · omega
    · exact h.2
  have hsize : 2 * cyclicSize P c ≤ (stepHs P c data s).st.tree.size := by
    rw [h1.treesize]
    have := ok_factor hok
    calc 2 * cyclicSize P c = cyclicSize P c * 2 := Nat.mul_comm _ _
      _ ≤ cyclicSize P c * P.treeFactor := Nat.mul_le_mul_left _ this
  have hcur : (stepHs P c data s).cur ≤ s.lzPos := by
    rcases h5 with h | h
    · omega
    · exact h.2
  have hinit := loopInv_init (d := data) (cs := cyclicSize P c) (niceLen := c.niceLen)
    (lo := (ctxOf P c (stepHs P c data s).st a b).p + 1) (hi := s.lzPos)
    (p := (ctxOf P c (stepHs P c data s).st a b).p) (by omega) (by omega) (by rw [hkp]; omega) htbl hsize hcur hti
  have hsl : sl (cyclicSize P c) (s.lzPos + 1) = shl P (stepHs P c data s).st.cyclicPos := by
    rw [shl_eq hok, hcp]; unfold sl; rw [Nat.add_sub_cancel]
  rw [hsl] at hinit
  refine ⟨hk, hkp, rfl, ?_, h1.treeok, h5, hinit, hti⟩
  show (stepHs P c data s).st.cyclicPos = ((ctxOf P c (stepHs P c data s).st a b).lzPos - 1) % cyclicSize P c
  rw [hcp, hklz, Nat.add_sub_cancel]

/-- from the result of a walk to the invariant of the next state -/
theorem descent_finish {P : Bt4Params} {c : Cfg} {data : Array UInt8} (hH : Hyp P c data) {s : St} {k : Ctx}
    (hD : Descent P c data s k) (hNn : k.niceLimit = nw data k.cs c.niceLen (s.lzPos + 1)) {F : Array Nat}
    (hF : TblOk k.cs s.lzPos F)
    (hP : Post data k.cs (k.p + 1) s.lzPos k.niceLimit k.p (stepHs P c data s).st.tree F
      (shl P (stepHs P c data s).st.cyclicPos + 1) (shl P (stepHs P c data s).st.cyclicPos) (stepHs P c data s).cur) :
    TInv data k.cs c.niceLen F (s.lzPos + 1 + 1 - k.cs) (s.lzPos + 1) := by
  have hok := hH.ok
  have h1 := hD.core.lz
  have h2 := hD.core.hi
  have h3 := hD.core.cs
  have hsl : shl P (stepHs P c data s).st.cyclicPos = sl k.cs (s.lzPos + 1) := by
    rw [shl_eq hok]
    have := hD.cp
    rw [h1, Nat.add_sub_cancel] at this
    rw [← hD.cyc, this]; unfold sl; rw [Nat.add_sub_cancel]
  have hpos : k.p = posOf k.cs (s.lzPos + 1) := by unfold posOf; omega
  rw [hsl, hNn] at hP
  rw [hpos] at hP
  have hFle : ∀ i, F.getD i 0 ≤ s.lzPos := by
    intro i
    rcases hF i with h | h
    · omega
    · exact h.2
  have := post_top (d := data) (cs := k.cs) (niceLen := c.niceLen) (lo := posOf k.cs (s.lzPos + 1) + 1)
    (hi := s.lzPos) (by omega) (by unfold posOf; omega) hP (by rw [← hpos]; exact hD.ti) hFle
  exact this.lo_mono (by unfold posOf; omega)

/-! ### the private skip and `skip` -/

theorem skipTree_binv {P : Bt4Params} {c : Cfg} {data : Array UInt8} (hH : Hyp P c data) {s : St}
    (hI : Inv P c data s) (hB : BInv P c data s) (hp : ¬ pending P c data s.pos) (lg : Log) (niceLimit : Nat)
    (hNn : niceLimit = min c.niceLen (data.size - s.pos)) :
    BInv P c data (skipTree P c data { (stepHs P c data s).st with log := lg } niceLimit (stepHs P c data s).cur) := by
  have hok := hH.ok
  have hD := descent hH hI hB hp 0 niceLimit
  obtain ⟨_, h2, _, _, _⟩ := step_facts hH hI hp
  have h2 : (stepHs P c data s).st.lzPos = s.lzPos + 1 := h2
  have hkcs : (ctxOf P c (stepHs P c data s).st 0 niceLimit).cs = cyclicSize P c := rfl
  have hNn' : (ctxOf P c (stepHs P c data s).st 0 niceLimit).niceLimit =
      nw data (ctxOf P c (stepHs P c data s).st 0 niceLimit).cs c.niceLen (s.lzPos + 1) := by
    have h1 := hD.core.hi
    have h3 := hD.p
    rw [hkcs] at h1
    have h4 : s.lzPos + 1 - cyclicSize P c - 1 = s.pos := by omega
    show niceLimit = min c.niceLen (data.size - (s.lzPos + 1 - cyclicSize P c - 1))
    rw [h4]; exact hNn
  have hn0 : 0 < niceLimit := by
    have := hH.nice
    rcases movePos_cases hH s with ⟨hp', _⟩ | ⟨_, h3, _⟩
    · exact absurd hp' hp
    · omega
  rw [skipTree_eq]
  have hpost := skipLoop_bst hok (ctxOf P c (stepHs P c data s).st 0 niceLimit) hD.core hD.cp hNn'
    (depthLimit P c) (stepHs P c data s).st.tree (shl P (stepHs P c data s).st.cyclicPos + 1)
    (shl P (stepHs P c data s).st.cyclicPos) 0 0 (stepHs P c data s).cur lg hD.inv hD.tbl hD.cur hn0 hn0
  have htr := skipLoop_tree P data (ctxOf P c (stepHs P c data s).st 0 niceLimit) (depthLimit P c)
    (stepHs P c data s).st.tree (shl P (stepHs P c data s).st.cyclicPos + 1)
    (shl P (stepHs P c data s).st.cyclicPos) 0 0 (stepHs P c data s).cur lg hD.tbl hD.cur
  have hfin := descent_finish hH hD hNn' htr.1 hpost
  constructor
  · show (stepHs P c data s).st.cyclicPos = ((stepHs P c data s).st.lzPos - 1) % cyclicSize P c
    have := hD.cp
    exact this
  · show TInv data (cyclicSize P c) c.niceLen _ ((stepHs P c data s).st.lzPos + 1 - cyclicSize P c)
      (stepHs P c data s).st.lzPos
    rw [h2]
    exact hfin

theorem skipOne_binv {P : Bt4Params} {c : Cfg} {data : Array UInt8} (hH : Hyp P c data) {s : St}
    (hI : Inv P c data s) (hB : BInv P c data s) : BInv P c data (skipOne P c data s) := by
  rw [skipOne_eq]
  have hml := hH.nice
  rcases movePos_cases hH s with ⟨hp, hmv⟩ | ⟨hp, h3, hmv⟩
  · simp only [hmv]
    rw [if_pos ⟨by omega, trivial⟩]
    exact hB
  · simp only [hmv]
    rw [if_neg (by omega)]
    have := skipTree_binv hH hI hB hp (stepHs P c data s).st.log
      (if data.size - s.pos < c.niceLen then data.size - s.pos else c.niceLen) (by split <;> omega)
    exact this

theorem skip_binv {P : Bt4Params} {c : Cfg} {data : Array UInt8} (hH : Hyp P c data) (n : Nat) :
    ∀ {s : St}, Inv P c data s → BInv P c data s → BInv P c data (skip P c data n s) := by
  induction n with
  | zero => intro s _ h; exact h
  | succ n ih => intro s hI hB; exact ih (skipOne_inv hH hI) (skipOne_binv hH hI hB)

/-! ### `find_matches` -/

/-- **(B5)** in a state satisfying both invariants, `find` keeps the tree invariant and every match it reports
    (hash candidates and tree walk, any `depth_limit`) is a real repetition inside data and dictionary -/
theorem find_bst {P : Bt4Params} {c : Cfg} {data : Array UInt8} (hA : HypA P c data) {s : St}
    (hI : Inv P c data s) (hB : BInv P c data s) :
    BInv P c data (find P c data s).1 ∧
    ∀ m ∈ (find P c data s).2.toList, ValidMatch data c.dict s.pos (min c.mlmax (data.size - s.pos)) m := by
  have hH := hA.toHyp
  have hok := hH.ok
  by_cases hp : pending P c data s.pos
  · rw [find_pending hH hp]
    exact ⟨hB, fun m hm => by simp at hm⟩
  have hcand := hash_candidates_valid hH hI
  unfold hashCandMatches at hcand
  rw [if_neg hp] at hcand
  obtain ⟨hk, hp0⟩ := stepK_facts hH hI hp
  have hml := hA.niceMl
  have hna := hA.niceAvail
  have hav := avail4 hA hp
  have hnice : niceLimitOf c (data.size - s.pos) = min c.niceLen (data.size - s.pos) := by
    unfold niceLimitOf; split <;> omega
  rw [find_nonpending hH hp]
  split
  · exact ⟨skipTree_binv hH hI hB hp (stepCd P c data s).log _ hnice, hcand⟩
  · rename_i hne
    have hD : Descent P c data s (stepK P c data s) :=
      descent hH hI hB hp (lenLimitOf c (data.size - s.pos)) (niceLimitOf c (data.size - s.pos))
    have hkcs : (stepK P c data s).cs = cyclicSize P c := rfl
    have hnl : (stepK P c data s).niceLimit = niceLimitOf c (data.size - s.pos) := rfl
    have hll : (stepK P c data s).lenLimit = lenLimitOf c (data.size - s.pos) := rfl
    have hNn : (stepK P c data s).niceLimit = nw data (stepK P c data s).cs c.niceLen (s.lzPos + 1) := by
      have h1 := hD.core.hi
      have h3 := hD.p
      rw [hkcs] at h1
      have h4 : s.lzPos + 1 - cyclicSize P c - 1 = s.pos := by omega
      show niceLimitOf c (data.size - s.pos) = min c.niceLen (data.size - (s.lzPos + 1 - cyclicSize P c - 1))
      rw [h4]; exact hnice
    have hNL : (stepK P c data s).niceLimit ≤ (stepK P c data s).lenLimit := by
      rw [hnl, hll, hnice]; unfold lenLimitOf; split <;> omega
    have hfl := ok_floor hok
    have hflt := ok_floor_lt hok
    have hn0 : 0 < (stepK P c data s).niceLimit := by rw [hnl, hnice]; omega
    have hcases := extendCands_cases hok data (stepK P c data s).p (stepK P c data s).cs (stepHs P c data s).delta2
      (stepHs P c data s).delta3 (lenLimitOf c (data.size - s.pos)) (stepHs P c data s).st.log
    have hcd : stepCd P c data s = extendCands data (stepK P c data s).p (lenLimitOf c (data.size - s.pos))
        (hashCands P data (stepK P c data s).p (stepK P c data s).cs (stepHs P c data s).delta2
          (stepHs P c data s).delta3 (stepHs P c data s).st.log) := rfl
    rw [← hcd] at hcases
    have hlb : 2 ≤ stepLenBest P c data s ∧ stepLenBest P c data s < (stepK P c data s).niceLimit := by
      show 2 ≤ (if (stepCd P c data s).lenBest < P.lenBestFloor then P.lenBestFloor else (stepCd P c data s).lenBest) ∧
        (if (stepCd P c data s).lenBest < P.lenBestFloor then P.lenBestFloor else (stepCd P c data s).lenBest) <
          (stepK P c data s).niceLimit
      split
      · rw [hnl, hnice]; omega
      · rename_i hge
        have hsz : (stepCd P c data s).ms.size > 0 := by
          rcases hcases with ⟨_, l0⟩ | ⟨_, _, m0, _⟩ | ⟨_, _, m0, _⟩ | ⟨_, _, _, _, _, m0, _⟩
          · omega
          · rw [m0]; exact Nat.zero_lt_one
          · rw [m0]; exact Nat.zero_lt_one
          · rw [m0]; exact Nat.zero_lt_succ 1
        have : ¬ geOrGt P.niceStopGe (stepCd P c data s).lenBest (niceLimitOf c (data.size - s.pos)) = true :=
          fun h' => hne ⟨hsz, h'⟩
        rw [ok_nice hok, geOrGt_true, decide_eq_true_eq] at this
        rw [hnl]; omega
    have hms : ∀ m ∈ (stepCd P c data s).ms.toList,
        ValidMatch data c.dict (stepK P c data s).p (min c.mlmax (data.size - (stepK P c data s).p)) m := by
      rw [hp0]; exact hcand
    have hloop := findLoop_bst hok (stepK P c data s) hk hD.cp hNn hNL (depthLimit P c)
      (stepHs P c data s).st.tree (shl P (stepHs P c data s).st.cyclicPos + 1)
      (shl P (stepHs P c data s).st.cyclicPos) 0 0 (stepHs P c data s).cur (stepLenBest P c data s)
      (stepCd P c data s).ms (stepCd P c data s).log hD.inv hD.tbl hD.cur hlb.1 hlb.2 hn0 hn0 hms
    have htr := findLoop_tree P data (stepK P c data s) (depthLimit P c)
      (stepHs P c data s).st.tree (shl P (stepHs P c data s).st.cyclicPos + 1)
      (shl P (stepHs P c data s).st.cyclicPos) 0 0 (stepHs P c data s).cur (stepLenBest P c data s)
      (stepCd P c data s).ms (stepCd P c data s).log hD.tbl hD.cur
    have hfin := descent_finish hH hD hNn htr.1 hloop.1
    obtain ⟨_, h2, _, _, _⟩ := step_facts hH hI hp
    have h2 : (stepHs P c data s).st.lzPos = s.lzPos + 1 := h2
    refine ⟨⟨?_, ?_⟩, ?_⟩
    · show (stepHs P c data s).st.cyclicPos = ((stepHs P c data s).st.lzPos - 1) % cyclicSize P c
      exact hD.cp
    · show TInv data (cyclicSize P c) c.niceLen (stepLoop P c data s).1
        ((stepHs P c data s).st.lzPos + 1 - cyclicSize P c) (stepHs P c data s).st.lzPos
      rw [h2]
      exact hfin
    · have := hloop.2
      rw [hp0] at this
      exact this

theorem runOp_binv {P : Bt4Params} {c : Cfg} {data : Array UInt8} (hA : HypA P c data) (op : Nat) {s : St}
    (tr : Array (Nat × List Match)) (hI : Inv P c data s) (hB : BInv P c data s) :
    BInv P c data (runOp P c data op s tr).1 := by
  unfold runOp
  split
  · exact (find_bst hA hI hB).1
  · exact skip_binv hA.toHyp op hI hB

theorem runOps_binv {P : Bt4Params} {c : Cfg} {data : Array UInt8} (hA : HypA P c data) (ops : List Nat) :
    ∀ {s : St} (tr : Array (Nat × List Match)), Inv P c data s → BInv P c data s →
      BInv P c data (runOps P c data ops s tr).1 := by
  induction ops with
  | nil => intro s tr _ h; exact h
  | cons op rest ih =>
    intro s tr hI hB
    unfold runOps
    split
    · exact hB
    · exact ih _ (runOp_inv hA.toHyp op tr hI) (runOp_binv hA op tr hI hB)

/-- every state reachable by a script of `find_matches()` / `skip(n)` calls satisfies the tree invariant -/
theorem runScript_binv {P : Bt4Params} {c : Cfg} {data : Array UInt8} (hA : HypA P c data) (script : List Nat)
    (lg : Bool) : BInv P c data (runScript P c data script lg).1 :=
  runOps_binv hA script #[] (init_inv hA.toHyp lg) (init_binv hA.toHyp lg)

end LzmaVerif.Mf.Bt4
