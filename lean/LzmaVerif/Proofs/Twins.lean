import LzmaVerif.Model.Twins
import LzmaVerif.Model.Rc

namespace LzmaVerif.Twins

/-! ## Parameters -/

/-- the values of the source constants for which the twin theorems are proved -/
def TwinParams.Ok (P : TwinParams) : Prop :=
  P.wordSize = 8 ∧ P.tzDiv = 8 ∧ P.bufLimitSub = 2 ∧ P.u16Bytes = 2 ∧ P.asmLimitSub = 1 ∧
  P.topValue = 2 ^ 24 ∧ P.shiftBits = 8 ∧ P.signShift = 31 ∧ P.alignment = 64 ∧ P.elemSize = 4 ∧
  P.rcBufSub = 5 ∧ P.rcBufSize = 65536

instance (P : TwinParams) : Decidable P.Ok := by unfold TwinParams.Ok; infer_instance

theorem srcParams_ok : srcParams.Ok := by decide

/-- all entries are bytes -/
def Bytes (l : List Nat) : Prop := ∀ b ∈ l, b < 256

/-! ## T1 -/

theorem xor_eq_zero_imp {a b : Nat} (h : a ^^^ b = 0) : a = b := by
  have h1 : a ^^^ (a ^^^ b) = b := by rw [← Nat.xor_assoc, Nat.xor_self, Nat.zero_xor]
  rw [h, Nat.xor_zero] at h1
  exact h1

theorem tzAux_succ_even {f x : Nat} (h : x % 2 = 0) : tzAux (f + 1) x = 1 + tzAux f (x / 2) := by
  simp [tzAux, h]

theorem tzAux_succ_odd {f x : Nat} (h : x % 2 = 1) : tzAux (f + 1) x = 0 := by
  simp [tzAux, h]

theorem tzAux_low8_eq {f x : Nat} (h : x % 256 = 0) : tzAux (f + 8) x = 8 + tzAux f (x / 256) := by
  have e : x / 256 = x / 2 / 2 / 2 / 2 / 2 / 2 / 2 / 2 := by omega
  rw [e]
  rw [show f + 8 = f + 7 + 1 from rfl, tzAux_succ_even (by omega)]
  rw [show f + 7 = f + 6 + 1 from rfl, tzAux_succ_even (by omega)]
  rw [show f + 6 = f + 5 + 1 from rfl, tzAux_succ_even (by omega)]
  rw [show f + 5 = f + 4 + 1 from rfl, tzAux_succ_even (by omega)]
  rw [show f + 4 = f + 3 + 1 from rfl, tzAux_succ_even (by omega)]
  rw [show f + 3 = f + 2 + 1 from rfl, tzAux_succ_even (by omega)]
  rw [show f + 2 = f + 1 + 1 from rfl, tzAux_succ_even (by omega)]
  rw [tzAux_succ_even (by omega)]
  omega

theorem tzAux_le_of_mod_ne : ∀ (k f x : Nat), x % 2 ^ (k + 1) ≠ 0 → tzAux (f + (k + 1)) x ≤ k := by
  intro k
  induction k with
  | zero =>
    intro f x h
    have : x % 2 = 1 := by omega
    simp [tzAux, this]
  | succ k ih =>
    intro f x h
    by_cases hx : x % 2 = 1
    · show tzAux (f + (k + 1) + 1) x ≤ k + 1
      rw [tzAux_succ_odd hx]; omega
    · have hx0 : x % 2 = 0 := by omega
      show tzAux (f + (k + 1) + 1) x ≤ k + 1
      rw [tzAux_succ_even hx0]
      have : (x / 2) % 2 ^ (k + 1) ≠ 0 := by
        intro h0
        apply h
        have e : x = 2 * (x / 2) := by omega
        rw [e, Nat.pow_succ, Nat.mul_comm (2 ^ (k + 1)) 2, Nat.mul_mod_mul_left, h0]
      have := ih f (x / 2) this
      omega

theorem tzAux_low8_ne {f x : Nat} (h : x % 256 ≠ 0) : tzAux (f + 8) x < 8 := by
  have := tzAux_le_of_mod_ne 7 f x (by simpa using h)
  simp only [Nat.reduceAdd] at this
  omega

theorem leVal_inj : ∀ (as bs : List Nat), as.length = bs.length → Bytes as → Bytes bs →
    leVal as = leVal bs → as = bs
  | [], [], _, _, _, _ => rfl
  | [], _ :: _, h, _, _, _ => by simp at h
  | _ :: _, [], h, _, _, _ => by simp at h
  | a :: as, b :: bs, hl, ha, hb, h => by
    have ha0 : a < 256 := ha a (by simp)
    have hb0 : b < 256 := hb b (by simp)
    simp only [leVal] at h
    have h1 : a = b := by omega
    have h2 : leVal as = leVal bs := by omega
    have := leVal_inj as bs (by simpa using hl) (fun x hx => ha x (by simp [hx]))
      (fun x hx => hb x (by simp [hx])) h2
    rw [h1, this]

/-- **Core lemma.**  For two equally long byte strings with different little-endian values,
    `trailing_zeros(w1 ^ w2) / 8` is the index of the first differing byte
    (= the length of the common prefix). -/
theorem tz_xor_div8 : ∀ (as bs : List Nat), as.length = bs.length → Bytes as → Bytes bs →
    leVal as ≠ leVal bs →
    tz (8 * as.length) (leVal as ^^^ leVal bs) / 8 = byteMatchLen as bs
  | [], [], _, _, _, h => by simp [leVal] at h
  | [], _ :: _, h, _, _, _ => by simp at h
  | _ :: _, [], h, _, _, _ => by simp at h
  | a :: as, b :: bs, hl, ha, hb, h => by
    have ha0 : a < 256 := ha a (by simp)
    have hb0 : b < 256 := hb b (by simp)
    have e256 : (256 : Nat) = 2 ^ 8 := by decide
    have hmod : (leVal (a :: as) ^^^ leVal (b :: bs)) % 256 = a ^^^ b := by
      rw [e256, Nat.xor_mod_two_pow]
      simp only [leVal]
      congr 1 <;> omega
    have hdiv : (leVal (a :: as) ^^^ leVal (b :: bs)) / 256 = leVal as ^^^ leVal bs := by
      rw [e256, Nat.xor_div_two_pow]
      simp only [leVal]
      congr 1 <;> omega
    have hlen : 8 * (a :: as).length = 8 * as.length + 8 := by simp; omega
    unfold tz
    rw [hlen]
    by_cases hab : a = b
    · have h0 : (leVal (a :: as) ^^^ leVal (b :: bs)) % 256 = 0 := by rw [hmod, hab, Nat.xor_self]
      rw [tzAux_low8_eq h0, hdiv]
      have hne : leVal as ≠ leVal bs := by
        intro he; apply h; simp only [leVal]; rw [hab, he]
      have ih := tz_xor_div8 as bs (by simpa using hl) (fun x hx => ha x (by simp [hx]))
        (fun x hx => hb x (by simp [hx])) hne
      unfold tz at ih
      simp only [byteMatchLen, hab, if_true]
      omega
    · have h0 : (leVal (a :: as) ^^^ leVal (b :: bs)) % 256 ≠ 0 := by
        rw [hmod]; intro hx; exact hab (xor_eq_zero_imp hx)
      have := tzAux_low8_ne (f := 8 * as.length) h0
      simp only [byteMatchLen, hab, if_false]
      omega

theorem byteMatchLen_append : ∀ (u v x y : List Nat), u.length = v.length →
    byteMatchLen (u ++ x) (v ++ y) = if u = v then u.length + byteMatchLen x y else byteMatchLen u v
  | [], [], x, y, _ => by simp
  | [], _ :: _, _, _, h => by simp at h
  | _ :: _, [], _, _, h => by simp at h
  | a :: u, b :: v, x, y, h => by
    have ih := byteMatchLen_append u v x y (by simpa using h)
    by_cases hab : a = b
    · subst hab
      simp only [List.cons_append, byteMatchLen, if_true, ih, List.cons.injEq, true_and,
        List.length_cons]
      split <;> omega
    · simp [byteMatchLen, hab]

theorem byteMatchLen_nil_left (l : List Nat) : byteMatchLen [] l = 0 := by
  cases l <;> rfl

theorem byteMatchLen_nil_right (l : List Nat) : byteMatchLen l [] = 0 := by
  cases l <;> rfl

theorem byteMatchLen_le_left : ∀ (a b : List Nat), byteMatchLen a b ≤ a.length
  | [], b => by simp [byteMatchLen_nil_left]
  | _ :: _, [] => by simp [byteMatchLen]
  | x :: a, y :: b => by
    have := byteMatchLen_le_left a b
    simp only [byteMatchLen, List.length_cons]
    split <;> omega

theorem slice_length (l : List Nat) (a n : Nat) (h : a + n ≤ l.length) : (slice l a n).length = n := by
  simp [slice]; omega

theorem Bytes.slice {l : List Nat} (h : Bytes l) (a n : Nat) : Bytes (slice l a n) := by
  intro b hb
  exact h b (List.mem_of_mem_drop (List.mem_of_mem_take hb))

theorem drop_eq_slice_append (l : List Nat) (m w : Nat) :
    l.drop m = slice l m w ++ l.drop (m + w) := by
  unfold slice
  rw [← List.drop_drop, List.take_append_drop]

/-- the word/byte loop over two slices computes `matched + lcp(rest)` -/
theorem matchLoop_slices (P : TwinParams) (hW : 0 < P.wordSize) (hd : P.tzDiv = 8)
    (s1 s2 : List Nat) (h1 : Bytes s1) (h2 : Bytes s2) :
    ∀ (f m : Nat), m ≤ min s1.length s2.length → min s1.length s2.length < f + m →
      matchLoop P (min s1.length s2.length)
        (fun m => leVal (slice s1 m P.wordSize)) (fun m => leVal (slice s2 m P.wordSize))
        (fun m => s1.getD m 0) (fun m => s2.getD m 0) f m
      = m + byteMatchLen (s1.drop m) (s2.drop m) := by
  intro f
  induction f with
  | zero => intro m h h'; omega
  | succ f ih =>
    intro m hm hf
    unfold matchLoop
    by_cases hw : m + P.wordSize ≤ min s1.length s2.length
    · rw [if_pos hw]
      have l1 : (slice s1 m P.wordSize).length = P.wordSize := slice_length _ _ _ (by omega)
      have l2 : (slice s2 m P.wordSize).length = P.wordSize := slice_length _ _ _ (by omega)
      rw [drop_eq_slice_append s1 m P.wordSize, drop_eq_slice_append s2 m P.wordSize,
        byteMatchLen_append _ _ _ _ (by rw [l1, l2])]
      by_cases he : leVal (slice s1 m P.wordSize) = leVal (slice s2 m P.wordSize)
      · have hs := leVal_inj _ _ (by rw [l1, l2]) (h1.slice _ _) (h2.slice _ _) he
        simp only [he, if_true]
        rw [if_pos hs, ih (m + P.wordSize) hw (by omega), l1]
        omega
      · have hs : slice s1 m P.wordSize ≠ slice s2 m P.wordSize := fun h => he (by rw [h])
        simp only [he, if_false]
        rw [if_neg hs, hd]
        have := tz_xor_div8 _ _ (by rw [l1, l2]) (h1.slice m P.wordSize) (h2.slice m P.wordSize) he
        rw [l1] at this
        rw [this]
    · rw [if_neg hw]
      by_cases hlt : m < min s1.length s2.length
      · rw [if_pos hlt]
        have hl1 : m < s1.length := by omega
        have hl2 : m < s2.length := by omega
        rw [List.drop_eq_getElem_cons hl1, List.drop_eq_getElem_cons hl2]
        have g1 : s1.getD m 0 = s1[m] := by simp [List.getD, hl1]
        have g2 : s2.getD m 0 = s2[m] := by simp [List.getD, hl2]
        simp only [g1, g2, byteMatchLen]
        by_cases hb : s1[m] = s2[m]
        · rw [if_pos hb, if_pos hb, ih (m + 1) (by omega) (by omega)]; omega
        · rw [if_neg hb, if_neg hb]; rfl
      · rw [if_neg hlt]
        have : s1.drop m = [] ∨ s2.drop m = [] := by
          by_cases hc : s1.length ≤ s2.length
          · left; apply List.drop_eq_nil_of_le; omega
          · right; apply List.drop_eq_nil_of_le; omega
        rcases this with h | h <;> rw [h] <;> simp [byteMatchLen_nil_left, byteMatchLen_nil_right]

/-- **T1 (a), C14.**  The word-at-a-time `extend_match_safe` (safe variant) is the byte-wise
    longest common prefix. -/
theorem extendMatchSafe_eq_byteMatchLen (P : TwinParams) (hW : 0 < P.wordSize) (hd : P.tzDiv = 8)
    (s1 s2 : List Nat) (h1 : Bytes s1) (h2 : Bytes s2) :
    extendMatchSafe P s1 s2 = byteMatchLen s1 s2 := by
  unfold extendMatchSafe
  have := matchLoop_slices P hW hd s1 s2 h1 h2 (min s1.length s2.length + 1) 0 (by omega) (by omega)
  simpa using this

/-- the trace-producing recursion computes the same result -/
theorem matchLoopT_fst (P : TwinParams) (len : Nat) (w1 w2 b1 b2 : Nat → Nat) :
    ∀ (f m : Nat), (matchLoopT P len w1 w2 b1 b2 f m).1 = matchLoop P len w1 w2 b1 b2 f m := by
  intro f
  induction f with
  | zero => intro m; rfl
  | succ f ih =>
    intro m
    unfold matchLoopT matchLoop
    split
    · split
      · exact ih _
      · rfl
    · split
      · split
        · exact ih _
        · rfl
      · rfl

/-- the loop only looks at words with `m + W ≤ len` and bytes with `m < len` -/
theorem matchLoop_congr (P : TwinParams) (len : Nat) (w1 w2 b1 b2 w1' w2' b1' b2' : Nat → Nat)
    (hw1 : ∀ m, m + P.wordSize ≤ len → w1 m = w1' m) (hw2 : ∀ m, m + P.wordSize ≤ len → w2 m = w2' m)
    (hb1 : ∀ m, m < len → b1 m = b1' m) (hb2 : ∀ m, m < len → b2 m = b2' m) :
    ∀ (f m : Nat), matchLoop P len w1 w2 b1 b2 f m = matchLoop P len w1' w2' b1' b2' f m := by
  intro f
  induction f with
  | zero => intro m; rfl
  | succ f ih =>
    intro m
    unfold matchLoop
    by_cases hw : m + P.wordSize ≤ len
    · simp only [if_pos hw, hw1 m hw, hw2 m hw, ih]
    · simp only [if_neg hw]
      by_cases hl : m < len
      · simp only [if_pos hl, hb1 m hl, hb2 m hl, ih]
      · simp only [if_neg hl]

theorem rdBytes_eq_slice (mem : List Nat) (i n : Nat) (h : i + n ≤ mem.length) :
    rdBytes mem i n = slice mem i n := by
  apply List.ext_getElem
  · simp [rdBytes, slice]; omega
  · intro k hk1 hk2
    simp only [rdBytes, List.length_map, List.length_range] at hk1
    simp [rdBytes, slice, List.getD]
    rw [List.getElem?_eq_getElem (by omega)]
    simp

theorem slice_slice (l : List Nat) (a n m w : Nat) (h : m + w ≤ n) :
    slice (slice l a n) m w = slice l (a + m) w := by
  simp only [slice, List.drop_take, List.take_take, List.drop_drop]
  congr 1
  omega

theorem getD_slice (l : List Nat) (a n m : Nat) (h : m < n) :
    (slice l a n).getD m 0 = l.getD (a + m) 0 := by
  simp [slice, List.getD, h]

/-- **T1, C14.**  The raw-pointer variant on two in-bounds regions of `mem` returns what the safe
    variant returns on the corresponding slices. -/
theorem extendMatchPtr_eq_safe (P : TwinParams) (mem : List Nat) (p1 n1 p2 n2 : Nat)
    (hb1 : p1 + n1 ≤ mem.length) (hb2 : p2 + n2 ≤ mem.length) :
    (extendMatchPtrT P mem p1 n1 p2 n2).1 = extendMatchSafe P (slice mem p1 n1) (slice mem p2 n2) := by
  unfold extendMatchPtrT extendMatchSafe
  rw [matchLoopT_fst, slice_length _ _ _ hb1, slice_length _ _ _ hb2]
  apply matchLoop_congr
  · intro m hm
    rw [rdBytes_eq_slice _ _ _ (by omega), slice_slice _ _ _ _ _ (by omega)]
  · intro m hm
    rw [rdBytes_eq_slice _ _ _ (by omega), slice_slice _ _ _ _ _ (by omega)]
  · intro m hm; rw [getD_slice _ _ _ _ (by omega)]
  · intro m hm; rw [getD_slice _ _ _ _ (by omega)]

/-- every fetch `(offset, width)` of the loop lies inside `[0, len)` -/
theorem matchLoopT_reads (P : TwinParams) (len : Nat) (w1 w2 b1 b2 : Nat → Nat) :
    ∀ (f m : Nat) (r : Nat × Nat), r ∈ (matchLoopT P len w1 w2 b1 b2 f m).2 → r.1 + r.2 ≤ len := by
  intro f
  induction f with
  | zero => intro m r h; simp [matchLoopT] at h
  | succ f ih =>
    intro m r h
    unfold matchLoopT at h
    by_cases hw : m + P.wordSize ≤ len
    · rw [if_pos hw] at h
      by_cases he : w1 m = w2 m
      · rw [if_pos he] at h
        simp only [List.mem_cons] at h
        rcases h with h | h
        · subst h; exact hw
        · exact ih _ _ h
      · rw [if_neg he] at h
        simp only [List.mem_cons, List.not_mem_nil, or_false] at h
        subst h; exact hw
    · rw [if_neg hw] at h
      by_cases hl : m < len
      · rw [if_pos hl] at h
        by_cases he : b1 m = b2 m
        · rw [if_pos he] at h
          simp only [List.mem_cons] at h
          rcases h with h | h
          · subst h; show m + 1 ≤ len; omega
          · exact ih _ _ h
        · rw [if_neg he] at h
          simp only [List.mem_cons, List.not_mem_nil, or_false] at h
          subst h; show m + 1 ≤ len; omega
      · rw [if_neg hl] at h
        simp at h

/-- **T1 (b), C15.**  Every 8-byte word (and every tail byte) the raw-pointer loop reads at offset
    `m` satisfies `m + width ≤ min n1 n2`. -/
theorem extendMatchPtrT_reads (P : TwinParams) (mem : List Nat) (p1 n1 p2 n2 : Nat) :
    ∀ r ∈ (extendMatchPtrT P mem p1 n1 p2 n2).2, r.1 + r.2 ≤ min n1 n2 :=
  fun r h => matchLoopT_reads P _ _ _ _ _ _ _ r h

theorem mem_absReads {p1 p2 : Nat} {rs : List (Nat × Nat)} {i : Nat} (h : i ∈ absReads p1 p2 rs) :
    ∃ r ∈ rs, ∃ k, k < r.2 ∧ (i = p1 + r.1 + k ∨ i = p2 + r.1 + k) := by
  simp only [absReads, List.mem_flatMap, List.mem_append, List.mem_map, List.mem_range] at h
  obtain ⟨r, hr, h | h⟩ := h
  · obtain ⟨k, hk, rfl⟩ := h; exact ⟨r, hr, k, hk, Or.inl rfl⟩
  · obtain ⟨k, hk, rfl⟩ := h; exact ⟨r, hr, k, hk, Or.inr rfl⟩

/-- **T1 (b), C15.**  Optimized `extend_match`: every index read through `get_unchecked` /
    `read_unaligned` / `*ptr` is inside `buf`, for ALL argument values (no precondition on
    `read_pos`, `limit`, `distance` beyond what makes `start2 = start1 - distance ≤ start1`
    meaningful in `usize`, which truncated subtraction on `Nat` gives for free). -/
theorem extendMatchOptT_inBounds (P : TwinParams) (buf : List Nat) (readPos curLen dist limit : Nat) :
    ∀ i ∈ (extendMatchOptT P buf readPos curLen dist limit).2, i < buf.length := by
  intro i hi
  unfold extendMatchOptT at hi
  obtain ⟨r, hr, k, hk, h⟩ := mem_absReads hi
  have := extendMatchPtrT_reads P buf _ _ _ _ r hr
  rcases h with h | h <;> omega

/-- **T1, C14.**  Whenever the portable `extend_match` does not panic on its slice bounds, the
    optimized one returns the same length. -/
theorem extendMatchOpt_eq_portable (P : TwinParams) (buf : List Nat) (readPos curLen dist limit r : Nat)
    (h : extendMatchPortable P buf readPos curLen dist limit = some r) :
    (extendMatchOptT P buf readPos curLen dist limit).1 = r := by
  unfold extendMatchPortable at h
  simp only at h
  split at h
  · rename_i hb
    simp only [Option.some.injEq] at h
    unfold extendMatchOptT
    simp only
    have hm : min (extLogical limit curLen) (buf.length - (readPos + curLen)) = extLogical limit curLen := by
      omega
    rw [hm, extendMatchPtr_eq_safe P buf _ _ _ _ hb (by omega)]
    exact h
  · simp at h

/-- both variants of `extend_match` against the specification -/
theorem extendMatchPortable_spec (P : TwinParams) (hW : 0 < P.wordSize) (hd : P.tzDiv = 8)
    (buf : List Nat) (hB : Bytes buf) (readPos curLen dist limit : Nat) (hc : curLen ≤ limit)
    (hb : readPos + curLen + (limit - curLen) ≤ buf.length) :
    extendMatchPortable P buf readPos curLen dist limit =
      some (curLen + byteMatchLen (slice buf (readPos + curLen) (limit - curLen))
                                  (slice buf (readPos + curLen - dist) (limit - curLen))) := by
  unfold extendMatchPortable
  have he : extLogical limit curLen = limit - curLen := by unfold extLogical; rw [if_pos hc]
  simp only [he, if_pos hb]
  rw [extendMatchSafe_eq_byteMatchLen P hW hd _ _ (hB.slice _ _) (hB.slice _ _)]

/-! ### T1: non-vacuity and witnesses -/

example : extendMatchSafe srcParams [1,2,3,4,5,6,7,8,9,10,11,12,13] [1,2,3,4,5,6,7,8,9,10,11,99,13] = 11
    ∧ byteMatchLen [1,2,3,4,5,6,7,8,9,10,11,12,13] [1,2,3,4,5,6,7,8,9,10,11,99,13] = 11 := by decide

/-- the word path itself (difference inside the first word, byte 5): `tz / 8` is what decides -/
example : extendMatchSafe srcParams [1,2,3,4,5,6,7,8,9] [1,2,3,4,5,0x46,7,8,9] = 5 := by decide

/-- the `/ 8` matters: with `/ 4` the same input gives 11 instead of 5 -/
example : extendMatchSafe { srcParams with tzDiv := 4 } [1,2,3,4,5,6,7,8,9] [1,2,3,4,5,0x46,7,8,9] = 11 := by
  decide

/-- hypotheses of `extendMatchOpt_eq_portable` are satisfiable; the optimized variant reads
    indices 13..24 and 0..11 of a 26-byte buffer -/
example :
    let buf := [1,2,3,4,5,6,7,8,9,10,11,12,13,1,2,3,4,5,6,7,8,9,10,11,99,13]
    extendMatchPortable srcParams buf 13 0 13 13 = some 11 ∧
    (extendMatchOptT srcParams buf 13 0 13 13).1 = 11 := by decide

/-- Outside the caller's invariant (`limit` larger than what is left in the buffer) the variants
    differ observably: the portable one panics on the slice bound, the optimized one clamps and
    returns a length. -/
example :
    let buf := [1,2,3,4,5,6,7,8,9,10,11,12,13,1,2,3,4,5,6,7,8,9,10,11,99,13]
    extendMatchPortable srcParams buf 13 0 13 273 = none ∧
    (extendMatchOptT srcParams buf 13 0 13 273).1 = 11 := by decide

/-! ## T2 -/

/-- **T2 (a), C15.**  With a clamp limit `lim ≤ bufSize - 2` every clamped index leaves room for a
    `u16`, whatever `read_pos` (or the wrapped `read_pos - match_dist`) is. -/
theorem clamp_inBounds (bufSize lim i : Nat) (h : lim + 2 ≤ bufSize) : min i lim + 2 ≤ bufSize := by
  omega

/-- … and `lim + 2 ≤ bufSize` is necessary: `bufSize - 2` is the largest admissible limit. -/
theorem clamp_inBounds_iff (bufSize lim : Nat) :
    (∀ i, min i lim + 2 ≤ bufSize) ↔ lim + 2 ≤ bufSize := by
  constructor
  · intro h; have := h lim; omega
  · intro h i; omega

theorem bufLimitU16_largest (P : TwinParams) (hs : P.bufLimitSub = 2) (bufSize : Nat)
    (h2 : 2 ≤ bufSize) :
    (∀ i, min i (bufLimitU16 P bufSize) + 2 ≤ bufSize) ∧
    (∀ lim, (∀ i, min i lim + 2 ≤ bufSize) → lim ≤ bufLimitU16 P bufSize) := by
  unfold bufLimitU16
  rw [hs]
  constructor
  · intro i; omega
  · intro lim h; have := h lim; omega

/-- witness: with `buf_size - 1` as limit, `read_pos = buf_size - 1` reads the byte at index
    `buf_size`, one past the end -/
theorem bufLimit_sub1_overruns (bufSize : Nat) (h : 1 ≤ bufSize) :
    min (bufSize - 1) (bufSize - 1) + 1 = bufSize := by omega

example : bufLimitU16 { srcParams with bufLimitSub := 1 } 4 = 3 ∧
    (fastRejectOpt { srcParams with bufLimitSub := 1 } [5,5,5,6] 3 1).2 = [3, 4, 2, 3] := by decide

/-- **T2 (a), C15.**  The optimized fast reject reads only inside `buf` for every `read_pos` and
    `match_dist`; `bufLimitSub ≤ buf.len()` is what `checked_sub(..).unwrap()` in the constructor
    guarantees. -/
theorem fastRejectOpt_inBounds (P : TwinParams) (hu : P.u16Bytes ≤ P.bufLimitSub) (buf : List Nat)
    (hlen : P.bufLimitSub ≤ buf.length) (readPos matchDist : Nat) :
    ∀ i ∈ (fastRejectOpt P buf readPos matchDist).2, i < buf.length := by
  intro i hi
  simp only [fastRejectOpt, fastRejectOptWith, bufLimitU16, List.mem_append, List.mem_map,
    List.mem_range] at hi
  rcases hi with ⟨k, hk, rfl⟩ | ⟨k, hk, rfl⟩ <;> omega

theorem getD_lt_of_Bytes {l : List Nat} (h : Bytes l) (i : Nat) : l.getD i 0 < 256 := by
  simp only [List.getD]
  cases hi : l[i]? with
  | none => simp
  | some v => simp; exact h v (List.mem_of_getElem? hi)

theorem rdU16_eq (P : TwinParams) (hu : P.u16Bytes = 2) (mem : List Nat) (i : Nat) :
    rdU16 P mem i = mem.getD i 0 + 256 * mem.getD (i + 1) 0 := by
  simp [rdU16, hu, rdBytes, List.range, List.range.loop, leVal]

/-- **T2 (b), C14.**  Under the caller's invariant (two bytes available at `read_pos`, i.e. the
    portable variant does not panic) and `match_dist ≤ read_pos`, the clamp is the identity and
    "u16 equal" ⇔ "both bytes equal": same verdict. -/
theorem fastRejectOpt_eq_portable (P : TwinParams) (hs : P.bufLimitSub = 2) (hu : P.u16Bytes = 2)
    (buf : List Nat) (hB : Bytes buf) (readPos matchDist : Nat) (hd : matchDist ≤ readPos) (v : Bool)
    (h : fastRejectPortable buf readPos matchDist = some v) :
    (fastRejectOpt P buf readPos matchDist).1 = v := by
  unfold fastRejectPortable at h
  split at h
  · rename_i hb
    simp only [Option.some.injEq] at h
    subst h
    simp only [fastRejectOpt, fastRejectOptWith, bufLimitU16, hs]
    have c0 : min readPos (buf.length - 2) = readPos := by omega
    have c1 : min (readPos - matchDist) (buf.length - 2) = readPos - matchDist := by omega
    have e1 : readPos + 1 - matchDist = readPos - matchDist + 1 := by omega
    rw [c0, c1, rdU16_eq P hu, rdU16_eq P hu, e1]
    have b0 := getD_lt_of_Bytes hB readPos
    have b1 := getD_lt_of_Bytes hB (readPos + 1)
    have b2 := getD_lt_of_Bytes hB (readPos - matchDist)
    have b3 := getD_lt_of_Bytes hB (readPos - matchDist + 1)
    apply decide_eq_decide.mpr
    constructor
    · intro hne
      by_cases h0 : buf.getD readPos 0 = buf.getD (readPos - matchDist) 0
      · right; intro h1; apply hne; rw [h0, h1]
      · left; exact h0
    · intro hor heq
      rcases hor with h0 | h0 <;> apply h0 <;> omega
  · simp at h

example : fastRejectPortable [5,5,5,6] 2 1 = some true ∧ (fastRejectOpt srcParams [5,5,5,6] 2 1).1 = true
    ∧ (1:Nat) ≤ 2 ∧ Bytes [5,5,5,6] := by
  refine ⟨by decide, by decide, by decide, ?_⟩
  intro b hb; simp at hb; omega

/-- witness: an off-by-one limit (`buf_size - 3`) changes the verdict at `read_pos = buf_size - 2`:
    portable rejects (`buf[3] ≠ buf[2]`), the mis-clamped variant compares the u16 at index 1 with
    itself and accepts -/
theorem bufLimit_sub3_diverges :
    fastRejectPortable [5,5,5,6] 2 1 = some true ∧
    (fastRejectOpt { srcParams with bufLimitSub := 3 } [5,5,5,6] 2 1).1 = false := by decide

/-! ## T3 -/

theorem wrap32_id {x : Int} (h : IsI32 x) : wrap32 x = x := by
  unfold IsI32 at h; unfold wrap32; omega

theorem wrap32_isI32 (x : Int) : IsI32 (wrap32 x) := by
  unfold IsI32 wrap32; omega

/-- **T3, C14 (release profile).**  One SIMD lane (`pmaxsd`/`vmaxq_s32` then wrapping
    `psubd`/`vsubq_s32`) and the scalar code (`max` then `-`, which wraps in release builds) are the
    same function on ALL `i32` pairs — no hypothesis on signs. -/
theorem normSimd_eq_normScalar (off p : Int) : normSimd off p = normScalar off p := rfl

/-- **T3, C14 (overflow checks on).**  Whenever the checked scalar subtraction does not panic, the
    SIMD lane returns its value. -/
theorem normSimd_eq_checked (off p r : Int)
    (h : normScalarChecked off p = some r) : normSimd off p = r := by
  unfold normScalarChecked at h
  simp only at h
  split at h
  · rename_i hlt
    simp only [Option.some.injEq] at h
    subst h
    apply wrap32_id
    unfold IsI32
    omega
  · simp at h

/-- with a non-negative offset (the only kind the match finders pass: `0x7FFFFFFF - cyclic_size`
    with `1 ≤ cyclic_size ≤ 2^31 - 1`) the checked subtraction never panics, the result is
    `max p off - off`, and it is a non-negative `i32` -/
theorem normScalarChecked_nonneg_off (off p : Int) (hp : IsI32 p) (ho : 0 ≤ off) :
    normScalarChecked off p = some (max p off - off) ∧ 0 ≤ max p off - off ∧ IsI32 (max p off - off) := by
  have h1 : p < 2147483648 := hp.2
  have : max p off - off < 2147483648 := by omega
  refine ⟨?_, by omega, ?_⟩
  · unfold normScalarChecked
    simp only [this, if_true]
  · unfold IsI32; omega

example : IsI32 5 ∧ IsI32 3 ∧ normScalarChecked 3 5 = some 2 ∧ normSimd 3 5 = 2 := by
  unfold IsI32; decide

/-- witness (negative offset — never produced by the callers): the checked scalar subtraction
    overflows and panics, the SIMD lane wraps to `i32::MIN` -/
theorem norm_negative_offset_diverges :
    normScalarChecked (-1) 2147483647 = none ∧ normSimd (-1) 2147483647 = -2147483648 := by decide

/-- the "subtract first, clamp at 0" formulation agrees with the source's order exactly when the
    wrapping subtraction `p - off` does not wrap -/
theorem normSubFirst_eq_of_no_wrap (off p : Int) (h1 : -2147483648 ≤ p - off)
    (h2 : p - off < 2147483648) : max p off - off = normSimdSubFirst off p := by
  unfold normSimdSubFirst
  rw [wrap32_id ⟨h1, h2⟩]
  omega

/-- **T3 (requested form).**  For `0 ≤ p`, `0 ≤ off`, both `< 2^31`:
    `max p off - off = max (wrapSub p off) 0`. -/
theorem normSubFirst_eq (off p : Int) (hp0 : 0 ≤ p) (hp : p < 2147483648) (ho0 : 0 ≤ off)
    (ho : off < 2147483648) : max p off - off = normSimdSubFirst off p :=
  normSubFirst_eq_of_no_wrap off p (by omega) (by omega)

example : (0:Int) ≤ 7 ∧ (7:Int) < 2147483648 ∧ (0:Int) ≤ 9 ∧ (9:Int) < 2147483648 ∧
    normSimdSubFirst 9 7 = 0 ∧ normSimdSubFirst 7 9 = 2 := by decide

/-- witness: `0 ≤ p` IS needed for the subtract-first formulation (`p = i32::MIN`, `off = 1`: the
    wrapping subtraction yields `i32::MAX`), but NOT for the order the source uses (`max` first),
    which returns 0 -/
theorem normSubFirst_negative_p_diverges :
    normSimdSubFirst 1 (-2147483648) = 2147483647 ∧ normScalar 1 (-2147483648) = 0 ∧
    normSimd 1 (-2147483648) = 0 ∧ normScalarChecked 1 (-2147483648) = some 0 := by decide

/-- zero entries (empty slots, and the padding `AlignedMemoryI32` adds behind the requested
    length) stay zero -/
theorem normScalar_zero (off : Int) (ho0 : 0 ≤ off) : normScalar off 0 = 0 := by
  unfold normScalar wrap32; omega

theorem simdChunks_eq_map (off : Int) (lanes : Nat) :
    ∀ (n : Nat) (l : List Int), l.length ≤ n * lanes → simdChunks off lanes n l = l.map (normSimd off) := by
  intro n
  induction n with
  | zero =>
    intro l h
    have : l = [] := List.eq_nil_of_length_eq_zero (by omega)
    simp [simdChunks, this]
  | succ n ih =>
    intro l h
    have hl : (l.drop lanes).length ≤ n * lanes := by
      rw [List.length_drop, Nat.succ_mul] at *; omega
    rw [simdChunks, ih _ hl, ← List.map_append, List.take_append_drop]

/-- **T3, C14 (list level).**  Scalar code on the unaligned head and tail, vector code on the
    aligned middle — for every vector width and every head length (i.e. every address) — equals
    scalar code on the whole slice. -/
theorem normalizeSimd_eq_scalar (off : Int) (lanes pre : Nat) (ps : List Int) :
    normalizeSimd off lanes pre ps = normalizeScalar off ps := by
  unfold normalizeSimd normalizeScalar
  simp only
  rw [simdChunks_eq_map off lanes _ _ (by rw [List.length_take]; omega)]
  have e : normSimd off = normScalar off := funext (normSimd_eq_normScalar off)
  rw [e, ← List.map_append, ← List.map_append, List.append_assoc, List.take_append_drop,
    List.take_append_drop]

/-- **T3, C15.**  The vector loads/stores cover `pre + n·lanes` elements, which is inside the slice -/
theorem normalizeSimd_chunks_inBounds (lanes pre len : Nat) (h : pre ≤ len) :
    pre + (len - pre) / lanes * lanes ≤ len := by
  have := Nat.div_mul_le_self (len - pre) lanes
  omega

/-- every chunk starts at a multiple of the vector size when the first one does
    (`align_to_mut`'s guarantee); element size 4 -/
theorem normalizeSimd_chunk_aligned (base lanes i : Nat) (h : base % (4 * lanes) = 0) :
    (base + 4 * (i * lanes)) % (4 * lanes) = 0 := by
  have e : 4 * (i * lanes) = (4 * lanes) * i := by
    rw [Nat.mul_comm i lanes, ← Nat.mul_assoc]
  rw [e, Nat.add_mul_mod_self_left, h]

example : normalizeSimd 100 4 3 [1,2,3,4,500,6,7,800,9,10,101,12,13,14,15,16,1000] =
    [0,0,0,0,400,0,0,700,0,0,1,0,0,0,0,0,900] := by decide

/-! ## T4 -/

/-- **T4 (a).**  For `u32` values with `r = range >> 1 < 2^31`: the sign-bit test of the portable
    loop / x86-64 assembly (`(code - r) >> 31 = 0`) and the unsigned comparison of the aarch64
    assembly (`code ≥ r`, flags `hs`) agree exactly when `code < r + 2^31`. -/
theorem signTest_iff_unsigned (code r : Nat) (hc : code < 2 ^ 32) (hr : r < 2 ^ 31) :
    ((wsub32 code r / 2 ^ 31 = 0) ↔ r ≤ code) ↔ code < r + 2 ^ 31 := by
  unfold wsub32; omega

/-- **T4 (a).**  Under the range-decoder invariant `code < range` (any `u32` range) the sign test,
    the unsigned comparison and the mathematical `if code < range / 2` all agree. -/
theorem compare_agree_of_inv (code range : Nat) (hr : range < 2 ^ 32) (hinv : code < range) :
    ((wsub32 code (range / 2) / 2 ^ 31 = 0) ↔ range / 2 ≤ code) ∧
    (range / 2 ≤ code ↔ ¬ code < range / 2) := by
  unfold wsub32; omega

example : (0x12345678 : Nat) < 0xFFFFFFFF ∧ (0xFFFFFFFF : Nat) < 2 ^ 32 := by decide

/-- outside `code < r + 2^31` the two tests give opposite answers -/
theorem signTest_ne_unsigned (code r : Nat) (hc : code < 2 ^ 32) (h : r + 2 ^ 31 ≤ code) :
    wsub32 code r / 2 ^ 31 = 1 ∧ r ≤ code := by
  unfold wsub32; omega

theorem or_low {i b : Nat} (x : Nat) (hx : x % 2 ^ i = 0) (hb : b < 2 ^ i) : x ||| b = x + b := by
  have e : x = 2 ^ i * (x / 2 ^ i) := by
    have := Nat.div_add_mod x (2 ^ i); rw [hx] at this; omega
  rw [e]; exact (Nat.two_pow_add_eq_or_of_lt hb _).symm

theorem or_one_even (x : Nat) (hx : x % 2 = 0) : x ||| 1 = x + 1 :=
  or_low (i := 1) x (by simpa using hx) (by decide)

/-- **T4, C14.**  The portable halving step and the x86-64 `sub`/`cmovs`/`cmovns` sequence are the
    same function on all `u32` states (no decoder invariant needed: both test the sign bit). -/
theorem halvePortable_eq_X86 (P : TwinParams) (hs : P.signShift = 31) (s : DState)
    (hr : s.range < 2 ^ 32) (hc : s.code < 2 ^ 32) : halvePortable P s = halveX86 s := by
  unfold halvePortable halveX86
  simp only [hs]
  have hd : wsub32 s.code (s.range / 2) < 2 ^ 32 := by unfold wsub32; omega
  have hev : (s.result * 2 % 2 ^ 32) % 2 = 0 := by omega
  by_cases ht : wsub32 s.code (s.range / 2) / 2 ^ 31 = 1
  · have w : wsub32 1 1 = 0 := by decide
    simp [ht, w]
  · have ht0 : wsub32 s.code (s.range / 2) / 2 ^ 31 = 0 := by omega
    have w : wsub32 0 1 = 2 ^ 32 - 1 := by decide
    have hge : s.range / 2 ≤ s.code := by unfold wsub32 at ht0; omega
    have hsub : s.code - s.range / 2 = wsub32 s.code (s.range / 2) := by unfold wsub32; omega
    have hand : s.range / 2 &&& 2 ^ 32 - 1 = s.range / 2 := by
      rw [Nat.and_two_pow_sub_one_eq_mod]; omega
    have hor := or_one_even _ hev
    have hlt : s.result * 2 % 2 ^ 32 + 1 < 2 ^ 32 := by omega
    simp only [ht0, w, hand, hsub, Nat.sub_zero, hor, Nat.mod_eq_of_lt hlt]
    simp

/-- **T4 (a), C14.**  x86-64 (sign flag) and aarch64 (carry flag) halving steps agree on every state
    with `code < range/2 + 2^31`. -/
theorem halveX86_eq_A64 (s : DState) (hr : s.range < 2 ^ 32) (hc : s.code < 2 ^ 32)
    (h : s.code < s.range / 2 + 2 ^ 31) : halveX86 s = halveA64 s := by
  unfold halveX86 halveA64
  have hev : (s.result * 2 % 2 ^ 32) % 2 = 0 := by omega
  have hor := or_one_even _ hev
  have hlt : s.result * 2 % 2 ^ 32 + 1 < 2 ^ 32 := by omega
  by_cases hge : s.range / 2 ≤ s.code
  · have : ¬ wsub32 s.code (s.range / 2) / 2 ^ 31 = 1 := by unfold wsub32; omega
    simp only [this, hge, if_true, if_false, hor, Nat.mod_eq_of_lt hlt]
  · have : wsub32 s.code (s.range / 2) / 2 ^ 31 = 1 := by unfold wsub32; omega
    simp only [this, hge, if_true, if_false]

/-- in particular under the decoder invariant `code < range` -/
theorem halveX86_eq_A64_of_inv (s : DState) (hr : s.range < 2 ^ 32) (hinv : s.code < s.range) :
    halveX86 s = halveA64 s :=
  halveX86_eq_A64 s hr (by omega) (by omega)

/-- **Witness, outside the invariant** (`code = range = 0xFFFFFFFF`, the state after the header
    `00 FF FF FF FF`): portable and x86-64 decode bit 0 and keep `code`; aarch64 decodes bit 1 and
    subtracts. -/
theorem halve_diverges_outside_invariant :
    let s : DState := ⟨0xFFFFFFFF, 0xFFFFFFFF, 0, 0⟩
    halvePortable srcParams s = ⟨0x7FFFFFFF, 0xFFFFFFFF, 0, 0⟩ ∧
    halveX86 s = ⟨0x7FFFFFFF, 0xFFFFFFFF, 0, 0⟩ ∧
    halveA64 s = ⟨0x7FFFFFFF, 0x80000000, 0, 1⟩ := by decide

/-- **Witness, starting INSIDE the invariant** (`range = 2^25-1 ≥ 2^24`, `code = range - 1 < range`,
    next input byte `0xFF`; such a state only arises on corrupt streams): the first direct bit makes
    `code = range` (odd range), the following normalisation pushes `code` to `2^32 - 1` with
    `range/2 = 2^31 - 128`; portable and x86-64 return the bits `10`, aarch64 returns `11`. -/
theorem direct_diverges_from_invariant_state :
    let s : DState := ⟨2 ^ 25 - 1, 2 ^ 25 - 2, 0, 0⟩
    s.code < s.range ∧ 2 ^ 24 ≤ s.range ∧
    (directPortable srcParams [0xFF] (directFuel 2) 2 s).result = 2 ∧
    (directX86 srcParams [0xFF] 2 s).result = 2 ∧
    (directA64 srcParams [0xFF] 2 s).result = 3 ∧
    (directX86 srcParams [0xFF] 2 s).pos = 1 ∧ (directA64 srcParams [0xFF] 2 s).pos = 1 := by decide

/-! ### T4: loops -/

/-- `u32` registers, and `range ≥ 2^16` so that one byte suffices to normalise (true between any two
    decoder operations: `decode_bit` leaves `range ≥ 31·2^13`, a direct bit leaves `range ≥ 2^23`) -/
def RangeOk (s : DState) : Prop := 2 ^ 16 ≤ s.range ∧ s.range < 2 ^ 32 ∧ s.code < 2 ^ 32

/-- every iteration's post-normalisation state satisfies `Q` -/
def RunAll (P : TwinParams) (rd : Nat → Nat) (h : DState → DState) (Q : DState → Prop) :
    Nat → DState → Prop
  | 0, _ => True
  | k + 1, s => Q (dNormalize P rd s) ∧ RunAll P rd h Q k (h (dNormalize P rd s))

theorem dNormalize_pos_ge (P : TwinParams) (rd : Nat → Nat) (s : DState) :
    s.pos ≤ (dNormalize P rd s).pos := by
  unfold dNormalize; split <;> simp

theorem directLoop_pos_ge (P : TwinParams) (rd : Nat → Nat) (h : DState → DState)
    (hpos : ∀ s, (h s).pos = s.pos) : ∀ k s, s.pos ≤ (directLoop P rd h k s).pos := by
  intro k
  induction k with
  | zero => intro s; exact Nat.le_refl _
  | succ k ih =>
    intro s
    have := ih (h (dNormalize P rd s))
    rw [hpos] at this
    have := dNormalize_pos_ge P rd s
    unfold directLoop
    omega

theorem directLoop_congr (P : TwinParams) (Q : DState → Prop) (rd1 rd2 : Nat → Nat)
    (h1 h2 : DState → DState) (L : Nat) (hrd : ∀ i, i < L → rd1 i = rd2 i)
    (hpos : ∀ s, (h1 s).pos = s.pos) (hh : ∀ t, Q t → h1 t = h2 t) :
    ∀ k s, RunAll P rd1 h1 Q k s → (directLoop P rd1 h1 k s).pos ≤ L →
      directLoop P rd1 h1 k s = directLoop P rd2 h2 k s := by
  intro k
  induction k with
  | zero => intro s _ _; rfl
  | succ k ih =>
    intro s hrun hL
    obtain ⟨hq, hrest⟩ := hrun
    unfold directLoop at hL ⊢
    have hge := directLoop_pos_ge P rd1 h1 hpos k (h1 (dNormalize P rd1 s))
    rw [hpos] at hge
    have hn : dNormalize P rd1 s = dNormalize P rd2 s := by
      by_cases hr : s.range < P.topValue
      · have hp : (dNormalize P rd1 s).pos = s.pos + 1 := by unfold dNormalize; simp [hr]
        have : s.pos < L := by omega
        unfold dNormalize
        simp only [hr, if_true]
        rw [hrd _ this]
      · unfold dNormalize; simp only [hr, if_false]
    rw [← hn, ← hh _ hq]
    exact ih _ hrest hL

theorem runAll_of_inv (P : TwinParams) (rd : Nat → Nat) (h : DState → DState) (Inv Q : DState → Prop)
    (hq : ∀ s, Inv s → Q (dNormalize P rd s))
    (hi : ∀ s, Inv s → Inv (h (dNormalize P rd s))) :
    ∀ k s, Inv s → RunAll P rd h Q k s := by
  intro k
  induction k with
  | zero => intro s _; trivial
  | succ k ih => intro s hs; exact ⟨hq s hs, ih _ (hi s hs)⟩

theorem dNormalize_rangeOk (P : TwinParams) (hT : P.topValue = 2 ^ 24) (hS : P.shiftBits = 8)
    (rd : Nat → Nat) (hrd : ∀ i, rd i < 256) (s : DState) (h : RangeOk s) :
    RangeOk (dNormalize P rd s) ∧ 2 ^ 24 ≤ (dNormalize P rd s).range := by
  unfold RangeOk at *
  unfold dNormalize
  rw [hT, hS]
  by_cases hr : s.range < 2 ^ 24
  · simp only [hr, if_true]
    have hb := hrd s.pos
    have hor := or_low (i := 8) (s.code * 2 ^ 8 % 2 ^ 32) (by omega) (by simpa using hb)
    rw [hor]
    omega
  · simp only [hr, if_false]; omega

theorem halvePortable_rangeOk (P : TwinParams) (hs : P.signShift = 31) (s : DState) (h : RangeOk s)
    (h24 : 2 ^ 24 ≤ s.range) : RangeOk (halvePortable P s) := by
  rw [halvePortable_eq_X86 P hs s h.2.1 h.2.2]
  unfold RangeOk at *
  unfold halveX86 wsub32
  simp only
  refine ⟨by omega, by omega, ?_⟩
  split <;> omega

theorem rdPortable_lt (buf : List Nat) (hB : Bytes buf) (i : Nat) : rdPortable buf i < 256 :=
  getD_lt_of_Bytes hB i

/-- the restructured portable loop ("fast path / slow path") is the plain
    `for _ in 0..count { normalize(); halve }` loop as long as one byte normalises (`range ≥ 2^16`) -/
theorem directPortable_eq_loop (P : TwinParams) (hT : P.topValue = 2 ^ 24) (hS : P.shiftBits = 8)
    (hs : P.signShift = 31) (buf : List Nat) (hB : Bytes buf) :
    ∀ (k f : Nat) (s : DState), RangeOk s → 2 * k ≤ f →
      directPortable P buf f k s = directLoop P (rdPortable buf) (halvePortable P) k s := by
  intro k
  induction k with
  | zero =>
    intro f s _ _
    cases f <;> simp [directPortable, directLoop]
  | succ k ih =>
    intro f s hs0 hf
    obtain ⟨f, rfl⟩ : ∃ f', f = f' + 2 := ⟨f - 2, by omega⟩
    have hn := dNormalize_rangeOk P hT hS (rdPortable buf) (rdPortable_lt buf hB) s hs0
    unfold directLoop
    by_cases hr : P.topValue ≤ s.range
    · have hid : dNormalize P (rdPortable buf) s = s := by
        unfold dNormalize; rw [if_neg (by omega)]
      rw [hid] at hn ⊢
      rw [directPortable]
      simp only [Nat.succ_ne_zero, if_false, hr, if_true, Nat.add_sub_cancel]
      exact ih _ _ (halvePortable_rangeOk P hs s hn.1 hn.2) (by omega)
    · rw [directPortable]
      simp only [Nat.succ_ne_zero, if_false, hr]
      rw [directPortable]
      have : P.topValue ≤ (dNormalize P (rdPortable buf) s).range := by rw [hT]; exact hn.2
      simp only [Nat.succ_ne_zero, if_false, this, if_true, Nat.add_sub_cancel]
      exact ih _ _ (halvePortable_rangeOk P hs _ hn.1 hn.2) (by omega)

/-- witness: with `range < 2^16` (never the case between decoder operations) the restructured
    portable loop reads two bytes before the first bit, the assembly (and the original loop) one -/
theorem directPortable_small_range_diverges :
    (directPortable srcParams [1, 2, 3] (directFuel 1) 1 ⟨0x8000, 0x12, 0, 0⟩).pos = 2 ∧
    (directX86 srcParams [1, 2, 3] 1 ⟨0x8000, 0x12, 0, 0⟩).pos = 1 := by decide

theorem rdAsm_eq_rdPortable (P : TwinParams) (ha : P.asmLimitSub = 1) (buf : List Nat) (i : Nat)
    (h : i < buf.length) : rdPortable buf i = rdAsm P buf i := by
  unfold rdAsm rdPortable asmIndex
  rw [ha, Nat.min_eq_left (by omega)]

theorem halvePortable_pos (P : TwinParams) (s : DState) : (halvePortable P s).pos = s.pos := rfl
theorem halveX86_pos (s : DState) : (halveX86 s).pos = s.pos := rfl
theorem halveA64_pos (s : DState) : (halveA64 s).pos = s.pos := rfl

/-- **T4, C14: x86-64 assembly = portable loop**, for every `u32` decoder state with
    `range ≥ 2^16` (no `code < range` needed) as long as the run does not request bytes beyond the
    end of the buffer. -/
theorem directX86_eq_directPortable (P : TwinParams) (hT : P.topValue = 2 ^ 24)
    (hS : P.shiftBits = 8) (hs : P.signShift = 31) (ha : P.asmLimitSub = 1)
    (buf : List Nat) (hB : Bytes buf) (k : Nat) (s : DState) (hs0 : RangeOk s)
    (hover : (directPortable P buf (directFuel k) k s).pos ≤ buf.length) :
    directX86 P buf k s = directPortable P buf (directFuel k) k s := by
  have hf : 2 * k ≤ directFuel k := by unfold directFuel; omega
  rw [directPortable_eq_loop P hT hS hs buf hB k _ s hs0 hf] at hover ⊢
  unfold directX86
  symm
  apply directLoop_congr P (fun t => t.range < 2 ^ 32 ∧ t.code < 2 ^ 32) _ _ _ _ buf.length
    (fun i hi => rdAsm_eq_rdPortable P ha buf i hi) (halvePortable_pos P)
    (fun t ht => halvePortable_eq_X86 P hs t ht.1 ht.2) k s _ hover
  apply runAll_of_inv P _ _ RangeOk _ _ _ k s hs0
  · intro t ht
    have := (dNormalize_rangeOk P hT hS _ (rdPortable_lt buf hB) t ht).1
    exact ⟨this.2.1, this.2.2⟩
  · intro t ht
    have := dNormalize_rangeOk P hT hS _ (rdPortable_lt buf hB) t ht
    exact halvePortable_rangeOk P hs _ this.1 this.2

/-- **T4 (a), C14: aarch64 assembly = x86-64 assembly** on every run in which each iteration sees
    `code < range/2 + 2^31` after normalisation (implied by `code < range` at that point). -/
theorem directA64_eq_directX86 (P : TwinParams) (buf : List Nat) (k : Nat) (s : DState)
    (hrun : RunAll P (rdAsm P buf) halveX86
      (fun t => t.range < 2 ^ 32 ∧ t.code < 2 ^ 32 ∧ t.code < t.range / 2 + 2 ^ 31) k s) :
    directA64 P buf k s = directX86 P buf k s := by
  unfold directA64 directX86
  symm
  exact directLoop_congr P _ _ _ _ _ _ (fun _ _ => rfl) halveX86_pos
    (fun t ht => halveX86_eq_A64 t ht.1 ht.2.1 ht.2.2) k s hrun (Nat.le_refl _)

/-- non-vacuity: a 20-bit run from the initial state of a stream, all three variants equal -/
example :
    let s : DState := ⟨0xFFFFFFFF, 0x12345678, 0, 0⟩
    RangeOk s ∧
    directX86 srcParams [1, 2, 3] 20 s = directPortable srcParams [1, 2, 3] (directFuel 20) 20 s ∧
    directA64 srcParams [1, 2, 3] 20 s = directX86 srcParams [1, 2, 3] 20 s ∧
    (directX86 srcParams [1, 2, 3] 20 s).pos = 2 := by
  refine ⟨by unfold RangeOk; decide, by decide +kernel, by decide +kernel, by decide +kernel⟩

/-- **T4 (b): `pos` bookkeeping.**  In every variant (any byte source, any halving step that halves
    `range` and keeps `pos`) `pos` after `k` direct bits is `pos₀ + normCount k range₀`: the
    position is incremented unclamped, once per normalisation, and the number of normalisations does
    not depend on the bytes read.  So `is_finished()` sees the same overrun in all variants. -/
theorem directLoop_pos (P : TwinParams) (rd : Nat → Nat) (h : DState → DState)
    (hrange : ∀ s, (h s).range = s.range / 2) (hpos : ∀ s, (h s).pos = s.pos) :
    ∀ k s, (directLoop P rd h k s).pos = s.pos + normCount P k s.range := by
  intro k
  induction k with
  | zero => intro s; rfl
  | succ k ih =>
    intro s
    unfold directLoop normCount
    rw [ih, hrange, hpos]
    unfold dNormalize
    by_cases hr : s.range < P.topValue
    · simp only [hr, if_true]; omega
    · simp only [hr, if_false]

theorem directX86_pos (P : TwinParams) (buf : List Nat) (k : Nat) (s : DState) :
    (directX86 P buf k s).pos = s.pos + normCount P k s.range :=
  directLoop_pos P _ _ (fun _ => rfl) halveX86_pos k s

theorem directA64_pos (P : TwinParams) (buf : List Nat) (k : Nat) (s : DState) :
    (directA64 P buf k s).pos = s.pos + normCount P k s.range :=
  directLoop_pos P _ _ (fun _ => rfl) halveA64_pos k s

theorem directPortable_pos (P : TwinParams) (hT : P.topValue = 2 ^ 24) (hS : P.shiftBits = 8)
    (hs : P.signShift = 31) (buf : List Nat) (hB : Bytes buf) (k : Nat) (s : DState)
    (hs0 : RangeOk s) :
    (directPortable P buf (directFuel k) k s).pos = s.pos + normCount P k s.range := by
  rw [directPortable_eq_loop P hT hS hs buf hB k _ s hs0 (by unfold directFuel; omega)]
  exact directLoop_pos P _ _ (fun _ => rfl) (halvePortable_pos P) k s

/-- **T4 (b), C15.**  The clamped load index is inside the buffer for every `pos`. -/
theorem asmIndex_lt (P : TwinParams) (ha : 1 ≤ P.asmLimitSub) (len pos : Nat) (hl : 1 ≤ len) :
    asmIndex P len pos < len := by
  unfold asmIndex; omega

/-- `limit = len - 1` is the only choice that is both safe (never past the end) and faithful
    (in-range positions are not moved) -/
theorem asmLimit_unique (P : TwinParams) (len : Nat) (hl : 1 ≤ len) (hsub : P.asmLimitSub ≤ len) :
    ((∀ pos, asmIndex P len pos < len) ∧ (∀ pos, pos < len → asmIndex P len pos = pos)) ↔
      P.asmLimitSub = 1 := by
  unfold asmIndex
  constructor
  · intro ⟨h1, h2⟩
    have a := h1 len
    have b := h2 (len - 1) (by omega)
    omega
  · intro h
    constructor <;> intros <;> omega

theorem directAsmReads_inBounds (P : TwinParams) (ha : 1 ≤ P.asmLimitSub) (buf : List Nat)
    (hl : 1 ≤ buf.length) (halve : DState → DState) :
    ∀ k s, ∀ i ∈ directAsmReads P buf halve k s, i < buf.length := by
  intro k
  induction k with
  | zero => intro s i hi; simp [directAsmReads] at hi
  | succ k ih =>
    intro s i hi
    unfold directAsmReads at hi
    rw [List.mem_append] at hi
    rcases hi with hi | hi
    · split at hi
      · simp only [List.mem_cons, List.not_mem_nil, or_false] at hi
        rw [hi]; exact asmIndex_lt P ha _ _ hl
      · simp at hi
    · exact ih _ _ hi

/-- the decoder buffer is never empty (`new_buffer(COMPRESSED_SIZE_MAX)`, length `2^16 - 5`), so
    `buf.len() - 1` does not underflow -/
theorem rcBufLen_pos (P : TwinParams) (h : P.Ok) : 1 ≤ rcBufLen P ∧ rcBufLen P = 65531 := by
  obtain ⟨_, _, _, _, _, _, _, _, _, _, h5, h6⟩ := h
  unfold rcBufLen; rw [h5, h6]; decide

/-- `cmovg` compares signed; for `pos, limit < 2^63` this is the unsigned comparison -/
theorem sgn64_gt_iff (pos limit : Nat) (hp : pos < 2 ^ 63) (hl : limit < 2 ^ 63) :
    sgn64 pos > sgn64 limit ↔ pos > limit := by
  unfold sgn64; simp only [hp, hl, if_true]; omega

/-- witness (why `len ≥ 1` matters): with an empty buffer `limit = usize::MAX`, which `cmovg` reads
    as −1, so every `pos` would be "greater" and the load would go to `buf_ptr − 1` -/
theorem sgn64_limit_underflow : sgn64 (2 ^ 64 - 1) = -1 ∧ sgn64 0 > sgn64 (2 ^ 64 - 1) := by decide

/-- **Witness (C14, buffer overrun).**  Past the end of the buffer the portable reader supplies 0,
    the assembly re-reads the last byte.  State inside the invariant (`code < range`), buffer `[0xFF]`
    already consumed (`pos = len = 1`): portable decodes bit 0, both assembly variants bit 1.  `pos`
    is 2 in all of them, so the chunk is rejected by `is_finished()` at its end in all variants, but
    the bytes decoded in between differ. -/
theorem direct_overrun_diverges :
    let s : DState := ⟨2 ^ 23 + 1, 2 ^ 22, 1, 0⟩
    s.code < s.range ∧
    directPortable srcParams [0xFF] (directFuel 1) 1 s = ⟨2 ^ 30 + 128, 2 ^ 30, 2, 0⟩ ∧
    directX86 srcParams [0xFF] 1 s = ⟨2 ^ 30 + 128, 127, 2, 1⟩ ∧
    directA64 srcParams [0xFF] 1 s = ⟨2 ^ 30 + 128, 127, 2, 1⟩ := by decide +kernel

/-- … unless the last byte of the buffer is 0 (then the clamped load returns what the portable
    reader returns, for every position) -/
theorem rdAsm_eq_rdPortable_of_last_zero (P : TwinParams) (ha : P.asmLimitSub = 1) (buf : List Nat)
    (hl : 1 ≤ buf.length) (hz : buf.getD (buf.length - 1) 0 = 0) (i : Nat) :
    rdPortable buf i = rdAsm P buf i := by
  by_cases h : i < buf.length
  · exact rdAsm_eq_rdPortable P ha buf i h
  · unfold rdAsm rdPortable asmIndex
    rw [ha, Nat.min_eq_right (by omega), hz, List.getD_eq_getElem?_getD,
      List.getElem?_eq_none (by omega)]
    rfl

/-! ### T4: link to `Rc.Dec` and the decoder invariant -/

/-- abstraction to the existing range-decoder model -/
def toDec (buf : List Nat) (s : DState) : Rc.Dec :=
  { range := s.range, code := s.code, inp := buf.drop s.pos, over := s.pos - buf.length }

theorem toDec_normalize (P : TwinParams) (hT : P.topValue = 2 ^ 24) (hS : P.shiftBits = 8)
    (buf : List Nat) (hB : Bytes buf) (s : DState) (h : RangeOk s) :
    (toDec buf s).normalize = toDec buf (dNormalize P (rdPortable buf) s) := by
  unfold RangeOk at h
  unfold Rc.Dec.normalize dNormalize
  rw [hT, hS]
  by_cases hr : s.range < 2 ^ 24
  · have hr' : (toDec buf s).range < 2 ^ 24 := hr
    rw [if_pos hr', if_pos hr]
    have hb := rdPortable_lt buf hB s.pos
    have hor := or_low (i := 8) (s.code * 2 ^ 8 % 2 ^ 32) (by omega) (by simpa using hb)
    rw [hor]
    unfold Rc.Dec.readByte
    by_cases hp : s.pos < buf.length
    · have hd : (toDec buf s).inp = buf[s.pos] :: buf.drop (s.pos + 1) := List.drop_eq_getElem_cons hp
      have hg : rdPortable buf s.pos = buf[s.pos] := by simp [rdPortable, List.getD, hp]
      rw [hg]
      simp only [hd]
      simp only [toDec, Rc.Dec.mk.injEq]
      refine ⟨by omega, by omega, trivial, by omega⟩
    · have hd : (toDec buf s).inp = [] := List.drop_eq_nil_of_le (by omega)
      have hg : rdPortable buf s.pos = 0 := by
        unfold rdPortable
        rw [List.getD_eq_getElem?_getD, List.getElem?_eq_none (by omega)]; rfl
      rw [hg]
      simp only [hd]
      simp only [toDec, Rc.Dec.mk.injEq]
      refine ⟨by omega, by omega, ?_, by omega⟩
      symm; exact List.drop_eq_nil_of_le (by omega)
  · have hr' : ¬ (toDec buf s).range < 2 ^ 24 := hr
    rw [if_neg hr', if_neg hr]

/-- **T4: link to the existing model.**  One iteration of the portable / x86-64 loop on the concrete
    state (buffer + unclamped position) is `Rc.Dec.decodeDirect1` on the abstract state
    (remaining input + overrun counter); the decoded bit is the low bit of `result`. -/
theorem decodeDirect1_refines (P : TwinParams) (hT : P.topValue = 2 ^ 24) (hS : P.shiftBits = 8)
    (buf : List Nat) (hB : Bytes buf) (s : DState) (h : RangeOk s) :
    Rc.Dec.decodeDirect1 (toDec buf s) =
      (decide ((halveX86 (dNormalize P (rdPortable buf) s)).result % 2 = 1),
       toDec buf (halveX86 (dNormalize P (rdPortable buf) s))) := by
  have hn := toDec_normalize P hT hS buf hB s h
  have hok := (dNormalize_rangeOk P hT hS _ (rdPortable_lt buf hB) s h).1
  generalize dNormalize P (rdPortable buf) s = t at hn hok
  unfold Rc.Dec.decodeDirect1
  simp only [hn]
  unfold RangeOk at hok
  unfold halveX86 wsub32
  simp only [toDec]
  by_cases hsf : (t.code + 2 ^ 32 - t.range / 2) % 2 ^ 32 / 2 ^ 31 = 1
  · have : (t.code + 2 ^ 32 - t.range / 2) % 2 ^ 32 ≥ 2 ^ 31 := by omega
    simp only [this, hsf, if_true]
    simp
  · have : ¬ (t.code + 2 ^ 32 - t.range / 2) % 2 ^ 32 ≥ 2 ^ 31 := by omega
    simp only [this, hsf, if_false]
    simp

/-- a 0 bit from `decode_bit` (re-)establishes `code < range` … -/
theorem decodeBitP_false_inv (d d' : Rc.Dec) (p : Nat) (h : d.decodeBitP p = (false, d')) :
    d'.code < d'.range := by
  unfold Rc.Dec.decodeBitP at h
  simp only at h
  split at h
  · rename_i hlt
    simp only [Prod.mk.injEq, true_and] at h
    rw [← h]; exact hlt
  · simp at h

/-- … and `decode_direct_bits` is only ever called from `decode_match`, i.e. after `is_rep`
    decoded as 0 (`decoder.rs`), with only `decode_bit`s in between, which preserve `code < range`: -/
theorem decodeBitP_preserves_inv (d d' : Rc.Dec) (p : Nat) (b : Bool)
    (hinv : d.normalize.code < d.normalize.range) (h : d.decodeBitP p = (b, d')) :
    d'.code < d'.range := by
  unfold Rc.Dec.decodeBitP at h
  simp only at h
  split at h
  · rename_i hlt
    simp only [Prod.mk.injEq] at h
    rw [← h.2]; exact hlt
  · rename_i hge
    simp only [Prod.mk.injEq] at h
    rw [← h.2]
    simp only
    omega

/-- while `code ≥ range` (only possible on corrupt streams) `decode_bit` can only answer 1 -/
theorem decodeBitP_true_of_code_ge (d d' : Rc.Dec) (p : Nat) (b : Bool) (hp : p < 2048)
    (hge : d.normalize.range ≤ d.normalize.code)
    (h : d.decodeBitP p = (b, d')) : b = true := by
  unfold Rc.Dec.decodeBitP at h
  simp only at h
  split at h
  · rename_i hlt
    exfalso
    have h1 : d.normalize.range / 2 ^ 11 * p ≤ d.normalize.range / 2 ^ 11 * 2047 :=
      Nat.mul_le_mul_left _ (by omega)
    omega
  · simp only [Prod.mk.injEq] at h
    exact h.1.symm

/-- … but the strict invariant is NOT preserved by a direct bit on arbitrary states: odd `range`,
    `code = range - 1` gives `code = range` afterwards (never on streams written by the encoder,
    whose interval for bit 1 is `[low + r, low + 2r)`).  This is the first step of
    `direct_diverges_from_invariant_state`. -/
theorem halve_breaks_strict_invariant :
    let s : DState := ⟨2 ^ 25 - 1, 2 ^ 25 - 2, 0, 0⟩
    s.code < s.range ∧ (halveX86 s).code = (halveX86 s).range ∧ (halveA64 s).code = (halveA64 s).range := by
  decide

/-! ## T5 -/

/-- **T5.**  If `min_length * 4 + 63` fits in `usize` nothing wraps: the block is a multiple of 64
    bytes, holds at least `min_length` and fewer than `min_length + 16` elements, and the slice
    handed out (`target_length` elements) covers exactly the allocation. -/
theorem alignedNew_spec (P : TwinParams) (hA : P.alignment = 64) (hE : P.elemSize = 4)
    (bits minLength : Nat) (h : minLength * 4 + 63 < 2 ^ bits) :
    (alignedNew P bits minLength).requiredBytes = (minLength * 4 + 63) / 64 * 64 ∧
    (alignedNew P bits minLength).requiredBytes % 64 = 0 ∧
    minLength ≤ (alignedNew P bits minLength).targetLength ∧
    (alignedNew P bits minLength).targetLength < minLength + 16 ∧
    (alignedNew P bits minLength).targetLength * 4 = (alignedNew P bits minLength).requiredBytes := by
  unfold alignedNew
  simp only [hA, hE]
  rw [Nat.mod_eq_of_lt (by omega : minLength * 4 < 2 ^ bits)]
  have e : minLength * 4 + 64 - 1 = minLength * 4 + 63 := by omega
  rw [e, Nat.mod_eq_of_lt (by omega : (minLength * 4 + 63) / 64 * 64 < 2 ^ bits)]
  omega

/-- **T5, the bound that holds.**  Every length the match finders request is at most
    `2·(dict_size + 1) ≤ 2^33` (`BT4::tree`; `HC4::chain` needs `dict_size + 1`, the hash tables
    `2^10`, `2^16` and at most `2^30`): on a 64-bit target the byte size is at most `2^35`, far below
    `isize::MAX`, so `Layout::from_size_align` succeeds and nothing wraps. -/
theorem alignedNew_encoder_bound (P : TwinParams) (hA : P.alignment = 64) (hE : P.elemSize = 4)
    (minLength : Nat) (h : minLength ≤ 2 ^ 33) :
    minLength * 4 + 63 < 2 ^ 64 ∧ (alignedNew P 64 minLength).requiredBytes ≤ 2 ^ 35 ∧
    (alignedNew P 64 minLength).requiredBytes < 2 ^ 63 := by
  have h0 : minLength * 4 + 63 < 2 ^ 64 := by omega
  have := (alignedNew_spec P hA hE 64 minLength h0).1
  omega

example : (2 * (805306368 + 1) : Nat) ≤ 2 ^ 33 := by decide

/-- **T5, 32-bit targets.**  In a release build `min_length * 4` may wrap; the
    `assert!(table.len() >= requested)` that follows every allocation then fails, i.e. a wrapped
    (too small) block is never used: if the assertion holds, the size is the unwrapped one. -/
theorem alignedNew_assert_sound (P : TwinParams) (hA : P.alignment = 64) (hE : P.elemSize = 4)
    (bits : Nat) (hb : bits = 32 ∨ bits = 64) (minLength : Nat)
    (hassert : minLength ≤ (alignedNew P bits minLength).targetLength) :
    (alignedNew P bits minLength).requiredBytes = (minLength * 4 + 63) / 64 * 64 := by
  unfold alignedNew at *
  simp only [hA, hE] at *
  rcases hb with rfl | rfl <;> omega

/-- witness: BT4 with the largest dictionary the encoder accepts (768 MiB) on a 32-bit target:
    the multiplication wraps, the assertion catches it -/
theorem alignedNew_wraps_32bit :
    (alignedNew srcParams 32 (2 * (805306368 + 1))).targetLength = 536870928 ∧
    ¬ (2 * (805306368 + 1) ≤ (alignedNew srcParams 32 (2 * (805306368 + 1))).targetLength) := by
  decide

example : (1025 * 4 + 63 : Nat) < 2 ^ 64 ∧ alignedNew srcParams 64 1025 = ⟨4160, 1040⟩ := by decide

/-! ## The theorems for the extracted constants

A generated instance `G : TwinParams` only has to satisfy `G.Ok` (`by decide`); a changed constant in
the source (`size_of::<u16>()` → something else, `buf.len() - 1` → `buf.len()`, `/ 8` → `/ 4`, …)
makes that proof fail. -/

theorem ok_extendMatch (P : TwinParams) (h : P.Ok) (s1 s2 : List Nat) (h1 : Bytes s1) (h2 : Bytes s2) :
    extendMatchSafe P s1 s2 = byteMatchLen s1 s2 :=
  extendMatchSafe_eq_byteMatchLen P (by rw [h.1]; decide) h.2.1 s1 s2 h1 h2

theorem ok_extendMatchOpt (P : TwinParams) (h : P.Ok) (buf : List Nat) (hB : Bytes buf)
    (readPos curLen dist limit : Nat) (hc : curLen ≤ limit)
    (hb : readPos + curLen + (limit - curLen) ≤ buf.length) :
    (extendMatchOptT P buf readPos curLen dist limit).1 =
      curLen + byteMatchLen (slice buf (readPos + curLen) (limit - curLen))
                            (slice buf (readPos + curLen - dist) (limit - curLen)) ∧
    ∀ i ∈ (extendMatchOptT P buf readPos curLen dist limit).2, i < buf.length :=
  ⟨extendMatchOpt_eq_portable P buf _ _ _ _ _
      (extendMatchPortable_spec P (by rw [h.1]; decide) h.2.1 buf hB _ _ _ _ hc hb),
   extendMatchOptT_inBounds P buf _ _ _ _⟩

theorem ok_fastReject (P : TwinParams) (h : P.Ok) (buf : List Nat) (h2 : 2 ≤ buf.length)
    (readPos matchDist : Nat) :
    (∀ i ∈ (fastRejectOpt P buf readPos matchDist).2, i < buf.length) ∧
    (Bytes buf → matchDist ≤ readPos → ∀ v, fastRejectPortable buf readPos matchDist = some v →
      (fastRejectOpt P buf readPos matchDist).1 = v) := by
  obtain ⟨_, _, h3, h4, _⟩ := h
  exact ⟨fastRejectOpt_inBounds P (by omega) buf (by omega) _ _,
    fun hB hd v hv => fastRejectOpt_eq_portable P h3 h4 buf hB _ _ hd v hv⟩

theorem ok_directBits (P : TwinParams) (h : P.Ok) (buf : List Nat) (hB : Bytes buf)
    (hlen : buf.length = rcBufLen P) (k : Nat) (s : DState) (hs0 : RangeOk s) :
    (∀ i ∈ directAsmReads P buf halveX86 k s, i < buf.length) ∧
    (∀ i ∈ directAsmReads P buf halveA64 k s, i < buf.length) ∧
    ((directPortable P buf (directFuel k) k s).pos ≤ buf.length →
      directX86 P buf k s = directPortable P buf (directFuel k) k s) ∧
    (directX86 P buf k s).pos = (directPortable P buf (directFuel k) k s).pos ∧
    (directA64 P buf k s).pos = (directPortable P buf (directFuel k) k s).pos := by
  have hl : 1 ≤ buf.length := by rw [hlen]; exact (rcBufLen_pos P h).1
  obtain ⟨_, _, _, _, h5, h6, h7, h8, _⟩ := h
  refine ⟨directAsmReads_inBounds P (by omega) buf hl _ k s,
    directAsmReads_inBounds P (by omega) buf hl _ k s,
    fun ho => directX86_eq_directPortable P h6 h7 h8 h5 buf hB k s hs0 ho, ?_, ?_⟩
  · rw [directX86_pos, directPortable_pos P h6 h7 h8 buf hB k s hs0]
  · rw [directA64_pos, directPortable_pos P h6 h7 h8 buf hB k s hs0]

theorem ok_alignedNew (P : TwinParams) (h : P.Ok) (minLength : Nat) (hm : minLength ≤ 2 ^ 33) :
    (alignedNew P 64 minLength).requiredBytes % 64 = 0 ∧
    minLength ≤ (alignedNew P 64 minLength).targetLength ∧
    (alignedNew P 64 minLength).targetLength * 4 = (alignedNew P 64 minLength).requiredBytes ∧
    (alignedNew P 64 minLength).requiredBytes < 2 ^ 63 := by
  obtain ⟨_, _, _, _, _, _, _, _, h9, h10, _⟩ := h
  have a := alignedNew_spec P h9 h10 64 minLength (by omega)
  have b := alignedNew_encoder_bound P h9 h10 minLength hm
  exact ⟨a.2.1, a.2.2.1, a.2.2.2.2, b.2.2⟩

/-- non-vacuity of the `Bytes` / `RangeOk` hypotheses used above -/
example : Bytes [1, 2, 255] ∧ RangeOk ⟨0xFFFFFFFF, 0x12345678, 0, 0⟩ := by
  unfold Bytes RangeOk; decide

/-- a changed constant is caught -/
example : ¬ ({ srcParams with bufLimitSub := 1 } : TwinParams).Ok := by decide
example : ¬ ({ srcParams with asmLimitSub := 0 } : TwinParams).Ok := by decide
example : ¬ ({ srcParams with tzDiv := 4 } : TwinParams).Ok := by decide

/-! ## further non-vacuity examples -/

instance RunAll.dec (P : TwinParams) (rd : Nat → Nat) (h : DState → DState) (Q : DState → Prop)
    [DecidablePred Q] : ∀ k s, Decidable (RunAll P rd h Q k s)
  | 0, _ => isTrue trivial
  | k + 1, s =>
    have := RunAll.dec P rd h Q k (h (dNormalize P rd s))
    by unfold RunAll; exact inferInstance

/-- hypotheses of `directX86_eq_directPortable` and `directA64_eq_directX86` on a concrete run -/
example :
    let s : DState := ⟨0xFFFFFFFF, 0x12345678, 0, 0⟩
    (directPortable srcParams [1, 2, 3] (directFuel 20) 20 s).pos ≤ [1, 2, 3].length ∧
    RunAll srcParams (rdAsm srcParams [1, 2, 3]) halveX86
      (fun t => t.range < 2 ^ 32 ∧ t.code < 2 ^ 32 ∧ t.code < t.range / 2 + 2 ^ 31) 20 s := by
  refine ⟨by decide +kernel, by decide +kernel⟩

example : (3 : Nat) ≤ 17 ∧ 3 + (17 - 3) / 4 * 4 ≤ 17 ∧ (64 : Nat) % (4 * 8) = 0 := by decide
example : asmIndex srcParams 65531 70000 = 65530 ∧ asmIndex srcParams 65531 12 = 12 := by decide
example : min 1000 (10 - 2) + 2 ≤ 10 := by decide
example : wsub32 5 7 / 2 ^ 31 = 1 ∧ wsub32 7 5 / 2 ^ 31 = 0 := by decide

end LzmaVerif.Twins

/-! ## Axiom audit -/

#print axioms LzmaVerif.Twins.srcParams_ok
#print axioms LzmaVerif.Twins.xor_eq_zero_imp
#print axioms LzmaVerif.Twins.tzAux_succ_even
#print axioms LzmaVerif.Twins.tzAux_succ_odd
#print axioms LzmaVerif.Twins.tzAux_low8_eq
#print axioms LzmaVerif.Twins.tzAux_le_of_mod_ne
#print axioms LzmaVerif.Twins.tzAux_low8_ne
#print axioms LzmaVerif.Twins.leVal_inj
#print axioms LzmaVerif.Twins.tz_xor_div8
#print axioms LzmaVerif.Twins.byteMatchLen_append
#print axioms LzmaVerif.Twins.byteMatchLen_nil_left
#print axioms LzmaVerif.Twins.byteMatchLen_nil_right
#print axioms LzmaVerif.Twins.byteMatchLen_le_left
#print axioms LzmaVerif.Twins.slice_length
#print axioms LzmaVerif.Twins.Bytes.slice
#print axioms LzmaVerif.Twins.drop_eq_slice_append
#print axioms LzmaVerif.Twins.matchLoop_slices
#print axioms LzmaVerif.Twins.extendMatchSafe_eq_byteMatchLen
#print axioms LzmaVerif.Twins.matchLoopT_fst
#print axioms LzmaVerif.Twins.matchLoop_congr
#print axioms LzmaVerif.Twins.rdBytes_eq_slice
#print axioms LzmaVerif.Twins.slice_slice
#print axioms LzmaVerif.Twins.getD_slice
#print axioms LzmaVerif.Twins.extendMatchPtr_eq_safe
#print axioms LzmaVerif.Twins.matchLoopT_reads
#print axioms LzmaVerif.Twins.extendMatchPtrT_reads
#print axioms LzmaVerif.Twins.mem_absReads
#print axioms LzmaVerif.Twins.extendMatchOptT_inBounds
#print axioms LzmaVerif.Twins.extendMatchOpt_eq_portable
#print axioms LzmaVerif.Twins.extendMatchPortable_spec
#print axioms LzmaVerif.Twins.clamp_inBounds
#print axioms LzmaVerif.Twins.clamp_inBounds_iff
#print axioms LzmaVerif.Twins.bufLimitU16_largest
#print axioms LzmaVerif.Twins.bufLimit_sub1_overruns
#print axioms LzmaVerif.Twins.fastRejectOpt_inBounds
#print axioms LzmaVerif.Twins.getD_lt_of_Bytes
#print axioms LzmaVerif.Twins.rdU16_eq
#print axioms LzmaVerif.Twins.fastRejectOpt_eq_portable
#print axioms LzmaVerif.Twins.bufLimit_sub3_diverges
#print axioms LzmaVerif.Twins.wrap32_id
#print axioms LzmaVerif.Twins.wrap32_isI32
#print axioms LzmaVerif.Twins.normSimd_eq_normScalar
#print axioms LzmaVerif.Twins.normSimd_eq_checked
#print axioms LzmaVerif.Twins.normScalarChecked_nonneg_off
#print axioms LzmaVerif.Twins.norm_negative_offset_diverges
#print axioms LzmaVerif.Twins.normSubFirst_eq_of_no_wrap
#print axioms LzmaVerif.Twins.normSubFirst_eq
#print axioms LzmaVerif.Twins.normSubFirst_negative_p_diverges
#print axioms LzmaVerif.Twins.normScalar_zero
#print axioms LzmaVerif.Twins.simdChunks_eq_map
#print axioms LzmaVerif.Twins.normalizeSimd_eq_scalar
#print axioms LzmaVerif.Twins.normalizeSimd_chunks_inBounds
#print axioms LzmaVerif.Twins.normalizeSimd_chunk_aligned
#print axioms LzmaVerif.Twins.signTest_iff_unsigned
#print axioms LzmaVerif.Twins.compare_agree_of_inv
#print axioms LzmaVerif.Twins.signTest_ne_unsigned
#print axioms LzmaVerif.Twins.or_low
#print axioms LzmaVerif.Twins.or_one_even
#print axioms LzmaVerif.Twins.halvePortable_eq_X86
#print axioms LzmaVerif.Twins.halveX86_eq_A64
#print axioms LzmaVerif.Twins.halveX86_eq_A64_of_inv
#print axioms LzmaVerif.Twins.halve_diverges_outside_invariant
#print axioms LzmaVerif.Twins.direct_diverges_from_invariant_state
#print axioms LzmaVerif.Twins.dNormalize_pos_ge
#print axioms LzmaVerif.Twins.directLoop_pos_ge
#print axioms LzmaVerif.Twins.directLoop_congr
#print axioms LzmaVerif.Twins.runAll_of_inv
#print axioms LzmaVerif.Twins.dNormalize_rangeOk
#print axioms LzmaVerif.Twins.halvePortable_rangeOk
#print axioms LzmaVerif.Twins.rdPortable_lt
#print axioms LzmaVerif.Twins.directPortable_eq_loop
#print axioms LzmaVerif.Twins.directPortable_small_range_diverges
#print axioms LzmaVerif.Twins.rdAsm_eq_rdPortable
#print axioms LzmaVerif.Twins.halvePortable_pos
#print axioms LzmaVerif.Twins.halveX86_pos
#print axioms LzmaVerif.Twins.halveA64_pos
#print axioms LzmaVerif.Twins.directX86_eq_directPortable
#print axioms LzmaVerif.Twins.directA64_eq_directX86
#print axioms LzmaVerif.Twins.directLoop_pos
#print axioms LzmaVerif.Twins.directX86_pos
#print axioms LzmaVerif.Twins.directA64_pos
#print axioms LzmaVerif.Twins.directPortable_pos
#print axioms LzmaVerif.Twins.asmIndex_lt
#print axioms LzmaVerif.Twins.asmLimit_unique
#print axioms LzmaVerif.Twins.directAsmReads_inBounds
#print axioms LzmaVerif.Twins.rcBufLen_pos
#print axioms LzmaVerif.Twins.sgn64_gt_iff
#print axioms LzmaVerif.Twins.sgn64_limit_underflow
#print axioms LzmaVerif.Twins.direct_overrun_diverges
#print axioms LzmaVerif.Twins.rdAsm_eq_rdPortable_of_last_zero
#print axioms LzmaVerif.Twins.toDec_normalize
#print axioms LzmaVerif.Twins.decodeDirect1_refines
#print axioms LzmaVerif.Twins.decodeBitP_false_inv
#print axioms LzmaVerif.Twins.decodeBitP_preserves_inv
#print axioms LzmaVerif.Twins.decodeBitP_true_of_code_ge
#print axioms LzmaVerif.Twins.halve_breaks_strict_invariant
#print axioms LzmaVerif.Twins.alignedNew_spec
#print axioms LzmaVerif.Twins.alignedNew_encoder_bound
#print axioms LzmaVerif.Twins.alignedNew_assert_sound
#print axioms LzmaVerif.Twins.alignedNew_wraps_32bit
#print axioms LzmaVerif.Twins.ok_extendMatch
#print axioms LzmaVerif.Twins.ok_extendMatchOpt
#print axioms LzmaVerif.Twins.ok_fastReject
#print axioms LzmaVerif.Twins.ok_directBits
#print axioms LzmaVerif.Twins.ok_alignedNew
