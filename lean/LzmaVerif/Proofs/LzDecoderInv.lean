import LzmaVerif.Proofs.LzDecoderBase
/-!
The representation invariant of the cyclic dictionary buffer and its preservation by every method of
`LZDecoder` under the callers' preconditions; no method reaches an index out of range (`.oob`), a
`usize` underflow (`.arith`), a failed debug assertion or a non-terminating loop under them.

Ghost data: the full history `H` since the last dictionary reset (incl. the used part of the preset) and
`base`, the history index of buffer slot 0 in the current lap (`H.size = base + pos`).
-/
namespace LzmaVerif.LzDecoder
open LzmaVerif LzmaVerif.Lzma

/-- buffer `buf` of size `n` with write position `pos` represents the history `H`:
    slots below `pos` hold the current lap, slots from `pos` on still hold the previous lap -/
structure Rep (buf : Array Nat) (n pos base : Nat) (H : Hist) : Prop where
  size : buf.size = n
  pos_le : pos ≤ n
  total : H.size = base + pos
  cur : ∀ i, i < pos → buf.getD i 0 = H.getD (base + i) 0
  old : n ≤ base → ∀ i, pos ≤ i → i < n → buf.getD i 0 = H.getD (base + i - n) 0
  base0 : base = 0 ∨ n ≤ base

structure Inv (s : State) (H : Hist) (base : Nat) : Prop where
  rep : Rep s.buf s.bufSize s.pos base H
  start_le : s.start ≤ s.pos
  limit_le : s.limit ≤ s.bufSize
  full_eq : (base = 0 ∧ s.full = s.pos) ∨ (s.bufSize ≤ base ∧ s.full = s.bufSize)
  zero : s.full = 0 → s.buf.getD (s.bufSize - 1) 0 = 0

theorem Inv.pos_le_full {s H base} (h : Inv s H base) : s.pos ≤ s.full := by
  have := h.rep.pos_le
  rcases h.full_eq with ⟨_, h2⟩ | ⟨_, h2⟩ <;> omega

theorem Inv.full_le {s H base} (h : Inv s H base) : s.full ≤ s.bufSize := by
  have := h.rep.pos_le
  rcases h.full_eq with ⟨_, h2⟩ | ⟨_, h2⟩ <;> omega

/-- `full` is the number of history bytes the window holds -/
theorem Inv.full_eq_min {s H base} (h : Inv s H base) : s.full = min H.size s.bufSize := by
  have := h.rep.pos_le
  have := h.rep.total
  rcases h.full_eq with ⟨h1, h2⟩ | ⟨h1, h2⟩ <;> omega

theorem Inv.pos_eq_or {s H base} (h : Inv s H base) : s.pos = s.full ∨ s.full = s.bufSize := by
  rcases h.full_eq with ⟨_, h2⟩ | ⟨_, h2⟩
  · left; omega
  · right; exact h2

/-! ## The generic copy step -/

theorem Rep.blit_step {buf : Array Nat} {n pos base : Nat} {H : Hist} (hr : Rep buf n pos base H)
    (xs : Array Nat) (T : Hist) (hext : Ext H T) (hsz : T.size = H.size + xs.size) (hfit : pos + xs.size ≤ n)
    (hx : ∀ j, j < xs.size → xs.getD j 0 = T.getD (H.size + j) 0) :
    Rep (blit buf pos xs) n (pos + xs.size) base T := by
  have hsize := hr.size
  have htot := hr.total
  refine ⟨by rw [blit_size]; exact hsize, hfit, by omega, ?_, ?_, hr.base0⟩
  · intro i hi
    rw [blit_getD _ _ _ _ (by omega)]
    by_cases h : pos ≤ i
    · rw [if_pos ⟨h, hi⟩, hx _ (by omega)]; congr 1; omega
    · rw [if_neg (by omega), hr.cur i (by omega), hext.2 _ (by omega)]
  · intro hb i h1 h2
    rw [blit_getD _ _ _ _ (by omega), if_neg (by omega), hr.old hb i (by omega) h2, hext.2 _ (by omega)]

/-- copying `c` bytes from `src` to `pos` when the source bytes are the next `c` bytes of `T` -/
theorem Rep.copy_step {buf : Array Nat} {n pos base : Nat} {H : Hist} (hr : Rep buf n pos base H)
    (src c : Nat) (T : Hist) (hext : Ext H T) (hsz : T.size = H.size + c) (hfit : pos + c ≤ n) (hsrc : src + c ≤ n)
    (hx : ∀ j, j < c → buf.getD (src + j) 0 = T.getD (H.size + j) 0) :
    Rep (blit buf pos (buf.extract src (src + c))) n (pos + c) base T := by
  have hsize := hr.size
  have e : (buf.extract src (src + c)).size = c := size_extract' _ _ _ (by omega)
  have := hr.blit_step (buf.extract src (src + c)) T hext (by rw [e]; exact hsz) (by rw [e]; exact hfit)
    (by intro j hj; rw [e] at hj; rw [getD_extract _ _ _ _ (by omega) hj]; exact hx j hj)
  rw [e] at this; exact this

/-- source bytes taken `m+1` periods back inside the current lap -/
theorem src_cur {buf : Array Nat} {n p base : Nat} {H0 : Hist} {d m c : Nat} (hd : d < H0.size)
    (hr : Rep buf n p base (Hist.copy H0 d (m * (d + 1))))
    (hsrc : (m + 1) * (d + 1) ≤ p) (hc : c ≤ (m + 1) * (d + 1)) :
    ∀ j, j < c → buf.getD (p - (m + 1) * (d + 1) + j) 0 =
      (Hist.copy H0 d (m * (d + 1) + c)).getD ((Hist.copy H0 d (m * (d + 1))).size + j) 0 := by
  intro j hj
  have eP : (m + 1) * (d + 1) = m * (d + 1) + (d + 1) := Nat.succ_mul _ _
  have htot := hr.total
  rw [size_copy] at htot ⊢
  rw [copy_periodic H0 d _ hd m _ (by omega) (by omega), copy_add,
      copy_getD_lt _ _ _ _ (by rw [size_copy]; omega), hr.cur _ (by omega)]
  congr 1; omega

/-- source bytes in the previous lap (the distance wraps around the end of the buffer) -/
theorem src_old {buf : Array Nat} {n p base : Nat} {H : Hist} {d c : Nat} (hd : d < H.size)
    (hr : Rep buf n p base H) (hb : n ≤ base) (hp : p < d + 1) (hdn : d < n) (hc : c ≤ d + 1 - p) :
    ∀ j, j < c → buf.getD (n + p - d - 1 + j) 0 = (Hist.copy H d c).getD (H.size + j) 0 := by
  intro j hj
  have htot := hr.total
  rw [copy_rec H d c _ hd (by omega) (by omega), copy_getD_lt _ _ _ _ (by omega),
      hr.old hb _ (by omega) (by omega)]
  congr 1; omega

/-! ## The overlapping loop -/

theorem copyLoopF_spec {n base : Nat} {H0 : Hist} {d pos0 : Nat} (hd : d < H0.size) (hp : d + 1 ≤ pos0) :
    ∀ fuel left m buf, left < fuel → Rep buf n (pos0 + m * (d + 1)) base (Hist.copy H0 d (m * (d + 1))) → 0 < left →
      pos0 + m * (d + 1) + left ≤ n →
      ∃ buf', copyLoopF fuel buf (pos0 - (d + 1)) (pos0 + m * (d + 1)) left = .ok (buf', pos0 + m * (d + 1) + left) ∧
        Rep buf' n (pos0 + m * (d + 1) + left) base (Hist.copy H0 d (m * (d + 1) + left)) := by
  intro fuel
  induction fuel with
  | zero => intro left m buf hf; omega
  | succ fuel ih =>
    intro left m buf hf hr hl hfit
    have eP : (m + 1) * (d + 1) = m * (d + 1) + (d + 1) := Nat.succ_mul _ _
    have eM : (m + (m + 1)) * (d + 1) = m * (d + 1) + (m + 1) * (d + 1) := Nat.add_mul _ _ _
    have hsz := hr.size
    have hsrcEq : pos0 - (d + 1) = pos0 + m * (d + 1) - (m + 1) * (d + 1) := by omega
    rw [copyLoopF, if_neg (by omega)]
    by_cases hc : left ≤ (m + 1) * (d + 1)
    · have hmin : min left (pos0 + m * (d + 1) - (pos0 - (d + 1))) = left := by omega
      simp only [hmin]
      rw [copyWithin_ok _ _ _ _ (by omega) (by omega)]
      simp only [Nat.sub_self, if_true]
      refine ⟨_, rfl, ?_⟩
      rw [hsrcEq]
      exact hr.copy_step _ left _ (by rw [copy_add]; exact ext_copy _ _ _) (by rw [size_copy, size_copy]; omega)
        hfit (by omega) (src_cur hd hr (by omega) hc)
    · have hmin : min left (pos0 + m * (d + 1) - (pos0 - (d + 1))) = (m + 1) * (d + 1) := by omega
      simp only [hmin]
      rw [copyWithin_ok _ _ _ _ (by omega) (by omega)]
      have h1 : ¬ (left - (m + 1) * (d + 1) = 0) := by omega
      have h2 : ¬ ((m + 1) * (d + 1) = 0) := by omega
      simp only [h1, h2, if_false]
      have hr' : Rep (blit buf (pos0 + m * (d + 1)) (buf.extract (pos0 - (d + 1)) (pos0 - (d + 1) + (m + 1) * (d + 1)))) n
          (pos0 + (m + (m + 1)) * (d + 1)) base (Hist.copy H0 d ((m + (m + 1)) * (d + 1))) := by
        have := hr.copy_step (pos0 + m * (d + 1) - (m + 1) * (d + 1)) ((m + 1) * (d + 1))
          (Hist.copy H0 d (m * (d + 1) + (m + 1) * (d + 1)))
          (by rw [copy_add]; exact ext_copy _ _ _) (by rw [size_copy, size_copy]; omega)
          (by omega) (by omega) (src_cur hd hr (by omega) (Nat.le_refl _))
        rw [eM, ← Nat.add_assoc, hsrcEq]
        exact this
      obtain ⟨buf', hrun, hrep⟩ := ih (left - (m + 1) * (d + 1)) (m + (m + 1)) _ (by omega) hr' (by omega) (by omega)
      have e1 : pos0 + m * (d + 1) + (m + 1) * (d + 1) = pos0 + (m + (m + 1)) * (d + 1) := by omega
      have e2 : pos0 + (m + (m + 1)) * (d + 1) + (left - (m + 1) * (d + 1)) = pos0 + m * (d + 1) + left := by omega
      have e3 : (m + (m + 1)) * (d + 1) + (left - (m + 1) * (d + 1)) = m * (d + 1) + left := by omega
      rw [e1, hrun, e2]
      rw [e2, e3] at hrep
      exact ⟨buf', rfl, hrep⟩

theorem copyLoop_spec {n base : Nat} {H0 : Hist} {d pos0 : Nat} (hd : d < H0.size) (hp : d + 1 ≤ pos0) :
    ∀ left m buf, Rep buf n (pos0 + m * (d + 1)) base (Hist.copy H0 d (m * (d + 1))) → 0 < left →
      pos0 + m * (d + 1) + left ≤ n →
      ∃ buf', copyLoop buf (pos0 - (d + 1)) (pos0 + m * (d + 1)) left = .ok (buf', pos0 + m * (d + 1) + left) ∧
        Rep buf' n (pos0 + m * (d + 1) + left) base (Hist.copy H0 d (m * (d + 1) + left)) := by
  intro left m buf hr hl hfit
  exact copyLoopF_spec hd hp (left + 1) left m buf (Nat.lt_succ_self _) hr hl hfit

/-- the fuel of `copyLoopF` is never what stops the loop: any fuel above `left` gives the same result
    (so `copyLoop` is the Rust `loop` with its own termination argument made explicit) -/
theorem copyLoop_fuel_irrelevant : ∀ fuel buf back pos left, left < fuel →
    copyLoopF fuel buf back pos left = copyLoop buf back pos left := by
  have key : ∀ fuel buf back pos left, left < fuel →
      copyLoopF fuel buf back pos left = copyLoopF (fuel + 1) buf back pos left := by
    intro fuel
    induction fuel with
    | zero => intro buf back pos left h; omega
    | succ fuel ih =>
      intro buf back pos left h
      rw [copyLoopF]
      conv => rhs; rw [copyLoopF]
      by_cases h1 : pos < back
      · rw [if_pos h1, if_pos h1]
      · rw [if_neg h1, if_neg h1]
        simp only []
        cases hcw : copyWithin buf back (min left (pos - back)) pos with
        | error e => rfl
        | ok buf' =>
          simp only []
          by_cases h2 : left - min left (pos - back) = 0
          · rw [if_pos h2, if_pos h2]
          · rw [if_neg h2, if_neg h2]
            by_cases h3 : min left (pos - back) = 0
            · rw [if_pos h3, if_pos h3]
            · rw [if_neg h3, if_neg h3]
              exact ih _ _ _ _ (by omega)
  intro fuel buf back pos left h
  unfold copyLoop
  induction fuel with
  | zero => omega
  | succ fuel ih =>
    by_cases hf : left < fuel
    · rw [← key fuel _ _ _ _ hf]; exact ih hf
    · have : fuel = left := by omega
      rw [this]

end LzmaVerif.LzDecoder
