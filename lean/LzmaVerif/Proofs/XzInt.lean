import LzmaVerif.Model.XzInt
import Mathlib.Tactic.Ring
import Mathlib.Tactic.IntervalCases
/-! Helper lemmas for XZ multibyte integers and the LZMA2 dictionary property. -/
namespace LzmaVerif.XzInt

theorem parse_encode_aux (fe : Nat) : ∀ (v fp shift acc n : Nat) (rest : List Nat),
    v < 128 ^ fe → (1 ≤ v ∨ 1 ≤ fe) → v * 2 ^ shift < 2 ^ 63 → shift < 63 → shift + 7 * fp = 63 →
    parseReaderAux fp (encodeFuel fe v ++ rest) shift acc n
      = .ok (acc + v * 2 ^ shift) (n + sizeForFuel fe v) ∧ sizeForFuel fe v ≤ fp ∧
      (encodeFuel fe v).length = sizeForFuel fe v := by
  induction fe with
  | zero => intro v fp shift acc n rest hv hne; simp at hv; omega
  | succ fe ih =>
    intro v fp shift acc n rest hv _ hb hs hf
    obtain ⟨fp', rfl⟩ : ∃ k, fp = k + 1 := ⟨fp - 1, by omega⟩
    by_cases hlt : v < 128
    · simp only [encodeFuel, hlt, if_true, List.cons_append, List.nil_append, parseReaderAux,
        sizeForFuel, List.length_cons, List.length_nil]
      have h1 : ¬ (shift ≥ 63) := by omega
      have h2 : v % 128 = v := Nat.mod_eq_of_lt hlt
      simp only [h1, if_false, h2, hlt]
      exact ⟨trivial, by omega, trivial⟩
    · have hge : 128 ≤ v := by omega
      -- 2^(shift+7) < 2^63
      have hpow : 2 ^ (shift + 7) < 2 ^ 63 := by
        have : 128 * 2 ^ shift ≤ v * 2 ^ shift := Nat.mul_le_mul_right _ hge
        have e : 2 ^ (shift + 7) = 128 * 2 ^ shift := by rw [Nat.pow_add]; omega
        omega
      have hs' : shift + 7 < 63 := (Nat.pow_lt_pow_iff_right (by decide)).mp hpow
      have hv' : v / 128 < 128 ^ fe := by
        rw [Nat.pow_succ] at hv
        exact (Nat.div_lt_iff_lt_mul (by decide)).mpr hv
      have hb' : v / 128 * 2 ^ (shift + 7) < 2 ^ 63 := by
        have e : v / 128 * 2 ^ (shift + 7) = (v / 128 * 128) * 2 ^ shift := by
          rw [Nat.pow_add]; ring
        have : v / 128 * 128 ≤ v := Nat.div_mul_le_self _ _
        have := Nat.mul_le_mul_right (2 ^ shift) this
        omega
      obtain ⟨ih1, ih2, ih3⟩ := ih (v / 128) fp' (shift + 7)
        (acc + (v % 128 + 128) % 128 * 2 ^ shift) (n + 1) rest hv' (Or.inl (by omega)) hb' hs' (by omega)
      simp only [encodeFuel, hlt, if_false, List.cons_append, parseReaderAux, sizeForFuel,
        List.length_cons]
      have h1 : ¬ (shift ≥ 63) := by omega
      have h3 : ¬ (v % 128 + 128 < 128) := by omega
      simp only [h1, if_false, h3]
      rw [ih1]
      refine ⟨?_, by omega, by omega⟩
      have hm : (v % 128 + 128) % 128 = v % 128 := by omega
      rw [hm]
      have key : v % 128 * 2 ^ shift + v / 128 * 2 ^ (shift + 7) = v * 2 ^ shift := by
        have := Nat.div_add_mod v 128
        rw [Nat.pow_add]
        calc v % 128 * 2 ^ shift + v / 128 * (2 ^ shift * 2 ^ 7)
            = (128 * (v / 128) + v % 128) * 2 ^ shift := by ring
          _ = v * 2 ^ shift := by rw [this]
      congr 1
      · omega
      · omega

/-- sizes: property `p` (< 40) announces `(2 + p%2) * 2^(p/2+11)` bytes; monotone in `p` -/
def propSize (p : Nat) : Nat := (2 + p % 2) * 2 ^ (p / 2 + 11)

theorem propSize_mono (p : Nat) : propSize p < propSize (p + 1) := by
  unfold propSize
  rcases Nat.mod_two_eq_zero_or_one p with h | h
  · have h1 : (p + 1) % 2 = 1 := by omega
    have h2 : (p + 1) / 2 = p / 2 := by omega
    rw [h, h1, h2]
    have : 0 < 2 ^ (p / 2 + 11) := Nat.pow_pos (by decide)
    omega
  · have h1 : (p + 1) % 2 = 0 := by omega
    have h2 : (p + 1) / 2 = p / 2 + 1 := by omega
    rw [h, h1, h2]
    have : 2 ^ (p / 2 + 1 + 11) = 2 * 2 ^ (p / 2 + 11) := by
      rw [show p / 2 + 1 + 11 = (p / 2 + 11) + 1 by omega, Nat.pow_succ]; omega
    have : 0 < 2 ^ (p / 2 + 11) := Nat.pow_pos (by decide)
    omega

theorem findProp_spec (d : Nat) : ∀ (fuel p r : Nat), findProp d fuel p = some r →
    p ≤ r ∧ r < 40 ∧ d ≤ propSize r ∧ ∀ q, p ≤ q → q < r → propSize q < d := by
  intro fuel
  induction fuel with
  | zero => intro p r h; simp [findProp] at h
  | succ fuel ih =>
    intro p r h
    simp only [findProp] at h
    split at h
    · cases h
    · rename_i hp
      split at h
      · rename_i hs
        simp only [Option.some.injEq] at h
        subst h
        exact ⟨Nat.le_refl _, by omega, hs, fun q h1 h2 => by omega⟩
      · rename_i hs
        obtain ⟨i1, i2, i3, i4⟩ := ih (p + 1) r h
        refine ⟨by omega, i2, i3, ?_⟩
        intro q h1 h2
        by_cases hq : q = p
        · subst hq; unfold propSize; omega
        · exact i4 q (by omega) h2

theorem findProp_total (d : Nat) : ∀ (fuel p : Nat), p + fuel ≥ 41 → p ≤ 39 → d ≤ propSize 39 →
    ∃ r, findProp d fuel p = some r := by
  intro fuel
  induction fuel with
  | zero => intro p h1 h2; omega
  | succ fuel ih =>
    intro p h1 h2 h3
    simp only [findProp]
    have : ¬ p ≥ 40 := by omega
    simp only [this, if_false]
    by_cases hs : (2 + p % 2) * 2 ^ (p / 2 + 11) ≥ d
    · exact ⟨p, by simp only [hs, if_true]⟩
    · simp only [hs, if_false]
      have hp : p ≠ 39 := by
        intro hc; subst hc; unfold propSize at h3; omega
      exact ih (p + 1) (by omega) (by omega) h3

end LzmaVerif.XzInt
