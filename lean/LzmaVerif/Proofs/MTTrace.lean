import LzmaVerif.Model.MTTrace
/-
What an accepted event log says about the values returned to the real caller: the data returns logged
by the real code (`rt:d:<seq>` events) are exactly the model's `delivered` list, in order.
(The path property itself holds by construction, `Path.ok`.)
-/
namespace LzmaVerif.MT.Trace
open LzmaVerif.MT

/-- the sequence numbers the real calls returned, in log order -/
def dataRets : List Ev → List Nat
  | [] => []
  | .ret (.data q) :: r => q :: dataRets r
  | _ :: r => dataRets r

/-- the unit a call is about to hand to the caller -/
def pend : CPc → List Nat
  | .idle (some (.data q)) => [q]
  | _ => []

def outside : CPc → Bool
  | .idle _ | .dropped => true
  | _ => false

/-! ## steps of the LTS and `delivered` -/

theorem onMsg_delivered (s : Sys) (m : Msg) (rest : List Msg) :
    (onMsg s m rest).delivered = s.delivered ++ pend (onMsg s m rest).pc := by
  cases m with
  | wake => simp [onMsg, pend]
  | result seq =>
    simp only [onMsg]
    split <;> simp_all [pend]

theorem coord_delivered (s s' : Sys) (h : coordStep s = some s') :
    outside s.pc = false ∧ s'.delivered = s.delivered ++ pend s'.pc := by
  cases hp : s.pc with
  | idle l => simp [coordStep, hp] at h
  | dropped => simp [coordStep, hp] at h
  | top =>
    simp only [coordStep, hp] at h
    split at h <;> simp at h <;> subst h <;> simp [outside, pend]
  | chkErr =>
    simp only [coordStep, hp] at h
    split at h <;> simp at h <;> subst h <;> simp [outside, pend]
  | byState =>
    simp only [coordStep, hp] at h
    refine ⟨by simp [outside], ?_⟩
    split at h
    · simp at h; subst h; simp [pend]
    · split at h
      · split at h <;> simp at h <;> subst h <;> simp [pend]
      · simp at h; subst h; simp [pend]
    · simp at h; subst h; simp [pend]
    · simp at h; subst h; simp [pend]
  | tryRecv =>
    simp only [coordStep, hp] at h
    refine ⟨by simp [outside], ?_⟩
    split at h
    · simp at h; subst h; exact onMsg_delivered s _ _
    · simp at h; subst h; simp [pend]
  | chkQueue =>
    simp only [coordStep, hp] at h
    split at h <;> simp at h <;> subst h <;> simp [outside, pend]
  | source =>
    simp only [coordStep, hp] at h
    refine ⟨by simp [outside], ?_⟩
    split at h
    · simp at h; subst h; simp [pend]
    · split at h <;> simp at h <;> subst h <;> simp [pend]
  | push q =>
    simp only [coordStep, hp] at h
    simp at h; subst h; simp [outside, pend]
  | spawnChk =>
    simp only [coordStep, hp] at h
    refine ⟨by simp [outside], ?_⟩
    split at h <;> simp at h <;> subst h <;> (simp only; split <;> simp [pend])
  | recvReading =>
    simp only [coordStep, hp] at h
    refine ⟨by simp [outside], ?_⟩
    split at h
    · simp at h; subst h; exact onMsg_delivered s _ _
    · simp at h
  | recvDraining =>
    simp only [coordStep, hp] at h
    refine ⟨by simp [outside], ?_⟩
    split at h
    · simp at h; subst h; exact onMsg_delivered s _ _
    · simp at h

theorem worker_delivered (s s' : Sys) (i : Nat) (h : workerStep s i = some s') :
    s'.delivered = s.delivered ∧ s'.pc = s.pc := by
  simp only [workerStep] at h
  split at h
  · simp at h
  · rename_i pc _
    cases pc <;> simp only at h <;> (try split at h) <;> (try split at h) <;> simp at h <;> subst h <;> simp

theorem call_delivered (s s' : Sys) (h : callerStep s false = some s') :
    s'.delivered = s.delivered ∧ s'.pc = .top ∧ outside s.pc = true := by
  simp only [callerStep] at h
  split at h
  · rename_i last hp
    simp only [Bool.false_eq_true, if_false] at h
    split at h <;> simp at h
    subst h
    simp [hp, outside]
  · simp at h

theorem drop_delivered (s s' : Sys) (h : callerStep s true = some s') :
    s'.delivered = s.delivered ∧ s'.pc = .dropped ∧ outside s.pc = true := by
  simp only [callerStep] at h
  split at h
  · rename_i last hp
    simp only [if_true] at h
    simp at h
    subst h
    simp [hp, outside]
  · simp at h

/-! ## the invariant of the replay -/

theorem pend_of_inside (pc : CPc) (h : outside pc = false) : pend pc = [] := by
  cases pc <;> simp_all [outside, pend]

/-- `rets` = the data returns logged so far; a unit that the model has handed over inside the current
    call is not logged yet -/
def J0 (s : Sys) (inCall : Bool) (rets : List Nat) : Prop :=
  s.delivered = rets ++ (if inCall then pend s.pc else []) ∧ (inCall = false → outside s.pc = true)

theorem J0_coord (s s' : Sys) (c : Bool) (rets : List Nat) (h : J0 s c rets) (hs : coordStep s = some s') :
    J0 s' c rets := by
  obtain ⟨hin, hd⟩ := coord_delivered s s' hs
  have hc : c = true := by
    cases c with
    | true => rfl
    | false => have := h.2 rfl; rw [hin] at this; cases this
  subst hc
  have h1 := h.1
  simp only [if_true, pend_of_inside _ hin, List.append_nil] at h1
  exact ⟨by simp only [if_true]; rw [hd, h1], by intro hc; cases hc⟩

theorem J0_worker (s s' : Sys) (c : Bool) (rets : List Nat) (i : Nat) (h : J0 s c rets)
    (hs : workerStep s i = some s') : J0 s' c rets := by
  obtain ⟨hd, hp⟩ := worker_delivered s s' i hs
  unfold J0 at h ⊢
  rw [hd, hp]; exact h

theorem J0_call (s s' : Sys) (rets : List Nat) (h : J0 s false rets) (hs : callerStep s false = some s') :
    J0 s' true rets := by
  obtain ⟨hd, hp, _⟩ := call_delivered s s' hs
  have h1 := h.1
  simp only [Bool.false_eq_true, if_false, List.append_nil] at h1
  exact ⟨by simp [hd, hp, h1, pend], by intro hc; cases hc⟩

theorem J0_drop (s s' : Sys) (rets : List Nat) (h : J0 s false rets) (hs : callerStep s true = some s') :
    J0 s' false rets := by
  obtain ⟨hd, hp, _⟩ := drop_delivered s s' hs
  have h1 := h.1
  simp only [Bool.false_eq_true, if_false, List.append_nil] at h1
  exact ⟨by simp [hd, h1], by intro _; simp [hp, outside]⟩

theorem J0_ret (s : Sys) (rets : List Nat) (r : Ret) (h : J0 s true rets) (hp : s.pc = .idle (some r)) :
    J0 s false (rets ++ dataRets [.ret r]) := by
  have h1 := h.1
  simp only [if_true, hp] at h1
  refine ⟨?_, by intro _; simp [hp, outside]⟩
  cases r <;> simp_all [pend, dataRets]

theorem J0_postcall (s : Sys) (rets : List Nat) (h : J0 s false rets) (hf : isFinal s.pc = true) :
    J0 s true rets := by
  have h1 := h.1
  simp only [Bool.false_eq_true, if_false, List.append_nil] at h1
  refine ⟨?_, by intro hc; cases hc⟩
  cases hp : s.pc with
  | idle l =>
    cases l with
    | none => simp [hp, isFinal] at hf
    | some r => cases r <;> simp_all [isFinal, pend]
  | _ => simp [hp, isFinal] at hf

/-! ## the validator only moves the model by steps of the LTS and never touches `inCall` outside `call` / `ret` -/

theorem Path.step_sys {cfg : Cfg} {p p' : Path cfg} {l : Label} (h : p.step l = some p') :
    MT.step p.sys l = some p'.sys := by
  unfold Path.step at h
  split at h
  · cases h
  · rename_i s' hs
    cases h
    exact hs

def J {cfg : Cfg} (v : VS cfg) (rets : List Nat) : Prop := J0 v.path.sys v.inCall rets

theorem cStep_J {cfg : Cfg} (v v' : VS cfg) (pre : Sys → Bool) (post : Sys → Sys → Bool) (rets : List Nat)
    (hj : J v rets) (h : cStep v pre post = .ok v') : J v' rets := by
  unfold cStep at h
  split at h
  · cases h
  · split at h
    · cases h
    · rename_i p hp
      split at h
      · cases h
        exact J0_coord _ _ _ _ hj (Path.step_sys hp)
      · cases h

theorem wStep_J {cfg : Cfg} (v v' : VS cfg) (j : Nat) (pre post : WPc → Bool) (rets : List Nat)
    (hj : J v rets) (h : wStep v j pre post = .ok v') : J v' rets := by
  unfold wStep at h
  split at h
  · cases h
  · split at h
    · cases h
    · split at h
      · cases h
      · rename_i p hp
        split at h
        · split at h
          · cases h
            exact J0_worker _ _ _ _ j hj (Path.step_sys hp)
          · cases h
        · cases h

/-- changes of the bookkeeping fields keep the invariant -/
theorem J_congr {cfg : Cfg} (v v' : VS cfg) (rets : List Nat) (hj : J v rets)
    (hs : v'.path.sys = v.path.sys) (hc : v'.inCall = v.inCall) : J v' rets := by
  unfold J at hj ⊢
  rw [hs, hc]; exact hj

theorem onSpawn_J {cfg : Cfg} (v v' : VS cfg) (pre : Sys → Bool) (d : Bool) (rets : List Nat)
    (hj : J v rets) (h : onC.onSpawn v pre d = .ok v') : J v' rets := by
  unfold onC.onSpawn at h
  simp only [bind, Except.bind] at h
  split at h
  · cases h
  · rename_i v1 h1
    have hj1 := cStep_J v v1 _ _ rets hj h1
    split at h <;> (simp only [pure, Except.pure] at h; cases h)
    · exact J_congr v1 _ rets hj1 rfl rfl
    · exact hj1

theorem onC_J {cfg : Cfg} (v v' : VS cfg) (e : CEv) (rets : List Nat)
    (hj : J v rets) (h : onC v e = .ok v') : J v' rets := by
  cases e with
  | top hit => cases hit <;> exact cStep_J v v' _ _ rets hj (by simpa only [onC] using h)
  | err b => exact cStep_J v v' _ _ rets hj (by simpa only [onC] using h)
  | st k => cases k <;> exact cStep_J v v' _ _ rets hj (by simpa only [onC] using h)
  | tryRecv r => exact cStep_J v v' _ _ rets hj (by simpa only [onC] using h)
  | qlen b => exact cStep_J v v' _ _ rets hj (by simpa only [onC] using h)
  | recv r => exact cStep_J v v' _ _ rets hj (by simpa only [onC] using h)
  | push q =>
    simp only [onC, bind, Except.bind] at h
    split at h
    · cases h
    · rename_i v1 h1
      have hj1 := cStep_J v v1 _ _ rets hj h1
      split at h
      · cases h
      · rename_i v2 h2
        have hj2 := cStep_J v1 v2 _ _ rets hj1 h2
        simp only [pure, Except.pure] at h
        cases h
        exact J_congr v2 _ rets hj2 rfl rfl
  | ldActive a => simp only [onC] at h; cases h; exact hj
  | nop => simp only [onC] at h; cases h; exact hj
  | spawned => simp only [onC] at h; cases h
  | spawn a q d => exact onSpawn_J v v' _ d rets hj (by simpa only [onC] using h)
  | spawnAtLoad a d =>
    exact onSpawn_J { v with nEarly := v.nEarly + 1 } v' _ d rets (J_congr v _ rets hj rfl rfl)
      (by simpa only [onC] using h)
  | spawnAtLen q d => exact onSpawn_J v v' _ d rets hj (by simpa only [onC] using h)
  | src k =>
    cases k with
    | more =>
      simp only [onC] at h
      split at h
      · split at h
        · cases h; exact J_congr v _ rets hj rfl rfl
        · cases h
      · cases h
    | done =>
      simp only [onC, bind, Except.bind] at h
      split at h
      · cases h
      · rename_i v1 h1
        simp only [pure, Except.pure] at h
        cases h
        exact J_congr v1 _ rets (cStep_J v v1 _ _ rets hj h1) rfl rfl
    | err =>
      simp only [onC, bind, Except.bind] at h
      split at h
      · cases h
      · rename_i v1 h1
        simp only [pure, Except.pure] at h
        cases h
        exact J_congr v1 _ rets (cStep_J v v1 _ _ rets hj h1) rfl rfl

theorem onObs_J {cfg : Cfg} (v v' : VS cfg) (e : CEv) (rets : List Nat)
    (hj : J v rets) (h : onObs v e = .ok v') : J v' rets := by
  unfold onObs at h
  split at h
  · cases h; exact J_congr v _ rets hj rfl rfl
  · cases h

theorem ensureSteal_J {cfg : Cfg} (v : VS cfg) (i : Nat) (rets : List Nat) (hj : J v rets) :
    J (ensureSteal v i) rets := by
  unfold ensureSteal
  split
  · split
    · exact J_congr v _ rets hj rfl rfl
    · exact hj
  · exact hj

theorem setBlocked_J {cfg : Cfg} (v : VS cfg) (i : Nat) (b : Bool) (rets : List Nat) (hj : J v rets) :
    J (setBlocked v i b) rets := J_congr v _ rets hj rfl rfl

theorem onW_J {cfg : Cfg} (v v' : VS cfg) (i : Nat) (e : WEv) (rets : List Nat)
    (hj : J v rets) (h : onW v i e = .ok v') : J v' rets := by
  unfold onW at h
  split at h
  · cases h
  · cases e with
    | start => simp only at h; split at h <;> cases h; exact hj
    | sd b => exact wStep_J v v' _ _ _ rets hj h
    | pop q => exact wStep_J _ v' _ _ _ rets (ensureSteal_J v i rets hj) h
    | closed => exact wStep_J _ v' _ _ _ rets (ensureSteal_J v i rets hj) h
    | wait =>
      simp only at h
      have hje := ensureSteal_J v i rets hj
      split at h
      · split at h
        · cases h; exact J_congr _ _ rets hje rfl rfl
        · simp only [Except.map] at h
          split at h
          · cases h
          · rename_i v1 h1
            cases h
            exact setBlocked_J v1 i true rets (wStep_J _ v1 _ _ _ rets hje h1)
      · cases h; exact J_congr _ _ rets hje rfl rfl
      · cases h
    | woke => simp only at h; cases h; exact setBlocked_J v i false rets hj
    | inc => exact wStep_J v v' _ _ _ rets hj h
    | ok q => exact wStep_J v v' _ _ _ rets hj h
    | fail q => exact wStep_J v v' _ _ _ rets hj h
    | sent q g => exact wStep_J v v' _ _ _ rets hj h
    | dec => exact wStep_J v v' _ _ _ rets hj h
    | setErr => exact wStep_J v v' _ _ _ rets hj h
    | sentWake => exact wStep_J v v' _ _ _ rets hj h
    | exit =>
      simp only at h
      split at h
      · cases h; exact hj
      · exact wStep_J v v' _ _ _ rets hj h
      · cases h

theorem pathStep_sys {cfg : Cfg} (v v' : VS cfg) (l : Label) (h : pathStep v l = .ok v') :
    MT.step v.path.sys l = some v'.path.sys ∧ v'.inCall = v.inCall := by
  unfold pathStep at h
  split at h
  · rename_i p hp
    cases h
    exact ⟨Path.step_sys hp, rfl⟩
  · cases h

theorem onEv_J {cfg : Cfg} (v v' : VS cfg) (e : Ev) (rets : List Nat)
    (hj : J v rets) (h : onEv v e = .ok v') : J v' (rets ++ dataRets [e]) := by
  cases e with
  | call =>
    simp only [onEv] at h
    simp only [dataRets, List.append_nil]
    split at h
    · cases h
    · rename_i hin
      have hin' : v.inCall = false := by simpa using hin
      split at h
      · rename_i hf
        cases h
        unfold J at hj ⊢
        rw [hin'] at hj
        exact J0_postcall _ rets hj hf
      · simp only [Except.map] at h
        split at h
        · cases h
        · rename_i v1 h1
          cases h
          obtain ⟨hs, _⟩ := pathStep_sys v v1 .call h1
          unfold J at hj ⊢
          rw [hin'] at hj
          exact J0_call _ _ rets hj hs
  | drop =>
    simp only [onEv] at h
    simp only [dataRets, List.append_nil]
    split at h
    · cases h
    · rename_i hin
      have hin' : v.inCall = false := by simpa using hin
      obtain ⟨hs, hc⟩ := pathStep_sys v v' .drop h
      unfold J at hj ⊢
      rw [hc, hin']
      rw [hin'] at hj
      exact J0_drop _ _ rets hj hs
  | ret r =>
    simp only [onEv] at h
    split at h
    · cases h
    · rename_i hin
      have hin' : v.inCall = true := by simpa using hin
      split at h
      · rename_i hp
        cases h
        unfold J at hj ⊢
        rw [hin'] at hj
        exact J0_ret _ rets r hj (by simpa using hp)
      · cases h
  | c e =>
    simp only [onEv] at h
    simp only [dataRets, List.append_nil]
    split at h
    · cases h; exact hj
    · exact onC_J v v' e rets hj h
  | obs e =>
    simp only [onEv] at h
    simp only [dataRets, List.append_nil]
    split at h
    · cases h; exact hj
    · exact onObs_J v v' e rets hj h
  | w i e =>
    simp only [onEv] at h
    simp only [dataRets, List.append_nil]
    exact onW_J v v' i e rets hj h

theorem dataRets_cons (e : Ev) (r : List Ev) : dataRets (e :: r) = dataRets [e] ++ dataRets r := by
  cases e with
  | ret x => cases x <;> simp [dataRets]
  | _ => simp [dataRets]

theorem replayFrom_J {cfg : Cfg} (evs : List Ev) : ∀ (v v' : VS cfg) (k : Nat) (rets : List Nat),
    J v rets → replayFrom v k evs = .ok v' → J v' (rets ++ dataRets evs) := by
  induction evs with
  | nil => intro v v' k rets hj h; simp only [replayFrom] at h; cases h; simpa [dataRets] using hj
  | cons e r ih =>
    intro v v' k rets hj h
    simp only [replayFrom] at h
    split at h
    · rename_i v1 h1
      have hj1 := onEv_J v v1 e rets hj h1
      have := ih v1 v' (k + 1) _ hj1 h
      rw [dataRets_cons, ← List.append_assoc]
      exact this
    · cases h

/-! ## the preprocessing passes do not touch the returns -/

theorem dataRets_congr (e : Ev) (a b : List Ev) (h : dataRets a = dataRets b) :
    dataRets (e :: a) = dataRets (e :: b) := by
  rw [dataRets_cons e a, dataRets_cons e b, h]

theorem dataRets_resolveSpawn (evs : List Ev) : dataRets (resolveSpawn evs) = dataRets evs := by
  fun_induction resolveSpawn evs <;>
    first
    | exact dataRets_congr _ _ _ (by assumption)
    | simp_all [dataRets]

theorem dataRets_placeSpawn (b : Bool) (evs : List Ev) : dataRets (placeSpawn b evs) = dataRets evs := by
  fun_induction placeSpawn b evs <;>
    first
    | exact dataRets_congr _ _ _ (by assumption)
    | (simp_all [dataRets]; done)
    | (split <;> simp_all [dataRets])

theorem dataRets_markStutter (b : Bool) (evs : List Ev) : dataRets (markStutter b evs) = dataRets evs := by
  fun_induction markStutter b evs <;>
    first
    | exact dataRets_congr _ _ _ (by assumption)
    | simp_all [dataRets]

theorem dataRets_prepare (evs : List Ev) : dataRets (prepare evs) = dataRets evs := by
  unfold prepare
  rw [dataRets_markStutter, dataRets_placeSpawn, dataRets_resolveSpawn]

theorem J_start (cfg : Cfg) : J (VS.start cfg) [] := by
  simp [J, J0, VS.start, Path.start, init, outside]

/-- the values the real calls returned are the model's `delivered` list -/
theorem replay_returns (cfg : Cfg) (evs : List Ev) (v : VS cfg) (h : replay cfg evs = .ok v) :
    dataRets evs = v.path.sys.delivered := by
  unfold replay at h
  split at h
  · rename_i v1 h1
    split at h
    · rename_i hf
      cases h
      have hj := replayFrom_J (prepare evs) _ _ 0 [] (J_start cfg) h1
      rw [dataRets_prepare, List.nil_append] at hj
      simp only [finalOk, Bool.and_eq_true, beq_iff_eq] at hf
      have h1' := hj.1
      rw [hf.1] at h1'
      simp only [pend, ite_self, List.append_nil] at h1'
      exact h1'.symm
    · cases h
  · cases h

end LzmaVerif.MT.Trace
