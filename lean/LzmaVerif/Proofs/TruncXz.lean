import LzmaVerif.Proofs.XzMulti
import LzmaVerif.Proofs.XzPayloadEx
/-!
# Truncation, level 4: XZ files (single stream)

Every proper prefix of a well-formed single XZ stream (`Strm.bytes`, `multi = false`) is rejected: the reader reports
an error or (only from the payload codec) the model's `capped`; it never answers `.ok`.  The LZMA2 payload codec enters
through `PayloadOk` (round trip, as in `xz_roundtrip_blocks`) and `PayloadTrunc` (no proper prefix of a block's LZMA2
payload is accepted — stated as a hypothesis, shown satisfiable for stored chunks).
-/
namespace LzmaVerif.Xz
open LzmaVerif Lzma Checks

/-! ## `takeN` on cut input -/

theorem takeN_take_lt (n : Nat) (l : List Nat) (j : Nat) (hj : j < n) : takeN n (l.take j) = .error .eof := by
  unfold takeN
  have : (l.take j).length < n := by rw [List.length_take]; omega
  rw [if_pos this]

theorem takeN_short (n : Nat) (l : List Nat) (h : l.length < n) : takeN n l = .error .eof := by
  unfold takeN; rw [if_pos h]

theorem take_append_ge (x r : List Nat) (j : Nat) (hj : x.length ≤ j) :
    (x ++ r).take j = x ++ r.take (j - x.length) := by
  rw [List.take_append, List.take_of_length_le hj]

theorem take_append_lt (x r : List Nat) (j : Nat) (hj : j < x.length) : (x ++ r).take j = x.take j :=
  List.take_append_of_le_length (by omega)

/-! ## Stream header -/

theorem parseStreamHeader_trunc (c : Check) (k : Nat) (hk : k < 12) :
    parseStreamHeader ((streamHeaderBytes c).take k) = .error .eof := by
  unfold streamHeaderBytes parseStreamHeader
  by_cases h6 : k < 6
  · rw [takeN_short 6 _ (by rw [List.length_take]; omega)]
    rfl
  · rw [List.append_assoc, take_append_ge _ _ _ (by simp [Consts.XZ_MAGIC]; omega), takeN_append 6 _ _ rfl]
    simp only [bind, Except.bind, ne_eq, not_true_eq_false, if_false]
    have hm : Consts.XZ_MAGIC.length = 6 := rfl
    rw [hm]
    unfold parseFlags
    by_cases h8 : k - 6 < 2
    · rw [takeN_short 2 _ (by rw [List.length_take]; omega)]
      rfl
    · rw [take_append_ge _ _ _ (by simp; omega), takeN_append 2 _ _ rfl]
      simp only [bind, Except.bind, List.getD_cons_zero, List.getD_cons_succ, ne_eq, not_true_eq_false, if_false,
        ofByte_toByte]
      rw [takeN_take_lt 4 _ _ (by simp; omega)]

/-! ## Multibyte integers -/

theorem parseReaderAux_trunc : ∀ (g v i fuel shift acc n : Nat), i < (XzInt.encodeFuel g v).length → i < fuel →
    shift + 7 * i < 63 →
    XzInt.parseReaderAux fuel ((XzInt.encodeFuel g v).take i) shift acc n = .incomplete := by
  intro g
  induction g with
  | zero => intro v i fuel shift acc n hi; simp [XzInt.encodeFuel] at hi
  | succ g ih =>
    intro v i fuel shift acc n hi hf hs
    obtain ⟨f, rfl⟩ : ∃ f, fuel = f + 1 := ⟨fuel - 1, by omega⟩
    cases i with
    | zero => simp [XzInt.parseReaderAux]
    | succ i =>
      simp only [XzInt.encodeFuel] at hi ⊢
      by_cases hv : v < 128
      · rw [if_pos hv] at hi; simp at hi
      · rw [if_neg hv] at hi ⊢
        simp only [List.length_cons] at hi
        simp only [List.take_succ_cons, XzInt.parseReaderAux]
        have h1 : ¬ (shift ≥ 63) := by omega
        have h2 : ¬ (v % 128 + 128 < 128) := by omega
        simp only [h1, h2, if_false]
        exact ih _ i f _ _ _ (by omega) (by omega) (by omega)

theorem mbReader_trunc (v : Nat) (hv : v < 2 ^ 63) (i : Nat) (hi : i < (mb v).length) :
    mbReader ((mb v).take i) = .error .eof := by
  obtain ⟨_, h9, _, _⟩ := mb_spec v hv
  have h63 : ¬ (v > 2 ^ 63 - 1) := by omega
  have hmb : mb v = XzInt.encodeFuel 10 v := by
    simp only [mb, XzInt.encode, h63, if_false, Option.getD_some]
  rw [hmb] at hi h9 ⊢
  unfold mbReader XzInt.parseReader
  rw [parseReaderAux_trunc 10 v i 9 0 0 0 hi (by omega) (by omega)]

/-- reading an integer from input cut inside or behind it -/
theorem mbReader_cut (v : Nat) (hv : v < 2 ^ 63) (r : List Nat) (j : Nat) :
    (j < (mb v).length ∧ mbReader ((mb v ++ r).take j) = .error .eof) ∨
    ((mb v).length ≤ j ∧ mbReader ((mb v ++ r).take j) = .ok (v, r.take (j - (mb v).length))) := by
  by_cases hj : j < (mb v).length
  · left
    rw [take_append_lt _ _ _ hj]
    exact ⟨hj, mbReader_trunc v hv j hj⟩
  · right
    rw [take_append_ge _ _ _ (by omega)]
    exact ⟨by omega, (mb_spec v hv).2.2.2 _⟩

/-! ## Index -/

theorem recBytes_cons (x : Nat × Nat) (recs : List (Nat × Nat)) :
    recBytes (x :: recs) = mb x.1 ++ (mb x.2 ++ recBytes recs) := by
  simp [recBytes]

/-- the record loop on input cut inside the records -/
theorem parseRecords_trunc : ∀ (recs : List (Nat × Nat)) (fuel : Nat) (acc : List (Nat × Nat)) (i : Nat),
    (∀ x ∈ recs, RecOk x) → i < (recBytes recs).length → i < fuel →
    parseRecords fuel recs.length ((recBytes recs).take i) acc = .error .eof := by
  intro recs
  induction recs with
  | nil => intro fuel acc i _ hi; simp [recBytes] at hi
  | cons x recs ih =>
    intro fuel acc i h hi hf
    obtain ⟨f, rfl⟩ : ∃ f, fuel = f + 1 := ⟨fuel - 1, by omega⟩
    obtain ⟨h0, h1, h2⟩ := h x List.mem_cons_self
    obtain ⟨a1, _, _, _⟩ := mb_spec x.1 h1
    obtain ⟨b1, _, _, _⟩ := mb_spec x.2 h2
    rw [recBytes_cons] at hi ⊢
    simp only [List.length_append] at hi
    simp only [parseRecords, List.length_cons, Nat.add_one_ne_zero, if_false]
    rcases mbReader_cut x.1 h1 (mb x.2 ++ recBytes recs) i with ⟨_, e1⟩ | ⟨g1, e1⟩
    · rw [e1]; rfl
    · rw [e1]
      simp only [bind, Except.bind]
      rcases mbReader_cut x.2 h2 (recBytes recs) (i - (mb x.1).length) with ⟨_, e2⟩ | ⟨g2, e2⟩
      · rw [e2]
      · rw [e2]
        simp only [h0, if_false, Nat.add_sub_cancel]
        exact ih f _ _ (fun g hg => h g (List.mem_cons_of_mem _ hg)) (by omega) (by omega)

/-- the index (after the indicator byte) cut anywhere inside -/
theorem parseIndex_trunc (recs : List (Nat × Nat)) (hn : recs.length < 2 ^ 63) (h : ∀ x ∈ recs, RecOk x)
    (j : Nat) (hj : j < (indexBytes recs).tail.length) :
    parseIndex ((indexBytes recs).tail.take j) = .error .eof := by
  obtain ⟨rl, rb⟩ := recBytes_spec recs h
  rw [indexBytes_eq] at hj ⊢
  simp only [List.tail_cons, List.append_assoc] at hj ⊢
  simp only [List.length_append, List.length_replicate, le_length] at hj
  unfold parseIndex
  rcases mbReader_cut recs.length hn _ j with ⟨_, e1⟩ | ⟨g1, e1⟩
  · rw [e1]; rfl
  · rw [e1]
    simp only [bind, Except.bind]
    generalize hj2 : j - (mb recs.length).length = j2 at *
    by_cases hr : j2 < (recBytes recs).length
    · rw [take_append_lt _ _ _ hr, parseRecords_trunc recs _ [] j2 h hr (by rw [List.length_take]; omega)]
    · rw [take_append_ge _ _ _ (by omega),
        parseRecords_ok recs _ [] _ h (by simp only [List.length_append]; omega)]
      simp only [List.reverse_nil, List.nil_append]
      have hc : (recs.map fun r => mb r.1 ++ mb r.2).flatten = recBytes recs := rfl
      simp only [hc]
      generalize hj3 : j2 - (recBytes recs).length = j3 at *
      generalize hZ : (4 - (1 + (mb recs.length ++ recBytes recs).length) % 4) % 4 = z at *
      simp only [List.length_append] at hZ
      by_cases hz : j3 < z
      · rw [take_append_lt _ _ _ (by rw [List.length_replicate]; exact hz),
          takeN_take_lt _ _ _ hz]
      · rw [take_append_ge _ _ _ (by rw [List.length_replicate]; omega), List.length_replicate,
          takeN_append _ _ _ (List.length_replicate ..)]
        simp only [replicate0_any, Bool.false_eq_true, if_false]
        rw [takeN_take_lt 4 _ _ (by omega)]

/-! ## Footer -/

theorem parseFooter_trunc (c : Check) (n : Nat) (j : Nat) (hj : j < 12) :
    parseFooter ((footerBytes c n).take j) = .error .eof := by
  unfold parseFooter footerBytes
  simp only [List.append_assoc]
  by_cases h4 : j < 4
  · rw [takeN_short 4 _ (by rw [List.length_take]; omega)]; rfl
  · rw [take_append_ge _ _ _ (by rw [le_length]; omega), le_length, takeN_append 4 _ _ (le_length _ _)]
    simp only [bind, Except.bind]
    by_cases h8 : j - 4 < 4
    · rw [takeN_short 4 _ (by rw [List.length_take]; omega)]
    · rw [take_append_ge _ _ _ (by rw [le_length]; omega), le_length, takeN_append 4 _ _ (le_length _ _)]
      simp only []
      by_cases h10 : j - 4 - 4 < 2
      · rw [takeN_short 2 _ (by rw [List.length_take]; omega)]
      · rw [take_append_ge _ _ _ (by simp; omega), takeN_append 2 _ _ rfl]
        have hb : Bytes (le 4 (n / 4 - 1) ++ [0, c.toByte]) := Bytes.append (le_bytes _ _) (flags_bytes c)
        simp only [ofLe_le_crc32 _ hb, ne_eq, not_true_eq_false, if_false]
        rw [takeN_take_lt 2 _ _ (by simp; omega)]

/-! ## Block header -/

theorem blockHeaderBytes_shape (fs : List Filter) :
    ∃ sz body, blockHeaderBytes fs = sz :: body ∧ sz ≠ 0 ∧ body.length = (sz + 1) * 4 - 1 := by
  have e : blockHeaderBytes fs
      = ((1 + (((fs.map encFilter).flatten).length + 1) + 4 + 3) / 4 * 4 / 4 - 1) :: (blockHeaderBytes fs).tail := by
    simp [blockHeaderBytes]
  refine ⟨_, _, e, by omega, ?_⟩
  have := blockHeaderBytes_length fs
  rw [List.length_tail, this]; omega

theorem parseBlockHeader_trunc (fs : List Filter) (j : Nat)
    (hj : j < (blockHeaderBytes fs).length) :
    parseBlockHeader ((blockHeaderBytes fs).take j) = .error .eof := by
  obtain ⟨sz, body, hb, hsz, hl⟩ := blockHeaderBytes_shape fs
  rw [hb] at hj ⊢
  cases j with
  | zero => rfl
  | succ j =>
    simp only [List.length_cons] at hj
    rw [List.take_succ_cons]
    unfold parseBlockHeader
    simp only [hsz, if_false]
    rw [takeN_short _ _ (by rw [List.length_take]; omega)]
    rfl

/-! ## Block body -/

/-- truncation property of the LZMA2 payload codec (hypothesis of this level): no proper prefix of the block's
    LZMA2 stream is accepted, whatever the cap -/
def PayloadTrunc (dict : Nat) (payload : List Nat) : Prop :=
  ∀ (i cap : Nat), i < payload.length → ∀ r, Lzma2.decode dict #[] (payload.take i) cap ≠ .ok r

def BlockTrunc (fs : List Filter) (b : List Nat × List Nat) : Prop := PayloadTrunc (readerDict fs) b.1

/-- "rejected": an error or the model's `capped` -/
def BRes.notOk : BRes → Prop
  | .ok _ _ => False
  | _ => True

def Out.notOk : Out → Prop
  | .ok _ _ _ => False
  | _ => True

theorem Out.notOk_iff (o : Out) : o.notOk ↔ ((∃ e, o = .err e) ∨ o = .capped) := by
  cases o with
  | ok d c b => simp [Out.notOk]
  | err e => simp [Out.notOk]
  | capped => simp [Out.notOk]

/-- a block body (payload, padding, check) cut anywhere inside -/
theorem decodeBlockBody_trunc (c : Check) (fs : List Filter) (hfs : FiltersOk fs) (payload data : List Nat)
    (cb cap : Nat) (hcb : cb % 4 = 0)
    (hp : PayloadOk (readerDict fs) payload (applyFilters fs data))
    (ht : PayloadTrunc (readerDict fs) payload)
    (hl : (applyFilters fs data).length ≤ cap) (j : Nat)
    (hj : j < (payload ++ (List.replicate ((4 - payload.length % 4) % 4) 0 ++ c.compute data)).length) :
    (decodeBlockBody c (hdrOf fs) cb
      ((payload ++ (List.replicate ((4 - payload.length % 4) % 4) 0 ++ c.compute data)).take j) cap).notOk := by
  simp only [List.length_append, List.length_replicate, compute_length] at hj
  unfold decodeBlockBody
  split
  · rename_i hany
    exfalso
    rw [List.any_eq_true] at hany
    obtain ⟨f, hf, hm⟩ := hany
    have := mem_dropLast_pre fs hfs f hf
    cases f <;> simp_all [PreOk]
  · simp only [hdrOf, lzma2Dict_map_readerFilter fs hfs]
    by_cases hjp : j < payload.length
    · rw [take_append_lt _ _ _ hjp]
      have hno := ht j cap hjp
      generalize Lzma2.decode (readerDict fs) #[] (payload.take j) cap = res at hno
      cases res with
      | ok r => exact absurd rfl (hno r)
      | err e => trivial
      | capped => trivial
    · rw [take_append_ge _ _ _ (by omega)]
      obtain ⟨chunks, hdec⟩ := hp ((List.replicate ((4 - payload.length % 4) % 4) 0 ++ c.compute data).take
        (j - payload.length)) cap hl
      simp only [hdec, List.drop_left]
      have hm : (4 - (cb + payload.length) % 4) % 4 = (4 - payload.length % 4) % 4 := by omega
      rw [hm]
      generalize hz : (4 - payload.length % 4) % 4 = z at *
      by_cases hjz : j - payload.length < z
      · rw [take_append_lt _ _ _ (by rw [List.length_replicate]; exact hjz), takeN_take_lt _ _ _ hjz]
        trivial
      · rw [take_append_ge _ _ _ (by rw [List.length_replicate]; omega), List.length_replicate,
          takeN_append _ _ _ (List.length_replicate ..)]
        simp only [replicate0_any, Bool.false_eq_true, if_false]
        rw [takeN_take_lt _ _ _ (by omega)]
        trivial

/-! ## The block loop on cut input -/

/-- per-block hypotheses: those of the round trip, plus the truncation property of the payload -/
def BlockOkT (fs : List Filter) (b : List Nat × List Nat) : Prop := BlockOk fs b ∧ BlockTrunc fs b

/-- the loop on a block cut anywhere inside (`j` bytes of it are left) -/
theorem readBlocks_cut_block (c : Check) (fs : List Filter) (hfs : FiltersOk fs)
    (b : List Nat × List Nat) (hb : BlockOkT fs b) (acc : List Nat) (blks : List Block)
    (total pre fuel cap j : Nat) (hj : j < (blockBytes c fs b.1 b.2).1.length)
    (htot : total = pre + j) (hpre : pre % 4 = 0) (hcap : acc.length + b.2.length ≤ cap) :
    (readBlocks false total (fuel + 1) c ((blockBytes c fs b.1 b.2).1.take j) acc blks cap).notOk := by
  obtain ⟨⟨h1, h2, h3⟩, h4⟩ := hb
  rw [blockBytes_fst] at hj ⊢
  by_cases hjh : j < (blockHeaderBytes fs).length
  · rw [take_append_lt _ _ _ hjh, readBlocks, parseBlockHeader_trunc fs j hjh]
    trivial
  · rw [take_append_ge _ _ _ (by omega), readBlocks, parseBlockHeader_ok fs hfs]
    simp only []
    rw [List.length_append] at hj
    have hlen : ((b.1 ++ (List.replicate ((4 - b.1.length % 4) % 4) 0 ++ c.compute b.2)).take
        (j - (blockHeaderBytes fs).length)).length = j - (blockHeaderBytes fs).length := by
      rw [List.length_take]; omega
    have hcb : (total - ((b.1 ++ (List.replicate ((4 - b.1.length % 4) % 4) 0 ++ c.compute b.2)).take
        (j - (blockHeaderBytes fs).length)).length) % 4 = 0 := by
      have := blockHeaderBytes_mod4 fs
      rw [hlen]; omega
    have hres := decodeBlockBody_trunc c fs hfs b.1 b.2 _ cap hcb h1 h4 (by omega)
      (j - (blockHeaderBytes fs).length) (by omega)
    simp only [hdrOf] at hres
    generalize decodeBlockBody c _ _ _ cap = res at hres
    cases res with
    | ok blk rest => exact absurd hres (by simp [BRes.notOk])
    | err e => trivial
    | capped => trivial

/-- the loop on index + footer cut anywhere inside -/
theorem readBlocks_cut_tail (c : Check) (recs : List (Nat × Nat)) (hn : recs.length < 2 ^ 63)
    (hrecs : ∀ x ∈ recs, RecOk x) (n : Nat) (acc : List Nat) (blks : List Block) (total fuel cap j : Nat)
    (hlen : recs.length = blks.length) (hj : j < (indexBytes recs ++ footerBytes c n).length) :
    (readBlocks false total (fuel + 1) c ((indexBytes recs ++ footerBytes c n).take j) acc blks cap).notOk := by
  rw [List.length_append, footerBytes_length] at hj
  cases j with
  | zero =>
    have : readBlocks false total (fuel + 1) c ((indexBytes recs ++ footerBytes c n).take 0) acc blks cap
        = .err .eof := rfl
    rw [this]; trivial
  | succ j =>
    have hil : (indexBytes recs).length = (indexBytes recs).tail.length + 1 := by
      rw [indexBytes_cons]; simp
    rw [indexBytes_cons, List.cons_append, List.take_succ_cons, readBlocks, parseBlockHeader_zero]
    simp only []
    by_cases hji : j < (indexBytes recs).tail.length
    · rw [take_append_lt _ _ _ hji, parseIndex_trunc recs hn hrecs j hji]
      trivial
    · rw [take_append_ge _ _ _ (by omega), parseIndex_ok recs hn hrecs]
      simp only [hlen, ne_eq, not_true_eq_false, if_false]
      rw [parseFooter_trunc c n _ (by omega)]
      split <;> trivial

/-- the loop on blocks + index + footer cut anywhere inside -/
theorem readBlocks_cut (c : Check) (fs : List Filter) (hfs : FiltersOk fs) (total cap n : Nat)
    (recs : List (Nat × Nat)) (hn : recs.length < 2 ^ 63) (hrecs : ∀ x ∈ recs, RecOk x) :
    ∀ (blocks : List (List Nat × List Nat)), (∀ b ∈ blocks, BlockOkT fs b) →
    ∀ (acc : List Nat) (blks : List Block) (pre fuel j : Nat),
    recs.length = blks.length + blocks.length →
    j < (blocksBytes c fs blocks ++ (indexBytes recs ++ footerBytes c n)).length →
    total = pre + j → pre % 4 = 0 → acc.length + (blocksData blocks).length ≤ cap → j < fuel →
    (readBlocks false total fuel c
      ((blocksBytes c fs blocks ++ (indexBytes recs ++ footerBytes c n)).take j) acc blks cap).notOk := by
  intro blocks
  induction blocks with
  | nil =>
    intro _ acc blks pre fuel j hlen hj _ _ _ hf
    obtain ⟨f, rfl⟩ : ∃ f, fuel = f + 1 := ⟨fuel - 1, by omega⟩
    simp only [blocksBytes, List.map_nil, List.flatten_nil, List.nil_append] at hj ⊢
    exact readBlocks_cut_tail c recs hn hrecs n acc blks total f cap j (by simpa using hlen) hj
  | cons b blocks ih =>
    intro hb acc blks pre fuel j hlen hj htot hpre hcap hf
    obtain ⟨f, rfl⟩ : ∃ f, fuel = f + 1 := ⟨fuel - 1, by omega⟩
    rw [blocksBytes_cons, List.append_assoc] at hj ⊢
    simp only [blocksData, List.map_cons, List.flatten_cons, List.length_append] at hcap
    by_cases hjb : j < (blockBytes c fs b.1 b.2).1.length
    · rw [take_append_lt _ _ _ hjb]
      exact readBlocks_cut_block c fs hfs b (hb b List.mem_cons_self) acc blks total pre f cap j hjb htot hpre
        (by omega)
    · rw [take_append_ge _ _ _ (by omega)]
      rw [List.length_append] at hj
      have hlt : ((blocksBytes c fs blocks ++ (indexBytes recs ++ footerBytes c n)).take
          (j - (blockBytes c fs b.1 b.2).1.length)).length = j - (blockBytes c fs b.1 b.2).1.length := by
        rw [List.length_take]; omega
      rw [readBlocks_block false c fs hfs b (hb b List.mem_cons_self).1 _ acc blks total pre f cap
        (by rw [List.length_append, hlt]; omega) hpre (by omega)]
      have hpos := blockBytes_pos c fs b.1 b.2
      exact ih (fun x hx => hb x (List.mem_cons_of_mem _ hx)) (acc ++ b.2) (blkOf fs b :: blks)
        (pre + (blockBytes c fs b.1 b.2).1.length) f (j - (blockBytes c fs b.1 b.2).1.length)
        (by simp only [List.length_cons] at hlen ⊢; omega) (by omega) (by omega)
        (by have := blockBytes_mod4 c fs b.1 b.2; omega)
        (by simp only [blocksData, List.length_append]; omega) (by omega)

/-! ## Whole stream -/

/-- a stream as the writer model produces it, whose payloads also have the truncation property -/
def Strm.OkT (s : Strm) : Prop := s.Ok ∧ ∀ b ∈ s.blocks, BlockTrunc s.fs b

/-- **A truncated XZ stream is never accepted.**  For a single well-formed stream (`Strm.Ok`, the hypothesis of the
    round-trip theorems) whose block payloads have the truncation property of the LZMA2 codec, EVERY proper prefix
    (including the empty one) is rejected by the single-stream reader: an error or the model's `capped`, never `.ok`. -/
theorem xz_trunc (s : Strm) (hs : s.OkT) (cap : Nat) (hcap : s.data.length ≤ cap) (k : Nat)
    (hk : k < s.bytes.length) :
    (∃ e, Xz.decode false (s.bytes.take k) cap = .err e) ∨ Xz.decode false (s.bytes.take k) cap = .capped := by
  rw [← Out.notOk_iff]
  obtain ⟨⟨hfs, hb, hsz⟩, ht⟩ := hs
  unfold Strm.bytes at hk ⊢
  rw [streamBytes_eq] at hk ⊢
  rw [List.length_append, streamHeaderBytes_length] at hk
  unfold Xz.decode
  by_cases hk12 : k < 12
  · rw [take_append_lt _ _ _ (by rw [streamHeaderBytes_length]; exact hk12), parseStreamHeader_trunc s.c k hk12]
    trivial
  · rw [take_append_ge _ _ _ (by rw [streamHeaderBytes_length]; omega), streamHeaderBytes_length,
      parseStreamHeader_ok]
    simp only []
    obtain ⟨r1, r2⟩ := recsOf_ok s.c s.fs s.blocks hsz.1
    have hlen : (streamHeaderBytes s.c ++ (streamBody s.c s.fs s.blocks).take (k - 12)).length = 12 + (k - 12) := by
      rw [List.length_append, streamHeaderBytes_length, List.length_take]; omega
    rw [hlen]
    unfold streamBody at hk ⊢
    exact readBlocks_cut s.c s.fs hfs _ cap _ (recsOf s.c s.fs s.blocks) (by rw [r1]; exact hsz.1.1) r2 s.blocks
      (fun b hb' => ⟨hb b hb', ht b hb'⟩) [] [] 12 _ (k - 12) (by simp [r1]) (by omega) rfl (by decide)
      (by simpa [Strm.data] using hcap) (by omega)

/-- the same, as "never `.ok`" -/
theorem xz_trunc_not_ok (s : Strm) (hs : s.OkT) (cap : Nat) (hcap : s.data.length ≤ cap) (k : Nat)
    (hk : k < s.bytes.length) (data : List Nat) (consumed : Nat) (blks : List Block) :
    Xz.decode false (s.bytes.take k) cap ≠ .ok data consumed blks := by
  rcases xz_trunc s hs cap hcap k hk with ⟨e, h⟩ | h <;> rw [h] <;> intro hc <;> cases hc

/-! ## Satisfiability of `PayloadTrunc`: a stored LZMA2 chunk -/

theorem decode_of_chunkLoop_notOk (dict : Nat) (input : List Nat) (cap : Nat)
    (h : Lzma2.chunkLoop (input.length + 1) (Lzma2.initState dict #[]) input cap = .err .eof ∨
         Lzma2.chunkLoop (input.length + 1) (Lzma2.initState dict #[]) input cap = .capped) (r : Lzma2.DecOk) :
    Lzma2.decode dict #[] input cap ≠ .ok r := by
  unfold Lzma2.decode
  rcases h with h | h <;> rw [h] <;> intro hc <;> cases hc

theorem chunkLoop_nil (f : Nat) (s : Lzma2.RState) (cap : Nat) : Lzma2.chunkLoop (f + 1) s [] cap = .err .eof := by
  rw [Lzma2.chunkLoop]

theorem chunkLoop_stored_hdr1 (f : Nat) (s : Lzma2.RState) (cap : Nat) :
    Lzma2.chunkLoop (f + 1) s [1] cap = .err .eof := by
  rw [Lzma2.chunkLoop]
  have a1 : ¬ ((1 : Nat) = 0) := by decide
  have a3 : ¬ ((1 : Nat) ≥ 0x80) := by decide
  have a4 : ¬ ((1 : Nat) > 2) := by decide
  simp only [a1, a3, a4, if_false, not_true_eq_false, false_and, or_true]

theorem chunkLoop_stored_hdr2 (f : Nat) (s : Lzma2.RState) (u1 cap : Nat) :
    Lzma2.chunkLoop (f + 1) s [1, u1] cap = .err .eof := by
  rw [Lzma2.chunkLoop]
  have a1 : ¬ ((1 : Nat) = 0) := by decide
  have a3 : ¬ ((1 : Nat) ≥ 0x80) := by decide
  have a4 : ¬ ((1 : Nat) > 2) := by decide
  simp only [a1, a3, a4, if_false, not_true_eq_false, false_and, or_true]

theorem chunkLoop_stored_short (f : Nat) (s : Lzma2.RState) (u1 u2 : Nat) (inp : List Nat) (cap : Nat)
    (h : inp.length < u1 * 256 + u2 + 1) :
    Lzma2.chunkLoop (f + 1) s (1 :: u1 :: u2 :: inp) cap = .err .eof := by
  rw [Lzma2.chunkLoop]
  simp only [Lzma2.be16]
  have a1 : ¬ ((1 : Nat) = 0) := by decide
  have a3 : ¬ ((1 : Nat) ≥ 0x80) := by decide
  have a4 : ¬ ((1 : Nat) > 2) := by decide
  simp only [a1, a3, a4, if_false, if_true, not_true_eq_false, false_and, h, or_true]

/-- a single stored LZMA2 chunk has the truncation property: `PayloadTrunc` is satisfiable together with `PayloadOk`
    (`payloadOk_stored`) -/
theorem payloadTrunc_stored (dict : Nat) (raw : List Nat) (h1 : 1 ≤ raw.length) (h2 : raw.length ≤ 65536) :
    PayloadTrunc dict (1 :: (raw.length - 1) / 256 :: (raw.length - 1) % 256 :: (raw ++ [0])) := by
  intro i cap hi r
  have hu : (raw.length - 1) / 256 * 256 + (raw.length - 1) % 256 + 1 = raw.length := by omega
  simp only [List.length_cons, List.length_append, List.length_nil] at hi
  apply decode_of_chunkLoop_notOk
  match i, hi with
  | 0, _ => exact Or.inl (chunkLoop_nil _ _ _)
  | 1, _ => exact Or.inl (chunkLoop_stored_hdr1 _ _ _)
  | 2, _ => exact Or.inl (chunkLoop_stored_hdr2 _ _ _ _)
  | m + 3, hi =>
    simp only [List.take_succ_cons]
    by_cases hm : m < raw.length
    · left
      apply chunkLoop_stored_short
      rw [hu, List.length_take, List.length_append]; simp; omega
    · have hm' : m = raw.length := by omega
      subst hm'
      rw [List.take_left]
      by_cases hc : (Lzma2.initState dict #[]).out.size + ((raw.length - 1) / 256 * 256 + (raw.length - 1) % 256 + 1) > cap
      · right
        rw [Lzma2.chunkLoop]
        simp only [Lzma2.be16]
        have a1 : ¬ ((1 : Nat) = 0) := by decide
        have a3 : ¬ ((1 : Nat) ≥ 0x80) := by decide
        have a4 : ¬ ((1 : Nat) > 2) := by decide
        have a5 : ¬ (raw.length < (raw.length - 1) / 256 * 256 + (raw.length - 1) % 256 + 1) := by omega
        simp only [a1, a3, a4, if_false, if_true, not_true_eq_false, false_and, a5, or_true, hc]
      · left
        simp only [List.length_cons]
        rw [chunkLoop_stored1 _ _ _ _ _ _ (by omega) hc, hu, List.drop_length, chunkLoop_nil]

end LzmaVerif.Xz
