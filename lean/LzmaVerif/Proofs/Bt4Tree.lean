/-
  (B5) validity of the matches found in the tree descent: the executable checker and the `depth_limit = 1` case.

  The FULL statement

    theorem bt4_tree_matches_valid (hA : HypA P c data) (script : List Nat) :
        let s := (runScript P c data script).1
        ∀ m ∈ (find P c data s).2.toList,
          ValidMatch data c.dict s.pos (min c.mlmax (data.size - s.pos)) m

  (every match reported by `find` in every reachable state, for every depth limit, is a real repetition from its
  FIRST byte) is proved in `Props/C01Bt4.lean` from `Proofs/Bt4Order.lean` (truncated lexicographic order,
  reachability in the cyclic array), `Proofs/Bt4Bst.lean` (the invariant `TInv` and one step of a descent),
  `Proofs/Bt4BstLoop.lean` (`findLoop` / `skipLoop`) and `Proofs/Bt4BstInv.lean` (reachable states, `find_bst`).
  For the matches of the tree walk the code only compares the bytes from `min(len0, len1)` on
  (`extend_match(buf, read_pos, min(len0, len1), delta, match_len_limit)`, bt4.rs:241-249); that the first
  `min(len0, len1)` bytes agree is a consequence of the invariant of the binary search tree.

  This file keeps
  * `tree_matches_valid_partial`: with `depth_limit = 1` (the walk looks at the root candidate only, where
    `len0 = len1 = 0`) every reported match is a `ValidMatch` - under the weaker hypotheses `Hyp`
    (also `nice_len = 3`, `nice_len > match_len_max`);
  * `validMatchB_sound`: the executable check `Mf.validMatchB` implies `ValidMatch`; the driver command
    `mf.trace ... check=1` applies it to every match of every real trace, so each run is validated as well.
-/
import LzmaVerif.Proofs.Bt4Hash
namespace LzmaVerif.Mf

/-- the executable check is sound -/
theorem validMatchB_sound (d : Array UInt8) (dict p limit : Nat) (m : Match)
    (h : validMatchB d dict p limit m = true) : ValidMatch d dict p limit m := by
  unfold validMatchB at h
  simp only [Bool.and_eq_true, decide_eq_true_eq, List.all_eq_true, List.mem_range, beq_iff_eq] at h
  obtain ⟨⟨⟨⟨⟨h1, h2⟩, h3⟩, h4⟩, h5⟩, h6⟩ := h
  exact ⟨h1, h2, h3, h4, h5, h6⟩

theorem validMatchB_complete (d : Array UInt8) (dict p limit : Nat) (m : Match)
    (h : ValidMatch d dict p limit m) : validMatchB d dict p limit m = true := by
  obtain ⟨h1, h2, h3, h4, h5, h6⟩ := h
  unfold validMatchB
  simp only [Bool.and_eq_true, decide_eq_true_eq, List.all_eq_true, List.mem_range, beq_iff_eq]
  exact ⟨⟨⟨⟨⟨h1, h2⟩, h3⟩, h4⟩, h5⟩, h6⟩

namespace Bt4

/-- one iteration from the root (`len0 = len1 = 0`): what is added to the matches is valid -/
theorem findLoop_depth1 {P : Bt4Params} {c : Cfg} {data : Array UInt8} (hok : P.ok) (k : Ctx) {hi : Nat}
    (hk : KFacts P c data k hi) (tree : Array Nat) (ptr0 ptr1 cur lenBest : Nat) (ms : Array Match) (lg : Log)
    (hc : EntryOk k.cs hi cur) (hlb : 2 ≤ lenBest) :
    ∀ x ∈ (findLoop P data k 1 tree ptr0 ptr1 0 0 cur lenBest ms lg).2.1.toList,
      x ∈ ms.toList ∨ ValidMatch data c.dict k.p (min c.mlmax (data.size - k.p)) x := by
  have hnew : geOrGt P.treeStopGe (k.lzPos - cur) k.cs = false →
      ltOrLe P.bestStrict lenBest (extendMatch data k.p (k.lzPos - cur) k.lenLimit (min 0 0)) = true →
      ValidMatch data c.dict k.p (min c.mlmax (data.size - k.p))
        (extendMatch data k.p (k.lzPos - cur) k.lenLimit (min 0 0), k.lzPos - cur - P.distSub) := by
    intro hstop hhit
    rw [ok_stop hok, geOrGt_true, decide_eq_false_iff_not] at hstop
    rw [ok_best hok, ltOrLe_true, decide_eq_true_eq] at hhit
    obtain ⟨d1, d2, d3⟩ := delta_of_entry hk.toKCore hc (by omega)
    rw [ok_dist hok]
    refine valid_of_prefix hk _ _ d1 d2 d3 (by omega) (extendMatch_le _ _ _ _ _ (Nat.zero_le _)) ?_
    intro i hi
    exact extendMatch_eq data k.p _ k.lenLimit (min 0 0) i (Nat.zero_le _) hi
  intro x hx
  simp only [findLoop] at hx
  split at hx
  · exact Or.inl hx
  · rename_i hstop
    have hstop' : geOrGt P.treeStopGe (k.lzPos - cur) k.cs = false := by
      simpa using hstop
    by_cases hhit : ltOrLe P.bestStrict lenBest (extendMatch data k.p (k.lzPos - cur) k.lenLimit (min 0 0)) = true
    · simp only [hhit, if_true, Bool.true_and] at hx
      have hv := hnew hstop' hhit
      have hmem : x ∈ (ms.push (extendMatch data k.p (k.lzPos - cur) k.lenLimit (min 0 0),
          k.lzPos - cur - P.distSub)).toList := by
        split at hx
        · exact hx
        · split at hx <;> exact hx
      rw [Array.toList_push] at hmem
      rcases List.mem_append.1 hmem with h | h
      · exact Or.inl h
      · rw [List.mem_singleton] at h; subst h; exact Or.inr hv
    · simp only [hhit, Bool.false_eq_true, if_false, Bool.false_and] at hx
      left
      split at hx <;> exact hx

/-- (B5, partial) with `depth_limit = 1` every match reported by `find` is a `ValidMatch` -/
theorem tree_matches_valid_partial {P : Bt4Params} {c : Cfg} {data : Array UInt8} (hH : Hyp P c data) {s : St}
    (hI : Inv P c data s) (hdepth : depthLimit P c = 1) :
    ∀ m ∈ (find P c data s).2.toList, ValidMatch data c.dict s.pos (min c.mlmax (data.size - s.pos)) m := by
  have hok := hH.ok
  by_cases hp : pending P c data s.pos
  · rw [find_pending hH hp]; intro m hm; simp at hm
  have hcand := hash_candidates_valid hH hI
  unfold hashCandMatches at hcand
  rw [if_neg hp] at hcand
  obtain ⟨hk, hp0⟩ := stepK_facts hH hI hp
  obtain ⟨_, _, _, _, h5⟩ := step_facts hH hI hp
  rw [find_nonpending hH hp]
  split
  · exact hcand
  · intro m hm
    have hlb : 2 ≤ stepLenBest P c data s := by
      have := ok_floor hok
      show 2 ≤ (if (stepCd P c data s).lenBest < P.lenBestFloor then P.lenBestFloor else (stepCd P c data s).lenBest)
      split <;> omega
    have := findLoop_depth1 hok (stepK P c data s) hk (stepHs P c data s).st.tree
      (shl P (stepHs P c data s).st.cyclicPos + 1) (shl P (stepHs P c data s).st.cyclicPos)
      (stepHs P c data s).cur (stepLenBest P c data s) (stepCd P c data s).ms (stepCd P c data s).log h5 hlb m
      (by have hm' := hm; unfold stepLoop at hm'; rw [hdepth] at hm'; exact hm')
    rcases this with h | h
    · exact hcand m h
    · rw [hp0] at h; exact h

end Bt4
end LzmaVerif.Mf
