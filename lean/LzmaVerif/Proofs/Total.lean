import LzmaVerif.Model.Guards
import LzmaVerif.Model.LzmaStream
import LzmaVerif.Model.Lzma2
import LzmaVerif.Model.XzInt
import LzmaVerif.Model.Xz
import LzmaVerif.Proofs.XzBasic
import LzmaVerif.Proofs.XzParse
import LzmaVerif.Proofs.ProgUnfold
import LzmaVerif.Proofs.SymRt
import LzmaVerif.Proofs.LoopRt
import LzmaVerif.Proofs.LzipFile
import LzmaVerif.Props.C01
import Mathlib.Tactic.Ring
/-!
# C06 — decoders stay total on untrusted bytes (proof layer)

For ALL inputs, no bound on sizes:

* **G1–G5** (`Model/Guards.lean`): the fixed-width arithmetic that attacker-controlled values flow through never
  overflows / underflows / truncates: LZMA2 and LZMA dictionary rounding (`get_dict_size`, `construct2`), the XZ
  index capacity, `LZDecoder::new` / `reset` / `set_limit` / `get_byte`, the LZMA2 chunk header, `prepare`, the XZ
  block header sizes and dictionary property, and the backward member scan of the multi-threaded LZIP reader
  (terminates without its fuel, members inside the file, disjoint, at most `|file| / 4`).
* **P1**: `Index::parse` succeeds with `n` records only after reading `≥ 2·n` bytes; any announced count above half
  the remaining input is rejected.
* **P2**: the container and chunk loops of the models (`Xz.readBlocks`/`nextStream`/`decode`, `LzipFile.members`,
  `Lzma2.chunkLoop`, `Lzma.decodeRaw`) never run out of the fuel the top-level functions pass: results are independent
  of the fuel above `|input|`, and `.capped` always stems from a real output-cap check.
* **P3**: in the LZMA symbol loop every decoded symbol emits at least one byte, for every run of the range decoder.
* **P4**: every path through the decision program of one symbol has at most 48 range-coder decisions and ends in an
  admissible symbol (`SymOk`), for every parameter set and context.

Findings made while building this layer (all three reproduced on the Rust code and since repaired) are recorded as
`…Buggy` definitions in `Model/Guards.lean` with `decide` witnesses here: `lzma2_dict0_reset_panicked`,
`storedChunkSizeBuggy_overflows`; the third (stack overflow by recursion over empty XZ streams) has no arithmetic
content — the model `Xz.readBlocks` is a loop, see `readBlocks_fuel_indep`.
-/
set_option linter.unusedVariables false
set_option linter.unusedSimpArgs false

namespace LzmaVerif.Total

section GuardsPart
open LzmaVerif Guards

/-! # G1 — LZMA2 dictionary rounding -/

theorem lzma2DictRound_total : ∀ d, d < 2 ^ 32 →
    ∃ r, lzma2DictRound d = some r ∧ min d Consts.DICT_SIZE_MAX ≤ r ∧ r % 16 = 0 ∧ r < 2 ^ 32 := by
  intro d hd
  unfold lzma2DictRound add32 andNot15 Consts.DICT_SIZE_MAX Consts.DICT_SIZE_MIN
  have h : max (min d 4294967280) 4096 + 15 < 2 ^ 32 := by omega
  rw [if_pos h]
  exact ⟨(max (min d 4294967280) 4096 + 15) / 16 * 16, rfl, by omega, by omega, by omega⟩

/-- sharper: the result is the model's `dictBufOf`, at least `DICT_SIZE_MIN`, at most 15 above the clamped request -/
theorem lzma2DictRound_eq (d : Nat) (hd : d < 2 ^ 32) :
    lzma2DictRound d = some (Lzma2.dictBufOf d) ∧ Consts.DICT_SIZE_MIN ≤ Lzma2.dictBufOf d ∧
      Lzma2.dictBufOf d ≤ max d Consts.DICT_SIZE_MIN + 15 ∧
      Lzma2.dictBufOf d ≤ Consts.DICT_SIZE_MAX := by
  unfold lzma2DictRound add32 andNot15 Lzma2.dictBufOf Consts.DICT_SIZE_MAX Consts.DICT_SIZE_MIN
  have h : max (min d 4294967280) 4096 + 15 < 2 ^ 32 := by omega
  rw [if_pos h]
  exact ⟨rfl, by omega, by omega, by omega⟩

/-- the pinned code overflowed on XZ dictionary property 40 -/
theorem lzma2DictRoundOld_overflows : lzma2DictRoundOld 0xFFFFFFFF = none := by decide
/-- before `63a4a08` a dictionary size 0 gave an empty buffer -/
theorem lzma2DictRoundBuggy_zero : lzma2DictRoundBuggy 0 = some 0 := by decide
example : lzma2DictRound 0xFFFFFFFF = some 4294967280 := by decide
example : lzma2DictRound 0 = some 4096 := by decide

/-! # G2 — LZMA reader dictionary: `get_dict_size`, `construct2` -/

theorem lzmaDictRound_spec (d : Nat) (hd : d < 2 ^ 32) :
    (Consts.DICT_SIZE_MAX < d ∧ lzmaDictRound d = some (.error ())) ∨
    (d ≤ Consts.DICT_SIZE_MAX ∧ lzmaDictRound d = some (.ok (Lzma.lzmaDictBuf d)) ∧
      max d 4096 ≤ Lzma.lzmaDictBuf d ∧ Lzma.lzmaDictBuf d ≤ max d 4096 + 15 ∧
      Lzma.lzmaDictBuf d % 16 = 0 ∧ Lzma.lzmaDictBuf d ≤ Consts.DICT_SIZE_MAX) := by
  unfold lzmaDictRound add32 andNot15 Lzma.lzmaDictBuf Consts.DICT_SIZE_MAX
  by_cases h : 4294967280 < d
  · left; exact ⟨h, by rw [if_pos h]⟩
  · right
    have h2 : max d 4096 + 15 < 2 ^ 32 := by omega
    rw [if_neg h, if_pos h2]
    exact ⟨by omega, rfl, by omega, by omega, by omega, by omega⟩

theorem lzmaDictBuf_idem (d : Nat) : Lzma.lzmaDictBuf (Lzma.lzmaDictBuf d) = Lzma.lzmaDictBuf d := by
  unfold Lzma.lzmaDictBuf; omega

theorem lzmaDictBuf_mono {a b : Nat} (h : a ≤ b) : Lzma.lzmaDictBuf a ≤ Lzma.lzmaDictBuf b := by
  unfold Lzma.lzmaDictBuf; omega

/-- the `needed_size as u32` cast of `construct2` is only executed below a `u32` value, hence exact -/
theorem construct2_cast_exact (d1 needed : Nat) (hd1 : d1 ≤ Consts.DICT_SIZE_MAX) (h : d1 > needed) :
    castU32 needed = some needed := by
  unfold castU32; unfold Consts.DICT_SIZE_MAX at hd1
  rw [if_pos (by omega)]

/-- the size view of the declared size used by the model `Lzma.lzmaReaderDictBuf` -/
def sizeOpt (uncomp : Nat) : Option Nat := if uncomp ≤ 2 ^ 63 - 1 then some uncomp else none

/-- G2: `construct2` never overflows, rejects exactly the dictionary sizes above `DICT_SIZE_MAX`, and otherwise
hands `LZDecoder::new` the value of the model function `lzmaReaderDictBuf`, which is ≥ 4096, a multiple of 16,
at most the rounded request, and — for a declared size — at most 15 above `max 4096 (declared + preset)`. -/
theorem construct2Dict_total (dict uncomp presetLen : Nat) (hd : dict < 2 ^ 32) (hu : uncomp < 2 ^ 64)
    (hp : presetLen < 2 ^ 64) :
    (Consts.DICT_SIZE_MAX < dict ∧ construct2Dict dict uncomp presetLen = some (.error ())) ∨
    (dict ≤ Consts.DICT_SIZE_MAX ∧ ∃ r,
      construct2Dict dict uncomp presetLen = some (.ok r) ∧
      r = Lzma.lzmaReaderDictBuf dict (sizeOpt uncomp) presetLen ∧
      4096 ≤ r ∧ r % 16 = 0 ∧ r ≤ Lzma.lzmaDictBuf dict ∧ r ≤ max dict 4096 + 15 ∧ r < 2 ^ 32 ∧
      (uncomp ≤ 2 ^ 63 - 1 → r ≤ max (uncomp + presetLen) 4096 + 15)) := by
  rcases lzmaDictRound_spec dict hd with ⟨hgt, he⟩ | ⟨hle, he, h1, h2, h3, h4⟩
  · left; exact ⟨hgt, by unfold construct2Dict; rw [he]⟩
  · right
    refine ⟨hle, ?_⟩
    unfold construct2Dict
    rw [he]
    simp only []
    by_cases hc : uncomp ≤ U64_MAX / 2 ∧ Lzma.lzmaDictBuf dict > satAdd64 uncomp presetLen
    · rw [if_pos hc]
      obtain ⟨hc1, hc2⟩ := hc
      have hU : U64_MAX / 2 = 2 ^ 63 - 1 := by decide
      rw [hU] at hc1
      have hsat : satAdd64 uncomp presetLen = uncomp + presetLen := by
        unfold satAdd64 at hc2 ⊢; unfold Consts.DICT_SIZE_MAX at h4; omega
      rw [hsat] at hc2 ⊢
      rw [construct2_cast_exact _ _ h4 hc2]
      simp only []
      have hn32 : uncomp + presetLen < 2 ^ 32 := by unfold Consts.DICT_SIZE_MAX at h4; omega
      rcases lzmaDictRound_spec (uncomp + presetLen) hn32 with ⟨hgt', _⟩ | ⟨_, he', g1, g2, g3, g4⟩
      · omega
      · rw [he']
        simp only []
        have hb32 : Lzma.lzmaDictBuf (uncomp + presetLen) < 2 ^ 32 := by
          unfold Consts.DICT_SIZE_MAX at g4; omega
        rcases lzmaDictRound_spec _ hb32 with ⟨hgt'', _⟩ | ⟨_, he'', _, _, _, _⟩
        · omega
        · rw [he'', lzmaDictBuf_idem]
          have hmono : Lzma.lzmaDictBuf (uncomp + presetLen) ≤ Lzma.lzmaDictBuf dict := by
            have := lzmaDictBuf_mono (Nat.le_of_lt hc2)
            rwa [lzmaDictBuf_idem] at this
          refine ⟨_, rfl, ?_, by omega, g3, hmono, by omega, by unfold Consts.DICT_SIZE_MAX at g4; omega,
            fun _ => g2⟩
          unfold Lzma.lzmaReaderDictBuf sizeOpt
          rw [if_pos hc1]
          simp only []
          rw [if_pos hc2, lzmaDictBuf_idem]
    · rw [if_neg hc]
      simp only []
      have hb32 : Lzma.lzmaDictBuf dict < 2 ^ 32 := by unfold Consts.DICT_SIZE_MAX at h4; omega
      rcases lzmaDictRound_spec _ hb32 with ⟨hgt'', _⟩ | ⟨_, he'', _, _, _, _⟩
      · omega
      · rw [he'', lzmaDictBuf_idem]
        refine ⟨_, rfl, ?_, by omega, h3, Nat.le_refl _, h2, by unfold Consts.DICT_SIZE_MAX at h4; omega, ?_⟩
        · unfold Lzma.lzmaReaderDictBuf sizeOpt
          have hU : U64_MAX / 2 = 2 ^ 63 - 1 := by decide
          rw [hU] at hc
          by_cases hs : uncomp ≤ 2 ^ 63 - 1
          · rw [if_pos hs]
            simp only []
            have : ¬ Lzma.lzmaDictBuf dict > uncomp + presetLen := by
              intro hgt
              apply hc
              refine ⟨hs, ?_⟩
              unfold satAdd64; unfold Consts.DICT_SIZE_MAX at h4; omega
            rw [if_neg this, lzmaDictBuf_idem]
          · rw [if_neg hs]
            simp only []
            rw [lzmaDictBuf_idem]
        · intro hs
          have hU : U64_MAX / 2 = 2 ^ 63 - 1 := by decide
          rw [hU] at hc
          have : ¬ Lzma.lzmaDictBuf dict > satAdd64 uncomp presetLen := fun hgt => hc ⟨hs, hgt⟩
          unfold satAdd64 at this; unfold Consts.DICT_SIZE_MAX at h4
          omega


example : construct2Dict (2 ^ 26) 100 0 = some (.ok 4096) := by rfl
example : construct2Dict (2 ^ 26) (2 ^ 64 - 1) 0 = some (.ok (2 ^ 26)) := by rfl
example : construct2Dict 0xFFFFFFFF 5 5 = some (.error ()) := by rfl
example : construct2Dict 0xFFFFFFF0 (2 ^ 63 - 1) (2 ^ 64 - 1) = some (.ok 0xFFFFFFF0) := by rfl

/-- memory estimate of `new_mem_limit`: total for every header (`dict`, `props` attacker-controlled) -/
theorem lzmaMemUsageByProps_total (dict props : Nat) (hd : dict < 2 ^ 32) :
    ∃ r, lzmaMemUsageByProps dict props = some r := by
  unfold lzmaMemUsageByProps
  by_cases h1 : dict > Consts.DICT_SIZE_MAX
  · rw [if_pos h1]; exact ⟨_, rfl⟩
  rw [if_neg h1]
  by_cases h2 : props > 224
  · rw [if_pos h2]; exact ⟨_, rfl⟩
  rw [if_neg h2]
  simp only []
  have hs : sub (props % 45) (props % 45 / 9 * 9) = some (props % 45 - props % 45 / 9 * 9) := by
    unfold sub; rw [if_pos (by omega)]
  rw [hs]
  simp only []
  unfold lzmaMemUsage
  have hlc : ¬ (props % 45 - props % 45 / 9 * 9 > 8 ∨ props % 45 / 9 > 4) := by omega
  rw [if_neg hlc]
  rcases lzmaDictRound_spec dict hd with ⟨hgt, _⟩ | ⟨_, he, _, _, _, h4⟩
  · exact absurd hgt (by omega)
  rw [he]
  simp only []
  have hk : props % 45 - props % 45 / 9 * 9 + props % 45 / 9 ≤ 12 := by omega
  generalize props % 45 - props % 45 / 9 * 9 + props % 45 / 9 = k at hk
  have hpow : 2 ^ k ≤ 2 ^ 12 := Nat.pow_le_pow_right (by decide) hk
  have hsh : shl32 (2 * 0x300) k = some (2 * 0x300 * 2 ^ k) := by
    unfold shl32; rw [if_pos ⟨by omega, by omega⟩]
  rw [hsh]
  simp only []
  unfold Consts.DICT_SIZE_MAX at h4
  have ha : add32 10 (Lzma.lzmaDictBuf dict / 1024) = some (10 + Lzma.lzmaDictBuf dict / 1024) := by
    unfold add32; rw [if_pos (by omega)]
  rw [ha]
  simp only []
  unfold add32
  rw [if_pos (by omega)]
  exact ⟨_, rfl⟩

/-! # G3 — XZ index capacity -/

theorem indexCapacity_le (count : Nat) : indexCapacity count ≤ 1024 := by
  unfold indexCapacity; omega

theorem indexCapacity_le_count (count : Nat) : indexCapacity count ≤ count := by
  unfold indexCapacity; omega

/-- the pinned code: a count of 2^63 (and anything above 2^59) is a capacity overflow -/
theorem indexCapacityOld_overflows : indexCapacityOldBytes (2 ^ 63) = none := by decide
example : indexCapacity (2 ^ 63) = 1024 := by decide

/-! # G4 — `LZDecoder::new`: the dictionary buffer -/

/-- `LZDecoder::new` has no overflow for ANY arguments, allocates exactly `dictSize` bytes, and the
preset slice bounds are in range -/
theorem lzDecoderNew_total (dictSize : Nat) (presetLen : Option Nat) :
    ∃ r, lzDecoderNew dictSize presetLen = some r ∧ r.bufLen = dictSize ∧ r.pos ≤ dictSize ∧
      r.pos = min (presetLen.getD 0) dictSize ∧ r.presetSkip + r.pos = presetLen.getD 0 := by
  cases presetLen with
  | none => exact ⟨_, rfl, rfl, Nat.zero_le _, by simp, by simp⟩
  | some pl =>
    unfold lzDecoderNew
    simp only []
    have hs : sub pl (min pl dictSize) = some (pl - min pl dictSize) := by
      unfold sub; rw [if_pos (by omega)]
    rw [hs]
    simp only []
    rw [if_pos ⟨by omega, by omega, by omega⟩]
    exact ⟨_, rfl, rfl, by simp only []; omega, by simp, by simp only [Option.getD_some]; omega⟩

/-- G4 for the LZMA2 reader: for every `u32` dictionary size and every preset dictionary the construction
never overflows, and the ONE dictionary allocation is at least 4096 and at most `max dict 4096 + 15` bytes (`< 2^32`). -/
theorem lzma2ReaderBuf_total (dict : Nat) (hd : dict < 2 ^ 32) (presetLen : Option Nat) :
    ∃ r, lzma2ReaderBuf dict presetLen = some r ∧ r.bufLen = Lzma2.dictBufOf dict ∧
      4096 ≤ r.bufLen ∧ r.bufLen ≤ max dict 4096 + 15 ∧ r.bufLen < 2 ^ 32 ∧ r.pos ≤ r.bufLen := by
  obtain ⟨he, h0, h1, h2⟩ := lzma2DictRound_eq dict hd
  unfold lzma2ReaderBuf
  rw [he]
  simp only []
  unfold Consts.DICT_SIZE_MAX at h2
  unfold Consts.DICT_SIZE_MIN at h0 h1
  have hc : castUsize (Lzma2.dictBufOf dict) = some (Lzma2.dictBufOf dict) := by
    unfold castUsize; rw [if_pos (by omega)]
  rw [hc]
  simp only []
  obtain ⟨r, hr, hb, hp, _, _⟩ := lzDecoderNew_total (Lzma2.dictBufOf dict) presetLen
  exact ⟨r, hr, hb, by omega, by omega, by omega, by omega⟩

/-- G4 for the LZMA reader: never overflows; `Err` exactly above `DICT_SIZE_MAX`; otherwise the one
dictionary allocation is `lzmaReaderDictBuf`, at most `max dict 4096 + 15` bytes. -/
theorem lzmaReaderBuf_total (dict uncomp : Nat) (presetLen : Option Nat) (hd : dict < 2 ^ 32)
    (hu : uncomp < 2 ^ 64) (hp : presetLen.getD 0 < 2 ^ 64) :
    (Consts.DICT_SIZE_MAX < dict ∧ lzmaReaderBuf dict uncomp presetLen = some none) ∨
    (dict ≤ Consts.DICT_SIZE_MAX ∧ ∃ r, lzmaReaderBuf dict uncomp presetLen = some (some r) ∧
      r.bufLen = Lzma.lzmaReaderDictBuf dict (sizeOpt uncomp) (presetLen.getD 0) ∧
      4096 ≤ r.bufLen ∧ r.bufLen ≤ max dict 4096 + 15 ∧ r.bufLen < 2 ^ 32 ∧ r.pos ≤ r.bufLen) := by
  rcases construct2Dict_total dict uncomp (presetLen.getD 0) hd hu hp with
    ⟨hgt, he⟩ | ⟨hle, r, he, hr, h1, _, _, h4, h5, _⟩
  · left; exact ⟨hgt, by unfold lzmaReaderBuf; rw [he]⟩
  · right
    refine ⟨hle, ?_⟩
    unfold lzmaReaderBuf
    rw [he]
    simp only []
    have hc : castUsize r = some r := by unfold castUsize; rw [if_pos (by omega)]
    rw [hc]
    simp only []
    obtain ⟨n, hn, hb, hpos, _, _⟩ := lzDecoderNew_total r presetLen
    rw [hn]
    exact ⟨n, rfl, by rw [hb, hr], by omega, by omega, by omega, by omega⟩

example : lzma2ReaderBuf 0xFFFFFFFF (some 7) = some { bufLen := 4294967280, pos := 7, presetSkip := 0 } := by decide
example : lzmaReaderBuf (2 ^ 30) 3 (some 100000) =
    some (some { bufLen := 100016, pos := 100000, presetSkip := 0 }) := by decide

/-! ## `LZDecoder::reset`, `set_limit`, `get_byte` -/

theorem lzResetIndex_total (bufSize : Nat) (h : 1 ≤ bufSize) : lzResetIndex bufSize = some (bufSize - 1) := by
  unfold lzResetIndex sub
  rw [if_pos h]
  simp only []
  rw [if_pos (by omega)]

/-- FINDING (reproduced on the Rust code at 3c30cbf, repaired by `63a4a08`): `LZMA2Reader::new(_, 0, None)` built an
empty dictionary buffer and the first dictionary reset (`control = 1` or `≥ 0xE0`) indexed `buf[0 - 1]`. -/
theorem lzma2_dict0_reset_panicked :
    lzma2ReaderBufBuggy 0 none = some { bufLen := 0, pos := 0, presetSkip := 0 } ∧ lzResetIndex 0 = none := by decide

/-- current code: `reset` is in bounds for EVERY caller-supplied dictionary size and preset -/
theorem lzma2_reset_ok (dict : Nat) (hd : dict < 2 ^ 32) (presetLen : Option Nat) :
    ∃ r, lzma2ReaderBuf dict presetLen = some r ∧ lzResetIndex r.bufLen = some (r.bufLen - 1) := by
  obtain ⟨r, hr, _, h, _, _, _⟩ := lzma2ReaderBuf_total dict hd presetLen
  exact ⟨r, hr, lzResetIndex_total _ (by omega)⟩

theorem lzSetLimit_total (outMax pos bufSize : Nat) (ho : outMax < 2 ^ 63) (hp : pos ≤ bufSize) (hb : bufSize < 2 ^ 32) :
    ∃ l, lzSetLimit outMax pos bufSize = some l ∧ pos ≤ l ∧ l ≤ bufSize := by
  unfold lzSetLimit add64
  rw [if_pos (by omega)]
  exact ⟨min (outMax + pos) bufSize, rfl, by omega, by omega⟩

/-- `get_byte` is in bounds for EVERY distance below the buffer size (not only below `full`) -/
theorem lzGetByteIndex_total (bufSize pos dist : Nat) (hp : pos ≤ bufSize) (hd : dist < bufSize) (hb : bufSize < 2 ^ 32) :
    ∃ i, lzGetByteIndex bufSize pos dist = some i ∧ i < bufSize := by
  unfold lzGetByteIndex
  by_cases h : dist ≥ pos
  · rw [if_pos h]
    unfold add64 sub
    rw [if_pos (by omega)]
    simp only []
    rw [if_pos (by omega)]
    simp only []
    rw [if_pos (by omega)]
    simp only []
    rw [if_pos (by omega)]
    exact ⟨_, rfl, by omega⟩
  · rw [if_neg h]
    unfold sub
    rw [if_pos (by omega)]
    simp only []
    rw [if_pos (by omega)]
    simp only []
    rw [if_pos (by omega)]
    exact ⟨_, rfl, by omega⟩

example : lzGetByteIndex 4096 0 0 = some 4095 := by decide
example : lzSetLimit 65536 100 4096 = some 4096 := by decide
example : lzResetIndex 4096 = some 4095 := by decide

/-! ## LZMA2 chunk header, `prepare` -/

theorem lzmaChunkSize_total (control u16 : Nat) (hu : u16 < 2 ^ 16) :
    lzmaChunkSize control u16 = some (control % 32 * 65536 + (u16 + 1)) ∧
      1 ≤ control % 32 * 65536 + (u16 + 1) ∧ control % 32 * 65536 + (u16 + 1) ≤ 2 ^ 21 := by
  unfold lzmaChunkSize mul64 add64
  rw [if_pos (by omega)]
  simp only []
  rw [if_pos (by omega)]
  simp only []
  rw [if_pos (by omega)]
  exact ⟨rfl, by omega, by omega⟩

/-- FINDING (reproduced on the Rust code at 3c30cbf, repaired by `2c6d08b`): the stored-chunk size was incremented in
`u16`; the maximal, perfectly legal stored chunk (`0xFFFF` = 65536 bytes) overflowed: debug panic, release wrap to 0. -/
theorem storedChunkSizeBuggy_overflows :
    storedChunkSizeBuggy 0xFFFF = none ∧ storedChunkSizeBuggyWrapped 0xFFFF = 0 ∧ storedChunkSize 0xFFFF = some 65536 := by
  decide

/-- the buggy version failed exactly on `0xFFFF`; the current one is total and agrees with the model's `be16 + 1` -/
theorem storedChunkSize_total (u16 : Nat) (hu : u16 < 2 ^ 16) :
    (storedChunkSizeBuggy u16 = none ↔ u16 = 0xFFFF) ∧ storedChunkSize u16 = some (u16 + 1) := by
  unfold storedChunkSize storedChunkSizeBuggy add16 add64
  rw [if_pos (show u16 + 1 < 2 ^ 64 by omega)]
  refine ⟨?_, rfl⟩
  by_cases h : u16 + 1 < 2 ^ 16
  · rw [if_pos h]; constructor
    · intro h'; cases h'
    · omega
  · rw [if_neg h]; constructor
    · intro _; omega
    · intro _; rfl

theorem rcPrepare_total (len : Nat) (hl : len ≤ Consts.R_COMPRESSED_SIZE_MAX) :
    (len < 5 ∧ rcPrepare Consts.R_COMPRESSED_SIZE_MAX len = some (.error ())) ∨
    (5 ≤ len ∧ rcPrepare Consts.R_COMPRESSED_SIZE_MAX len =
        some (.ok (Consts.R_COMPRESSED_SIZE_MAX - (len - 5), Consts.R_COMPRESSED_SIZE_MAX))) := by
  unfold Consts.R_COMPRESSED_SIZE_MAX at *
  unfold rcPrepare
  by_cases h : len < 5
  · left; exact ⟨h, by rw [if_pos h]⟩
  · right
    refine ⟨by omega, ?_⟩
    rw [if_neg h]
    unfold sub add64
    rw [if_pos (by omega)]
    simp only []
    rw [if_pos (by omega)]
    simp only []
    rw [if_pos (by omega)]
    simp only []
    rw [if_pos (by omega)]
    have : 65536 - (len - 5) + (len - 5) = 65536 := by omega
    rw [this]

/-- every compressed-size field (`u16 + 1 ≤ 65536`) fits the range decoder's buffer -/
theorem lzmaChunkCompSize_fits (u16 : Nat) (hu : u16 < 2 ^ 16) :
    ∃ c, lzmaChunkCompSize u16 = some c ∧ c ≤ Consts.R_COMPRESSED_SIZE_MAX := by
  unfold lzmaChunkCompSize add64 Consts.R_COMPRESSED_SIZE_MAX
  rw [if_pos (by omega)]
  exact ⟨_, rfl, by omega⟩

example : rcPrepare 65536 65536 = some (.ok (5, 65536)) := by rfl
example : rcPrepare 65536 4 = some (.error ()) := by rfl
example : lzmaChunkSize 0xFF 0xFFFF = some (2 ^ 21) := by decide

/-! ## XZ block header -/

theorem blockHeaderSizes_total (enc : Nat) (he : enc < 256) :
    (enc = 0 ∧ blockHeaderSizes enc = some (.error ())) ∨
    (1 ≤ enc ∧ blockHeaderSizes enc = some (.ok ((enc + 1) * 4 - 1, (enc + 1) * 4 - 5)) ∧ (enc + 1) * 4 - 1 ≤ 1023) := by
  unfold blockHeaderSizes add64 mul64
  rw [if_pos (by omega)]
  simp only []
  rw [if_pos (by omega)]
  simp only []
  by_cases h : enc = 0
  · left; subst h; exact ⟨rfl, by rw [if_pos (by omega)]⟩
  · right
    refine ⟨by omega, ?_, by omega⟩
    rw [if_neg (by omega)]
    unfold sub
    rw [if_pos (by omega)]
    simp only []
    rw [if_pos (by omega)]
    have : (enc + 1) * 4 - 1 - 4 = (enc + 1) * 4 - 5 := by omega
    rw [this]

/-- the dictionary-property shift never loses bits and agrees with the model `XzInt.dictOfProp`;
    every accepted value is ≥ 4096 -/
theorem dictOfPropChecked_total (p : Nat) :
    (XzInt.dictOfProp p = none ∧ dictOfPropChecked p = some (.error ())) ∨
    (∃ d, XzInt.dictOfProp p = some d ∧ dictOfPropChecked p = some (.ok d) ∧ 4096 ≤ d ∧ d < 2 ^ 32) := by
  unfold dictOfPropChecked XzInt.dictOfProp
  by_cases h1 : p > 40
  · left; rw [if_pos h1, if_pos h1]; exact ⟨rfl, rfl⟩
  · right
    rw [if_neg h1, if_neg h1]
    by_cases h2 : p = 40
    · rw [if_pos h2, if_pos h2]; exact ⟨_, rfl, rfl, by decide, by decide⟩
    · rw [if_neg h2, if_neg h2]
      have hp : p < 40 := by omega
      clear h1 h2
      have : ∀ q, q < 40 → shl32 (2 + q % 2) (q / 2 + 11) = some ((2 + q % 2) * 2 ^ (q / 2 + 11)) ∧
          4096 ≤ (2 + q % 2) * 2 ^ (q / 2 + 11) ∧ (2 + q % 2) * 2 ^ (q / 2 + 11) < 2 ^ 32 := by decide
      obtain ⟨a, b, c⟩ := this p hp
      rw [a]
      exact ⟨_, rfl, rfl, b, c⟩

example : blockHeaderSizes 255 = some (.ok (1023, 1019)) := by rfl
example : dictOfPropChecked 39 = some (.ok (3 * 2 ^ 30)) := by rfl

theorem pad4_total (n : Nat) : ∃ k, pad4 n = some k ∧ k ≤ 3 ∧ (n + k) % 4 = 0 := by
  unfold pad4 sub
  rw [if_pos (by omega)]
  exact ⟨(4 - n % 4) % 4, rfl, by omega, by omega⟩

theorem lzipMemberSize_total (c : Nat) (hc : c < 2 ^ 63) : lzipMemberSize c = some (26 + c) := by
  unfold lzipMemberSize add64 Consts.LZIP_HEADER_SIZE Consts.LZIP_TRAILER_SIZE
  rw [if_pos (by omega)]
  simp only []
  rw [if_pos (by omega)]
  congr 1; omega

end GuardsPart

section ScanPart
open LzmaVerif Guards

/-! # G5 — `scan_members` of the multi-threaded LZIP reader -/

section Scan
variable (fileSize : Nat) (memberSizeAt : Nat → Nat) (magicAt : Nat → Bool)

/-- one iteration, with the (never failing) checked subtractions resolved -/
theorem scanLoop_succ (fuel cur : Nat) (acc : List Member) :
    scanLoop fileSize memberSizeAt magicAt (fuel + 1) cur acc =
      if cur = 0 then .ok acc
      else if cur < 20 then .error .leading
      else if memberSizeAt cur = 0 ∨ memberSizeAt cur > cur then .error .badSize
      else if cur - memberSizeAt cur + 4 > fileSize then .error .eof
      else if ¬ magicAt (cur - memberSizeAt cur) then .error .badMagic
      else scanLoop fileSize memberSizeAt magicAt fuel (cur - memberSizeAt cur)
        ({ start := cur - memberSizeAt cur, size := memberSizeAt cur } :: acc) := by
  rw [scanLoop]
  unfold Consts.LZIP_TRAILER_SIZE
  by_cases h0 : cur = 0
  · rw [if_pos h0, if_pos h0]
  rw [if_neg h0, if_neg h0]
  by_cases h1 : cur < 20
  · rw [if_pos h1, if_pos h1]
  rw [if_neg h1, if_neg h1]
  have hs : sub cur 20 = some (cur - 20) := by unfold sub; rw [if_pos (by omega)]
  rw [hs]
  simp only []
  by_cases h2 : memberSizeAt cur = 0 ∨ memberSizeAt cur > cur
  · rw [if_pos h2, if_pos h2]
  rw [if_neg h2, if_neg h2]
  have hs2 : sub cur (memberSizeAt cur) = some (cur - memberSizeAt cur) := by
    unfold sub; rw [if_pos (by omega)]
  rw [hs2]

/-- G5a: the loop never needs more than `cur + 1` units of fuel: any two sufficient amounts agree -/
theorem scanLoop_fuel_indep : ∀ (fuel fuel' cur : Nat) (acc : List Member), cur < fuel → cur < fuel' →
    scanLoop fileSize memberSizeAt magicAt fuel cur acc = scanLoop fileSize memberSizeAt magicAt fuel' cur acc := by
  intro fuel
  induction fuel with
  | zero => intro _ _ _ h; omega
  | succ f ih =>
    intro fuel' cur acc h1 h2
    cases fuel' with
    | zero => omega
    | succ f' =>
      rw [scanLoop_succ, scanLoop_succ]
      by_cases h0 : cur = 0
      · rw [if_pos h0, if_pos h0]
      rw [if_neg h0, if_neg h0]
      by_cases h20 : cur < 20
      · rw [if_pos h20, if_pos h20]
      rw [if_neg h20, if_neg h20]
      by_cases hm : memberSizeAt cur = 0 ∨ memberSizeAt cur > cur
      · rw [if_pos hm, if_pos hm]
      rw [if_neg hm, if_neg hm]
      by_cases he : cur - memberSizeAt cur + 4 > fileSize
      · rw [if_pos he, if_pos he]
      rw [if_neg he, if_neg he]
      by_cases hg : ¬ magicAt (cur - memberSizeAt cur)
      · rw [if_pos hg, if_pos hg]
      rw [if_neg hg, if_neg hg]
      exact ih _ _ _ (by omega) (by omega)

/-- members laid end to end from `a` to `b`, each at least `k` bytes -/
def Contig (k : Nat) : Nat → List Member → Nat → Prop
  | a, [], b => a = b
  | a, m :: ms, b => m.start = a ∧ k ≤ m.size ∧ Contig k (a + m.size) ms b

theorem Contig.length_le {k : Nat} : ∀ {a b : Nat} {ms : List Member}, Contig k a ms b → a + k * ms.length ≤ b := by
  intro a b ms
  induction ms generalizing a with
  | nil => intro h; simp only [Contig] at h; simp only [List.length_nil]; omega
  | cons m ms ih =>
    intro h
    obtain ⟨h1, h2, h3⟩ := h
    have := ih h3
    simp only [List.length_cons, Nat.mul_add, Nat.mul_one]
    omega

theorem Contig.inside {k : Nat} : ∀ {a b : Nat} {ms : List Member}, Contig k a ms b →
    ∀ m ∈ ms, a ≤ m.start ∧ m.start + m.size ≤ b ∧ k ≤ m.size := by
  intro a b ms
  induction ms generalizing a with
  | nil => intro _ m hm; cases hm
  | cons m0 ms ih =>
    intro h m hm
    obtain ⟨h1, h2, h3⟩ := h
    have hle := Contig.length_le h3
    rcases List.mem_cons.mp hm with rfl | hm
    · have : k * ms.length ≥ 0 := Nat.zero_le _
      exact ⟨by omega, by omega, h2⟩
    · obtain ⟨g1, g2, g3⟩ := ih h3 m hm
      exact ⟨by omega, g2, g3⟩

/-- no two members overlap, and they are in file order -/
theorem Contig.pairwise {k : Nat} : ∀ {a b : Nat} {ms : List Member}, Contig k a ms b →
    ms.Pairwise (fun m1 m2 => m1.start + m1.size ≤ m2.start) := by
  intro a b ms
  induction ms generalizing a with
  | nil => intro _; exact List.Pairwise.nil
  | cons m0 ms ih =>
    intro h
    obtain ⟨h1, h2, h3⟩ := h
    refine List.Pairwise.cons ?_ (ih h3)
    intro m hm
    have := (Contig.inside h3 m hm).1
    omega

/-- the member sizes add up to exactly the covered range: the total allocation of all work units -/
theorem Contig.sum_sizes {k : Nat} : ∀ {a b : Nat} {ms : List Member}, Contig k a ms b →
    a + (ms.map (·.size)).sum = b := by
  intro a b ms
  induction ms generalizing a with
  | nil => intro h; simp only [Contig] at h; simp [h]
  | cons m0 ms ih =>
    intro h
    obtain ⟨h1, h2, h3⟩ := h
    have := ih h3
    simp only [List.map_cons, List.sum_cons]
    omega

/-- every position of the covered range lies inside one of the members -/
theorem Contig.covers {k : Nat} : ∀ {a b : Nat} {ms : List Member}, Contig k a ms b →
    ∀ p, a ≤ p → p < b → ∃ m ∈ ms, m.start ≤ p ∧ p < m.start + m.size := by
  intro a b ms
  induction ms generalizing a with
  | nil => intro h p h1 h2; simp only [Contig] at h; omega
  | cons m0 ms ih =>
    intro h p h1 h2
    obtain ⟨g1, g2, g3⟩ := h
    by_cases hp : p < a + m0.size
    · exact ⟨m0, List.mem_cons_self, by omega, by omega⟩
    · obtain ⟨m, hm, q1, q2⟩ := ih g3 p (by omega) h2
      exact ⟨m, List.mem_cons_of_mem _ hm, q1, q2⟩

/-- invariant of the loop: what has been collected covers `[cur, fileSize)`; the result covers
`[0, fileSize)` - the whole file (before the repair of `scan_members`: `[a, fileSize)` with `a < 20`);
the two model-only errors do not occur. -/
theorem scanLoop_spec : ∀ (fuel cur : Nat) (acc : List Member), cur < fuel →
    Contig 1 cur acc fileSize →
    match scanLoop fileSize memberSizeAt magicAt fuel cur acc with
    | .ok ms => Contig 1 0 ms fileSize ∧ ∃ pre, ms = pre ++ acc
    | .error e => e ≠ .fuel ∧ e ≠ .arith := by
  intro fuel
  induction fuel with
  | zero => intro _ _ h; omega
  | succ f ih =>
    intro cur acc hf hc
    rw [scanLoop_succ]
    by_cases h0 : cur = 0
    · rw [if_pos h0]; exact ⟨h0 ▸ hc, [], rfl⟩
    rw [if_neg h0]
    by_cases h20 : cur < 20
    · rw [if_pos h20]; exact ⟨by decide, by decide⟩
    rw [if_neg h20]
    by_cases hm : memberSizeAt cur = 0 ∨ memberSizeAt cur > cur
    · rw [if_pos hm]; exact ⟨by decide, by decide⟩
    rw [if_neg hm]
    by_cases he : cur - memberSizeAt cur + 4 > fileSize
    · rw [if_pos he]; exact ⟨by decide, by decide⟩
    rw [if_neg he]
    by_cases hg : ¬ magicAt (cur - memberSizeAt cur)
    · rw [if_pos hg]; exact ⟨by decide, by decide⟩
    rw [if_neg hg]
    have hc' : Contig 1 (cur - memberSizeAt cur)
        ({ start := cur - memberSizeAt cur, size := memberSizeAt cur } :: acc) fileSize := by
      refine ⟨rfl, by simp only []; omega, ?_⟩
      have : cur - memberSizeAt cur + memberSizeAt cur = cur := by omega
      simp only []
      rw [this]; exact hc
    have := ih (cur - memberSizeAt cur) _ (by omega) hc'
    revert this
    cases scanLoop fileSize memberSizeAt magicAt f (cur - memberSizeAt cur)
        ({ start := cur - memberSizeAt cur, size := memberSizeAt cur } :: acc) with
    | error e => exact id
    | ok ms =>
      rintro ⟨hcon, pre, hpre⟩
      exact ⟨hcon, pre ++ [{ start := cur - memberSizeAt cur, size := memberSizeAt cur }], by rw [hpre]; simp⟩


/-- G5 (main statement).  `scan_members` with fuel `fileSize + 1`:
* never runs out of fuel and never underflows (the two model-only errors are impossible);
* on success the member list is non-empty and tiles `[0, fileSize)`, the whole file
  (contiguous, in file order, every member of size ≥ 1). -/
theorem scanMembers_total :
    match scanMembers fileSize memberSizeAt magicAt with
    | .ok ms => ms ≠ [] ∧ Contig 1 0 ms fileSize
    | .error e => e ≠ .fuel ∧ e ≠ .arith := by
  unfold scanMembers scanMembersFuel
  by_cases hs : fileSize < Consts.LZIP_HEADER_SIZE + Consts.LZIP_TRAILER_SIZE
  · rw [if_pos hs]; exact ⟨by decide, by decide⟩
  rw [if_neg hs]
  have := scanLoop_spec fileSize memberSizeAt magicAt (fileSize + 1) fileSize [] (by omega) rfl
  revert this
  cases scanLoop fileSize memberSizeAt magicAt (fileSize + 1) fileSize [] with
  | error e => exact id
  | ok ms =>
    cases ms with
    | nil => intro _; exact ⟨by decide, by decide⟩
    | cons m ms => rintro ⟨hc, _⟩; exact ⟨by simp, hc⟩

/-- G5a: fuel `fileSize + 1` is enough — every larger fuel gives the same answer -/
theorem scanMembers_fuel_indep (fuel : Nat) (h : fileSize + 1 ≤ fuel) :
    scanMembersFuel fuel fileSize memberSizeAt magicAt = scanMembers fileSize memberSizeAt magicAt := by
  unfold scanMembers scanMembersFuel
  rw [scanLoop_fuel_indep fileSize memberSizeAt magicAt fuel (fileSize + 1) fileSize [] (by omega) (by omega)]

theorem scanMembers_ok {ms : List Member} (h : scanMembers fileSize memberSizeAt magicAt = .ok ms) :
    ms ≠ [] ∧ Contig 1 0 ms fileSize := by
  have := scanMembers_total fileSize memberSizeAt magicAt
  rw [h] at this; exact this

/-- G5b: every member lies inside the file and is non-empty -/
theorem scanMembers_inside {ms : List Member} (h : scanMembers fileSize memberSizeAt magicAt = .ok ms) :
    ∀ m ∈ ms, m.start + m.size ≤ fileSize ∧ 1 ≤ m.size := by
  obtain ⟨_, hc⟩ := scanMembers_ok fileSize memberSizeAt magicAt h
  intro m hm
  obtain ⟨_, h2, h3⟩ := hc.inside m hm
  exact ⟨h2, h3⟩

/-- G5c: members are pairwise disjoint and in file order -/
theorem scanMembers_disjoint {ms : List Member} (h : scanMembers fileSize memberSizeAt magicAt = .ok ms) :
    ms.Pairwise (fun m1 m2 => m1.start + m1.size ≤ m2.start) := by
  obtain ⟨_, hc⟩ := scanMembers_ok fileSize memberSizeAt magicAt h
  exact hc.pairwise

/-- G5d: the number of members, hence of loop iterations and of dispatched work units, is at most the file
size; and the work-unit buffers (`vec![0; member.compressed_size]`) add up to at most the file size -/
theorem scanMembers_count {ms : List Member} (h : scanMembers fileSize memberSizeAt magicAt = .ok ms) :
    ms.length ≤ fileSize ∧ (ms.map (·.size)).sum ≤ fileSize ∧
      ∀ m ∈ ms, dispatchAlloc m = some m.size ∨ 2 ^ 64 ≤ fileSize := by
  obtain ⟨_, hc⟩ := scanMembers_ok fileSize memberSizeAt magicAt h
  have h1 := hc.length_le
  have h2 := hc.sum_sizes
  refine ⟨by omega, by omega, ?_⟩
  intro m hm
  have := (hc.inside m hm).2.1
  unfold dispatchAlloc castUsize
  by_cases hlt : m.size < 2 ^ 64
  · left; rw [if_pos hlt]
  · right; omega

/-- G5d': the work-unit buffers add up to exactly the file size: no byte of an accepted file is left out
(before the repair of `scan_members` up to 19 leading bytes were) -/
theorem scanMembers_sum {ms : List Member} (h : scanMembers fileSize memberSizeAt magicAt = .ok ms) :
    (ms.map (·.size)).sum = fileSize := by
  obtain ⟨_, hc⟩ := scanMembers_ok fileSize memberSizeAt magicAt h
  have := hc.sum_sizes
  omega

/-- what the loop checked of each member it returns: the four bytes at its start are the magic, and the
`member_size` field of the trailer at its end is its size -/
theorem scanLoop_members : ∀ (fuel cur : Nat) (acc : List Member),
    (∀ m ∈ acc, magicAt m.start = true ∧ memberSizeAt (m.start + m.size) = m.size) →
    ∀ ms, scanLoop fileSize memberSizeAt magicAt fuel cur acc = .ok ms →
    ∀ m ∈ ms, magicAt m.start = true ∧ memberSizeAt (m.start + m.size) = m.size := by
  intro fuel
  induction fuel with
  | zero => intro cur acc _ ms h; rw [scanLoop] at h; cases h
  | succ f ih =>
    intro cur acc hacc ms
    rw [scanLoop_succ]
    by_cases h0 : cur = 0
    · rw [if_pos h0]; intro h; cases h; exact hacc
    rw [if_neg h0]
    by_cases h20 : cur < 20
    · rw [if_pos h20]; intro h; cases h
    rw [if_neg h20]
    by_cases hm : memberSizeAt cur = 0 ∨ memberSizeAt cur > cur
    · rw [if_pos hm]; intro h; cases h
    rw [if_neg hm]
    by_cases he : cur - memberSizeAt cur + 4 > fileSize
    · rw [if_pos he]; intro h; cases h
    rw [if_neg he]
    by_cases hg : ¬ magicAt (cur - memberSizeAt cur)
    · rw [if_pos hg]; intro h; cases h
    rw [if_neg hg]
    have hg' : magicAt (cur - memberSizeAt cur) = true := by
      cases hb : magicAt (cur - memberSizeAt cur) with
      | true => rfl
      | false => exact absurd (by rw [hb]; decide) hg
    apply ih
    intro m hmem
    rcases List.mem_cons.mp hmem with rfl | hmem
    · refine ⟨hg', ?_⟩
      have : cur - memberSizeAt cur + memberSizeAt cur = cur := by omega
      simp only []
      rw [this]
    · exact hacc m hmem

theorem scanMembers_members {ms : List Member} (h : scanMembers fileSize memberSizeAt magicAt = .ok ms) :
    ∀ m ∈ ms, magicAt m.start = true ∧ memberSizeAt (m.start + m.size) = m.size := by
  unfold scanMembers scanMembersFuel at h
  by_cases hs : fileSize < Consts.LZIP_HEADER_SIZE + Consts.LZIP_TRAILER_SIZE
  · rw [if_pos hs] at h; cases h
  rw [if_neg hs] at h
  have key := scanLoop_members fileSize memberSizeAt magicAt (fileSize + 1) fileSize []
    (fun m hm => by cases hm)
  revert h key
  cases scanLoop fileSize memberSizeAt magicAt (fileSize + 1) fileSize [] with
  | error e => intro h; cases h
  | ok ms' =>
    intro h key
    have hms : ms' = ms := by
      cases ms' with
      | nil => cases h
      | cons m r => cases h; rfl
    subst hms
    exact key ms' rfl

/-! ### With the magic check: every member has at least 4 bytes, so at most `fileSize / 4` members -/

/-- the only property of the magic test that matters: `LZIP` does not overlap a shifted copy of itself -/
def NoOverlap (magicAt : Nat → Bool) : Prop :=
  ∀ p, magicAt p = true → magicAt (p + 1) = false ∧ magicAt (p + 2) = false ∧ magicAt (p + 3) = false

theorem scanLoop_spec4 (hno : NoOverlap magicAt) : ∀ (fuel cur : Nat) (acc : List Member), cur < fuel →
    Contig 4 cur acc fileSize → (cur = fileSize ∨ magicAt cur = true) →
    ∀ ms, scanLoop fileSize memberSizeAt magicAt fuel cur acc = .ok ms → Contig 4 0 ms fileSize := by
  intro fuel
  induction fuel with
  | zero => intro _ _ h; omega
  | succ f ih =>
    intro cur acc hf hc hcur ms
    rw [scanLoop_succ]
    by_cases h0 : cur = 0
    · rw [if_pos h0]; intro h; cases h; exact h0 ▸ hc
    rw [if_neg h0]
    by_cases h20 : cur < 20
    · rw [if_pos h20]; intro h; cases h
    rw [if_neg h20]
    by_cases hm : memberSizeAt cur = 0 ∨ memberSizeAt cur > cur
    · rw [if_pos hm]; intro h; cases h
    rw [if_neg hm]
    by_cases he : cur - memberSizeAt cur + 4 > fileSize
    · rw [if_pos he]; intro h; cases h
    rw [if_neg he]
    by_cases hg : ¬ magicAt (cur - memberSizeAt cur)
    · rw [if_pos hg]; intro h; cases h
    rw [if_neg hg]
    have hg' : magicAt (cur - memberSizeAt cur) = true := by
      cases hb : magicAt (cur - memberSizeAt cur) with
      | true => rfl
      | false => exact absurd (by rw [hb]; decide) hg
    have hsz : 4 ≤ memberSizeAt cur := by
      rcases hcur with hfs | hmag
      · omega
      · obtain ⟨n1, n2, n3⟩ := hno _ hg'
        have h1 : memberSizeAt cur ≠ 1 := by
          intro h1
          have : cur - memberSizeAt cur + 1 = cur := by omega
          rw [this, hmag] at n1; cases n1
        have h2 : memberSizeAt cur ≠ 2 := by
          intro h2
          have : cur - memberSizeAt cur + 2 = cur := by omega
          rw [this, hmag] at n2; cases n2
        have h3 : memberSizeAt cur ≠ 3 := by
          intro h3
          have : cur - memberSizeAt cur + 3 = cur := by omega
          rw [this, hmag] at n3; cases n3
        omega
    have hc' : Contig 4 (cur - memberSizeAt cur)
        ({ start := cur - memberSizeAt cur, size := memberSizeAt cur } :: acc) fileSize := by
      refine ⟨rfl, hsz, ?_⟩
      have : cur - memberSizeAt cur + memberSizeAt cur = cur := by omega
      simp only []
      rw [this]; exact hc
    exact ih (cur - memberSizeAt cur) _ (by omega) hc' (Or.inr hg') ms

/-- G5f (what the repair of `scan_members` bought): with a magic test that cannot overlap itself, an accepted
file is tiled by the returned members exactly from byte 0 to its end, each member of at least 4 bytes -/
theorem scanMembers_tiles4 (hno : NoOverlap magicAt) {ms : List Member}
    (h : scanMembers fileSize memberSizeAt magicAt = .ok ms) :
    ms ≠ [] ∧ Contig 4 0 ms fileSize := by
  refine ⟨(scanMembers_ok fileSize memberSizeAt magicAt h).1, ?_⟩
  unfold scanMembers scanMembersFuel at h
  by_cases hs : fileSize < Consts.LZIP_HEADER_SIZE + Consts.LZIP_TRAILER_SIZE
  · rw [if_pos hs] at h; cases h
  rw [if_neg hs] at h
  have key := scanLoop_spec4 fileSize memberSizeAt magicAt hno (fileSize + 1) fileSize [] (by omega) rfl (Or.inl rfl)
  revert h key
  cases scanLoop fileSize memberSizeAt magicAt (fileSize + 1) fileSize [] with
  | error e => intro h; cases h
  | ok ms' =>
    intro h key
    have hms : ms' = ms := by
      cases ms' with
      | nil => cases h
      | cons m r => cases h; rfl
    subst hms
    exact key ms' rfl

/-- G5e: with a magic test that cannot overlap itself, every member has ≥ 4 bytes and there are at most
`fileSize / 4` members -/
theorem scanMembers_count4 (hno : NoOverlap magicAt) {ms : List Member}
    (h : scanMembers fileSize memberSizeAt magicAt = .ok ms) :
    (∀ m ∈ ms, 4 ≤ m.size) ∧ ms.length ≤ fileSize / 4 := by
  unfold scanMembers scanMembersFuel at h
  by_cases hs : fileSize < Consts.LZIP_HEADER_SIZE + Consts.LZIP_TRAILER_SIZE
  · rw [if_pos hs] at h; cases h
  rw [if_neg hs] at h
  have key := scanLoop_spec4 fileSize memberSizeAt magicAt hno (fileSize + 1) fileSize [] (by omega) rfl (Or.inl rfl)
  revert h key
  cases scanLoop fileSize memberSizeAt magicAt (fileSize + 1) fileSize [] with
  | error e => intro h; cases h
  | ok ms' =>
    intro h key
    have hc := key ms' rfl
    have hms : ms' = ms := by
      cases ms' with
      | nil => cases h
      | cons m r => cases h; rfl
    subst hms
    refine ⟨fun m hm => (hc.inside m hm).2.2, ?_⟩
    have := hc.length_le
    omega

end Scan

/-! ### The oracles read off real file bytes -/

theorem lzip_magic_noOverlap_aux (l : List Nat) (h : (l.take 4 == Consts.LZIP_MAGIC) = true) :
    ((l.drop 1).take 4 == Consts.LZIP_MAGIC) = false ∧ ((l.drop 2).take 4 == Consts.LZIP_MAGIC) = false ∧
      ((l.drop 3).take 4 == Consts.LZIP_MAGIC) = false := by
  unfold Consts.LZIP_MAGIC at *
  have h' : l.take 4 = [76, 90, 73, 80] := beq_iff_eq.mp h
  clear h
  rcases l with _ | ⟨a, _ | ⟨b, _ | ⟨c, _ | ⟨d, r⟩⟩⟩⟩
  · simp at h'
  · simp at h'
  · simp at h'
  · simp at h'
  · simp only [List.take_succ_cons, List.take_zero, List.cons.injEq, and_true] at h'
    obtain ⟨rfl, rfl, rfl, rfl⟩ := h'
    refine ⟨?_, ?_, ?_⟩
    · rcases r with _ | ⟨e, r⟩ <;> simp
    · rcases r with _ | ⟨e, _ | ⟨f, r⟩⟩ <;> simp
    · rcases r with _ | ⟨e, _ | ⟨f, _ | ⟨g, r⟩⟩⟩ <;> simp

theorem magicOf_noOverlap (file : List Nat) : NoOverlap (magicOf file) := by
  intro p hp
  unfold magicOf at *
  have := lzip_magic_noOverlap_aux (file.drop p) hp
  simpa only [List.drop_drop] using this

/-- G5 for an actual file: at most `|file| / 4` members, all inside the file, disjoint, of ≥ 4 bytes;
never out of fuel -/
theorem scanFile_total (file : List Nat) :
    match scanFile file with
    | .ok ms => ms ≠ [] ∧ ms.length ≤ file.length / 4 ∧
        (∀ m ∈ ms, 4 ≤ m.size ∧ m.start + m.size ≤ file.length) ∧
        ms.Pairwise (fun m1 m2 => m1.start + m1.size ≤ m2.start) ∧
        (ms.map (·.size)).sum = file.length
    | .error e => e ≠ .fuel ∧ e ≠ .arith := by
  unfold scanFile
  have ht := scanMembers_total file.length (memberSizeOf file) (magicOf file)
  cases hres : scanMembers file.length (memberSizeOf file) (magicOf file) with
  | error e => rw [hres] at ht; exact ht
  | ok ms =>
    rw [hres] at ht
    obtain ⟨h4, hlen⟩ := scanMembers_count4 _ _ _ (magicOf_noOverlap file) hres
    have hin := scanMembers_inside _ _ _ hres
    exact ⟨ht.1, hlen, fun m hm => ⟨h4 m hm, (hin m hm).1⟩, scanMembers_disjoint _ _ _ hres,
      scanMembers_sum _ _ _ hres⟩

/-- G5f for an actual file.  If `scan_members` accepts a file, the members it returns
* tile the file exactly from byte 0 to its end (`Contig 4 0 ms |file|`: the first starts at 0, each starts where its
  predecessor ends, the last ends at the end of the file, each has at least 4 bytes),
* so every byte position of the file lies inside one of them,
* and each starts with the four magic bytes and ends with a trailer whose `member_size` field is its size. -/
theorem scanFile_tiles (file : List Nat) {ms : List Member} (h : scanFile file = .ok ms) :
    ms ≠ [] ∧ Contig 4 0 ms file.length ∧
    (∀ p, p < file.length → ∃ m ∈ ms, m.start ≤ p ∧ p < m.start + m.size) ∧
    (∀ m ∈ ms, magicOf file m.start = true ∧ memberSizeOf file (m.start + m.size) = m.size) := by
  unfold scanFile at h
  obtain ⟨hne, hc⟩ := scanMembers_tiles4 _ _ _ (magicOf_noOverlap file) h
  exact ⟨hne, hc, fun p hp => hc.covers p (Nat.zero_le p) hp, scanMembers_members _ _ _ h⟩

/-- leftover bytes in front of the first member are an error of the scan: the file `junk ++ rest` with
`0 < |junk| < 20`, where the backward scan of `junk ++ rest` arrives at position `|junk|`, is never accepted.
Stated on the loop: from any position `0 < cur < 20` the answer is the `leading` error. -/
theorem scanLoop_leading (fuel cur : Nat) (acc : List Member) (h0 : 0 < cur) (h20 : cur < 20) :
    scanLoop fileSize memberSizeAt magicAt (fuel + 1) cur acc = .error .leading := by
  rw [scanLoop_succ, if_neg (by omega), if_pos h20]

end ScanPart

section IndexPart
open LzmaVerif Xz

/-! # P1 — XZ index: the record count is bounded by the input -/

theorem parseReaderAux_bounds : ∀ (fuel : Nat) (data : List Nat) (shift acc n v k : Nat),
    XzInt.parseReaderAux fuel data shift acc n = .ok v k → n + 1 ≤ k ∧ k ≤ n + data.length := by
  intro fuel
  induction fuel with
  | zero => intro data shift acc n v k h; simp [XzInt.parseReaderAux] at h
  | succ f ih =>
    intro data shift acc n v k h
    cases data with
    | nil => simp [XzInt.parseReaderAux] at h
    | cons b bs =>
      simp only [XzInt.parseReaderAux] at h
      split at h
      · cases h
      · split at h
        · cases h; simp only [List.length_cons]; omega
        · have := ih _ _ _ _ _ _ h
          simp only [List.length_cons]; omega

/-- every multibyte integer read consumes at least one byte (and only bytes that are there) -/
theorem mbReader_consumes {inp rest : List Nat} {v : Nat} (h : mbReader inp = .ok (v, rest)) :
    rest.length + 1 ≤ inp.length := by
  unfold mbReader at h
  split at h
  · next v' n hp =>
    cases h
    have := parseReaderAux_bounds _ _ _ _ _ _ _ hp
    simp only [List.length_drop]; omega
  · cases h
  · cases h

/-- **P1 (loop).**  With more fuel than input bytes the record loop cannot stop early: on success it has
read exactly `n` records and at least `2·n` bytes. -/
theorem parseRecords_count : ∀ (fuel n : Nat) (inp : List Nat) (acc recs : List (Nat × Nat)) (rest : List Nat),
    inp.length < fuel → parseRecords fuel n inp acc = .ok (recs, rest) →
    recs.length = acc.length + n ∧ rest.length + 2 * n ≤ inp.length := by
  intro fuel
  induction fuel with
  | zero => intro n inp acc recs rest h; omega
  | succ f ih =>
    intro n inp acc recs rest hf h
    simp only [parseRecords] at h
    by_cases hn : n = 0
    · rw [if_pos hn] at h
      simp only [pure, Except.pure, Except.ok.injEq, Prod.mk.injEq] at h
      obtain ⟨rfl, rfl⟩ := h
      simp [hn]
    · rw [if_neg hn] at h
      simp only [bind, Except.bind] at h
      cases h1 : mbReader inp with
      | error e => rw [h1] at h; cases h
      | ok p1 =>
        obtain ⟨u, inp1⟩ := p1
        rw [h1] at h
        simp only [] at h
        cases h2 : mbReader inp1 with
        | error e => rw [h2] at h; cases h
        | ok p2 =>
          obtain ⟨s, inp2⟩ := p2
          rw [h2] at h
          simp only [] at h
          have c1 := mbReader_consumes h1
          have c2 := mbReader_consumes h2
          by_cases hu : u = 0
          · rw [if_pos hu] at h; cases h
          · rw [if_neg hu] at h
            have := ih (n - 1) inp2 ((u, s) :: acc) recs rest (by omega) h
            simp only [List.length_cons] at this
            omega

/-- the loop's own fuel is never what stops it: any two amounts of fuel above the input length agree -/
theorem parseRecords_fuel_indep : ∀ (fuel fuel' n : Nat) (inp : List Nat) (acc : List (Nat × Nat)),
    inp.length < fuel → inp.length < fuel' → parseRecords fuel n inp acc = parseRecords fuel' n inp acc := by
  intro fuel
  induction fuel with
  | zero => intro _ _ _ _ h; omega
  | succ f ih =>
    intro fuel' n inp acc h1 h2
    cases fuel' with
    | zero => omega
    | succ f' =>
      simp only [parseRecords]
      by_cases hn : n = 0
      · rw [if_pos hn, if_pos hn]
      · rw [if_neg hn, if_neg hn]
        simp only [bind, Except.bind]
        cases h1' : mbReader inp with
        | error e => rfl
        | ok p1 =>
          obtain ⟨u, inp1⟩ := p1
          simp only []
          cases h2' : mbReader inp1 with
          | error e => rfl
          | ok p2 =>
            obtain ⟨s, inp2⟩ := p2
            simp only []
            have c1 := mbReader_consumes h1'
            have c2 := mbReader_consumes h2'
            by_cases hu : u = 0
            · rw [if_pos hu, if_pos hu]; rfl
            · rw [if_neg hu, if_neg hu]
              exact ih _ _ _ _ (by omega) (by omega)

/-- **P1.**  If `Index::parse` succeeds then the number of records it returns IS the announced count, and
the index occupied at least `1 + 2·count + 4` bytes of input. -/
theorem parseIndex_count {inp rest : List Nat} {recs : List (Nat × Nat)} {isize : Nat}
    (h : parseIndex inp = .ok (recs, isize, rest)) :
    (∃ inp1, mbReader inp = .ok (recs.length, inp1) ∧ rest.length + 2 * recs.length + 4 ≤ inp1.length) ∧
      rest.length + 2 * recs.length + 5 ≤ inp.length := by
  unfold parseIndex at h
  simp only [bind, Except.bind] at h
  cases h1 : mbReader inp with
  | error e => rw [h1] at h; cases h
  | ok p1 =>
    obtain ⟨n, inp1⟩ := p1
    rw [h1] at h
    simp only [] at h
    cases h2 : parseRecords (inp1.length + 1) n inp1 [] with
    | error e => rw [h2] at h; cases h
    | ok p2 =>
      obtain ⟨recs', inp2⟩ := p2
      rw [h2] at h
      simp only [] at h
      obtain ⟨hc, hl⟩ := parseRecords_count _ _ _ _ _ _ (Nat.lt_succ_self _) h2
      have c1 := mbReader_consumes h1
      split at h
      · cases h
      · next _ p3 h3 =>
        have e3 := (takeN_ok h3).1
        split at h
        · cases h
        · split at h
          · cases h
          · next _ p4 h4 =>
            obtain ⟨e4, l4⟩ := takeN_ok h4
            split at h
            · cases h
            · simp only [pure, Except.pure, Except.ok.injEq, Prod.mk.injEq] at h
              obtain ⟨rfl, _, rfl⟩ := h
              simp only [List.length_nil, Nat.zero_add] at hc
              have l2 : inp2.length = p3.1.length + p3.2.length := by rw [e3, List.length_append]
              have l3 : p3.2.length = p4.1.length + p4.2.length := by rw [e4, List.length_append]
              refine ⟨⟨inp1, by rw [hc], by omega⟩, by omega⟩

/-- **P1, as a rejection statement.**  Whatever count the index announces (2^63 − 1 included): if it exceeds
half of the bytes that follow, `Index::parse` fails.  In particular `count > |input|` is always rejected. -/
theorem parseIndex_rejects_big_count {inp inp1 : List Nat} {n : Nat} (h1 : mbReader inp = .ok (n, inp1))
    (hbig : inp1.length < 2 * n) : ∃ e, parseIndex inp = .error e := by
  cases h : parseIndex inp with
  | error e => exact ⟨e, rfl⟩
  | ok p =>
    obtain ⟨recs, isize, rest⟩ := p
    obtain ⟨⟨inp1', h1', hl⟩, _⟩ := parseIndex_count h
    rw [h1] at h1'
    cases h1'
    omega

theorem parseIndex_rejects_count_gt_length {inp inp1 : List Nat} {n : Nat} (h1 : mbReader inp = .ok (n, inp1))
    (hbig : inp.length < n) : ∃ e, parseIndex inp = .error e :=
  parseIndex_rejects_big_count h1 (by have := mbReader_consumes h1; omega)

end IndexPart

section LeavesPart
open LzmaVerif Lzma Prog Rc

/-! # Leaves of a decision program -/

/-- `AllD P p m`: every leaf `a` of `p`, reached after `m + (number of decisions on the path)` range-coder
decisions, satisfies `P a (that number)`.  The decoder `Prog.decRun` follows exactly one path and performs
exactly one `decodeBitP`/`decodeDirect1` (each reading at most one input byte) per node on it. -/
def AllD {α : Type} (P : α → Nat → Prop) : Prog α → Nat → Prop
  | .ret a, m => P a m
  | .bit _ k, m => ∀ b, AllD P (k b) (m + 1)
  | .direct k, m => ∀ b, AllD P (k b) (m + 1)

/-- every leaf satisfies `P` -/
def All {α : Type} (P : α → Prop) : Prog α → Prop
  | .ret a => P a
  | .bit _ k => ∀ b, All P (k b)
  | .direct k => ∀ b, All P (k b)

theorem AllD.mono {α : Type} {P Q : α → Nat → Prop} (hpq : ∀ a m, P a m → Q a m) :
    ∀ (p : Prog α) (m : Nat), AllD P p m → AllD Q p m
  | .ret a, m, h => hpq a m h
  | .bit _ k, m, h => fun b => AllD.mono hpq (k b) (m + 1) (h b)
  | .direct k, m, h => fun b => AllD.mono hpq (k b) (m + 1) (h b)

theorem All.mono {α : Type} {P Q : α → Prop} (hpq : ∀ a, P a → Q a) :
    ∀ (p : Prog α), All P p → All Q p
  | .ret a, h => hpq a h
  | .bit _ k, h => fun b => All.mono hpq (k b) (h b)
  | .direct k, h => fun b => All.mono hpq (k b) (h b)

theorem AllD.toAll {α : Type} {P : α → Nat → Prop} {Q : α → Prop} (hpq : ∀ a m, P a m → Q a) :
    ∀ (p : Prog α) (m : Nat), AllD P p m → All Q p
  | .ret a, m, h => hpq a m h
  | .bit _ k, m, h => fun b => AllD.toAll hpq (k b) (m + 1) (h b)
  | .direct k, m, h => fun b => AllD.toAll hpq (k b) (m + 1) (h b)

theorem AllD.bind {α β : Type} {Q : β → Nat → Prop} (f : α → Prog β) :
    ∀ (p : Prog α) (m : Nat), AllD (fun a m' => AllD Q (f a) m') p m → AllD Q (Prog.bind p f) m
  | .ret a, m, h => h
  | .bit _ k, m, h => fun b => AllD.bind f (k b) (m + 1) (h b)
  | .direct k, m, h => fun b => AllD.bind f (k b) (m + 1) (h b)

theorem All.bind {α β : Type} {Q : β → Prop} (f : α → Prog β) :
    ∀ (p : Prog α), All (fun a => All Q (f a)) p → All Q (Prog.bind p f)
  | .ret a, h => h
  | .bit _ k, h => fun b => All.bind f (k b) (h b)
  | .direct k, h => fun b => All.bind f (k b) (h b)

/-- whatever the range decoder answers, the result of running a program is one of its leaves -/
theorem All.decRun {α : Type} {P : α → Prop} : ∀ (p : Prog α), All P p → ∀ (ps : Probs) (d : Dec), P (p.decRun ps d).1
  | .ret a, h, ps, d => by rw [Prog.decRun_ret]; exact h
  | .bit i k, h, ps, d => by
    rcases hd : d.decodeBitP (ps.get i) with ⟨b, d'⟩
    rw [Prog.decRun_bit_eq i k ps d b d' hd]
    exact All.decRun (k b) (h b) _ _
  | .direct k, h, ps, d => by
    rcases hd : d.decodeDirect1 with ⟨b, d'⟩
    rw [Prog.decRun_direct_eq k ps d b d' hd]
    exact All.decRun (k b) (h b) _ _

/-- the same for the bit-string interpreter and the encoder walk -/
theorem All.runBits {α : Type} {P : α → Prop} : ∀ (p : Prog α), All P p → ∀ (bs : List Bool) (a : α) (r : List Bool),
    p.runBits bs = some (a, r) → P a
  | .ret a, h, bs, a', r, e => by simp only [Prog.runBits, Option.some.injEq, Prod.mk.injEq] at e; exact e.1 ▸ h
  | .bit i k, h, [], a', r, e => by simp [Prog.runBits] at e
  | .bit i k, h, b :: bs, a', r, e => All.runBits (k b) (h b) bs a' r (by simpa [Prog.runBits] using e)
  | .direct k, h, [], a', r, e => by simp [Prog.runBits] at e
  | .direct k, h, b :: bs, a', r, e => All.runBits (k b) (h b) bs a' r (by simpa [Prog.runBits] using e)

/-! # P4 — decisions per symbol -/

theorem bitTreeAux_allD {P : Nat → Nat → Prop} (base : Nat) : ∀ (n m d : Nat),
    (∀ v, m * 2 ^ n ≤ v → v < (m + 1) * 2 ^ n → P v (d + n)) → AllD P (bitTreeAux base n m) d := by
  intro n
  induction n with
  | zero => intro m d h; exact h m (by simp) (by simp)
  | succ n ih =>
    intro m d h b
    apply ih
    intro v h1 h2
    have : d + 1 + n = d + (n + 1) := by omega
    rw [this]
    have e1 : (2 * m + b2n b) * 2 ^ n = 2 * (m * 2 ^ n) + b2n b * 2 ^ n := by
      ring
    have e2 : (2 * m + b2n b + 1) * 2 ^ n = 2 * (m * 2 ^ n) + b2n b * 2 ^ n + 2 ^ n := by
      ring
    have e3 : m * 2 ^ (n + 1) = 2 * (m * 2 ^ n) := by ring
    have e4 : (m + 1) * 2 ^ (n + 1) = 2 * (m * 2 ^ n) + 2 * 2 ^ n := by
      ring
    rw [e1] at h1; rw [e2] at h2
    apply h v
    · rw [e3]; omega
    · rw [e4]
      cases b
      · simp only [b2n, Bool.false_eq_true, if_false, Nat.zero_mul] at h2; omega
      · simp only [b2n, if_true, Nat.one_mul] at h2; omega


theorem bitTree_allD {P : Nat → Nat → Prop} (base n d : Nat) (h : ∀ v, v < 2 ^ n → P v (d + n)) :
    AllD P (bitTree base n) d := by
  unfold bitTree
  apply AllD.bind
  apply bitTreeAux_allD
  intro v h1 h2
  apply h
  omega

theorem directBits_allD {P : Nat → Nat → Prop} : ∀ (n acc d : Nat),
    (∀ v, acc * 2 ^ n ≤ v → v < (acc + 1) * 2 ^ n → P v (d + n)) → AllD P (directBits n acc) d := by
  intro n
  induction n with
  | zero => intro m d h; exact h m (by simp) (by simp)
  | succ n ih =>
    intro m d h b
    apply ih
    intro v h1 h2
    have : d + 1 + n = d + (n + 1) := by omega
    rw [this]
    have e1 : (2 * m + b2n b) * 2 ^ n = 2 * (m * 2 ^ n) + b2n b * 2 ^ n := by ring
    have e2 : (2 * m + b2n b + 1) * 2 ^ n = 2 * (m * 2 ^ n) + b2n b * 2 ^ n + 2 ^ n := by ring
    have e3 : m * 2 ^ (n + 1) = 2 * (m * 2 ^ n) := by ring
    have e4 : (m + 1) * 2 ^ (n + 1) = 2 * (m * 2 ^ n) + 2 * 2 ^ n := by ring
    rw [e1] at h1; rw [e2] at h2
    apply h v
    · rw [e3]; omega
    · rw [e4]
      cases b
      · simp only [b2n, Bool.false_eq_true, if_false, Nat.zero_mul] at h2; omega
      · simp only [b2n, if_true, Nat.one_mul] at h2; omega

theorem revTreeAux_allD {P : Nat → Nat → Prop} (base : Nat) : ∀ (n m i acc d : Nat),
    (∀ v, acc ≤ v → v + 2 ^ i ≤ acc + 2 ^ i * 2 ^ n → P v (d + n)) → AllD P (revTreeAux base n m i acc) d := by
  intro n
  induction n with
  | zero => intro m i acc d h; exact h acc (Nat.le_refl _) (by simp)
  | succ n ih =>
    intro m i acc d h b
    apply ih
    intro v h1 h2
    have : d + 1 + n = d + (n + 1) := by omega
    rw [this]
    have e1 : 2 ^ (i + 1) = 2 * 2 ^ i := by ring
    have e2 : 2 ^ i * 2 ^ (n + 1) = 2 * (2 ^ i * 2 ^ n) := by ring
    have e3 : 2 * 2 ^ i * 2 ^ n = 2 * (2 ^ i * 2 ^ n) := by ring
    rw [e1, e3] at h2
    apply h v
    · omega
    · rw [e2]
      cases b
      · simp only [b2n, Bool.false_eq_true, if_false, Nat.zero_mul, Nat.add_zero] at h1 h2
        have : 0 < 2 ^ i := Nat.pow_pos (by decide)
        omega
      · simp only [b2n, if_true, Nat.one_mul] at h1 h2; omega

theorem revTree_allD {P : Nat → Nat → Prop} (base n d : Nat) (h : ∀ v, v < 2 ^ n → P v (d + n)) :
    AllD P (revTree base n) d := by
  unfold revTree
  apply revTreeAux_allD
  intro v _ h2
  apply h
  simp only [Nat.pow_zero, Nat.one_mul, Nat.zero_add] at h2
  omega

/-- `LengthCoder::decode`: at most 10 decisions, length in `2..=273` -/
theorem lenProg_allD {P : Nat → Nat → Prop} (base posState d : Nat)
    (h : ∀ len k, 2 ≤ len → len ≤ 273 → k ≤ 10 → P len (d + k)) : AllD P (lenProg base posState) d := by
  unfold lenProg
  intro c0
  cases c0
  · simp only [Bool.not_false, if_true]
    apply AllD.bind
    apply bitTree_allD
    intro v hv
    exact (show d + 1 + 3 = d + 4 by omega) ▸ h (v + 2) 4 (by omega) (by omega) (by omega)
  · simp only [Bool.not_true, Bool.false_eq_true, if_false]
    intro c1
    cases c1
    · simp only [Bool.not_false, if_true]
      apply AllD.bind
      apply bitTree_allD
      intro v hv
      exact (show d + 1 + 1 + 3 = d + 5 by omega) ▸ h (v + 10) 5 (by omega) (by omega) (by omega)
    · simp only [Bool.not_true, Bool.false_eq_true, if_false]
      apply AllD.bind
      apply bitTree_allD
      intro v hv
      exact (show d + 1 + 1 + 8 = d + 10 by omega) ▸ h (v + 18) 10 (by omega) (by omega) (by omega)

theorem dist_bound_lo (slot r : Nat) (h4 : 4 ≤ slot) (h14 : slot < 14) (hr : r < 2 ^ (slot / 2 - 1)) :
    (2 + slot % 2) * 2 ^ (slot / 2 - 1) + r < 2 ^ 32 := by
  have hL : slot / 2 - 1 ≤ 5 := by omega
  have hp : 2 ^ (slot / 2 - 1) ≤ 2 ^ 5 := Nat.pow_le_pow_right (by decide) hL
  generalize 2 ^ (slot / 2 - 1) = A at *
  have : slot % 2 = 0 ∨ slot % 2 = 1 := by omega
  rcases this with h | h <;> rw [h] <;> omega

theorem dist_bound_hi (slot hi lo : Nat) (h14 : 14 ≤ slot) (h64 : slot < 64)
    (hhi : hi < 2 ^ (slot / 2 - 1 - 4)) (hlo : lo < 2 ^ 4) :
    (2 + slot % 2) * 2 ^ (slot / 2 - 1) + hi * 16 + lo < 2 ^ 32 := by
  have hL : slot / 2 - 1 - 4 ≤ 26 := by omega
  have hp : 2 ^ (slot / 2 - 1 - 4) ≤ 2 ^ 26 := Nat.pow_le_pow_right (by decide) hL
  have e : 2 ^ (slot / 2 - 1) = 2 ^ (slot / 2 - 1 - 4) * 16 := by
    have : slot / 2 - 1 = (slot / 2 - 1 - 4) + 4 := by omega
    conv => lhs; rw [this, Nat.pow_add]
  rw [e]
  generalize 2 ^ (slot / 2 - 1 - 4) = A at *
  have : slot % 2 = 0 ∨ slot % 2 = 1 := by omega
  rcases this with h | h <;> rw [h] <;> omega

/-- distance part of `decode_match`: at most 36 decisions, distance below 2^32 -/
theorem distProg_allD {P : Nat → Nat → Prop} (len d : Nat)
    (h : ∀ dist k, dist < 2 ^ 32 → k ≤ 36 → P dist (d + k)) : AllD P (distProg len) d := by
  unfold distProg
  apply AllD.bind
  apply bitTree_allD
  intro slot hslot
  by_cases h4 : slot < 4
  · rw [if_pos h4]
    exact h slot 6 (by omega) (by omega)
  · rw [if_neg h4]
    simp only []
    by_cases h14 : slot < 14
    · rw [if_pos h14]
      apply AllD.bind
      apply revTree_allD
      intro r hr
      have hb := dist_bound_lo slot r (by omega) h14 hr
      have := h ((2 + slot % 2) * 2 ^ (slot / 2 - 1) + r) (6 + (slot / 2 - 1)) hb (by omega)
      rwa [← Nat.add_assoc] at this
    · rw [if_neg h14]
      apply AllD.bind
      apply directBits_allD
      intro hi _ hhi
      simp only [Nat.zero_add, Nat.one_mul] at hhi
      apply AllD.bind
      apply revTree_allD
      intro lo hlo
      have hb := dist_bound_hi slot hi lo (by omega) hslot hhi hlo
      have := h _ (6 + (slot / 2 - 1 - 4) + 4) hb (by omega)
      rwa [← Nat.add_assoc, ← Nat.add_assoc] at this

theorem litPlain_allD {P : Nat → Nat → Prop} (base d : Nat) (h : ∀ b, b < 256 → P b (d + 8)) :
    AllD P (litPlain base) d := by
  unfold litPlain
  apply AllD.bind
  apply bitTreeAux_allD
  intro v h1 h2
  apply h
  omega

theorem litMatchedAux_allD {P : Nat → Nat → Prop} (base : Nat) : ∀ (n symbol offset matchByte d : Nat),
    (∀ v, symbol * 2 ^ n ≤ v → v < (symbol + 1) * 2 ^ n → P (v - 256) (d + n)) →
    AllD P (litMatchedAux base n symbol offset matchByte) d := by
  intro n
  induction n with
  | zero => intro m _ _ d h; exact h m (by simp) (by simp)
  | succ n ih =>
    intro m off mb d h b
    apply ih
    intro v h1 h2
    have : d + 1 + n = d + (n + 1) := by omega
    rw [this]
    have e1 : (2 * m + b2n b) * 2 ^ n = 2 * (m * 2 ^ n) + b2n b * 2 ^ n := by ring
    have e2 : (2 * m + b2n b + 1) * 2 ^ n = 2 * (m * 2 ^ n) + b2n b * 2 ^ n + 2 ^ n := by ring
    have e3 : m * 2 ^ (n + 1) = 2 * (m * 2 ^ n) := by ring
    have e4 : (m + 1) * 2 ^ (n + 1) = 2 * (m * 2 ^ n) + 2 * 2 ^ n := by ring
    rw [e1] at h1; rw [e2] at h2
    apply h v
    · rw [e3]; omega
    · rw [e4]
      cases b
      · simp only [b2n, Bool.false_eq_true, if_false, Nat.zero_mul] at h2; omega
      · simp only [b2n, if_true, Nat.one_mul] at h2; omega

theorem litMatched_allD {P : Nat → Nat → Prop} (base matchByte d : Nat) (h : ∀ b, b < 256 → P b (d + 8)) :
    AllD P (litMatched base matchByte) d := by
  unfold litMatched
  apply litMatchedAux_allD
  intro v h1 h2
  apply h
  omega

/-- **P4.**  For EVERY parameter set and EVERY context, every path through the decision program of one
symbol makes at most 48 range-coder decisions (each reads at most one input byte), and the symbol it ends in
is admissible: literal < 256, length in 2..=273, repeat index ≤ 3, distance < 2^32. -/
theorem symProg_allD (pr : Params) (c : Ctx) : AllD (fun s m => SymOk s ∧ m ≤ 48) (symProg pr c) 0 := by
  unfold symProg
  simp only []
  intro isMatch
  cases isMatch
  · simp only [Bool.not_false, if_true]
    by_cases hl : stIsLiteral c.state
    · rw [if_pos hl]
      apply AllD.bind
      apply litPlain_allD
      intro b hb
      exact ⟨hb, by omega⟩
    · rw [if_neg hl]
      apply AllD.bind
      apply litMatched_allD
      intro b hb
      exact ⟨hb, by omega⟩
  · simp only [Bool.not_true, Bool.false_eq_true, if_false]
    intro isRep
    cases isRep
    · simp only [Bool.not_false, if_true]
      apply AllD.bind
      apply lenProg_allD
      intro len k h2 h273 hk
      apply AllD.bind
      apply distProg_allD
      intro dist k' hd hk'
      exact ⟨⟨h2, h273, hd⟩, by omega⟩
    · simp only [Bool.not_true, Bool.false_eq_true, if_false]
      intro r0
      cases r0
      · simp only [Bool.not_false, if_true]
        intro long
        cases long
        · simp only [Bool.not_false, if_true]
          exact ⟨trivial, by omega⟩
        · simp only [Bool.not_true, Bool.false_eq_true, if_false]
          apply AllD.bind
          apply lenProg_allD
          intro len k h2 h273 hk
          exact ⟨⟨by omega, h2, h273⟩, by omega⟩
      · simp only [Bool.not_true, Bool.false_eq_true, if_false]
        intro r1
        cases r1
        · simp only [Bool.not_false, if_true]
          apply AllD.bind
          apply lenProg_allD
          intro len k h2 h273 hk
          exact ⟨⟨by omega, h2, h273⟩, by omega⟩
        · simp only [Bool.not_true, Bool.false_eq_true, if_false]
          intro r2
          apply AllD.bind
          apply lenProg_allD
          intro len k h2 h273 hk
          refine ⟨⟨?_, h2, h273⟩, by omega⟩
          cases r2 <;> simp

/-- every symbol the decoder can produce, from any input whatsoever, is admissible -/
theorem symProg_all (pr : Params) (c : Ctx) : All SymOk (symProg pr c) :=
  AllD.toAll (fun _ _ h => h.1) _ _ (symProg_allD pr c)


/-- a run on a bit string ends in a leaf whose depth is the number of bits used -/
theorem AllD.runBits {α : Type} {P : α → Nat → Prop} : ∀ (p : Prog α) (m : Nat), AllD P p m →
    ∀ (bs : List Bool) (a : α) (r : List Bool), p.runBits bs = some (a, r) → ∃ k, P a (m + k) ∧ bs.length = k + r.length
  | .ret a, m, h, bs, a', r, e => by
    simp only [Prog.runBits, Option.some.injEq, Prod.mk.injEq] at e
    exact ⟨0, e.1 ▸ h, by rw [e.2]; simp⟩
  | .bit i k, m, h, [], a', r, e => by simp [Prog.runBits] at e
  | .bit i k, m, h, b :: bs, a', r, e => by
    obtain ⟨j, h1, h2⟩ := AllD.runBits (k b) (m + 1) (h b) bs a' r (by simpa [Prog.runBits] using e)
    exact ⟨j + 1, by rw [show m + (j + 1) = m + 1 + j by omega]; exact h1, by simp only [List.length_cons]; omega⟩
  | .direct k, m, h, [], a', r, e => by simp [Prog.runBits] at e
  | .direct k, m, h, b :: bs, a', r, e => by
    obtain ⟨j, h1, h2⟩ := AllD.runBits (k b) (m + 1) (h b) bs a' r (by simpa [Prog.runBits] using e)
    exact ⟨j + 1, by rw [show m + (j + 1) = m + 1 + j by omega]; exact h1, by simp only [List.length_cons]; omega⟩

/-- **P4, encoder side.**  The bit string the encoder emits for an admissible symbol has at most 48 decisions. -/
theorem symBits_length_le (pr : Params) (c : Ctx) (s : Sym) (hs : SymOk s) : (symBits pr c s).length ≤ 48 := by
  have h := sym_rt pr c s hs []
  rw [List.append_nil] at h
  obtain ⟨k, ⟨_, hk⟩, hl⟩ := AllD.runBits _ 0 (symProg_allD pr c) _ _ _ h
  simp only [List.length_nil] at hl
  omega

/-- the bound 48 is attained: a match with the largest distance slot -/
example : (symBits ⟨3, 0, 2⟩ ⟨0, 0, 0, 0⟩ (.mtch 0xFFFFFFFE 273)).length = 48 := by decide +kernel

end LeavesPart

section LoopPart
open LzmaVerif Lzma Prog Rc

/-! # P3 — the symbol loop: every symbol emits at least one byte -/

/-- what every leaf of `loopProg fuel remaining c h acc em` satisfies, relative to where the loop started:
* `emitted` and the history grow together;
* at most one symbol per emitted byte (plus the one terminating symbol of an end marker / bad distance);
* never more than the declared `remaining` bytes, exactly that many at `.limit`;
* `.fuel` only after `fuel` symbols, i.e. after at least `fuel` bytes. -/
structure LoopPost (fuel : Nat) (remaining : Option Nat) (h : Hist) (acc : List Sym) (em : Nat) (r : LoopRes) : Prop where
  em_le : em ≤ r.emitted
  hist : r.hist.size = h.size + (r.emitted - em)
  acc_le : acc.length ≤ r.parse.length
  syms : r.parse.length - acc.length ≤ (r.emitted - em) + (if r.stop = .endMarker ∨ r.stop = .distOverflow then 1 else 0)
  fuelStop : r.stop = .fuel → fuel ≤ r.emitted - em
  rem : ∀ n, remaining = some n → r.emitted - em ≤ n ∧ (r.stop = .limit → r.emitted - em = n)
  noSize : remaining = none → r.stop ≠ .limit ∧ r.stop ≠ .overrun

/-- one loop iteration that emitted `k ≥ 1` bytes and pushed one symbol -/
theorem LoopPost.step {fuel : Nat} {remaining rem' : Option Nat} {h h' : Hist} {acc : List Sym} {s : Sym}
    {em k : Nat} {r : LoopRes} (hk : 1 ≤ k) (hh : h'.size = h.size + k)
    (hr1 : ∀ n, remaining = some n → k ≤ n ∧ rem' = some (n - k)) (hr2 : remaining = none → rem' = none)
    (p : LoopPost fuel rem' h' (s :: acc) (em + k) r) : LoopPost (fuel + 1) remaining h acc em r := by
  obtain ⟨p1, p2, p3, p4, p5, p6, p7⟩ := p
  simp only [List.length_cons] at p3 p4
  refine ⟨by omega, by omega, by omega, by omega, fun hf => by have := p5 hf; omega, ?_, ?_⟩
  · intro n hn
    obtain ⟨a, b⟩ := hr1 n hn
    obtain ⟨c, d⟩ := p6 _ b
    exact ⟨by omega, fun hl => by have := d hl; omega⟩
  · intro hn; exact p7 (hr2 hn)

/-- the part of the loop body that handles a non-literal symbol (verbatim from `loopProg`) -/
def copyBody (pr : Params) (dictBuf fuel : Nat) (remaining : Option Nat) (c : Coder) (h : Hist) (acc : List Sym)
    (em : Nat) (s : Sym) : Prog LoopRes :=
  match s.copyOf c with
  | none => ret { stop := .fuel, coder := c.apply s, hist := h, parse := acc, emitted := em }
  | some (dist, len) =>
    if dist ≥ h.size ∨ dist ≥ dictBuf then
      ret { stop := (if (c.apply s).rep0 = END_DIST then .endMarker else .distOverflow),
            coder := c.apply s, hist := h, parse := s :: acc, emitted := em }
    else
      match remaining with
      | some r =>
        if len > r then
          ret { stop := .overrun, coder := c.apply s, hist := h.copy dist r, parse := s :: acc, emitted := em + r }
        else loopProg pr dictBuf fuel (some (r - len)) (c.apply s) (h.copy dist len) (s :: acc) (em + len)
      | none => loopProg pr dictBuf fuel none (c.apply s) (h.copy dist len) (s :: acc) (em + len)

theorem copyBody_all (pr : Params) (dictBuf fuel : Nat) (remaining : Option Nat) (c : Coder) (h : Hist)
    (acc : List Sym) (em : Nat) (s : Sym) (dist len : Nat) (hcopy : s.copyOf c = some (dist, len)) (hlen : 1 ≤ len)
    (hrem : remaining ≠ some 0)
    (ih : ∀ (remaining : Option Nat) (c : Coder) (h : Hist) (acc : List Sym) (em : Nat),
      All (LoopPost fuel remaining h acc em) (loopProg pr dictBuf fuel remaining c h acc em)) :
    All (LoopPost (fuel + 1) remaining h acc em) (copyBody pr dictBuf fuel remaining c h acc em s) := by
  unfold copyBody
  rw [hcopy]
  simp only []
  by_cases hd : dist ≥ h.size ∨ dist ≥ dictBuf
  · rw [if_pos hd]
    by_cases he : (c.apply s).rep0 = END_DIST
    · rw [if_pos he]
      exact ⟨Nat.le_refl _, by simp, by simp, by simp, by simp, fun n _ => ⟨by simp, by simp⟩, fun _ => by simp⟩
    · rw [if_neg he]
      exact ⟨Nat.le_refl _, by simp, by simp, by simp, by simp, fun n _ => ⟨by simp, by simp⟩, fun _ => by simp⟩
  · rw [if_neg hd]
    cases remaining with
    | none =>
      simp only []
      refine All.mono (fun r p => ?_) _ (ih none (c.apply s) (h.copy dist len) (s :: acc) (em + len))
      exact LoopPost.step hlen (hist_copy_size h dist len) (fun n hn => by cases hn) (fun _ => rfl) p
    | some r =>
      simp only []
      have hr : 1 ≤ r := by
        cases r with
        | zero => exact absurd rfl hrem
        | succ r => omega
      by_cases hl : len > r
      · rw [if_pos hl]
        refine ⟨by simp, ?_, by simp, ?_, by simp, ?_, fun hn => by cases hn⟩
        · simp only [hist_copy_size]; omega
        · simp only [List.length_cons]; simp; omega
        · intro n hn; cases hn; exact ⟨by simp, by simp⟩
      · rw [if_neg hl]
        refine All.mono (fun r' p => ?_) _ (ih (some (r - len)) (c.apply s) (h.copy dist len) (s :: acc) (em + len))
        exact LoopPost.step hlen (hist_copy_size h dist len)
          (fun n hn => by cases hn; exact ⟨by omega, rfl⟩) (fun hn => by cases hn) p

/-- **P3 (program level).**  Every leaf of the symbol loop — i.e. every possible run of the decoder, whatever
the compressed bytes — satisfies `LoopPost`. -/
theorem loopProg_all (pr : Params) (dictBuf : Nat) : ∀ (fuel : Nat) (remaining : Option Nat) (c : Coder) (h : Hist)
    (acc : List Sym) (em : Nat), All (LoopPost fuel remaining h acc em) (loopProg pr dictBuf fuel remaining c h acc em) := by
  intro fuel
  induction fuel with
  | zero =>
    intro remaining c h acc em
    rw [loopProg]
    exact ⟨Nat.le_refl _, by simp, by simp, by simp, by simp, fun n _ => ⟨by simp, by simp⟩, fun _ => by simp⟩
  | succ fuel ih =>
    intro remaining c h acc em
    rw [loopProg]
    by_cases h0 : remaining = some 0
    · rw [if_pos h0]
      refine ⟨Nat.le_refl _, by simp, by simp, by simp, by simp, fun n hn => ?_, fun hn => by rw [hn] at h0; cases h0⟩
      rw [h0] at hn; cases hn; exact ⟨by simp, by simp⟩
    · rw [if_neg h0]
      apply All.bind
      refine All.mono (fun s hs => ?_) _ (symProg_all pr (ctxOf c h))
      cases s with
      | lit b =>
        simp only []
        refine All.mono (fun r p => ?_) _ (ih (remaining.map (· - 1)) (c.apply (.lit b)) (h.push b) (.lit b :: acc) (em + 1))
        refine LoopPost.step (Nat.le_refl 1) (Array.size_push _) (fun n hn => ?_) (fun hn => by rw [hn]; rfl) p
        subst hn
        refine ⟨?_, rfl⟩
        cases n with
        | zero => exact absurd rfl h0
        | succ n => omega
      | mtch dist len =>
        exact copyBody_all pr dictBuf fuel remaining c h acc em (.mtch dist len) dist len rfl
          (by have := hs.1; omega) h0 ih
      | rep i len =>
        exact copyBody_all pr dictBuf fuel remaining c h acc em (.rep i len) (c.rep i) len rfl
          (by have := hs.2.1; omega) h0 ih
      | shortRep =>
        exact copyBody_all pr dictBuf fuel remaining c h acc em .shortRep c.rep0 1 rfl (Nat.le_refl 1) h0 ih

/-- **P3.**  Run the symbol loop with the range decoder on ANY probabilities and ANY decoder state (any input
bytes).  The run decoded at most one symbol per emitted byte (plus the terminating symbol of an end marker or
of a bad distance); the history grew by exactly the emitted bytes; a declared size is never exceeded. -/
theorem loop_symbols_le_bytes (pr : Params) (dictBuf fuel : Nat) (remaining : Option Nat) (c : Coder) (h : Hist)
    (ps : Probs) (d : Dec) :
    let r := ((loopProg pr dictBuf fuel remaining c h [] 0).decRun ps d).1
    r.parse.length ≤ r.emitted + 1 ∧
    (r.stop ≠ .endMarker → r.stop ≠ .distOverflow → r.parse.length ≤ r.emitted) ∧
    r.hist.size = h.size + r.emitted ∧
    (∀ n, remaining = some n → r.emitted ≤ n ∧ (r.stop = .limit → r.emitted = n)) ∧
    (r.stop = .fuel → fuel ≤ r.emitted) := by
  intro r
  have p : LoopPost fuel remaining h [] 0 r := All.decRun _ (loopProg_all pr dictBuf fuel remaining c h [] 0) ps d
  obtain ⟨p1, p2, p3, p4, p5, p6, p7⟩ := p
  simp only [List.length_nil, Nat.sub_zero] at p2 p4 p5 p6
  refine ⟨?_, ?_, p2, p6, p5⟩
  · split at p4 <;> omega
  · intro h1 h2
    rw [if_neg (by intro h; rcases h with h | h; exact h1 h; exact h2 h)] at p4
    omega

/-- with a declared size `n` and `n + 1` symbols of fuel (what `decodeRaw` and `Lzma2.chunkLoop` pass) the loop
never runs out of fuel: `.fuel` is not a possible outcome -/
theorem loop_no_fuel_stop (pr : Params) (dictBuf n fuel : Nat) (hf : n < fuel) (c : Coder) (h : Hist) (acc : List Sym)
    (em : Nat) (ps : Probs) (d : Dec) :
    ((loopProg pr dictBuf fuel (some n) c h acc em).decRun ps d).1.stop ≠ .fuel := by
  have p := All.decRun _ (loopProg_all pr dictBuf fuel (some n) c h acc em) ps d
  intro hs
  have a := p.fuelStop hs
  have b := (p.rem n rfl).1
  omega

/-- without a declared size (`remaining = none`, fuel `cap + 1`): `.fuel` means MORE than `cap` bytes were produced -/
theorem loop_fuel_means_cap (pr : Params) (dictBuf cap : Nat) (c : Coder) (h : Hist) (ps : Probs) (d : Dec) :
    let r := ((loopProg pr dictBuf (cap + 1) none c h [] 0).decRun ps d).1
    r.stop = .fuel → cap < r.emitted ∧ r.hist.size = h.size + r.emitted := by
  intro r hs
  have p : LoopPost (cap + 1) none h [] 0 r := All.decRun _ (loopProg_all pr dictBuf (cap + 1) none c h [] 0) ps d
  have a := p.fuelStop hs
  have b := p.hist
  simp only [Nat.sub_zero] at a b
  exact ⟨by omega, b⟩

end LoopPart

section ChunkCapPart
open LzmaVerif Lzma Prog Rc Lzma2

theorem pushAll_size : ∀ (l : List Nat) (a : Array Nat), (pushAll a l).size = a.size + l.length := by
  intro l
  induction l with
  | nil => intro a; rfl
  | cons b bs ih => intro a; rw [pushAll, ih, Array.size_push, List.length_cons]; omega

theorem chunkProps_ok {s s' : RState} {control : Nat} {inp inp' : List Nat} {p : Option Nat}
    (h : chunkProps s control inp = .ok (s', inp', p)) :
    s'.out = s.out ∧ s'.hist = s.hist ∧ (inp' = inp ∨ ∃ x, inp = x :: inp') := by
  unfold chunkProps at h
  split at h
  · split at h
    · cases h
    · split at h
      · cases h
      · simp only [] at h
        split at h
        · cases h
        · cases h; exact ⟨rfl, rfl, Or.inr ⟨_, rfl⟩⟩
  · split at h
    · cases h
    · split at h
      · cases h; exact ⟨rfl, rfl, Or.inl rfl⟩
      · cases h; exact ⟨rfl, rfl, Or.inl rfl⟩

theorem resetState_out (s : RState) (c : Prop) [Decidable c] :
    (if c then { s with needProps := true, needDictReset := false, hist := #[] } else s).out = s.out := by
  split <;> rfl

/-- P2 (LZMA2 chunk loop, cap).  With more fuel than input bytes, `.capped` is returned only because some
chunk's output-cap check `out.size + unc > cap` fired (never because the fuel ran out, and never because the
symbol loop ran out of its own fuel); and that happens within `2^21` bytes of output per input byte. -/
theorem chunkLoop_capped_aux (fuel : Nat) (s : RState) (inp : List Nat) (cap : Nat) :
    (∀ x ∈ inp, x < 256) → inp.length < fuel →
    chunkLoop fuel s inp cap = .capped →
    ∃ outSize unc, s.out.size ≤ outSize ∧ outSize + unc ≤ s.out.size + 2 ^ 21 * inp.length ∧ cap < outSize + unc := by
  fun_induction chunkLoop fuel s inp cap
  all_goals try (intro _ _ h; cases h; done)
  all_goals try (intro _ _ hc; simp (config := {zetaDelta := true}) only [*, if_true, if_false, not_true_eq_false, not_false_eq_true, reduceCtorEq] at hc; done)
  case case1 => intro _ hf _; omega
  case case11 =>
    rename_i fuel s0 cap ctl hctl isReset hreset s1 h128 u1 u2 c1 c2 inp1 unc comp s2 props hcomp b0 bs hb0 d0 hcap hprops hlen body hinit
    intro hb hf _
    obtain ⟨ho, _, _⟩ := chunkProps_ok hprops
    have ho1 : s1.out = s0.out := resetState_out s0 isReset
    have hu1 : u1 < 256 := hb u1 (by simp)
    have hu2 : u2 < 256 := hb u2 (by simp)
    have hunc : unc ≤ 2 ^ 21 := by
      show ctl % 32 * 65536 + be16 u1 u2 + 1 ≤ 2 ^ 21
      unfold be16; omega
    refine ⟨s0.out.size, unc, Nat.le_refl _, ?_, ?_⟩
    · simp only [List.length_cons]; omega
    · rw [ho, ho1] at hcap; omega
  case case13 =>
    rename_i fuel s0 cap ctl hctl isReset hreset s1 h128 u1 u2 c1 c2 inp1 unc comp s2 props hcomp b0 bs hb0 d0 hcap r probs d hdec dn hstop hfin newBytes ch hprops hlen body inp2 hinit ih
    intro hb hf hc
    simp (config := {zetaDelta := true}) only [*, if_true, if_false, not_true_eq_false, not_false_eq_true, reduceCtorEq] at hc
    obtain ⟨ho, hh, hsuf⟩ := chunkProps_ok hprops
    have ho1 : s1.out = s0.out := resetState_out s0 isReset
    have hu1 : u1 < 256 := hb u1 (by simp)
    have hu2 : u2 < 256 := hb u2 (by simp)
    have hunc : unc ≤ 2 ^ 21 := by
      show ctl % 32 * 65536 + be16 u1 u2 + 1 ≤ 2 ^ 21
      unfold be16; omega
    have hlen1 : (b0 :: bs).length ≤ inp1.length := by
      rcases hsuf with h | ⟨x, h⟩
      · exact Nat.le_of_eq (by rw [h])
      · rw [h]; simp
    have hmem1 : ∀ x ∈ (b0 :: bs), x ∈ inp1 := by
      intro x hx
      rcases hsuf with h | ⟨y, h⟩
      · rw [← h]; exact hx
      · rw [h]; exact List.mem_cons_of_mem _ hx
    have hlen2 : inp2.length ≤ (b0 :: bs).length := by
      show (List.drop comp (b0 :: bs)).length ≤ _
      rw [List.length_drop]; omega
    have hb2 : ∀ x ∈ inp2, x < 256 := by
      intro x hx
      have : x ∈ (b0 :: bs) := List.mem_of_mem_drop hx
      exact hb x (by simp only [List.mem_cons]; right; right; right; right; right; exact hmem1 x this)
    have hloop := loop_symbols_le_bytes s2.params s2.dictBuf (unc + 1) (some unc) s2.coder s2.hist s2.probs d0
    simp only [] at hloop
    rw [hdec] at hloop
    simp only [] at hloop
    obtain ⟨_, _, hhist, hrem, _⟩ := hloop
    have hem : r.emitted = unc := (hrem unc rfl).2 hstop
    have hnb : newBytes.size = unc := by
      show (r.hist.extract s2.hist.size r.hist.size).size = unc
      rw [Array.size_extract]; omega
    obtain ⟨outSize, unc', h1, h2, h3⟩ := ih hb2 (by simp only [List.length_cons] at hf hlen1 hlen2; omega) hc
    simp only [Array.size_append, hnb] at h1 h2
    refine ⟨outSize, unc', ?_, ?_, h3⟩
    · rw [ho, ho1] at h1; omega
    · rw [ho, ho1] at h2
      simp only [List.length_cons] at hlen1 hlen2 ⊢
      omega
  case case15 =>
    rename_i fuel s0 cap ctl hctl isReset hreset s1 h128 u1 u2 c1 c2 inp1 unc comp s2 props hcomp b0 bs hb0 d0 hcap r probs d hdec hstop hprops hlen body hinit
    intro _ _ _
    exfalso
    have := loop_no_fuel_stop s2.params s2.dictBuf unc (unc + 1) (Nat.lt_succ_self _) s2.coder s2.hist [] 0 s2.probs d0
    rw [hdec] at this
    exact this hstop
  case case20 =>
    rename_i fuel s0 cap ctl hctl isReset hreset s1 h128 h2 u1 u2 inp1 unc hlen hcap
    intro hb hf _
    have ho1 : s1.out = s0.out := resetState_out s0 isReset
    refine ⟨s0.out.size, unc, Nat.le_refl _, ?_, ?_⟩
    · simp only [List.length_cons]; omega
    · rw [ho1] at hcap; omega
  case case21 =>
    rename_i fuel s0 cap ctl hctl isReset hreset s1 h128 h2 u1 u2 inp1 unc hlen hcap raw ch ih
    intro hb hf hc
    have ho1 : s1.out = s0.out := resetState_out s0 isReset
    have hb2 : ∀ x ∈ List.drop unc inp1, x < 256 := by
      intro x hx
      exact hb x (by simp only [List.mem_cons]; right; right; right; exact List.mem_of_mem_drop hx)
    have hrl : raw.length = unc := by
      show (List.take unc inp1).length = unc
      rw [List.length_take]; omega
    obtain ⟨outSize, unc', h1, h2', h3⟩ := ih hb2 (by simp only [List.length_cons, List.length_drop] at hf ⊢; omega) hc
    simp only [pushAll_size, hrl, List.length_drop] at h1 h2'
    refine ⟨outSize, unc', ?_, ?_, h3⟩
    · rw [ho1] at h1; omega
    · rw [ho1] at h2'
      simp only [List.length_cons]
      have : unc ≤ 2 ^ 21 * unc := by omega
      have : 2 ^ 21 * (inp1.length - unc) + 2 ^ 21 * unc = 2 ^ 21 * inp1.length := by
        rw [← Nat.mul_add]; congr 1; omega
      omega

end ChunkCapPart

section ChunkFuelPart
open LzmaVerif Lzma Prog Rc Lzma2

theorem chunkLoop_fuel_indep_aux (fuel : Nat) (s : RState) (inp : List Nat) (cap : Nat) :
    ∀ fuel', inp.length < fuel → inp.length < fuel' → chunkLoop fuel s inp cap = chunkLoop fuel' s inp cap := by
  fun_induction chunkLoop fuel s inp cap
  case case1 => intro _ hf _; omega
  all_goals intro fuel' hf hf'
  all_goals (obtain ⟨f', rfl⟩ : ∃ k, fuel' = k + 1 := ⟨fuel' - 1, by omega⟩)
  all_goals rw [chunkLoop]
  all_goals try (simp (config := {zetaDelta := true}) only [*, if_true, if_false, not_true_eq_false, not_false_eq_true, reduceCtorEq]; done)
  all_goals try (simp (config := {zetaDelta := true}) [*]; done)
  case case13 =>
    rename_i fuel s0 cap ctl hctl isReset hreset s1 h128 u1 u2 c1 c2 inp1 unc comp s2 props hcomp b0 bs hb0 d0 hcap r probs d hdec dn hstop hfin newBytes ch hprops hlen body inp2 hinit ih
    have hsuf := (chunkProps_ok hprops).2.2
    have hlen1 : (b0 :: bs).length ≤ inp1.length := by
      rcases hsuf with h | ⟨x, h⟩
      · exact Nat.le_of_eq (by rw [h])
      · rw [h]; simp
    have hlen2 : inp2.length ≤ (b0 :: bs).length := by
      show (List.drop comp (b0 :: bs)).length ≤ _
      rw [List.length_drop]; omega
    have key := ih f' (by simp only [List.length_cons] at hf hlen1 hlen2; omega)
      (by simp only [List.length_cons] at hf' hlen1 hlen2; omega)
    clear hlen1 hlen2 hsuf
    simp (config := {zetaDelta := true}) only [*, if_true, if_false, not_true_eq_false, not_false_eq_true, reduceCtorEq]
  case case21 =>
    rename_i fuel s0 cap ctl hctl isReset hreset s1 h128 h2 u1 u2 inp1 unc hlen hcap raw ch ih
    have key := ih f' (by simp only [List.length_cons, List.length_drop] at hf ⊢; omega)
      (by simp only [List.length_cons, List.length_drop] at hf' ⊢; omega)
    simp (config := {zetaDelta := true}) only [*, if_true, if_false, not_true_eq_false, not_false_eq_true, reduceCtorEq]


/-- **P2 (LZMA2 chunk loop, fuel).**  Every chunk consumes at least its control byte, so the loop never needs
more fuel than there are input bytes: all amounts of fuel above `|inp|` give the same result. -/
theorem chunkLoop_fuel_indep (fuel fuel' : Nat) (s : RState) (inp : List Nat) (cap : Nat)
    (h : inp.length < fuel) (h' : inp.length < fuel') : chunkLoop fuel s inp cap = chunkLoop fuel' s inp cap :=
  chunkLoop_fuel_indep_aux fuel s inp cap fuel' h h'

end ChunkFuelPart

section RawLzipPart
open LzmaVerif Lzma Prog Rc LzipFile Checks

/-! # P2 — raw LZMA stream: `.capped` means the cap was exceeded -/

/-- the run of the symbol loop that `decodeRaw` performs when no size is declared -/
def rawRun (pr : Params) (dictBuf : Nat) (preset : Array Nat) (cap : Nat) (d0 : Dec) : LoopRes :=
  ((loopProg pr dictBuf (cap + 1) none Coder.init (presetUsedOf preset dictBuf) [] 0).decRun
    (Array.replicate (numProbs pr.lc pr.lp) PROB_INIT) d0).1

/-- `rawFinish` answers `.capped` only for the model's own stop reason -/
theorem rawFinish_capped {presetSize : Nat} {size : Option Nat} {len : Nat} {r : LoopRes} {d : Dec}
    (h : rawFinish presetSize size len r d = .capped) : r.stop = .fuel := by
  unfold rawFinish at h
  rcases r with ⟨stop, coder, hist, parse, em⟩
  cases stop <;> simp only [Stop.isRepeatErr, Bool.false_eq_true, if_false, if_true] at h
  · split at h <;> cases h
  · split at h
    · cases h
    · cases size with
      | some n => cases h
      | none => simp only at h; split at h <;> cases h
  · split at h <;> cases h
  · split at h <;> cases h
  · rfl

/-- **P2 (LZMA).**  `decodeRaw` answers `.capped` only when no size is declared, and then the symbol loop
really produced MORE than `cap` bytes; with a declared size it never answers `.capped`: the model's fuel
(`n + 1` symbols for `n` bytes) cannot run out. -/
theorem decodeRaw_capped (pr : Params) (dictBuf : Nat) (preset : Array Nat) (size : Option Nat)
    (input : List Nat) (cap : Nat) (h : decodeRaw pr dictBuf preset size input cap = .capped) :
    size = none ∧ ∃ d0, Dec.init input = some d0 ∧ (rawRun pr dictBuf preset cap d0).stop = .fuel ∧
      cap < (rawRun pr dictBuf preset cap d0).emitted ∧
      (rawRun pr dictBuf preset cap d0).hist.size =
        (presetUsedOf preset dictBuf).size + (rawRun pr dictBuf preset cap d0).emitted := by
  unfold decodeRaw at h
  split at h
  · cases h
  · rename_i b0 tl
    split at h
    · cases h
    · split at h
      · cases h
      · rename_i d0 hinit
        simp only [] at h
        have hstop := rawFinish_capped h
        cases size with
        | some n =>
          exfalso
          exact loop_no_fuel_stop pr dictBuf n (n + 1) (Nat.lt_succ_self _) _ _ _ _ _ _ hstop
        | none =>
          have := loop_fuel_means_cap pr dictBuf cap Coder.init (presetUsedOf preset dictBuf)
            (Array.replicate (numProbs pr.lc pr.lp) PROB_INIT) d0
          simp only [] at this
          exact ⟨rfl, d0, hinit, hstop, (this hstop).1, (this hstop).2⟩

theorem decodeRaw_sized_not_capped (pr : Params) (dictBuf : Nat) (preset : Array Nat) (n : Nat)
    (input : List Nat) (cap : Nat) : decodeRaw pr dictBuf preset (some n) input cap ≠ .capped := by
  intro h
  have := (decodeRaw_capped pr dictBuf preset (some n) input cap h).1
  cases this

/-! # P2 — LZIP member loop -/

theorem afterMagic_congr (f f' : Nat) (inp1 : List Nat) (total : Nat) (acc : List Nat) (n : List Member) (cap : Nat)
    (hk : ∀ (inp' : List Nat) (acc' : List Nat) (n' : List Member), inp'.length + 22 ≤ inp1.length →
      members f false inp' total acc' n' cap = members f' false inp' total acc' n' cap) :
    afterMagic f inp1 total acc n cap = afterMagic f' inp1 total acc n cap := by
  unfold afterMagic
  split
  · rfl
  · split
    · rfl
    · split
      · rfl
      · split
        · rfl
        · simp only []
          split
          · rfl
          · rfl
          · split
            · rfl
            · split
              · rfl
              · split
                · rfl
                · split
                  · rfl
                  · apply hk
                    simp only [List.length_drop, List.length_cons] at *
                    omega

/-- **P2 (LZIP, fuel).**  Every member consumes at least 26 bytes, so more fuel than input bytes is never used up -/
theorem members_fuel_indep : ∀ (fuel fuel' : Nat) (first : Bool) (inp : List Nat) (total : Nat) (acc : List Nat)
    (n : List Member) (cap : Nat), inp.length < fuel → inp.length < fuel' →
    members fuel first inp total acc n cap = members fuel' first inp total acc n cap := by
  intro fuel
  induction fuel with
  | zero => intro _ _ _ _ _ _ _ h; omega
  | succ f ih =>
    intro fuel' first inp total acc n cap h1 h2
    cases fuel' with
    | zero => omega
    | succ f' =>
      rw [members_succ, members_succ]
      split
      · rfl
      · split
        · rfl
        · apply afterMagic_congr
          intro inp' acc' n' hl
          simp only [List.length_drop] at hl
          exact ih f' false inp' total acc' n' cap (by omega) (by omega)

/-- every accepted member accounts for at least 26 input bytes: `|members found| ≤ |inp| / 26` -/
theorem members_count : ∀ (fuel : Nat) (first : Bool) (inp : List Nat) (total : Nat) (acc : List Nat)
    (n : List Member) (cap : Nat) (data : List Nat) (consumed : Nat) (recs : List Member),
    members fuel first inp total acc n cap = .ok data consumed recs →
    n.length ≤ recs.length ∧ 26 * (recs.length - n.length) ≤ inp.length := by
  intro fuel
  induction fuel with
  | zero => intro _ _ _ _ _ _ _ _ _ h; cases h
  | succ f ih =>
    intro first inp total acc n cap data consumed recs h
    rw [members_succ] at h
    split at h
    · cases h; simp
    · split at h
      · split at h
        · cases h
        · split at h
          · cases h
          · cases h; simp
      · rename_i hne hmagic
        obtain ⟨db, inp3, dict, out, c, parse, hinp1, _, _, h20, _, _, _, hrec⟩ := afterMagic_ok h
        obtain ⟨g1, g2⟩ := ih _ _ _ _ _ _ _ _ _ hrec
        simp only [List.length_cons, List.length_drop] at g1 g2 h20
        have : (inp.drop 4).length = inp3.length + 2 := by rw [hinp1]; simp
        simp only [List.length_drop] at this
        constructor <;> omega

theorem afterMagic_capped {fuel : Nat} {inp1 : List Nat} {total : Nat} {acc : List Nat} {n : List Member} {cap : Nat}
    (h : afterMagic fuel inp1 total acc n cap = .capped) :
    (∃ dictBuf inp3, decodeRaw lzipParams dictBuf #[] none inp3 (cap - acc.length) = .capped) ∨
    (∃ inp' acc' n', inp'.length + 22 ≤ inp1.length ∧ acc.length ≤ acc'.length ∧
      members fuel false inp' total acc' n' cap = .capped) := by
  unfold afterMagic at h
  split at h
  · cases h
  · split at h
    · cases h
    · split at h
      · cases h
      · split at h
        · cases h
        · simp only [] at h
          split at h
          · rename_i hdec
            exact Or.inl ⟨_, _, hdec⟩
          · cases h
          · split at h
            · cases h
            · split at h
              · cases h
              · split at h
                · cases h
                · split at h
                  · cases h
                  · refine Or.inr ⟨_, _, _, ?_, ?_, h⟩
                    · simp only [List.length_drop, List.length_cons] at *
                      omega
                    · simp

/-- **P2 (LZIP, cap).**  With the fuel `decode` passes, `.capped` is never fuel exhaustion: some member's raw
LZMA stream, started with `acc'` bytes already produced, itself answered `.capped`, i.e. (by `decodeRaw_capped`)
produced more than `cap - |acc'|` further bytes. -/
theorem members_capped : ∀ (fuel : Nat) (first : Bool) (inp : List Nat) (total : Nat) (acc : List Nat)
    (n : List Member) (cap : Nat), inp.length < fuel → members fuel first inp total acc n cap = .capped →
    ∃ (acc' : List Nat) (dictBuf : Nat) (inp3 : List Nat), acc.length ≤ acc'.length ∧
      decodeRaw lzipParams dictBuf #[] none inp3 (cap - acc'.length) = .capped := by
  intro fuel
  induction fuel with
  | zero => intro _ _ _ _ _ _ h; omega
  | succ f ih =>
    intro first inp total acc n cap hf h
    rw [members_succ] at h
    split at h
    · cases h
    · split at h
      · split at h
        · cases h
        · split at h <;> cases h
      · rcases afterMagic_capped h with ⟨dictBuf, inp3, hd⟩ | ⟨inp', acc', n', hl, hacc, hm⟩
        · exact ⟨acc, dictBuf, inp3, Nat.le_refl _, hd⟩
        · simp only [List.length_drop] at hl
          obtain ⟨acc'', dictBuf, inp3, h1, h2⟩ := ih false inp' total acc' n' cap (by omega) hm
          exact ⟨acc'', dictBuf, inp3, by omega, h2⟩

theorem lzip_decode_capped (inp : List Nat) (cap : Nat) (h : LzipFile.decode inp cap = .capped) :
    ∃ (acc' : List Nat) (dictBuf : Nat) (inp3 : List Nat) (d0 : Dec), Dec.init inp3 = some d0 ∧
      cap < acc'.length + (rawRun lzipParams dictBuf #[] (cap - acc'.length) d0).emitted := by
  obtain ⟨acc', dictBuf, inp3, _, hd⟩ := members_capped _ _ _ _ _ _ _ (by omega) h
  obtain ⟨_, d0, hinit, _, hcap, _⟩ := decodeRaw_capped _ _ _ _ _ _ hd
  exact ⟨acc', dictBuf, inp3, d0, hinit, by omega⟩

theorem decode_members_count (inp : List Nat) (cap : Nat) (data : List Nat) (consumed : Nat) (recs : List Member)
    (h : LzipFile.decode inp cap = .ok data consumed recs) : 26 * recs.length ≤ inp.length := by
  have := (members_count _ _ _ _ _ _ _ _ _ _ h).2
  simpa using this

end RawLzipPart

section XzStreamsPart
open LzmaVerif Xz Checks

/-! # P2 — XZ container loops -/

theorem takeN_length {n : Nat} {inp a b : List Nat} (h : takeN n inp = .ok (a, b)) : b.length + n = inp.length := by
  obtain ⟨e, l⟩ := takeN_ok h
  rw [e, List.length_append]; omega

/-- stream padding: one byte per step, so `|inp| + 1` units of fuel are never used up
    (fuel 0 would be reported as `invalidData`, indistinguishable from a real error) -/
theorem nextStream_fuel_indep : ∀ (fuel fuel' : Nat) (inp : List Nat) (zeros : Nat), inp.length < fuel → inp.length < fuel' →
    nextStream fuel inp zeros = nextStream fuel' inp zeros := by
  intro fuel
  induction fuel with
  | zero => intro _ _ _ h; omega
  | succ f ih =>
    intro fuel' inp zeros h1 h2
    cases fuel' with
    | zero => omega
    | succ f' =>
      cases inp with
      | nil => rw [nextStream, nextStream]
      | cons b rest =>
        rw [nextStream, nextStream]
        by_cases hb : b = 0
        · rw [if_pos hb, if_pos hb]
          exact ih f' rest (zeros + 1) (by simp only [List.length_cons] at h1; omega) (by simp only [List.length_cons] at h2; omega)
        · rw [if_neg hb, if_neg hb]

theorem parseFlags_length {inp rest : List Nat} {c : Check} (h : parseFlags inp = .ok (c, rest)) :
    rest.length + 6 = inp.length := by
  unfold parseFlags at h
  simp only [bind, Except.bind] at h
  split at h
  · cases h
  · rename_i p1 h1
    have l1 := takeN_length h1
    split at h
    · cases h
    · split at h
      · cases h
      · split at h
        · cases h
        · rename_i p2 h2
          have l2 := takeN_length h2
          split at h
          · cases h
          · simp only [pure, Except.pure, Except.ok.injEq, Prod.mk.injEq] at h
            obtain ⟨_, rfl⟩ := h
            omega

theorem nextStream_some_length : ∀ (fuel : Nat) (inp : List Nat) (zeros : Nat) (c : Check) (rest : List Nat),
    nextStream fuel inp zeros = .ok (some (c, rest)) → rest.length + 12 ≤ inp.length := by
  intro fuel
  induction fuel with
  | zero => intro inp zeros c rest h; rw [nextStream] at h; cases h
  | succ f ih =>
    intro inp zeros c rest h
    cases inp with
    | nil =>
      rw [nextStream] at h
      split at h <;> cases h
    | cons b tl =>
      rw [nextStream] at h
      split at h
      · have := ih _ _ _ _ h
        simp only [List.length_cons]; omega
      · split at h
        · cases h
        · simp only [bind, Except.bind] at h
          split at h
          · cases h
          · split at h
            · cases h
            · split at h
              · cases h
              · split at h
                · cases h
                · rename_i p hp
                  simp only [pure, Except.pure, Except.ok.injEq, Option.some.injEq] at h
                  have := parseFlags_length (c := p.1) (rest := p.2) (by rw [hp])
                  have h2 : p.2 = rest := (Prod.mk.inj h).2
                  rw [h2] at this
                  simp only [List.length_drop] at this
                  omega

end XzStreamsPart

section XzBlocksPart
open LzmaVerif Xz Checks

theorem parseBlockHeader_length {inp inp' : List Nat} {o : Option BlockHeader}
    (h : parseBlockHeader inp = .ok (o, inp')) :
    inp'.length < inp.length ∧ (o.isSome → inp'.length + 8 ≤ inp.length) := by
  unfold parseBlockHeader at h
  cases inp with
  | nil => cases h
  | cons sz inp0 =>
    simp only [] at h
    by_cases hsz : sz = 0
    · rw [if_pos hsz] at h
      cases h
      exact ⟨by simp, by simp⟩
    · rw [if_neg hsz] at h
      simp only [bind, Except.bind] at h
      cases htk : takeN ((sz + 1) * 4 - 1) inp0 with
      | error e => rw [htk] at h; cases h
      | ok p =>
        obtain ⟨hd, inp1⟩ := p
        have hl := takeN_length htk
        rw [htk] at h
        simp only [] at h
        have key : inp' = inp1 := by
          repeat' (split at h)
          all_goals first | (cases h; done) | (simp only [pure, Except.pure, Except.ok.injEq, Prod.mk.injEq] at h; exact h.2.symm)
        subst key
        simp only [List.length_cons]
        constructor
        · omega
        · intro _; omega


theorem decodeBlockBody_length {chk : Check} {h : BlockHeader} {cb : Nat} {inp : List Nat} {cap : Nat} {blk : Block}
    {rest : List Nat} (hb : decodeBlockBody chk h cb inp cap = .ok blk rest) : rest.length ≤ inp.length := by
  unfold decodeBlockBody at hb
  split at hb
  · cases hb
  · split at hb
    · cases hb
    · cases hb
    · simp only [] at hb
      split at hb
      · cases hb
      · rename_i p1 r1 h1
        have l1 := takeN_length h1
        split at hb
        · cases hb
        · split at hb
          · cases hb
          · rename_i p2 r2 h2
            have l2 := takeN_length h2
            split at hb
            · cases hb
            · split at hb
              · cases hb
              · split at hb
                · cases hb
                · cases hb
                  simp only [List.length_drop] at l1
                  omega

theorem parseFooter_length {inp rest flags : List Nat} {bs : Nat} (h : parseFooter inp = .ok (bs, flags, rest)) :
    rest.length + 12 = inp.length := by
  unfold parseFooter at h
  simp only [bind, Except.bind] at h
  split at h
  · cases h
  · rename_i p1 h1
    have l1 := takeN_length h1
    split at h
    · cases h
    · rename_i p2 h2
      have l2 := takeN_length h2
      split at h
      · cases h
      · rename_i p3 h3
        have l3 := takeN_length h3
        split at h
        · cases h
        · split at h
          · cases h
          · rename_i p4 h4
            have l4 := takeN_length h4
            split at h
            · cases h
            · simp only [pure, Except.pure, Except.ok.injEq, Prod.mk.injEq] at h
              obtain ⟨_, _, rfl⟩ := h
              omega

/-- **P2 (XZ, fuel).**  Every iteration of the block/stream loop consumes input (a block: ≥ 8 header bytes;
an index + footer + next stream header: ≥ 29 bytes), so `|inp| + 1` units of fuel are never used up and the
result does not depend on the fuel beyond that. -/
theorem readBlocks_fuel_indep (multi : Bool) (total : Nat) : ∀ (fuel fuel' : Nat) (chk : Check) (inp acc : List Nat)
    (blks : List Block) (cap : Nat), inp.length < fuel → inp.length < fuel' →
    readBlocks multi total fuel chk inp acc blks cap = readBlocks multi total fuel' chk inp acc blks cap := by
  intro fuel
  induction fuel with
  | zero => intro _ _ _ _ _ _ h; omega
  | succ f ih =>
    intro fuel' chk inp acc blks cap h1 h2
    cases fuel' with
    | zero => omega
    | succ f' =>
      rw [readBlocks, readBlocks]
      split
      · rfl
      · rename_i hd inp' hp
        have l1 := (parseBlockHeader_length hp).1
        split
        · rfl
        · rfl
        · rename_i blk rest hb
          have l2 := decodeBlockBody_length hb
          split
          · rfl
          · exact ih _ _ _ _ _ _ (by omega) (by omega)
      · rename_i inp' hp
        have l1 := (parseBlockHeader_length hp).1
        split
        · rfl
        · rename_i recs isize inp'' hi
          have l2 := (parseIndex_count hi).2
          split
          · rfl
          · split
            · rfl
            · split
              · rfl
              · rename_i bs flags rest hf
                have l3 := parseFooter_length hf
                split
                · rfl
                · split
                  · rfl
                  · split
                    · rfl
                    · split
                      · rfl
                      · rfl
                      · rename_i chk' rest' hn
                        have l4 := nextStream_some_length _ _ _ _ _ hn
                        exact ih _ _ _ _ _ _ (by omega) (by omega)

/-- **P2 (XZ, cap).**  With more fuel than input bytes, `.capped` is never fuel exhaustion: either some block
body answered `.capped` itself, or a decoded block would push the output beyond `cap`. -/
theorem readBlocks_capped (multi : Bool) (total : Nat) : ∀ (fuel : Nat) (chk : Check) (inp acc : List Nat)
    (blks : List Block) (cap : Nat), inp.length < fuel →
    readBlocks multi total fuel chk inp acc blks cap = .capped →
    ∃ (chk' : Check) (h : BlockHeader) (cb : Nat) (inp' acc' : List Nat), acc.length ≤ acc'.length ∧
      (decodeBlockBody chk' h cb inp' cap = .capped ∨
       ∃ blk rest, decodeBlockBody chk' h cb inp' cap = .ok blk rest ∧ acc'.length + blk.data.length > cap) := by
  intro fuel
  induction fuel with
  | zero => intro _ _ _ _ _ h; omega
  | succ f ih =>
    intro chk inp acc blks cap h1 h
    rw [readBlocks] at h
    split at h
    · cases h
    · rename_i hd inp' hp
      have l1 := (parseBlockHeader_length hp).1
      split at h
      · rename_i hb
        exact ⟨chk, hd, _, inp', acc, Nat.le_refl _, Or.inl hb⟩
      · cases h
      · rename_i blk rest hb
        have l2 := decodeBlockBody_length hb
        split at h
        · rename_i hc
          exact ⟨chk, hd, _, inp', acc, Nat.le_refl _, Or.inr ⟨blk, rest, hb, hc⟩⟩
        · obtain ⟨chk', h', cb, inp'', acc', ha, hr⟩ := ih _ _ _ _ _ (by omega) h
          exact ⟨chk', h', cb, inp'', acc', by simp only [List.length_append] at ha; omega, hr⟩
    · rename_i inp' hp
      have l1 := (parseBlockHeader_length hp).1
      split at h
      · cases h
      · rename_i recs isize inp'' hi
        have l2 := (parseIndex_count hi).2
        split at h
        · cases h
        · split at h
          · cases h
          · split at h
            · cases h
            · rename_i bs flags rest hf
              have l3 := parseFooter_length hf
              split at h
              · cases h
              · split at h
                · cases h
                · split at h
                  · cases h
                  · split at h
                    · cases h
                    · cases h
                    · rename_i chk' rest' hn
                      have l4 := nextStream_some_length _ _ _ _ _ hn
                      exact ih _ _ _ _ _ (by omega) h

/-- number of blocks of the (last) stream: each block header alone takes 8 bytes -/
theorem readBlocks_block_count (multi : Bool) (total : Nat) : ∀ (fuel : Nat) (chk : Check) (inp acc : List Nat)
    (blks : List Block) (cap : Nat) (data : List Nat) (consumed : Nat) (blks' : List Block),
    readBlocks multi total fuel chk inp acc blks cap = .ok data consumed blks' →
    8 * blks'.length ≤ inp.length + 8 * blks.length := by
  intro fuel
  induction fuel with
  | zero => intro _ _ _ _ _ _ _ _ h; rw [readBlocks] at h; cases h
  | succ f ih =>
    intro chk inp acc blks cap data consumed blks' h
    rw [readBlocks] at h
    split at h
    · cases h
    · rename_i hd inp' hp
      have l1 := (parseBlockHeader_length hp).2 rfl
      split at h
      · cases h
      · cases h
      · rename_i blk rest hb
        have l2 := decodeBlockBody_length hb
        split at h
        · cases h
        · have := ih _ _ _ _ _ _ _ _ h
          simp only [List.length_cons] at this
          omega
    · rename_i inp' hp
      have l1 := (parseBlockHeader_length hp).1
      split at h
      · cases h
      · rename_i recs isize inp'' hi
        have l2 := (parseIndex_count hi).2
        split at h
        · cases h
        · split at h
          · cases h
          · split at h
            · cases h
            · rename_i bs flags rest hf
              have l3 := parseFooter_length hf
              split at h
              · cases h
              · split at h
                · cases h
                · split at h
                  · cases h; omega
                  · split at h
                    · cases h
                    · cases h; omega
                    · rename_i chk' rest' hn
                      have l4 := nextStream_some_length _ _ _ _ _ hn
                      have := ih _ _ _ _ _ _ _ _ h
                      simp only [List.length_nil] at this
                      omega

/-- the top-level `decode` with any fuel above the input length -/
theorem xz_decode_fuel_indep (multi : Bool) (inp : List Nat) (cap : Nat) (fuel : Nat) (hf : inp.length < fuel) :
    Xz.decode multi inp cap =
      match parseStreamHeader inp with
      | .error e => .err e
      | .ok (chk, rest) => readBlocks multi inp.length fuel chk rest [] [] cap := by
  unfold Xz.decode
  cases hs : parseStreamHeader inp with
  | error e => rfl
  | ok p =>
    obtain ⟨chk, rest⟩ := p
    simp only []
    have : rest.length ≤ inp.length := by
      unfold parseStreamHeader at hs
      simp only [bind, Except.bind] at hs
      split at hs
      · cases hs
      · rename_i p1 h1
        have l1 := takeN_length h1
        split at hs
        · cases hs
        · have := parseFlags_length hs
          omega
    exact readBlocks_fuel_indep multi inp.length (inp.length + 2) fuel chk rest [] [] cap (by omega) (by omega)

end XzBlocksPart

section ExamplesPart
section Lzma2Top
open LzmaVerif Lzma Prog Rc Lzma2

/-- **P2 (LZMA2, top level).**  `Lzma2.decode` passes fuel `|input| + 1`; any larger amount gives the same loop result. -/
theorem lzma2_decode_fuel_indep (dict : Nat) (preset : Array Nat) (input : List Nat) (cap fuel : Nat)
    (hf : input.length < fuel) :
    chunkLoop fuel (initState dict preset) input cap = chunkLoop (input.length + 1) (initState dict preset) input cap :=
  chunkLoop_fuel_indep _ _ _ _ _ hf (Nat.lt_succ_self _)

/-- **P2 (LZMA2, cap).**  `Lzma2.decode … = .capped` is never fuel exhaustion: a cap check really fired, and that
can only happen below `2^21` output bytes per input byte. -/
theorem lzma2_decode_capped (dict : Nat) (preset : Array Nat) (input : List Nat) (cap : Nat)
    (hb : ∀ x ∈ input, x < 256) (h : Lzma2.decode dict preset input cap = .capped) :
    ∃ outSize unc, outSize + unc ≤ 2 ^ 21 * input.length ∧ cap < outSize + unc := by
  unfold Lzma2.decode at h
  cases hc : chunkLoop (input.length + 1) (initState dict preset) input cap with
  | ok s rest => rw [hc] at h; cases h
  | err e => rw [hc] at h; cases h
  | capped =>
    obtain ⟨o, u, _, h2, h3⟩ := chunkLoop_capped_aux _ _ _ _ hb (Nat.lt_succ_self _) hc
    have : (initState dict preset).out.size = 0 := rfl
    exact ⟨o, u, by omega, h3⟩

/-- a cap of `2^21 · |input|` is always enough: the model then gives a definite answer (`ok` or `err`) -/
theorem lzma2_decode_definite (dict : Nat) (preset : Array Nat) (input : List Nat) (cap : Nat)
    (hb : ∀ x ∈ input, x < 256) (hcap : 2 ^ 21 * input.length ≤ cap) :
    Lzma2.decode dict preset input cap ≠ .capped := by
  intro h
  obtain ⟨o, u, h1, h2⟩ := lzma2_decode_capped dict preset input cap hb h
  omega

def DecOut.isCapped : Lzma2.DecOut → Bool
  | .capped => true
  | _ => false

theorem DecOut.isCapped_spec {o : Lzma2.DecOut} (h : DecOut.isCapped o = true) : o = .capped := by
  cases o <;> first | rfl | cases h

/-- non-vacuity: the hypotheses of `lzma2_decode_capped` are met by a stored chunk and cap 0 -/
example : Lzma2.decode 4096 #[] [1, 0, 0, 65, 0] 0 = .capped := DecOut.isCapped_spec (by decide +kernel)
example : ∀ x ∈ [1, 0, 0, 65, 0], x < 256 := by decide
example : Lzma2.decode 4096 #[] [1, 0, 0, 65, 0] (2 ^ 21 * 5) ≠ .capped :=
  lzma2_decode_definite _ _ _ _ (by decide) (by decide)

end Lzma2Top

section RawEx
open LzmaVerif Lzma Prog Rc LzipFile

def LzmaDecOut.isCapped : Lzma.DecOut → Bool
  | .capped => true
  | _ => false

theorem LzmaDecOut.isCapped_spec {o : Lzma.DecOut} (h : LzmaDecOut.isCapped o = true) : o = .capped := by
  cases o <;> first | rfl | cases h

/-- non-vacuity of `decodeRaw_capped`: liblzma's stream for "Hi" with an output cap of one byte -/
theorem exLzma_capped : decodeRaw lzipParams 4096 #[] none exLzma 1 = .capped :=
  LzmaDecOut.isCapped_spec (by decide +kernel)

example : ∃ d0, Dec.init exLzma = some d0 ∧ 1 < (rawRun lzipParams 4096 #[] 1 d0).emitted := by
  obtain ⟨_, d0, h1, _, h2, _⟩ := decodeRaw_capped _ _ _ _ _ _ exLzma_capped
  exact ⟨d0, h1, h2⟩

def LzipOut.isCapped : LzipFile.Out → Bool
  | .capped => true
  | _ => false

theorem LzipOut.isCapped_spec {o : LzipFile.Out} (h : LzipOut.isCapped o = true) : o = .capped := by
  cases o <;> first | rfl | cases h

/-- non-vacuity of `members_capped` / `lzip_decode_capped` -/
example : LzipFile.decode exFile 3 = .capped := LzipOut.isCapped_spec (by decide +kernel)

end RawEx

section ScanEx
open LzmaVerif Guards

/-- a 26-byte "member": magic, version, dictionary byte, and a trailer whose `member_size` field says 26 -/
def exMember : List Nat := [76, 90, 73, 80, 1, 12] ++ [0, 0, 0, 0] ++ [0, 0, 0, 0, 0, 0, 0, 0] ++ [26, 0, 0, 0, 0, 0, 0, 0]

def ScanRes.isOk : Except ScanErr (List Member) → List Member → Bool
  | .ok ms, ms' => ms == ms'
  | _, _ => false

theorem ScanRes.isOk_spec {r : Except ScanErr (List Member)} {ms : List Member} (h : ScanRes.isOk r ms = true) :
    r = .ok ms := by
  cases r with
  | error e => cases h
  | ok ms' => simp only [ScanRes.isOk, beq_iff_eq] at h; rw [h]

/-- non-vacuity of G5: two members -/
theorem exScan : scanFile (exMember ++ exMember) = .ok [⟨0, 26⟩, ⟨26, 26⟩] :=
  ScanRes.isOk_spec (by decide +kernel)

example : ([⟨0, 26⟩, ⟨26, 26⟩] : List Member).length ≤ (exMember ++ exMember).length / 4 :=
  (scanMembers_count4 _ _ _ (magicOf_noOverlap _) exScan).2

/-- non-vacuity of G5f -/
example : Contig 4 0 [⟨0, 26⟩, ⟨26, 26⟩] (exMember ++ exMember).length := (scanFile_tiles _ exScan).2.1

/-- the repaired laxity: 3 bytes in front of the first member (the scan used to ignore them and answer
`.ok [⟨3, 26⟩, ⟨29, 26⟩]`), and a first member of which only the last 10 bytes are left -/
example : scanFile ([9, 9, 9] ++ exMember ++ exMember) = .error .leading := by decide +kernel
example : scanFile (exMember.drop 16 ++ exMember ++ exMember) = .error .leading := by decide +kernel

/-- …and a trailer announcing a member bigger than the file is an error, not a huge allocation -/
example : scanFile (exMember.take 18 ++ [255, 255, 255, 255, 255, 255, 255, 255]) = .error .badSize := by
  decide +kernel

end ScanEx

section IndexEx
open LzmaVerif Xz

/-- non-vacuity of P1 (rejection): the 13-byte index body announcing 2^63 − 1 records -/
theorem exHugeCount : mbReader [255, 255, 255, 255, 255, 255, 255, 255, 127, 0, 0, 0, 0] = .ok (2 ^ 63 - 1, [0, 0, 0, 0]) := by
  decide +kernel

example : ∃ e, parseIndex [255, 255, 255, 255, 255, 255, 255, 255, 127, 0, 0, 0, 0] = .error e :=
  parseIndex_rejects_big_count exHugeCount (by decide)

/-- non-vacuity of P1 (acceptance): the writer's index for two records is accepted, with exactly two records -/
example : ∃ inp1, mbReader ((indexBytes [(20, 7), (300, 100000)]).tail) = .ok (2, inp1) := by
  have hr : ∀ x ∈ [(20, 7), (300, 100000)], RecOk x := by
    intro x hx
    simp only [List.mem_cons, List.not_mem_nil, or_false] at hx
    rcases hx with rfl | rfl <;> (unfold RecOk; decide)
  have h := parseIndex_ok [(20, 7), (300, 100000)] (by decide) hr []
  rw [List.append_nil] at h
  obtain ⟨⟨inp1, h1, _⟩, _⟩ := parseIndex_count h
  exact ⟨inp1, h1⟩

end IndexEx

section XzEx
open LzmaVerif Xz

/-- a complete one-block XZ file (check = CRC32, LZMA2 with a stored chunk holding the byte 65) -/
def exXz : List Nat := streamBytes .crc32 [.lzma2 4096] [([1, 0, 0, 65, 0], [65])]

def XzOut.isCapped : Xz.Out → Bool
  | .capped => true
  | _ => false

def XzOut.isOkWith : Xz.Out → List Nat → Nat → Bool
  | .ok d _ blks, d', n => d == d' && blks.length == n
  | _, _, _ => false

theorem XzOut.isCapped_spec {o : Xz.Out} (h : XzOut.isCapped o = true) : o = .capped := by
  cases o <;> first | rfl | cases h

/-- non-vacuity of `readBlocks_capped` (through `xz_decode_fuel_indep`): cap 0 on a file holding one byte -/
example : Xz.decode true exXz 0 = .capped := XzOut.isCapped_spec (by decide +kernel)

/-- non-vacuity of `readBlocks_block_count`: the same file decodes to one block with a sufficient cap,
    also when it is followed by stream padding and a second copy (two streams) -/
example : XzOut.isOkWith (Xz.decode false exXz 10) [65] 1 = true := by decide +kernel
example : XzOut.isOkWith (Xz.decode true (exXz ++ [0, 0, 0, 0] ++ exXz) 10) [65, 65] 1 = true := by decide +kernel

/-- non-vacuity of `nextStream_some_length` -/
example : (match nextStream 17 ([0, 0, 0, 0] ++ streamHeaderBytes .crc32) 0 with
    | .ok (some (c, r)) => c == Check.crc32 && r == []
    | _ => false) = true := by decide +kernel

end XzEx

section LzipEx
open LzmaVerif LzipFile

/-- non-vacuity of `members_count` / `decode_members_count`: two members in 79 bytes -/
example : ∃ recs, LzipFile.decode exFile 4 = .ok [72, 105, 72, 105] 79 recs ∧ 26 * recs.length ≤ exFile.length := by
  obtain ⟨recs, h⟩ := exFile_decodes
  exact ⟨recs, h, decode_members_count _ _ _ _ _ h⟩

end LzipEx

end ExamplesPart

#print axioms lzma2DictRound_total
#print axioms lzma2DictRound_eq
#print axioms lzma2DictRoundOld_overflows
#print axioms lzma2DictRoundBuggy_zero
#print axioms lzmaDictRound_spec
#print axioms lzmaDictBuf_idem
#print axioms lzmaDictBuf_mono
#print axioms construct2_cast_exact
#print axioms construct2Dict_total
#print axioms lzmaMemUsageByProps_total
#print axioms indexCapacity_le
#print axioms indexCapacity_le_count
#print axioms indexCapacityOld_overflows
#print axioms lzDecoderNew_total
#print axioms lzma2ReaderBuf_total
#print axioms lzmaReaderBuf_total
#print axioms lzResetIndex_total
#print axioms lzma2_dict0_reset_panicked
#print axioms lzma2_reset_ok
#print axioms lzSetLimit_total
#print axioms lzGetByteIndex_total
#print axioms lzmaChunkSize_total
#print axioms storedChunkSizeBuggy_overflows
#print axioms storedChunkSize_total
#print axioms rcPrepare_total
#print axioms lzmaChunkCompSize_fits
#print axioms blockHeaderSizes_total
#print axioms dictOfPropChecked_total
#print axioms pad4_total
#print axioms lzipMemberSize_total
#print axioms scanLoop_succ
#print axioms scanLoop_fuel_indep
#print axioms Contig.length_le
#print axioms Contig.inside
#print axioms Contig.pairwise
#print axioms Contig.sum_sizes
#print axioms scanLoop_spec
#print axioms scanMembers_total
#print axioms scanMembers_fuel_indep
#print axioms scanMembers_ok
#print axioms scanMembers_inside
#print axioms scanMembers_disjoint
#print axioms scanMembers_count
#print axioms scanLoop_spec4
#print axioms scanMembers_count4
#print axioms scanMembers_tiles4
#print axioms scanMembers_sum
#print axioms scanMembers_members
#print axioms scanFile_tiles
#print axioms scanLoop_leading
#print axioms lzip_magic_noOverlap_aux
#print axioms magicOf_noOverlap
#print axioms scanFile_total
#print axioms parseReaderAux_bounds
#print axioms mbReader_consumes
#print axioms parseRecords_count
#print axioms parseRecords_fuel_indep
#print axioms parseIndex_count
#print axioms parseIndex_rejects_big_count
#print axioms parseIndex_rejects_count_gt_length
#print axioms AllD.mono
#print axioms All.mono
#print axioms AllD.toAll
#print axioms AllD.bind
#print axioms All.bind
#print axioms All.decRun
#print axioms All.runBits
#print axioms bitTreeAux_allD
#print axioms bitTree_allD
#print axioms directBits_allD
#print axioms revTreeAux_allD
#print axioms revTree_allD
#print axioms lenProg_allD
#print axioms dist_bound_lo
#print axioms dist_bound_hi
#print axioms distProg_allD
#print axioms litPlain_allD
#print axioms litMatchedAux_allD
#print axioms litMatched_allD
#print axioms symProg_allD
#print axioms symProg_all
#print axioms AllD.runBits
#print axioms symBits_length_le
#print axioms LoopPost.step
#print axioms copyBody_all
#print axioms loopProg_all
#print axioms loop_symbols_le_bytes
#print axioms loop_no_fuel_stop
#print axioms loop_fuel_means_cap
#print axioms pushAll_size
#print axioms chunkProps_ok
#print axioms resetState_out
#print axioms chunkLoop_capped_aux
#print axioms chunkLoop_fuel_indep_aux
#print axioms chunkLoop_fuel_indep
#print axioms decodeRaw_capped
#print axioms decodeRaw_sized_not_capped
#print axioms afterMagic_congr
#print axioms members_fuel_indep
#print axioms members_count
#print axioms afterMagic_capped
#print axioms members_capped
#print axioms lzip_decode_capped
#print axioms decode_members_count
#print axioms takeN_length
#print axioms nextStream_fuel_indep
#print axioms parseFlags_length
#print axioms nextStream_some_length
#print axioms parseBlockHeader_length
#print axioms decodeBlockBody_length
#print axioms parseFooter_length
#print axioms readBlocks_fuel_indep
#print axioms readBlocks_capped
#print axioms readBlocks_block_count
#print axioms xz_decode_fuel_indep
#print axioms lzma2_decode_fuel_indep
#print axioms lzma2_decode_capped
#print axioms lzma2_decode_definite
#print axioms DecOut.isCapped_spec
#print axioms LzmaDecOut.isCapped_spec
#print axioms exLzma_capped
#print axioms LzipOut.isCapped_spec
#print axioms ScanRes.isOk_spec
#print axioms exScan
#print axioms exHugeCount
#print axioms XzOut.isCapped_spec

end LzmaVerif.Total
