import LzmaVerif.Proofs.FiltersBase
import LzmaVerif.Proofs.FiltersBits
/-! ARM Thumb BCJ filter: decoding inverts encoding. Core Lean only. -/
namespace LzmaVerif.Filters
open LzmaVerif.Bits


def thumbRec (b1 b3 : Nat) : Prop := b3 &&& 0xF8 = 0xF8 ∧ b1 &&& 0xF8 = 0xF0
instance (b1 b3 : Nat) : Decidable (thumbRec b1 b3) :=
  inferInstanceAs (Decidable (b3 &&& 0xF8 = 0xF8 ∧ b1 &&& 0xF8 = 0xF0))

def thumbDest (enc : Bool) (p b0 b1 b2 b3 : Nat) : Nat :=
  let src := ((b1 &&& 7) <<< 19) ||| (b0 <<< 11) ||| ((b3 &&& 7) <<< 8) ||| b2
  let src := u32 (src * 2)
  (if enc then wadd src p else wsub src p) / 2

def thumbO1 (D : Nat) : Nat := 0xF0 ||| ((D >>> 19) &&& 7)
def thumbO3 (D : Nat) : Nat := 0xF8 ||| ((D >>> 8) &&& 7)

theorem thumbRec_iff (b1 b3 : Nat) : thumbRec b1 b3 ↔ (b3 / 8 % 32 * 8 = 0xF8 ∧ b1 / 8 % 32 * 8 = 0xF0) := by
  unfold thumbRec; rw [and_F8, and_F8]

theorem thumbSrc_eq (b0 b1 b2 b3 : Nat) (h0 : b0 < 256) (h2 : b2 < 256) :
    ((b1 &&& 7) <<< 19) ||| (b0 <<< 11) ||| ((b3 &&& 7) <<< 8) ||| b2
      = (b1 % 8) * 2 ^ 19 + b0 * 2 ^ 11 + (b3 % 8) * 2 ^ 8 + b2 := by
  rw [and_7, and_7, shl_eq, shl_eq, shl_eq]
  rw [or_disj (b1 % 8 * 2 ^ 19) (b0 * 2 ^ 11) 19 (by omega) (by omega),
    or_disj (b1 % 8 * 2 ^ 19 + b0 * 2 ^ 11) _ 11 (by omega) (by omega),
    or_disj _ _ 8 (by omega) (by omega)]

theorem thumbDest_eq (enc : Bool) (p b0 b1 b2 b3 : Nat) (h0 : b0 < 256) (h2 : b2 < 256) :
    thumbDest enc p b0 b1 b2 b3 =
      (if enc then (((b1 % 8) * 2 ^ 19 + b0 * 2 ^ 11 + (b3 % 8) * 2 ^ 8 + b2) * 2 % 2 ^ 32 + p) % 2 ^ 32
      else (((b1 % 8) * 2 ^ 19 + b0 * 2 ^ 11 + (b3 % 8) * 2 ^ 8 + b2) * 2 % 2 ^ 32 + 2 ^ 32 - p % 2 ^ 32) % 2 ^ 32) / 2 := by
  simp only [thumbDest]
  rw [thumbSrc_eq _ _ _ _ h0 h2]
  simp only [u32, wadd, wsub]

theorem thumbO1_eq (D : Nat) : thumbO1 D = 0xF0 + D / 2 ^ 19 % 8 := by
  unfold thumbO1
  rw [shr_eq, and_7, or_disj 0xF0 _ 3 (by omega) (by omega)]

theorem thumbO3_eq (D : Nat) : thumbO3 D = 0xF8 + D / 2 ^ 8 % 8 := by
  unfold thumbO3
  rw [shr_eq, and_7, or_disj 0xF8 _ 3 (by omega) (by omega)]

theorem thumb_k1 (S p D : Nat) (hS : S < 2 ^ 22) (hp : p % 2 = 0) (_hp2 : p < 2 ^ 32)
    (hD : D = (S * 2 % 2 ^ 32 + p) % 2 ^ 32 / 2) : D % 2 ^ 22 = (S + p / 2) % 2 ^ 22 := by
  omega

theorem thumb_k2 (S p D : Nat) (_hS : S < 2 ^ 22) (hp : p % 2 = 0) (_hp2 : p < 2 ^ 32)
    (hD : D = (S * 2 % 2 ^ 32 + 2 ^ 32 - p % 2 ^ 32) % 2 ^ 32 / 2) : (D + p / 2) % 2 ^ 22 = S % 2 ^ 22 := by
  omega

theorem thumb_fields (D c0 c1 c2 c3 : Nat)
    (hc1 : c1 = (0xF0 + D / 2 ^ 19 % 8) % 256) (hc0 : c0 = D / 2 ^ 11 % 256)
    (hc3 : c3 = (0xF8 + D / 2 ^ 8 % 8) % 256) (hc2 : c2 = D % 256) :
    (c1 % 8) * 2 ^ 19 + c0 * 2 ^ 11 + (c3 % 8) * 2 ^ 8 + c2 = D % 2 ^ 22 ∧
    c3 / 8 % 32 * 8 = 0xF8 ∧ c1 / 8 % 32 * 8 = 0xF0 := by
  omega

theorem thumb_back (b0 b1 b2 b3 D : Nat) (h0 : b0 < 256) (h1 : b1 < 256) (h2 : b2 < 256) (h3 : b3 < 256)
    (hr3 : b3 / 8 % 32 * 8 = 0xF8) (hr1 : b1 / 8 % 32 * 8 = 0xF0)
    (hD : D % 2 ^ 22 = (b1 % 8) * 2 ^ 19 + b0 * 2 ^ 11 + (b3 % 8) * 2 ^ 8 + b2) :
    (0xF0 + D / 2 ^ 19 % 8) % 256 = b1 ∧ D / 2 ^ 11 % 256 = b0 ∧
    (0xF8 + D / 2 ^ 8 % 8) % 256 = b3 ∧ D % 256 = b2 := by
  omega

theorem thumb_arith (p b0 b1 b2 b3 D c0 c1 c2 c3 D' : Nat) (hp : p % 2 = 0) (hp2 : p < 2 ^ 32)
    (h0 : b0 < 256) (h1 : b1 < 256) (h2 : b2 < 256) (h3 : b3 < 256) (hr : thumbRec b1 b3)
    (hD : D = thumbDest true p b0 b1 b2 b3)
    (hc1 : c1 = thumbO1 D % 256) (hc0 : c0 = (D >>> 11) % 256)
    (hc3 : c3 = thumbO3 D % 256) (hc2 : c2 = D % 256)
    (hD' : D' = thumbDest false p c0 c1 c2 c3) :
    thumbRec c1 c3 ∧ thumbO1 D' % 256 = b1 ∧ (D' >>> 11) % 256 = b0 ∧
      thumbO3 D' % 256 = b3 ∧ D' % 256 = b2 := by
  rw [thumbRec_iff] at hr ⊢
  rw [thumbDest_eq _ _ _ _ _ _ h0 h2, if_pos rfl] at hD
  rw [thumbO1_eq] at hc1
  rw [thumbO3_eq] at hc3
  rw [shr_eq] at hc0
  obtain ⟨f1, f2, f3⟩ := thumb_fields D c0 c1 c2 c3 hc1 hc0 hc3 hc2
  have hcb : c0 < 256 ∧ c2 < 256 := by
    rw [hc0, hc2]; exact ⟨Nat.mod_lt _ (by decide), Nat.mod_lt _ (by decide)⟩
  rw [thumbDest_eq _ _ _ _ _ _ hcb.1 hcb.2, if_neg (by simp), f1] at hD'
  have hS : (b1 % 8) * 2 ^ 19 + b0 * 2 ^ 11 + (b3 % 8) * 2 ^ 8 + b2 < 2 ^ 22 := by omega
  have k1 := thumb_k1 _ p D hS hp hp2 hD
  have k2 := thumb_k2 (D % 2 ^ 22) p D' (Nat.mod_lt _ (by decide)) hp hp2 hD'
  have k3 : D' % 2 ^ 22 = (b1 % 8) * 2 ^ 19 + b0 * 2 ^ 11 + (b3 % 8) * 2 ^ 8 + b2 := by
    clear hD hD' f1 f2 f3 hc0 hc1 hc2 hc3 hr
    omega
  obtain ⟨w1, w0, w3, w2⟩ := thumb_back b0 b1 b2 b3 D' h0 h1 h2 h3 hr.1 hr.2 k3
  rw [thumbO1_eq, thumbO3_eq, shr_eq]
  exact ⟨⟨f2, f3⟩, w1, w0, w3, w2⟩

def thumbStep (enc : Bool) (st : St) (i : Nat) (b : Buf) : Buf × Nat :=
  if thumbRec (gb b (i + 1)) (gb b (i + 3)) then
    let dest := thumbDest enc (posAt st i) (gb b i) (gb b (i + 1)) (gb b (i + 2)) (gb b (i + 3))
    (sb (sb (sb (sb b (i + 1) (thumbO1 dest)) i (dest >>> 11)) (i + 3) (thumbO3 dest)) (i + 2) dest, 4)
  else (b, 2)

theorem thumbLoop_eq_scan (enc : Bool) (st : St) : ∀ fuel i b,
    thumbLoop enc st fuel i b = scan 4 (thumbStep enc st) fuel i b := by
  intro fuel
  induction fuel with
  | zero => intro i b; rfl
  | succ n ih =>
    intro i b
    simp only [thumbLoop, scan]
    split
    · rfl
    · rw [← ih]
      simp only [thumbStep]
      split <;> rename_i h
      · rw [if_pos (show thumbRec _ _ from h)]; rfl
      · rw [if_neg (show ¬ thumbRec _ _ from h)]

theorem thumbStep_pos (enc : Bool) (st : St) (i : Nat) (b : Buf) (hr : thumbRec (gb b (i + 1)) (gb b (i + 3))) :
    thumbStep enc st i b =
      (sb (sb (sb (sb b (i + 1) (thumbO1 (thumbDest enc (posAt st i) (gb b i) (gb b (i + 1)) (gb b (i + 2)) (gb b (i + 3)))))
        i (thumbDest enc (posAt st i) (gb b i) (gb b (i + 1)) (gb b (i + 2)) (gb b (i + 3)) >>> 11))
        (i + 3) (thumbO3 (thumbDest enc (posAt st i) (gb b i) (gb b (i + 1)) (gb b (i + 2)) (gb b (i + 3)))))
        (i + 2) (thumbDest enc (posAt st i) (gb b i) (gb b (i + 1)) (gb b (i + 2)) (gb b (i + 3))), 4) := by
  simp only [thumbStep, if_pos hr]

theorem thumbStep_neg (enc : Bool) (st : St) (i : Nat) (b : Buf) (hr : ¬ thumbRec (gb b (i + 1)) (gb b (i + 3))) :
    thumbStep enc st i b = (b, 2) := by
  simp only [thumbStep, if_neg hr]

theorem thumbStep_size (enc : Bool) (st : St) (i : Nat) (b : Buf) : (thumbStep enc st i b).1.size = b.size := by
  simp only [thumbStep]; split <;> simp only [size_sb]

theorem thumbStep_adv (enc : Bool) (st : St) (i : Nat) (b : Buf) :
    (thumbStep enc st i b).2 = 4 ∨ (thumbStep enc st i b).2 = 2 := by
  simp only [thumbStep]; split
  · left; rfl
  · right; rfl

theorem thumbStep_frame (enc : Bool) (st : St) (i : Nat) (b : Buf) (k : Nat)
    (hk : k < i ∨ i + (thumbStep enc st i b).2 ≤ k) : gb (thumbStep enc st i b).1 k = gb b k := by
  by_cases hr : thumbRec (gb b (i + 1)) (gb b (i + 3))
  · rw [thumbStep_pos _ _ _ _ hr] at hk ⊢
    simp only at hk ⊢
    rw [gb_sb_ne _ _ _ _ (by omega), gb_sb_ne _ _ _ _ (by omega), gb_sb_ne _ _ _ _ (by omega),
      gb_sb_ne _ _ _ _ (by omega)]
  · rw [thumbStep_neg _ _ _ _ hr]

theorem thumbStep_bytes (enc : Bool) (st : St) (i : Nat) (b : Buf) (h : BBytes b) : BBytes (thumbStep enc st i b).1 := by
  simp only [thumbStep]; split
  · exact BBytes_sb _ _ _ (BBytes_sb _ _ _ (BBytes_sb _ _ _ (BBytes_sb _ _ _ h)))
  · exact h

theorem thumbStep_get (enc : Bool) (st : St) (i : Nat) (b : Buf) (hw : i + 4 ≤ b.size)
    (hr : thumbRec (gb b (i + 1)) (gb b (i + 3))) (D : Nat)
    (hD : D = thumbDest enc (posAt st i) (gb b i) (gb b (i + 1)) (gb b (i + 2)) (gb b (i + 3))) :
    gb (thumbStep enc st i b).1 (i + 1) = thumbO1 D % 256 ∧
    gb (thumbStep enc st i b).1 i = (D >>> 11) % 256 ∧
    gb (thumbStep enc st i b).1 (i + 3) = thumbO3 D % 256 ∧
    gb (thumbStep enc st i b).1 (i + 2) = D % 256 ∧ (thumbStep enc st i b).2 = 4 := by
  rw [thumbStep_pos _ _ _ _ hr, ← hD]
  refine ⟨?_, ?_, ?_, ?_, rfl⟩
  · rw [gb_sb_ne _ _ _ _ (by omega), gb_sb_ne _ _ _ _ (by omega), gb_sb_ne _ _ _ _ (by omega),
      gb_sb_eq _ _ _ (by omega)]
  · rw [gb_sb_ne _ _ _ _ (by omega), gb_sb_ne _ _ _ _ (by omega),
      gb_sb_eq _ _ _ (by simp only [size_sb]; omega)]
  · rw [gb_sb_ne _ _ _ _ (by omega), gb_sb_eq _ _ _ (by simp only [size_sb]; omega)]
  · rw [gb_sb_eq _ _ _ (by simp only [size_sb]; omega)]

def thumbSig (r x : Nat) : Nat := if r = 1 then x &&& 0xF8 else 0

theorem thumbStep_inv (st : St) (hp : st.pos % 2 = 0) (i : Nat) (b : Buf) (hi : i % 2 = 0) (hB : BBytes b)
    (hw : i + 4 ≤ b.size) : thumbStep false st i (thumbStep true st i b).1 = (b, (thumbStep true st i b).2) := by
  by_cases hr : thumbRec (gb b (i + 1)) (gb b (i + 3))
  · obtain ⟨g1, g0, g3, g2, ga⟩ := thumbStep_get true st i b hw hr _ rfl
    have hpp : posAt st i % 2 = 0 ∧ posAt st i < 2 ^ 32 := by simp only [posAt, u32]; omega
    obtain ⟨hr', a1, a0, a3, a2⟩ := thumb_arith (posAt st i) _ _ _ _ _ _ _ _ _ _ hpp.1 hpp.2
      (hB i) (hB (i + 1)) (hB (i + 2)) (hB (i + 3)) hr rfl g1 g0 g3 g2 rfl
    obtain ⟨f1, f0, f3, f2, fa⟩ := thumbStep_get false st i (thumbStep true st i b).1
      (by rw [thumbStep_size]; exact hw) hr' _ rfl
    apply Prod.ext
    · apply buf_ext
      · rw [thumbStep_size, thumbStep_size]
      · intro k _
        by_cases hwin : k < i ∨ i + 4 ≤ k
        · rw [thumbStep_frame _ _ _ _ _ (by rw [fa]; exact hwin),
            thumbStep_frame _ _ _ _ _ (by rw [ga]; exact hwin)]
        · have : k = i ∨ k = i + 1 ∨ k = i + 2 ∨ k = i + 3 := by omega
          rcases this with rfl | rfl | rfl | rfl
          · rw [f0, a0]
          · rw [f1, a1]
          · rw [f2, a2]
          · rw [f3, a3]
    · rw [fa, ga]
  · rw [thumbStep_neg _ _ _ _ hr, thumbStep_neg _ _ _ _ hr]

theorem thumb_stepOK (st : St) (hp : st.pos % 2 = 0) :
    StepOK 4 (fun i => i % 2 = 0) thumbSig (thumbStep true st) (thumbStep false st) where
  size_e := thumbStep_size _ _
  size_d := thumbStep_size _ _
  adv_V := fun i b h => by
    rcases thumbStep_adv true st i b with e | e <;> rw [e] <;> omega
  frame_e := thumbStep_frame _ _
  frame_d := thumbStep_frame _ _
  bytes_e := thumbStep_bytes _ _
  sig_e := by
    intro j b E _ hw hE r
    unfold thumbSig
    by_cases hr1 : r = 1
    · subst hr1
      rw [if_pos rfl, if_pos rfl]
      have h2 : j + 1 < j + (thumbStep true st j b).2 := by
        rcases thumbStep_adv true st j b with e | e <;> rw [e] <;> omega
      rw [hE _ h2]
      by_cases hr : thumbRec (gb b (j + 1)) (gb b (j + 3))
      · obtain ⟨g1, _⟩ := thumbStep_get true st j b hw hr _ rfl
        rw [g1, thumbO1_eq, and_F8, and_F8]
        have := (thumbRec_iff _ _).mp hr
        omega
      · rw [thumbStep_neg _ _ _ _ hr]
    · rw [if_neg hr1, if_neg hr1]
  loc_d := by
    intro i b b' _ hs hw hag hsig
    by_cases hr : thumbRec (gb b (i + 1)) (gb b (i + 3))
    · have ha : (thumbStep false st i b).2 = 4 := by rw [thumbStep_pos _ _ _ _ hr]
      rw [ha] at hag hsig ⊢
      have h0 := hag i (by omega) (by omega)
      have h1 := hag (i + 1) (by omega) (by omega)
      have h2 := hag (i + 2) (by omega) (by omega)
      have h3 := hag (i + 3) (by omega) (by omega)
      have hr' : thumbRec (gb b' (i + 1)) (gb b' (i + 3)) := by rw [h1, h3]; exact hr
      rw [thumbStep_pos _ _ _ _ hr, thumbStep_pos _ _ _ _ hr', h0, h1, h2, h3]
      refine ⟨rfl, ?_⟩
      intro k k1 k2
      have hA : Agree i 4 b b' := ⟨hs, hag⟩
      exact ((((hA.sb _ _).sb _ _).sb _ _).sb _ _).2 k k1 k2
    · have ha : (thumbStep false st i b).2 = 2 := by rw [thumbStep_neg _ _ _ _ hr]
      rw [ha] at hag hsig ⊢
      have h1 := hag (i + 1) (by omega) (by omega)
      have h3 := hsig 1
      simp only [thumbSig, if_pos] at h3
      have hr' : ¬ thumbRec (gb b' (i + 1)) (gb b' (i + 3)) := by
        rw [h1]
        intro hc
        apply hr
        unfold thumbRec at hc ⊢
        rw [show i + 3 = i + 2 + 1 from rfl, h3]
        exact hc
      rw [thumbStep_neg _ _ _ _ hr, thumbStep_neg _ _ _ _ hr']
      exact ⟨rfl, hag⟩
  inv := fun i b hi hB hw => thumbStep_inv st hp i b hi hB hw

/-- STRETCH: ARM Thumb -/
theorem thumb_inv (start : Nat) (hs : start % 2 = 0) (xs : List Nat) (h : Bytes xs) :
    oneShot .armThumb false start (oneShot .armThumb true start xs) = xs := by
  have hp : (St.init .armThumb start).pos % 2 = 0 := by simp only [St.init]; omega
  simp only [oneShot, code, thumbLoop_eq_scan]
  rw [Array.toArray_toList, scan_size _ (thumbStep_size _ _)]
  rw [scan_inv (thumb_stepOK _ hp) _ _ (by rfl) (BBytes_toArray xs h)]

end LzmaVerif.Filters
