/-
  Normal encoder: `optimise` (the part of `get_next_symbol` from `update_prices()` to `convert_opts()`).
  `optimiserOk`: for a sound finder with increasing match lengths, `2 ≤ nice_len ≤ 273`, `274 ≤ OPTS`, and under the
  hypothesis `ConvertSpec` about the pointer reversal of `convert_opts`, `optimise` is `OptimiserOk`.
-/
import LzmaVerif.Proofs.EncNormalMain

namespace LzmaVerif.EncNormal
open LzmaVerif Mf Lzma Rc EncFast EncPrices
open LzmaVerif.Mf.Hc4 (Eqs byteAt_lt extendMatch_spec)

/-- THE REMAINING OBLIGATION: `convert_opts` followed by the pending path of `get_next_symbol` hands out exactly the
    groups of the back-pointer chain of `opts[cur]` (and keeps the array size), for every array whose entries
    `1 ..= cur` have the shape written by `set1` / `set2` / `set3`.  A statement about array pointer reversal only:
    no data, finder, price or probability is involved. -/
def ConvertSpec (P : NormalParams) : Prop :=
  ∀ (d : Array UInt8) (p : Nat) (opts : Opts) (cur : Nat), opts.size = P.opts → 1 ≤ cur → cur < P.opts →
    (∀ i, 1 ≤ i → i ≤ cur → Shape (oat opts i) i) →
    pending P d p (convertOpts P opts cur) cur P.opts 0 = chainOf P d p opts cur cur ∧
      (convertOpts P opts cur).size = opts.size

theorem optimiserOk {σ : Type} {F : Finder σ} {d : Array UInt8} {dict : Nat} (FS : FinderSound F d dict 273)
    (hFinc : ∀ s, FS.R s → lensIncreasing (F.find d s).1 = true)
    (P : NormalParams) (hP : P.ok) (hopts : 274 ≤ P.opts) (pr : Params) (nice : Nat) (hn2 : 2 ≤ nice) (hn273 : nice ≤ 273)
    (hconv : ConvertSpec P) : OptimiserOk FS P pr nice := by
  intro ps pt p c opts mf ms lens mainLen optEnd hp hav2 hos hrp hrd hR hpos hms hmsinc hlens hml hlt hmn hoe h2 hc1
  obtain ⟨hmin, hmax, hreps, hopts2, hinf⟩ := hP
  unfold optimise
  simp only [hmin, Env.posState]
  generalize pt.update ps = pt'
  -- bounds
  have hmainle : mainLen ≤ min (d.size - p) 273 := by
    rw [hml]
    unfold mainLenOf
    split
    · omega
    · next hne =>
      have hne' : ms ≠ [] := by intro h; rw [h] at hne; simp at hne
      have hv := hms _ (lastMatch_mem ms hne')
      have := hv.2.1
      omega
  have hbestle : ∀ i, i < 4 → lens.getD i 0 ≤ min (d.size - p) 273 := by
    intro i hi
    rcases hlens.2 i hi with h0 | ⟨_, _, hl, _⟩
    · omega
    · exact hl
  have hbest := repBest_lt lens hlens.1
  have hoele : optEnd ≤ min (d.size - p) 273 := by
    rw [hoe]
    have := hbestle _ hbest
    omega
  have hav0 : min (d.size - p) (P.opts - 1) ≤ d.size - p := Nat.min_le_left _ _
  have hav1 : min (d.size - p) (P.opts - 1) < P.opts := by omega
  have hoeav : optEnd ≤ min (d.size - p) (P.opts - 1) := by omega
  -- the initial array
  have h0s : 0 < opts.size := by omega
  have hsize1 : optEnd - 1 + 1 < (opts.modify 0 fun o => { o with c := c }).size := by
    rw [Array.size_modify]; omega
  have hoat : ∀ j, oat (resetFrom P (optEnd + 1 - 2) (2 - 1) (opts.modify 0 fun o => { o with c := c })) j =
      if 1 < j ∧ j ≤ optEnd then (oat (opts.modify 0 fun o => { o with c := c }) j).reset P
      else oat (opts.modify 0 fun o => { o with c := c }) j := by
    intro j
    rw [oat_resetFrom P _ _ _ j (by rw [Array.size_modify]; omega)]
    have e : (2 - 1 < j ∧ j ≤ 2 - 1 + (optEnd + 1 - 2)) ↔ (1 < j ∧ j ≤ optEnd) := by omega
    simp only [e]
  have hinv0 : Inv P d dict p c (min (d.size - p) (P.opts - 1)) 0 1
      { opts := resetFrom P (optEnd + 1 - 2) (2 - 1) (opts.modify 0 fun o => { o with c := c }), optEnd := optEnd } := by
    refine ⟨by rw [resetFrom_size, Array.size_modify]; exact hos, hoeav, ?_, ?_, ?_, ?_⟩
    · simp only
      rw [hoat, if_neg (by omega), oat_modify_self _ _ _ h0s]
    · intro i h1 hi; omega
    · intro i hi hie
      simp only at hie ⊢
      by_cases hi1 : i = 1
      · subst hi1
        right
        obtain ⟨ho0, hp1, hb, _⟩ := hc1
        have ho1 : oat (resetFrom P (optEnd + 1 - 2) (2 - 1) (opts.modify 0 fun o => { o with c := c })) 1 =
            (oat opts 1).set1 (oat opts 1).price 0 (oat opts 1).backPrev := by
          rw [hoat, if_neg (by omega), oat_modify _ _ _ _ h0s, if_neg (by omega)]
          generalize oat opts 1 = o at ho0 hp1
          cases o
          simp only [Opt.set1] at ho0 hp1 ⊢
          subst ho0 hp1
          rfl
        have hc0 : (oat (resetFrom P (optEnd + 1 - 2) (2 - 1) (opts.modify 0 fun o => { o with c := c })) 0).c = c := by
          rw [hoat, if_neg (by omega), oat_modify_self _ _ _ h0s]
        refine candOk_set1 (cur := 0) _ 1 _ _ _ ho1 (by omega) (Or.inl ⟨by omega, ?_⟩) ?_
        · rcases hb with hb | hb
          · exact Or.inl hb
          · exact Or.inr hb.1
        · rw [hc0]
          simp only [Nat.sub_zero, Nat.add_zero]
          rcases hb with hb | ⟨hb, hbyte⟩
          · rw [hb, symOf_lit]; exact cand_lit d dict p c hp
          · rw [hb, symOf_short P hreps]; exact cand_short d dict p c hp hbyte
      · left
        rw [hoat, if_pos (by omega)]
        exact Nat.le_refl _
    · intro i h1 hi1 hie
      have : i = 1 := by omega
      subst this
      simp only
      rw [hoat, if_neg (by omega), oat_modify _ _ _ _ h0s, if_neg (by omega)]
      have := hc1.2.2.2
      omega
  have hc0 : (oat (resetFrom P (optEnd + 1 - 2) (2 - 1) (opts.modify 0 fun o => { o with c := c })) 0).c = c := by
    rw [hoat, if_neg (by omega), oat_modify_self _ _ _ h0s]
  have hthr0 : Thr P d dict p c (min (d.size - p) (P.opts - 1)) 0 1 c optEnd
      { opts := resetFrom P (optEnd + 1 - 2) (2 - 1) (opts.modify 0 fun o => { o with c := c }), optEnd := optEnd } :=
    ⟨hinv0, hc0, Nat.le_refl _, Nat.zero_le _, by show 1 ≤ optEnd; omega⟩
  generalize ({ opts := resetFrom P (optEnd + 1 - 2) (2 - 1) (opts.modify 0 fun o => { o with c := c }), optEnd := optEnd } : OA) = a0
    at hthr0 ⊢
  have ha0e : optEnd ≤ a0.optEnd := hthr0.2.2.1
  -- the environment with the refreshed price tables
  generalize hE : ({ P := P, pr := pr, nice := nice, d := d, ps := ps, pt := pt' } : Env) = E
  have hEP : E.P = P := by rw [← hE]
  have hEd : E.d = d := by rw [← hE]
  have hEn : E.nice = nice := by rw [← hE]
  subst hEd hEP
  have hpos0 : PosOk E.P E.d p (min (E.d.size - p) (E.P.opts - 1)) 0 E.nice :=
    ⟨⟨hmin, hmax, hreps, hopts2, hinf⟩, by rw [hEn]; exact hn2, by rw [hEn]; exact hn273, hav0, hav1, by omega⟩
  -- long reps from position 0
  have hthr1 := firstRepPrices_thr E rfl rfl hpos0 hthr0 c (p % 2 ^ pr.pb)
    (anyRepPrice ps (anyMatchPrice ps c.state (p % 2 ^ pr.pb)) c.state) lens hlens
    (fun i hi => by
      have := repBest_max lens i (by rw [hlens.1]; exact hi)
      omega)
  generalize firstRepPrices E c (p % 2 ^ pr.pb) (anyRepPrice ps (anyMatchPrice ps c.state (p % 2 ^ pr.pb)) c.state) lens a0 = a1
    at hthr1 ⊢
  -- normal matches from position 0
  have hthr2 : Thr E.P E.d dict p c (min (E.d.size - p) (E.P.opts - 1)) 0 1 c optEnd
      (if max (lens.getD 0 0 + 1) 2 ≤ mainLen then
        firstMatchLoop E (p % 2 ^ pr.pb) (normalMatchPrice ps (anyMatchPrice ps c.state (p % 2 ^ pr.pb)) c.state)
          (mainLen + 1) (max (lens.getD 0 0 + 1) 2) (dropShort (max (lens.getD 0 0 + 1) 2) ms) a1
       else a1) := by
    split
    · refine firstMatchLoop_thr E rfl hav1 hreps _ _ _ _ _ a1 hthr1
        (fun m hm => hms m (dropShort_sub _ _ _ hm)) (dropShort_inc _ _ hmsinc) ?_ (by omega)
        (fun m rest he => dropShort_head _ _ _ _ he)
      intro m hm
      have hmem := dropShort_sub _ _ _ hm
      have hle := le_last ms hmsinc m hmem
      have hne : ms ≠ [] := by intro h; rw [h] at hmem; exact absurd hmem (List.not_mem_nil)
      have hml' : mainLen = (lastMatch ms).1 := by rw [hml]; exact mainLenOf_ne ms hne
      unfold lastMatch at hml'
      have := hthr1.2.2.1
      omega
    · exact hthr1
  generalize (if max (lens.getD 0 0 + 1) 2 ≤ mainLen then
        firstMatchLoop E (p % 2 ^ pr.pb) (normalMatchPrice ps (anyMatchPrice ps c.state (p % 2 ^ pr.pb)) c.state)
          (mainLen + 1) (max (lens.getD 0 0 + 1) 2) (dropShort (max (lens.getD 0 0 + 1) 2) ms) a1
       else a1) = a2 at hthr2 ⊢
  -- the main loop
  have hloop := mainLoop_ok (F := F) E (dict := dict) FS hFinc ⟨hmin, hmax, hreps, hopts2, hinf⟩
    (by rw [hEn]; exact hn2) (by rw [hEn]; exact hn273)
    p c (min (E.d.size - p) (E.P.opts - 1)) hav0 hav1 E.P.opts 0
    { a := a2, mf := mf, ms := ms } hthr2.1 (by have := hthr2.2.2.1; show 0 < a2.optEnd; omega)
    hR (by rw [hpos]) (by omega)
  generalize mainLoop F E p (min (E.d.size - p) (E.P.opts - 1)) E.P.opts 0 { a := a2, mf := mf, ms := ms } = r at hloop ⊢
  obtain ⟨hr1, hrle, ⟨b, hrinv⟩, hrcand, hrR, hrpos, hrms⟩ := hloop
  -- `convert_opts` and the pending symbols
  have hshape : ∀ i, 1 ≤ i → i ≤ r.1 → Shape (oat r.2.1.a.opts i) i := by
    intro i h1 hi
    by_cases hir : i = r.1
    · subst hir; exact hrcand.1
    · exact (hrinv.fin i h1 (by omega)).1.1
  obtain ⟨hpend, hcsize⟩ := hconv E.d p r.2.1.a.opts r.1 hrinv.size hr1 (by omega) hshape
  have hchain := chainOf_last hrinv r.1 (r.1 - 1) hr1 (by omega) hrcand
  have e1 : r.1 - 1 + 1 = r.1 := by omega
  rw [e1] at hchain
  refine ⟨?_, ?_, ?_, hrR, ?_, ?_⟩
  · show 1 ≤ chainLen (pending E.P E.d p (convertOpts E.P r.2.1.a.opts r.1) r.1 E.P.opts 0)
    rw [hpend, hchain.2]; exact hr1
  · show ChainOk E.d dict (pending E.P E.d p (convertOpts E.P r.2.1.a.opts r.1) r.1 E.P.opts 0) p c
    rw [hpend]; exact hchain.1
  · show (convertOpts E.P r.2.1.a.opts r.1).size = E.P.opts
    rw [hcsize]; exact hrinv.size
  · show FS.pos r.2.1.mf = p + chainLen (pending E.P E.d p (convertOpts E.P r.2.1.a.opts r.1) r.1 E.P.opts 0) +
      (if r.2.2 = true then 1 else 0)
    rw [hpend, hchain.2]; exact hrpos
  · show (if r.2.2 = true then 1 else 0) = 0 ∨ ((if r.2.2 = true then 1 else 0) = 1 ∧ _)
    cases hb : r.2.2
    · left; simp only [Bool.false_eq_true, if_false]
    · right
      simp only [if_true, true_and]
      have := hrms hb
      rw [hpend, hchain.2]
      exact ⟨this.1, this.2⟩

end LzmaVerif.EncNormal
