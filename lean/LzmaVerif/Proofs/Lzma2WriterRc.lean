/-
  LZMA2 writer model (`Model/Lzma2Writer.lean`), range-coder side:

  * `Prog.encRun` of a `bind`, on extra bits, and with bytes already written (`encRun_bind`, `encRun_append`,
    `encRun_addOut`: the encoder only prepends to `out`);
  * `encSymL_eq`: the O(1)-pending-size variant `encSymL` the compiled model runs is `encSym`;
  * `encFold`: the symbol-by-symbol encoder along a parse, and `loop_encRun_fold`: the decision program of a
    whole chunk (`loopProg … (some n)`, the one `Lzma2.checkChunks` / `ChunksOk` talk about) walked along
    `parseBits` of a valid parse ends in exactly the tables and the range-encoder state of `encFold`.
-/
import LzmaVerif.Model.Lzma2Writer
import LzmaVerif.Proofs.LoopRt
import LzmaVerif.Proofs.RcRoundtrip

namespace LzmaVerif.Prog
open Rc

theorem encRun_bind {α β : Type} (p : Prog α) (f : α → Prog β) :
    ∀ (bits : List Bool) (ps : Probs) (e : Enc),
      (bind p f).encRun bits ps e =
        (p.encRun bits ps e).bind (fun r => (f r.1).encRun r.2.1 r.2.2.1 r.2.2.2) := by
  induction p with
  | ret a => intro bits ps e; rfl
  | bit i k ih =>
    intro bits ps e
    cases bits with
    | nil => rfl
    | cons b bs => exact ih b bs _ _
  | direct k ih =>
    intro bits ps e
    cases bits with
    | nil => rfl
    | cons b bs => exact ih b bs _ _

theorem encRun_append {α : Type} (p : Prog α) :
    ∀ (bits rest : List Bool) (ps : Probs) (e : Enc) (a : α) (bs' : List Bool) (ps' : Probs) (e' : Enc),
      p.encRun bits ps e = some (a, bs', ps', e') →
      p.encRun (bits ++ rest) ps e = some (a, bs' ++ rest, ps', e') := by
  induction p with
  | ret a0 =>
    intro bits rest ps e a bs' ps' e' h
    simp only [encRun, Option.some.injEq, Prod.mk.injEq] at h
    obtain ⟨rfl, rfl, rfl, rfl⟩ := h
    rfl
  | bit i k ih =>
    intro bits rest ps e a bs' ps' e' h
    cases bits with
    | nil => simp only [encRun] at h; exact absurd h (by simp)
    | cons b bs =>
      simp only [encRun] at h
      simp only [List.cons_append, encRun]
      exact ih b _ _ _ _ _ _ _ _ h
  | direct k ih =>
    intro bits rest ps e a bs' ps' e' h
    cases bits with
    | nil => simp only [encRun] at h; exact absurd h (by simp)
    | cons b bs =>
      simp only [encRun] at h
      simp only [List.cons_append, encRun]
      exact ih b _ _ _ _ _ _ _ _ h

end LzmaVerif.Prog

namespace LzmaVerif.Rc

/-- the same encoder with `acc` already written before -/
def Enc.addOut (e : Enc) (acc : List Nat) : Enc := { e with out := e.out ++ acc }

theorem pushN_append (n v : Nat) : ∀ (x acc : List Nat), pushN n v (x ++ acc) = pushN n v x ++ acc := by
  induction n with
  | zero => intro x acc; rfl
  | succ n ih =>
    intro x acc
    simp only [pushN]
    rw [← List.cons_append, ih]

theorem shiftLow_addOut (e : Enc) (acc : List Nat) : shiftLow (e.addOut acc) = (shiftLow e).addOut acc := by
  unfold shiftLow Enc.addOut
  by_cases h : e.low / 2 ^ 32 ≠ 0 ∨ e.low < 0xFF000000
  · simp only [if_pos h]
    rw [← List.cons_append, pushN_append]
  · simp only [if_neg h]

theorem encNormalize_addOut (e : Enc) (acc : List Nat) :
    encNormalize (e.addOut acc) = (encNormalize e).addOut acc := by
  unfold encNormalize
  by_cases h : e.range < 2 ^ 24
  · have h' : (e.addOut acc).range < 2 ^ 24 := h
    rw [if_pos h, if_pos h']
    exact shiftLow_addOut { e with range := e.range * 256 } acc
  · have h' : ¬ (e.addOut acc).range < 2 ^ 24 := h
    rw [if_neg h, if_neg h']

theorem encodeBitP_addOut (e : Enc) (acc : List Nat) (p : Nat) (b : Bool) :
    encodeBitP (e.addOut acc) p b = (encodeBitP e p b).addOut acc := by
  unfold encodeBitP
  cases b
  · exact encNormalize_addOut { e with range := e.range / 2 ^ 11 * p } acc
  · exact encNormalize_addOut { e with low := e.low + e.range / 2 ^ 11 * p, range := e.range - e.range / 2 ^ 11 * p } acc

theorem encodeDirect1_addOut (e : Enc) (acc : List Nat) (b : Bool) :
    encodeDirect1 (e.addOut acc) b = (encodeDirect1 e b).addOut acc := by
  unfold encodeDirect1
  cases b
  · exact encNormalize_addOut { e with range := e.range / 2 } acc
  · exact encNormalize_addOut { e with low := e.low + e.range / 2, range := e.range / 2 } acc

end LzmaVerif.Rc

namespace LzmaVerif.Prog
open Rc

theorem encRun_addOut {α : Type} (p : Prog α) :
    ∀ (bits : List Bool) (ps : Probs) (e : Enc) (acc : List Nat),
      p.encRun bits ps (e.addOut acc) =
        (p.encRun bits ps e).map (fun r => (r.1, r.2.1, r.2.2.1, r.2.2.2.addOut acc)) := by
  induction p with
  | ret a => intro bits ps e acc; rfl
  | bit i k ih =>
    intro bits ps e acc
    cases bits with
    | nil => rfl
    | cons b bs =>
      simp only [encRun]
      rw [encodeBitP_addOut]
      exact ih b bs _ _ acc
  | direct k ih =>
    intro bits ps e acc
    cases bits with
    | nil => rfl
    | cons b bs =>
      simp only [encRun]
      rw [encodeDirect1_addOut]
      exact ih b bs _ _ acc

end LzmaVerif.Prog

namespace LzmaVerif.Lzma2W
open LzmaVerif Lzma Prog Rc

/-! ## `encSym`: determined by the symbol round trip -/

/-- for an admissible symbol the walk of `encSym` succeeds, uses exactly the symbol's bits and returns the symbol -/
theorem encSym_spec (pr : Params) (ctx : Ctx) (s : Sym) (hs : SymOk s) (ps : Probs) (e : Enc)
    (rest : List Bool) :
    (symProg pr ctx).encRun (symBits pr ctx s ++ rest) ps e =
      some (s, rest, (encSym pr ctx s ps e).1, (encSym pr ctx s ps e).2) := by
  have hrun := sym_rt pr ctx s hs []
  rw [List.append_nil] at hrun
  obtain ⟨ps', e', henc⟩ := Prog.runBits_encRun _ _ ps e _ _ hrun
  have h1 := Prog.encRun_append _ _ rest _ _ _ _ _ _ henc
  rw [List.nil_append] at h1
  rw [h1]
  unfold encSym
  rw [henc]

theorem encSym_addOut (pr : Params) (ctx : Ctx) (s : Sym) (ps : Probs) (e : Enc) (acc : List Nat) :
    encSym pr ctx s ps (e.addOut acc) = ((encSym pr ctx s ps e).1, (encSym pr ctx s ps e).2.addOut acc) := by
  unfold encSym
  rw [Prog.encRun_addOut]
  cases (symProg pr ctx).encRun (symBits pr ctx s) ps e with
  | none => rfl
  | some r => rfl

/-- the executable variant: same tables, same encoder, and the number of bytes written by the symbol -/
theorem encSymL_eq (pr : Params) (ctx : Ctx) (s : Sym) (ps : Probs) (e : Enc) :
    (encSymL pr ctx s ps e).1 = (encSym pr ctx s ps e).1 ∧
    (encSymL pr ctx s ps e).2.1 = (encSym pr ctx s ps e).2 ∧
    (encSym pr ctx s ps e).2.out.length = e.out.length + (encSymL pr ctx s ps e).2.2 := by
  obtain ⟨low, range, cacheSize, cache, out⟩ := e
  have h := encSym_addOut pr ctx s ps ⟨low, range, cacheSize, cache, []⟩ out
  have he : (⟨low, range, cacheSize, cache, []⟩ : Enc).addOut out = ⟨low, range, cacheSize, cache, out⟩ := rfl
  rw [he] at h
  rw [h]
  refine ⟨rfl, rfl, ?_⟩
  show ((encSym pr ctx s ps ⟨low, range, cacheSize, cache, []⟩).2.out ++ out).length = _
  rw [List.length_append]
  show _ = out.length + (encSym pr ctx s ps ⟨low, range, cacheSize, cache, []⟩).2.out.length
  omega

/-! ## The symbol-by-symbol encoder along a parse -/

/-- the history after a symbol, as `parseBits` threads it -/
def histStep (s : Sym) (c : Coder) (h : Hist) : Hist :=
  match s with
  | .lit b => h.push b
  | _ => match s.copyOf c with
    | some (dist, len) => if dist < h.size then h.copy dist len else h
    | none => h

/-- `encode_symbol` after `encode_symbol`: tables and range encoder after the symbols of `parse` -/
def encFold (pr : Params) : List Sym → Coder → Hist → Probs → Enc → Probs × Enc
  | [], _, _, ps, e => (ps, e)
  | s :: rest, c, h, ps, e =>
    encFold pr rest (c.apply s) (histStep s c h)
      (encSym pr (ctxOf c h) s ps e).1 (encSym pr (ctxOf c h) s ps e).2

theorem encFold_append (pr : Params) (dictBuf : Nat) (p q : List Sym) :
    ∀ (c c₁ : Coder) (h h₁ : Hist) (ps : Probs) (e : Enc), parseRun dictBuf p c h = some (c₁, h₁) →
      encFold pr (p ++ q) c h ps e = encFold pr q c₁ h₁ (encFold pr p c h ps e).1 (encFold pr p c h ps e).2 := by
  induction p with
  | nil =>
    intro c c₁ h h₁ ps e hp
    simp only [parseRun, Option.some.injEq, Prod.mk.injEq] at hp
    obtain ⟨rfl, rfl⟩ := hp
    rfl
  | cons s p ih =>
    intro c c₁ h h₁ ps e hp
    obtain ⟨_, hcase⟩ := parseRun_cons_inv hp
    rcases hcase with ⟨b, rfl, hrest⟩ | ⟨dist, len, hs, hc, _, hd, _, hrest⟩
    · simp only [List.cons_append, encFold, histStep]
      exact ih _ _ _ _ _ _ hrest
    · have hh : histStep s c h = h.copy dist len := by
        cases s with
        | lit b => exact absurd rfl (hs b)
        | mtch d l => simp only [histStep, hc, if_pos hd]
        | rep i l => simp only [histStep, hc, if_pos hd]
        | shortRep => simp only [histStep, hc, if_pos hd]
      simp only [List.cons_append, encFold, hh]
      exact ih _ _ _ _ _ _ hrest

/-! ## One iteration of the chunk's decision program, walked by the encoder -/

section Step
variable (pr : Params) (dictBuf fuel : Nat) (c : Coder) (h : Hist) (acc : List Sym) (em : Nat)
  (rest : List Bool) (ps : Probs) (e : Enc)

theorem loopEnc_lit (b : Nat) (hb : b < 256) (r : Nat) (hr : r ≠ 0) :
    (loopProg pr dictBuf (fuel + 1) (some r) c h acc em).encRun
        (symBits pr (ctxOf c h) (.lit b) ++ rest) ps e
      = (loopProg pr dictBuf fuel (some (r - 1)) (c.apply (.lit b)) (h.push b)
          (.lit b :: acc) (em + 1)).encRun rest
          (encSym pr (ctxOf c h) (.lit b) ps e).1 (encSym pr (ctxOf c h) (.lit b) ps e).2 := by
  have hr' : (some r : Option Nat) ≠ some 0 := by
    intro e; exact hr (Option.some.inj e)
  rw [loopProg, if_neg hr', Prog.encRun_bind, encSym_spec pr (ctxOf c h) (.lit b) hb ps e rest]
  rfl

theorem loopEnc_copy (s : Sym) (dist len r : Nat) (hok : SymOk s) (hs : ∀ b, s ≠ .lit b)
    (hc : s.copyOf c = some (dist, len)) (h1 : dist < h.size) (h2 : dist < dictBuf)
    (hr : r ≠ 0) (hl : len ≤ r) :
    (loopProg pr dictBuf (fuel + 1) (some r) c h acc em).encRun
        (symBits pr (ctxOf c h) s ++ rest) ps e
      = (loopProg pr dictBuf fuel (some (r - len)) (c.apply s) (h.copy dist len)
          (s :: acc) (em + len)).encRun rest
          (encSym pr (ctxOf c h) s ps e).1 (encSym pr (ctxOf c h) s ps e).2 := by
  have hr' : (some r : Option Nat) ≠ some 0 := by
    intro e; exact hr (Option.some.inj e)
  have hn : ¬ (dist ≥ h.size ∨ dist ≥ dictBuf) := by omega
  have hl' : ¬ len > r := by omega
  rw [loopProg, if_neg hr', Prog.encRun_bind, encSym_spec pr (ctxOf c h) s hok ps e rest]
  cases s with
  | lit b => exact absurd rfl (hs b)
  | mtch d l =>
    simp only [Sym.copyOf, Option.some.injEq, Prod.mk.injEq] at hc
    obtain ⟨rfl, rfl⟩ := hc
    simp only [Option.bind_some, Sym.copyOf, if_neg hn, if_neg hl']
  | rep i l =>
    simp only [Sym.copyOf, Option.some.injEq, Prod.mk.injEq] at hc
    obtain ⟨rfl, rfl⟩ := hc
    simp only [Option.bind_some, Sym.copyOf, if_neg hn, if_neg hl']
  | shortRep =>
    simp only [Sym.copyOf, Option.some.injEq, Prod.mk.injEq] at hc
    obtain ⟨rfl, rfl⟩ := hc
    simp only [Option.bind_some, Sym.copyOf, if_neg hn, if_neg hl']

end Step

/-- **the chunk encoder is the symbol-by-symbol encoder**: on the bits of a parse that denotes exactly `n` more
    bytes, the encoder's walk of the chunk program succeeds, consumes all bits, ends with `Stop.limit`, the
    denoted coder state and history - and with the tables and range-encoder state of `encFold`. -/
theorem loop_encRun_fold (pr : Params) (dictBuf : Nat) (parse : List Sym) :
    ∀ (c : Coder) (h : Hist) (c' : Coder) (h' : Hist) (fuel n : Nat) (acc : List Sym) (em : Nat)
      (ps : Probs) (e : Enc),
      parseRun dictBuf parse c h = some (c', h') → h'.size = h.size + n → parse.length < fuel →
      (loopProg pr dictBuf fuel (some n) c h acc em).encRun (parseBits pr parse c h) ps e
        = some ({ stop := .limit, coder := c', hist := h', parse := parse.reverse ++ acc,
                  emitted := em + n }, [], (encFold pr parse c h ps e).1, (encFold pr parse c h ps e).2) := by
  induction parse with
  | nil =>
    intro c h c' h' fuel n acc em ps e hp hsz hf
    simp only [parseRun, Option.some.injEq, Prod.mk.injEq] at hp
    obtain ⟨rfl, rfl⟩ := hp
    have hn : n = 0 := by omega
    subst hn
    cases fuel with
    | zero => simp at hf
    | succ fuel =>
      rw [loopProg, if_pos rfl]
      rfl
  | cons s p ih =>
    intro c h c' h' fuel n acc em ps e hp hsz hf
    cases fuel with
    | zero => simp at hf
    | succ fuel =>
      have hf' : p.length < fuel := by simp only [List.length_cons] at hf; omega
      have e1 : p.reverse ++ (s :: acc) = (s :: p).reverse ++ acc := by
        simp only [List.reverse_cons, List.append_assoc, List.singleton_append]
      obtain ⟨hok, hcase⟩ := parseRun_cons_inv hp
      rcases hcase with ⟨b, rfl, hrest⟩ | ⟨dist, len, hs, hc, hl1, hd1, hd2, hrest⟩
      · have hge := parseRun_size_le _ _ _ _ _ _ hrest
        rw [Array.size_push] at hge
        have hsz' : h'.size = (h.push b).size + (n - 1) := by rw [Array.size_push]; omega
        have e2 : em + 1 + (n - 1) = em + n := by omega
        rw [parseBits_lit, loopEnc_lit pr dictBuf fuel c h acc em _ ps e b hok n (by omega)]
        rw [ih _ _ _ _ _ _ _ _ _ _ hrest hsz' hf', e1, e2]
        rfl
      · have hge := parseRun_size_le _ _ _ _ _ _ hrest
        rw [hist_copy_size] at hge
        have hsz' : h'.size = (h.copy dist len).size + (n - len) := by
          rw [hist_copy_size]; omega
        have e2 : em + len + (n - len) = em + n := by omega
        have hh : histStep s c h = h.copy dist len := by
          cases s with
          | lit b => exact absurd rfl (hs b)
          | mtch d l => simp only [histStep, hc, if_pos hd1]
          | rep i l => simp only [histStep, hc, if_pos hd1]
          | shortRep => simp only [histStep, hc, if_pos hd1]
        rw [parseBits_copy pr s _ c h dist len hs hc hd1,
          loopEnc_copy pr dictBuf fuel c h acc em _ ps e s dist len n hok hs hc hd1 hd2
            (by omega) (by omega)]
        rw [ih _ _ _ _ _ _ _ _ _ _ hrest hsz' hf', e1, e2]
        simp only [encFold, hh]

end LzmaVerif.Lzma2W
