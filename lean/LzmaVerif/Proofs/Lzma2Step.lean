import LzmaVerif.Model.Lzma2Check
import LzmaVerif.Proofs.Lzma2Reader
import LzmaVerif.Proofs.RcFinish
import LzmaVerif.Proofs.LoopRt
/-!
LZMA2: writer/reader simulation, one chunk at a time.

* `ChunksOk pb chunks w data` – `chunks` is a sequence of writer events that is valid from writer state `w`
  and denotes the bytes `data` (threading the writer state exactly as `encodeChunks` does);
* `Inv pb w s` – coupling between the writer state `w` and the reader state `s` between two chunks;
* `stored_step`, `lzma_step` – one chunk: the reader's `chunkLoop` consumes exactly the chunk's bytes and
  re-establishes the coupling.
-/
namespace LzmaVerif.Lzma2
open LzmaVerif Lzma Prog Rc

theorem encodeChunks_nil (pb : Nat) (w : WState) (acc : List Nat) :
    encodeChunks pb [] w acc = some (acc ++ [0]) := rfl

theorem encodeChunks_cons (pb : Nat) (ch : Chunk) (rest : List Chunk) (w : WState) (acc : List Nat) :
    encodeChunks pb (ch :: rest) w acc =
      if ch.control ≥ 0x80 then
        match (lzmaProg (restartW ch w) ch.unc).encRun (lzmaBits (restartW ch w) ch.parse)
            (chunkProbs (restartW ch w)) Enc.init with
        | some (r, [], ps, e) =>
          encodeChunks pb rest (afterLzma (restartW ch w) r ps)
            (acc ++ (lzmaHeader (restartW ch w).flags ch.unc e.bytes.length pb).1 ++ e.bytes)
        | _ => none
      else
        encodeChunks pb rest (afterStored (restartW ch w) ch.raw)
          (acc ++ (storedHeader (restartW ch w).flags ch.unc).1 ++ ch.raw) := rfl

/-! ## Valid writer event sequences -/

/-- `chunks` is a valid sequence of writer events from state `w`, denoting the bytes `data`.

LZMA chunk (`control ≥ 0x80`): the parse is valid w.r.t. the writer's history and denotes exactly `unc` new
bytes (`1 ≤ unc ≤ 2^21`), the `control`/`props`/`comp` fields are the ones the writer produces, and the
encoded body has at most 65536 bytes.  Stored chunk: `1 ≤ raw.length ≤ 65536`.  A chunk whose control byte
announces a dictionary reset and which is not the first one is an independent restart (`restartW`). -/
def ChunksOk (pb : Nat) : List Chunk → WState → List Nat → Prop
  | [], _, data => data = []
  | ch :: rest, w, data =>
    if ch.control ≥ 0x80 then
      ∃ (c' : Coder) (h' : Hist) (data' : List Nat),
        parseRun (restartW ch w).dictBuf ch.parse (chunkCoder (restartW ch w)) (restartW ch w).hist = some (c', h') ∧
        h'.size = (restartW ch w).hist.size + ch.unc ∧ 1 ≤ ch.unc ∧ ch.unc ≤ 2 ^ 21 ∧
        ch.control = lzmaControl (restartW ch w).flags ch.unc ∧
        ch.props = (if (restartW ch w).flags.propsNeeded then some pb else none) ∧ ch.raw = [] ∧
        data = (h'.extract (restartW ch w).hist.size h'.size).toList ++ data' ∧
        ∀ (r : LoopRes) (ps : Probs) (e : Enc),
          (lzmaProg (restartW ch w) ch.unc).encRun (lzmaBits (restartW ch w) ch.parse)
              (chunkProbs (restartW ch w)) Enc.init = some (r, [], ps, e) →
          e.bytes.length ≤ 65536 ∧ ch.comp = e.bytes.length ∧
          ChunksOk pb rest (afterLzma (restartW ch w) r ps) data'
    else
      ∃ data' : List Nat,
        ch.control = storedControl (restartW ch w).flags ∧ ch.unc = ch.raw.length ∧
        1 ≤ ch.raw.length ∧ ch.raw.length ≤ 65536 ∧ ch.comp = 0 ∧ ch.props = none ∧ ch.parse = [] ∧
        data = ch.raw ++ data' ∧
        ChunksOk pb rest (afterStored (restartW ch w) ch.raw) data'

/-! ## Coupling invariant between writer and reader -/

structure Inv (pb : Nat) (w : WState) (s : RState) : Prop where
  dictBuf : s.dictBuf = w.dictBuf
  hist : s.hist = w.hist
  params : w.params = paramsOfProps pb
  ndr : s.needDictReset = true → w.flags.dictResetNeeded = true
  drp : w.flags.dictResetNeeded = true → w.flags.propsNeeded = true
  drh : w.flags.dictResetNeeded = true → w.hist = #[]
  np : s.needProps = w.flags.propsNeeded
  sparams : w.flags.propsNeeded = false → s.params = w.params
  cont : w.flags.propsNeeded = false → w.flags.stateResetNeeded = false →
    s.probs = w.probs ∧ s.coder = w.coder ∧ ProbsOk w.probs

/-- the reader state after the dictionary-reset decision for control byte `control` -/
def resetBy (control : Nat) (s : RState) : RState :=
  if control ≥ 0xE0 ∨ control = 1 then resetR s else s

theorem resetBy_out (control : Nat) (s : RState) : (resetBy control s).out = s.out := by
  unfold resetBy resetR; split <;> rfl

theorem resetBy_chunks (control : Nat) (s : RState) : (resetBy control s).chunks = s.chunks := by
  unfold resetBy resetR; split <;> rfl

/-- restart decision of the writer vs. dictionary reset of the reader: if the control byte announces a
    reset exactly when the writer's (post-restart) flags demand one, the coupling is preserved and the
    reader has no dictionary reset pending afterwards. -/
theorem inv_restart (pb : Nat) (w : WState) (s : RState) (ch : Chunk) (hinv : Inv pb w s)
    (hiff : (ch.control ≥ 0xE0 ∨ ch.control = 1) ↔ (restartW ch w).flags.dictResetNeeded = true) :
    Inv pb (restartW ch w) (resetBy ch.control s) ∧ (resetBy ch.control s).needDictReset = false := by
  by_cases hR : (ch.control ≥ 0xE0 ∨ ch.control = 1)
  · have hs : resetBy ch.control s = resetR s := by unfold resetBy; rw [if_pos hR]
    rw [hs]
    by_cases hf : w.first = true
    · have hw : restartW ch w = w := by
        unfold restartW; rw [if_neg]; intro h; exact h.2 hf
      rw [hw] at hiff ⊢
      have hd := hiff.mp hR
      refine ⟨⟨hinv.dictBuf, ?_, hinv.params, ?_, hinv.drp, hinv.drh, ?_, ?_, ?_⟩, rfl⟩
      · rw [hinv.drh hd]; rfl
      · intro h; cases h
      · rw [hinv.drp hd]; rfl
      · intro h; rw [hinv.drp hd] at h; cases h
      · intro h; rw [hinv.drp hd] at h; cases h
    · have hw : restartW ch w = { w with flags := { dictResetNeeded := true, stateResetNeeded := true, propsNeeded := true }, hist := #[] } := by
        unfold restartW; rw [if_pos ⟨hR, hf⟩]
      rw [hw]
      refine ⟨⟨hinv.dictBuf, rfl, hinv.params, ?_, ?_, ?_, rfl, ?_, ?_⟩, rfl⟩
      · intro h; cases h
      · intro _; rfl
      · intro _; rfl
      · intro h; cases h
      · intro h; cases h
  · have hs : resetBy ch.control s = s := by unfold resetBy; rw [if_neg hR]
    have hw : restartW ch w = w := by
      unfold restartW; rw [if_neg]; intro h; exact hR h.1
    rw [hs]
    rw [hw] at hiff ⊢
    refine ⟨hinv, ?_⟩
    cases hn : s.needDictReset with
    | false => rfl
    | true => exact absurd (hiff.mpr (hinv.ndr hn)) hR

theorem restartW_drp (pb : Nat) (w : WState) (s : RState) (ch : Chunk) (hinv : Inv pb w s) :
    (restartW ch w).flags.dictResetNeeded = true → (restartW ch w).flags.propsNeeded = true := by
  unfold restartW
  split
  · intro _; rfl
  · exact hinv.drp

/-! ## Arithmetic of the headers -/

theorem lzmaControl_ge (f : WFlags) (unc : Nat) : 0x80 ≤ lzmaControl f unc := by
  unfold lzmaControl
  split
  · split <;> omega
  · split <;> omega

theorem lzmaControl_unc (f : WFlags) (unc : Nat) (h1 : 1 ≤ unc) (h2 : unc ≤ 2 ^ 21) :
    (lzmaControl f unc % 32) * 65536 + be16 (((unc - 1) / 256) % 256) ((unc - 1) % 256) + 1 = unc := by
  unfold lzmaControl be16
  split
  · split <;> omega
  · split <;> omega

theorem lzmaControl_reset (f : WFlags) (unc : Nat) (h2 : unc ≤ 2 ^ 21) :
    (lzmaControl f unc ≥ 0xE0 ∨ lzmaControl f unc = 1) ↔ (f.propsNeeded = true ∧ f.dictResetNeeded = true) := by
  unfold lzmaControl
  cases f.propsNeeded <;> cases f.dictResetNeeded <;> cases f.stateResetNeeded <;> simp <;> omega

theorem lzmaControl_c0 (f : WFlags) (unc : Nat) (h2 : unc ≤ 2 ^ 21) :
    lzmaControl f unc ≥ 0xC0 ↔ f.propsNeeded = true := by
  unfold lzmaControl
  cases f.propsNeeded <;> cases f.dictResetNeeded <;> cases f.stateResetNeeded <;> simp <;> omega

theorem lzmaControl_a0 (f : WFlags) (unc : Nat) (h2 : unc ≤ 2 ^ 21) (hp : f.propsNeeded = false) :
    lzmaControl f unc ≥ 0xA0 ↔ f.stateResetNeeded = true := by
  unfold lzmaControl
  rw [hp]
  cases f.stateResetNeeded
  · simp; omega
  · simp

theorem lzmaHeader_fst (f : WFlags) (unc comp pb : Nat) :
    (lzmaHeader f unc comp pb).1 =
      lzmaControl f unc :: ((unc - 1) / 256) % 256 :: (unc - 1) % 256 ::
        ((comp - 1) / 256) % 256 :: (comp - 1) % 256 :: (if f.propsNeeded then [pb] else []) := by
  unfold lzmaHeader lzmaControl
  cases f.propsNeeded <;> rfl

theorem lzmaHeader_snd (f : WFlags) (unc comp pb : Nat) :
    (lzmaHeader f unc comp pb).2 = { dictResetNeeded := false, stateResetNeeded := false, propsNeeded := false } := rfl

/-! ## Lemmas restated from `Props/C01.lean` (kept local to avoid an import cycle) -/

theorem symRt' : SymRt := fun pr c s rest hs => sym_rt pr c s hs rest

theorem parseRun_length_le' (dictBuf : Nat) (p : List Sym) :
    ∀ (c c' : Coder) (h h' : Hist), parseRun dictBuf p c h = some (c', h') → h.size + p.length ≤ h'.size := by
  induction p with
  | nil =>
    intro c c' h h' hp
    have := parseRun_size_le dictBuf [] c c' h h' hp
    simpa using this
  | cons s p ih =>
    intro c c' h h' hp
    obtain ⟨_, hcase⟩ := parseRun_cons_inv hp
    rcases hcase with ⟨b, _, hrest⟩ | ⟨dist, len, _, _, hlen, _, _, hrest⟩
    · have := ih _ _ _ _ hrest
      rw [Array.size_push] at this
      simp only [List.length_cons]; omega
    · have := ih _ _ _ _ hrest
      rw [hist_copy_size] at this
      simp only [List.length_cons]; omega

theorem probsOk_fresh' (pr : Params) : ProbsOk (freshProbs pr) := ProbsOk_replicate _


/-! ## The properties / state-reset part of the header -/

/-- the reader state after the header of an LZMA chunk: tables and coder state are the writer's -/
def afterProps (s0 : RState) (w1 : WState) : RState :=
  { s0 with needProps := false, params := w1.params, probs := chunkProbs w1, coder := chunkCoder w1 }

theorem chunkProps_writer (pb : Nat) (hpb : pb ≤ 224)
    (hlclp : (paramsOfProps pb).lc + (paramsOfProps pb).lp ≤ 4)
    (w1 : WState) (s0 : RState) (unc : Nat) (h2 : unc ≤ 2 ^ 21) (hinv : Inv pb w1 s0) (rest : List Nat) :
    chunkProps s0 (lzmaControl w1.flags unc) ((if w1.flags.propsNeeded then [pb] else []) ++ rest)
      = .ok (afterProps s0 w1, rest, if w1.flags.propsNeeded then some pb else none) := by
  obtain ⟨hdb, hh, hpar, hndr, hdrp, hdrh, hnp, hsp, hcont⟩ := hinv
  obtain ⟨dictBuf, hist, ndr, np, params, probs, coder, out, chunks⟩ := s0
  simp only at hdb hh hndr hnp hsp hcont
  unfold chunkProps afterProps chunkProbs chunkCoder
  cases hp : w1.flags.propsNeeded with
  | true =>
    have hc0 := (lzmaControl_c0 w1.flags unc h2).mpr hp
    have hpb' : ¬ pb > 224 := by omega
    have hl' : ¬ (paramsOfProps pb).lc + (paramsOfProps pb).lp > 4 := by omega
    simp only [if_pos hc0, if_true, List.cons_append, List.nil_append, if_neg hpb', if_neg hl', or_true, hpar]
  | false =>
    have hc0 : ¬ lzmaControl w1.flags unc ≥ 0xC0 := fun h => by
      have := (lzmaControl_c0 w1.flags unc h2).mp h; rw [hp] at this; cases this
    rw [hp] at hnp
    subst hnp
    have hsp' := hsp hp
    subst hsp'
    cases hs : w1.flags.stateResetNeeded with
    | true =>
      have ha := (lzmaControl_a0 w1.flags unc h2 hp).mpr hs
      simp only [if_neg hc0, if_pos ha, Bool.false_eq_true, if_false, List.nil_append, or_false, if_true]
    | false =>
      have ha : ¬ lzmaControl w1.flags unc ≥ 0xA0 := fun h => by
        have := (lzmaControl_a0 w1.flags unc h2 hp).mp h; rw [hs] at this; cases this
      obtain ⟨hpr, hco, _⟩ := hcont hp hs
      subst hpr
      subst hco
      simp only [if_neg hc0, if_neg ha, Bool.false_eq_true, if_false, List.nil_append, or_self]


/-! ## One stored chunk -/

theorem storedHeader_fst (f : WFlags) (unc : Nat) :
    (storedHeader f unc).1 = [storedControl f, ((unc - 1) / 256) % 256, (unc - 1) % 256] := rfl

theorem stored_step (pb : Nat) (w : WState) (s : RState) (ch : Chunk) (hinv : Inv pb w s)
    (hctl : ch.control = storedControl (restartW ch w).flags) (hunc : ch.unc = ch.raw.length)
    (h1 : 1 ≤ ch.raw.length) (h2 : ch.raw.length ≤ 65536) (hcomp : ch.comp = 0) (hprops : ch.props = none)
    (hparse : ch.parse = []) :
    ∃ s', Inv pb (afterStored (restartW ch w) ch.raw) s' ∧ s'.out = s.out ++ ch.raw.toArray ∧
      s'.chunks = ch :: s.chunks ∧
      ∀ (fuel cap : Nat) (tail : List Nat), s.out.size + ch.raw.length ≤ cap →
        chunkLoop (fuel + 1) s ((storedHeader (restartW ch w).flags ch.unc).1 ++ ch.raw ++ tail) cap
          = chunkLoop fuel s' tail cap := by
  have h12 : ch.control = 1 ∨ ch.control = 2 := by
    rw [hctl]; unfold storedControl; split <;> simp
  have hiff : (ch.control ≥ 0xE0 ∨ ch.control = 1) ↔ (restartW ch w).flags.dictResetNeeded = true := by
    rw [hctl]; unfold storedControl
    cases (restartW ch w).flags.dictResetNeeded <;> simp
  obtain ⟨hinv1, hndr⟩ := inv_restart pb w s ch hinv hiff
  have hs0 : (if ch.control = 1 then resetR s else s) = resetBy ch.control s := by
    unfold resetBy
    rcases h12 with h | h <;> rw [h] <;> simp
  have hc' : ch.control = 1 ∨ (ch.control = 2 ∧ s.needDictReset = false) := by
    rcases h12 with h | h
    · exact Or.inl h
    · refine Or.inr ⟨h, ?_⟩
      have : resetBy ch.control s = s := by unfold resetBy; rw [h]; simp
      rw [this] at hndr; exact hndr
  refine ⟨{ resetBy ch.control s with
            hist := pushAll (resetBy ch.control s).hist ch.raw,
            out := pushAll s.out ch.raw,
            chunks := { control := ch.control, unc := ch.raw.length, comp := 0, props := none, parse := [],
                        raw := ch.raw } :: s.chunks }, ?_, ?_, ?_, ?_⟩
  · obtain ⟨hdb, hh, hpar, _, hdrp, hdrh, hnp, hsp, hcont⟩ := hinv1
    refine ⟨hdb, ?_, hpar, ?_, ?_, ?_, hnp, hsp, ?_⟩
    · show pushAll (resetBy ch.control s).hist ch.raw = pushAll (restartW ch w).hist ch.raw
      rw [hh]
    · intro h
      have : (resetBy ch.control s).needDictReset = true := h
      rw [hndr] at this; cases this
    · intro h; cases h
    · intro h; cases h
    · intro _ h; cases h
  · show pushAll s.out ch.raw = s.out ++ ch.raw.toArray
    exact pushAll_eq _ _
  · show _ :: s.chunks = ch :: s.chunks
    congr 1
    obtain ⟨c, u, co, pr, pa, ra⟩ := ch
    simp only at hunc hcomp hprops hparse
    subst hunc hcomp hprops hparse
    rfl
  · intro fuel cap tail hcap
    have hstep := chunkLoop_stored fuel s ch.control ch.raw tail cap hc' h1 h2 hcap
    rw [hs0] at hstep
    rw [storedHeader_fst, ← hctl, hunc]
    simp only [List.cons_append, List.nil_append]
    exact hstep

/-! ## One LZMA chunk -/

theorem lzma_step (pb : Nat) (hpb : pb ≤ 224)
    (hlclp : (paramsOfProps pb).lc + (paramsOfProps pb).lp ≤ 4)
    (w : WState) (s : RState) (ch : Chunk) (hinv : Inv pb w s) (c' : Coder) (h' : Hist)
    (hparse : parseRun (restartW ch w).dictBuf ch.parse (chunkCoder (restartW ch w)) (restartW ch w).hist
        = some (c', h'))
    (hsize : h'.size = (restartW ch w).hist.size + ch.unc) (hu1 : 1 ≤ ch.unc) (hu2 : ch.unc ≤ 2 ^ 21)
    (hctl : ch.control = lzmaControl (restartW ch w).flags ch.unc)
    (hprops : ch.props = (if (restartW ch w).flags.propsNeeded then some pb else none)) (hraw : ch.raw = [])
    (r : LoopRes) (ps : Probs) (e : Enc)
    (henc : (lzmaProg (restartW ch w) ch.unc).encRun (lzmaBits (restartW ch w) ch.parse)
        (chunkProbs (restartW ch w)) Enc.init = some (r, [], ps, e))
    (hlen : e.bytes.length ≤ 65536) (hcomp : ch.comp = e.bytes.length) :
    ∃ s', Inv pb (afterLzma (restartW ch w) r ps) s' ∧
      s'.out = s.out ++ h'.extract (restartW ch w).hist.size h'.size ∧
      s'.chunks = ch :: s.chunks ∧
      ∀ (fuel cap : Nat) (tail : List Nat), s.out.size + ch.unc ≤ cap →
        chunkLoop (fuel + 1) s
            ((lzmaHeader (restartW ch w).flags ch.unc e.bytes.length pb).1 ++ e.bytes ++ tail) cap
          = chunkLoop fuel s' tail cap := by
  have hdrp := restartW_drp pb w s ch hinv
  have hiff : (ch.control ≥ 0xE0 ∨ ch.control = 1) ↔ (restartW ch w).flags.dictResetNeeded = true := by
    rw [hctl, lzmaControl_reset _ _ hu2]
    constructor
    · exact fun h => h.2
    · exact fun h => ⟨hdrp h, h⟩
  obtain ⟨hinv1, hndr⟩ := inv_restart pb w s ch hinv hiff
  clear hiff hdrp hinv
  generalize restartW ch w = w1 at *
  obtain ⟨ctl, unc, comp, props, parse, raw⟩ := ch
  simp only at hparse hsize hu1 hu2 hctl hprops hraw henc hcomp hinv1 hndr
  subst hctl hprops hraw hcomp
  -- the symbol loop on the bits of the parse
  have hl : parse.length < unc + 1 := by
    have := parseRun_length_le' _ _ _ _ _ _ hparse; omega
  have hrun := loop_rt_size symRt' w1.params w1.dictBuf parse (chunkCoder w1) w1.hist c' h'
    (unc + 1) unc [] 0 [] hparse hsize hl
  simp only [List.append_nil, Nat.zero_add] at hrun
  have hrun2 := Prog.encRun_iff_runBits _ _ _ _ _ _ _ _ henc
  unfold lzmaProg lzmaBits at hrun2
  rw [hrun] at hrun2
  have hr : r = { stop := .limit, coder := c', hist := h', parse := parse.reverse, emitted := unc } := by
    injection hrun2 with h
    injection h with h _
    exact h.symm
  subst hr
  -- the range coder
  have hpok : ProbsOk (chunkProbs w1) := by
    unfold chunkProbs
    split
    · exact probsOk_fresh' _
    · rename_i h
      have h1 : w1.flags.propsNeeded = false := by
        cases hp : w1.flags.propsNeeded with
        | false => rfl
        | true => exact absurd (Or.inr hp) h
      have h2 : w1.flags.stateResetNeeded = false := by
        cases hp : w1.flags.stateResetNeeded with
        | false => rfl
        | true => exact absurd (Or.inl hp) h
      exact (hinv1.cont h1 h2).2.2
  obtain ⟨d0, d', hinit, hdec, hinp, hover, hcode, hhead, _, _, h5⟩ :=
    rc_roundtrip_fin _ _ _ hpok _ _ _ _ henc []
  rw [List.append_nil] at hinit
  have hfin : d'.normalize.isFinished = true := by
    unfold Dec.isFinished; rw [hinp, hover, hcode]; rfl
  have hpsok : ProbsOk ps := Prog.encRun_probsOk _ _ _ _ _ _ _ _ henc hpok
  unfold lzmaProg at hdec
  -- the reader state after the chunk
  refine ⟨{ afterProps (resetBy (lzmaControl w1.flags unc) s) w1 with
            hist := h', probs := ps, coder := c',
            out := (resetBy (lzmaControl w1.flags unc) s).out
                     ++ h'.extract (resetBy (lzmaControl w1.flags unc) s).hist.size h'.size,
            chunks := { control := lzmaControl w1.flags unc, unc := unc, comp := e.bytes.length,
                        props := if w1.flags.propsNeeded then some pb else none,
                        parse := parse.reverse.reverse, raw := [] }
                      :: (resetBy (lzmaControl w1.flags unc) s).chunks }, ?_, ?_, ?_, ?_⟩
  · obtain ⟨hdb, hh, hpar, _, _, _, _, _, _⟩ := hinv1
    refine ⟨hdb, rfl, hpar, ?_, ?_, ?_, rfl, ?_, ?_⟩
    · intro h
      have : (resetBy (lzmaControl w1.flags unc) s).needDictReset = true := h
      rw [hndr] at this; cases this
    · intro h; cases h
    · intro h; cases h
    · intro _; rfl
    · intro _ _; exact ⟨rfl, rfl, hpsok⟩
  · show (resetBy (lzmaControl w1.flags unc) s).out
        ++ h'.extract (resetBy (lzmaControl w1.flags unc) s).hist.size h'.size = _
    rw [resetBy_out, hinv1.hist]
  · show _ :: (resetBy (lzmaControl w1.flags unc) s).chunks = _
    rw [resetBy_chunks, List.reverse_reverse]
  · intro fuel cap tail hcap
    -- the header
    have hcp := chunkProps_writer pb hpb hlclp w1 _ unc hu2 hinv1 (e.bytes ++ tail)
    have hreset : (lzmaControl w1.flags unc ≥ 0xE0 ∨ lzmaControl w1.flags unc = 1) ∨ s.needDictReset = false := by
      by_cases hR : (lzmaControl w1.flags unc ≥ 0xE0 ∨ lzmaControl w1.flags unc = 1)
      · exact Or.inl hR
      · right
        have : resetBy (lzmaControl w1.flags unc) s = s := by unfold resetBy; rw [if_neg hR]
        rw [this] at hndr; exact hndr
    have hcap' : (afterProps (resetBy (lzmaControl w1.flags unc) s) w1).out.size + unc ≤ cap := by
      show (resetBy (lzmaControl w1.flags unc) s).out.size + unc ≤ cap
      rw [resetBy_out]; exact hcap
    have hdec' : (loopProg (afterProps (resetBy (lzmaControl w1.flags unc) s) w1).params
          (afterProps (resetBy (lzmaControl w1.flags unc) s) w1).dictBuf (unc + 1) (some unc)
          (afterProps (resetBy (lzmaControl w1.flags unc) s) w1).coder
          (afterProps (resetBy (lzmaControl w1.flags unc) s) w1).hist [] 0).decRun
          (afterProps (resetBy (lzmaControl w1.flags unc) s) w1).probs d0
        = ({ stop := .limit, coder := c', hist := h', parse := parse.reverse, emitted := unc }, ps, d') := by
      show (loopProg w1.params (resetBy (lzmaControl w1.flags unc) s).dictBuf (unc + 1) (some unc)
          (chunkCoder w1) (resetBy (lzmaControl w1.flags unc) s).hist [] 0).decRun (chunkProbs w1) d0 = _
      rw [hinv1.dictBuf, hinv1.hist]
      exact hdec
    have hstep := chunkLoop_lzma fuel s (lzmaControl w1.flags unc) (((unc - 1) / 256) % 256) ((unc - 1) % 256)
      (((e.bytes.length - 1) / 256) % 256) ((e.bytes.length - 1) % 256)
      ((if w1.flags.propsNeeded then [pb] else []) ++ (e.bytes ++ tail)) cap unc e.bytes.length
      (afterProps (resetBy (lzmaControl w1.flags unc) s) w1) (if w1.flags.propsNeeded then some pb else none)
      e.bytes tail d0 d' _ ps
      (lzmaControl_unc _ _ hu1 hu2) (be16_size _ (by omega) hlen) (lzmaControl_ge _ _)
      hreset hcp rfl h5 hhead hinit hcap' hdec' rfl hfin
    have hshape : (lzmaHeader w1.flags unc e.bytes.length pb).1 ++ e.bytes ++ tail
        = lzmaControl w1.flags unc :: ((unc - 1) / 256) % 256 :: (unc - 1) % 256 ::
          ((e.bytes.length - 1) / 256) % 256 :: (e.bytes.length - 1) % 256 ::
          ((if w1.flags.propsNeeded then [pb] else []) ++ (e.bytes ++ tail)) := by
      rw [lzmaHeader_fst]
      simp only [List.cons_append, List.append_assoc]
    rw [hshape]
    exact hstep

end LzmaVerif.Lzma2

#print axioms LzmaVerif.Lzma2.stored_step
#print axioms LzmaVerif.Lzma2.lzma_step
