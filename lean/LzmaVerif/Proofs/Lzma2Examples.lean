import LzmaVerif.Proofs.Lzma2
/-!
Fully concrete instance of the LZMA2 round trip (separate file: the kernel evaluation of the model writer on
the six-chunk example takes a few minutes).  The 60 bytes are also accepted by the real `xz`
(`xz --format=raw --lzma2=dict=4096 -dc`) and decode to `exData`.
-/
namespace LzmaVerif.Lzma2.Example
open LzmaVerif Lzma Lzma2

/-- the writer model's bytes for this sequence (60 bytes; kernel evaluation) -/
def exBytes : List Nat :=
  [224, 0, 5, 0, 7, 93, 0, 32, 144, 158, 4, 0, 0, 0, 128, 0, 1, 0, 5, 0, 194, 23, 252, 0, 0, 2, 0, 2, 1, 2, 3,
   160, 0, 3, 0, 6, 0, 34, 66, 12, 0, 0, 0, 224, 0, 0, 0, 5, 93, 0, 34, 127, 252, 0, 0, 1, 0, 0, 7, 0]

theorem exChunks_bytes : reencode 4096 #[] exChunks = some exBytes := by
  decide +kernel

/-- fully concrete: these 60 bytes followed by anything decode to the 17 data bytes and the 6 chunks -/
theorem exBytes_decode (rest : List Nat) (cap : Nat) (h : 17 ≤ cap) :
    decode 4096 #[] (exBytes ++ rest) cap
      = .ok { out := exData.toArray, consumed := 60, chunks := exChunks } := by
  obtain ⟨bytes, hb, hd⟩ := exChunks_roundtrip
  rw [exChunks_bytes] at hb
  cases hb
  exact hd rest cap h

end LzmaVerif.Lzma2.Example

#print axioms LzmaVerif.Lzma2.Example.exChunks_bytes
#print axioms LzmaVerif.Lzma2.Example.exBytes_decode
