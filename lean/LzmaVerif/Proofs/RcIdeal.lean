import Mathlib.Tactic.Ring
import Mathlib.Tactic.Linarith
/-! Ideal (unbounded) range encoder / decoder: nestedness and decoder simulation. -/
namespace LzmaVerif.Rc.Ideal

inductive Ev where
  | bit (p : Nat) (b : Bool)
  | direct (b : Bool)

structure St where
  L : Nat
  R : Nat
  k : Nat

def core (s : St) : Ev → St
  | .bit p b =>
    let bound := (s.R / 2^11) * p
    if b then { s with L := s.L + bound, R := s.R - bound } else { s with R := bound }
  | .direct b =>
    let r := s.R / 2
    if b then { s with L := s.L + r, R := r } else { s with R := r }

def norm (s : St) : St :=
  if s.R < 2^24 then { L := s.L * 256, R := s.R * 256, k := s.k + 1 } else s

def step (s : St) (e : Ev) : St := norm (core s e)

def run (s : St) : List Ev → St
  | [] => s
  | e :: es => run (step s e) es

def EvOk : Ev → Prop
  | .bit p _ => 31 ≤ p ∧ p ≤ 2017
  | .direct _ => True

/-- in-sync invariant of the range -/
def ROk (s : St) : Prop := 2^24 ≤ s.R ∧ s.R < 2^32

theorem core_R_pos (s : St) (e : Ev) (h : ROk s) (he : EvOk e) :
    2^16 ≤ (core s e).R ∧ (core s e).R < 2^32 := by
  obtain ⟨h1, h2⟩ := h
  cases e with
  | bit p b =>
    obtain ⟨hp1, hp2⟩ := he
    have hq : 2^13 ≤ s.R / 2^11 := by omega
    have hq2 : s.R / 2^11 < 2^21 := by omega
    have hb1 : (s.R / 2^11) * 31 ≤ (s.R / 2^11) * p := Nat.mul_le_mul_left _ hp1
    have hb2 : (s.R / 2^11) * p ≤ (s.R / 2^11) * 2017 := Nat.mul_le_mul_left _ hp2
    have hb3 : (s.R / 2^11) * 2048 ≤ s.R := by omega
    simp only [core]
    split <;> simp only <;> constructor <;> omega
  | direct b =>
    simp only [core]
    split <;> simp only <;> constructor <;> omega

theorem step_ROk (s : St) (e : Ev) (h : ROk s) (he : EvOk e) : ROk (step s e) := by
  obtain ⟨h1, h2⟩ := core_R_pos s e h he
  unfold step norm ROk
  split
  · simp only; omega
  · omega

/-- the sub-interval property, stated without subtraction:
    scaled lower end does not decrease, scaled upper end does not increase -/
theorem core_nested (s : St) (e : Ev) (h : ROk s) (he : EvOk e) :
    s.L ≤ (core s e).L ∧ (core s e).L + (core s e).R ≤ s.L + s.R ∧ (core s e).k = s.k := by
  obtain ⟨h1, h2⟩ := h
  cases e with
  | bit p b =>
    obtain ⟨hp1, hp2⟩ := he
    have hb2 : (s.R / 2^11) * p ≤ (s.R / 2^11) * 2017 := Nat.mul_le_mul_left _ hp2
    have hb3 : (s.R / 2^11) * 2048 ≤ s.R := by omega
    simp only [core]
    split <;> simp only [and_true] <;> omega
  | direct b =>
    simp only [core]
    split <;> simp only [and_true] <;> omega

theorem norm_cases (c : St) :
    (c.R < 2^24 ∧ norm c = { L := c.L * 256, R := c.R * 256, k := c.k + 1 }) ∨
    (¬ c.R < 2^24 ∧ norm c = c) := by
  unfold norm
  by_cases h : c.R < 2^24
  · left; exact ⟨h, by rw [if_pos h]⟩
  · right; exact ⟨h, by rw [if_neg h]⟩

/-- Nestedness: the final low lies in the (scaled) interval of every earlier state. -/
theorem run_nested (es : List Ev) : ∀ (s : St), ROk s → (∀ e ∈ es, EvOk e) →
    s.k ≤ (run s es).k ∧
    s.L * 256 ^ ((run s es).k - s.k) ≤ (run s es).L ∧
    (run s es).L < (s.L + s.R) * 256 ^ ((run s es).k - s.k) := by
  induction es with
  | nil =>
    intro s h _
    simp only [run, Nat.sub_self, Nat.pow_zero, Nat.mul_one]
    obtain ⟨h1, _⟩ := h
    refine ⟨Nat.le_refl _, Nat.le_refl _, ?_⟩; omega
  | cons e es ih =>
    intro s h hall
    have he : EvOk e := hall e (by simp)
    have hall' : ∀ e' ∈ es, EvOk e' := fun e' h' => hall e' (by simp [h'])
    have hs' := step_ROk s e h he
    obtain ⟨ihk, ihlo, ihhi⟩ := ih (step s e) hs' hall'
    obtain ⟨cn1, cn2, cn3⟩ := core_nested s e h he
    simp only [run]
    generalize hT : run (step s e) es = T at *
    rcases norm_cases (core s e) with ⟨hlt, hn⟩ | ⟨hlt, hn⟩
    · -- normalised: k+1, L*256, R*256
      simp only [step, hn] at ihk ihlo ihhi
      rw [cn3] at ihk ihlo ihhi
      have hk : T.k - s.k = (T.k - (s.k + 1)) + 1 := by omega
      refine ⟨by omega, ?_, ?_⟩
      · rw [hk, Nat.pow_succ]
        calc s.L * (256 ^ (T.k - (s.k + 1)) * 256)
            ≤ (core s e).L * (256 ^ (T.k - (s.k + 1)) * 256) := Nat.mul_le_mul_right _ cn1
          _ = (core s e).L * 256 * 256 ^ (T.k - (s.k + 1)) := by ring
          _ ≤ T.L := ihlo
      · rw [hk, Nat.pow_succ]
        calc T.L < ((core s e).L * 256 + (core s e).R * 256) * 256 ^ (T.k - (s.k + 1)) := ihhi
          _ = ((core s e).L + (core s e).R) * (256 ^ (T.k - (s.k + 1)) * 256) := by ring
          _ ≤ (s.L + s.R) * (256 ^ (T.k - (s.k + 1)) * 256) := Nat.mul_le_mul_right _ cn2
    · simp only [step, hn] at ihk ihlo ihhi
      rw [cn3] at ihk ihlo ihhi
      refine ⟨ihk, ?_, ?_⟩
      · exact Nat.le_trans (Nat.mul_le_mul_right _ cn1) ihlo
      · exact Nat.lt_of_lt_of_le ihhi (Nat.mul_le_mul_right _ cn2)





/-- ideal decoder: reads digits of the final number `F` that has `K` shifts in total -/
structure Dec where
  range : Nat
  code : Nat
  k : Nat

def digit (F K k : Nat) : Nat := (F / 256 ^ (K - k - 1)) % 256

def dnorm (F K : Nat) (d : Dec) : Dec :=
  if d.range < 2^24 then { range := d.range * 256, code := d.code * 256 + digit F K d.k, k := d.k + 1 } else d

def dstep (F K : Nat) (d0 : Dec) : Ev → Bool × Dec
  | .bit p _ =>
    let d := dnorm F K d0
    let bound := (d.range / 2^11) * p
    if d.code < bound then (false, { d with range := bound })
    else (true, { d with range := d.range - bound, code := d.code - bound })
  | .direct _ =>
    let d := dnorm F K d0
    let r := d.range / 2
    if d.code < r then (false, { d with range := r })
    else (true, { d with range := r, code := d.code - r })

def evBit : Ev → Bool
  | .bit _ b => b
  | .direct b => b

/-- decoder state `d` is in step with the encoder's pre-normalisation state `c` -/
def Sim (F K : Nat) (c : St) (d : Dec) : Prop :=
  d.range = c.R ∧ d.k = c.k ∧ c.k ≤ K ∧ d.code + c.L = F / 256 ^ (K - c.k)

/-- pre-normalisation states: range may be as small as 2^16 -/
def PreOk (c : St) : Prop := 2^16 ≤ c.R ∧ c.R < 2^32

theorem norm_ROk (c : St) (h : PreOk c) : ROk (norm c) := by
  obtain ⟨h1, h2⟩ := h
  rcases norm_cases c with ⟨hlt, hn⟩ | ⟨hlt, hn⟩ <;> rw [hn] <;> unfold ROk
  · simp only; omega
  · omega

theorem pre_nested (c : St) (es : List Ev) (h : PreOk c) (hall : ∀ e ∈ es, EvOk e) :
    c.k ≤ (run (norm c) es).k ∧
    c.L * 256 ^ ((run (norm c) es).k - c.k) ≤ (run (norm c) es).L ∧
    (run (norm c) es).L < (c.L + c.R) * 256 ^ ((run (norm c) es).k - c.k) := by
  obtain ⟨ihk, ihlo, ihhi⟩ := run_nested es (norm c) (norm_ROk c h) hall
  generalize run (norm c) es = T at *
  rcases norm_cases c with ⟨hlt, hn⟩ | ⟨hlt, hn⟩
  · simp only [hn] at ihk ihlo ihhi
    have hk : T.k - c.k = (T.k - (c.k + 1)) + 1 := by omega
    refine ⟨by omega, ?_, ?_⟩
    · rw [hk, Nat.pow_succ]
      calc c.L * (256 ^ (T.k - (c.k + 1)) * 256) = c.L * 256 * 256 ^ (T.k - (c.k + 1)) := by ring
        _ ≤ T.L := ihlo
    · rw [hk, Nat.pow_succ]
      calc T.L < (c.L * 256 + c.R * 256) * 256 ^ (T.k - (c.k + 1)) := ihhi
        _ = (c.L + c.R) * (256 ^ (T.k - (c.k + 1)) * 256) := by ring
  · simp only [hn] at ihk ihlo ihhi
    exact ⟨ihk, ihlo, ihhi⟩

theorem floor_between (F L R M : Nat) (hM : 0 < M) (h1 : L * M ≤ F) (h2 : F < (L + R) * M) :
    L ≤ F / M ∧ F / M < L + R := by
  constructor
  · exact (Nat.le_div_iff_mul_le hM).mpr h1
  · exact (Nat.div_lt_iff_lt_mul hM).mpr h2

theorem digit_spec (F K k : Nat) (h : k + 1 ≤ K) :
    F / 256 ^ (K - (k + 1)) = (F / 256 ^ (K - k)) * 256 + digit F K k := by
  unfold digit
  have e : K - k = (K - k - 1) + 1 := by omega
  have e2 : K - (k + 1) = K - k - 1 := by omega
  rw [e2]
  generalize K - k - 1 = m at *
  rw [e, Nat.pow_succ, ← Nat.div_div_eq_div_mul]
  have := Nat.div_add_mod (F / 256 ^ m) 256
  omega

/-- dnorm mirrors norm -/
theorem dnorm_sim (F K : Nat) (c : St) (d : Dec) (h : Sim F K c d) (hk : (norm c).k ≤ K) :
    Sim F K (norm c) (dnorm F K d) := by
  obtain ⟨hr, hk', hkK, hc⟩ := h
  rcases norm_cases c with ⟨hlt, hn⟩ | ⟨hlt, hn⟩
  · rw [hn] at hk ⊢
    simp only at hk
    have hd : d.range < 2^24 := by omega
    simp only [dnorm, hd, if_true, Sim]
    refine ⟨by omega, by omega, hk, ?_⟩
    rw [digit_spec F K c.k hk, ← hc, hk']
    ring
  · rw [hn]
    have hd : ¬ d.range < 2^24 := by omega
    simp only [dnorm, hd, if_false]
    exact ⟨hr, hk', hkK, hc⟩

/-- one event: the decoder returns the encoded bit and stays in step -/
theorem dstep_sim (c : St) (d : Dec) (e : Ev) (es : List Ev)
    (hc : PreOk c) (he : EvOk e) (hall : ∀ e' ∈ es, EvOk e')
    (F K : Nat) (hF : F = (run (norm c) (e :: es)).L) (hK : K = (run (norm c) (e :: es)).k)
    (hs : Sim F K c d) :
    (dstep F K d e).1 = evBit e ∧ Sim F K (core (norm c) e) (dstep F K d e).2 := by
  have hn := norm_ROk c hc
  have hcore := core_R_pos (norm c) e hn he
  have hpre : PreOk (core (norm c) e) := hcore
  -- nestedness of the next pre-normalisation state
  have hnest := pre_nested (core (norm c) e) es hpre hall
  simp only [run, step] at hF hK
  rw [← hF, ← hK] at hnest
  obtain ⟨nk, nlo, nhi⟩ := hnest
  obtain ⟨cn1, cn2, cn3⟩ := core_nested (norm c) e hn he
  have hkn : (norm c).k ≤ K := by omega
  have hs' := dnorm_sim F K c d hs hkn
  obtain ⟨sr, sk, skK, sc⟩ := hs'
  have hM : 0 < 256 ^ (K - (core (norm c) e).k) := Nat.pow_pos (by decide)
  obtain ⟨fl, fh⟩ := floor_between F _ _ _ hM nlo nhi
  rw [cn3] at fl fh nk
  generalize hX : F / 256 ^ (K - (norm c).k) = X at *
  generalize norm c = s at *
  cases e with
  | bit p b =>
    simp only [dstep, evBit]
    generalize dnorm F K d = d1 at *
    simp only [core] at nlo nhi fl fh ⊢
    cases b
    · -- encoded 0: interval [L, L+bound)
      simp only [Bool.false_eq_true, if_false] at fl fh ⊢
      have hlt : d1.code < d1.range / 2 ^ 11 * p := by rw [sr]; omega
      simp only [hlt, if_true, Sim]
      refine ⟨trivial, by rw [sr], sk, skK, ?_⟩
      rw [hX]; exact sc
    · simp only [if_true] at fl fh ⊢
      have hge : ¬ d1.code < d1.range / 2 ^ 11 * p := by rw [sr]; omega
      simp only [hge, if_false, Sim]
      refine ⟨trivial, by rw [sr], sk, skK, ?_⟩
      rw [hX, sr]; omega
  | direct b =>
    simp only [dstep, evBit]
    generalize dnorm F K d = d1 at *
    simp only [core] at nlo nhi fl fh ⊢
    cases b
    · simp only [Bool.false_eq_true, if_false] at fl fh ⊢
      have hlt : d1.code < d1.range / 2 := by rw [sr]; omega
      simp only [hlt, if_true, Sim]
      refine ⟨trivial, by rw [sr], sk, skK, ?_⟩
      rw [hX]; exact sc
    · simp only [if_true] at fl fh ⊢
      have hge : ¬ d1.code < d1.range / 2 := by rw [sr]; omega
      simp only [hge, if_false, Sim]
      refine ⟨trivial, by rw [sr], sk, skK, ?_⟩
      rw [hX, sr]; omega

end LzmaVerif.Rc.Ideal

