import LzmaVerif.Model.Parse
import Mathlib.Tactic.Ring
import Mathlib.Tactic.Linarith
/-!
Symbol round trip for the LZMA symbol coder model: the decoder's decision program (`symProg`),
run on the encoder's answers (`symBits`) followed by anything, returns the symbol and leaves the rest.
-/
namespace LzmaVerif.Prog

theorem runBits_bind {α β : Type} (p : Prog α) (f : α → Prog β) (bs : List Bool) :
    (bind p f).runBits bs = (p.runBits bs).bind (fun r => (f r.1).runBits r.2) := by
  induction p generalizing bs with
  | ret a => rfl
  | bit i k ih =>
    cases bs with
    | nil => rfl
    | cons b bs => exact ih b bs
  | direct k ih =>
    cases bs with
    | nil => rfl
    | cons b bs => exact ih b bs

/-- the form used for rewriting: once the first program's run is known, continue with the second -/
theorem runBits_bind_of {α β : Type} {p : Prog α} {bs bs' : List Bool} {a : α}
    (h : p.runBits bs = some (a, bs')) (f : α → Prog β) :
    (bind p f).runBits bs = (f a).runBits bs' := by
  rw [runBits_bind, h]; rfl

theorem runBits_bit_cons {α : Type} (i : Nat) (k : Bool → Prog α) (b : Bool) (bs : List Bool) :
    (bit i k).runBits (b :: bs) = (k b).runBits bs := rfl

theorem runBits_direct_cons {α : Type} (k : Bool → Prog α) (b : Bool) (bs : List Bool) :
    (direct k).runBits (b :: bs) = (k b).runBits bs := rfl

theorem runBits_ret {α : Type} (a : α) (bs : List Bool) :
    (ret a : Prog α).runBits bs = some (a, bs) := rfl

end LzmaVerif.Prog

namespace LzmaVerif.Lzma
open LzmaVerif Prog

/-! ## Bits -/

theorem b2n_n2b (x : Nat) : b2n (n2b x) = x % 2 := by
  unfold b2n n2b
  by_cases h : x % 2 = 1
  · simp only [h, decide_true, if_true]
  · have h0 : x % 2 = 0 := by omega
    simp only [h0]
    rfl

theorem mod_pow_succ_msb (v n : Nat) : v % 2 ^ (n + 1) = (v / 2 ^ n % 2) * 2 ^ n + v % 2 ^ n := by
  rw [Nat.mod_pow_succ, Nat.mul_comm, Nat.add_comm]

theorem mod_pow_succ_lsb (v n : Nat) : v % 2 ^ (n + 1) = v % 2 + 2 * (v / 2 % 2 ^ n) := by
  rw [Nat.pow_succ', Nat.mod_mul]

/-! ## Trees and direct bits -/

theorem bitTreeAux_rt (base : Nat) (n m v : Nat) (rest : List Bool) :
    (bitTreeAux base n m).runBits (bitsMSB n v ++ rest) = some (m * 2 ^ n + v % 2 ^ n, rest) := by
  induction n generalizing m with
  | zero =>
    simp only [bitTreeAux, bitsMSB, List.nil_append, runBits_ret, Nat.pow_zero, Nat.mod_one,
      Nat.mul_one, Nat.add_zero]
  | succ n ih =>
    simp only [bitTreeAux, bitsMSB, List.cons_append, runBits_bit_cons]
    rw [ih, b2n_n2b, mod_pow_succ_msb, Nat.pow_succ]
    congr 2
    ring

theorem bitTree_rt (base : Nat) (n v : Nat) (hv : v < 2 ^ n) (rest : List Bool) :
    (bitTree base n).runBits (bitsMSB n v ++ rest) = some (v, rest) := by
  unfold bitTree
  rw [runBits_bind_of (bitTreeAux_rt base n 1 v rest), runBits_ret, Nat.mod_eq_of_lt hv]
  congr 2
  omega

theorem revTreeAux_rt (base : Nat) (n m i acc v : Nat) (rest : List Bool) :
    (revTreeAux base n m i acc).runBits (bitsLSB n v ++ rest)
      = some (acc + (v % 2 ^ n) * 2 ^ i, rest) := by
  induction n generalizing m i acc v with
  | zero =>
    simp only [revTreeAux, bitsLSB, List.nil_append, runBits_ret, Nat.pow_zero, Nat.mod_one,
      Nat.zero_mul, Nat.add_zero]
  | succ n ih =>
    simp only [revTreeAux, bitsLSB, List.cons_append, runBits_bit_cons]
    rw [ih, b2n_n2b, mod_pow_succ_lsb, Nat.pow_succ]
    congr 2
    ring

theorem revTree_rt (base : Nat) (n v : Nat) (hv : v < 2 ^ n) (rest : List Bool) :
    (revTree base n).runBits (bitsLSB n v ++ rest) = some (v, rest) := by
  unfold revTree
  rw [revTreeAux_rt, Nat.mod_eq_of_lt hv]
  simp only [Nat.pow_zero, Nat.mul_one, Nat.zero_add]

theorem directBits_rt (n acc v : Nat) (rest : List Bool) :
    (directBits n acc).runBits (bitsMSB n v ++ rest) = some (acc * 2 ^ n + v % 2 ^ n, rest) := by
  induction n generalizing acc with
  | zero =>
    simp only [directBits, bitsMSB, List.nil_append, runBits_ret, Nat.pow_zero, Nat.mod_one,
      Nat.mul_one, Nat.add_zero]
  | succ n ih =>
    simp only [directBits, bitsMSB, List.cons_append, runBits_direct_cons]
    rw [ih, b2n_n2b, mod_pow_succ_msb, Nat.pow_succ]
    congr 2
    ring

/-! ## Lengths -/

theorem lenProg_rt (base posState len : Nat) (h2 : 2 ≤ len) (h273 : len ≤ 273) (rest : List Bool) :
    (lenProg base posState).runBits (lenBits len ++ rest) = some (len, rest) := by
  unfold lenProg lenBits
  by_cases h10 : len < 10
  · rw [if_pos h10]
    simp only [List.cons_append, runBits_bit_cons, Bool.not_false, if_true]
    rw [runBits_bind_of (bitTree_rt _ 3 (len - 2) (by simp only [Nat.reducePow]; omega) rest),
      runBits_ret]
    congr 2
    omega
  · rw [if_neg h10]
    by_cases h18 : len < 18
    · rw [if_pos h18]
      simp only [List.cons_append, runBits_bit_cons, Bool.not_false, Bool.not_true, if_true,
        Bool.false_eq_true, if_false]
      rw [runBits_bind_of (bitTree_rt _ 3 (len - 10) (by simp only [Nat.reducePow]; omega) rest),
        runBits_ret]
      congr 2
      omega
    · rw [if_neg h18]
      simp only [List.cons_append, runBits_bit_cons, Bool.not_true, Bool.false_eq_true, if_false]
      rw [runBits_bind_of (bitTree_rt _ 8 (len - 18) (by simp only [Nat.reducePow]; omega) rest),
        runBits_ret]
      congr 2
      omega

/-! ## Distances -/

/-- shape of `get_dist_slot` for `dist ≥ 4`: `dist = (2 + t) * 2^L + r` with `r < 2^L`, and the slot
    is `2 * (L + 1) + t` -/
theorem distSlot_spec (dist : Nat) (h4 : 4 ≤ dist) (h32 : dist < 2 ^ 32) :
    ∃ L t r, distSlot dist = 2 * (L + 1) + t ∧ t < 2 ∧ 1 ≤ L ∧ L ≤ 30 ∧ r < 2 ^ L ∧
      dist = (2 + t) * 2 ^ L + r := by
  by_cases h : dist = 4
  · subst h
    exact ⟨1, 0, 0, by decide, by decide, by decide, by decide, by decide, by decide⟩
  · have hd : dist ≠ 0 := by omega
    have hlo : 2 ^ (Nat.log2 dist) ≤ dist := Nat.log2_self_le hd
    have hhi : dist < 2 ^ (Nat.log2 dist + 1) := Nat.lt_log2_self
    unfold distSlot
    rw [if_neg (by omega : ¬ dist ≤ 4)]
    simp only
    generalize Nat.log2 dist = i at *
    have hi2 : 2 ≤ i := by
      by_contra hc
      have : 2 ^ (i + 1) ≤ 2 ^ 2 := Nat.pow_le_pow_right (by decide) (by omega)
      omega
    have hi31 : i ≤ 31 := by
      by_contra hc
      have : 2 ^ 32 ≤ 2 ^ i := Nat.pow_le_pow_right (by decide) (by omega)
      omega
    obtain ⟨j, rfl⟩ : ∃ j, i = j + 1 := ⟨i - 1, by omega⟩
    simp only [Nat.add_sub_cancel]
    have hp1 : 2 ^ (j + 1) = 2 * 2 ^ j := Nat.pow_succ'
    have hp2 : 2 ^ (j + 1 + 1) = 4 * 2 ^ j := by rw [Nat.pow_succ', hp1]; omega
    rw [hp1] at hlo
    rw [hp2] at hhi
    have hP : 0 < 2 ^ j := Nat.pow_pos (by decide)
    generalize hPe : 2 ^ j = P at *
    have hq2 : 2 ≤ dist / P := (Nat.le_div_iff_mul_le hP).2 (by omega)
    have hq4 : dist / P < 4 := (Nat.div_lt_iff_lt_mul hP).2 (by omega)
    have hdm : P * (dist / P) + dist % P = dist := Nat.div_add_mod dist P
    have hr : dist % P < P := Nat.mod_lt _ hP
    refine ⟨j, dist / P % 2, dist % P, rfl, Nat.mod_lt _ (by decide), by omega, by omega,
      by rw [hPe]; exact hr, ?_⟩
    rw [hPe]
    have hq : dist / P = 2 ∨ dist / P = 3 := by omega
    rcases hq with hq | hq <;> rw [hq] at hdm ⊢ <;> omega

theorem distProg_rt (dist len : Nat) (h32 : dist < 2 ^ 32) (rest : List Bool) :
    (distProg len).runBits (distBits dist len ++ rest) = some (dist, rest) := by
  unfold distProg distBits
  simp only [List.append_assoc]
  by_cases h4 : dist < 4
  · have hs : distSlot dist = dist := by unfold distSlot; rw [if_pos (by omega)]
    rw [hs, runBits_bind_of (bitTree_rt _ 6 dist (by simp only [Nat.reducePow]; omega) _)]
    rw [if_pos h4, if_pos h4]
    rfl
  · obtain ⟨L, t, r, hs, ht, hL1, hL30, hr, hd⟩ := distSlot_spec dist (by omega) h32
    rw [hs, runBits_bind_of (bitTree_rt _ 6 (2 * (L + 1) + t) (by simp only [Nat.reducePow]; omega) _)]
    have e1 : (2 * (L + 1) + t) / 2 - 1 = L := by omega
    have e2 : (2 * (L + 1) + t) % 2 = t := by omega
    have e3 : dist - (2 + t) * 2 ^ L = r := by omega
    rw [if_neg (by omega : ¬ 2 * (L + 1) + t < 4), if_neg (by omega : ¬ 2 * (L + 1) + t < 4)]
    simp only [e1, e2, e3]
    by_cases h14 : 2 * (L + 1) + t < 14
    · rw [if_pos h14, if_pos h14, runBits_bind_of (revTree_rt _ L r hr rest), runBits_ret, ← hd]
    · rw [if_neg h14, if_neg h14]
      obtain ⟨K, rfl⟩ : ∃ K, L = K + 4 := ⟨L - 4, by omega⟩
      simp only [Nat.add_sub_cancel, List.append_assoc]
      have hr' : r / 16 < 2 ^ K := by
        rw [Nat.div_lt_iff_lt_mul (by decide)]
        rw [Nat.pow_add] at hr
        exact hr
      rw [runBits_bind_of (directBits_rt K 0 (r / 16) _),
        runBits_bind_of (revTree_rt _ 4 (r % 16) (Nat.mod_lt _ (by decide)) rest), runBits_ret,
        Nat.mod_eq_of_lt hr']
      congr 2
      omega

/-! ## Literals -/

theorem litPlain_rt (base b : Nat) (hb : b < 256) (rest : List Bool) :
    (litPlain base).runBits (bitsMSB 8 b ++ rest) = some (b, rest) := by
  unfold litPlain
  have e : 1 * 2 ^ 8 + b % 2 ^ 8 - 256 = b := by omega
  rw [runBits_bind_of (bitTreeAux_rt base 8 1 b rest), runBits_ret, e]

theorem litMatchedAux_rt (base : Nat) (n symbol offset matchByte b : Nat) (rest : List Bool) :
    (litMatchedAux base n symbol offset matchByte).runBits (bitsMSB n b ++ rest)
      = some (symbol * 2 ^ n + b % 2 ^ n - 256, rest) := by
  induction n generalizing symbol offset matchByte with
  | zero =>
    simp only [litMatchedAux, bitsMSB, List.nil_append, runBits_ret, Nat.pow_zero, Nat.mod_one,
      Nat.mul_one, Nat.add_zero]
  | succ n ih =>
    simp only [litMatchedAux, bitsMSB, List.cons_append, runBits_bit_cons]
    rw [ih, b2n_n2b, mod_pow_succ_msb, Nat.pow_succ]
    congr 3
    ring

theorem litMatched_rt (base matchByte b : Nat) (hb : b < 256) (rest : List Bool) :
    (litMatched base matchByte).runBits (bitsMSB 8 b ++ rest) = some (b, rest) := by
  unfold litMatched
  have e : 1 * 2 ^ 8 + b % 2 ^ 8 - 256 = b := by omega
  rw [litMatchedAux_rt, e]

/-! ## One symbol -/


/-- **Symbol round trip**: for every parameter set, every context and every admissible symbol, the
decoder's decision program, run on the encoder's bits followed by anything, returns exactly that symbol
and leaves exactly the rest. -/
theorem sym_rt (pr : Params) (c : Ctx) (s : Sym) (hs : SymOk s) (rest : List Bool) :
    (symProg pr c).runBits (symBits pr c s ++ rest) = some (s, rest) := by
  cases s with
  | lit b =>
    have hb : b < 256 := hs
    simp only [symProg, symBits, List.cons_append, runBits_bit_cons, Bool.not_false, if_true]
    by_cases hl : stIsLiteral c.state = true
    · rw [if_pos hl, runBits_bind_of (litPlain_rt _ b hb rest), runBits_ret]
    · rw [if_neg hl, runBits_bind_of (litMatched_rt _ _ b hb rest), runBits_ret]
  | mtch dist len =>
    obtain ⟨h2, h273, h32⟩ := hs
    simp only [symProg, symBits, List.cons_append, List.append_assoc, runBits_bit_cons,
      Bool.not_false, Bool.not_true, if_true, Bool.false_eq_true, if_false]
    rw [runBits_bind_of (lenProg_rt _ _ len h2 h273 _),
      runBits_bind_of (distProg_rt dist len h32 rest), runBits_ret]
  | shortRep =>
    simp only [symProg, symBits, List.cons_append, List.nil_append, runBits_bit_cons,
      Bool.not_false, Bool.not_true, if_true, Bool.false_eq_true, if_false, runBits_ret]
  | rep i len =>
    obtain ⟨hi, h2, h273⟩ := hs
    have hi' : i = 0 ∨ i = 1 ∨ i = 2 ∨ i = 3 := by omega
    rcases hi' with rfl | rfl | rfl | rfl
    · have e : symBits pr c (.rep 0 len) = true :: true :: false :: true :: lenBits len := rfl
      rw [e]
      simp only [symProg, List.cons_append, runBits_bit_cons,
        Bool.not_false, Bool.not_true, if_true, Bool.false_eq_true, if_false]
      rw [runBits_bind_of (lenProg_rt _ _ len h2 h273 rest), runBits_ret]
    · have e : symBits pr c (.rep 1 len) = true :: true :: true :: false :: lenBits len := rfl
      rw [e]
      simp only [symProg, List.cons_append, runBits_bit_cons,
        Bool.not_false, Bool.not_true, if_true, Bool.false_eq_true, if_false]
      rw [runBits_bind_of (lenProg_rt _ _ len h2 h273 rest), runBits_ret]
    · have e : symBits pr c (.rep 2 len)
          = true :: true :: true :: true :: false :: lenBits len := rfl
      rw [e]
      simp only [symProg, List.cons_append, runBits_bit_cons,
        Bool.not_true, Bool.false_eq_true, if_false]
      rw [runBits_bind_of (lenProg_rt _ _ len h2 h273 rest), runBits_ret]
    · have e : symBits pr c (.rep 3 len)
          = true :: true :: true :: true :: true :: lenBits len := rfl
      rw [e]
      simp only [symProg, List.cons_append, runBits_bit_cons,
        Bool.not_true, if_true, Bool.false_eq_true, if_false]
      rw [runBits_bind_of (lenProg_rt _ _ len h2 h273 rest), runBits_ret]

/-! ## Non-vacuity: concrete instances, evaluated by the kernel -/

/-- a match with distance 1000 and length 5 (slot 19: 6 slot bits, 4 direct bits, 4 align bits) -/
example :
    (symProg ⟨3, 0, 2⟩ ⟨0, 7, 65, 66⟩).runBits (symBits ⟨3, 0, 2⟩ ⟨0, 7, 65, 66⟩ (.mtch 1000 5))
      = some (.mtch 1000 5, []) := by decide

/-- the end-marker distance `0xFFFFFFFF` (slot 63: 26 direct bits, 4 align bits) -/
example : (distProg 2).runBits (distBits 0xFFFFFFFF 2) = some (0xFFFFFFFF, []) := by decide

/-- a literal after a match (the `offset`/`match_byte` walk) -/
example :
    (symProg ⟨3, 0, 2⟩ ⟨7, 9, 65, 0xA5⟩).runBits (symBits ⟨3, 0, 2⟩ ⟨7, 9, 65, 0xA5⟩ (.lit 0x5A) ++ [true])
      = some (.lit 0x5A, [true]) := by decide

end LzmaVerif.Lzma

#print axioms LzmaVerif.Lzma.sym_rt
