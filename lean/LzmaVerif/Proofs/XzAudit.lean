import LzmaVerif.Proofs.XzMulti
/-! C04: rejection of non-XZ input, consumption bound, and the auditing reader (acceptance implies that every
stored check was compared with — and equals — the check computed over the block data). -/
namespace LzmaVerif.Xz
open LzmaVerif Lzma Checks

/-! ## Rejection and consumption bound -/
/-- **C04**: input that does not start with the XZ magic is rejected (also when shorter than the magic). -/
theorem decode_rejects_non_xz (multi : Bool) (inp : List Nat) (cap : Nat) (h : inp.take 6 ≠ Consts.XZ_MAGIC) :
    ∃ e, Xz.decode multi inp cap = .err e := by
  unfold Xz.decode parseStreamHeader takeN
  by_cases hl : inp.length < 6
  · exact ⟨.eof, by simp [hl, bind, Except.bind]⟩
  · exact ⟨.invalidData, by simp [hl, h, bind, Except.bind]; rfl⟩

theorem readBlocks_consumed_le (multi : Bool) (total cap : Nat) : ∀ (fuel : Nat) (chk : Check) (inp acc : List Nat)
    (blks : List Block) (d : List Nat) (n : Nat) (b : List Block),
    readBlocks multi total fuel chk inp acc blks cap = .ok d n b → n ≤ total := by
  intro fuel
  induction fuel with
  | zero => intro chk inp acc blks d n b h; simp [readBlocks] at h
  | succ fuel ih =>
    intro chk inp acc blks d n b h
    unfold readBlocks at h
    split at h
    · cases h
    · split at h
      · cases h
      · cases h
      · split at h
        · cases h
        · exact ih _ _ _ _ _ _ _ h
    · split at h
      · cases h
      · split at h
        · cases h
        · split at h
          · cases h
          · split at h
            · cases h
            · split at h
              · cases h
              · split at h
                · cases h
                · split at h
                  · injection h with h1 h2 h3
                    omega
                  · split at h
                    · cases h
                    · injection h with h1 h2 h3
                      omega
                    · exact ih _ _ _ _ _ _ _ h

/-- **C04 / C16**: the reader never claims to have consumed more than it was given. -/
theorem decode_consumed_le (multi : Bool) (inp : List Nat) (cap : Nat) (d : List Nat) (n : Nat) (b : List Block)
    (h : Xz.decode multi inp cap = .ok d n b) : n ≤ inp.length := by
  unfold Xz.decode at h
  split at h
  · cases h
  · exact readBlocks_consumed_le multi _ cap _ _ _ _ _ _ _ _ h

/-! ## Auditing reader -/
/-- one audited check comparison: the check type of the stream, the bytes read from the input, the block data -/
structure Audit where
  chk : Check
  stored : List Nat
  data : List Nat

/-- `decodeBlockBody`, additionally returning the stored check bytes it read from the input
    (`[]` when it did not get that far) -/
def decodeBlockBodyA (chk : Check) (h : BlockHeader) (consumedBefore : Nat) (inp : List Nat) (cap : Nat) :
    BRes × List Nat :=
  if (h.filters.dropLast.any fun f => match f with | .lzma2 _ => true | _ => false) then (.capped, []) else
  match Lzma2.decode (lzma2Dict h.filters) #[] inp cap with
  | .capped => (.capped, [])
  | .err e => (.err e, [])
  | .ok r =>
    let rest := inp.drop r.consumed
    let data := unfilter h.filters r.out.toList
    let total := consumedBefore + r.consumed
    let padN := (4 - total % 4) % 4
    match takeN padN rest with
    | .error e => (.err e, [])
    | .ok (pad, rest) =>
      if pad.any (· ≠ 0) then (.err .invalidData, []) else
      match takeN chk.size rest with
      | .error e => (.err e, [])
      | .ok (stored, rest) =>
        if stored ≠ chk.compute data then (.err .invalidData, stored)
        else if declaredMismatch h.compSize r.consumed then (.err .invalidData, stored)
        else if declaredMismatch h.uncompSize data.length then (.err .invalidData, stored)
        else (.ok { header := h, data, payload := inp.take r.consumed } rest, stored)

theorem decodeBlockBodyA_fst (chk : Check) (h : BlockHeader) (cb : Nat) (inp : List Nat) (cap : Nat) :
    (decodeBlockBodyA chk h cb inp cap).1 = decodeBlockBody chk h cb inp cap := by
  unfold decodeBlockBodyA decodeBlockBody
  split
  · rename_i h1
    rw [if_pos]
    rw [List.any_eq_true] at h1 ⊢
    obtain ⟨f, hf, hm⟩ := h1
    exact ⟨f, hf, by cases f <;> simp_all⟩
  · rename_i h1
    rw [if_neg]
    · generalize Lzma2.decode (lzma2Dict h.filters) #[] inp cap = R
      cases R with
      | capped => rfl
      | err e => rfl
      | ok r =>
        simp only []
        generalize takeN ((4 - (cb + r.consumed) % 4) % 4) (List.drop r.consumed inp) = T
        cases T with
        | error e => rfl
        | ok v =>
          obtain ⟨pad, rest⟩ := v
          simp only []
          split
          · rfl
          · generalize takeN chk.size rest = T2
            cases T2 with
            | error e => rfl
            | ok v2 =>
              obtain ⟨stored, rest2⟩ := v2
              simp only []
              split
              · rfl
              · split
                · rfl
                · split <;> rfl
    · intro h2
      apply h1
      rw [List.any_eq_true] at h2 ⊢
      obtain ⟨f, hf, hm⟩ := h2
      exact ⟨f, hf, by cases f <;> simp_all⟩


/-- an accepted block: the stored check bytes were read from the input right before the unread rest,
    and they equal the check computed over the block's (unfiltered) data -/
theorem decodeBlockBodyA_ok (chk : Check) (h : BlockHeader) (cb : Nat) (inp : List Nat) (cap : Nat)
    (blk : Block) (rest stored : List Nat)
    (hd : decodeBlockBodyA chk h cb inp cap = (.ok blk rest, stored)) :
    stored = chk.compute blk.data ∧ stored.length = chk.size ∧ ∃ front, inp = front ++ stored ++ rest := by
  unfold decodeBlockBodyA at hd
  split at hd
  · cases hd
  · split at hd
    · cases hd
    · cases hd
    · rename_i r hr
      simp only [] at hd
      split at hd
      · cases hd
      · rename_i pad rest1 hT
        split at hd
        · cases hd
        · split at hd
          · cases hd
          · rename_i stored' rest2 hT2
            split at hd
            · cases hd
            · rename_i hne
              simp only [ne_eq, Decidable.not_not] at hne
              split at hd
              · cases hd
              split at hd
              · cases hd
              injection hd with h1 h2
              injection h1 with h3 h4
              subst h2 h3 h4
              obtain ⟨e1, _⟩ := takeN_ok hT
              obtain ⟨e2, l2⟩ := takeN_ok hT2
              refine ⟨hne, l2, inp.take r.consumed ++ pad, ?_⟩
              rw [List.append_assoc, List.append_assoc, ← e2, ← e1, List.take_append_drop]

/-- `readBlocks` with an audit log of every check comparison that succeeded -/
def readBlocksA (multi : Bool) (total : Nat) :
    Nat → Check → List Nat → List Nat → List Block → List Audit → Nat → Out × List Audit
  | 0, _, _, _, _, log, _ => (.capped, log)
  | fuel+1, chk, inp, acc, blks, log, cap =>
    match parseBlockHeader inp with
    | .error e => (.err e, log)
    | .ok (some h, inp') =>
      let r := decodeBlockBodyA chk h (total - inp'.length) inp' cap
      match r.1 with
      | .capped => (.capped, log)
      | .err e => (.err e, log)
      | .ok blk rest =>
        if acc.length + blk.data.length > cap then (.capped, log) else
        readBlocksA multi total fuel chk rest (acc ++ blk.data) (blk :: blks)
          (log ++ [{ chk := chk, stored := r.2, data := blk.data }]) cap
    | .ok (none, inp') =>
      match parseIndex inp' with
      | .error e => (.err e, log)
      | .ok (recs, isize, inp'') =>
        if recs.length ≠ blks.length then (.err .invalidData, log) else
        if recs ≠ (blks.map (blockRecord chk)).reverse then (.err .invalidData, log) else
        match parseFooter inp'' with
        | .error e => (.err e, log)
        | .ok (bs, flags, rest) =>
          if (bs + 1) * 4 ≠ isize then (.err .invalidData, log) else
          if flags ≠ [0, chk.toByte] then (.err .invalidData, log) else
          if ¬ multi then (.ok acc (total - rest.length) blks, log) else
          match nextStream (rest.length + 1) rest 0 with
          | .error e => (.err e, log)
          | .ok none => (.ok acc total blks, log)
          | .ok (some (chk', rest')) => readBlocksA multi total fuel chk' rest' acc [] log cap

def decodeA (multi : Bool) (inp : List Nat) (cap : Nat) : Out × List Audit :=
  match parseStreamHeader inp with
  | .error e => (.err e, [])
  | .ok (chk, rest) => readBlocksA multi inp.length (inp.length + 2) chk rest [] [] [] cap

theorem readBlocksA_fst (multi : Bool) (total cap : Nat) : ∀ (fuel : Nat) (chk : Check) (inp acc : List Nat)
    (blks : List Block) (log : List Audit),
    (readBlocksA multi total fuel chk inp acc blks log cap).1 = readBlocks multi total fuel chk inp acc blks cap := by
  intro fuel
  induction fuel with
  | zero => intro chk inp acc blks log; rfl
  | succ fuel ih =>
    intro chk inp acc blks log
    unfold readBlocksA readBlocks
    generalize parseBlockHeader inp = H
    cases H with
    | error e => rfl
    | ok v =>
      obtain ⟨oh, inp'⟩ := v
      cases oh with
      | some h =>
        simp only [decodeBlockBodyA_fst]
        generalize hB : decodeBlockBody chk h (total - inp'.length) inp' cap = B
        cases B with
        | capped => rfl
        | err e => rfl
        | ok blk rest =>
          simp only []
          split
          · rfl
          · exact ih _ _ _ _ _
      | none =>
        simp only []
        generalize parseIndex inp' = I
        cases I with
        | error e => rfl
        | ok v =>
          obtain ⟨recs, isize, inp''⟩ := v
          simp only []
          split
          · rfl
          · split
            · rfl
            · generalize parseFooter inp'' = F
              cases F with
              | error e => rfl
              | ok v =>
                obtain ⟨bs, flags, rest⟩ := v
                simp only []
                split
                · rfl
                · split
                  · rfl
                  · split
                    · rfl
                    · generalize nextStream (rest.length + 1) rest 0 = N
                      cases N with
                      | error e => rfl
                      | ok o =>
                        cases o with
                        | none => rfl
                        | some p =>
                          obtain ⟨chk', rest'⟩ := p
                          exact ih _ _ _ _ _

theorem decodeA_fst (multi : Bool) (inp : List Nat) (cap : Nat) :
    (decodeA multi inp cap).1 = Xz.decode multi inp cap := by
  unfold decodeA Xz.decode
  generalize parseStreamHeader inp = H
  cases H with
  | error e => rfl
  | ok v => obtain ⟨chk, rest⟩ := v; exact readBlocksA_fst ..

/-! ## Acceptance implies verified checks -/
def Audit.Verified (a : Audit) : Prop := a.stored = a.chk.compute a.data ∧ a.stored.length = a.chk.size

theorem readBlocksA_spec (multi : Bool) (total cap : Nat) : ∀ (fuel : Nat) (chk : Check) (inp acc : List Nat)
    (blks : List Block) (log : List Audit) (d : List Nat) (n : Nat) (b : List Block) (log' : List Audit),
    readBlocksA multi total fuel chk inp acc blks log cap = (.ok d n b, log') →
    ∃ new, log' = log ++ new ∧ (∀ a ∈ new, a.Verified) ∧ d = acc ++ (new.map (·.data)).flatten := by
  intro fuel
  induction fuel with
  | zero => intro chk inp acc blks log d n b log' h; simp [readBlocksA] at h
  | succ fuel ih =>
    intro chk inp acc blks log d n b log' h
    unfold readBlocksA at h
    split at h
    · cases h
    · rename_i hd inp' hH
      simp only [] at h
      split at h
      · cases h
      · cases h
      · rename_i blk rest hB
        split at h
        · cases h
        · obtain ⟨new, h1, h2, h3⟩ := ih _ _ _ _ _ _ _ _ _ h
          have hv := decodeBlockBodyA_ok chk hd (total - inp'.length) inp' cap blk rest
            (decodeBlockBodyA chk hd (total - inp'.length) inp' cap).2 (by rw [← hB])
          refine ⟨{ chk := chk, stored := (decodeBlockBodyA chk hd (total - inp'.length) inp' cap).2, data := blk.data } :: new,
            by rw [h1]; simp, ?_, by rw [h3]; simp⟩
          intro a ha
          rcases List.mem_cons.mp ha with rfl | ha
          · exact ⟨hv.1, hv.2.1⟩
          · exact h2 a ha
    · split at h
      · cases h
      · split at h
        · cases h
        · split at h
          · cases h
          · split at h
            · cases h
            · split at h
              · cases h
              · split at h
                · cases h
                · split at h
                  · injection h with h1 h2
                    injection h1 with h3 h4 h5
                    exact ⟨[], by simp [h2], by simp, by simp [h3]⟩
                  · split at h
                    · cases h
                    · injection h with h1 h2
                      injection h1 with h3 h4 h5
                      exact ⟨[], by simp [h2], by simp, by simp [h3]⟩
                    · exact ih _ _ _ _ _ _ _ _ _ h

/-- **C04: acceptance implies verified checks.**  Whenever the reader accepts an input, the auditing reader
(which returns the same result) has, for every block it output, read `chk.size` bytes from the input and found
them equal to the check computed over that block's data; the output is exactly the concatenation of the
audited blocks' data. -/
theorem decode_accepts_verified (multi : Bool) (inp : List Nat) (cap : Nat) (d : List Nat) (n : Nat) (b : List Block)
    (h : Xz.decode multi inp cap = .ok d n b) :
    ∃ log, decodeA multi inp cap = (.ok d n b, log) ∧ (∀ a ∈ log, a.Verified) ∧ d = (log.map (·.data)).flatten := by
  have hf := decodeA_fst multi inp cap
  rw [h] at hf
  refine ⟨(decodeA multi inp cap).2, by rw [← hf], ?_⟩
  have hA : decodeA multi inp cap = (.ok d n b, (decodeA multi inp cap).2) := by rw [← hf]
  generalize (decodeA multi inp cap).2 = log at hA
  unfold decodeA at hA
  split at hA
  · cases hA
  · obtain ⟨new, h1, h2, h3⟩ := readBlocksA_spec multi _ cap _ _ _ _ _ _ _ _ _ _ hA
    simp only [List.nil_append] at h1 h3
    subst h1
    exact ⟨h2, h3⟩

end LzmaVerif.Xz
