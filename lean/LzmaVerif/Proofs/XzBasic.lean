import LzmaVerif.Model.Xz
import LzmaVerif.Props.C02
/-! Basic facts for the XZ container proofs: byte lists, `takeN`, little-endian words, CRC range,
multibyte integers as the container reader sees them. -/
namespace LzmaVerif.Xz
open LzmaVerif Lzma Checks

def Bytes (xs : List Nat) : Prop := ∀ x ∈ xs, x < 256

theorem Bytes.nil : Bytes [] := by intro x h; cases h
theorem Bytes.cons {x : Nat} {xs : List Nat} (h : x < 256) (hs : Bytes xs) : Bytes (x :: xs) := by
  intro y hy
  rcases List.mem_cons.mp hy with rfl | h'
  · exact h
  · exact hs y h'
theorem Bytes.append {xs ys : List Nat} (h1 : Bytes xs) (h2 : Bytes ys) : Bytes (xs ++ ys) := by
  intro y hy
  rcases List.mem_append.mp hy with h | h
  · exact h1 y h
  · exact h2 y h
theorem Bytes.replicate0 (n : Nat) : Bytes (List.replicate n 0) := by
  intro y hy
  rw [List.mem_replicate] at hy
  omega

/-! ### takeN -/
theorem takeN_append (n : Nat) (xs r : List Nat) (h : xs.length = n) :
    takeN n (xs ++ r) = .ok (xs, r) := by
  subst h
  unfold takeN
  have : ¬ ((xs ++ r).length < xs.length) := by simp
  rw [if_neg this, List.take_left, List.drop_left]

theorem takeN_ok {n : Nat} {inp a b : List Nat} (h : takeN n inp = .ok (a, b)) :
    inp = a ++ b ∧ a.length = n := by
  unfold takeN at h
  split at h
  · cases h
  · rename_i hl
    injection h with h
    injection h with h1 h2
    subst h1; subst h2
    exact ⟨(List.take_append_drop n inp).symm, by rw [List.length_take]; omega⟩

/-! ### little-endian words -/
theorem le_length (n v : Nat) : (le n v).length = n := by simp [le]

theorem le_succ (n v : Nat) : le (n + 1) v = v % 256 :: le n (v / 256) := by
  unfold le
  rw [List.range_succ_eq_map]
  simp only [List.map_cons, List.map_map, Nat.pow_zero, Nat.div_one]
  congr 1
  apply List.map_congr_left
  intro i _
  simp only [Function.comp, Nat.pow_succ]
  rw [Nat.mul_comm, Nat.div_div_eq_div_mul]

theorem le_bytes (n v : Nat) : Bytes (le n v) := by
  intro x hx
  simp only [le, List.mem_map] at hx
  obtain ⟨i, _, rfl⟩ := hx
  exact Nat.mod_lt _ (by decide)

theorem ofLe_le (n : Nat) : ∀ v, v < 256 ^ n → ofLe (le n v) = v := by
  induction n with
  | zero => intro v hv; simp at hv; subst hv; rfl
  | succ n ih =>
    intro v hv
    rw [le_succ]
    have h1 : v / 256 < 256 ^ n := by
      rw [Nat.pow_succ] at hv
      exact (Nat.div_lt_iff_lt_mul (by decide)).mpr hv
    have := ih (v / 256) h1
    simp only [ofLe, List.foldr_cons] at this ⊢
    rw [this]
    have := Nat.div_add_mod v 256
    omega

/-! ### CRC-32 range -/
theorem crcStep_lt (poly : Nat) (hp : poly < 2 ^ 32) : ∀ (n c : Nat), c < 2 ^ 32 → crcStep poly c n < 2 ^ 32 := by
  intro n
  induction n with
  | zero => intro c hc; simpa [crcStep] using hc
  | succ n ih =>
    intro c hc
    simp only [crcStep]
    apply ih
    split
    · exact Nat.xor_lt_two_pow (by omega) hp
    · omega

theorem crc32_lt (bs : List Nat) (hb : Bytes bs) : crc32 bs < 2 ^ 32 := by
  unfold crc32
  apply Nat.xor_lt_two_pow _ (by decide)
  have : ∀ (bs : List Nat) (c : Nat), Bytes bs → c < 2 ^ 32 →
      bs.foldl (crcByte 0xEDB88320) c < 2 ^ 32 := by
    intro bs
    induction bs with
    | nil => intro c _ hc; simpa using hc
    | cons b bs ih =>
      intro c hb hc
      simp only [List.foldl_cons]
      apply ih
      · intro x hx; exact hb x (List.mem_cons_of_mem _ hx)
      · unfold crcByte
        apply crcStep_lt _ (by decide)
        apply Nat.xor_lt_two_pow hc
        have := hb b (List.mem_cons_self)
        omega
  exact this bs _ hb (by decide)

theorem ofLe_le_crc32 (bs : List Nat) (hb : Bytes bs) : ofLe (le 4 (crc32 bs)) = crc32 bs :=
  ofLe_le 4 _ (by have := crc32_lt bs hb; omega)

/-! ### check values -/
theorem compute_length (c : Check) (data : List Nat) : (c.compute data).length = c.size := by
  cases c
  · rfl
  · exact le_length _ _
  · exact le_length _ _
  · simp [Check.compute, Check.size, sha256, be, le_length]

theorem size_mod4 (c : Check) : c.size % 4 = 0 := by cases c <;> rfl

theorem toByte_lt (c : Check) : c.toByte < 256 := by cases c <;> decide

theorem ofByte_toByte (c : Check) : Check.ofByte c.toByte = some c := by cases c <;> rfl

/-! ### multibyte integers -/
theorem mb_spec (v : Nat) (hv : v < 2 ^ 63) :
    1 ≤ (mb v).length ∧ (mb v).length ≤ 9 ∧ Bytes (mb v) ∧ ∀ r, mbReader (mb v ++ r) = .ok (v, r) := by
  have h63 : ¬ (v > 2 ^ 63 - 1) := by omega
  have hmb : mb v = XzInt.encodeFuel 10 v := by
    simp only [mb, XzInt.encode, h63, if_false, Option.getD_some]
  refine ⟨?_, ?_, ?_, ?_⟩
  · obtain ⟨bs, h1, h2, h3, h4⟩ := Props.C02.multibyte_rt v hv []
    simp only [XzInt.encode, h63, if_false, Option.some.injEq] at h1
    rw [hmb, h1, h2]
    simp only [XzInt.sizeFor, XzInt.sizeForFuel]
    split <;> omega
  · obtain ⟨bs, h1, h2, h3, h4⟩ := Props.C02.multibyte_rt v hv []
    simp only [XzInt.encode, h63, if_false, Option.some.injEq] at h1
    rw [hmb, h1]; exact h3
  · rw [hmb]
    have : ∀ (f v : Nat), Bytes (XzInt.encodeFuel f v) := by
      intro f
      induction f with
      | zero => intro v; exact Bytes.nil
      | succ f ih =>
        intro v
        simp only [XzInt.encodeFuel]
        split
        · exact Bytes.cons (by omega) Bytes.nil
        · exact Bytes.cons (by omega) (ih _)
    exact this _ _
  · intro r
    obtain ⟨bs, h1, h2, h3, h4⟩ := Props.C02.multibyte_rt v hv r
    simp only [XzInt.encode, h63, if_false, Option.some.injEq] at h1
    rw [hmb, h1]
    unfold mbReader
    rw [h4]
    simp only [List.drop_left]

theorem mbSlice_small (b : Nat) (r : List Nat) (hb : b < 128) : mbSlice (b :: r) = .ok (b, r) := by
  unfold mbSlice XzInt.parseSlice
  simp only [XzInt.parseSliceAux]
  have h2 : b % 128 = b := Nat.mod_eq_of_lt hb
  simp [hb, h2]

end LzmaVerif.Xz
