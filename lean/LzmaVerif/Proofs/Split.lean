/-
Proofs about the block / member / unit splitting model (`LzmaVerif.Model.Split`).

Main results (for every list of write-call lengths, zeros included):
* `mtUnits lim parts = ideal lim parts.sum` for every `lim > 0`;
* `xzBlocks lim parts = ideal lim parts.sum` for every `lim ≥ 2`, and for `lim = 1` as long as every
  write call has length `≤ 2`.  For `lim = 1` and a write call of length `≥ 3` the statement is FALSE
  *for the model*: the fuel `n + 2` passed by `lazyRun` to `lazyWrite` is too small (the loop needs
  `2 * n` iterations when `lim = 1`), see `xzBlocks_lim1_counterexample`.
* `lzipMembers` likewise, with the "empty input gives one empty member" special case.
Core Lean only.
-/
import LzmaVerif.Model.Split

namespace LzmaVerif.Split

/-! ### `ideal` -/

theorem ideal_zero (lim : Nat) : ideal lim 0 = [] := by
  simp [ideal]

/-- the key algebraic fact -/
theorem ideal_add_lim (lim a : Nat) (hl : 0 < lim) : ideal lim (a + lim) = lim :: ideal lim a := by
  unfold ideal
  rw [Nat.add_div_right a hl, Nat.add_mod_right, List.replicate_succ]
  rfl

theorem ideal_lim_add (lim a : Nat) (hl : 0 < lim) : ideal lim (lim + a) = lim :: ideal lim a := by
  rw [Nat.add_comm, ideal_add_lim lim a hl]

theorem ideal_sum (lim total : Nat) (_hl : 0 < lim) : (ideal lim total).sum = total := by
  have hdm := Nat.div_add_mod total lim
  unfold ideal
  rw [List.sum_append, List.sum_replicate_nat]
  by_cases h : total % lim > 0
  · rw [if_pos h]
    simp only [List.sum_cons, List.sum_nil, Nat.add_zero]
    rw [Nat.mul_comm]; exact hdm
  · rw [if_neg h]
    have h0 : total % lim = 0 := by omega
    simp only [List.sum_nil, Nat.add_zero]
    rw [Nat.mul_comm]; omega

theorem ideal_bound (lim total : Nat) (hl : 0 < lim) : ∀ b ∈ ideal lim total, 0 < b ∧ b ≤ lim := by
  intro b hb
  unfold ideal at hb
  rcases List.mem_append.mp hb with h | h
  · have := (List.mem_replicate.mp h).2
    subst this
    exact ⟨hl, Nat.le_refl _⟩
  · by_cases hp : total % lim > 0
    · rw [if_pos hp] at h
      have hb' : b = total % lim := by simpa using h
      have := Nat.mod_lt total hl
      omega
    · rw [if_neg hp] at h
      cases h

theorem ideal_all_but_last_full (lim total : Nat) (_hl : 0 < lim) :
    ∀ b ∈ (ideal lim total).dropLast, b = lim := by
  intro b hb
  unfold ideal at hb
  by_cases hp : total % lim > 0
  · rw [if_pos hp] at hb
    rw [List.dropLast_concat] at hb
    exact (List.mem_replicate.mp hb).2
  · rw [if_neg hp, List.append_nil] at hb
    exact (List.mem_replicate.mp (List.dropLast_subset _ hb)).2

theorem ideal_eq_nil_iff (lim total : Nat) (hl : 0 < lim) : ideal lim total = [] ↔ total = 0 := by
  constructor
  · intro h
    have := ideal_sum lim total hl
    rw [h] at this
    simpa using this.symm
  · intro h
    subst h
    exact ideal_zero lim

/-! ### the lazy splitter (`XZWriter`, `LZIPWriter`) -/

/-- What a correct `write` call does: the new fill is within the limit, and the closed blocks followed
by any ideal continuation from the new fill are the ideal continuation from the old state. -/
def WriteSpec (lim fill n : Nat) (r : List Nat × Nat) : Prop :=
  r.2 ≤ lim ∧ ∀ m, r.1 ++ ideal lim (r.2 + m) = ideal lim (fill + n + m)

theorem lazyWrite_zero (lim fuel fill : Nat) : lazyWrite lim fuel fill 0 = ([], fill) := by
  cases fuel <;> simp [lazyWrite]

/-- single-step induction on the fuel, with the potential `n + [fill ≠ 0]` (needs `lim ≥ 2`) -/
theorem lazyWrite_spec_aux (lim : Nat) (hl : 2 ≤ lim) :
    ∀ fuel fill n, fill ≤ lim → n + (if fill = 0 then 0 else 1) ≤ fuel →
      WriteSpec lim fill n (lazyWrite lim fuel fill n) := by
  intro fuel
  induction fuel with
  | zero =>
    intro fill n hf hfuel
    have hn : n = 0 := by omega
    subst hn
    rw [lazyWrite_zero]
    exact ⟨hf, fun m => rfl⟩
  | succ fuel ih =>
    intro fill n hf hfuel
    by_cases hn : n = 0
    · subst hn
      rw [lazyWrite_zero]
      exact ⟨hf, fun m => rfl⟩
    · by_cases hfull : fill ≥ lim
      · -- close the full block, continue with an empty one
        have hfl : fill = lim := by omega
        subst hfl
        have hfuel' : n + (if (0 : Nat) = 0 then 0 else 1) ≤ fuel := by
          rw [if_neg (by omega)] at hfuel
          rw [if_pos rfl]; omega
        have h := ih 0 n (Nat.zero_le _) hfuel'
        have hstep : lazyWrite fill (fuel + 1) fill n
            = (fill :: (lazyWrite fill fuel 0 n).1, (lazyWrite fill fuel 0 n).2) := by
          rw [lazyWrite, if_neg hn, if_pos hfull]
        rw [hstep]
        refine ⟨h.1, fun m => ?_⟩
        show fill :: ((lazyWrite fill fuel 0 n).1 ++ ideal fill ((lazyWrite fill fuel 0 n).2 + m)) = _
        rw [h.2 m, Nat.zero_add, Nat.add_assoc fill n m, ideal_lim_add fill _ (by omega)]
      · -- copy `k` bytes into the open block
        have hstep : lazyWrite lim (fuel + 1) fill n
            = lazyWrite lim fuel (fill + min n (lim - fill)) (n - min n (lim - fill)) := by
          rw [lazyWrite, if_neg hn, if_neg hfull]
        rw [hstep]
        by_cases hk : n ≤ lim - fill
        · -- everything fits
          have hmin : min n (lim - fill) = n := Nat.min_eq_left hk
          rw [hmin, Nat.sub_self, lazyWrite_zero]
          exact ⟨by show fill + n ≤ lim; omega, fun m => rfl⟩
        · have hmin : min n (lim - fill) = lim - fill := Nat.min_eq_right (by omega)
          rw [hmin]
          have hfill' : fill + (lim - fill) = lim := by omega
          rw [hfill']
          have hfuel' : (n - (lim - fill)) + (if lim = 0 then 0 else 1) ≤ fuel := by
            rw [if_neg (by omega)]
            by_cases h0 : fill = 0
            · rw [if_pos h0] at hfuel; omega
            · rw [if_neg h0] at hfuel; omega
          have h := ih lim (n - (lim - fill)) (Nat.le_refl _) hfuel'
          refine ⟨h.1, fun m => ?_⟩
          rw [h.2 m]
          congr 1
          omega

/-- a write call of length `n` is handled correctly (with the fuel `n + 2` the model passes) -/
def WriteOk (lim n : Nat) : Prop :=
  ∀ fill, fill ≤ lim → WriteSpec lim fill n (lazyWrite lim (n + 2) fill n)

theorem writeOk_of_two_le (lim : Nat) (hl : 2 ≤ lim) (n : Nat) : WriteOk lim n := by
  intro fill hf
  apply lazyWrite_spec_aux lim hl (n + 2) fill n hf
  split <;> omega

/-- with `lim = 1` the fuel is still enough for write calls of length at most 2 -/
theorem writeOk_one (n : Nat) (hn : n ≤ 2) : WriteOk 1 n := by
  intro fill hf
  have hfill : fill = 0 ∨ fill = 1 := by omega
  have hn' : n = 0 ∨ n = 1 ∨ n = 2 := by omega
  have h1 : ∀ m, ideal 1 (1 + m) = 1 :: ideal 1 m := fun m => ideal_lim_add 1 m (by decide)
  have h2 : ∀ m, ideal 1 (2 + m) = 1 :: 1 :: ideal 1 m := fun m => by
    rw [show 2 + m = 1 + (1 + m) by omega, h1, h1]
  have h3 : ∀ m, ideal 1 (3 + m) = 1 :: 1 :: 1 :: ideal 1 m := fun m => by
    rw [show 3 + m = 1 + (2 + m) by omega, h1, h2]
  rcases hfill with rfl | rfl <;> rcases hn' with rfl | rfl | rfl <;>
    refine ⟨by decide, fun m => ?_⟩ <;>
    simp only [lazyWrite, Nat.zero_add, Nat.add_zero] <;>
    simp [h1, h2, h3]

/-- `lazyRun` from any admissible fill, provided every write call is handled correctly -/
theorem lazyRun_eq_ideal (lim : Nat) (hl : 0 < lim) :
    ∀ parts fill, fill ≤ lim → (∀ n ∈ parts, WriteOk lim n) →
      lazyRun lim parts fill = ideal lim (fill + parts.sum) := by
  intro parts
  induction parts with
  | nil =>
    intro fill hf _
    simp only [lazyRun, List.sum_nil, Nat.add_zero]
    by_cases h0 : fill > 0
    · rw [if_pos h0]
      by_cases hfl : fill = lim
      · subst hfl
        have := ideal_lim_add fill 0 hl
        rw [Nat.add_zero, ideal_zero] at this
        exact this.symm
      · have hlt : fill < lim := by omega
        unfold ideal
        rw [Nat.div_eq_of_lt hlt, Nat.mod_eq_of_lt hlt, if_pos h0]
        rfl
    · rw [if_neg h0]
      have : fill = 0 := by omega
      subst this
      exact (ideal_zero lim).symm
  | cons n rest ih =>
    intro fill hf hok
    have hw := hok n (List.mem_cons_self) fill hf
    have hrest : ∀ x ∈ rest, WriteOk lim x := fun x hx => hok x (List.mem_cons_of_mem _ hx)
    show (lazyWrite lim (n + 2) fill n).1 ++ lazyRun lim rest (lazyWrite lim (n + 2) fill n).2 = _
    rw [ih _ hw.1 hrest, hw.2 rest.sum, List.sum_cons, Nat.add_assoc]

/-- the precise admissibility condition under which the model's fuel is sufficient -/
def LazyAdmissible (lim : Nat) (parts : List Nat) : Prop :=
  2 ≤ lim ∨ (lim = 1 ∧ ∀ n ∈ parts, n ≤ 2)

theorem xzBlocks_eq_ideal_of_admissible (lim : Nat) (parts : List Nat)
    (h : LazyAdmissible lim parts) : xzBlocks lim parts = ideal lim parts.sum := by
  unfold xzBlocks
  rcases h with h2 | ⟨h1, hp⟩
  · have := lazyRun_eq_ideal lim (by omega) parts 0 (Nat.zero_le _)
      (fun n _ => writeOk_of_two_le lim h2 n)
    rw [Nat.zero_add] at this
    exact this
  · subst h1
    have := lazyRun_eq_ideal 1 (by omega) parts 0 (Nat.zero_le _)
      (fun n hn => writeOk_one n (hp n hn))
    rw [Nat.zero_add] at this
    exact this

/-- CORRECTED main statement (the original with `0 < lim` is false for `lim = 1`, see below). -/
theorem xzBlocks_eq_ideal (lim : Nat) (hl : 2 ≤ lim) (parts : List Nat) :
    xzBlocks lim parts = ideal lim parts.sum :=
  xzBlocks_eq_ideal_of_admissible lim parts (Or.inl hl)

/-- `lim = 1` variant: fine as long as no single write call is longer than 2 bytes. -/
theorem xzBlocks_eq_ideal_lim1 (parts : List Nat) (hp : ∀ n ∈ parts, n ≤ 2) :
    xzBlocks 1 parts = ideal 1 parts.sum :=
  xzBlocks_eq_ideal_of_admissible 1 parts (Or.inr ⟨rfl, hp⟩)

/-- The statement requested with `0 < lim` is FALSE for the model when `lim = 1`: the fuel `n + 2`
runs out (one byte is lost per missing iteration pair). -/
theorem xzBlocks_lim1_counterexample :
    xzBlocks 1 [5] = [1, 1, 1, 1] ∧ ideal 1 [5].sum = [1, 1, 1, 1, 1] := by decide

theorem not_xzBlocks_eq_ideal_all_lim :
    ¬ ∀ (lim : Nat), 0 < lim → ∀ parts : List Nat, xzBlocks lim parts = ideal lim parts.sum := by
  intro h
  exact absurd (h 1 (by decide) [5]) (by decide)

theorem lzipMembers_eq_of_admissible (lim : Nat) (parts : List Nat)
    (h : LazyAdmissible lim parts) :
    lzipMembers lim parts = if parts.sum = 0 then [0] else ideal lim parts.sum := by
  have hl : 0 < lim := by
    rcases h with h | ⟨h, _⟩ <;> omega
  have hx := xzBlocks_eq_ideal_of_admissible lim parts h
  unfold xzBlocks at hx
  unfold lzipMembers
  rw [hx]
  by_cases h0 : parts.sum = 0
  · rw [if_pos h0, h0, ideal_zero]
  · rw [if_neg h0]
    have hne : ideal lim parts.sum ≠ [] := fun hnil => h0 ((ideal_eq_nil_iff lim _ hl).mp hnil)
    cases hi : ideal lim parts.sum with
    | nil => exact absurd hi hne
    | cons a l => rfl

/-- CORRECTED main statement for `LZIPWriter` (needs `2 ≤ lim` for the same reason). -/
theorem lzipMembers_eq (lim : Nat) (hl : 2 ≤ lim) (parts : List Nat) :
    lzipMembers lim parts = if parts.sum = 0 then [0] else ideal lim parts.sum :=
  lzipMembers_eq_of_admissible lim parts (Or.inl hl)

theorem lzipMembers_eq_lim1 (parts : List Nat) (hp : ∀ n ∈ parts, n ≤ 2) :
    lzipMembers 1 parts = if parts.sum = 0 then [0] else ideal 1 parts.sum :=
  lzipMembers_eq_of_admissible 1 parts (Or.inr ⟨rfl, hp⟩)

theorem xzBlocks_partition_independent (lim : Nat) (hl : 2 ≤ lim) (p q : List Nat)
    (h : p.sum = q.sum) : xzBlocks lim p = xzBlocks lim q := by
  rw [xzBlocks_eq_ideal lim hl p, xzBlocks_eq_ideal lim hl q, h]

theorem lzipMembers_partition_independent (lim : Nat) (hl : 2 ≤ lim) (p q : List Nat)
    (h : p.sum = q.sum) : lzipMembers lim p = lzipMembers lim q := by
  rw [lzipMembers_eq lim hl p, lzipMembers_eq lim hl q, h]

/-! ### the eager splitter (MT writers) -/

theorem eagerWrite_zero (lim fuel fill : Nat) : eagerWrite lim fuel fill 0 = ([], fill) := by
  cases fuel <;> simp [eagerWrite]

/-- as `WriteSpec`, but the open unit is never left full -/
def EagerSpec (lim fill n : Nat) (r : List Nat × Nat) : Prop :=
  r.2 < lim ∧ ∀ m, r.1 ++ ideal lim (r.2 + m) = ideal lim (fill + n + m)

theorem eagerWrite_spec_aux (lim : Nat) (hl : 0 < lim) :
    ∀ fuel fill n, fill < lim → n ≤ fuel → EagerSpec lim fill n (eagerWrite lim fuel fill n) := by
  intro fuel
  induction fuel with
  | zero =>
    intro fill n hf hfuel
    have hn : n = 0 := by omega
    subst hn
    rw [eagerWrite_zero]
    exact ⟨hf, fun m => rfl⟩
  | succ fuel ih =>
    intro fill n hf hfuel
    by_cases hn : n = 0
    · subst hn
      rw [eagerWrite_zero]
      exact ⟨hf, fun m => rfl⟩
    · by_cases hk : n < lim - fill
      · -- the unit does not fill up
        have hmin : min n (lim - fill) = n := Nat.min_eq_left (by omega)
        have hstep : eagerWrite lim (fuel + 1) fill n = ([], fill + n) := by
          rw [eagerWrite, if_neg hn]
          simp only [hmin]
          rw [if_neg (by omega)]
        rw [hstep]
        exact ⟨by show fill + n < lim; omega, fun m => rfl⟩
      · -- the unit fills up and is dispatched
        have hmin : min n (lim - fill) = lim - fill := Nat.min_eq_right (by omega)
        have hfill' : fill + (lim - fill) = lim := by omega
        have hstep : eagerWrite lim (fuel + 1) fill n
            = (lim :: (eagerWrite lim fuel 0 (n - (lim - fill))).1,
                (eagerWrite lim fuel 0 (n - (lim - fill))).2) := by
          rw [eagerWrite, if_neg hn]
          simp only [hmin, hfill']
          rw [if_pos (Nat.le_refl _)]
        rw [hstep]
        have h := ih 0 (n - (lim - fill)) hl (by omega)
        refine ⟨h.1, fun m => ?_⟩
        show lim :: ((eagerWrite lim fuel 0 (n - (lim - fill))).1
              ++ ideal lim ((eagerWrite lim fuel 0 (n - (lim - fill))).2 + m)) = _
        rw [h.2 m, ← ideal_lim_add lim _ hl]
        congr 1
        omega

theorem eagerRun_eq_ideal (lim : Nat) (hl : 0 < lim) :
    ∀ parts fill, fill < lim → eagerRun lim parts fill = ideal lim (fill + parts.sum) := by
  intro parts
  induction parts with
  | nil =>
    intro fill hf
    simp only [eagerRun, List.sum_nil, Nat.add_zero]
    unfold ideal
    rw [Nat.div_eq_of_lt hf, Nat.mod_eq_of_lt hf]
    rfl
  | cons n rest ih =>
    intro fill hf
    have hw := eagerWrite_spec_aux lim hl (n + 2) fill n hf (by omega)
    show (eagerWrite lim (n + 2) fill n).1 ++ eagerRun lim rest (eagerWrite lim (n + 2) fill n).2 = _
    rw [ih _ hw.1, hw.2 rest.sum, List.sum_cons, Nat.add_assoc]

theorem mtUnits_eq_ideal (lim : Nat) (hl : 0 < lim) (parts : List Nat) :
    mtUnits lim parts = ideal lim parts.sum := by
  unfold mtUnits
  have := eagerRun_eq_ideal lim hl parts 0 hl
  rw [Nat.zero_add] at this
  exact this

theorem mtUnits_partition_independent (lim : Nat) (hl : 0 < lim) (p q : List Nat)
    (h : p.sum = q.sum) : mtUnits lim p = mtUnits lim q := by
  rw [mtUnits_eq_ideal lim hl p, mtUnits_eq_ideal lim hl q, h]

/-- the lazy and the eager splitter agree -/
theorem xzBlocks_eq_mtUnits (lim : Nat) (hl : 2 ≤ lim) (parts : List Nat) :
    xzBlocks lim parts = mtUnits lim parts := by
  rw [xzBlocks_eq_ideal lim hl, mtUnits_eq_ideal lim (by omega)]

/-! ### consequences stated on the writers directly -/

theorem xzBlocks_sum (lim : Nat) (hl : 2 ≤ lim) (parts : List Nat) :
    (xzBlocks lim parts).sum = parts.sum := by
  rw [xzBlocks_eq_ideal lim hl, ideal_sum lim _ (by omega)]

theorem xzBlocks_bound (lim : Nat) (hl : 2 ≤ lim) (parts : List Nat) :
    ∀ b ∈ xzBlocks lim parts, 0 < b ∧ b ≤ lim := by
  rw [xzBlocks_eq_ideal lim hl]; exact ideal_bound lim _ (by omega)

theorem mtUnits_sum (lim : Nat) (hl : 0 < lim) (parts : List Nat) :
    (mtUnits lim parts).sum = parts.sum := by
  rw [mtUnits_eq_ideal lim hl, ideal_sum lim _ hl]

theorem mtUnits_bound (lim : Nat) (hl : 0 < lim) (parts : List Nat) :
    ∀ b ∈ mtUnits lim parts, 0 < b ∧ b ≤ lim := by
  rw [mtUnits_eq_ideal lim hl]; exact ideal_bound lim _ hl

/-! ### non-vacuity -/

example : xzBlocks 10 [25, 0, 5, 3, 17] = [10, 10, 10, 10, 10] := by decide
example : xzBlocks 10 [25, 0, 5, 3, 18] = [10, 10, 10, 10, 10, 1] := by decide
example : xzBlocks 10 [0, 0] = [] := by decide
example : lzipMembers 10 [0, 0] = [0] := by decide
example : lzipMembers 10 [7, 0, 3, 1] = [10, 1] := by decide
example : mtUnits 10 [25, 0, 5, 3, 17] = [10, 10, 10, 10, 10] := by decide
example : mtUnits 1 [5] = [1, 1, 1, 1, 1] := by decide
example : ideal 10 50 = [10, 10, 10, 10, 10] := by decide
example : xzBlocks 1 [2, 0, 1, 2] = [1, 1, 1, 1, 1] := by decide
example : xzBlocks 2 [7] = [2, 2, 2, 1] := by decide

#print axioms xzBlocks_eq_ideal
#print axioms xzBlocks_eq_ideal_lim1
#print axioms not_xzBlocks_eq_ideal_all_lim
#print axioms mtUnits_eq_ideal
#print axioms lzipMembers_eq
#print axioms ideal_sum
#print axioms ideal_bound
#print axioms ideal_all_but_last_full
#print axioms xzBlocks_partition_independent
#print axioms mtUnits_partition_independent
#print axioms xzBlocks_eq_mtUnits

end LzmaVerif.Split
